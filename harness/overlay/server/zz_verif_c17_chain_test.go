//go:build verif

package server

// C17 end-to-end driver: the real default chain (everything ahead of the
// resolver, in its registered order) with a counting stand-in for the
// resolver. For generated access lists and sources it sends the same query
// over the wire fast path (ServeRaw on a strict job), the decoded path
// (ServeMsg, UDP-like writer) and a TCP-like writer, both for a name that is
// already cached and for a cold name, and records: did the client get a
// reply, how many times was the resolver stand-in reached.

import (
	"bytes"
	"context"
	"encoding/base64"
	"encoding/binary"
	"encoding/json"
	"fmt"
	"math/big"
	"math/rand"
	"net"
	"net/http"
	"net/http/httptest"
	"net/netip"
	"os"
	"strconv"
	"strings"
	"testing"
	"time"

	"github.com/miekg/dns"
	"github.com/semihalev/sdns/config"
	"github.com/semihalev/sdns/internal/mock"
	"github.com/semihalev/sdns/middleware"
	"github.com/semihalev/sdns/middleware/defaults"
)

type vC17Witness struct {
	calls int
	q, pq middleware.Queryer // what autoWire injected: the real chain's internal sub-pipelines
}

func (w *vC17Witness) SetQueryer(q middleware.Queryer)         { w.q = q }
func (w *vC17Witness) SetPrefetchQueryer(q middleware.Queryer) { w.pq = q }

func (w *vC17Witness) Name() string { return "verif-c17-witness" }
func (w *vC17Witness) ServeDNS(ctx context.Context, ch *middleware.Chain) {
	w.calls++
	_, req := ch.Materialize(ctx)
	if req == nil {
		return
	}
	resp := new(dns.Msg)
	resp.SetReply(req)
	resp.RecursionAvailable = true
	resp.Answer = []dns.RR{&dns.A{Hdr: dns.RR_Header{Name: req.Question[0].Name, Rrtype: dns.TypeA, Class: dns.ClassINET, Ttl: 300}, A: net.IPv4(192, 0, 2, 77)}}
	_ = ch.Writer.WriteMsg(resp)
	ch.Cancel()
}

// vC17Job is the owned-transport job (strict slots, wire lease) reporting an arbitrary remote address:
// *net.UDPAddr = the UDP engine's job, *net.TCPAddr = the TCP / DoT engine's job.
type vC17Job struct {
	strictTestJob
	addr net.Addr
}

func (j *vC17Job) RemoteAddr() net.Addr { return j.addr }

// vC17Plain is a transport of the DoQ kind: a Proto() method, no Internal() method, whatever address it is given.
type vC17Plain struct {
	addr  net.Addr
	proto string
	msg   *dns.Msg
}

func (t *vC17Plain) LocalAddr() net.Addr       { return &net.UDPAddr{IP: net.IPv4(127, 0, 0, 1), Port: 853} }
func (t *vC17Plain) RemoteAddr() net.Addr      { return t.addr }
func (t *vC17Plain) Proto() string             { return t.proto }
func (t *vC17Plain) WriteMsg(m *dns.Msg) error { t.msg = m; return nil }
func (t *vC17Plain) Write(b []byte) (int, error) {
	t.msg = new(dns.Msg)
	return len(b), t.msg.Unpack(b)
}
func (t *vC17Plain) Close() error { return nil }

// vC17Declares is a transport that itself declares the request internal (the supported channel of Reset)
type vC17Declares struct{ vC17Plain }

func (t *vC17Declares) Internal() bool { return true }

// vC17Conn is the connection a TCP / DoT job currently serves: only its peer address and the bytes written matter
type vC17Conn struct {
	remote net.TCPAddr
	wrote  int
}

func (c *vC17Conn) Read(b []byte) (int, error)       { return 0, os.ErrClosed }
func (c *vC17Conn) Write(b []byte) (int, error)      { c.wrote += len(b); return len(b), nil }
func (c *vC17Conn) Close() error                     { return nil }
func (c *vC17Conn) LocalAddr() net.Addr              { return &net.TCPAddr{IP: net.IPv4(127, 0, 0, 1), Port: 53} }
func (c *vC17Conn) RemoteAddr() net.Addr             { return &c.remote }
func (c *vC17Conn) SetDeadline(time.Time) error      { return nil }
func (c *vC17Conn) SetReadDeadline(time.Time) error  { return nil }
func (c *vC17Conn) SetWriteDeadline(time.Time) error { return nil }

// vC17Slabs are the server's OWN long-lived transport jobs, as the engines keep them: one udpJob (the
// slab whose cached remote view setRemote rewrites in place for every datagram) and one tcpJob (the slab a
// connection loop hands its current connection for every frame). Each owns its chain and is bound to it
// again for every packet it carries, so a slab meets many sources in its life.
type vC17Slabs struct {
	udp  *udpJob
	tcp  *tcpJob
	uses [2]int
	last [2]string // the source the slab served before this one
}

func vC17NewSlabs() *vC17Slabs {
	return &vC17Slabs{udp: &udpJob{burst: &udpTXBurst{}}, tcp: newTCPJob(nil, false)}
}

// vC17ServeSlab carries one packet from (ip, port) on the long-lived job of the path's transport
// (0: UDP worker ServeRaw, 3: UDP reader inline pass + replay, 4: TCP / DoT connection loop), doing what
// the engine does around the call: the per-packet remote / connection, the written flag, the release.
func vC17ServeSlab(s *Server, sl *vC17Slabs, path int, ip net.IP, port int, q *dns.Msg) (remote string, replied bool, prev string, uses int) {
	raw, _ := q.Pack()
	now := time.Now()
	a, _ := netip.AddrFromSlice(ip)
	vC17LastReply = nil
	if path == 4 {
		j := sl.tcp
		conn := &vC17Conn{remote: net.TCPAddr{IP: ip, Port: port}}
		stream := &tcpStream{}
		stream.reset(conn)
		j.conn, j.stream, j.written, j.readTime = conn, stream, false, now
		copy(j.rx, raw)
		s.ServeRaw(j, j.rx[:len(raw)], now)
		replied = j.written || stream.held > 0 || conn.wrote > 0
		if stream.held > 2 {
			vC17LastReply = vC17Decode(stream.drain[2:stream.held])
		}
		remote = vC17CoqRemote(j)
		_ = stream.flush()
		if stream.wait != nil {
			stream.wait.Stop()
		}
		prev, uses = sl.last[1], sl.uses[1]
		sl.last[1], sl.uses[1] = a.String(), uses+1
		return
	}
	j := sl.udp
	j.setRemote(netip.AddrPortFrom(a, uint16(port)))
	j.rxLen = copy(j.rx[:], raw)
	j.readTime = now
	j.written, j.txLen, j.replay = false, 0, false
	if path == 3 {
		if !s.ServeRawInline(j, j.rx[:j.rxLen], now) && !j.written {
			j.replay = true
			s.ServeRawReplay(j, j.rx[:j.rxLen], now)
		}
	} else {
		s.ServeRaw(j, j.rx[:j.rxLen], now)
	}
	replied = j.written || j.txLen > 0
	remote = vC17CoqRemote(j)
	vC17LastReply = vC17Decode(j.tx[:j.txLen])
	j.written, j.txLen, j.replay, j.rxLen = false, 0, false, 0
	prev, uses = sl.last[0], sl.uses[0]
	sl.last[0], sl.uses[0] = a.String(), uses+1
	return
}

func vC17CoqIP(ip net.IP) string {
	switch len(ip) {
	case 4:
		return fmt.Sprintf("(Some (mk_addr true %s))", new(big.Int).SetBytes(ip).String())
	case 16:
		return fmt.Sprintf("(Some (mk_addr false %s))", new(big.Int).SetBytes(ip).String())
	}
	return "None"
}

// vC17CoqRemote renders what a transport reports (address type, IP bytes, port, Internal() method if any)
// as the model's [remote]
func vC17CoqRemote(tr middleware.Transport) string {
	kind, ip, port := "KOther", "None", 0
	switch x := tr.RemoteAddr().(type) {
	case *net.UDPAddr:
		kind, ip, port = "KUdp", vC17CoqIP(x.IP), x.Port
	case *net.TCPAddr:
		kind, ip, port = "KTcp", vC17CoqIP(x.IP), x.Port
	case *net.IPAddr:
		ip = vC17CoqIP(x.IP)
	}
	says := "None"
	if i, ok := tr.(interface{ Internal() bool }); ok {
		says = fmt.Sprintf("(Some %v)", i.Internal())
	}
	return fmt.Sprintf("(mk_remote %s %s %d %s)", kind, ip, port, says)
}

var vC17HTTPCount int

// vC17LastReply is the reply the last vC17Serve / vC17ServeSlab call put on its transport (nil: none, or undecodable)
var vC17LastReply *dns.Msg

func vC17Decode(b []byte) *dns.Msg {
	if len(b) == 0 {
		return nil
	}
	m := new(dns.Msg)
	if m.Unpack(b) != nil {
		return nil
	}
	return m
}

var vC17Paths = []string{"wire-udp-job", "decoded-udp", "decoded-tcp", "inline+replay", "wire-tcp-job", "doh-writer", "doq-like-writer", "foreign-addr-type", "declares-internal-writer", "doh-servehttp"}

// vC17Serve sends one query from (ip, port) over the given path through the server's production entry
// points and reports the remote the transport showed and whether the client got a reply.
func vC17Serve(s *Server, path int, ip net.IP, port int, q *dns.Msg) (remote string, replied bool) {
	vC17LastReply = nil
	ap := func() string {
		a, _ := netip.AddrFromSlice(ip)
		return netip.AddrPortFrom(a, uint16(port)).String()
	}
	switch path {
	case 0, 3, 4:
		var addr net.Addr = &net.UDPAddr{IP: ip, Port: port}
		if path == 4 {
			addr = &net.TCPAddr{IP: ip, Port: port}
		}
		job := &vC17Job{addr: addr}
		raw, _ := q.Pack()
		now := time.Now()
		if path == 3 { // the UDP reader's inline pass, then the worker's replay when it hands off
			if !s.ServeRawInline(job, raw, now) && len(job.wrote) == 0 {
				s.ServeRawReplay(job, raw, now)
			}
		} else {
			s.ServeRaw(job, raw, now)
		}
		vC17LastReply = vC17Decode(job.wrote)
		return vC17CoqRemote(job), len(job.wrote) > 0
	case 1, 2, 5:
		mw := mock.NewWriter([]string{"", "udp", "tcp", "", "", "doh"}[path], ap()) // 5: what ServeHTTP builds for DoH / DoH3
		s.ServeMsg(context.Background(), mw, q)
		vC17LastReply = mw.Msg()
		return vC17CoqRemote(mw), mw.Written()
	case 6:
		tr := &vC17Plain{addr: &net.UDPAddr{IP: ip, Port: port}, proto: "doq"}
		s.ServeMsg(context.Background(), tr, q)
		vC17LastReply = tr.msg
		return vC17CoqRemote(tr), tr.msg != nil
	case 9:
		// the production DoH / DoH3 entry point: Server.ServeHTTP on an HTTP request whose RemoteAddr is the peer (POST
		// application/dns-message and GET ?dns= in turn). The client "got a reply" iff the HTTP response is a 200 carrying
		// a DNS message; a denied client is left with an HTTP error and no DNS content. The remote shown to the model is
		// what ServeHTTP builds from r.RemoteAddr (internal/mock.NewWriter("doh", r.RemoteAddr)).
		raw, _ := q.Pack()
		vC17HTTPCount++
		var hr *http.Request
		if vC17HTTPCount%2 == 0 {
			hr = httptest.NewRequest(http.MethodPost, "/dns-query", bytes.NewReader(raw))
			hr.Header.Set("Content-Type", "application/dns-message")
		} else {
			hr = httptest.NewRequest(http.MethodGet, "/dns-query?dns="+base64.RawURLEncoding.EncodeToString(raw), nil)
		}
		hr.RemoteAddr = ap()
		rec := httptest.NewRecorder()
		s.ServeHTTP(rec, hr)
		ok := rec.Code == http.StatusOK && rec.Header().Get("Content-Type") == "application/dns-message"
		if ok {
			vC17LastReply = vC17Decode(rec.Body.Bytes())
		}
		return vC17CoqRemote(mock.NewWriter("doh", ap())), ok && vC17LastReply != nil
	case 8:
		tr := &vC17Declares{vC17Plain{addr: &net.UDPAddr{IP: ip, Port: port}, proto: "udp"}}
		s.ServeMsg(context.Background(), tr, q)
		vC17LastReply = tr.msg
		return vC17CoqRemote(tr), tr.msg != nil
	default:
		tr := &vC17Plain{addr: &net.IPAddr{IP: ip}, proto: "udp"}
		s.ServeMsg(context.Background(), tr, q)
		vC17LastReply = tr.msg
		return vC17CoqRemote(tr), tr.msg != nil
	}
}

// vC17ViewPick reads off a reply which view's records it carries (every view record's data holds its view and index:
// 198.18.<view>.<index> / 2001:db8::<view>:<index>): the model's [option (nat * list nat)]; view < 0: none
func vC17ViewPick(look bool, m *dns.Msg) (answered string, goFail string, view int) {
	answered, view = "None", -1
	if !look || m == nil {
		return
	}
	var served []string
	for _, rr := range m.Answer {
		vi, ri := -1, -1
		switch x := rr.(type) {
		case *dns.A:
			if b := x.A.To4(); b != nil && b[0] == 198 && b[1] == 18 {
				vi, ri = int(b[2]), int(b[3])
			}
		case *dns.AAAA:
			if x.AAAA[0] == 0x20 && x.AAAA[1] == 0x01 && x.AAAA[2] == 0x0d && x.AAAA[3] == 0xb8 {
				vi, ri = int(x.AAAA[13]), int(x.AAAA[15])
			}
		}
		if vi < 0 {
			continue
		}
		if view >= 0 && vi != view {
			goFail = "one reply carries records of two views"
		}
		view = vi
		served = append(served, fmt.Sprintf("%d%%nat", ri))
	}
	if view >= 0 {
		answered = fmt.Sprintf("(Some (%d%%nat, [%s]))", view, strings.Join(served, "; "))
	}
	return
}

func vC17Big(a netip.Addr) *big.Int {
	if a.Is4() {
		b := a.As4()
		return new(big.Int).SetUint64(uint64(binary.BigEndian.Uint32(b[:])))
	}
	b := a.As16()
	return new(big.Int).SetBytes(b[:])
}

func vC17Prefix(r *rand.Rand) netip.Prefix {
	if r.Intn(3) != 0 {
		var b [4]byte
		r.Read(b[:])
		b[0] = 10
		b[1] = byte(r.Intn(2))
		return netip.PrefixFrom(netip.AddrFrom4(b), 8+r.Intn(25))
	}
	var b [16]byte
	r.Read(b[:])
	copy(b[:], []byte{0x20, 0x01, 0x0d, 0xb8, 0, 0, 0, byte(r.Intn(2))})
	return netip.PrefixFrom(netip.AddrFrom16(b), 32+r.Intn(97))
}

func TestVerifC17Chain(t *testing.T) {
	out := os.Getenv("VERIF_OUT")
	if out == "" {
		t.Skip("VERIF_OUT not set")
	}
	f, err := os.Create(out)
	if err != nil {
		t.Fatal(err)
	}
	defer f.Close()
	seed, _ := strconv.Atoi(os.Getenv("VERIF_SEED"))
	n, _ := strconv.Atoi(os.Getenv("VERIF_N"))
	if n == 0 {
		n = 20
	}
	r := rand.New(rand.NewSource(int64(seed) + 53))
	qn := 0
	// corpus first (corpus/C17/chain.json): minimal failing inputs of the seeded changes this driver caught
	var corpus []struct {
		From       string   `json:"from"`
		AccessList []string `json:"accesslist"`
		Reflex     bool     `json:"reflex_block_mode"`
		Probes     []struct {
			Src      string `json:"src"`
			Form     int    `json:"ip_bytes"`
			Port     int    `json:"port"`
			Path     string `json:"path"`
			Cached   bool   `json:"cached_name"`
			Declined bool   `json:"strict_declined_shape"`
			Burst    int    `json:"burst"`      // > 0: that many high-amplification queries instead of one query
			Slab     bool   `json:"reuse_slab"` // carried by the configuration's long-lived engine job (after the probes before it)
		} `json:"probes"`
	}
	if dir := os.Getenv("VERIF_CORPUS"); dir != "" {
		if raw, err := os.ReadFile(dir + "/chain.json"); err == nil {
			if err := json.Unmarshal(raw, &corpus); err != nil {
				t.Fatalf("corpus chain.json: %v", err)
			}
		}
	}
	for c := -len(corpus); c < n; c++ {
		var good []netip.Prefix
		var cidrs []string
		fixed := c < 0
		shape, cnt := -1, 0
		if fixed {
			cidrs = corpus[c+len(corpus)].AccessList
			for _, e := range cidrs {
				if p, err := netip.ParsePrefix(e); err == nil {
					good = append(good, p)
				}
			}
		} else {
			shape = r.Intn(10)
			cnt = 1 + r.Intn(4)
		}
		if shape == 0 {
			cnt = 0
		}
		for i := 0; i < cnt; i++ {
			if shape == 1 || r.Intn(7) == 0 {
				cidrs = append(cidrs, "bogus/33")
				continue
			}
			p := vC17Prefix(r)
			if r.Intn(10) == 0 { // lists covering (part of) the loopback block: both verdicts in the sentinel sweep
				p = netip.MustParsePrefix([]string{"127.0.0.0/8", "127.0.0.255/32", "127.0.0.254/31"}[r.Intn(3)])
			}
			good = append(good, p)
			cidrs = append(cidrs, p.String())
		}
		witness := &vC17Witness{}
		middleware.Reset()
		defaults.RegisterUpTo("resolver")
		middleware.Register(witness.Name(), func(*config.Config) middleware.Handler { return witness })
		cfg := &config.Config{Bind: "127.0.0.1:0", Expire: 600, CacheSize: 10240, AccessList: append([]string(nil), cidrs...)}
		reflexOn := false
		if fixed {
			reflexOn = corpus[c+len(corpus)].Reflex
		} else {
			reflexOn = r.Intn(3) == 0
		}
		if reflexOn { // an answering handler that only speaks under load: amplification detection in block mode
			cfg.ReflexEnabled = true
			cfg.ReflexBlockMode = true
		}
		cfg.QueryTimeout.Duration = 10 * time.Second
		middleware.Setup(cfg)
		s := New(cfg)
		var pcoq []string
		for _, g := range good {
			pcoq = append(pcoq, fmt.Sprintf("mk_prefix %v %s %d", g.Addr().Is4(), vC17Big(g.Addr()).String(), g.Bits()))
		}
		// warm one name from an allowed source through the decoded path
		warm := fmt.Sprintf("warm%d.c17.test.", c+len(corpus))
		wq := new(dns.Msg)
		wq.SetQuestion(warm, dns.TypeA)
		wq.SetEdns0(1232, false)
		allowedSrc := netip.MustParseAddr("192.0.2.200")
		if len(good) > 0 {
			allowedSrc = good[0].Addr()
		}
		s.ServeMsg(context.Background(), mock.NewWriter("udp", netip.AddrPortFrom(allowedSrc, 4242).String()), wq)
		slabs := vC17NewSlabs()
		useSlab := false // the next emitChain is carried by the configuration's long-lived engine job
		emitChain := func(srcDesc string, ip net.IP, port int, path int, cached bool, tag string, declinedMode int) {
			name := warm
			if !cached {
				qn++
				name = fmt.Sprintf("cold%d.c17.test.", qn)
			}
			q := new(dns.Msg)
			q.SetQuestion(name, dns.TypeA)
			q.SetEdns0(1232, false)
			// a shape the engine's header check admits but the strict parser declines
			// (OPT plus one more additional record): it takes the decoded fallback
			declined := declinedMode == 1
			if declinedMode < 0 {
				declined = (path == 0 || path == 3 || path == 4) && r.Intn(3) == 0
			}
			if declined {
				q.Extra = append(q.Extra, &dns.TXT{Hdr: dns.RR_Header{Name: "x.", Rrtype: dns.TypeTXT, Class: dns.ClassINET, Ttl: 0}, Txt: []string{"v"}})
			}
			before := witness.calls
			var remote string
			var replied bool
			pathName := vC17Paths[path]
			var slabInfo map[string]any
			if useSlab && (path == 0 || path == 3 || path == 4) {
				var prev string
				var uses int
				remote, replied, prev, uses = vC17ServeSlab(s, slabs, path, ip, port, q)
				pathName += " (long-lived engine job)"
				slabInfo = map[string]any{"packets_carried_before": uses, "previous_source": prev}
				tag += "-slab-reuse"
			} else {
				remote, replied = vC17Serve(s, path, ip, port, q)
			}
			delta := witness.calls - before
			k := "chain-denied"
			if replied {
				k = "chain-allowed"
			}
			b, _ := json.Marshal(map[string]any{
				"k":          k + tag,
				"coq":        fmt.Sprintf("CaseChain %d [%s] %s %d %v %v %d", len(cidrs), strings.Join(pcoq, "; "), remote, path, cached, replied, delta),
				"nontrivial": true,
				"desc":       map[string]any{"accesslist": cidrs, "src": srcDesc, "src_ip_bytes": len(ip), "src_port": port, "path": pathName, "slab": slabInfo, "strict_declined_shape": declined, "reflex_block_mode": reflexOn, "cached_name": cached, "replied": replied, "resolver_calls": delta},
			})
			f.Write(append(b, '\n'))
		}
		// a burst of high-amplification queries from one source, before anything else is heard from it (a TCP exchange would mark the source as unspoofed): whatever
		// runs ahead of the access list must not start answering a denied source under load
		emitBurst := func(srcDesc string, ip net.IP, port int, path int, nb int, qtype uint16, tag string) {
			before := witness.calls
			replied := false
			remote := ""
			for i := 0; i < nb; i++ {
				q := new(dns.Msg)
				q.SetQuestion("example.org.", qtype)
				q.SetEdns0(4096, true)
				rm, rp := vC17Serve(s, path, ip, port, q)
				remote = rm
				replied = replied || rp
			}
			delta := witness.calls - before
			b, _ := json.Marshal(map[string]any{
				"k":          "chain-burst" + tag,
				"coq":        fmt.Sprintf("CaseChainBurst %d [%s] %s %d %v %d", len(cidrs), strings.Join(pcoq, "; "), remote, nb, replied, delta),
				"nontrivial": true,
				"desc":       map[string]any{"accesslist": cidrs, "src": srcDesc, "path": vC17Paths[path], "burst": nb, "reflex_block_mode": reflexOn, "any_reply": replied, "resolver_calls": delta},
			})
			f.Write(append(b, '\n'))
		}
		if fixed {
			for _, pb := range corpus[c+len(corpus)].Probes {
				a := netip.MustParseAddr(pb.Src)
				ip := net.IP(a.AsSlice())
				if pb.Form == 16 && a.Is4() {
					b := a.As16()
					ip = net.IP(b[:])
				}
				path := 0
				for i, nm := range vC17Paths {
					if nm == pb.Path {
						path = i
					}
				}
				if pb.Burst > 0 {
					emitBurst(pb.Src, ip, pb.Port, path, pb.Burst, dns.TypeDNSKEY, "-corpus")
					continue
				}
				dm := 0
				if pb.Declined {
					dm = 1
				}
				useSlab = pb.Slab
				emitChain(pb.Src, ip, pb.Port, path, pb.Cached, "-corpus", dm)
				useSlab = false
			}
			continue
		}
		for pr := 0; pr < 6; pr++ {
			g := vC17Prefix(r)
			if len(good) > 0 {
				g = good[r.Intn(len(good))]
			}
			var src netip.Addr
			switch r.Intn(5) {
			case 0:
				src = g.Masked().Addr().Prev()
			case 1:
				src = vC17Prefix(r).Addr()
			case 2:
				src = g.Masked().Addr()
			default:
				src = g.Addr()
			}
			if !src.IsValid() {
				src = g.Addr()
			}
			emitBurst(src.String(), net.IP(src.AsSlice()), 4242, 1-pr%2, 40+r.Intn(40), []uint16{dns.TypeDNSKEY, dns.TypeANY, dns.TypeTXT}[pr%3], "")
			extra := []int{4, 5, 6, 7, 9}[r.Intn(5)] // besides the four UDP/TCP paths, one of: TCP/DoT job, DoH writer, DoQ-like writer, foreign address type, Server.ServeHTTP
			for _, path := range []int{0, 1, 2, 3, extra} {
				for _, cached := range []bool{true, false} {
					emitChain(src.String(), net.IP(src.AsSlice()), 4242, path, cached, "", -1)
				}
			}
		}
		// the engines' jobs are long-lived slabs that own their chain: one udpJob and one tcpJob carry a run of packets
		// from sources of changing identity — inside / outside the list in turn, both families and the IPv4-mapped form
		// (the UDP slab rewrites its remote view in place), a later connection from another peer on the TCP slab — and
		// every packet must be judged by the source it came from, whatever the slab carried before
		{
			other := []netip.Addr{netip.MustParseAddr("203.0.113.9"), netip.MustParseAddr("2001:db8:ffff::9"), netip.MustParseAddr("198.51.100.77"), netip.MustParseAddr("2a00:1450::5")}
			var run []netip.Addr
			for i := 0; i < 7; i++ {
				var src netip.Addr
				if len(good) > 0 && (i+c)%2 == 0 {
					g := good[r.Intn(len(good))]
					src = g.Addr()
					if r.Intn(3) == 0 {
						src = g.Masked().Addr()
					}
				} else {
					switch r.Intn(4) {
					case 0:
						src = vC17Prefix(r).Addr()
					case 1:
						if len(good) > 0 {
							src = good[r.Intn(len(good))].Masked().Addr().Prev()
						}
					default:
						src = other[r.Intn(len(other))]
					}
				}
				if !src.IsValid() {
					src = other[i%len(other)]
				}
				run = append(run, src)
			}
			useSlab = true
			for i, src := range run {
				ip := net.IP(src.AsSlice())
				if src.Is4() && r.Intn(3) == 0 { // the 16-byte form of an IPv4 source (what a dual-stack socket reports)
					b := src.As16()
					ip = net.IP(b[:])
				}
				path := []int{0, 4, 3}[(i+c)%3]
				emitChain(src.String(), ip, 1024+r.Intn(60000), path, r.Intn(2) == 0, "", -1)
				if i%3 == 0 {
					emitChain(src.String(), ip, 1024+r.Intn(60000), []int{4, 0}[i/3%2], r.Intn(2) == 0, "", -1)
				}
			}
			// the sub-query signature's neighbourhood on the slabs too: a slab that just carried 127.0.0.255 from a real
			// port then carries a denied source, and the other way round
			for i, sip := range []net.IP{{127, 0, 0, 255}, net.IPv4(127, 0, 0, 255)} {
				for _, path := range []int{0, 4} {
					emitChain(sip.String(), sip, []int{4242, 0}[(i+c)%2], path, false, "-sentinel-sweep", -1)
					o := other[r.Intn(len(other))]
					emitChain(o.String(), net.IP(o.AsSlice()), 4242, path, false, "", -1)
				}
			}
			useSlab = false
		}
		// the neighbourhood of the sub-query signature (127.0.0.255 port 0) on every transport: the sentinel address in
		// both byte forms and its neighbours, port 0 and real ports, over all eight paths
		for si, sip := range []net.IP{{127, 0, 0, 255}, net.IPv4(127, 0, 0, 255), {127, 0, 0, 254}, {127, 0, 1, 0}} {
			for _, path := range []int{0, 1, 2, 3, 4, 5, 6, 7, 9} {
				port := []int{0, 4242, 53, 65535, 1, 1024 + r.Intn(60000)}[r.Intn(6)]
				if (si+path)%3 == 0 {
					port = []int{4242, 40000, 1}[r.Intn(3)]
				}
				emitChain(sip.String(), sip, port, path, (si+path+c)%2 == 0, "-sentinel-sweep", -1)
			}
		}
	}
	// ---- floods: the per-client rate limit on (and reflex in block mode on every second configuration). A flood of
	// cookie-less queries for distinct cold names from ONE remote with a fresh bucket, over every transport path: an admitted
	// client with a routable address is held to its budget whatever the transport; a denied source gets nothing; loopback peers,
	// transports that declare Internal() and genuine sub-queries (through the queryers autoWire injected) are not charged.
	nf := 2 + n/4
	for fc := 0; fc < nf; fc++ {
		rate := 2 + r.Intn(4)
		var cidrs []string
		var good []netip.Prefix
		if r.Intn(3) != 0 {
			cidrs = []string{"10.0.0.0/8", "2001:db8::/32"}
			if r.Intn(2) == 0 {
				cidrs = append(cidrs, "127.0.0.0/8")
			}
			for _, e := range cidrs {
				good = append(good, netip.MustParsePrefix(e))
			}
		}
		witness := &vC17Witness{}
		middleware.Reset()
		defaults.RegisterUpTo("resolver")
		middleware.Register(witness.Name(), func(*config.Config) middleware.Handler { return witness })
		cfg := &config.Config{Bind: "127.0.0.1:0", Expire: 600, CacheSize: 10240, AccessList: append([]string(nil), cidrs...), ClientRateLimit: rate}
		reflexOn := fc%2 == 0
		if reflexOn {
			cfg.ReflexEnabled = true
			cfg.ReflexBlockMode = true
		}
		cfg.QueryTimeout.Duration = 10 * time.Second
		middleware.Setup(cfg)
		s := New(cfg)
		var pcoq []string
		for _, g := range good {
			pcoq = append(pcoq, fmt.Sprintf("mk_prefix %v %s %d", g.Addr().Is4(), vC17Big(g.Addr()).String(), g.Bits()))
		}
		for path := 0; path < len(vC17Paths); path++ {
			for variant := 0; variant < 2; variant++ {
				var ip net.IP
				kind := ""
				switch (path + variant*2 + fc + r.Intn(2)) % 5 {
				case 0, 1:
					ip, kind = net.IP{10, byte(fc), byte(path), byte(1 + variant)}, "client"
				case 2:
					ip, kind = net.IPv4(10, byte(fc), byte(path), byte(101+variant)), "client-mapped-form"
				case 3:
					ip, kind = net.IP{203, 0, 113, byte(1 + path*2 + variant)}, "outside-the-list"
				default:
					ip, kind = net.IP{127, 0, byte(path), byte(1 + variant)}, "loopback"
				}
				nq := rate + 1 + r.Intn(6)
				before := witness.calls
				answered := 0
				remote := ""
				start := time.Now()
				for i := 0; i < nq; i++ {
					qn++
					q := new(dns.Msg)
					q.SetQuestion(fmt.Sprintf("flood%d.c17.test.", qn), dns.TypeA)
					q.SetEdns0(1232, false)
					rm, rp := vC17Serve(s, path, ip, 4242, q)
					remote = rm
					if rp {
						answered++
					}
				}
				slow := time.Since(start) > 5*time.Second // the bucket refills one token per 60/rate seconds: a stalled run is no observation
				delta := witness.calls - before
				b, _ := json.Marshal(map[string]any{
					"k":            "chain-flood-" + kind,
					"coq":          fmt.Sprintf("CaseChainFlood %d [%s] %d %s %d %d %d %d", len(cidrs), strings.Join(pcoq, "; "), rate, remote, path, nq, answered, delta),
					"nontrivial":   true,
					"inconclusive": slow,
					"desc":         map[string]any{"accesslist": cidrs, "client_rate_limit_per_min": rate, "src": ip.String(), "src_ip_bytes": len(ip), "path": vC17Paths[path], "reflex_block_mode": reflexOn, "flood": nq, "answered": answered, "resolver_calls": delta},
				})
				f.Write(append(b, '\n'))
			}
		}
		for via, qr := range []middleware.Queryer{witness.q, witness.pq} {
			nq := rate + 5 + r.Intn(30)
			answered := 0
			goFail := ""
			if qr == nil {
				goFail = "autoWire injected no queryer into the handler behind the default chain"
			}
			for i := 0; i < nq && qr != nil; i++ {
				qn++
				q := new(dns.Msg)
				q.SetQuestion(fmt.Sprintf("subflood%d.c17.test.", qn), []uint16{dns.TypeDNSKEY, dns.TypeTXT, dns.TypeA}[i%3])
				q.SetEdns0(4096, true)
				if resp, err := qr.Query(context.Background(), q); err == nil && resp != nil {
					answered++
				}
			}
			b, _ := json.Marshal(map[string]any{
				"k":          "chain-subquery-flood",
				"coq":        fmt.Sprintf("CaseSubFlood %d %d %d %d", via, rate, nq, answered),
				"go_fail":    goFail,
				"nontrivial": true,
				"desc":       map[string]any{"via": []string{"queryer", "prefetch-queryer"}[via], "client_rate_limit_per_min": rate, "reflex_block_mode": reflexOn, "flood": nq, "answered": answered},
			})
			f.Write(append(b, '\n'))
		}
	}
	// ---- views inside the default chain: the access list runs ahead of views, views ahead of the cache and the resolver.
	// A source outside the list gets nothing even when a view contains it and holds a record for the question; an admitted
	// client is answered by its view (first containing view, that view's own records) without any resolution - on every
	// transport path incl. the engines' long-lived jobs; everything else is resolved (or answered from the cache).
	coqBytes := func(s string) string {
		parts := make([]string, 0, len(s))
		for i := 0; i < len(s); i++ {
			parts = append(parts, strconv.Itoa(int(s[i])))
		}
		return "[" + strings.Join(parts, ";") + "]"
	}
	nvw := 2 + n/4
	for vc := 0; vc < nvw; vc++ {
		zone := fmt.Sprintf("v%d.c17.test.", vc)
		var cidrs []string
		var good []netip.Prefix
		// every second configuration is a split-horizon layout: several views over DISJOINT networks of both families, each
		// answering every name of the zone with its own records, behind an open or an all-covering list - neighbouring
		// clients then differ in the view that must answer them
		disjoint := vc%2 == 0
		if disjoint {
			if r.Intn(2) == 0 {
				cidrs = []string{"10.0.0.0/8", "2001:db8::/32"}
				good = []netip.Prefix{netip.MustParsePrefix(cidrs[0]), netip.MustParsePrefix(cidrs[1])}
			}
		} else if r.Intn(4) != 0 {
			for i := 1 + r.Intn(2); i > 0; i-- {
				p := vC17Prefix(r)
				good = append(good, p)
				cidrs = append(cidrs, p.String())
			}
			if r.Intn(3) == 0 {
				cidrs = append(cidrs, "bogus/33")
			}
		}
		outside := []netip.Prefix{netip.MustParsePrefix("203.0.113.0/24"), netip.MustParsePrefix("2a00:1450::/32"), netip.MustParsePrefix("127.0.0.0/8")}
		type vrecT struct {
			owner string
			typ   uint16
		}
		owners := []string{"*." + zone, "host." + zone, "*.sub." + zone, "other." + zone, "HOST." + zone}
		var vcfg []config.ViewConfig
		var vcoq []string
		var vdesc []any
		var vnets []netip.Prefix
		nv := 1 + r.Intn(3)
		if disjoint {
			nv = 2 + r.Intn(2)
		}
		for vi := 0; vi < nv; vi++ {
			var nets []string
			var pc []string
			for j := 1 + r.Intn(2); j > 0; j-- {
				var pf netip.Prefix
				switch {
				case disjoint:
					pf = netip.MustParsePrefix([]string{fmt.Sprintf("10.%d.0.0/16", vi+1), fmt.Sprintf("2001:db8:%x::/48", vi+1)}[j%2])
				case len(good) > 0 && r.Intn(2) == 0:
					pf = good[r.Intn(len(good))]
					if r.Intn(2) == 0 && pf.Bits() > 8 {
						pf = netip.PrefixFrom(pf.Addr(), pf.Bits()-1-r.Intn(3)).Masked() // wider than the list's entry: part of it lies outside the list
					}
				case len(vnets) > 0 && r.Intn(3) == 0:
					pf = vnets[r.Intn(len(vnets))] // shadowed by an earlier view
				default:
					pf = outside[r.Intn(len(outside))] // a view for sources the access list does not admit (unless the list is open)
				}
				vnets = append(vnets, pf)
				nets = append(nets, pf.String())
				pc = append(pc, fmt.Sprintf("mk_prefix %v %s %d", pf.Addr().Is4(), vC17Big(pf.Addr()).String(), pf.Bits()))
			}
			var answers, rcoq, rdesc []string
			nrec := r.Intn(4)
			if disjoint {
				nrec = 2 + r.Intn(2)
			}
			for k := 0; k < nrec; k++ {
				o := owners[r.Intn(len(owners))]
				if disjoint && k < 2 {
					o = owners[k] // "*.zone" and "host.zone": the view has an answer for every name of the zone
				}
				ty := dns.TypeA
				line := fmt.Sprintf("%s 60 IN A 198.18.%d.%d", o, vi, k)
				if !(disjoint && k < 2) && r.Intn(5) == 0 {
					ty = dns.TypeAAAA
					line = fmt.Sprintf("%s 60 IN AAAA 2001:db8::%x:%x", o, vi, k)
				}
				answers = append(answers, line)
				rcoq = append(rcoq, fmt.Sprintf("(%s, %d%%N)", coqBytes(o), ty))
				rdesc = append(rdesc, fmt.Sprintf("%d:%s/%s", k, o, dns.TypeToString[ty]))
			}
			vcfg = append(vcfg, config.ViewConfig{Zone: fmt.Sprintf("view%d", vi), Networks: nets, Answers: answers})
			vcoq = append(vcoq, fmt.Sprintf("([%s], [%s])", strings.Join(pc, "; "), strings.Join(rcoq, "; ")))
			vdesc = append(vdesc, map[string]any{"networks": nets, "records": rdesc})
		}
		witness := &vC17Witness{}
		middleware.Reset()
		defaults.RegisterUpTo("resolver")
		middleware.Register(witness.Name(), func(*config.Config) middleware.Handler { return witness })
		cfg := &config.Config{Bind: "127.0.0.1:0", Expire: 600, CacheSize: 10240, AccessList: append([]string(nil), cidrs...), Views: vcfg}
		cfg.QueryTimeout.Duration = 10 * time.Second
		middleware.Setup(cfg)
		s := New(cfg)
		slabs := vC17NewSlabs()
		var pcoq []string
		for _, g := range good {
			pcoq = append(pcoq, fmt.Sprintf("mk_prefix %v %s %d", g.Addr().Is4(), vC17Big(g.Addr()).String(), g.Bits()))
		}
		resolved := map[string]bool{}
		probe := func(src netip.Addr, ip net.IP, port int, path int, onSlab bool, qname string, qtype uint16, tag string) {
			q := new(dns.Msg)
			q.SetQuestion(qname, qtype)
			q.SetEdns0(1232, false)
			key := strings.ToLower(qname) + "/" + dns.TypeToString[qtype]
			cached := resolved[key]
			before := witness.calls
			var remote string
			var replied bool
			pathName := vC17Paths[path]
			if onSlab && (path == 0 || path == 3 || path == 4) {
				remote, replied, _, _ = vC17ServeSlab(s, slabs, path, ip, port, q)
				pathName += " (long-lived engine job)"
			} else {
				remote, replied = vC17Serve(s, path, ip, port, q)
			}
			delta := witness.calls - before
			if delta > 0 {
				resolved[key] = true
			}
			answered := "None"
			goFail := ""
			view := -1
			var served []string
			if replied && delta == 0 && vC17LastReply != nil {
				for _, rr := range vC17LastReply.Answer {
					vi, ri := -1, -1
					switch x := rr.(type) {
					case *dns.A:
						if b := x.A.To4(); b != nil && b[0] == 198 && b[1] == 18 {
							vi, ri = int(b[2]), int(b[3])
						}
					case *dns.AAAA:
						if x.AAAA[0] == 0x20 && x.AAAA[1] == 0x01 && x.AAAA[2] == 0x0d && x.AAAA[3] == 0xb8 {
							vi, ri = int(x.AAAA[13]), int(x.AAAA[15])
						}
					}
					if vi < 0 {
						continue // not a view's record (the resolver stand-in's answer out of the cache)
					}
					if view >= 0 && vi != view {
						goFail = "one reply carries records of two views"
					}
					view = vi
					served = append(served, fmt.Sprintf("%d%%nat", ri))
				}
				if view >= 0 {
					answered = fmt.Sprintf("(Some (%d%%nat, [%s]))", view, strings.Join(served, "; "))
				}
			}
			k := "chainview-denied"
			switch {
			case view >= 0:
				k = "chainview-answered-by-view"
			case replied && delta > 0:
				k = "chainview-resolved"
			case replied:
				k = "chainview-from-cache"
			}
			b, _ := json.Marshal(map[string]any{
				"k":          k + tag,
				"coq":        fmt.Sprintf("CaseChainView %d [%s] [%s] %s %d %s %d %v %s %v %d", len(cidrs), strings.Join(pcoq, "; "), strings.Join(vcoq, "; "), remote, path, coqBytes(qname), qtype, cached, answered, replied, delta),
				"go_fail":    goFail,
				"nontrivial": true,
				"desc":       map[string]any{"accesslist": cidrs, "views": vdesc, "src": src.String(), "src_ip_bytes": len(ip), "src_port": port, "path": pathName, "question": qname + " " + dns.TypeToString[qtype], "resolved_before": cached, "answered_by_view": answered, "replied": replied, "resolver_calls": delta},
			})
			f.Write(append(b, '\n'))
		}
		for pr := 0; pr < 14; pr++ {
			var src netip.Addr
			pool := vnets
			if len(good) > 0 && pr%3 == 0 {
				pool = good
			}
			pf := pool[r.Intn(len(pool))]
			switch r.Intn(6) {
			case 0:
				src = pf.Masked().Addr()
			case 1:
				src = pf.Masked().Addr().Prev()
			case 2:
				src = vC17Prefix(r).Addr()
			default:
				src = pf.Addr()
				if pf.Addr().Is4() && pf.Bits() <= 24 { // somewhere inside, not only the prefix's own address
					b := pf.Masked().Addr().As4()
					b[3] = byte(1 + r.Intn(200))
					src = netip.AddrFrom4(b)
				}
			}
			if !src.IsValid() {
				src = netip.MustParseAddr("203.0.113.9")
			}
			ip := net.IP(src.AsSlice())
			if src.Is4() && r.Intn(3) == 0 {
				b := src.As16()
				ip = net.IP(b[:])
			}
			port := 1024 + r.Intn(60000)
			if src.String() == "127.0.0.255" && r.Intn(2) == 0 {
				port = 0
			}
			for rep := 0; rep < 2; rep++ {
				qn++
				qname := []string{"host." + zone, fmt.Sprintf("q%d.%s", qn, zone), "x.sub." + zone, fmt.Sprintf("q%d.elsewhere.test.", qn), "Host." + zone}[r.Intn(5)]
				qtype := dns.TypeA
				if r.Intn(6) == 0 {
					qtype = dns.TypeAAAA
				}
				path := r.Intn(len(vC17Paths))
				if path == 8 { // a transport that declares the request internal goes past the cache's lookup: only names asked once
					qname = fmt.Sprintf("q%d.%s", qn, []string{zone, "elsewhere.test."}[r.Intn(2)])
				}
				probe(src, ip, port, path, r.Intn(2) == 0, qname, qtype, "")
			}
		}
		// the engines' long-lived jobs inside the views configuration: the UDP slab (peer address rewritten in place over its
		// scratch array) and the TCP slab carry a run of packets from clients of DIFFERENT views, of no view, and the first
		// one again, back to back, all asking names the views hold records for: every packet is answered by the view ITS
		// source belongs to (or resolved), whatever the handlers saw on that slab before
		{
			// candidates: an address inside every view network, admitted list entries, addresses in no view; the run is ordered
			// per family (the slab's scratch view keeps its length within a family) so that back-to-back clients differ in
			// the view that contains them (Go-side containment here only steers the generator; it judges nothing)
			decide := func(a netip.Addr) int {
				if len(cidrs) > 0 {
					ok := false
					for _, g := range good {
						ok = ok || g.Contains(a)
					}
					if !ok {
						return -2 // not admitted: never reaches views
					}
				}
				for vi, vc := range vcfg {
					for _, e := range vc.Networks {
						if pf, err := netip.ParsePrefix(e); err == nil && pf.Contains(a) {
							return vi
						}
					}
				}
				return -1
			}
			var cands []netip.Addr
			for _, pf := range vnets {
				cands = append(cands, pf.Addr())
				if pf.Addr().Is4() && pf.Bits() <= 24 {
					b := pf.Masked().Addr().As4()
					b[3] = byte(1 + r.Intn(200))
					cands = append(cands, netip.AddrFrom4(b))
				}
			}
			for _, g := range good {
				cands = append(cands, g.Addr(), g.Masked().Addr())
			}
			cands = append(cands, netip.MustParseAddr("198.51.100.77"), netip.MustParseAddr("2001:db8:ffff::9"), netip.MustParseAddr("10.200.0.9"), netip.MustParseAddr("2001:db8:0:1::9"))
			var run []netip.Addr
			for _, v4 := range []bool{true, false} {
				var fam []netip.Addr
				for _, a := range cands {
					if a.Is4() == v4 && decide(a) != -2 {
						fam = append(fam, a)
					}
				}
				last := -3
				for n := 0; n < 5 && len(fam) > 0; n++ {
					pick := r.Intn(len(fam))
					for k := 0; k < len(fam); k++ { // the next client is in another view than the one before it, if there is one
						if decide(fam[(pick+k)%len(fam)]) != last {
							pick = (pick + k) % len(fam)
							break
						}
					}
					run = append(run, fam[pick])
					last = decide(fam[pick])
				}
			}
			for i, src := range run {
				ip := net.IP(src.AsSlice())
				qn++
				qname := []string{"host." + zone, fmt.Sprintf("q%d.%s", qn, zone), "x.sub." + zone}[r.Intn(3)]
				probe(src, ip, 1024+r.Intn(60000), []int{0, 0, 3, 0, 0, 3, 4}[(i+vc)%7], true, qname, dns.TypeA, "-slab-run")
			}
		}
	}
	// ---- genuine sub-queries against hostile client policy (session 5). The real default chain with an access list that
	// does not admit the sub-query writer's address (all-unparsable = deny everyone, a LAN list, the sentinel's neighbour) or does,
	// and views whose networks contain 127.0.0.255 (the loopback block, the /32, everything) holding records for the very
	// names asked. A sub-query through the queryer / prefetch queryer autoWire injected must be resolved whatever the list and
	// the views say; a CLIENT from the same address (real source port) asking the same question in the same configuration
	// is judged by the list and answered by its view (emitted as ordinary CaseChainView: the policy is live).
	nsq := 2 + n/6
	for sc := 0; sc < nsq; sc++ {
		zone := fmt.Sprintf("s%d.c17.test.", sc)
		lists := [][]string{{"bogus/33"}, {"10.0.0.0/8"}, {}, {"127.0.0.0/8"}, {"127.0.0.254/32", "2001:db8::/32"}, {"bogus/33", "127.0.0.255/32"}}
		cidrs := lists[(sc+seed)%len(lists)]
		if sc >= len(lists) {
			cidrs = lists[r.Intn(len(lists))]
		}
		var good []netip.Prefix
		for _, e := range cidrs {
			if p, err := netip.ParsePrefix(e); err == nil {
				good = append(good, p)
			}
		}
		nets := [][]string{{"127.0.0.0/8"}, {"127.0.0.255/32"}, {"0.0.0.0/0", "::/0"}, {"::ffff:127.0.0.255/128", "10.0.0.0/8"}, {"203.0.113.0/24", "127.0.0.128/25"}}
		owners := []string{"host." + zone, "*." + zone, "*.sub." + zone, "HOST." + zone}
		var vcfg []config.ViewConfig
		var vcoq []string
		var vdesc []any
		nviews := 1 + r.Intn(2)
		for vi := 0; vi < nviews; vi++ {
			vn := nets[(sc+vi*2+r.Intn(2))%len(nets)]
			var pc []string
			for _, e := range vn {
				pf := netip.MustParsePrefix(e)
				pc = append(pc, fmt.Sprintf("mk_prefix %v %s %d", pf.Addr().Is4(), vC17Big(pf.Addr()).String(), pf.Bits()))
			}
			var answers, rcoq, rdesc []string
			for k := 0; k < 2+r.Intn(3); k++ {
				o := owners[(k+vi+r.Intn(2))%len(owners)]
				ty := dns.TypeA
				line := fmt.Sprintf("%s 60 IN A 198.18.%d.%d", o, vi, k)
				if r.Intn(5) == 0 {
					ty = dns.TypeAAAA
					line = fmt.Sprintf("%s 60 IN AAAA 2001:db8::%x:%x", o, vi, k)
				}
				answers = append(answers, line)
				rcoq = append(rcoq, fmt.Sprintf("(%s, %d%%N)", coqBytes(o), ty))
				rdesc = append(rdesc, fmt.Sprintf("%d:%s/%s", k, o, dns.TypeToString[ty]))
			}
			vcfg = append(vcfg, config.ViewConfig{Zone: fmt.Sprintf("view%d", vi), Networks: vn, Answers: answers})
			vcoq = append(vcoq, fmt.Sprintf("([%s], [%s])", strings.Join(pc, "; "), strings.Join(rcoq, "; ")))
			vdesc = append(vdesc, map[string]any{"networks": vn, "records": rdesc})
		}
		witness := &vC17Witness{}
		middleware.Reset()
		defaults.RegisterUpTo("resolver")
		middleware.Register(witness.Name(), func(*config.Config) middleware.Handler { return witness })
		cfg := &config.Config{Bind: "127.0.0.1:0", Expire: 600, CacheSize: 10240, AccessList: append([]string(nil), cidrs...), Views: vcfg}
		if sc%2 == 1 {
			cfg.ReflexEnabled = true
			cfg.ReflexBlockMode = true
		}
		cfg.QueryTimeout.Duration = 10 * time.Second
		middleware.Setup(cfg)
		s := New(cfg)
		var pcoq []string
		for _, g := range good {
			pcoq = append(pcoq, fmt.Sprintf("mk_prefix %v %s %d", g.Addr().Is4(), vC17Big(g.Addr()).String(), g.Bits()))
		}
		questions := func() [][2]any {
			qn++
			return [][2]any{{"host." + zone, dns.TypeA}, {fmt.Sprintf("q%d.%s", qn, zone), dns.TypeA}, {"x.sub." + zone, dns.TypeA},
				{fmt.Sprintf("q%d.elsewhere.test.", qn), dns.TypeA}, {"Host." + zone, dns.TypeAAAA}, {fmt.Sprintf("r%d.%s", qn, zone), dns.TypeAAAA}}
		}
		// (a) clients from the sentinel address (real port: a client; port 0: the address signature) and its neighbour
		resolved := map[string]bool{}
		for ci, cl := range []struct {
			ip   net.IP
			port int
			path int
		}{{net.IP{127, 0, 0, 255}, 40000, 2}, {net.IPv4(127, 0, 0, 255), 40001, 4}, {net.IP{127, 0, 0, 255}, 0, 2}, {net.IP{127, 0, 0, 254}, 0, 1}, {net.IP{127, 0, 0, 255}, 5353, 0}} {
			for qi, qq := range questions() {
				if (qi+ci+sc)%2 == 0 && qi > 0 {
					continue
				}
				qname, qtype := qq[0].(string), qq[1].(uint16)
				q := new(dns.Msg)
				q.SetQuestion(qname, qtype)
				q.SetEdns0(1232, false)
				key := strings.ToLower(qname) + "/" + dns.TypeToString[qtype]
				cached := resolved[key]
				before := witness.calls
				remote, replied := vC17Serve(s, cl.path, cl.ip, cl.port, q)
				delta := witness.calls - before
				if delta > 0 {
					resolved[key] = true
				}
				answered, goFail, view := vC17ViewPick(replied && delta == 0, vC17LastReply)
				k := "chainview-sentinel-denied"
				switch {
				case view >= 0:
					k = "chainview-sentinel-answered-by-view"
				case replied:
					k = "chainview-sentinel-resolved"
				}
				b, _ := json.Marshal(map[string]any{
					"k":          k,
					"coq":        fmt.Sprintf("CaseChainView %d [%s] [%s] %s %d %s %d %v %s %v %d", len(cidrs), strings.Join(pcoq, "; "), strings.Join(vcoq, "; "), remote, cl.path, coqBytes(qname), qtype, cached, answered, replied, delta),
					"go_fail":    goFail,
					"nontrivial": true,
					"desc":       map[string]any{"accesslist": cidrs, "views": vdesc, "src": cl.ip.String(), "src_ip_bytes": len(cl.ip), "src_port": cl.port, "path": vC17Paths[cl.path], "question": qname + " " + dns.TypeToString[qtype], "resolved_before": cached, "answered_by_view": answered, "replied": replied, "resolver_calls": delta},
				})
				f.Write(append(b, '\n'))
			}
		}
		// (b) the same questions as genuine sub-queries
		for via, qr := range []middleware.Queryer{witness.q, witness.pq} {
			for _, qq := range questions() {
				qname, qtype := qq[0].(string), qq[1].(uint16)
				cached := resolved[strings.ToLower(qname)+"/"+dns.TypeToString[qtype]] // the queryer's sub-pipeline keeps the cache
				q := new(dns.Msg)
				q.SetQuestion(qname, qtype)
				q.SetEdns0(4096, true)
				goFail := ""
				before := witness.calls
				var resp *dns.Msg
				if qr == nil {
					goFail = "autoWire injected no queryer into the handler behind the default chain"
				} else {
					resp, _ = qr.Query(context.Background(), q)
				}
				delta := witness.calls - before
				if via == 0 && delta > 0 {
					resolved[strings.ToLower(qname)+"/"+dns.TypeToString[qtype]] = true
				}
				answered, gf, _ := vC17ViewPick(resp != nil, resp)
				if goFail == "" {
					goFail = gf
				}
				b, _ := json.Marshal(map[string]any{
					"k":          "chain-subquery-" + []string{"queryer", "prefetch-queryer"}[via],
					"coq":        fmt.Sprintf("CaseSubChain %d %d [%s] [%s] %s %d %v %s %v %d", via, len(cidrs), strings.Join(pcoq, "; "), strings.Join(vcoq, "; "), coqBytes(qname), qtype, cached, answered, resp != nil, delta),
					"go_fail":    goFail,
					"nontrivial": true,
					"desc":       map[string]any{"via": []string{"queryer", "prefetch-queryer"}[via], "accesslist": cidrs, "views": vdesc, "reflex_block_mode": cfg.ReflexEnabled, "question": qname + " " + dns.TypeToString[qtype], "resolved_before": cached, "answered_by_view": answered, "replied": resp != nil, "resolver_calls": delta},
				})
				f.Write(append(b, '\n'))
			}
		}
	}
	middleware.Reset()
}
