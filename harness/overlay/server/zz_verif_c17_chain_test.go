//go:build verif

package server

// C17 end-to-end driver: the real default chain (everything ahead of the
// resolver, in its registered order) with a counting stand-in for the
// resolver. For generated access lists and sources it sends the same query
// over the wire fast path (ServeRaw on a strict job), the decoded path
// (ServeMsg, UDP-like writer) and a TCP-like writer, both for a name that is
// already cached and for a cold name, and records: did the client get a
// reply, how many times was the resolver stand-in reached.

import (
	"context"
	"encoding/binary"
	"encoding/json"
	"fmt"
	"math/big"
	"math/rand"
	"net"
	"net/netip"
	"os"
	"strconv"
	"strings"
	"testing"
	"time"

	"github.com/miekg/dns"
	"github.com/semihalev/sdns/config"
	"github.com/semihalev/sdns/internal/mock"
	"github.com/semihalev/sdns/middleware"
	"github.com/semihalev/sdns/middleware/defaults"
)

type vC17Witness struct{ calls int }

func (w *vC17Witness) Name() string { return "verif-c17-witness" }
func (w *vC17Witness) ServeDNS(ctx context.Context, ch *middleware.Chain) {
	w.calls++
	_, req := ch.Materialize(ctx)
	if req == nil {
		return
	}
	resp := new(dns.Msg)
	resp.SetReply(req)
	resp.RecursionAvailable = true
	resp.Answer = []dns.RR{&dns.A{Hdr: dns.RR_Header{Name: req.Question[0].Name, Rrtype: dns.TypeA, Class: dns.ClassINET, Ttl: 300}, A: net.IPv4(192, 0, 2, 77)}}
	_ = ch.Writer.WriteMsg(resp)
	ch.Cancel()
}

func vC17Big(a netip.Addr) *big.Int {
	if a.Is4() {
		b := a.As4()
		return new(big.Int).SetUint64(uint64(binary.BigEndian.Uint32(b[:])))
	}
	b := a.As16()
	return new(big.Int).SetBytes(b[:])
}

func vC17Prefix(r *rand.Rand) netip.Prefix {
	if r.Intn(3) != 0 {
		var b [4]byte
		r.Read(b[:])
		b[0] = 10
		b[1] = byte(r.Intn(2))
		return netip.PrefixFrom(netip.AddrFrom4(b), 8+r.Intn(25))
	}
	var b [16]byte
	r.Read(b[:])
	copy(b[:], []byte{0x20, 0x01, 0x0d, 0xb8, 0, 0, 0, byte(r.Intn(2))})
	return netip.PrefixFrom(netip.AddrFrom16(b), 32+r.Intn(97))
}

func TestVerifC17Chain(t *testing.T) {
	out := os.Getenv("VERIF_OUT")
	if out == "" {
		t.Skip("VERIF_OUT not set")
	}
	f, err := os.Create(out)
	if err != nil {
		t.Fatal(err)
	}
	defer f.Close()
	seed, _ := strconv.Atoi(os.Getenv("VERIF_SEED"))
	n, _ := strconv.Atoi(os.Getenv("VERIF_N"))
	if n == 0 {
		n = 20
	}
	r := rand.New(rand.NewSource(int64(seed) + 53))
	qn := 0
	for c := 0; c < n; c++ {
		var good []netip.Prefix
		var cidrs []string
		shape := r.Intn(10)
		cnt := 1 + r.Intn(4)
		if shape == 0 {
			cnt = 0
		}
		for i := 0; i < cnt; i++ {
			if shape == 1 || r.Intn(7) == 0 {
				cidrs = append(cidrs, "bogus/33")
				continue
			}
			p := vC17Prefix(r)
			good = append(good, p)
			cidrs = append(cidrs, p.String())
		}
		witness := &vC17Witness{}
		middleware.Reset()
		defaults.RegisterUpTo("resolver")
		middleware.Register(witness.Name(), func(*config.Config) middleware.Handler { return witness })
		cfg := &config.Config{Bind: "127.0.0.1:0", Expire: 600, CacheSize: 10240, AccessList: cidrs}
		reflexOn := r.Intn(3) == 0
		if reflexOn { // an answering handler that only speaks under load: amplification detection in block mode
			cfg.ReflexEnabled = true
			cfg.ReflexBlockMode = true
		}
		cfg.QueryTimeout.Duration = 10 * time.Second
		middleware.Setup(cfg)
		s := New(cfg)
		var pcoq []string
		for _, g := range good {
			pcoq = append(pcoq, fmt.Sprintf("mk_prefix %v %s %d", g.Addr().Is4(), vC17Big(g.Addr()).String(), g.Bits()))
		}
		// warm one name from an allowed source through the decoded path
		warm := fmt.Sprintf("warm%d.c17.test.", c)
		wq := new(dns.Msg)
		wq.SetQuestion(warm, dns.TypeA)
		wq.SetEdns0(1232, false)
		allowedSrc := netip.MustParseAddr("192.0.2.200")
		if len(good) > 0 {
			allowedSrc = good[0].Addr()
		}
		s.ServeMsg(context.Background(), mock.NewWriter("udp", netip.AddrPortFrom(allowedSrc, 4242).String()), wq)
		for pr := 0; pr < 6; pr++ {
			g := vC17Prefix(r)
			if len(good) > 0 {
				g = good[r.Intn(len(good))]
			}
			var src netip.Addr
			switch r.Intn(5) {
			case 0:
				src = g.Masked().Addr().Prev()
			case 1:
				src = vC17Prefix(r).Addr()
			case 2:
				src = g.Masked().Addr()
			default:
				src = g.Addr()
			}
			if !src.IsValid() {
				src = g.Addr()
			}
			// a burst of high-amplification queries from this source over UDP, before anything else is heard from it (a TCP exchange would mark the source as unspoofed): whatever
			// runs ahead of the access list must not start answering a denied source under load
			{
				before := witness.calls
				replied := false
				nb := 40 + r.Intn(40)
				for i := 0; i < nb; i++ {
					q := new(dns.Msg)
					q.SetQuestion("example.org.", []uint16{dns.TypeDNSKEY, dns.TypeANY, dns.TypeTXT}[pr%3])
					q.SetEdns0(4096, true)
					if pr%2 == 0 {
						mw := mock.NewWriter("udp", netip.AddrPortFrom(src, 4242).String())
						s.ServeMsg(context.Background(), mw, q)
						replied = replied || mw.Written()
					} else {
						raw, _ := q.Pack()
						job := &strictTestJob{remote: net.UDPAddr{IP: net.IP(src.AsSlice()), Port: 4242}}
						s.ServeRaw(job, raw, time.Now())
						replied = replied || len(job.wrote) > 0
					}
				}
				delta := witness.calls - before
				b, _ := json.Marshal(map[string]any{
					"k":          "chain-burst",
					"coq":        fmt.Sprintf("CaseChainBurst %d [%s] (mk_addr %v %s) %d %v %d", len(cidrs), strings.Join(pcoq, "; "), src.Is4(), vC17Big(src).String(), nb, replied, delta),
					"nontrivial": true,
					"desc":       map[string]any{"accesslist": cidrs, "src": src.String(), "burst": nb, "reflex_block_mode": reflexOn, "any_reply": replied, "resolver_calls": delta},
				})
				f.Write(append(b, '\n'))
			}
			for path := 0; path < 4; path++ {
				for _, cached := range []bool{true, false} {
					name := warm
					if !cached {
						qn++
						name = fmt.Sprintf("cold%d.c17.test.", qn)
					}
					q := new(dns.Msg)
					q.SetQuestion(name, dns.TypeA)
					q.SetEdns0(1232, false)
					// a shape the engine's header check admits but the strict parser declines
					// (OPT plus one more additional record): it takes the decoded fallback
					declined := (path == 0 || path == 3) && r.Intn(3) == 0
					if declined {
						q.Extra = append(q.Extra, &dns.TXT{Hdr: dns.RR_Header{Name: "x.", Rrtype: dns.TypeTXT, Class: dns.ClassINET, Ttl: 0}, Txt: []string{"v"}})
					}
					before := witness.calls
					replied := false
					switch path {
					case 0: // wire fast path
						raw, _ := q.Pack()
						job := &strictTestJob{remote: net.UDPAddr{IP: net.IP(src.AsSlice()), Port: 4242}}
						s.ServeRaw(job, raw, time.Now())
						replied = len(job.wrote) > 0
					case 3: // the UDP reader's inline pass, then the worker's replay when it hands off
						raw, _ := q.Pack()
						job := &strictTestJob{remote: net.UDPAddr{IP: net.IP(src.AsSlice()), Port: 4242}}
						now := time.Now()
						if !s.ServeRawInline(job, raw, now) && len(job.wrote) == 0 {
							s.ServeRawReplay(job, raw, now)
						}
						replied = len(job.wrote) > 0
					case 1:
						mw := mock.NewWriter("udp", netip.AddrPortFrom(src, 4242).String())
						s.ServeMsg(context.Background(), mw, q)
						replied = mw.Written()
					case 2:
						mw := mock.NewWriter("tcp", netip.AddrPortFrom(src, 4242).String())
						s.ServeMsg(context.Background(), mw, q)
						replied = mw.Written()
					}
					delta := witness.calls - before
					k := "chain-denied"
					if replied {
						k = "chain-allowed"
					}
					b, _ := json.Marshal(map[string]any{
						"k":          k,
						"coq":        fmt.Sprintf("CaseChain %d [%s] (mk_addr %v %s) %d %v %v %d", len(cidrs), strings.Join(pcoq, "; "), src.Is4(), vC17Big(src).String(), path, cached, replied, delta),
						"nontrivial": true,
						"desc":       map[string]any{"accesslist": cidrs, "src": src.String(), "path": []string{"wire", "decoded-udp", "decoded-tcp", "inline+replay"}[path], "strict_declined_shape": declined, "reflex_block_mode": reflexOn, "cached_name": cached, "replied": replied, "resolver_calls": delta},
					})
					f.Write(append(b, '\n'))
				}
			}
		}
	}
	middleware.Reset()
}
