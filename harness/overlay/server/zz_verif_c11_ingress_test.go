//go:build verif

package server

// C11 driver "ingress": what "admitted (well-formed ...)" means at the UDP ingress. The REAL
// default chain (a stand-in resolver behind the cache) behind the REAL udpEngine in a
// testing/synctest bubble; datagrams are given to the engine as raw octets, on the ring path
// (udpEngine.serve on a pool worker) and on the inline path (udpEngine.serveInline on the
// "reader", a handoff is replayed): valid queries for a warmed name (with and without OPT,
// flag bits set at random), responses (QR set), other opcodes, NOTIFY, section counts off the
// accepted ranges and exactly on their edges, an accepted header in front of an undecodable
// body, fragments shorter than a header. Recorded per datagram: the datagrams that came back
// to the client socket carrying its ID; for the first one its octets when it is a bare header,
// its rcode and its length.

import (
	"context"
	"encoding/json"
	"fmt"
	"math/rand"
	"net"
	"os"
	"strconv"
	"strings"
	"syscall"
	"testing"
	"testing/synctest"
	"time"

	"github.com/miekg/dns"
	"github.com/semihalev/sdns/config"
	"github.com/semihalev/sdns/middleware"
	"github.com/semihalev/sdns/middleware/cache"
	"github.com/semihalev/sdns/middleware/defaults"
)

type vC11GDgram struct {
	raw       []byte
	kind      string
	decodable bool
	inline    bool
	cached    bool
	id        int
	// observed
	replies int
	first   []byte
	handoff bool
}

const vC11GName = "h0.c11.example."

func vC11GGen(r *rand.Rand, idx int) *vC11GDgram {
	d := &vC11GDgram{id: 100 + idx, decodable: true, cached: true, inline: r.Intn(2) == 0}
	m := new(dns.Msg)
	m.SetQuestion(vC11GName, dns.TypeA)
	m.Id = uint16(d.id)
	opt := r.Intn(3) > 0
	if opt {
		m.SetEdns0(1232, r.Intn(3) == 0)
	}
	m.RecursionDesired = r.Intn(4) > 0
	m.CheckingDisabled = r.Intn(5) == 0
	m.AuthenticatedData = r.Intn(5) == 0
	raw, _ := m.Pack()
	put16 := func(off, v int) { raw[off], raw[off+1] = byte(v>>8), byte(v) }
	switch k := r.Intn(16); {
	case k < 4:
		d.kind = "valid"
		d.cached = m.RecursionDesired // without RD the chain answers from policy, not from the cache
	case k < 6:
		d.kind = "response"
		raw[2] |= 0x80
		if r.Intn(2) == 0 { // a response that also breaks every other rule is still only ignored
			raw[2] = 0x80 | byte(r.Intn(16))<<3 | raw[2]&0x07
			put16(4, r.Intn(3))
		}
	case k < 8:
		d.kind = "opcode"
		op := []int{1, 2, 3, 5, 6, 9, 15}[r.Intn(7)]
		raw[2] = raw[2]&0x87 | byte(op)<<3
		if r.Intn(3) == 0 {
			put16(4, 2) // the opcode is judged before the counts
		}
	case k < 9:
		d.kind = "notify"
		raw[2] = raw[2]&0x87 | 4<<3
		d.cached = false // the chain decides what a NOTIFY gets
	case k < 11:
		d.kind = "counts"
		switch r.Intn(6) {
		case 0:
			put16(4, 0)
		case 1:
			put16(4, 2)
		case 2:
			put16(6, 2)
		case 3:
			put16(8, 2)
		case 4:
			put16(10, 3)
		default:
			put16(6, 1+r.Intn(65535))
			put16(4, 1)
		}
	case k < 13:
		d.kind = "edge" // exactly on the accepted edge: the header promises records the body lacks
		switch r.Intn(3) {
		case 0:
			put16(6, 1)
		case 1:
			put16(8, 1)
		default:
			put16(10, 2)
		}
		d.cached = false // the decoders decide whether the body behind the accepted header reads
	case k < 15:
		d.kind = "undecodable"
		raw = raw[:12+1+r.Intn(len(vC11GName)-1)] // the question cut short
		d.decodable = false
	default:
		d.kind = "fragment"
		raw = raw[:r.Intn(12)]
	}
	d.raw = raw
	return d
}

func vC11GBytes(b []byte) string {
	var s []string
	for _, x := range b {
		s = append(s, strconv.Itoa(int(x)))
	}
	return "[" + strings.Join(s, ";") + "]%N"
}

func TestVerifC11Ingress(t *testing.T) {
	out := os.Getenv("VERIF_OUT")
	if out == "" {
		t.Skip("VERIF_OUT not set")
	}
	f, err := os.Create(out)
	if err != nil {
		t.Fatal(err)
	}
	defer f.Close()
	seed := int64(vC11SEnvInt("VERIF_SEED", 1))
	n := vC11SEnvInt("VERIF_N", 50)
	r := rand.New(rand.NewSource(seed*32452843 + 5))
	for c := 0; c < n; c++ {
		var ds []*vC11GDgram
		for i, k := 0, 4+r.Intn(5); i < k; i++ {
			ds = append(ds, vC11GGen(r, i))
		}
		names := []string{vC11GName}
		tail := &vC11ITail{answers: []int{1}, names: names}
		goFail := ""
		inconclusive := false
		var leasedEnd, inflightEnd int64
		cache.VC11ResetEntryLimiters()
		middleware.Reset()
		defaults.RegisterUpTo("resolver")
		middleware.Register(tail.Name(), func(*config.Config) middleware.Handler { return tail })
		cfg := &config.Config{Bind: "127.0.0.1:0", Expire: 600, CacheSize: 10240}
		cfg.QueryTimeout.Duration = 2 * time.Second
		middleware.Setup(cfg)
		s := New(cfg)
		synctest.Test(t, func(t *testing.T) {
			srv, err1 := net.ListenUDP("udp4", &net.UDPAddr{IP: net.IPv4(127, 0, 0, 1)})
			cl, err2 := net.ListenUDP("udp4", &net.UDPAddr{IP: net.IPv4(127, 0, 0, 1)})
			if err1 != nil || err2 != nil {
				inconclusive = true
				return
			}
			defer srv.Close()
			defer cl.Close()
			clAddr := cl.LocalAddr().(*net.UDPAddr).AddrPort()
			clRaw, _ := cl.SyscallConn()
			e := newUDPEngine(s, []*net.UDPConn{srv}, false, 2, 8, resourcePlan{})
			e.slabCap = 32
			for i := 0; i < e.workers; i++ {
				e.workerG.Add(1)
				go e.worker(i)
			}
			readerBurst := udpTXBurst{slot: e.workers}
			m := new(dns.Msg)
			m.SetQuestion(vC11GName, dns.TypeA)
			m.Id = 60000
			m.SetEdns0(1232, false)
			wt := &vC11IWarmTransport{}
			s.ServeMsg(context.Background(), wt, m)
			if wt.writes != 1 {
				goFail = fmt.Sprintf("warm-up query got %d replies", wt.writes)
			}
			synctest.Wait()
			poll := func() {
				buf := make([]byte, 8192)
				for {
					got := -1
					_ = clRaw.Read(func(fd uintptr) bool {
						nn, _, rerr := syscall.Recvfrom(int(fd), buf, syscall.MSG_DONTWAIT)
						if rerr == nil {
							got = nn
						}
						return true
					})
					if got < 0 {
						return
					}
					if got < 2 {
						if goFail == "" {
							goFail = fmt.Sprintf("a datagram of %d octets came back", got)
						}
						continue
					}
					id := int(buf[0])<<8 | int(buf[1])
					hit := false
					for _, d := range ds {
						if d.id == id && len(d.raw) >= 2 {
							d.replies++
							if d.replies == 1 {
								d.first = append([]byte(nil), buf[:got]...)
							}
							hit = true
						}
					}
					if !hit && goFail == "" {
						goFail = fmt.Sprintf("a datagram with ID %d came back: nobody asked with it", id)
					}
				}
			}
			for idx, d := range ds {
				time.Sleep(3 * time.Millisecond)
				synctest.Wait()
				poll()
				j := e.take(0)
				if j == nil {
					if goFail == "" {
						goFail = fmt.Sprintf("datagram %d: no slab although nothing is in flight", idx)
					}
					continue
				}
				j.transition(udpJobFree, udpJobReading)
				j.rxLen = copy(j.rx[:], d.raw)
				j.readTime = time.Now()
				j.setRemote(clAddr)
				j.pc = srv
				j.pktinfoLen = 0
				j.rawSALen = 0
				vC11ArmRaw(j, clAddr)
				if d.inline && e.inline != nil {
					if !e.serveInline(j, &readerBurst) {
						d.handoff = true
						e.enqueueCounted(j)
					}
				} else {
					e.enqueue(j)
				}
				e.flushTX(&readerBurst)
				synctest.Wait()
				poll()
			}
			time.Sleep(5 * time.Second)
			synctest.Wait()
			poll()
			leasedEnd = e.leased.Load()
			inflightEnd = e.inFlight.Load()
			close(e.ready)
			e.workerG.Wait()
			e.overflowG.Wait()
			poll()
		})
		for _, h := range middleware.Handlers() {
			if st, ok := h.(interface{ Stop() }); ok {
				st.Stop()
			}
		}
		middleware.Reset()
		if inconclusive {
			b, _ := json.Marshal(map[string]any{"k": "ingress", "coq": "CaseWGConc 0 false 0 0 false", "inconclusive": true, "nontrivial": false, "desc": "loopback bind failed"})
			f.Write(append(b, '\n'))
			continue
		}
		var dc, oc []string
		var desc []map[string]any
		kinds := map[string]bool{}
		for i, d := range ds {
			kinds[d.kind] = true
			bare := []byte(nil)
			rcode := 0
			if len(d.first) >= 4 {
				rcode = int(d.first[3] & 0x0f)
			}
			if len(d.first) == 12 {
				bare = d.first
			}
			dc = append(dc, fmt.Sprintf("mk_gd %s %v %v %v", vC11GBytes(d.raw), d.decodable, d.inline, d.cached))
			oc = append(oc, fmt.Sprintf("mk_no %d %s %d %d", d.replies, vC11GBytes(bare), rcode, len(d.first)))
			desc = append(desc, map[string]any{"i": i, "kind": d.kind, "octets": fmt.Sprintf("%x", d.raw), "path": map[bool]string{true: "udp-inline", false: "udp-ring"}[d.inline],
				"handed_off_by_inline_pass": d.handoff, "replies": d.replies, "first_reply": fmt.Sprintf("%x", d.first)})
			if goFail == "" {
				qr := len(d.raw) >= 3 && d.raw[2]&0x80 != 0
				switch {
				case d.replies > 1:
					goFail = fmt.Sprintf("datagram %d (%s): %d replies", i, d.kind, d.replies)
				case (len(d.raw) < 12 || qr) && d.replies != 0:
					goFail = fmt.Sprintf("datagram %d (%s, %d octets, QR=%v) was answered: a response or a fragment of a header must never be", i, d.kind, len(d.raw), qr)
				case d.kind == "valid" && d.replies != 1:
					goFail = fmt.Sprintf("datagram %d: a well-formed query got %d replies", i, d.replies)
				case d.kind == "valid" && d.cached && (rcode != 0 || len(d.first) <= 12):
					goFail = fmt.Sprintf("datagram %d: a well-formed query for a cached name got %d replies (first: rcode %d, %d octets)", i, d.replies, rcode, len(d.first))
				case d.kind != "valid" && d.kind != "notify" && d.kind != "edge" && d.replies == 1 && len(d.first) > len(d.raw):
					goFail = fmt.Sprintf("datagram %d (%s, %d octets) was answered with %d octets: a rejection must not amplify", i, d.kind, len(d.raw), len(d.first))
				}
			}
		}
		if (leasedEnd != 0 || inflightEnd != 0) && goFail == "" {
			goFail = fmt.Sprintf("after the drain %d slabs are still leased and %d jobs in flight", leasedEnd, inflightEnd)
		}
		b, _ := json.Marshal(map[string]any{
			"k":          "ingress",
			"coq":        fmt.Sprintf("CaseIngress [%s] [%s]", strings.Join(dc, "; "), strings.Join(oc, "; ")),
			"nontrivial": len(kinds) >= 3,
			"go_fail":    goFail,
			"desc":       map[string]any{"datagrams": desc, "leased_after_drain": leasedEnd, "inflight_after_drain": inflightEnd},
		})
		f.Write(append(b, '\n'))
	}
}
