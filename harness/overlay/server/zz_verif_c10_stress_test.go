//go:build verif && linux && (amd64 || arm64)

package server

// C10 driver "stress" — TESTING, not proof. Real UDP and TCP engines on
// loopback with small worker / queue / slab limits, many concurrent clients,
// answers that encode the question, and a per-reply oracle on the client side:
//
//   * a reply must carry an ID this client used, the question this client sent
//     under that ID, and an answer that names that very question;
//   * a request that ends without a reply (muted, panicked, ignored, malformed)
//     must never be "answered", and no request is answered twice (UDP);
//   * on a stream the replies must arrive whole, in query order.
//
// A reply that never arrives is load shedding, not a violation: it is counted.
// Only a WRONG reply fails the case.
//
// Part A drives the engines with a stub rawHandler whose behaviour is chosen by
// the first label of the question (hit / miss / lease / flush / msg / mute /
// panic / bad / big), with and without the inline fast path, and on an engine
// whose two sockets are read by the batched and the portable reader at once.
// Part B drives them with the real Server and the real default chain (recovery
// ... cache) in front of a stand-in resolver, so pooled chains / writers, the
// cache's wire ladder, inline-to-worker handoff and duplicate suppression of
// concurrent misses are all in play.

import (
	"context"
	"encoding/binary"
	"encoding/json"
	"fmt"
	"io"
	"math/rand"
	"net"
	"net/netip"
	"os"
	"strings"
	"sync"
	"sync/atomic"
	"testing"
	"time"

	"github.com/miekg/dns"
	"github.com/semihalev/sdns/config"
	"github.com/semihalev/sdns/middleware"
	"github.com/semihalev/sdns/middleware/defaults"
)

// ---------------------------------------------------------------- stub handler

type vC10StressHandler struct{ inline bool }

func vC10FirstLabel(name string) string {
	if i := strings.IndexByte(name, '-'); i > 0 {
		return name[:i]
	}
	return ""
}

func vC10Reply(req *dns.Msg, pad int) *dns.Msg {
	m := new(dns.Msg)
	m.SetReply(req)
	name := req.Question[0].Name
	txt := []string{name}
	for pad > 0 {
		n := pad
		if n > 200 {
			n = 200
		}
		txt = append(txt, strings.Repeat("p", n))
		pad -= n
	}
	m.Answer = []dns.RR{&dns.TXT{Hdr: dns.RR_Header{Name: name, Rrtype: dns.TypeTXT, Class: dns.ClassINET, Ttl: 300}, Txt: txt}}
	return m
}

func (h *vC10StressHandler) serve(w middleware.Transport, raw []byte, inlinePass bool) bool {
	req := new(dns.Msg)
	if err := req.Unpack(raw); err != nil || len(req.Question) != 1 {
		return false
	}
	name := req.Question[0].Name
	kind := vC10FirstLabel(name)
	_, stream := w.(*tcpJob)
	switch kind {
	case "miss", "bad":
		if inlinePass {
			return false // hand off to a worker
		}
	}
	switch kind {
	case "hit":
		b, _ := vC10Reply(req, 0).Pack()
		_, _ = w.Write(b)
	case "miss":
		time.Sleep(time.Duration(200+int(raw[1])*5) * time.Microsecond)
		b, _ := vC10Reply(req, int(raw[1])%60).Pack()
		_, _ = w.Write(b)
	case "lease":
		b, _ := vC10Reply(req, 0).Pack()
		if l, ok := w.(middleware.WireTransportLeaser); ok {
			if buf := l.LeaseWire(len(b)); buf != nil {
				buf = append(buf, b...)
				_, _ = w.Write(buf)
				return true
			}
		}
		_, _ = w.Write(b)
	case "flush":
		if f, ok := w.(middleware.StagedFlusher); ok {
			f.FlushStaged()
		}
		b, _ := vC10Reply(req, 10).Pack()
		_, _ = w.Write(b)
	case "msg":
		_ = w.WriteMsg(vC10Reply(req, 30))
	case "big":
		pad := 5000
		if stream {
			pad = 9000 + int(raw[1])*40 // beyond the drain buffer, some beyond the small TX class
		}
		b, _ := vC10Reply(req, pad).Pack()
		_, _ = w.Write(b) // UDP: larger than the slab's TX, refused
	case "mute":
	case "panic":
		panic("verif: scripted handler panic")
	case "bad":
		return false
	default:
		b, _ := vC10Reply(req, 0).Pack()
		_, _ = w.Write(b)
	}
	return true
}

func (h *vC10StressHandler) ServeRaw(w middleware.Transport, raw []byte, _ time.Time) bool {
	return h.serve(w, raw, false)
}
func (h *vC10StressHandler) InlineReady() bool { return h.inline }
func (h *vC10StressHandler) ServeRawInline(w middleware.Transport, raw []byte, _ time.Time) bool {
	return h.serve(w, raw, true)
}
func (h *vC10StressHandler) ServeRawReplay(w middleware.Transport, raw []byte, _ time.Time) bool {
	return h.serve(w, raw, false)
}

// plain variant without the inline methods
type vC10PlainHandler struct{ h *vC10StressHandler }

func (p vC10PlainHandler) ServeRaw(w middleware.Transport, raw []byte, t time.Time) bool {
	return p.h.serve(w, raw, false)
}

// ---------------------------------------------------------------- stand-in resolver for the real chain

type vC10Witness struct{ calls atomic.Int64 }

func (w *vC10Witness) Name() string { return "verif-c10-witness" }
func (w *vC10Witness) ServeDNS(ctx context.Context, ch *middleware.Chain) {
	w.calls.Add(1)
	_, req := ch.Materialize(ctx)
	if req == nil || len(req.Question) != 1 {
		return
	}
	name := req.Question[0].Name
	switch vC10FirstLabel(name) {
	case "slow":
		time.Sleep(2 * time.Millisecond)
	case "panic":
		panic("verif: scripted resolver panic")
	case "mute":
		ch.Cancel()
		return
	}
	resp := vC10Reply(req, 0)
	resp.RecursionAvailable = true
	_ = ch.Writer.WriteMsg(resp)
	ch.Cancel()
}

// ---------------------------------------------------------------- client-side oracle

const (
	vC10ExpReply   = iota // a full reply naming the question
	vC10ExpSilent         // nothing must come back
	vC10ExpFormErr        // header-only FORMERR
	vC10ExpNotImp         // header-only NOTIMP
	vC10ExpAny            // a reply is allowed (any rcode) but must still be about this question
)

type vC10Query struct {
	id      uint16
	name    string // "" for header-only / malformed shapes
	exp     int
	wire    []byte
	replies int
	// what the query's own OPT carried: everything client-derived in the reply's
	// OPT must come from here
	hasOpt bool
	do     bool
	cookie []byte // the 8-byte client cookie, nil when none was sent
	ecs    net.IP // the client subnet's address, nil when none was sent
	ecsLen uint8
}

// vC10OptProvenance: every client-derived fact in the reply's OPT (the client
// cookie inside COOKIE, the subnet inside ECS, the DO bit) must be what THIS
// query sent; none of them can appear when the query did not send it.
func vC10OptProvenance(q *vC10Query, m *dns.Msg) string {
	opt := m.IsEdns0()
	if opt == nil {
		return ""
	}
	if opt.Do() && !q.do {
		return fmt.Sprintf("id %d (%q): the reply has DO set, the query had not", q.id, q.name)
	}
	for _, o := range opt.Option {
		switch v := o.(type) {
		case *dns.EDNS0_COOKIE:
			want := fmt.Sprintf("%x", q.cookie)
			if q.cookie == nil {
				return fmt.Sprintf("id %d (%q): the query carried no cookie and the reply carries COOKIE %s", q.id, q.name, v.Cookie)
			}
			if !strings.HasPrefix(strings.ToLower(v.Cookie), want) {
				return fmt.Sprintf("id %d (%q): sent client cookie %s, the reply's COOKIE is %s", q.id, q.name, want, v.Cookie)
			}
		case *dns.EDNS0_SUBNET:
			if q.ecs == nil {
				return fmt.Sprintf("id %d (%q): the query carried no client subnet and the reply carries %s/%d", q.id, q.name, v.Address, v.SourceNetmask)
			}
			if !v.Address.Equal(q.ecs) && v.SourceNetmask != 0 {
				return fmt.Sprintf("id %d (%q): sent client subnet %s/%d, the reply carries %s/%d", q.id, q.name, q.ecs, q.ecsLen, v.Address, v.SourceNetmask)
			}
		}
	}
	return ""
}

type vC10Stats struct {
	sent, good, missing, wrong int64
	firstWrong, firstMissing   atomic.Value
}

func (s *vC10Stats) fail(format string, a ...any) {
	atomic.AddInt64(&s.wrong, 1)
	s.firstWrong.CompareAndSwap(nil, fmt.Sprintf(format, a...))
}

// vC10Judge checks one reply body against the query it claims to answer.
func vC10Judge(q *vC10Query, body []byte, chain bool) string {
	switch q.exp {
	case vC10ExpSilent:
		return fmt.Sprintf("a reply (%d bytes) arrived for id %d (%q), a request that ends without one", len(body), q.id, q.name)
	case vC10ExpFormErr, vC10ExpNotImp:
		want := byte(dns.RcodeFormatError)
		if q.exp == vC10ExpNotImp {
			want = dns.RcodeNotImplemented
		}
		if len(body) != 12 || body[3]&0xF != want || body[2]&0x80 == 0 {
			// through the real chain a FORMERR may also come decoded; accept any well-formed reply with that id
			if chain {
				return ""
			}
			return fmt.Sprintf("id %d: want a bare header with rcode %d, got % x", q.id, want, body[:min(len(body), 16)])
		}
		return ""
	}
	m := new(dns.Msg)
	if err := m.Unpack(body); err != nil {
		return fmt.Sprintf("id %d (%q): undecodable reply: %v", q.id, q.name, err)
	}
	if !m.Response {
		return fmt.Sprintf("id %d: QR clear", q.id)
	}
	if len(m.Question) != 1 || m.Question[0].Name != q.name {
		return fmt.Sprintf("id %d: asked %q, the reply is about %v", q.id, q.name, m.Question)
	}
	for _, rr := range m.Answer {
		if rr.Header().Name != q.name {
			return fmt.Sprintf("id %d: asked %q, answer owner %q", q.id, q.name, rr.Header().Name)
		}
		if t, ok := rr.(*dns.TXT); ok && (len(t.Txt) == 0 || t.Txt[0] != q.name) {
			return fmt.Sprintf("id %d: asked %q, answer encodes %q", q.id, q.name, t.Txt)
		}
	}
	if msg := vC10OptProvenance(q, m); msg != "" {
		return msg
	}
	if q.exp == vC10ExpReply && m.Rcode == dns.RcodeSuccess && len(m.Answer) == 0 && !chain {
		return fmt.Sprintf("id %d (%q): empty answer", q.id, q.name)
	}
	return ""
}

// vC10MakeQuery builds the idx-th query of a client. Header-only shapes carry
// the client number in the ID (nothing else of them comes back).
func vC10MakeQuery(r *rand.Rand, client, idx int, kinds []string, chain bool) *vC10Query {
	kind := kinds[r.Intn(len(kinds))]
	q := &vC10Query{id: uint16(1 + idx)}
	uniq := uint16(0x8000 | (client&0x7F)<<8 | idx&0xFF)
	// through the real chain a fifth of the named queries have a shape the strict wire
	// parser declines (an additional record that is no OPT, or bytes trailing the
	// question) and miekg's Unpack accepts: they are served on the decoded route, with a
	// chain drawn from Pipeline.chainPool, next to the wire-born ones on job-owned chains
	fallback := 0
	if chain && r.Intn(5) == 0 {
		fallback = 1 + r.Intn(2)
	}
	mk := func(name string) []byte {
		m := new(dns.Msg)
		m.SetQuestion(name, dns.TypeTXT)
		m.Id = q.id
		if fallback == 1 {
			m.Extra = append(m.Extra, &dns.TXT{Hdr: dns.RR_Header{Name: "extra.c10.test.", Rrtype: dns.TypeTXT, Class: dns.ClassINET}, Txt: []string{"not an OPT"}})
		}
		if fallback == 2 {
			b, _ := m.Pack()
			return append(b, 0, 0, 0)
		}
		// the OPT a client sends varies from query to query: none, bare, DO, a client
		// cookie of its own, a client subnet of its own
		shape := r.Intn(8)
		if shape >= 2 {
			q.hasOpt = true
			q.do = shape == 3 || shape == 6
			m.SetEdns0(uint16(1232+r.Intn(3)*512), q.do)
			opt := m.IsEdns0()
			if shape == 4 || shape == 5 || shape == 6 {
				q.cookie = []byte{0xC0, byte(client), byte(idx >> 8), byte(idx), byte(r.Intn(256)), byte(r.Intn(256)), byte(r.Intn(256)), byte(r.Intn(256))}
				opt.Option = append(opt.Option, &dns.EDNS0_COOKIE{Code: dns.EDNS0COOKIE, Cookie: fmt.Sprintf("%x", q.cookie)})
			}
			if shape == 7 || shape == 5 {
				q.ecs = net.IPv4(198, byte(18+client%2), byte(client), 0).To4()
				q.ecsLen = 24
				opt.Option = append(opt.Option, &dns.EDNS0_SUBNET{Code: dns.EDNS0SUBNET, Family: 1, SourceNetmask: 24, Address: q.ecs})
			}
		}
		b, _ := m.Pack()
		return b
	}
	switch kind {
	case "short":
		q.id, q.exp = uniq, vC10ExpSilent
		q.wire = []byte{byte(uniq >> 8), byte(uniq), 1}[:r.Intn(4)]
		return q
	case "qr":
		q.id, q.exp = uniq, vC10ExpSilent
		q.wire = mk(fmt.Sprintf("hit-c%d-q%d.c10.test.", client, idx))
		binary.BigEndian.PutUint16(q.wire, uniq)
		q.wire[2] |= 0x80
		return q
	case "opcode":
		q.id, q.exp = uniq, vC10ExpNotImp
		q.wire = mk(fmt.Sprintf("hit-c%d-q%d.c10.test.", client, idx))
		binary.BigEndian.PutUint16(q.wire, uniq)
		q.wire[2] |= 2 << 3
		return q
	case "counts":
		q.id, q.exp = uniq, vC10ExpFormErr
		q.wire = mk(fmt.Sprintf("hit-c%d-q%d.c10.test.", client, idx))
		binary.BigEndian.PutUint16(q.wire, uniq)
		q.wire[5] = 2
		return q
	case "bad":
		// accepted header, the handler reports an undecodable body: in-place FORMERR
		q.id, q.exp = uniq, vC10ExpFormErr
		q.name = fmt.Sprintf("bad-c%d-q%d.c10.test.", client, idx)
		q.wire = mk(q.name)
		binary.BigEndian.PutUint16(q.wire, uniq)
		return q
	case "hot":
		// a name every client asks: only the ID tells the replies apart, so it is the client's own
		q.id = uint16(0x4000 | (client&0x3F)<<8 | idx&0xFF)
		q.name = fmt.Sprintf("hot-%d.shared.c10.test.", r.Intn(12))
	case "fresh":
		// asked by several clients at about the same time: concurrent misses on one name
		q.id = uint16(0x4000 | (client&0x3F)<<8 | idx&0xFF)
		q.name = fmt.Sprintf("slow-%d-%d.shared.c10.test.", idx/4, r.Intn(3))
	default:
		q.name = fmt.Sprintf("%s-c%d-q%d.c10.test.", kind, client, idx)
	}
	q.wire = mk(q.name)
	switch kind {
	case "mute", "panic":
		q.exp = vC10ExpSilent
		if chain {
			q.exp = vC10ExpAny // recovery answers SERVFAIL; a muted resolver may or may not be covered
		}
	case "big":
		q.exp = vC10ExpAny
	}
	return q
}

func vC10UDPClient(r *rand.Rand, client int, targets []netip.AddrPort, kinds []string, nq int, chain bool, st *vC10Stats) {
	conn, err := net.ListenUDP("udp4", &net.UDPAddr{IP: net.IPv4(127, 0, 0, 1)})
	if err != nil {
		return
	}
	defer conn.Close()
	_ = conn.SetReadBuffer(1 << 20)
	byID := map[uint16]*vC10Query{}
	buf := make([]byte, 65536)
	outstanding := 0
	handle := func(d []byte) {
		if len(d) < 12 {
			st.fail("client %d: a %d-byte datagram that is no DNS header: % x", client, len(d), d)
			return
		}
		id := binary.BigEndian.Uint16(d)
		q := byID[id]
		if q == nil {
			st.fail("client %d: a reply with id %d this client never used (% x ...)", client, id, d[:12])
			return
		}
		if msg := vC10Judge(q, d, chain); msg != "" {
			st.fail("client %d: %s", client, msg)
			return
		}
		q.replies++
		if q.replies > 1 {
			st.fail("client %d: id %d (%q) answered %d times", client, id, q.name, q.replies)
			return
		}
		atomic.AddInt64(&st.good, 1)
		outstanding--
	}
	const window = 8
	for i := 0; i < nq; i++ {
		q := vC10MakeQuery(r, client, i, kinds, chain)
		byID[q.id] = q
		if _, err := conn.WriteToUDPAddrPort(q.wire, targets[r.Intn(len(targets))]); err == nil {
			atomic.AddInt64(&st.sent, 1)
			if q.exp != vC10ExpSilent {
				outstanding++
			}
		}
		if (i+1)%window == 0 || i == nq-1 {
			deadline := time.Now().Add(150 * time.Millisecond)
			for outstanding > 0 {
				_ = conn.SetReadDeadline(deadline)
				n, _, err := conn.ReadFromUDPAddrPort(buf)
				if err != nil {
					break
				}
				handle(buf[:n])
			}
			if outstanding > 0 {
				atomic.AddInt64(&st.missing, int64(outstanding))
				outstanding = 0
			}
		}
	}
	// anything that still trickles in — late, duplicate or misdirected
	for {
		_ = conn.SetReadDeadline(time.Now().Add(120 * time.Millisecond))
		n, _, err := conn.ReadFromUDPAddrPort(buf)
		if err != nil {
			break
		}
		handle(buf[:n])
	}
}

func vC10TCPClient(r *rand.Rand, client int, addr string, kinds []string, bursts, perBurst int, chain bool, st *vC10Stats) {
	conn, err := net.Dial("tcp", addr)
	if err != nil {
		return
	}
	defer conn.Close()
	idx := 0
	for b := 0; b < bursts; b++ {
		var qs []*vC10Query
		var out []byte
		cut := -1
		for i := 0; i < perBurst; i++ {
			q := vC10MakeQuery(r, client, idx, kinds, chain)
			// on a stream every ID of a burst is distinct, so order can be checked by ID too
			q.id = uint16(1+idx) ^ uint16(client&0xFF)<<8
			if len(q.wire) >= 2 {
				binary.BigEndian.PutUint16(q.wire, q.id)
			}
			idx++
			if len(q.wire) < 12 {
				continue // a sub-header frame ends the session by design; not this test
			}
			qs = append(qs, q)
			out = binary.BigEndian.AppendUint16(out, uint16(len(q.wire)))
			out = append(out, q.wire...)
			if !chain && strings.HasPrefix(q.name, "panic-") && cut < 0 {
				cut = len(qs) - 1 // the engine closes the connection at a handler panic
			}
		}
		_ = conn.SetDeadline(time.Now().Add(4 * time.Second))
		if _, err := conn.Write(out); err != nil {
			return
		}
		atomic.AddInt64(&st.sent, int64(len(qs)))
		var expect []*vC10Query
		for i, q := range qs {
			if cut >= 0 && i >= cut {
				break
			}
			if q.exp != vC10ExpSilent {
				expect = append(expect, q)
			}
		}
		next := 0
		for next < len(expect) {
			var pre [2]byte
			if _, err := io.ReadFull(conn, pre[:]); err != nil {
				atomic.AddInt64(&st.missing, int64(len(expect)-next))
				return // closed or too slow under load: not a verdict
			}
			n := int(binary.BigEndian.Uint16(pre[:]))
			body := make([]byte, n)
			if _, err := io.ReadFull(conn, body); err != nil {
				st.fail("tcp client %d: frame announces %d bytes and the stream ends inside it", client, n)
				return
			}
			if n < 12 {
				st.fail("tcp client %d: a %d-byte frame: % x", client, n, body)
				return
			}
			id := binary.BigEndian.Uint16(body)
			// replies the handler was free to skip (ExpAny that chose silence) may be absent: resynchronise forward
			j := next
			for j < len(expect) && expect[j].id != id && expect[j].exp == vC10ExpAny {
				j++
			}
			if j >= len(expect) || expect[j].id != id {
				st.fail("tcp client %d: reply id %d out of order (expected id %d next)", client, id, expect[next].id)
				return
			}
			if msg := vC10Judge(expect[j], body, chain); msg != "" {
				st.fail("tcp client %d: %s", client, msg)
				return
			}
			atomic.AddInt64(&st.good, 1)
			next = j + 1
		}
		if cut >= 0 {
			// after a panic the connection is gone; nothing more may arrive
			_ = conn.SetReadDeadline(time.Now().Add(200 * time.Millisecond))
			var one [1]byte
			if n, _ := conn.Read(one[:]); n > 0 {
				st.fail("tcp client %d: bytes arrive after the frame whose handler panicked", client)
			}
			return
		}
	}
	// the connection is idle now: nothing more may arrive
	_ = conn.SetReadDeadline(time.Now().Add(150 * time.Millisecond))
	var one [1]byte
	if n, _ := conn.Read(one[:]); n > 0 {
		st.fail("tcp client %d: bytes arrive with no query outstanding", client)
	}
}

// ---------------------------------------------------------------- engines

type vC10UDPRig struct {
	targets []netip.AddrPort
	stop    func()
	engine  *udpEngine
}

// through the production listener (Bind/Serve/Shutdown)
func vC10StartUDP(t *testing.T, h rawHandler, workers, queue, slabs int) *vC10UDPRig {
	plan := resourcePlan{udpSockets: 1, udpWorkers: workers, udpQueue: queue}
	plan.udpSpareSlabs = int64(slabs - (queue + workers + udpReaderReserve))
	l := newUDPListener("127.0.0.1:0", h, time.Second, workers, queue, plan)
	if err := l.Bind(context.Background()); err != nil {
		t.Fatal(err)
	}
	done := make(chan struct{})
	go func() { _ = l.Serve(context.Background()); close(done) }()
	for i := 0; i < 400 && !l.Serving(); i++ {
		time.Sleep(5 * time.Millisecond)
	}
	rig := &vC10UDPRig{engine: l.engine}
	for _, pc := range l.pcs {
		rig.targets = append(rig.targets, pc.LocalAddr().(*net.UDPAddr).AddrPort())
	}
	rig.stop = func() {
		_ = l.Shutdown(context.Background())
		select {
		case <-done:
		case <-time.After(5 * time.Second):
		}
	}
	return rig
}

// one engine, two sockets: socket 0 read by the batched reader, socket 1 by the
// portable reader — the state permanentRerr leaves an engine in.
func vC10StartUDPMixed(t *testing.T, h rawHandler, workers, queue, slabs int) *vC10UDPRig {
	var pcs []*net.UDPConn
	for i := 0; i < 2; i++ {
		pc, err := net.ListenUDP("udp4", &net.UDPAddr{IP: net.IPv4(127, 0, 0, 1)})
		if err != nil {
			t.Fatal(err)
		}
		pcs = append(pcs, pc)
	}
	plan := resourcePlan{udpSockets: 2, udpWorkers: workers, udpQueue: queue}
	plan.udpSpareSlabs = int64(slabs - (queue + workers + 2*udpReaderReserve))
	e := newUDPEngine(h, pcs, false, workers, queue, plan)
	for i := 0; i < e.workers; i++ {
		e.workerG.Add(1)
		go e.worker(i)
	}
	if e.txConns == nil || e.txConns[pcs[0]] == nil {
		t.Fatal("no raw conn")
	}
	br := newUDPBatchReader(e, 0, pcs[0], e.txConns[pcs[0]])
	e.readers.Add(1)
	go br.run()
	e.readers.Add(1)
	go e.reader(1, pcs[1])
	rig := &vC10UDPRig{engine: e}
	for _, pc := range pcs {
		rig.targets = append(rig.targets, pc.LocalAddr().(*net.UDPAddr).AddrPort())
	}
	rig.stop = func() {
		for _, pc := range pcs {
			_ = pc.SetReadDeadline(time.Now())
		}
		_ = e.stopAndDrain(time.Now().Add(3 * time.Second))
		for _, pc := range pcs {
			_ = pc.Close()
		}
	}
	return rig
}

func vC10StartTCP(t *testing.T, h rawHandler, maxConns, small, large int) (string, func()) {
	plan := resourcePlan{tcpConns: maxConns, tcpSmallJobs: small, tcpLargeJobs: large}
	l := newTCPListener("127.0.0.1:0", h, time.Second, 0, plan)
	if err := l.Bind(context.Background()); err != nil {
		t.Fatal(err)
	}
	done := make(chan struct{})
	go func() { _ = l.Serve(context.Background()); close(done) }()
	for i := 0; i < 400 && !l.Serving(); i++ {
		time.Sleep(5 * time.Millisecond)
	}
	l.mu.Lock()
	addr := l.ln.Addr().String()
	l.mu.Unlock()
	return addr, func() {
		_ = l.Shutdown(context.Background())
		select {
		case <-done:
		case <-time.After(5 * time.Second):
		}
	}
}

var vC10RecycleKinds = []string{"hot", "hot", "hot", "uniq", "uniq", "fresh", "opcode", "counts", "qr", "hot", "uniq", "short"}

// vC10RecycleUDP: four client sockets take turns, one outstanding query at a time.
func vC10RecycleUDP(t *testing.T, s *Server, r *rand.Rand, n int) *vC10Stats {
	st := &vC10Stats{}
	rig := vC10StartUDP(t, s, 1, 1, 2)
	defer rig.stop()
	var conns []*net.UDPConn
	for i := 0; i < 4; i++ {
		c, err := net.ListenUDP("udp4", &net.UDPAddr{IP: net.IPv4(127, 0, 0, 1)})
		if err != nil {
			return st
		}
		defer c.Close()
		conns = append(conns, c)
	}
	buf := make([]byte, 65536)
	byID := make([]map[uint16]*vC10Query, len(conns))
	for i := range byID {
		byID[i] = map[uint16]*vC10Query{}
	}
	check := func(ci int, d []byte) {
		if len(d) < 12 {
			st.fail("recycle client %d: a %d-byte datagram", ci, len(d))
			return
		}
		q := byID[ci][binary.BigEndian.Uint16(d)]
		if q == nil {
			st.fail("recycle client %d: a reply with id %d this client never used", ci, binary.BigEndian.Uint16(d))
			return
		}
		if msg := vC10Judge(q, d, true); msg != "" {
			st.fail("recycle client %d: %s", ci, msg)
			return
		}
		q.replies++
		if q.replies > 1 {
			st.fail("recycle client %d: id %d answered %d times", ci, q.id, q.replies)
			return
		}
		atomic.AddInt64(&st.good, 1)
	}
	for i := 0; i < n; i++ {
		ci := r.Intn(len(conns))
		q := vC10MakeQuery(r, 40+ci, i, vC10RecycleKinds, true)
		byID[ci][q.id] = q
		if _, err := conns[ci].WriteToUDPAddrPort(q.wire, rig.targets[0]); err != nil {
			continue
		}
		atomic.AddInt64(&st.sent, 1)
		if q.exp == vC10ExpSilent {
			continue
		}
		_ = conns[ci].SetReadDeadline(time.Now().Add(250 * time.Millisecond))
		m, _, err := conns[ci].ReadFromUDPAddrPort(buf)
		if err != nil {
			atomic.AddInt64(&st.missing, 1)
			st.firstMissing.CompareAndSwap(nil, fmt.Sprintf("id %d %q exp %d wire % x", q.id, q.name, q.exp, q.wire))
			continue
		}
		check(ci, buf[:m])
	}
	// nothing may trail in on any socket
	for ci, c := range conns {
		for {
			_ = c.SetReadDeadline(time.Now().Add(60 * time.Millisecond))
			m, _, err := c.ReadFromUDPAddrPort(buf)
			if err != nil {
				break
			}
			check(ci, buf[:m])
		}
	}
	return st
}

// vC10RecycleTCP: three connections take turns on an engine with a single small slab.
func vC10RecycleTCP(t *testing.T, s *Server, r *rand.Rand, n int) *vC10Stats {
	st := &vC10Stats{}
	addr, stop := vC10StartTCP(t, s, 8, 1, 1)
	defer stop()
	var conns []net.Conn
	for i := 0; i < 3; i++ {
		c, err := net.Dial("tcp", addr)
		if err != nil {
			return st
		}
		defer c.Close()
		conns = append(conns, c)
	}
	for i := 0; i < n; i++ {
		ci := r.Intn(len(conns))
		q := vC10MakeQuery(r, 50+ci, i, vC10RecycleKinds, true)
		if len(q.wire) < 12 {
			continue
		}
		out := binary.BigEndian.AppendUint16(nil, uint16(len(q.wire)))
		out = append(out, q.wire...)
		_ = conns[ci].SetDeadline(time.Now().Add(3 * time.Second))
		if _, err := conns[ci].Write(out); err != nil {
			return st
		}
		atomic.AddInt64(&st.sent, 1)
		if q.exp == vC10ExpSilent {
			continue
		}
		var pre [2]byte
		if _, err := io.ReadFull(conns[ci], pre[:]); err != nil {
			atomic.AddInt64(&st.missing, 1)
			return st
		}
		body := make([]byte, binary.BigEndian.Uint16(pre[:]))
		if _, err := io.ReadFull(conns[ci], body); err != nil {
			st.fail("recycle tcp %d: the stream ends inside a frame", ci)
			return st
		}
		if len(body) < 12 || binary.BigEndian.Uint16(body) != q.id {
			st.fail("recycle tcp %d: expected the reply to id %d, got % x", ci, q.id, body[:min(len(body), 12)])
			return st
		}
		if msg := vC10Judge(q, body, true); msg != "" {
			st.fail("recycle tcp %d: %s", ci, msg)
			return st
		}
		atomic.AddInt64(&st.good, 1)
	}
	return st
}

func TestVerifC10Stress(t *testing.T) {
	out := os.Getenv("VERIF_OUT")
	if out == "" {
		t.Skip("VERIF_OUT not set")
	}
	f, err := os.Create(out)
	if err != nil {
		t.Fatal(err)
	}
	defer f.Close()
	seed := vC10EnvInt("VERIF_SEED", 1)
	rounds := vC10EnvInt("VERIF_N", 2)
	var mu sync.Mutex
	// a sentinel sits behind the finished lines while a configuration runs: if an
	// engine goroutine panics the process dies and the sentinel is what remains
	var off int64
	sentinel := func(kind string) {
		_ = f.Truncate(off)
		_, _ = f.Seek(off, 0)
		b, _ := json.Marshal(map[string]any{"k": kind + "-died", "nontrivial": true, "desc": map[string]any{"config": kind},
			"go_fail": "the process died while " + kind + " was running: an engine goroutine panicked"})
		_, _ = f.Write(append(b, '\n'))
	}
	emit := func(kind string, st *vC10Stats, extra map[string]any) {
		desc := map[string]any{"sent": st.sent, "good_replies": st.good, "no_reply_under_load": st.missing, "wrong": st.wrong}
		if fm := st.firstMissing.Load(); fm != nil {
			desc["first_unanswered"] = fm
		}
		for k, v := range extra {
			desc[k] = v
		}
		line := map[string]any{"k": kind, "desc": desc, "nontrivial": st.good > 0}
		if st.wrong > 0 {
			line["go_fail"] = fmt.Sprintf("%d wrong replies; first: %v", st.wrong, st.firstWrong.Load())
		} else if st.good == 0 {
			line["inconclusive"] = true
		}
		b, _ := json.Marshal(line)
		mu.Lock()
		_ = f.Truncate(off)
		_, _ = f.Seek(off, 0)
		n, _ := f.Write(append(b, '\n'))
		off += int64(n)
		mu.Unlock()
	}

	stubKinds := []string{"hit", "hit", "hit", "miss", "miss", "lease", "flush", "msg", "mute", "panic", "bad", "big", "short", "qr", "opcode", "counts"}
	tcpKinds := []string{"hit", "hit", "hit", "miss", "lease", "flush", "msg", "mute", "bad", "big", "qr", "opcode", "counts", "hit", "miss", "hit",
		"hit", "hit", "hit", "miss", "lease", "flush", "msg", "mute", "bad", "big", "qr", "opcode", "counts", "hit", "miss", "hit",
		"hit", "hit", "hit", "miss", "lease", "flush", "msg", "mute", "bad", "big", "qr", "opcode", "counts", "hit", "miss", "panic"}
	chainKinds := []string{"hot", "hot", "hot", "hot", "fresh", "fresh", "uniq", "uniq", "slow", "panic", "mute", "short", "qr", "opcode", "counts"}

	for round := 0; round < rounds; round++ {
		base := int64(seed)*1000003 + int64(round)*7919

		// ---- A: stub handler
		type ucfg struct {
			name                  string
			inline, mixed         bool
			workers, queue, slabs int
			clients, perClient    int
		}
		// the four UDP configurations and the TCP one are independent engines on their own
		// sockets: they run side by side (more contention, less waiting on read deadlines)
		ucfgs := []ucfg{
			{"stress-udp-stub", false, false, 2, 2, 12, 24, 48},
			{"stress-udp-stub-inline", true, false, 2, 1, 10, 24, 48},
			{"stress-udp-stub-mixed-readers", false, true, 2, 2, 14, 24, 48},
			{"stress-udp-stub-inline-mixed-readers", true, true, 1, 1, 8, 24, 48},
		}
		sentinel("stress-stub-engines")
		tA := time.Now()
		ustats := make([]*vC10Stats, len(ucfgs))
		var awg sync.WaitGroup
		for ci, uc := range ucfgs {
			awg.Add(1)
			go func(ci int, uc ucfg) {
				defer awg.Done()
				sh := &vC10StressHandler{inline: uc.inline}
				var h rawHandler = sh
				if !uc.inline {
					h = vC10PlainHandler{sh}
				}
				var rig *vC10UDPRig
				if uc.mixed {
					rig = vC10StartUDPMixed(t, h, uc.workers, uc.queue, uc.slabs)
				} else {
					rig = vC10StartUDP(t, h, uc.workers, uc.queue, uc.slabs)
				}
				st := &vC10Stats{}
				var wg sync.WaitGroup
				for c := 0; c < uc.clients; c++ {
					wg.Add(1)
					go func(c int) {
						defer wg.Done()
						vC10UDPClient(rand.New(rand.NewSource(base+int64(ci)*131+int64(c))), c, rig.targets, stubKinds, uc.perClient, false, st)
					}(c)
				}
				wg.Wait()
				rig.stop()
				ustats[ci] = st
			}(ci, uc)
		}
		tcpSt := &vC10Stats{}
		awg.Add(1)
		go func() {
			defer awg.Done()
			sh := &vC10StressHandler{}
			addr, stop := vC10StartTCP(t, vC10PlainHandler{sh}, 12, 3, 1)
			var wg sync.WaitGroup
			for c := 0; c < 16; c++ { // more clients than the connection cap admits
				wg.Add(1)
				go func(c int) {
					defer wg.Done()
					vC10TCPClient(rand.New(rand.NewSource(base+9000+int64(c))), c, addr, tcpKinds, 4, 24, false, tcpSt)
				}(c)
			}
			wg.Wait()
			stop()
		}()
		awg.Wait()
		for ci, uc := range ucfgs {
			emit(uc.name, ustats[ci], map[string]any{"workers": uc.workers, "queue": uc.queue, "slab_cap": uc.slabs, "clients": uc.clients})
		}
		emit("stress-tcp-stub", tcpSt, map[string]any{"conn_cap": 12, "small_slabs": 3, "large_slabs": 1, "clients": 16, "part_a_ms": time.Since(tA).Milliseconds()})

		// ---- B: the real Server and default chain in front of a stand-in resolver
		{
			sentinel("stress-chain")
			tB := time.Now()
			witness := &vC10Witness{}
			middleware.Reset()
			defaults.RegisterUpTo("resolver")
			middleware.Register(witness.Name(), func(*config.Config) middleware.Handler { return witness })
			cfg := &config.Config{Bind: "127.0.0.1:0", Expire: 600, CacheSize: 10240, CookieSecret: "verif-c10-cookie-secret"}
			cfg.QueryTimeout.Duration = 3 * time.Second
			middleware.Setup(cfg)
			s := New(cfg)
			rig := vC10StartUDP(t, s, 2, 2, 14)
			addr, stopTCP := vC10StartTCP(t, s, 12, 3, 1)
			ust, tst := &vC10Stats{}, &vC10Stats{}
			var wg sync.WaitGroup
			for c := 0; c < 20; c++ {
				wg.Add(1)
				go func(c int) {
					defer wg.Done()
					vC10UDPClient(rand.New(rand.NewSource(base+20000+int64(c))), c, rig.targets, chainKinds, 48, true, ust)
				}(c)
			}
			for c := 0; c < 8; c++ {
				wg.Add(1)
				go func(c int) {
					defer wg.Done()
					vC10TCPClient(rand.New(rand.NewSource(base+30000+int64(c))), 100+c, addr, chainKinds, 3, 20, true, tst)
				}(c)
			}
			wg.Wait()
			rig.stop()
			stopTCP()
			emit("stress-udp-chain", ust, map[string]any{"inline_ready": s.InlineReady(), "resolver_calls": witness.calls.Load(), "clients": 20})
			emit("stress-tcp-chain", tst, map[string]any{"clients": 8, "part_b_ms": time.Since(tB).Milliseconds()})
			tC := time.Now()

			// ---- C: the same Server, one query at a time, on engines with so few slabs
			// that consecutive clients are certain to be served on the same recycled slab
			// (and its job-owned request / chain / carrier / edns-writer storage), the
			// clients alternating and every query's OPT differing from the previous one's.
			sentinel("recycle-chain")
			rst := vC10RecycleUDP(t, s, rand.New(rand.NewSource(base+40000)), 160)
			emit("recycle-udp-chain", rst, map[string]any{"slab_cap": 2, "clients": 4, "sequential": true, "part_c_udp_ms": time.Since(tC).Milliseconds()})
			tC = time.Now()
			rtt := vC10RecycleTCP(t, s, rand.New(rand.NewSource(base+41000)), 120)
			emit("recycle-tcp-chain", rtt, map[string]any{"small_slabs": 1, "connections": 3, "sequential": true, "part_c_tcp_ms": time.Since(tC).Milliseconds()})
			_ = f.Truncate(off)
			middleware.Reset()
		}
	}
}
