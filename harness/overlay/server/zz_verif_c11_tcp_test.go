//go:build verif

package server

// C11 driver (e): the TCP / DoT stream path. The REAL tcpEngine.serveConn loop (prefix-first
// acquisition, fill / drain buffers, lazily armed deadlines: tcpStream.arm / beforeRead /
// beforeWrite / flush / stage / body) in front of the REAL Server.ServeRaw and the real default
// chain (recovery ... cache, failover) with a scripted stand-in for the resolver, on a scripted
// net.Conn whose deadline semantics are those of a socket (a Read or Write issued at or after the
// armed bound fails at once with a timeout; one that blocks is released at the bound), all in a
// testing/synctest bubble: resolutions of 17 ms ... 6 s and the 2 s / 8 s connection bounds cost
// no wall time and no verdict depends on the machine.
// Recorded: every SetDeadline (instant, bound), every Write (instant issued, instant returned,
// bound the connection carried, result, IDs of the reply frames it completed), the close; per
// frame: chain entered, resolver stand-in called, reply frames the client received.

import (
	"context"
	"encoding/binary"
	"encoding/json"
	"fmt"
	"io"
	"math/rand"
	"net"
	"os"
	"strings"
	"sync"
	"sync/atomic"
	"testing"
	"testing/synctest"
	"time"

	"github.com/miekg/dns"
	"github.com/semihalev/sdns/config"
	"github.com/semihalev/sdns/internal/dnsutil"
	"github.com/semihalev/sdns/middleware"
	"github.com/semihalev/sdns/middleware/defaults"
)

// Instants are kept apart by residues mod 32 so that no two things the outcome depends on
// happen at the same virtual instant in an order the scheduler picks: client chunks arrive at
// multiples of 32 (the exact-bound templates excepted: there the connection is parked in Read
// and the bound wins by construction), the client closes / stops reading at 16 mod 32,
// resolutions take 1 mod 32, the query timeout is 3 mod 32, and a connection announces at most
// five frames - so an instant at which the connection goroutine runs on its own is never one
// at which the client acts, and a resolution never ends at its request's deadline.
const vC11TQt = 5027

type vC11TFrame struct {
	miss  bool
	delay int // resolution time of a miss, ms
	big   bool
	raw   []byte

	entered atomic.Bool
	called  atomic.Bool
	replies int
	class   int
}

type vC11TChunk struct{ t, n int }

type vC11TScenario struct {
	mode    string
	frames  []*vC11TFrame
	chunks  []vC11TChunk
	eofAt   int // -1 none
	stallAt int // -1 none
}

type vC11TEvent struct {
	kind   int // 0 SetDeadline, 1 Write, 2 Close
	t0, t1 int
	bound  int
	ok     bool
	ids    []int
}

// vC11TConn is the scripted connection. Time is the bubble's virtual clock.
type vC11TConn struct {
	mu       sync.Mutex
	start    time.Time
	in       []byte
	eof      bool
	closed   bool
	deadline time.Time
	wake     chan struct{}
	stallAt  int
	wbuf     []byte
	log      []vC11TEvent
	stuck    bool
}

func (c *vC11TConn) ms(t time.Time) int {
	if t.IsZero() {
		return 0
	}
	return int(t.Sub(c.start) / time.Millisecond)
}
func (c *vC11TConn) signalLocked() { close(c.wake); c.wake = make(chan struct{}) }
func (c *vC11TConn) feed(b []byte) {
	c.mu.Lock()
	c.in = append(c.in, b...)
	c.signalLocked()
	c.mu.Unlock()
}
func (c *vC11TConn) clientEOF() {
	c.mu.Lock()
	c.eof = true
	c.signalLocked()
	c.mu.Unlock()
}
func (c *vC11TConn) Read(p []byte) (int, error) {
	for {
		c.mu.Lock()
		if c.closed {
			c.mu.Unlock()
			return 0, net.ErrClosed
		}
		dl := c.deadline
		if !dl.IsZero() && !time.Now().Before(dl) {
			c.mu.Unlock()
			return 0, os.ErrDeadlineExceeded
		}
		if len(c.in) > 0 {
			n := copy(p, c.in)
			c.in = c.in[n:]
			c.mu.Unlock()
			return n, nil
		}
		if c.eof {
			c.mu.Unlock()
			return 0, io.EOF
		}
		wake := c.wake
		c.mu.Unlock()
		c.block(wake, dl)
	}
}
func (c *vC11TConn) block(wake chan struct{}, dl time.Time) {
	if dl.IsZero() {
		<-wake
		return
	}
	tm := time.NewTimer(time.Until(dl))
	select {
	case <-wake:
	case <-tm.C:
	}
	tm.Stop()
}
func (c *vC11TConn) Write(p []byte) (int, error) {
	t0 := time.Now()
	for {
		c.mu.Lock()
		now := time.Now()
		dl := c.deadline
		if c.closed {
			c.log = append(c.log, vC11TEvent{kind: 1, t0: c.ms(t0), t1: c.ms(now), bound: c.ms(dl), ok: false})
			c.mu.Unlock()
			return 0, net.ErrClosed
		}
		if !dl.IsZero() && !now.Before(dl) {
			c.log = append(c.log, vC11TEvent{kind: 1, t0: c.ms(t0), t1: c.ms(now), bound: c.ms(dl), ok: false})
			c.mu.Unlock()
			return 0, os.ErrDeadlineExceeded
		}
		if c.stallAt < 0 || c.ms(now) < c.stallAt {
			c.wbuf = append(c.wbuf, p...)
			var ids []int
			for len(c.wbuf) >= 2 {
				l := int(binary.BigEndian.Uint16(c.wbuf))
				if len(c.wbuf) < 2+l {
					break
				}
				id := -1
				if l >= 2 {
					id = int(binary.BigEndian.Uint16(c.wbuf[2:]))
				}
				ids = append(ids, id)
				c.wbuf = c.wbuf[2+l:]
			}
			if len(ids) > 0 {
				c.log = append(c.log, vC11TEvent{kind: 1, t0: c.ms(t0), t1: c.ms(now), bound: c.ms(dl), ok: true, ids: ids})
			}
			c.mu.Unlock()
			return len(p), nil
		}
		if dl.IsZero() {
			c.stuck = true
		}
		wake := c.wake
		c.mu.Unlock()
		c.block(wake, dl)
	}
}
func (c *vC11TConn) Close() error {
	c.mu.Lock()
	if !c.closed {
		c.closed = true
		c.log = append(c.log, vC11TEvent{kind: 2, t0: c.ms(time.Now())})
		c.signalLocked()
	}
	c.mu.Unlock()
	return nil
}
func (c *vC11TConn) LocalAddr() net.Addr { return &net.TCPAddr{IP: net.IPv4(127, 0, 0, 1), Port: 53} }
func (c *vC11TConn) RemoteAddr() net.Addr {
	return &net.TCPAddr{IP: net.IPv4(192, 0, 2, 10), Port: 40000}
}
func (c *vC11TConn) SetDeadline(t time.Time) error {
	c.mu.Lock()
	defer c.mu.Unlock()
	if c.closed {
		return net.ErrClosed
	}
	c.deadline = t
	c.log = append(c.log, vC11TEvent{kind: 0, t0: c.ms(time.Now()), bound: c.ms(t)})
	c.signalLocked()
	return nil
}
func (c *vC11TConn) SetReadDeadline(t time.Time) error  { return c.SetDeadline(t) }
func (c *vC11TConn) SetWriteDeadline(t time.Time) error { return c.SetDeadline(t) }

type vC11TFront struct{ sc **vC11TScenario }

func (f *vC11TFront) Name() string { return "verif-c11-tcp-front" }
func (f *vC11TFront) ServeDNS(ctx context.Context, ch *middleware.Chain) {
	if id := int(ch.Request.ID()); id >= 1 && id <= len((*f.sc).frames) {
		(*f.sc).frames[id-1].entered.Store(true)
	}
	ch.Next(ctx)
}

type vC11TTail struct{ sc **vC11TScenario }

func (tl *vC11TTail) Name() string { return "verif-c11-tcp-tail" }
func (tl *vC11TTail) ServeDNS(ctx context.Context, ch *middleware.Chain) {
	ctx, req := ch.Materialize(ctx)
	if req == nil {
		return
	}
	var fr *vC11TFrame
	if id := int(req.Id); id >= 1 && id <= len((*tl.sc).frames) && strings.HasPrefix(req.Question[0].Name, "m") {
		fr = (*tl.sc).frames[id-1]
		fr.called.Store(true)
	}
	expired := false
	if fr != nil && fr.delay > 0 {
		tm := time.NewTimer(time.Duration(fr.delay) * time.Millisecond)
		select {
		case <-tm.C:
		case <-ctx.Done():
			expired = true
		}
		tm.Stop()
	}
	resp := new(dns.Msg)
	resp.SetReply(req)
	resp.RecursionAvailable = true
	name := req.Question[0].Name
	switch {
	case expired:
		resp.Rcode = dns.RcodeServerFailure
		resp.SetEdns0(1232, false)
		dnsutil.SetEDE(resp, dns.ExtendedErrorCodeNetworkError, "scripted failure")
		lctx, _ := middleware.EnsureResolutionAttemptGuard(ctx)
		middleware.MarkRequestLocalFailureResponse(lctx, resp, middleware.ErrResolutionAttemptLimit)
	case fr != nil && fr.big:
		for i := 0; i < 40; i++ {
			resp.Answer = append(resp.Answer, &dns.TXT{Hdr: dns.RR_Header{Name: name, Rrtype: dns.TypeTXT, Class: dns.ClassINET, Ttl: 3000},
				Txt: []string{fmt.Sprintf("%03d-", i) + strings.Repeat("x", 216)}})
		}
	default:
		resp.Answer = []dns.RR{&dns.A{Hdr: dns.RR_Header{Name: name, Rrtype: dns.TypeA, Class: dns.ClassINET, Ttl: 3000}, A: net.IPv4(192, 0, 2, 1)}}
	}
	_ = ch.Writer.WriteMsg(resp)
	ch.Cancel()
}

var vC11TDelays = []int{33, 97, 513, 1025, 1985, 2017, 2049, 2529, 3009, 4001, 4993, 5057, 6017}

func vC11TGen(r *rand.Rand, caseNo int) *vC11TScenario {
	sc := &vC11TScenario{eofAt: -1, stallAt: -1}
	nf := 1 + r.Intn(5)
	tmpl := r.Intn(8)
	if os.Getenv("VERIF_TIER") == "thorough" && tmpl >= 4 {
		// longer sessions in the thorough tier (not with a closing / stalling client: their
		// instants sit at 16 mod 32 and the residue argument above needs at most five misses)
		nf = 1 + r.Intn(8)
	}
	mkFrame := func(i int, miss bool, delay int, big bool) *vC11TFrame {
		fr := &vC11TFrame{miss: miss, delay: delay, big: big}
		m := new(dns.Msg)
		if miss {
			qt := dns.TypeA
			if big {
				qt = dns.TypeTXT
			}
			m.SetQuestion(fmt.Sprintf("m%d-%d.c11.example.", caseNo, i), qt)
		} else {
			m.SetQuestion("w.c11.example.", dns.TypeA)
		}
		m.Id = uint16(i + 1)
		m.SetEdns0(4096, false)
		fr.raw, _ = m.Pack()
		return fr
	}
	randFrame := func(i int) *vC11TFrame {
		if r.Intn(5) < 2 {
			return mkFrame(i, false, 0, false)
		}
		return mkFrame(i, true, vC11TDelays[r.Intn(len(vC11TDelays))], r.Intn(6) == 0)
	}
	total := func() int {
		n := 0
		for _, fr := range sc.frames {
			n += 2 + len(fr.raw)
		}
		return n
	}
	switch tmpl {
	case 0: // the idle / first-read bound, exactly around it
		sc.mode = "tcp-idle-boundary"
		sc.frames = []*vC11TFrame{mkFrame(0, false, 0, false), mkFrame(1, r.Intn(2) == 0, 513, false)}
		first := []int{16, 1984, 2000, 2016}[r.Intn(4)]
		gap := []int{16, 7984, 8000, 8016}[r.Intn(4)]
		sc.chunks = []vC11TChunk{{first, 2 + len(sc.frames[0].raw)}, {first + gap, 2 + len(sc.frames[1].raw)}}
	case 1: // a frame announced and sent in two pieces: the body wait is the query's (2 s)
		sc.mode = "tcp-partial"
		for i := 0; i < 1+r.Intn(3); i++ {
			sc.frames = append(sc.frames, randFrame(i))
		}
		tot := total()
		cut := 1 + r.Intn(tot-1)
		if r.Intn(2) == 0 {
			// inside the last frame: one byte of its prefix, or somewhere in its body
			last := 2 + len(sc.frames[len(sc.frames)-1].raw)
			cut = tot - last + []int{1, 2, 3, last / 2, last - 1}[r.Intn(5)]
		}
		t := 32 * (1 + r.Intn(20))
		rest := []int{16, 496, 1984, 2000, 2016, 2512, 8000}[r.Intn(7)]
		sc.chunks = []vC11TChunk{{t, cut}, {t + rest, tot - cut}}
		if r.Intn(5) == 0 {
			sc.chunks = sc.chunks[:1] // the client never sends the rest
		}
	default:
		sc.mode = "tcp-slow"
		for i := 0; i < nf; i++ {
			sc.frames = append(sc.frames, randFrame(i))
		}
		t := 32 * (1 + r.Intn(40))
		if r.Intn(3) == 0 {
			sc.chunks = []vC11TChunk{{t, total()}}
		} else {
			for _, fr := range sc.frames {
				sc.chunks = append(sc.chunks, vC11TChunk{t, 2 + len(fr.raw)})
				switch r.Intn(3) {
				case 0:
					t += 32 * (1 + r.Intn(25))
				case 1:
					t += 32 * (1 + r.Intn(250))
				default:
					t += 32 * (150 + r.Intn(120))
				}
			}
		}
		last := sc.chunks[len(sc.chunks)-1].t
		switch {
		case tmpl == 2:
			sc.mode = "tcp-stall"
			sc.stallAt = 16 + 32*r.Intn(last/32+100)
		case tmpl == 3:
			sc.mode = "tcp-eof"
			sc.eofAt = last + 16 + 32*r.Intn(200)
		}
	}
	return sc
}

// corpus/C11/tcp.json: [{"note":..., "frames":[{"miss":true,"delay":2529,"big":false}], "chunks":[[t_ms, bytes|-1 = the rest]],
// "eof_at":-1, "stall_at":-1}]: scenarios replayed first on every run (minimal failing inputs of caught changes)
type vC11TCorpusEntry struct {
	Note   string `json:"note"`
	Frames []struct {
		Miss  bool `json:"miss"`
		Delay int  `json:"delay"`
		Big   bool `json:"big"`
	} `json:"frames"`
	Chunks  [][2]int `json:"chunks"`
	EOFAt   int      `json:"eof_at"`
	StallAt int      `json:"stall_at"`
}

func vC11TCorpus() []*vC11TScenario {
	dir := os.Getenv("VERIF_CORPUS")
	if dir == "" {
		return nil
	}
	b, err := os.ReadFile(dir + "/tcp.json")
	if err != nil {
		return nil
	}
	var es []vC11TCorpusEntry
	if json.Unmarshal(b, &es) != nil {
		return nil
	}
	var out []*vC11TScenario
	for _, e := range es {
		sc := &vC11TScenario{mode: "tcp-corpus", eofAt: e.EOFAt, stallAt: e.StallAt}
		tot := 0
		for i, fe := range e.Frames {
			fr := &vC11TFrame{miss: fe.Miss, delay: fe.Delay, big: fe.Big}
			m := new(dns.Msg)
			switch {
			case fe.Miss && fe.Big:
				m.SetQuestion(fmt.Sprintf("mc-%d.c11.example.", i), dns.TypeTXT)
			case fe.Miss:
				m.SetQuestion(fmt.Sprintf("mc-%d.c11.example.", i), dns.TypeA)
			default:
				m.SetQuestion("w.c11.example.", dns.TypeA)
			}
			m.Id = uint16(i + 1)
			m.SetEdns0(4096, false)
			fr.raw, _ = m.Pack()
			tot += 2 + len(fr.raw)
			sc.frames = append(sc.frames, fr)
		}
		for _, ch := range e.Chunks {
			n := ch[1]
			if n < 0 || n > tot {
				n = tot
			}
			tot -= n
			sc.chunks = append(sc.chunks, vC11TChunk{ch[0], n})
		}
		if len(sc.frames) > 0 && len(sc.chunks) > 0 {
			out = append(out, sc)
		}
	}
	return out
}

func TestVerifC11Tcp(t *testing.T) {
	out := os.Getenv("VERIF_OUT")
	if out == "" {
		t.Skip("VERIF_OUT not set")
	}
	f, err := os.Create(out)
	if err != nil {
		t.Fatal(err)
	}
	defer f.Close()
	seed := int64(vC11SEnvInt("VERIF_SEED", 1))
	n := vC11SEnvInt("VERIF_N", 100)
	r := rand.New(rand.NewSource(seed*49979687 + 29))

	corpus := vC11TCorpus()
	for c := 0; c < n; c++ {
		var sc *vC11TScenario
		if c < len(corpus) {
			sc = corpus[c]
		} else {
			sc = vC11TGen(r, c)
		}
		cur := sc
		// The pipeline is built per case and outside the bubble (handlers start janitor
		// goroutines that never exit; nothing pooled may cross from one bubble to the next).
		front := &vC11TFront{sc: &cur}
		tail := &vC11TTail{sc: &cur}
		middleware.Reset()
		middleware.Register(front.Name(), func(*config.Config) middleware.Handler { return front })
		defaults.RegisterUpTo("resolver")
		middleware.Register(tail.Name(), func(*config.Config) middleware.Handler { return tail })
		cfg := &config.Config{Bind: "127.0.0.1:0", Expire: 600, CacheSize: 10240}
		cfg.QueryTimeout.Duration = vC11TQt * time.Millisecond
		middleware.Setup(cfg)
		s := New(cfg)
		var log []vC11TEvent
		goFail := ""
		running := false
		stuck := false
		synctest.Test(t, func(t *testing.T) {
			start := time.Now()
			// warm the shared name inside this bubble's clock (the store keeps absolute expiry
			// instants; every bubble starts at the same virtual instant)
			wm := new(dns.Msg)
			wm.SetQuestion("w.c11.example.", dns.TypeA)
			wm.Id = 60000
			wm.SetEdns0(4096, false)
			s.ServeMsg(context.Background(), &vC11STransport{rq: &vC11SReq{}, start: start}, wm)
			synctest.Wait()

			e := newTCPEngine(s, "tcp", 4, resourcePlan{})
			conn := &vC11TConn{start: start, wake: make(chan struct{}), stallAt: sc.stallAt}
			done := make(chan struct{})
			e.register(conn)
			go func() { defer close(done); e.serveConn(conn) }()
			var stream []byte
			for _, fr := range sc.frames {
				var p [2]byte
				binary.BigEndian.PutUint16(p[:], uint16(len(fr.raw)))
				stream = append(stream, p[:]...)
				stream = append(stream, fr.raw...)
			}
			sleepTo := func(ms int) {
				if d := start.Add(time.Duration(ms) * time.Millisecond).Sub(time.Now()); d > 0 {
					time.Sleep(d)
				}
				synctest.Wait()
			}
			ci, eofDone := 0, sc.eofAt < 0
			for ci < len(sc.chunks) || !eofDone {
				if !eofDone && (ci >= len(sc.chunks) || sc.eofAt < sc.chunks[ci].t) {
					sleepTo(sc.eofAt)
					conn.clientEOF()
					eofDone = true
					ci = len(sc.chunks) // a client that left sends nothing more
				} else {
					sleepTo(sc.chunks[ci].t)
					conn.feed(stream[:sc.chunks[ci].n])
					stream = stream[sc.chunks[ci].n:]
					ci++
				}
				synctest.Wait()
			}
			sleepTo(int(time.Since(start)/time.Millisecond) + 120000)
			select {
			case <-done:
			default:
				running = true
				conn.Close()
				synctest.Wait()
				<-done
			}
			conn.mu.Lock()
			log = append(log, conn.log...)
			stuck = conn.stuck
			conn.mu.Unlock()
			if !e.quiesced() {
				goFail = "a job slab is still held after the connection ended"
			}
		})
		for _, h := range middleware.Handlers() {
			if st, ok := h.(interface{ Stop() }); ok {
				st.Stop()
			}
		}
		middleware.Reset()
		if running && goFail == "" {
			goFail = "the connection goroutine was still running 120 s after the client's last byte"
		}
		if stuck && goFail == "" {
			goFail = "a write was issued with no bound armed against a client that does not read"
		}
		// what reached the client, per frame
		for _, ev := range log {
			if ev.kind == 1 && ev.ok {
				for _, id := range ev.ids {
					if id >= 1 && id <= len(sc.frames) {
						sc.frames[id-1].replies++
					} else if goFail == "" {
						goFail = fmt.Sprintf("a reply frame with the foreign ID %d was written", id)
					}
				}
			}
		}
		var frCoq, evCoq, entered, replies []string
		var desc []map[string]any
		nontrivial := false
		for i, fr := range sc.frames {
			frCoq = append(frCoq, fmt.Sprintf("mk_tframe %d %v %d %v", len(fr.raw), fr.miss, fr.delay, fr.big))
			entered = append(entered, fmt.Sprint(fr.entered.Load()))
			replies = append(replies, fmt.Sprintf("%d%%N", fr.replies))
			desc = append(desc, map[string]any{"i": i, "id": i + 1, "bytes": len(fr.raw), "miss": fr.miss, "resolution_ms": fr.delay, "big_reply": fr.big,
				"chain_entered": fr.entered.Load(), "resolver_standin": fr.called.Load(), "replies": fr.replies})
			if fr.entered.Load() && fr.miss != fr.called.Load() && goFail == "" {
				goFail = fmt.Sprintf("frame %d: generator ground truth broken (miss=%v, resolver stand-in called=%v)", i, fr.miss, fr.called.Load())
			}
			if fr.replies > 1 && goFail == "" {
				goFail = fmt.Sprintf("frame %d: %d replies", i, fr.replies)
			}
			if fr.entered.Load() && fr.replies == 0 && sc.stallAt < 0 && goFail == "" {
				goFail = fmt.Sprintf("frame %d was admitted (resolution %d ms, query timeout %d ms), the client kept reading, and no reply was written to the connection", i, fr.delay, vC11TQt)
			}
			if fr.miss && fr.delay > 2000 && fr.replies == 1 {
				nontrivial = true
			}
		}
		var tl []string
		for _, ev := range log {
			switch ev.kind {
			case 0:
				evCoq = append(evCoq, fmt.Sprintf("TSetDeadline %d %d", ev.t0, ev.bound))
				tl = append(tl, fmt.Sprintf("%d SetDeadline(%d)", ev.t0, ev.bound))
			case 1:
				ids := make([]string, len(ev.ids))
				for i, id := range ev.ids {
					ids[i] = fmt.Sprintf("%d%%nat", id)
				}
				evCoq = append(evCoq, fmt.Sprintf("TWrite %d %d %d %v [%s]", ev.t0, ev.t1, ev.bound, ev.ok, strings.Join(ids, "; ")))
				tl = append(tl, fmt.Sprintf("%d Write under bound %d -> ok=%v at %d, reply ids %v", ev.t0, ev.bound, ev.ok, ev.t1, ev.ids))
				if ev.bound != 0 && ev.t0 >= ev.bound && goFail == "" {
					goFail = fmt.Sprintf("a write was issued at %d ms under the bound %d ms, which had already expired", ev.t0, ev.bound)
				}
			case 2:
				evCoq = append(evCoq, fmt.Sprintf("TClose %d", ev.t0))
				tl = append(tl, fmt.Sprintf("%d Close", ev.t0))
			}
		}
		var chunks, chd []string
		for _, ch := range sc.chunks {
			chunks = append(chunks, fmt.Sprintf("mk_chunk %d %d", ch.t, ch.n))
			chd = append(chd, fmt.Sprintf("%d bytes at %d ms", ch.n, ch.t))
		}
		b, _ := json.Marshal(map[string]any{
			"k": sc.mode,
			"coq": fmt.Sprintf("CaseTcp %d [%s] (mk_tconn [%s] (%d) (%d)) [%s] [%s] [%s]", vC11TQt, strings.Join(frCoq, "; "),
				strings.Join(chunks, "; "), sc.eofAt, sc.stallAt, strings.Join(evCoq, "; "), strings.Join(entered, "; "), strings.Join(replies, "; ")),
			"nontrivial": nontrivial,
			"go_fail":    goFail,
			"desc": map[string]any{"mode": sc.mode, "query_timeout_ms": vC11TQt, "frames": desc, "client_sends": chd, "client_eof_at": sc.eofAt,
				"client_stops_reading_at": sc.stallAt, "connection_timeline": tl},
		})
		f.Write(append(b, '\n'))
	}
}
