// selftest: differential test of the translator itself. Runs the functions of
// package fx on pseudo-random inputs and prints a Coq file of
// `Example … : go_f args = <what Go computed>. Proof. vm_compute. reflexivity. Qed.`
// over the definitions srcgen produced from the same source.
package main

import (
	"fmt"
	"math/rand"
	"os"
	"strings"

	"selftest/fx"
)

var n int

func z(i int) string     { return fmt.Sprintf("(%d)%%Z", i) }
func nn(i uint64) string { return fmt.Sprintf("(%d)%%N", i) }
func b(v bool) string    { return fmt.Sprintf("%v", v) }
func bytesL(x []byte) string {
	if len(x) == 0 {
		return "(@nil N)"
	}
	var p []string
	for _, c := range x {
		p = append(p, fmt.Sprint(c))
	}
	return "([" + strings.Join(p, "; ") + "]%N)"
}
func u16L(x []uint16) string {
	if len(x) == 0 {
		return "(@nil N)"
	}
	var p []string
	for _, c := range x {
		p = append(p, fmt.Sprint(c))
	}
	return "([" + strings.Join(p, "; ") + "]%N)"
}
func intL(x []int) string {
	if len(x) == 0 {
		return "(@nil Z)"
	}
	var p []string
	for _, c := range x {
		p = append(p, fmt.Sprint(c))
	}
	return "([" + strings.Join(p, "; ") + "]%Z)"
}
func pt(p fx.Pt) string   { return "(mk_T_Pt " + z(p.X) + " " + z(p.Y) + " " + bytesL(p.Tag) + ")" }
func errS(e error) string { return b(e != nil) }

func ex(lhs, rhs string) {
	n++
	fmt.Printf("Example t_%d : %s = %s.\nProof. vm_compute. reflexivity. Qed.\n", n, lhs, rhs)
}

const fuel = "400%nat"

func main() {
	seed := int64(1)
	if len(os.Args) > 1 {
		fmt.Sscan(os.Args[1], &seed)
	}
	r := rand.New(rand.NewSource(seed))
	rb := func(max int) []byte {
		x := make([]byte, r.Intn(max+1))
		for i := range x {
			switch r.Intn(4) {
			case 0:
				x[i] = byte(r.Intn(4))
			case 1:
				x[i] = byte(0xC0 | r.Intn(64))
			default:
				x[i] = byte(r.Intn(256))
			}
		}
		return x
	}
	ri := func(max, lo, hi int) []int {
		x := make([]int, r.Intn(max+1))
		for i := range x {
			x[i] = lo + r.Intn(hi-lo+1)
		}
		return x
	}
	fmt.Println("From Sdns Require Import Common.Base Common.GoList Gen.Selftest.\nOpen Scope Z_scope.")
	for i := 0; i < 40; i++ {
		xs := ri(8, -3, 9)
		lim := r.Intn(12)
		ex("go_CountPairs "+fuel+" "+intL(xs)+" "+z(lim), "Some "+z(fx.CountPairs(xs, lim)))
		a, c, ok := fx.FindPair(xs, lim)
		ex("go_FindPair "+intL(xs)+" "+z(lim), "("+z(a)+", "+z(c)+", "+b(ok)+")")
		x := r.Intn(40) - 20
		cc := r.Intn(2) == 0
		ex("go_Shadow "+z(x)+" "+b(cc), z(fx.Shadow(x, cc)))
		us := make([]uint16, r.Intn(9))
		cur := uint16(0)
		for j := range us {
			cur += uint16(r.Intn(5))
			us[j] = cur
		}
		k := uint16(r.Intn(int(cur) + 3))
		ex("go_Search "+fuel+" "+u16L(us)+" "+nn(uint64(k)), "Some "+z(fx.Search(us, k)))
		bb := rb(12)
		off := r.Intn(len(bb) + 2)
		ex("go_Walk "+fuel+" "+bytesL(bb)+" "+z(off), "Some "+z(fx.Walk(bb, off)))
		w, e := fx.WalkTwice(bb)
		ex("go_WalkTwice "+fuel+" "+bytesL(bb), "Some ("+z(w)+", "+errS(e)+")")
		s1 := string(rb(6))
		s2 := s1
		if r.Intn(2) == 0 {
			s2 = strings.ToUpper(s1)
		} else if r.Intn(3) == 0 {
			s2 = "x-" + s1
			s1 = "x-" + strings.ToLower(s1)
		}
		ex("go_Fold "+fuel+" "+bytesL([]byte(s2)), "Some "+bytesL([]byte(fx.Fold(s2))))
		ex("go_SameFold "+fuel+" "+bytesL([]byte(s1))+" "+bytesL([]byte(s2)), "Some "+b(fx.SameFold(s1, s2)))
		pl := rb(7)
		id := uint16(r.Intn(65536))
		fr := fx.Frame(pl, id)
		ex("go_Frame "+bytesL(pl)+" "+nn(uint64(id)), bytesL(fr))
		if r.Intn(3) == 0 && len(fr) > 0 {
			fr = fr[:r.Intn(len(fr))]
		}
		uid, up, uok := fx.Unframe(fr)
		ex("go_Unframe "+bytesL(fr), "("+nn(uint64(uid))+", "+bytesL(up)+", "+b(uok)+")")
		ex("go_Checksum "+bytesL(bb), nn(uint64(fx.Checksum(bb))))
		p := fx.Pt{X: r.Intn(9), Y: -r.Intn(9), Tag: rb(3)}
		q, qn := fx.Swap(p)
		ex("go_Swap "+pt(p), "("+pt(q)+", "+z(qn)+")")
		cn := r.Intn(12)
		ev, od, big := fx.Classes(cn)
		ex("go_Classes "+z(cn), "("+z(ev)+", "+z(od)+", "+z(big)+")")
		a1, a2 := rb(4), rb(4)
		if r.Intn(2) == 0 {
			a2 = append([]byte{}, a1...)
		}
		if len(a1) > 2 && len(a2) >= 2 {
			nv, ne := fx.NeedBoth(a1, a2)
			ex("go_NeedBoth "+bytesL(a1)+" "+bytesL(a2), "("+z(nv)+", "+errS(ne)+")")
		}
		if len(a1) > 0 {
			ex("go_Need "+bytesL(a1)+" "+bytesL(a2), errS(fx.Need(a1, a2)))
		}
		tbl := make([]uint8, 1+r.Intn(7))
		for j := range tbl {
			tbl[j] = uint8(r.Intn(len(tbl) + 1))
		}
		st := r.Intn(len(tbl)+2) - 1
		h, hok := fx.Chase(tbl, st)
		ex("go_Chase "+fuel+" "+bytesL(tbl)+" "+z(st), "Some ("+z(h)+", "+b(hok)+")")
		cp := 1 + r.Intn(4)
		rg := fx.Ring{Buf: make([]int, cp)}
		pre := ri(3, 1, 9)
		rg.PushAll(pre)
		rgBefore := fx.Ring{Buf: append([]int{}, rg.Buf...), Head: rg.Head, N: rg.N}
		more := ri(6, 1, 9)
		dr := rg.PushAll(more)
		ring := func(g fx.Ring) string { return "(mk_T_Ring " + intL(g.Buf) + " " + z(g.Head) + " " + z(g.N) + ")" }
		ex("go_Ring_PushAll "+ring(rgBefore)+" "+intL(more), "("+z(dr)+", "+ring(rg)+")")
		ex("go_Ring_Sum "+fuel+" "+ring(rg), "Some "+z(rg.Sum()))
		ca, cb, cz := r.Intn(30)-10, r.Intn(30)-10, r.Intn(4)
		cp2 := fx.Pt{X: r.Intn(9), Y: r.Intn(9), Tag: rb(2)}
		if r.Intn(2) == 0 {
			cp2.Tag = append([]byte{7}, cp2.Tag...)
		}
		cx, cy, cq := fx.Clamp3(ca, cb, cz, fx.Pt{X: cp2.X, Y: cp2.Y, Tag: append([]byte{}, cp2.Tag...)})
		ex("go_Clamp3 "+z(ca)+" "+z(cb)+" "+z(cz)+" "+pt(cp2), "("+z(cx)+", "+z(cy)+", "+pt(cq)+")")
		ma, mb := r.Uint32(), uint8(r.Intn(256))
		ex("go_Mix "+nn(uint64(ma))+" "+nn(uint64(mb)), nn(uint64(fx.Mix(ma, mb))))
	}
	// interface values as sum types
	hdr := func(h fx.Hdr) string {
		return "(mk_T_Hdr " + bytesL([]byte(h.Name)) + " " + nn(uint64(h.Rtype)) + " " + nn(uint64(h.Ttl)) + ")"
	}
	strsL := func(x []string) string {
		if len(x) == 0 {
			return "(@nil (list N))"
		}
		var p []string
		for _, c := range x {
			p = append(p, bytesL([]byte(c)))
		}
		return "[" + strings.Join(p, "; ") + "]"
	}
	rec := func(x fx.Rec) string {
		switch v := x.(type) {
		case nil:
			return "I_Rec_nil"
		case *fx.Soa:
			return "(I_Rec_of_Soa (mk_T_Soa " + hdr(v.Hdr) + " " + nn(uint64(v.Minttl)) + "))"
		case *fx.Sig:
			return "(I_Rec_of_Sig (mk_T_Sig " + hdr(v.Hdr) + " " + nn(uint64(v.Expiration)) + " " + nn(uint64(v.Covered)) + "))"
		case *fx.Txt:
			return "(I_Rec_of_Txt (mk_T_Txt " + hdr(v.Hdr) + " " + strsL(v.Txt) + "))"
		case *fx.Opq:
			return "(I_Rec_other (1)%N " + hdr(v.Hdr) + ")"
		}
		panic("rec")
	}
	recsL := func(x []fx.Rec) string {
		if len(x) == 0 {
			return "(@nil I_Rec)"
		}
		var p []string
		for _, c := range x {
			p = append(p, rec(c))
		}
		return "[" + strings.Join(p, "; ") + "]"
	}
	for i := 0; i < 60; i++ {
		var rs []fx.Rec
		for j, m := 0, r.Intn(7); j < m; j++ {
			h := fx.Hdr{Name: string(rb(3)), Rtype: uint16([]int{1, 6, 41, 46, 16, 2}[r.Intn(6)]), Ttl: uint32(r.Intn(400))}
			switch r.Intn(6) {
			case 0:
				rs = append(rs, nil)
			case 1:
				rs = append(rs, &fx.Soa{Hdr: h, Minttl: uint32(r.Intn(500))})
			case 2:
				rs = append(rs, &fx.Sig{Hdr: h, Expiration: uint32(r.Intn(600)), Covered: uint16(r.Intn(50))})
			case 3:
				tx := []string{}
				for k, q := 0, r.Intn(3); k < q; k++ {
					tx = append(tx, string(rb(2)))
				}
				rs = append(rs, &fx.Txt{Hdr: h, Txt: tx})
			default:
				rs = append(rs, &fx.Opq{Hdr: h, X: r.Intn(9)})
			}
		}
		neg := r.Intn(2) == 0
		now := int64(r.Intn(600000))
		ex("go_MinTTL "+recsL(rs)+" "+b(neg)+" "+z(int(now)), z(int(fx.MinTTL(rs, neg, now))))
		k1, k2, k3, k4, k5 := fx.Kinds(rs)
		ex("go_Kinds "+recsL(rs), "("+z(k1)+", "+z(k2)+", "+z(k3)+", "+z(k4)+", "+z(k5)+")")
		want := uint16([]int{1, 6, 46}[r.Intn(3)])
		pf, po := fx.Pick(rs, want)
		ex("go_Pick "+recsL(rs)+" "+nn(uint64(want)), "("+rec(pf)+", "+recsL(po)+")")
	}
	for i := 0; i < 40; i++ {
		w := fx.Wrap{Base: fx.Base{Code: r.Intn(20) - 5, Flag: r.Intn(2) == 0}, Items: ri(4, -3, 9)}
		wr := func(w fx.Wrap) string {
			return "(mk_T_Wrap (mk_T_Base " + z(w.Code) + " " + b(w.Flag) + ") " + intL(w.Items) + ")"
		}
		add := r.Intn(8)
		pn, pw := fx.Promo(fx.Wrap{Base: w.Base, Items: append([]int{}, w.Items...)}, add)
		ex("go_Promo "+wr(w)+" "+z(add), "("+z(pn)+", "+wr(pw)+")")
		xs := ri(7, -9, 9)
		ex("go_Evens "+intL(xs), intL(fx.Evens(xs)))
		lim := r.Intn(30) - 5
		ex("go_Bound "+intL(xs)+" "+z(lim), z(fx.Bound(xs, lim)))
	}
	for i := 0; i < 60; i++ {
		xs := ri(12, 1, 6)
		t1, t2, t3 := fx.Tally(xs)
		ex("go_Tally "+intL(xs), "("+z(t1)+", "+z(t2)+", "+b(t3)+")")
		word := func() string { return []string{"a", "b", "*a", "*b", "ab", "*", "c", "*ab"}[r.Intn(8)] }
		ws := func(n int) []string {
			var o []string
			for j, m := 0, r.Intn(n+1); j < m; j++ {
				o = append(o, word())
			}
			return o
		}
		sl := func(x []string) string {
			if len(x) == 0 {
				return "(@nil (list N))"
			}
			var p []string
			for _, c := range x {
				p = append(p, bytesL([]byte(c)))
			}
			return "[" + strings.Join(p, "; ") + "]"
		}
		ca, cb := rb(3), rb(3)
		if r.Intn(3) == 0 {
			cb = append(append([]byte{}, ca...), rb(1)...)
		}
		c1, c2, c3 := fx.Cmp3(ca, cb, string(cb), string(ca))
		ex("go_Cmp3 "+bytesL(ca)+" "+bytesL(cb)+" "+bytesL(cb)+" "+bytesL(ca), "("+z(c1)+", "+z(c2)+", "+b(c3)+")")
		s1, s2 := fx.SumMap(xs)
		ex("go_SumMap "+intL(xs), "("+z(s1)+", "+z(s2)+")")
		ad, dr, pr := ws(7), ws(4), ws(5)
		r1, r2, r3, r4 := fx.RegRun(ad, dr, pr)
		ex("go_RegRun "+sl(ad)+" "+sl(dr)+" "+sl(pr), "("+z(r1)+", "+z(r2)+", "+z(r3)+", "+z(r4)+")")
	}
	// fuel exhaustion is reported, not papered over
	ex("go_Walk 2%nat ([1; 65; 1; 66; 1; 67; 0]%N) (0)%Z", "None")
	ex("go_WalkTwice 2%nat ([1; 65; 1; 66; 1; 67; 0]%N)", "None")
}
