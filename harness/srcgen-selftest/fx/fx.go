// Package fx holds small functions that exercise every construct the
// translator (harness/srcgen, stage 3) claims to support. selftest runs
// them in Go and in Coq on the same inputs and compares the results.
package fx

import (
	"bytes"
	"encoding/binary"
	"errors"
	"strings"
)

type Pt struct {
	X, Y int
	Tag  []byte
}

type Acc struct {
	Sum  uint32
	Seen [4]byte
}

var ErrShort = errors.New("short")

// nested loops, break, continue
func CountPairs(xs []int, lim int) int {
	n := 0
	for i := 0; i < len(xs); i++ {
		if xs[i] < 0 {
			continue
		}
		for j := i + 1; j < len(xs); j++ {
			if xs[j] > lim {
				break
			}
			if xs[i]+xs[j] == lim {
				n++
			}
		}
	}
	return n
}

// return from inside a nested loop
func FindPair(xs []int, want int) (int, int, bool) {
	for i, a := range xs {
		for j, b := range xs {
			if i != j && a+b == want {
				return i, j, true
			}
		}
	}
	return -1, -1, false
}

// shadowing in nested blocks
func Shadow(x int, c bool) int {
	y := x
	if c {
		x := x * 2
		y += x
	}
	{
		y := 100
		_ = y
		x++
	}
	return x + y
}

// binary search written out (for with condition only)
func Search(xs []uint16, k uint16) int {
	i, j := 0, len(xs)
	for i < j {
		m := int(uint(i+j) >> 1)
		if xs[m] <= k {
			i = m + 1
		} else {
			j = m
		}
	}
	return i
}

// label walk: the shape of SkipName
func Walk(b []byte, off int) int {
	for off < len(b) {
		c := int(b[off])
		switch {
		case c == 0:
			return off + 1
		case c&0xC0 == 0xC0:
			if off+2 > len(b) {
				return -1
			}
			return off + 2
		case c&0xC0 != 0:
			return -1
		default:
			off += 1 + c
		}
	}
	return -1
}

// callee needing fuel inside an expression and a condition (hoisting)
func WalkTwice(b []byte) (int, error) {
	first := Walk(b, 0)
	if first < 0 || Walk(b, first) < 0 {
		return 0, ErrShort
	}
	return Walk(b, first) - first, nil
}

// append, slicing, string/byte conversions, comparison
func Fold(s string) string {
	out := make([]byte, 0, len(s))
	for i := 0; i < len(s); i++ {
		c := s[i]
		if c >= 'A' && c <= 'Z' {
			c += 'a' - 'A'
		}
		out = append(out, c)
	}
	return string(out)
}

func SameFold(a, b string) bool { return Fold(a) == Fold(b) && !strings.HasPrefix(a, "x-") }

// big-endian reads and writes, copy, index assignment, arrays by value
func Frame(payload []byte, id uint16) []byte {
	buf := make([]byte, 4, 4+len(payload))
	binary.BigEndian.PutUint16(buf[0:2], id)
	binary.BigEndian.PutUint16(buf[2:], uint16(len(payload)))
	buf = append(buf, payload...)
	if len(buf) > 5 {
		buf[5] ^= 0xFF
	}
	return buf
}

func Unframe(b []byte) (uint16, []byte, bool) {
	if len(b) < 4 {
		return 0, nil, false
	}
	n := int(binary.BigEndian.Uint16(b[2:4]))
	if 4+n > len(b) {
		return 0, nil, false
	}
	return binary.BigEndian.Uint16(b), b[4 : 4+n], true
}

func Checksum(b []byte) uint32 {
	var a Acc
	for i, c := range b {
		if i&1 == 0 {
			a.Sum += uint32(c) << 8
		} else {
			a.Sum += uint32(c)
		}
		a.Seen[i%4] = c
	}
	a.Sum += a.Sum >> 16 & 0xFFFF
	return a.Sum&0xFFFF + uint32(a.Seen[0]) + uint32(a.Seen[3])<<4
}

// struct with a slice field, nested lvalues, parallel assignment, named results
func Swap(p Pt) (q Pt, n int) {
	q = p
	q.X, q.Y = p.Y, p.X
	if len(q.Tag) > 1 {
		q.Tag = append([]byte{}, q.Tag...)
		q.Tag[0], q.Tag[1] = q.Tag[1], q.Tag[0]
	}
	n = len(q.Tag)
	return
}

// range over an int, continue inside a switch inside a loop
func Classes(n int) (ev, od, big int) {
	for i := range n {
		switch {
		case i > 6:
			big++
			continue
		case i%2 == 0:
			ev++
		default:
			od++
		}
		if i == 3 {
			od += 10
		}
	}
	return
}

// errors as values; bytes.Equal; nil slices
func Need(b []byte, want []byte) error {
	if b == nil {
		return ErrShort
	}
	if !bytes.Equal(b, want) {
		return errors.New("different")
	}
	return nil
}

func NeedBoth(a, b []byte) (int, error) {
	if err := Need(a, b); err != nil {
		return 1, err
	}
	var err error
	if len(a) > 2 {
		err = Need(a[:2], b[:2])
	}
	return 0, err
}

// infinite for with return, jump counting: the shape of AppendName
func Chase(tbl []uint8, start int) (int, bool) {
	hops := 0
	cur := start
	for {
		if cur < 0 || cur >= len(tbl) {
			return hops, false
		}
		nx := int(tbl[cur])
		if nx == cur {
			return hops, true
		}
		hops++
		if hops > 8 {
			return hops, false
		}
		cur = nx
	}
}

// unsigned wrap-around
func Mix(a uint32, b uint8) uint32 {
	x := a*2654435761 + uint32(b)
	x ^= x >> 15
	x -= 7
	return x<<3 | uint32(b>>1)
}

// receiver-mutating methods: the translation hands the final receiver back
type Ring struct {
	Buf     []int
	Head, N int
}

func (r *Ring) drop() {
	r.Head = (r.Head + 1) % len(r.Buf)
	r.N--
}

func (r *Ring) Push(x int) bool {
	if r.N == len(r.Buf) {
		return false
	}
	r.Buf[(r.Head+r.N)%len(r.Buf)] = x
	r.N++
	return true
}

func (r *Ring) PushAll(xs []int) int {
	dropped := 0
	for _, x := range xs {
		ok := r.Push(x)
		if !ok {
			r.drop()
			dropped++
			_ = r.Push(x)
		}
	}
	return dropped
}

func (r *Ring) Sum() int {
	s := 0
	for i := 0; i < r.N; i++ {
		s += r.Buf[(r.Head+i)%len(r.Buf)]
	}
	return s
}

// a run of if statements that always fall through (translated with "join_ifs")
func Clamp3(a, b, c int, p Pt) (int, int, Pt) {
	if a < 0 {
		a = 0
	}
	if b > 9 {
		b = 9
		a++
	}
	if c == 0 {
		c = 1
	} else {
		c--
		b += c
	}
	if len(p.Tag) > 0 && p.Tag[0] == 7 {
		p.X, p.Y = p.Y, p.X
		p.Tag = p.Tag[1:]
	}
	if a > b {
		a, b = b, a
	}
	return a + b, c, p
}

// ---- interface values as sum types (spec "iface_cases": {"fx.Rec": ["Soa", "Sig", "Txt"]}) and the clock
// as a parameter

type Hdr struct {
	Name  string
	Rtype uint16
	Ttl   uint32
}

type Rec interface{ Header() *Hdr }

type Soa struct {
	Hdr    Hdr
	Minttl uint32
}
type Sig struct {
	Hdr        Hdr
	Expiration uint32
	Covered    uint16
}
type Txt struct {
	Hdr Hdr
	Txt []string
}

// Opq is a Rec the spec does not list: the constructor `other`
type Opq struct {
	Hdr Hdr
	X   int
}

func (r *Soa) Header() *Hdr { return &r.Hdr }
func (r *Sig) Header() *Hdr { return &r.Hdr }
func (r *Txt) Header() *Hdr { return &r.Hdr }
func (r *Opq) Header() *Hdr { return &r.Hdr }

func ttlOf(r Rec) int64 { return int64(r.Header().Ttl) * 1000 }

// sigLeft: what is left of a signature at instant now (ms), floor 5
func sigLeft(s *Sig, now int64) int64 {
	left := int64(s.Expiration)*1000 - now
	if left <= 0 {
		return 5
	}
	if t := int64(s.Header().Ttl) * 1000; t < left {
		return t
	}
	return left
}

// MinTTL: comma-ok assertions inside a range loop, Header() on every dynamic type, nil elements skipped
func MinTTL(rs []Rec, neg bool, now int64) int64 {
	m := int64(1 << 40)
	for _, r := range rs {
		if r == nil {
			continue
		}
		if r.Header().Rtype == 41 {
			continue
		}
		if t := ttlOf(r); t < m {
			m = t
		}
		if neg {
			if soa, ok := r.(*Soa); ok {
				if t := int64(soa.Minttl) * 1000; t < m {
					m = t
				}
			}
		}
		if sig, ok := r.(*Sig); ok {
			if t := sigLeft(sig, now); t < m {
				m = t
			}
		}
	}
	return m
}

// Kinds: a type switch with a binding, a multi-type clause, case nil and default
func Kinds(rs []Rec) (soas, sigs, txtLen, nils, others int) {
	for _, r := range rs {
		switch v := r.(type) {
		case *Soa:
			soas += int(v.Minttl)
		case *Sig:
			sigs += int(v.Covered)
		case *Txt:
			txtLen += len(v.Txt) + len(v.Hdr.Name)
		case nil:
			nils++
		default:
			others += int(v.Header().Ttl)
		}
	}
	return
}

// Pick: builds interface values from concrete ones (implicit conversion), returns an interface
func Pick(rs []Rec, want uint16) (Rec, []Rec) {
	var out []Rec
	var first Rec
	for _, r := range rs {
		switch r.(type) {
		case *Soa, *Sig:
			if r.Header().Rtype == want {
				if first == nil {
					first = r
				}
				out = append(out, r)
			}
		}
	}
	if first == nil {
		s := &Soa{Hdr: Hdr{Name: "made", Rtype: want, Ttl: 1}, Minttl: 7}
		first = s
		out = append(out, s)
	}
	return first, out
}

// ---- promoted fields, functions as values, inlined local closures

type Base struct {
	Code int
	Flag bool
}
type Wrap struct {
	Base
	Items []int
}

func Promo(w Wrap, add int) (int, Wrap) {
	if w.Flag {
		w.Code += add
	} else {
		w.Flag = add > 3
	}
	return w.Code + len(w.Items), w
}

func isOdd(x int) bool { return x%2 != 0 }

func dropIf(xs []int, drop func(int) bool) []int {
	var out []int
	for _, x := range xs {
		if drop(x) {
			continue
		}
		out = append(out, x)
	}
	return out
}

func Evens(xs []int) []int { return dropIf(xs, isOdd) }

func Bound(xs []int, limit int) int {
	m := limit
	bound := func(c int) {
		if c < m {
			m = c
		}
	}
	for _, x := range xs {
		bound(x + 10)
		if x < 0 {
			bound(-x)
		}
	}
	bound(limit - 1)
	return m
}

// ---- maps as association lists

func Tally(xs []int) (int, int, bool) {
	m := map[int]int{}
	for _, x := range xs {
		m[x]++
		if m[x] > 2 {
			delete(m, x)
		}
	}
	v, ok := m[3]
	return len(m), v + m[4], ok
}

type Reg struct {
	seen map[string]bool
	wild map[string]struct{}
	n    int
}

func (r *Reg) Add(k string) bool {
	if r.seen[k] {
		return false
	}
	if len(k) > 1 && k[0] == '*' {
		r.wild[k[1:]] = struct{}{}
		return true
	}
	r.seen[k] = true
	r.n++
	return true
}

func (r *Reg) Drop(k string) bool {
	if _, ok := r.seen[k]; ok {
		delete(r.seen, k)
		return true
	}
	if _, ok := r.wild[k]; ok {
		delete(r.wild, k)
		return true
	}
	return false
}

func RegRun(adds, drops, probes []string) (added, dropped, hits, size int) {
	r := Reg{seen: make(map[string]bool), wild: map[string]struct{}{}}
	for _, k := range adds {
		ok := r.Add(k)
		if ok {
			added++
		}
	}
	for _, k := range drops {
		gone := r.Drop(k)
		if gone {
			dropped++
		}
	}
	for _, k := range probes {
		if r.seen[k] {
			hits++
		}
		if _, ok := r.wild[k]; ok {
			hits += 10
		}
	}
	return added, dropped, hits, len(r.seen)*100 + len(r.wild) + r.n*10000
}

// range over a map, order-insensitive (translated under "map_range_in_list_order")
func SumMap(xs []int) (int, int) {
	m := map[int]int{}
	for i, x := range xs {
		m[x] += i + 1
	}
	keys, vals := 0, 0
	for k, v := range m {
		keys += k
		vals += v
	}
	return keys, vals
}

// bytes.Compare / strings.Compare
func Cmp3(a, b []byte, s, u string) (int, int, bool) {
	return bytes.Compare(a, b), strings.Compare(s, u), bytes.Compare(a, b) <= 0
}
