module sdnsverif/srcgen

go 1.23
