package main

// Interface values as sum types (spec field "iface_cases"), and the wall clock as a parameter.
//
// An interface type named in the spec — "github.com/miekg/dns.RR": ["SOA", "RRSIG", …] — is translated as
//
//	Inductive I_RR := I_RR_nil | I_RR_of_SOA (v : T_SOA) | … | I_RR_other (tag : N) (hdr : T_RR_Header).
//
// one constructor per listed concrete type (always asserted as *T in the Go code; the pointer is read as the
// value, as everywhere in the translation), `nil` for the nil interface and `other` for every dynamic type
// outside the list. When the interface has a method `Header() *H` and every listed type a field `Hdr H`
// (miekg/dns records), `other` carries the header and `x.Header()` is the generated projection
// `I_RR_Header`, exact for every dynamic type. Translated: `v, ok := x.(*T)`, `x.(*T)` (a failing assertion
// panics in Go and yields the zero value here: panics are not modelled), `switch v := x.(type)`, `x == nil`,
// and the implicit conversion of a *T to the interface where a value of the interface type is expected.
// A type assertion or a switch clause that names a type outside the list is refused (the translation could
// not tell it from the other unlisted types), as is any other method call on the interface value.
//
// time.Now(): a function that reads the clock (directly or through a translatable callee) gets an extra
// parameter `now : Z` (ns on the ideal line time.Time values live on) after the fuel; time.Since(t) is
// `now - t`, time.Until(t) is `t - now`. One reading of the clock per call of the outermost function: two
// calls of time.Now() inside one translated call see the same instant (stated in the trusted base).

import (
	"fmt"
	"go/ast"
	"go/token"
	"go/types"
	"strings"
)

var (
	ifaceCases    map[string][]string
	ifaceMemo     = map[string]*ifaceInfo{}
	emittedIfaces = map[string]bool{}
	ifaceBusy     = map[string]bool{}
)

type ifaceInfo struct {
	key   string
	named *types.Named
	tag   string
	cases []*types.Named
	hdr   *types.Named // H of `Header() *H` when every case has `Hdr H`
}

func ifaceKeys(n *types.Named) []string {
	p := n.Obj().Pkg()
	if p == nil {
		return nil
	}
	return []string{p.Path() + "." + n.Obj().Name(), dirOfPkg(p) + "." + n.Obj().Name()}
}

// lookupIface: the sum-type description of interface type n, nil when the spec does not list it.
func lookupIface(n *types.Named) *ifaceInfo {
	if n == nil || len(ifaceCases) == 0 {
		return nil
	}
	it, ok := n.Underlying().(*types.Interface)
	if !ok {
		return nil
	}
	var names []string
	key := ""
	for _, k := range ifaceKeys(n) {
		if c, ok := ifaceCases[k]; ok {
			names, key = c, k
			break
		}
	}
	if key == "" {
		return nil
	}
	if inf, ok := ifaceMemo[key]; ok {
		return inf
	}
	inf := &ifaceInfo{key: key, named: n, tag: typeTag(dirOfPkg(n.Obj().Pkg()), n.Obj().Name())}
	ifaceMemo[key] = inf
	for _, name := range names {
		obj, _ := n.Obj().Pkg().Scope().Lookup(name).(*types.TypeName)
		if obj == nil {
			broken("iface_cases %s: no type %s in package %s", key, name, n.Obj().Pkg().Path())
		}
		cn, _ := obj.Type().(*types.Named)
		if cn == nil {
			broken("iface_cases %s: %s is not a named type", key, name)
		}
		if _, ok := cn.Underlying().(*types.Struct); !ok {
			broken("iface_cases %s: %s is not a struct type", key, name)
		}
		inf.cases = append(inf.cases, cn)
	}
	// Header() *H with Hdr H in every case
	for i := 0; i < it.NumMethods(); i++ {
		m := it.Method(i)
		if m.Name() != "Header" {
			continue
		}
		sig := m.Type().(*types.Signature)
		if sig.Params().Len() != 0 || sig.Results().Len() != 1 {
			continue
		}
		h := namedOf(sig.Results().At(0).Type())
		if h == nil {
			continue
		}
		if _, ok := h.Underlying().(*types.Struct); !ok {
			continue
		}
		all := true
		for _, c := range inf.cases {
			st := c.Underlying().(*types.Struct)
			found := false
			for j := 0; j < st.NumFields(); j++ {
				if st.Field(j).Name() == "Hdr" {
					if fh := namedOf(st.Field(j).Type()); fh != nil && fh.Obj().Name() == h.Obj().Name() {
						found = true
					}
				}
			}
			if !found {
				all = false
			}
		}
		if all {
			inf.hdr = h
		}
	}
	return inf
}

// ifaceOf: the description of the interface type of ty (nil if ty is not a listed interface).
func ifaceOf(ty types.Type) *ifaceInfo {
	if ty == nil {
		return nil
	}
	n, _ := types.Unalias(ty).(*types.Named)
	return lookupIface(n)
}

// caseIndex: which constructor a value of concrete type ty (T or *T) belongs to, -1 if none.
func (inf *ifaceInfo) caseIndex(ty types.Type) int {
	n := namedOf(ty)
	if n == nil || n.Obj().Pkg() == nil || inf.named.Obj().Pkg() == nil {
		return -1
	}
	if dirOfPkg(n.Obj().Pkg()) != dirOfPkg(inf.named.Obj().Pkg()) {
		return -1
	}
	for i, c := range inf.cases {
		if c.Obj().Name() == n.Obj().Name() {
			return i
		}
	}
	return -1
}

func (inf *ifaceInfo) coqType() string { return "I_" + inf.tag }
func (inf *ifaceInfo) ctor(i int) string {
	return "I_" + inf.tag + "_of_" + inf.cases[i].Obj().Name()
}

// ensureIface emits the records of the case types, the Inductive and (for record-like interfaces) the
// header projection.
func (t *ftr) ensureIface(inf *ifaceInfo, at ast.Node) {
	if emittedIfaces[inf.key] {
		return
	}
	if ifaceBusy[inf.key] {
		broken("iface_cases %s: a listed struct mentions the interface itself (a cycle the translation cannot lay out)", inf.key)
	}
	ifaceBusy[inf.key] = true
	var ctors []string
	ctors = append(ctors, "| I_"+inf.tag+"_nil")
	for i, c := range inf.cases {
		t.ensureStruct(c, at)
		ctors = append(ctors, fmt.Sprintf("| %s (v : T_%s)", inf.ctor(i), structTag(c)))
	}
	other := "| I_" + inf.tag + "_other (tag : N)"
	if inf.hdr != nil {
		t.ensureStruct(inf.hdr, at)
		other += " (hdr : T_" + structTag(inf.hdr) + ")"
	}
	ctors = append(ctors, other)
	fmt.Fprintf(&out, "(* interface %s as a sum over the concrete types the spec lists (iface_cases) *)\nInductive %s :=\n%s.\n\n", inf.key, inf.coqType(), strings.Join(ctors, "\n"))
	if inf.hdr != nil {
		hk := tkind{k: "struct", name: structTag(inf.hdr)}
		z := t.zeroName(hk, inf.hdr, at)
		var arms []string
		arms = append(arms, "  | I_"+inf.tag+"_nil => "+z)
		for i, c := range inf.cases {
			arms = append(arms, fmt.Sprintf("  | %s v => T_%s_Hdr v", inf.ctor(i), structTag(c)))
		}
		arms = append(arms, "  | I_"+inf.tag+"_other _ h => h")
		fmt.Fprintf(&out, "Definition I_%s_Header (x : %s) : T_%s :=\n  match x with\n%s\n  end.\n\n", inf.tag, inf.coqType(), structTag(inf.hdr), strings.Join(arms, "\n"))
	}
	delete(ifaceBusy, inf.key)
	emittedIfaces[inf.key] = true
}

// typeAssert renders x.(*T): the pair (value, ok) in comma-ok form, the value alone otherwise.
func (t *ftr) typeAssert(e *ast.TypeAssertExpr) string {
	if e.Type == nil {
		t.bad(e, "x.(type) outside a type switch")
	}
	inf := ifaceOf(t.typeOf(e.X))
	if inf == nil {
		t.bad(e, "type assertion on a value of type %v (not an interface listed under iface_cases)", t.typeOf(e.X))
	}
	t.ensureIface(inf, e)
	target := t.pi.info.Types[e.Type].Type
	i := inf.caseIndex(target)
	if _, isPtr := types.Unalias(target).(*types.Pointer); !isPtr || i < 0 {
		t.bad(e, "type assertion to %v: not a pointer to a type listed under iface_cases for %s", target, inf.key)
	}
	ck := tkind{k: "struct", name: structTag(inf.cases[i])}
	z := t.zeroName(ck, inf.cases[i], e)
	x := t.expr(e.X)
	if _, commaOk := t.pi.info.Types[e].Type.(*types.Tuple); commaOk {
		return "(match " + x + " with " + inf.ctor(i) + " v_ta => (v_ta, true) | _ => (" + z + ", false) end)"
	}
	return "(match " + x + " with " + inf.ctor(i) + " v_ta => v_ta | _ => " + z + " end)"
}

// ifaceInject renders e (a *T or T of a listed type, or nil) as a value of the interface.
func (t *ftr) ifaceInject(e ast.Expr, inf *ifaceInfo) (string, bool) {
	t.ensureIface(inf, e)
	if t.isNil(e) {
		return "I_" + inf.tag + "_nil", true
	}
	ty := t.typeOf(e)
	if ifaceOf(ty) == inf {
		return "", false // already an interface value
	}
	if i := inf.caseIndex(ty); i >= 0 {
		return "(" + inf.ctor(i) + " " + t.expr(e) + ")", true
	}
	t.bad(e, "a value of type %v is used as %s but the type is not listed under iface_cases", ty, inf.key)
	return "", false
}

// typeSwitch renders `switch [v :=] x.(type) { … }`.
func (t *ftr) typeSwitch(s *ast.TypeSwitchStmt, restK func() string) string {
	mk := func() string {
		var ta *ast.TypeAssertExpr
		switch a := s.Assign.(type) {
		case *ast.ExprStmt:
			ta, _ = a.X.(*ast.TypeAssertExpr)
		case *ast.AssignStmt:
			if len(a.Rhs) == 1 {
				ta, _ = a.Rhs[0].(*ast.TypeAssertExpr)
			}
		}
		if ta == nil {
			t.bad(s, "type switch guard")
		}
		inf := ifaceOf(t.typeOf(ta.X))
		if inf == nil {
			t.bad(s, "type switch on a value of type %v (not an interface listed under iface_cases)", t.typeOf(ta.X))
		}
		t.ensureIface(inf, s)
		x := t.expr(ta.X)
		pend := t.takePending()
		t.ntmp++
		xs := fmt.Sprintf("ts_%d", t.ntmp)
		var arms []string
		var def *ast.CaseClause
		for _, c := range s.Body.List {
			cc := c.(*ast.CaseClause)
			for _, b := range cc.Body {
				if br, ok := b.(*ast.BranchStmt); ok && br.Tok != token.CONTINUE {
					t.bad(br, "branch statement in switch")
				}
			}
			if cc.List == nil {
				def = cc
				continue
			}
			var pats []string
			single := len(cc.List) == 1
			singleIdx := -1
			for _, ce := range cc.List {
				if t.isNil(ce) {
					pats = append(pats, "I_"+inf.tag+"_nil")
					continue
				}
				ty := t.pi.info.Types[ce].Type
				i := inf.caseIndex(ty)
				if _, isPtr := types.Unalias(ty).(*types.Pointer); !isPtr || i < 0 {
					t.bad(ce, "type switch clause %v: not a pointer to a type listed under iface_cases for %s", ty, inf.key)
				}
				if single {
					singleIdx = i
				}
				pats = append(pats, inf.ctor(i)+" _")
			}
			implicit, _ := t.pi.info.Implicits[cc].(*types.Var)
			var arm string
			switch {
			case implicit != nil && singleIdx >= 0:
				vn := t.nameOf(implicit)
				body := t.bind(vn, "T_"+structTag(inf.cases[singleIdx]), func() string { return t.block(cc.Body, restK) })
				arm = "  | " + inf.ctor(singleIdx) + " " + vn + " => " + body
			case implicit != nil:
				vn := t.nameOf(implicit)
				body := t.letIn(vn, inf.coqType(), xs, func() string { return t.block(cc.Body, restK) })
				arm = "  | " + strings.Join(pats, " | ") + " => " + body
			default:
				arm = "  | " + strings.Join(pats, " | ") + " => " + t.block(cc.Body, restK)
			}
			arms = append(arms, arm)
		}
		var last string
		if def != nil {
			if implicit, _ := t.pi.info.Implicits[def].(*types.Var); implicit != nil {
				vn := t.nameOf(implicit)
				last = t.letIn(vn, inf.coqType(), xs, func() string { return t.block(def.Body, restK) })
			} else {
				last = t.block(def.Body, restK)
			}
		} else {
			last = restK()
		}
		arms = append(arms, "  | _ => "+last)
		return t.wrapPending(pend, "(let "+xs+" := "+x+" in\n  match "+xs+" with\n"+strings.Join(arms, "\n")+"\n  end)")
	}
	if s.Init != nil {
		return t.block([]ast.Stmt{s.Init}, mk)
	}
	return mk()
}

// ------------------------------------------------------------------ the clock as a parameter

var (
	nowFuncs = map[string]bool{}
	nowDone  = map[string]bool{}
	nowBusy  = map[string]bool{}
)

func isClockCall(pi *pkgInfo, c *ast.CallExpr) bool {
	sel, ok := c.Fun.(*ast.SelectorExpr)
	if !ok {
		return false
	}
	fn, ok := pi.info.Uses[sel.Sel].(*types.Func)
	if !ok {
		return false
	}
	switch fn.FullName() {
	case "time.Now", "time.Since", "time.Until":
		return true
	}
	return false
}

// needsNow: the function reads the wall clock, directly or through a translatable callee.
func needsNow(pi *pkgInfo, dir, fn string) bool {
	key := dir + "." + fn
	if nowDone[key] {
		return nowFuncs[key]
	}
	if nowBusy[key] {
		return false
	}
	nowBusy[key] = true
	fd := pi.findFunc(fn)
	res := false
	if fd != nil && fd.Body != nil {
		ast.Inspect(fd.Body, func(n ast.Node) bool {
			if res {
				return false
			}
			switch x := n.(type) {
			case *ast.FuncLit:
				return false
			case *ast.CallExpr:
				if isClockCall(pi, x) {
					res = true
					return false
				}
				var id *ast.Ident
				switch f := x.Fun.(type) {
				case *ast.Ident:
					id = f
				case *ast.SelectorExpr:
					id = f.Sel
				}
				if id == nil {
					return true
				}
				callee, ok := pi.info.Uses[id].(*types.Func)
				if !ok || callee.Pkg() == nil || !(callee.Pkg() == pi.pkg || calleePkgOK(callee.Pkg())) {
					return true
				}
				cd, cpi := dir, pi
				if callee.Pkg() != pi.pkg {
					cd = dirOfPkg(callee.Pkg())
					cpi = loadPkg(cd)
				}
				cfn := callee.Name()
				if sig, ok := callee.Type().(*types.Signature); ok && sig.Recv() != nil {
					if n := namedOf(sig.Recv().Type()); n != nil {
						cfn = n.Obj().Name() + "." + callee.Name()
					}
				}
				if needsNow(cpi, cd, cfn) {
					res = true
				}
			}
			return true
		})
	}
	delete(nowBusy, key)
	nowDone[key] = true
	nowFuncs[key] = res
	return res
}

// ------------------------------------------------------------------ promoted fields

// desugarPromoted rewrites x.f, where f is a field promoted from an embedded struct of x's type, into
// x.Emb.f (recording the types of the new nodes), so that field reads and field updates see only direct
// fields. Returns e unchanged when f is a direct field or not a field at all.
func (t *ftr) desugarPromoted(e *ast.SelectorExpr) *ast.SelectorExpr {
	fv, isField := t.pi.info.Uses[e.Sel].(*types.Var)
	if !isField || !fv.IsField() {
		return e
	}
	n := namedOf(t.typeOf(e.X))
	if n == nil {
		return e
	}
	st, ok := n.Underlying().(*types.Struct)
	if !ok {
		return e
	}
	for i := 0; i < st.NumFields(); i++ {
		if st.Field(i).Name() == e.Sel.Name {
			return e // direct
		}
	}
	// breadth-first over embedded structs
	type step struct {
		path []*types.Var
		st   *types.Struct
	}
	queue := []step{{nil, st}}
	for depth := 0; depth < 4 && len(queue) > 0; depth++ {
		var next []step
		for _, q := range queue {
			for i := 0; i < q.st.NumFields(); i++ {
				f := q.st.Field(i)
				if !f.Embedded() {
					continue
				}
				en := namedOf(f.Type())
				if en == nil {
					continue
				}
				est, ok := en.Underlying().(*types.Struct)
				if !ok {
					continue
				}
				p := append(append([]*types.Var{}, q.path...), f)
				for j := 0; j < est.NumFields(); j++ {
					if est.Field(j).Name() == e.Sel.Name {
						var x ast.Expr = e.X
						for _, pv := range p {
							id := &ast.Ident{Name: pv.Name(), NamePos: e.Sel.Pos()}
							t.pi.info.Uses[id] = pv
							sel := &ast.SelectorExpr{X: x, Sel: id}
							t.pi.info.Types[sel] = types.TypeAndValue{Type: pv.Type()}
							x = sel
						}
						out := &ast.SelectorExpr{X: x, Sel: e.Sel}
						if tv, ok := t.pi.info.Types[e]; ok {
							t.pi.info.Types[out] = tv
						}
						return out
					}
				}
				next = append(next, step{p, est})
			}
		}
		queue = next
	}
	return e
}

// ------------------------------------------------------------------ maps as association lists

var mapHelpersDone bool

// ensureMapHelpers writes the four map operations into the generated file (once): a map is a list of
// (key, value) pairs, the first pair for a key counts, `go_map_set` keeps keys unique.
func ensureMapHelpers() {
	if mapHelpersDone {
		return
	}
	mapHelpersDone = true
	out.WriteString(`(* Go maps as association lists: the first pair for a key counts; go_map_set replaces in place or appends, so
   keys stay unique in every map the translated code builds. Iteration order is not modelled (range over a map is
   translated only under "map_range_in_list_order"). *)
Definition go_map_has {K V : Type} (eqb : K -> K -> bool) (m : list (K * V)) (k : K) : bool :=
  existsb (fun p => eqb (fst p) k) m.
Definition go_map_get {K V : Type} (eqb : K -> K -> bool) (d : V) (m : list (K * V)) (k : K) : V :=
  match find (fun p => eqb (fst p) k) m with Some p => snd p | None => d end.
Definition go_map_del {K V : Type} (eqb : K -> K -> bool) (m : list (K * V)) (k : K) : list (K * V) :=
  filter (fun p => negb (eqb (fst p) k)) m.
Definition go_map_set {K V : Type} (eqb : K -> K -> bool) (m : list (K * V)) (k : K) (v : V) : list (K * V) :=
  if go_map_has eqb m k then map (fun p => if eqb (fst p) k then (k, v) else p) m else m ++ [(k, v)].

`)
}

// mapIndex renders m[k]: the value (zero when absent), or the pair (value, present) in comma-ok form.
func (t *ftr) mapIndex(e *ast.IndexExpr, mk tkind) string {
	ensureMapHelpers()
	m := t.expr(e.X)
	k := t.exprAs(e.Index, *mk.key)
	var vty types.Type
	if mt, ok := types.Unalias(t.typeOf(e.X)).Underlying().(*types.Map); ok {
		vty = mt.Elem()
	}
	var z string
	if st, isSt := vty.(*types.Struct); isSt && st.NumFields() == 0 {
		z = "false"
	} else {
		z = t.zeroName(*mk.elem, vty, e)
	}
	get := "(go_map_get " + mk.key.eqb() + " " + z + " " + m + " " + k + ")"
	if _, commaOk := t.pi.info.Types[e].Type.(*types.Tuple); commaOk {
		return "(" + get + ", go_map_has " + mk.key.eqb() + " " + m + " " + k + ")"
	}
	return get
}

// ------------------------------------------------------------------ bytes.Compare

var compareHelperDone bool

// ensureCompareHelper writes go_bytes_compare (lexicographic order on octet lists: -1, 0, 1) into the
// generated file, once.
func ensureCompareHelper() {
	if compareHelperDone {
		return
	}
	compareHelperDone = true
	usesGoList = true
	out.WriteString(`(* bytes.Compare / strings.Compare: lexicographic order on octet strings *)
Fixpoint go_bytes_compare (a b : list N) : Z :=
  match a, b with
  | [], [] => 0
  | [], _ :: _ => -1
  | _ :: _, [] => 1
  | x :: a', y :: b' => if N.ltb x y then -1 else if N.ltb y x then 1 else go_bytes_compare a' b'
  end.

`)
}
