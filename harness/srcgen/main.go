// srcgen regenerates, from /repo's current working tree, the parts of the
// Coq model that are data or small pure functions: named constants,
// constant expressions found by pattern, switch tables, string lists and
// Gallina translations of whitelisted pure Go functions.
//
// It fails closed: when a construct named in the spec cannot be found or
// cannot be translated it prints a line starting with "TIE-BROKEN:" and
// exits 3, which the check driver reports as a broken tie.
//
// usage: srcgen -repo /repo -spec props/Cnn/srcgen.json -out coq/theories/Gen/Cnn.v
package main

import (
	"encoding/json"
	"flag"
	"fmt"
	"go/ast"
	"go/constant"
	"go/importer"
	"go/parser"
	"go/token"
	"go/types"
	"os"
	"path/filepath"
	"regexp"
	"sort"
	"strings"
)

type Item struct {
	Kind   string `json:"kind"`
	Pkg    string `json:"pkg"`  // directory relative to repo
	File   string `json:"file"` // file relative to repo (regex kinds)
	Name   string `json:"name"` // const / var name
	Func   string `json:"func"` // "Name" or "Recv.Name"
	As     string `json:"as"`   // Coq identifier
	Type   string `json:"type"` // Z (default) | N
	Regex  string `json:"regex"`
	Within string `json:"within"` // optional regex limiting the region searched
	Nth    int    `json:"nth"`
	Method string `json:"method"`
	Root   string `json:"root"`
	Tests  bool   `json:"tests"`
	// AllowParamMutation: translate assignments to elements of slice parameters / fields behind
	// pointer parameters as local updates although the caller would see them (purefunc only).
	AllowParamMutation bool `json:"allow_param_mutation"`
	// NonNilPointers: `p == nil` on a pointer to a struct translates to false: the translation
	// describes the function on non-nil arguments only (state that where you use it).
	NonNilPointers bool `json:"nonnil_pointers"`
	// ASCIIStrings: strings.ToLower / strings.EqualFold translate as their ASCII restrictions
	// (exact only when every octet of the input is below 128 — state that where you use it).
	ASCIIStrings bool `json:"ascii_strings"`
	// JoinIfs: if statements that always fall through are translated with a join point instead of
	// copying the continuation into both branches (linear instead of exponential output).
	JoinIfs bool `json:"join_ifs"`
	// JoinNestedIfs: join_ifs, also for if statements with an init clause or with nested if statements.
	JoinNestedIfs bool `json:"join_nested_ifs"`
	// MapRangeInListOrder: translate `range` over a map as a walk over the association list in its own order
	// (Go's order is unspecified: exact only for order-insensitive loops — state that where you use it).
	MapRangeInListOrder bool `json:"map_range_in_list_order"`
}

type Spec struct {
	Module string `json:"module"`
	Items  []Item `json:"items"`
	// FullImports: type-check imported non-standard packages (other packages of
	// the repository, miekg/dns, ...) from source instead of standing empty
	// packages in for them. Slower (seconds), but constants such as dns.TypeA
	// get their values and functions may take / call types and functions of other
	// packages of the repository.
	FullImports bool `json:"full_imports"`
	// IfaceCases: interface types that are translated as sum types. Key "<import path or repo dir>.<Name>"
	// (e.g. "github.com/miekg/dns.RR"), value: the names of the concrete struct types of the same package
	// (asserted as *T) that get a constructor of their own. Every other dynamic type is the constructor
	// `other` (for an interface with a `Header() *H` method and `Hdr H` fields it carries the header), so
	// a type assertion or type switch naming a type outside the list is refused.
	IfaceCases map[string][]string `json:"iface_cases"`
	// MapFields: struct fields of map type are part of the emitted Records (off by default: Records keep the
	// shape they had before maps were translatable; local variables and parameters of map type always translate).
	MapFields bool `json:"map_fields"`
}

var (
	repo        string
	out         strings.Builder
	fullImports bool
	modulePath  string
)

func broken(format string, a ...any) {
	fmt.Printf("TIE-BROKEN: "+format+"\n", a...)
	os.Exit(3)
}

// ---------------------------------------------------------------- packages

type pkgInfo struct {
	fset  *token.FileSet
	files []*ast.File
	names []string
	info  *types.Info
	pkg   *types.Package
	src   map[string][]byte
}

var pkgCache = map[string]*pkgInfo{}

type fakeImporter struct {
	std  types.Importer
	fake map[string]*types.Package
}

func (f *fakeImporter) Import(path string) (*types.Package, error) {
	first := path
	if i := strings.Index(path, "/"); i >= 0 {
		first = path[:i]
	}
	if !strings.Contains(first, ".") || fullImports {
		if p, err := f.std.Import(path); err == nil {
			return p, nil
		}
	}
	if p, ok := f.fake[path]; ok {
		return p, nil
	}
	name := path[strings.LastIndex(path, "/")+1:]
	if strings.HasPrefix(name, "v") && len(name) <= 3 { // .../zlog/v2
		rest := path[:strings.LastIndex(path, "/")]
		name = rest[strings.LastIndex(rest, "/")+1:]
	}
	p := types.NewPackage(path, name)
	p.MarkComplete()
	f.fake[path] = p
	return p, nil
}

func loadPkg(dir string) *pkgInfo {
	if p, ok := pkgCache[dir]; ok {
		return p
	}
	abs := filepath.Join(repo, dir)
	if strings.Contains(strings.SplitN(dir, "/", 2)[0], ".") {
		// a package of a third-party module (full_imports): read it from the module cache at the
		// version go.mod requires
		if d, ok := moduleCacheDir(dir); ok {
			abs = d
		}
	}
	ents, err := os.ReadDir(abs)
	if err != nil {
		broken("package directory %s: %v", dir, err)
	}
	pi := &pkgInfo{fset: token.NewFileSet(), src: map[string][]byte{}}
	for _, e := range ents {
		n := e.Name()
		if e.IsDir() || !strings.HasSuffix(n, ".go") || strings.HasSuffix(n, "_test.go") {
			continue
		}
		b, err := os.ReadFile(filepath.Join(abs, n))
		if err != nil {
			broken("read %s: %v", n, err)
		}
		// skip files excluded by build constraints we do not satisfy
		head := string(b)
		if i := strings.Index(head, "package "); i >= 0 {
			head = head[:i]
		}
		if strings.Contains(head, "//go:build ignore") || strings.Contains(head, "//go:build verif") ||
			strings.Contains(head, "//go:build windows") || strings.Contains(head, "//go:build !linux") ||
			strings.Contains(head, "//go:build !unix") {
			continue
		}
		f, err := parser.ParseFile(pi.fset, filepath.Join(abs, n), b, parser.ParseComments)
		if err != nil {
			broken("parse %s/%s: %v", dir, n, err)
		}
		pi.files = append(pi.files, f)
		pi.names = append(pi.names, n)
		pi.src[n] = b
	}
	if len(pi.files) == 0 {
		broken("no Go files in %s", dir)
	}
	pi.info = &types.Info{
		Types:     map[ast.Expr]types.TypeAndValue{},
		Defs:      map[*ast.Ident]types.Object{},
		Uses:      map[*ast.Ident]types.Object{},
		Implicits: map[ast.Node]types.Object{},
	}
	conf := types.Config{
		Importer: &fakeImporter{std: importer.ForCompiler(pi.fset, "source", nil), fake: map[string]*types.Package{}},
		Error:    func(error) {},
	}
	pi.pkg, _ = conf.Check(dir, pi.fset, pi.files, pi.info)
	pkgCache[dir] = pi
	return pi
}

// moduleCacheDir resolves an import path of a required module to its directory in the module cache.
func moduleCacheDir(path string) (string, bool) {
	gm, err := os.ReadFile(filepath.Join(repo, "go.mod"))
	if err != nil {
		return "", false
	}
	best, ver := "", ""
	for _, l := range strings.Split(string(gm), "\n") {
		f := strings.Fields(strings.TrimSpace(l))
		if len(f) >= 2 && f[0] == "require" {
			f = f[1:]
		}
		if len(f) < 2 || !strings.HasPrefix(f[1], "v") {
			continue
		}
		if (path == f[0] || strings.HasPrefix(path, f[0]+"/")) && len(f[0]) > len(best) {
			best, ver = f[0], f[1]
		}
	}
	if best == "" {
		return "", false
	}
	cache := os.Getenv("GOMODCACHE")
	if cache == "" {
		gp := os.Getenv("GOPATH")
		if gp == "" {
			home, _ := os.UserHomeDir()
			gp = filepath.Join(home, "go")
		}
		cache = filepath.Join(strings.Split(gp, string(os.PathListSeparator))[0], "pkg", "mod")
	}
	var esc strings.Builder
	for _, r := range best {
		if r >= 'A' && r <= 'Z' {
			esc.WriteByte('!')
			esc.WriteRune(r + 'a' - 'A')
		} else {
			esc.WriteRune(r)
		}
	}
	d := filepath.Join(cache, esc.String()+"@"+ver, strings.TrimPrefix(strings.TrimPrefix(path, best), "/"))
	if fi, err := os.Stat(d); err == nil && fi.IsDir() {
		return d, true
	}
	return "", false
}

func (pi *pkgInfo) findFunc(name string) *ast.FuncDecl {
	recv, fn := "", name
	if i := strings.Index(name, "."); i >= 0 {
		recv, fn = name[:i], name[i+1:]
	}
	for _, f := range pi.files {
		for _, d := range f.Decls {
			fd, ok := d.(*ast.FuncDecl)
			if !ok || fd.Name.Name != fn {
				continue
			}
			r := ""
			if fd.Recv != nil && len(fd.Recv.List) == 1 {
				t := fd.Recv.List[0].Type
				if s, ok := t.(*ast.StarExpr); ok {
					t = s.X
				}
				if ix, ok := t.(*ast.IndexExpr); ok {
					t = ix.X
				}
				if id, ok := t.(*ast.Ident); ok {
					r = id.Name
				}
			}
			if r == recv {
				return fd
			}
		}
	}
	return nil
}

// ------------------------------------------------------------- value output

func constToCoq(v constant.Value, typ string) (string, bool) {
	switch v.Kind() {
	case constant.Bool:
		if constant.BoolVal(v) {
			return "true", true
		}
		return "false", true
	case constant.Int:
		s := v.ExactString()
		if typ == "N" {
			if strings.HasPrefix(s, "-") {
				return "", false
			}
			return "(" + s + ")%N", true
		}
		return "(" + s + ")%Z", true
	case constant.Float:
		// floats that are integral (e.g. 0.75 * 4) are not expected; emit as a
		// rational pair num/den
		r := constant.ToInt(v)
		if r.Kind() == constant.Int {
			return "(" + r.ExactString() + ")%Z", true
		}
		num := constant.Num(v)
		den := constant.Denom(v)
		return "((" + num.ExactString() + ")%Z, (" + den.ExactString() + ")%Z)", true
	case constant.String:
		return coqString(constant.StringVal(v)), true
	}
	return "", false
}

func coqString(s string) string {
	// emitted as a list of byte values so that every octet is representable
	var b strings.Builder
	b.WriteString("[")
	for i := 0; i < len(s); i++ {
		if i > 0 {
			b.WriteString(";")
		}
		fmt.Fprintf(&b, "%d", s[i])
	}
	b.WriteString("]%N")
	return b.String()
}

func coqTypeOfConst(v constant.Value, typ string) string {
	switch v.Kind() {
	case constant.Bool:
		return "bool"
	case constant.String:
		return "list N"
	case constant.Float:
		if constant.ToInt(v).Kind() == constant.Int {
			return "Z"
		}
		return "(Z * Z)%type"
	}
	if typ == "N" {
		return "N"
	}
	return "Z"
}

// ------------------------------------------------------------------- kinds

func doConst(it Item) {
	pi := loadPkg(it.Pkg)
	obj := pi.pkg.Scope().Lookup(it.Name)
	if obj == nil {
		broken("%s: %s.%s not found", it.As, it.Pkg, it.Name)
	}
	var val constant.Value
	switch o := obj.(type) {
	case *types.Const:
		val = o.Val()
	case *types.Var:
		// package-level var with a constant initialiser
		for _, f := range pi.files {
			for _, d := range f.Decls {
				gd, ok := d.(*ast.GenDecl)
				if !ok || gd.Tok != token.VAR {
					continue
				}
				for _, s := range gd.Specs {
					vs := s.(*ast.ValueSpec)
					for i, n := range vs.Names {
						if n.Name == it.Name && i < len(vs.Values) {
							if tv, ok := pi.info.Types[vs.Values[i]]; ok && tv.Value != nil {
								val = tv.Value
							}
						}
					}
				}
			}
		}
	}
	if val == nil || val.Kind() == constant.Unknown {
		broken("%s: %s.%s has no constant value", it.As, it.Pkg, it.Name)
	}
	s, ok := constToCoq(val, it.Type)
	if !ok {
		broken("%s: cannot render %s", it.As, val)
	}
	fmt.Fprintf(&out, "(* %s: %s.%s *)\nDefinition %s : %s := %s.\n\n", it.Kind, it.Pkg, it.Name, it.As, coqTypeOfConst(val, it.Type), s)
}

func regionOf(src []byte, within string) (int, int) {
	if within == "" {
		return 0, len(src)
	}
	re, err := regexp.Compile(within)
	if err != nil {
		broken("bad within regex %q: %v", within, err)
	}
	loc := re.FindIndex(src)
	if loc == nil {
		return -1, -1
	}
	return loc[0], loc[1]
}

func doRegexConst(it Item) {
	pi := loadPkg(filepath.Dir(it.File))
	base := filepath.Base(it.File)
	src, ok := pi.src[base]
	if !ok {
		broken("%s: file %s not in package", it.As, it.File)
	}
	lo, hi := regionOf(src, it.Within)
	if lo < 0 {
		broken("%s: region %q not found in %s", it.As, it.Within, it.File)
	}
	re, err := regexp.Compile(it.Regex)
	if err != nil {
		broken("%s: bad regex: %v", it.As, err)
	}
	ms := re.FindAllSubmatchIndex(src[lo:hi], -1)
	if len(ms) <= it.Nth {
		broken("%s: pattern %q matched %d times in %s (need index %d)", it.As, it.Regex, len(ms), it.File, it.Nth)
	}
	m := ms[it.Nth]
	if len(m) < 4 {
		broken("%s: pattern needs one capture group", it.As)
	}
	text := string(src[lo+m[2] : lo+m[3]])
	// position for scope lookup
	var file *token.File
	pi.fset.Iterate(func(f *token.File) bool {
		if filepath.Base(f.Name()) == base && strings.HasSuffix(f.Name(), it.File) {
			file = f
			return false
		}
		return true
	})
	pos := token.NoPos
	if file != nil {
		pos = file.Pos(lo + m[2])
	}
	tv, err := types.Eval(pi.fset, pi.pkg, pos, text)
	if err != nil || tv.Value == nil {
		broken("%s: %q is not a constant expression here (%v)", it.As, text, err)
	}
	s, ok2 := constToCoq(tv.Value, it.Type)
	if !ok2 {
		broken("%s: cannot render %s", it.As, tv.Value)
	}
	fmt.Fprintf(&out, "(* regex_const in %s: %s *)\nDefinition %s : %s := %s.\n\n", it.File, strings.ReplaceAll(text, "*)", "* )"), it.As, coqTypeOfConst(tv.Value, it.Type), s)
}

func doRegexStrings(it Item) {
	src, err := os.ReadFile(filepath.Join(repo, it.File))
	if err != nil {
		broken("%s: %v", it.As, err)
	}
	lo, hi := regionOf(src, it.Within)
	if lo < 0 {
		broken("%s: region %q not found in %s", it.As, it.Within, it.File)
	}
	re, err := regexp.Compile(it.Regex)
	if err != nil {
		broken("%s: bad regex: %v", it.As, err)
	}
	ms := re.FindAllSubmatch(src[lo:hi], -1)
	if len(ms) == 0 {
		broken("%s: pattern %q matched nothing in %s", it.As, it.Regex, it.File)
	}
	var parts []string
	for _, m := range ms {
		parts = append(parts, coqString(string(m[1])))
	}
	fmt.Fprintf(&out, "(* regex_strings in %s *)\nDefinition %s : list (list N) :=\n  [ %s ].\n\n", it.File, it.As, strings.Join(parts, ";\n    "))
}

// methods_true: directories below root whose package declares a method
// <Method>() bool { return true }
func doMethodsTrue(it Item) {
	root := filepath.Join(repo, it.Root)
	var names []string
	ents, err := os.ReadDir(root)
	if err != nil {
		broken("%s: %v", it.As, err)
	}
	for _, e := range ents {
		if !e.IsDir() {
			continue
		}
		files, _ := filepath.Glob(filepath.Join(root, e.Name(), "*.go"))
		found := false
		for _, fn := range files {
			if strings.HasSuffix(fn, "_test.go") {
				continue
			}
			fset := token.NewFileSet()
			f, err := parser.ParseFile(fset, fn, nil, 0)
			if err != nil {
				continue
			}
			for _, d := range f.Decls {
				fd, ok := d.(*ast.FuncDecl)
				if !ok || fd.Recv == nil || fd.Name.Name != it.Method || fd.Body == nil || len(fd.Body.List) != 1 {
					continue
				}
				rs, ok := fd.Body.List[0].(*ast.ReturnStmt)
				if !ok || len(rs.Results) != 1 {
					continue
				}
				if id, ok := rs.Results[0].(*ast.Ident); ok && id.Name == "true" {
					found = true
				}
			}
		}
		if found {
			names = append(names, e.Name())
		}
	}
	sort.Strings(names)
	var parts []string
	for _, n := range names {
		parts = append(parts, coqString(n))
	}
	fmt.Fprintf(&out, "(* methods_true %s under %s: %s *)\nDefinition %s : list (list N) :=\n  [ %s ].\n\n", it.Method, it.Root, strings.Join(names, " "), it.As, strings.Join(parts, ";\n    "))
}

// switch_cases: the Nth switch statement in Func; emits
// list (case constant, returned constant) and the default's return value.
func doSwitchCases(it Item) {
	pi := loadPkg(it.Pkg)
	fd := pi.findFunc(it.Func)
	if fd == nil || fd.Body == nil {
		broken("%s: func %s not found in %s", it.As, it.Func, it.Pkg)
	}
	var sws []*ast.SwitchStmt
	ast.Inspect(fd.Body, func(n ast.Node) bool {
		if s, ok := n.(*ast.SwitchStmt); ok {
			sws = append(sws, s)
		}
		return true
	})
	if len(sws) <= it.Nth {
		broken("%s: func %s has %d switch statements (need index %d)", it.As, it.Func, len(sws), it.Nth)
	}
	sw := sws[it.Nth]
	retOf := func(body []ast.Stmt) string {
		for _, st := range body {
			if rs, ok := st.(*ast.ReturnStmt); ok && len(rs.Results) >= 1 {
				if tv, ok := pi.info.Types[rs.Results[0]]; ok && tv.Value != nil {
					if s, ok := constToCoq(tv.Value, "Z"); ok {
						if s == "true" {
							return "1%Z"
						}
						if s == "false" {
							return "0%Z"
						}
						return s
					}
				}
				if id, ok := rs.Results[0].(*ast.Ident); ok && id.Name == "nil" {
					return "0%Z"
				}
				return "(-1)%Z"
			}
		}
		return "(-2)%Z" // falls out of the switch
	}
	var pairs []string
	def := "(-2)%Z"
	for _, c := range sw.Body.List {
		cc := c.(*ast.CaseClause)
		r := retOf(cc.Body)
		if cc.List == nil {
			def = r
			continue
		}
		for _, e := range cc.List {
			tv, ok := pi.info.Types[e]
			if !ok || tv.Value == nil {
				broken("%s: non-constant case in %s", it.As, it.Func)
			}
			s, ok2 := constToCoq(tv.Value, "Z")
			if !ok2 || tv.Value.Kind() != constant.Int {
				broken("%s: non-integer case in %s", it.As, it.Func)
			}
			pairs = append(pairs, "("+s+", "+r+")")
		}
	}
	fmt.Fprintf(&out, "(* switch_cases %s.%s #%d: (case value, returned constant; -1 = non-constant, -2 = falls through) *)\n", it.Pkg, it.Func, it.Nth)
	fmt.Fprintf(&out, "Definition %s : list (Z * Z) :=\n  [ %s ].\nDefinition %s_default : Z := %s.\n\n", it.As, strings.Join(pairs, ";\n    "), it.As, def)
}

func main() {
	var specPath, outPath string
	flag.StringVar(&repo, "repo", "/repo", "repository root")
	flag.StringVar(&specPath, "spec", "", "spec json")
	flag.StringVar(&outPath, "out", "", "output .v")
	flag.Parse()
	if a, err := filepath.Abs(outPath); err == nil {
		outPath = a
	}
	if a, err := filepath.Abs(specPath); err == nil {
		specPath = a
	}
	if a, err := filepath.Abs(repo); err == nil {
		repo = a
	}
	b, err := os.ReadFile(specPath)
	if err != nil {
		fmt.Println("srcgen:", err)
		os.Exit(2)
	}
	var spec Spec
	if err := json.Unmarshal(b, &spec); err != nil {
		fmt.Println("srcgen: bad spec:", err)
		os.Exit(2)
	}
	fullImports = spec.FullImports
	ifaceCases = spec.IfaceCases
	mapFields = spec.MapFields
	if gm, err := os.ReadFile(filepath.Join(repo, "go.mod")); err == nil {
		for _, l := range strings.Split(string(gm), "\n") {
			if strings.HasPrefix(l, "module ") {
				modulePath = strings.TrimSpace(strings.TrimPrefix(l, "module "))
			}
		}
	}
	_ = os.Chdir(repo) // go/build resolves module packages relative to the working directory
	for _, it := range spec.Items {
		if it.Type == "" {
			it.Type = "Z"
		}
		doItem(it)
	}
	writeOut(spec, outPath)
}

// doItem translates one spec item; a construct that trips the translator up (a panic inside
// go/types or in our own code) is a broken tie like any other untranslatable construct.
func doItem(it Item) {
	defer func() {
		if r := recover(); r != nil {
			broken("%s %s.%s%s: the translator cannot handle this construct (internal: %v)", it.Kind, it.Pkg, it.Func, it.Name, r)
		}
	}()
	{
		switch it.Kind {
		case "const":
			doConst(it)
		case "regex_const":
			doRegexConst(it)
		case "regex_strings":
			doRegexStrings(it)
		case "methods_true":
			doMethodsTrue(it)
		case "switch_cases":
			doSwitchCases(it)
		case "purefunc":
			doPureFunc(it)
		case "loopfunc":
			doLoopFunc(it)
		default:
			fmt.Println("srcgen: unknown kind", it.Kind)
			os.Exit(2)
		}
	}
}

func writeOut(spec Spec, outPath string) {
	imports := "Common.Base"
	if usesGoList {
		imports = "Common.Base Common.GoList"
	}
	final := fmt.Sprintf("(* GENERATED by harness/srcgen from /repo's working tree — do not edit.\n   Module %s. Regenerated on every check run. *)\nFrom Sdns Require Import %s.\nOpen Scope Z_scope.\n\n", spec.Module, imports) + out.String()
	old, _ := os.ReadFile(outPath)
	if string(old) == final {
		fmt.Println("srcgen: unchanged", outPath)
		return
	}
	if err := os.MkdirAll(filepath.Dir(outPath), 0o755); err != nil {
		fmt.Println("srcgen:", err)
		os.Exit(2)
	}
	if err := os.WriteFile(outPath, []byte(final), 0o644); err != nil {
		fmt.Println("srcgen:", err)
		os.Exit(2)
	}
	fmt.Println("srcgen: wrote", outPath)
}
