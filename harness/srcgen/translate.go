package main

// Second stage of the translator: a Gallina definition for a small pure Go
// function, produced from its AST and go/types information.
//
// Supported: parameters/results of integer, bool and package-local struct
// types (time.Duration and other named integers by their underlying type);
// if / else, switch (no fallthrough / break), return, := = op= ++ --, var;
// arithmetic, comparison, bitwise and shift operators; conversions between
// integer types; calls of other functions/methods of the same package that
// are themselves translatable (emitted first); composite literals and
// field selection of package-local structs; builtin min/max.
//
// Integer model: unsigned types are N with an explicit wrap to the Go
// width after + - * << and conversions; signed types are ideal Z (no
// wrap) — the properties using them state the ranges for which that is
// exact.  Division by zero and other panics are not modelled.
//
// Anything else (loops, pointers, slices, maps, strings, interface calls,
// calls into other packages) is reported as TIE-BROKEN.

import (
	"fmt"
	"os"
	"path/filepath"
	"go/ast"
	"go/constant"
	"go/token"
	"go/types"
	"strings"
)

var (
	emittedFuncs   = map[string]string{} // pkg + "." + func -> coq name
	inProgress     = map[string]bool{}
	emittedStructs = map[string]bool{}
)

// dirOfPkg maps a types.Package to its directory relative to the repository.
// The package under translation is type-checked under its directory name;
// imported repository packages carry the module path.
func dirOfPkg(p *types.Package) string {
	if p == nil {
		return ""
	}
	path := p.Path()
	if modulePath != "" && strings.HasPrefix(path, modulePath+"/") {
		return strings.TrimPrefix(path, modulePath+"/")
	}
	return path
}

// inRepo reports whether p is a package of the repository being translated.
func inRepo(p *types.Package) bool {
	if p == nil {
		return false
	}
	d := dirOfPkg(p)
	if strings.Contains(strings.SplitN(d, "/", 2)[0], ".") {
		return false
	}
	fi, err := os.Stat(filepath.Join(repo, d))
	return err == nil && fi.IsDir()
}

func isTimeTime(n *types.Named) bool {
	return n != nil && n.Obj() != nil && n.Obj().Pkg() != nil && n.Obj().Pkg().Path() == "time" && n.Obj().Name() == "Time"
}

func structTag(n *types.Named) string { return typeTag(dirOfPkg(n.Obj().Pkg()), n.Obj().Name()) }

var rootDir string // package directory of the spec item being translated (informational)

// typeTag gives the Coq name stem for a Go type or function of package dir.
// The plain Go name is used unless another package already took it in this
// module; the choice is made once per (dir, name) and is stable for the run.
var (
	tagOf    = map[string]string{}
	tagTaken = map[string]string{}
)

func typeTag(dir, name string) string {
	key := dir + "\x00" + name
	if t, ok := tagOf[key]; ok {
		return t
	}
	tag := name
	if owner, taken := tagTaken[tag]; taken && owner != key {
		tag = dir[strings.LastIndex(dir, "/")+1:] + "_" + name
		for i := 2; ; i++ {
			if owner, taken := tagTaken[tag]; !taken || owner == key {
				break
			}
			tag = fmt.Sprintf("%s%d_%s", dir[strings.LastIndex(dir, "/")+1:], i, name)
		}
	}
	tagOf[key] = tag
	tagTaken[tag] = key
	return tag
}

type ftr struct {
	pi    *pkgInfo
	dir   string
	fn    string
	named []string // named results (coq local names)
	nres  int
}

func (t *ftr) bad(n ast.Node, format string, a ...any) {
	pos := t.pi.fset.Position(n.Pos())
	broken("purefunc %s.%s: %s (at %s:%d)", t.dir, t.fn, fmt.Sprintf(format, a...), pos.Filename, pos.Line)
}

type tkind struct {
	k    string // "bool" "Z" "N" "struct"
	w    int    // width for ints
	name string // struct name
}

func kindOfType(ty types.Type) (tkind, bool) {
	if ty == nil {
		return tkind{}, false
	}
	if n, ok := ty.(*types.Named); ok {
		if isTimeTime(n) {
			// time.Time as an instant in ns on an ideal Z line; the zero Time is 0 and
			// every real instant is assumed non-zero (stated in the trusted base)
			return tkind{k: "Z", w: 64}, true
		}
		if _, ok := n.Underlying().(*types.Struct); ok {
			return tkind{k: "struct", name: structTag(n)}, true
		}
	}
	if a, ok := ty.(*types.Alias); ok {
		return kindOfType(types.Unalias(a))
	}
	b, ok := ty.Underlying().(*types.Basic)
	if !ok {
		return tkind{}, false
	}
	switch b.Kind() {
	case types.Bool, types.UntypedBool:
		return tkind{k: "bool"}, true
	case types.Int, types.Int64, types.UntypedInt, types.UntypedRune:
		return tkind{k: "Z", w: 64}, true
	case types.Int32:
		return tkind{k: "Z", w: 32}, true
	case types.Int16:
		return tkind{k: "Z", w: 16}, true
	case types.Int8:
		return tkind{k: "Z", w: 8}, true
	case types.Uint, types.Uint64, types.Uintptr:
		return tkind{k: "N", w: 64}, true
	case types.Uint32:
		return tkind{k: "N", w: 32}, true
	case types.Uint16:
		return tkind{k: "N", w: 16}, true
	case types.Uint8:
		return tkind{k: "N", w: 8}, true
	}
	return tkind{}, false
}

func (k tkind) coq() string {
	switch k.k {
	case "bool":
		return "bool"
	case "Z":
		return "Z"
	case "N":
		return "N"
	case "struct":
		return "T_" + k.name
	}
	return "?"
}

func modOf(w int) string {
	switch w {
	case 8:
		return "two8"
	case 16:
		return "two16"
	case 32:
		return "two32"
	}
	return "two64"
}

func wrapOf(w int) string { return fmt.Sprintf("wrap%d", w) }

func (t *ftr) zero(ty types.Type, at ast.Node) string {
	k, ok := kindOfType(ty)
	if !ok {
		t.bad(at, "unsupported type %s", ty)
	}
	switch k.k {
	case "bool":
		return "false"
	case "Z":
		return "(0)%Z"
	case "N":
		return "(0)%N"
	}
	st := ty.Underlying().(*types.Struct)
	t.ensureStruct(ty.(*types.Named), at)
	var parts []string
	for i := 0; i < st.NumFields(); i++ {
		parts = append(parts, t.zero(st.Field(i).Type(), at))
	}
	return "(mk_T_" + k.name + " " + strings.Join(parts, " ") + ")"
}

func (t *ftr) ensureStruct(n *types.Named, at ast.Node) {
	key := dirOfPkg(n.Obj().Pkg()) + "." + n.Obj().Name()
	if emittedStructs[key] {
		return
	}
	emittedStructs[key] = true
	st := n.Underlying().(*types.Struct)
	var fs []string
	for i := 0; i < st.NumFields(); i++ {
		fk, ok := kindOfType(st.Field(i).Type())
		if !ok {
			t.bad(at, "struct %s field %s has unsupported type", n.Obj().Name(), st.Field(i).Name())
		}
		if fk.k == "struct" {
			t.ensureStruct(st.Field(i).Type().(*types.Named), at)
		}
		fs = append(fs, fmt.Sprintf("T_%s_%s : %s", structTag(n), st.Field(i).Name(), fk.coq()))
	}
	fmt.Fprintf(&out, "(* struct %s.%s *)\nRecord T_%s := mk_T_%s { %s }.\n\n", dirOfPkg(n.Obj().Pkg()), n.Obj().Name(), structTag(n), structTag(n), strings.Join(fs, "; "))
}

func (t *ftr) typeOf(e ast.Expr) types.Type {
	if tv, ok := t.pi.info.Types[e]; ok {
		return tv.Type
	}
	if id, ok := e.(*ast.Ident); ok {
		if o := t.pi.info.Uses[id]; o != nil {
			return o.Type()
		}
		if o := t.pi.info.Defs[id]; o != nil {
			return o.Type()
		}
	}
	return nil
}

func (t *ftr) kindOf(e ast.Expr) tkind {
	k, ok := kindOfType(t.typeOf(e))
	if !ok {
		t.bad(e, "expression of unsupported type %v", t.typeOf(e))
	}
	if k.k == "struct" {
		t.ensureStruct(namedOf(t.typeOf(e)), e)
	}
	return k
}

func namedOf(ty types.Type) *types.Named {
	ty = types.Unalias(ty)
	if p, ok := ty.(*types.Pointer); ok {
		ty = p.Elem()
	}
	n, _ := ty.(*types.Named)
	return n
}

func constLit(v constant.Value, k tkind) (string, bool) {
	switch k.k {
	case "bool":
		if v.Kind() == constant.Bool {
			if constant.BoolVal(v) {
				return "true", true
			}
			return "false", true
		}
	case "Z":
		iv := constant.ToInt(v)
		if iv.Kind() == constant.Int {
			return "(" + iv.ExactString() + ")%Z", true
		}
	case "N":
		iv := constant.ToInt(v)
		if iv.Kind() == constant.Int && constant.Sign(iv) >= 0 {
			return "(" + iv.ExactString() + ")%N", true
		}
	}
	return "", false
}

func (t *ftr) toN(e ast.Expr) string { // shift counts
	tv := t.pi.info.Types[e]
	if tv.Value != nil {
		if s, ok := constLit(tv.Value, tkind{k: "N"}); ok {
			return s
		}
	}
	k := t.kindOf(e)
	if k.k == "N" {
		return t.expr(e)
	}
	return "(Z.to_N " + t.expr(e) + ")"
}

func (t *ftr) expr(e ast.Expr) string {
	if tv, ok := t.pi.info.Types[e]; ok && tv.Value != nil {
		k, ok := kindOfType(tv.Type)
		if ok {
			if s, ok := constLit(tv.Value, k); ok {
				return s
			}
		}
	}
	switch e := e.(type) {
	case *ast.ParenExpr:
		return t.expr(e.X)
	case *ast.Ident:
		switch e.Name {
		case "true", "false":
			return e.Name
		}
		obj := t.pi.info.Uses[e]
		if obj == nil {
			obj = t.pi.info.Defs[e]
		}
		if v, ok := obj.(*types.Var); ok && v.Parent() != t.pi.pkg.Scope() {
			t.kindOf(e)
			return "v_" + e.Name
		}
		t.bad(e, "identifier %s is not a local variable or constant", e.Name)
	case *ast.UnaryExpr:
		k := t.kindOf(e)
		x := t.expr(e.X)
		switch e.Op {
		case token.NOT:
			return "(negb " + x + ")"
		case token.ADD:
			return x
		case token.SUB:
			if k.k == "Z" {
				return "(Z.opp " + x + ")"
			}
			return "(subw " + modOf(k.w) + " (0)%N " + x + ")"
		case token.XOR:
			if k.k == "Z" {
				return "(Z.lnot " + x + ")"
			}
			return "(notw " + modOf(k.w) + " " + x + ")"
		}
		t.bad(e, "unary operator %s", e.Op)
	case *ast.BinaryExpr:
		return t.binary(e)
	case *ast.SelectorExpr:
		// struct field
		if sel := namedOf(t.typeOf(e.X)); sel != nil {
			if _, ok := sel.Underlying().(*types.Struct); ok && inRepo(sel.Obj().Pkg()) {
				if _, isField := t.pi.info.Uses[e.Sel].(*types.Var); isField {
					t.ensureStruct(sel, e)
					t.kindOf(e)
					return "(T_" + structTag(sel) + "_" + e.Sel.Name + " " + t.expr(e.X) + ")"
				}
			}
		}
		t.bad(e, "selector %s", e.Sel.Name)
	case *ast.CompositeLit:
		n := namedOf(t.typeOf(e))
		if isTimeTime(n) && len(e.Elts) == 0 {
			return "(0)%Z"
		}
		if n == nil {
			t.bad(e, "composite literal of unsupported type")
		}
		st, ok := n.Underlying().(*types.Struct)
		if !ok || !inRepo(n.Obj().Pkg()) {
			t.bad(e, "composite literal of a type outside the repository")
		}
		t.ensureStruct(n, e)
		vals := make([]string, st.NumFields())
		for i := range vals {
			vals[i] = t.zero(st.Field(i).Type(), e)
		}
		for i, el := range e.Elts {
			if kv, ok := el.(*ast.KeyValueExpr); ok {
				name := kv.Key.(*ast.Ident).Name
				found := false
				for j := 0; j < st.NumFields(); j++ {
					if st.Field(j).Name() == name {
						vals[j] = t.expr(kv.Value)
						found = true
					}
				}
				if !found {
					t.bad(e, "unknown field %s", name)
				}
			} else {
				vals[i] = t.expr(el)
			}
		}
		return "(mk_T_" + structTag(n) + " " + strings.Join(vals, " ") + ")"
	case *ast.CallExpr:
		return t.call(e)
	}
	t.bad(e, "unsupported expression %T", e)
	return ""
}

func (t *ftr) binary(e *ast.BinaryExpr) string {
	switch e.Op {
	case token.LAND:
		return "(andb " + t.expr(e.X) + " " + t.expr(e.Y) + ")"
	case token.LOR:
		return "(orb " + t.expr(e.X) + " " + t.expr(e.Y) + ")"
	case token.SHL, token.SHR:
		k := t.kindOf(e)
		x := t.expr(e.X)
		c := t.toN(e.Y)
		if k.k == "N" {
			if e.Op == token.SHL {
				return "(" + wrapOf(k.w) + " (N.shiftl " + x + " " + c + "))"
			}
			return "(N.shiftr " + x + " " + c + ")"
		}
		if e.Op == token.SHL {
			return "(Z.shiftl " + x + " (Z.of_N " + c + "))"
		}
		return "(Z.shiftr " + x + " (Z.of_N " + c + "))"
	case token.EQL, token.NEQ, token.LSS, token.LEQ, token.GTR, token.GEQ:
		// operand kind: take from whichever side is typed
		k := t.kindOf(e.X)
		if tv := t.pi.info.Types[e.X]; tv.Value != nil {
			k = t.kindOf(e.Y)
		}
		x, y := t.exprAs(e.X, k), t.exprAs(e.Y, k)
		var m string
		switch k.k {
		case "Z":
			m = "Z"
		case "N":
			m = "N"
		case "bool":
			if e.Op == token.EQL {
				return "(Bool.eqb " + x + " " + y + ")"
			}
			if e.Op == token.NEQ {
				return "(negb (Bool.eqb " + x + " " + y + "))"
			}
			t.bad(e, "ordering on bool")
		default:
			t.bad(e, "comparison of %s values", k.k)
		}
		switch e.Op {
		case token.EQL:
			return "(" + m + ".eqb " + x + " " + y + ")"
		case token.NEQ:
			return "(negb (" + m + ".eqb " + x + " " + y + "))"
		case token.LSS:
			return "(" + m + ".ltb " + x + " " + y + ")"
		case token.LEQ:
			return "(" + m + ".leb " + x + " " + y + ")"
		case token.GTR:
			return "(" + m + ".ltb " + y + " " + x + ")"
		case token.GEQ:
			return "(" + m + ".leb " + y + " " + x + ")"
		}
	}
	k := t.kindOf(e)
	x, y := t.exprAs(e.X, k), t.exprAs(e.Y, k)
	if k.k == "Z" {
		op := map[token.Token]string{token.ADD: "Z.add", token.SUB: "Z.sub", token.MUL: "Z.mul", token.QUO: "Z.quot",
			token.REM: "Z.rem", token.AND: "Z.land", token.OR: "Z.lor", token.XOR: "Z.lxor", token.AND_NOT: "Z.ldiff"}[e.Op]
		if op == "" {
			t.bad(e, "operator %s", e.Op)
		}
		return "(" + op + " " + x + " " + y + ")"
	}
	if k.k == "N" {
		switch e.Op {
		case token.ADD:
			return "(" + wrapOf(k.w) + " (N.add " + x + " " + y + "))"
		case token.SUB:
			return "(subw " + modOf(k.w) + " " + x + " " + y + ")"
		case token.MUL:
			return "(" + wrapOf(k.w) + " (N.mul " + x + " " + y + "))"
		case token.QUO:
			return "(N.div " + x + " " + y + ")"
		case token.REM:
			return "(N.modulo " + x + " " + y + ")"
		case token.AND:
			return "(N.land " + x + " " + y + ")"
		case token.OR:
			return "(N.lor " + x + " " + y + ")"
		case token.XOR:
			return "(N.lxor " + x + " " + y + ")"
		case token.AND_NOT:
			return "(N.ldiff " + x + " " + y + ")"
		}
	}
	t.bad(e, "operator %s on %s", e.Op, k.k)
	return ""
}

// exprAs renders e, forcing constant operands into kind k.
func (t *ftr) exprAs(e ast.Expr, k tkind) string {
	if tv, ok := t.pi.info.Types[e]; ok && tv.Value != nil {
		if s, ok := constLit(tv.Value, k); ok {
			return s
		}
	}
	return t.expr(e)
}

func (t *ftr) conv(target types.Type, arg ast.Expr, at ast.Node) string {
	tk, ok := kindOfType(target)
	if !ok {
		t.bad(at, "conversion to unsupported type %s", target)
	}
	sk := t.kindOf(arg)
	x := t.expr(arg)
	switch {
	case tk.k == "bool" && sk.k == "bool":
		return x
	case tk.k == "N" && sk.k == "N":
		if tk.w >= sk.w {
			return x
		}
		return "(" + wrapOf(tk.w) + " " + x + ")"
	case tk.k == "N" && sk.k == "Z":
		return "(Z_to_uw " + modOf(tk.w) + " " + x + ")"
	case tk.k == "Z" && sk.k == "N":
		if tk.w > sk.w {
			return "(Z.of_N " + x + ")"
		}
		if tk.w == 64 {
			return "(N_to_s64 " + x + ")"
		}
		t.bad(at, "narrowing unsigned->signed conversion")
	case tk.k == "Z" && sk.k == "Z":
		return x
	}
	t.bad(at, "conversion %s -> %s", sk.k, tk.k)
	return ""
}

func (t *ftr) call(e *ast.CallExpr) string {
	// conversion?
	if tv, ok := t.pi.info.Types[e.Fun]; ok && tv.IsType() {
		if len(e.Args) != 1 {
			t.bad(e, "conversion arity")
		}
		return t.conv(tv.Type, e.Args[0], e)
	}
	switch f := e.Fun.(type) {
	case *ast.Ident:
		if f.Name == "min" || f.Name == "max" {
			if _, isBuiltin := t.pi.info.Uses[f].(*types.Builtin); isBuiltin {
				k := t.kindOf(e)
				acc := t.exprAs(e.Args[0], k)
				for _, a := range e.Args[1:] {
					acc = "(" + k.k + "." + f.Name + " " + acc + " " + t.exprAs(a, k) + ")"
				}
				return acc
			}
		}
		if fn, ok := t.pi.info.Uses[f].(*types.Func); ok && fn.Pkg() == t.pi.pkg {
			name := ensureFunc(t.pi, t.dir, f.Name, e)
			return t.apply(name, nil, e)
		}
	case *ast.SelectorExpr:
		if n := namedOf(t.typeOf(f.X)); isTimeTime(n) {
			x := t.expr(f.X)
			arg := func(i int) string { return t.expr(e.Args[i]) }
			switch f.Sel.Name {
			case "IsZero":
				return "(Z.eqb " + x + " (0)%Z)"
			case "Before":
				return "(Z.ltb " + x + " " + arg(0) + ")"
			case "After":
				return "(Z.ltb " + arg(0) + " " + x + ")"
			case "Equal":
				return "(Z.eqb " + x + " " + arg(0) + ")"
			case "Add":
				return "(Z.add " + x + " " + arg(0) + ")"
			case "Sub":
				return "(Z.sub " + x + " " + arg(0) + ")"
			case "Compare":
				return "(match Z.compare " + x + " " + arg(0) + " with Lt => (-1)%Z | Eq => (0)%Z | Gt => (1)%Z end)"
			case "UnixNano":
				return x
			}
			t.bad(e, "time.Time method %s", f.Sel.Name)
		}
		if n := namedOf(t.typeOf(f.X)); n != nil && inRepo(n.Obj().Pkg()) {
			if _, ok := t.pi.info.Uses[f.Sel].(*types.Func); ok {
				d := dirOfPkg(n.Obj().Pkg())
				pi := t.pi
				if d != t.dir {
					pi = loadPkg(d)
				}
				name := ensureFunc(pi, d, n.Obj().Name()+"."+f.Sel.Name, e)
				return t.apply(name, f.X, e)
			}
		}
		// function of another package of the repository: pkg.Func(args)
		if id, ok := f.X.(*ast.Ident); ok {
			if pn, ok := t.pi.info.Uses[id].(*types.PkgName); ok && inRepo(pn.Imported()) {
				if _, ok := t.pi.info.Uses[f.Sel].(*types.Func); ok {
					d := dirOfPkg(pn.Imported())
					name := ensureFunc(loadPkg(d), d, f.Sel.Name, e)
					return t.apply(name, nil, e)
				}
			}
		}
	}
	t.bad(e, "call of a function outside the translatable set")
	return ""
}

func (t *ftr) apply(name string, recv ast.Expr, e *ast.CallExpr) string {
	parts := []string{name}
	if recv != nil {
		parts = append(parts, t.expr(recv))
	}
	sig, _ := t.typeOf(e.Fun).(*types.Signature)
	for i, a := range e.Args {
		if sig != nil && i < sig.Params().Len() {
			if k, ok := kindOfType(sig.Params().At(i).Type()); ok {
				parts = append(parts, t.exprAs(a, k))
				continue
			}
		}
		parts = append(parts, t.expr(a))
	}
	return "(" + strings.Join(parts, " ") + ")"
}

// ------------------------------------------------------------- statements

func (t *ftr) assignTo(lhs ast.Expr, val string, rest string) string {
	switch l := lhs.(type) {
	case *ast.Ident:
		if l.Name == "_" {
			return rest
		}
		return "(let v_" + l.Name + " := " + val + " in\n  " + rest + ")"
	case *ast.SelectorExpr:
		base, ok := l.X.(*ast.Ident)
		n := namedOf(t.typeOf(l.X))
		if ok && n != nil {
			if st, ok := n.Underlying().(*types.Struct); ok && inRepo(n.Obj().Pkg()) {
				t.ensureStruct(n, lhs)
				var parts []string
				for i := 0; i < st.NumFields(); i++ {
					if st.Field(i).Name() == l.Sel.Name {
						parts = append(parts, val)
					} else {
						parts = append(parts, "(T_"+structTag(n)+"_"+st.Field(i).Name()+" v_"+base.Name+")")
					}
				}
				return "(let v_" + base.Name + " := (mk_T_" + structTag(n) + " " + strings.Join(parts, " ") + ") in\n  " + rest + ")"
			}
		}
	}
	t.bad(lhs, "unsupported assignment target")
	return ""
}

func (t *ftr) block(list []ast.Stmt, k func() string) string {
	if len(list) == 0 {
		if k == nil {
			broken("purefunc %s.%s: control reaches the end of the function without return", t.dir, t.fn)
		}
		return k()
	}
	s := list[0]
	restK := func() string { return t.block(list[1:], k) }
	switch s := s.(type) {
	case *ast.ReturnStmt:
		if len(s.Results) == 0 {
			if len(t.named) == 0 {
				t.bad(s, "bare return without named results")
			}
			if len(t.named) == 1 {
				return t.named[0]
			}
			return "(" + strings.Join(t.named, ", ") + ")"
		}
		var parts []string
		for _, r := range s.Results {
			parts = append(parts, t.expr(r))
		}
		if len(parts) == 1 {
			return parts[0]
		}
		return "(" + strings.Join(parts, ", ") + ")"
	case *ast.BlockStmt:
		return t.block(append(append([]ast.Stmt{}, s.List...), list[1:]...), k)
	case *ast.IfStmt:
		mk := func() string {
			cond := t.expr(s.Cond)
			th := t.block(s.Body.List, restK)
			var el string
			switch e := s.Else.(type) {
			case nil:
				el = restK()
			case *ast.BlockStmt:
				el = t.block(e.List, restK)
			case *ast.IfStmt:
				el = t.block([]ast.Stmt{e}, restK)
			}
			return "(if " + cond + "\n  then " + th + "\n  else " + el + ")"
		}
		if s.Init != nil {
			return t.block([]ast.Stmt{s.Init}, mk)
		}
		return mk()
	case *ast.SwitchStmt:
		mk := func() string {
			var clauses []*ast.CaseClause
			var def *ast.CaseClause
			for _, c := range s.Body.List {
				cc := c.(*ast.CaseClause)
				for _, b := range cc.Body {
					if br, ok := b.(*ast.BranchStmt); ok {
						t.bad(br, "branch statement in switch")
					}
				}
				if cc.List == nil {
					def = cc
				} else {
					clauses = append(clauses, cc)
				}
			}
			var res string
			if def != nil {
				res = t.block(def.Body, restK)
			} else {
				res = restK()
			}
			for i := len(clauses) - 1; i >= 0; i-- {
				cc := clauses[i]
				var conds []string
				for _, ce := range cc.List {
					if s.Tag != nil {
						k := t.kindOf(s.Tag)
						m := k.k
						if m == "bool" {
							m = "Bool"
						}
						conds = append(conds, "("+m+".eqb "+t.expr(s.Tag)+" "+t.exprAs(ce, k)+")")
					} else {
						conds = append(conds, t.expr(ce))
					}
				}
				c := conds[0]
				for _, x := range conds[1:] {
					c = "(orb " + c + " " + x + ")"
				}
				res = "(if " + c + "\n  then " + t.block(cc.Body, restK) + "\n  else " + res + ")"
			}
			return res
		}
		if s.Init != nil {
			return t.block([]ast.Stmt{s.Init}, mk)
		}
		return mk()
	case *ast.AssignStmt:
		if s.Tok == token.ASSIGN || s.Tok == token.DEFINE {
			if len(s.Lhs) == len(s.Rhs) {
				if len(s.Lhs) == 1 {
					return t.assignTo(s.Lhs[0], t.expr(s.Rhs[0]), restK())
				}
				// parallel assignment: evaluate all, then bind
				var tmp []string
				for i, r := range s.Rhs {
					tmp = append(tmp, fmt.Sprintf("(let tmp_%d := %s in ", i, t.expr(r)))
				}
				body := restK()
				for i := len(s.Lhs) - 1; i >= 0; i-- {
					body = t.assignTo(s.Lhs[i], fmt.Sprintf("tmp_%d", i), body)
				}
				return strings.Join(tmp, "") + body + strings.Repeat(")", len(tmp))
			}
			if len(s.Rhs) == 1 {
				var names []string
				for _, l := range s.Lhs {
					id, ok := l.(*ast.Ident)
					if !ok {
						t.bad(s, "tuple assignment to non-identifier")
					}
					if id.Name == "_" {
						names = append(names, "_")
					} else {
						names = append(names, "v_"+id.Name)
					}
				}
				return "(let '(" + strings.Join(names, ", ") + ") := " + t.expr(s.Rhs[0]) + " in\n  " + restK() + ")"
			}
			t.bad(s, "assignment shape")
		}
		ops := map[token.Token]token.Token{token.ADD_ASSIGN: token.ADD, token.SUB_ASSIGN: token.SUB, token.MUL_ASSIGN: token.MUL,
			token.QUO_ASSIGN: token.QUO, token.REM_ASSIGN: token.REM, token.AND_ASSIGN: token.AND, token.OR_ASSIGN: token.OR,
			token.XOR_ASSIGN: token.XOR, token.SHL_ASSIGN: token.SHL, token.SHR_ASSIGN: token.SHR, token.AND_NOT_ASSIGN: token.AND_NOT}
		if op, ok := ops[s.Tok]; ok && len(s.Lhs) == 1 {
			be := &ast.BinaryExpr{X: s.Lhs[0], Op: op, Y: s.Rhs[0], OpPos: s.TokPos}
			t.pi.info.Types[be] = types.TypeAndValue{Type: t.typeOf(s.Lhs[0])}
			return t.assignTo(s.Lhs[0], t.binary(be), restK())
		}
		t.bad(s, "assignment operator %s", s.Tok)
	case *ast.IncDecStmt:
		k := t.kindOf(s.X)
		one := "(1)%" + k.k
		x := t.expr(s.X)
		var v string
		if k.k == "Z" {
			if s.Tok == token.INC {
				v = "(Z.add " + x + " " + one + ")"
			} else {
				v = "(Z.sub " + x + " " + one + ")"
			}
		} else {
			if s.Tok == token.INC {
				v = "(" + wrapOf(k.w) + " (N.add " + x + " " + one + "))"
			} else {
				v = "(subw " + modOf(k.w) + " " + x + " " + one + ")"
			}
		}
		return t.assignTo(s.X, v, restK())
	case *ast.DeclStmt:
		gd, ok := s.Decl.(*ast.GenDecl)
		if !ok || (gd.Tok != token.VAR && gd.Tok != token.CONST) {
			t.bad(s, "declaration")
		}
		if gd.Tok == token.CONST {
			return restK()
		}
		type bind struct{ name, val string }
		var binds []bind
		for _, sp := range gd.Specs {
			vs := sp.(*ast.ValueSpec)
			for i, n := range vs.Names {
				if i < len(vs.Values) {
					binds = append(binds, bind{n.Name, t.expr(vs.Values[i])})
				} else {
					binds = append(binds, bind{n.Name, t.zero(t.pi.info.Defs[n].Type(), s)})
				}
			}
		}
		body := restK()
		for i := len(binds) - 1; i >= 0; i-- {
			body = "(let v_" + binds[i].name + " := " + binds[i].val + " in\n  " + body + ")"
		}
		return body
	case *ast.EmptyStmt:
		return restK()
	}
	t.bad(s, "unsupported statement %T", s)
	return ""
}

func coqFuncName(dir, fn string) string {
	return "go_" + typeTag(dir, strings.ReplaceAll(fn, ".", "_"))
}

// ensureFunc translates dir.fn if not done yet and returns its Coq name.
func ensureFunc(pi *pkgInfo, dir, fn string, at ast.Node) string {
	key := dir + "." + fn
	if n, ok := emittedFuncs[key]; ok {
		return n
	}
	if inProgress[key] {
		broken("purefunc %s: recursive function", key)
	}
	inProgress[key] = true
	fd := pi.findFunc(fn)
	if fd == nil || fd.Body == nil {
		broken("purefunc %s: function not found", key)
	}
	t := &ftr{pi: pi, dir: dir, fn: fn}
	var params []string
	addParam := func(name string, ty types.Type, at ast.Node) {
		k, ok := kindOfType(ty)
		if !ok {
			t.bad(at, "parameter %s has unsupported type %s", name, ty)
		}
		if k.k == "struct" {
			t.ensureStruct(namedOf(ty), at)
		}
		if name == "_" || name == "" {
			params = append(params, "(_ : "+k.coq()+")")
		} else {
			params = append(params, "(v_"+name+" : "+k.coq()+")")
		}
	}
	if fd.Recv != nil {
		f := fd.Recv.List[0]
		name := "_"
		if len(f.Names) == 1 {
			name = f.Names[0].Name
		}
		ty := pi.info.Types[f.Type].Type
		if p, ok := ty.(*types.Pointer); ok {
			ty = p.Elem()
		}
		addParam(name, ty, f)
	}
	for _, f := range fd.Type.Params.List {
		ty := pi.info.Types[f.Type].Type
		if len(f.Names) == 0 {
			addParam("_", ty, f)
		}
		for _, n := range f.Names {
			addParam(n.Name, ty, f)
		}
	}
	var rts []string
	var namedInit []struct{ n, z string }
	if fd.Type.Results != nil {
		for _, f := range fd.Type.Results.List {
			ty := pi.info.Types[f.Type].Type
			k, ok := kindOfType(ty)
			if !ok {
				t.bad(f, "result has unsupported type %s", ty)
			}
			if k.k == "struct" {
				t.ensureStruct(namedOf(ty), f)
			}
			cnt := len(f.Names)
			if cnt == 0 {
				cnt = 1
			}
			for i := 0; i < cnt; i++ {
				rts = append(rts, k.coq())
			}
			for _, n := range f.Names {
				t.named = append(t.named, "v_"+n.Name)
				namedInit = append(namedInit, struct{ n, z string }{"v_" + n.Name, t.zero(ty, f)})
			}
		}
	}
	if len(rts) == 0 {
		broken("purefunc %s: no results", key)
	}
	rt := rts[0]
	if len(rts) > 1 {
		rt = "(" + strings.Join(rts, " * ") + ")%type"
	}
	body := t.block(fd.Body.List, nil)
	for i := len(namedInit) - 1; i >= 0; i-- {
		body = "(let " + namedInit[i].n + " := " + namedInit[i].z + " in\n  " + body + ")"
	}
	name := coqFuncName(dir, fn)
	pos := pi.fset.Position(fd.Pos())
	fmt.Fprintf(&out, "(* purefunc %s.%s (%s:%d) *)\nDefinition %s %s : %s :=\n  %s.\n\n", dir, fn, strings.TrimPrefix(pos.Filename, repo+"/"), pos.Line, name, strings.Join(params, " "), rt, body)
	emittedFuncs[key] = name
	delete(inProgress, key)
	return name
}

func doPureFunc(it Item) {
	rootDir = it.Pkg
	pi := loadPkg(it.Pkg)
	name := ensureFunc(pi, it.Pkg, it.Func, nil)
	if it.As != "" && it.As != name {
		fmt.Fprintf(&out, "Definition %s := %s.\n\n", it.As, name)
	}
}
