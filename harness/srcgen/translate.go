package main

// Second stage of the translator: a Gallina definition for a small pure Go
// function, produced from its AST and go/types information.
//
// Supported: parameters/results of integer, bool and package-local struct
// types (time.Duration and other named integers by their underlying type);
// if / else, switch (no fallthrough / break), return, := = op= ++ --, var;
// arithmetic, comparison, bitwise and shift operators; conversions between
// integer types; calls of other functions/methods of the same package that
// are themselves translatable (emitted first); composite literals and
// field selection of package-local structs; builtin min/max.
//
// Integer model: unsigned types are N with an explicit wrap to the Go
// width after + - * << and conversions; signed types are ideal Z (no
// wrap) — the properties using them state the ranges for which that is
// exact.  Division by zero and other panics are not modelled.
//
// Third stage (lists and loops): slices, arrays and strings of supported
// element types are lists (Common/GoList.v: go_len go_idx go_slice go_upd
// append make copy, string/[]byte conversions, == on strings, bytes.Equal,
// strings/bytes.HasPrefix/HasSuffix, encoding/binary.BigEndian/LittleEndian
// Uint16/32/64, PutUint16/32/64, AppendUint16/32/64); the error type is a bool
// ("non-nil"); for loops become top-level Fixpoints over an iteration budget:
// a range loop gets the budget S (length s) (always enough, the function
// stays total), any other loop draws on a `fuel : nat` first parameter and
// the function (and every function that calls it) returns `option R`, None
// meaning the budget ran out.  break / continue / return inside loops are
// supported (no labels, no break inside switch).  Every Go variable gets its
// own Coq name, so shadowing in nested blocks is exact.
//
// Not modelled: aliasing between slices, capacity, nil vs empty, panics
// (out-of-range index/slice, division by zero), mutation of the slice a
// range loop iterates over.  Assigning to an element of a slice PARAMETER
// or to a field through a pointer parameter/receiver is refused (the caller
// would see it, the translation could not show it) unless the spec item
// carries "allow_param_mutation": true.
//
// Anything else (pointers, maps, interface calls, closures, goroutines,
// calls into packages outside the repository other than the ones listed)
// is reported as TIE-BROKEN.

import (
	"fmt"
	"go/ast"
	"go/constant"
	"go/token"
	"go/types"
	"os"
	"path/filepath"
	"sort"
	"strings"
)

var (
	emittedFuncs   = map[string]string{} // pkg + "." + func -> coq name
	inProgress     = map[string]bool{}
	emittedStructs = map[string]bool{}
)

// dirOfPkg maps a types.Package to its directory relative to the repository.
// The package under translation is type-checked under its directory name;
// imported repository packages carry the module path.
func dirOfPkg(p *types.Package) string {
	if p == nil {
		return ""
	}
	path := p.Path()
	if modulePath != "" && strings.HasPrefix(path, modulePath+"/") {
		return strings.TrimPrefix(path, modulePath+"/")
	}
	return path
}

// structPkgOK: record types are emitted for structs of the repository and, when the spec asks for
// full imports, of third-party modules it uses (miekg/dns: dns.DNSKEY, dns.RR_Header, dns.Question …);
// never for the standard library (sync.Mutex, atomic.Int64, netip.Addr stay outside the subset).
func structPkgOK(p *types.Package) bool {
	if inRepo(p) {
		return true
	}
	if p == nil || !fullImports {
		return false
	}
	return strings.Contains(strings.SplitN(p.Path(), "/", 2)[0], ".")
}

// calleePkgOK: functions of the repository and, under full_imports, of the third-party modules it
// requires (dns.CountLabel, dns.NextLabel …) are translated from their source like any other callee.
func calleePkgOK(p *types.Package) bool { return structPkgOK(p) }

// inRepo reports whether p is a package of the repository being translated.
func inRepo(p *types.Package) bool {
	if p == nil {
		return false
	}
	d := dirOfPkg(p)
	if strings.Contains(strings.SplitN(d, "/", 2)[0], ".") {
		return false
	}
	fi, err := os.Stat(filepath.Join(repo, d))
	return err == nil && fi.IsDir()
}

func isTimeTime(n *types.Named) bool {
	return n != nil && n.Obj() != nil && n.Obj().Pkg() != nil && n.Obj().Pkg().Path() == "time" && n.Obj().Name() == "Time"
}

func structTag(n *types.Named) string { return typeTag(dirOfPkg(n.Obj().Pkg()), n.Obj().Name()) }

var rootDir string // package directory of the spec item being translated (informational)

// typeTag gives the Coq name stem for a Go type or function of package dir.
// The plain Go name is used unless another package already took it in this
// module; the choice is made once per (dir, name) and is stable for the run.
var (
	tagOf    = map[string]string{}
	tagTaken = map[string]string{}
)

func typeTag(dir, name string) string {
	key := dir + "\x00" + name
	if t, ok := tagOf[key]; ok {
		return t
	}
	tag := name
	if owner, taken := tagTaken[tag]; taken && owner != key {
		tag = dir[strings.LastIndex(dir, "/")+1:] + "_" + name
		for i := 2; ; i++ {
			if owner, taken := tagTaken[tag]; !taken || owner == key {
				break
			}
			tag = fmt.Sprintf("%s%d_%s", dir[strings.LastIndex(dir, "/")+1:], i, name)
		}
	}
	tagOf[key] = tag
	tagTaken[tag] = key
	return tag
}

type envVar struct {
	name string // coq name
	typ  string // coq type
}

// lctx is the loop a statement is being translated in.
type lctx struct {
	fix    string   // name of the Fixpoint
	lead   []string // leading arguments that never change (range source)
	state  []envVar // variables in scope at loop entry = the state the loop hands back
	post   []ast.Stmt
	rng    bool   // range loop: hidden index r_i advances by one
	depthE int    // len(t.env) right after the loop's own parameters
	lf     string // name of the structural budget inside the fix
	ri     string // hidden index of a range loop
	num    int
}

type pendCall struct{ tmp, e string }

type ftr struct {
	pi    *pkgInfo
	dir   string
	fn    string
	named []string // named results (coq local names)
	nres  int

	opt       bool     // result is option R, first parameter fuel : nat
	rtPlain   string   // R
	resKinds  []tkind  // kinds of the results
	resZero   string   // zero value of R
	env       []envVar // Coq variables in scope, in binding order
	names     map[types.Object]string
	used      map[string]bool
	loops     []*lctx
	nloops    int
	ntmp      int
	pending   []pendCall
	params    map[types.Object]bool // parameters (incl. receiver) of the function
	mutCallOK bool                  // set while a statement-level call of a mutating method is rendered
	mut       bool                  // receiver-mutating method: the final receiver is an extra (last) result
	recvName  string
	recvObj   types.Object // the receiver variable (nil for plain functions)
	allowMut  bool
	now       bool                          // reads the wall clock: extra parameter now : Z
	closures  map[types.Object]*ast.FuncLit // local result-less closures, inlined at their call statements
	ptrAlias  map[types.Object]bool         // locals defined as &<addressable path>: reads are fine, writes through them are refused
}

func (t *ftr) bad(n ast.Node, format string, a ...any) {
	pos := t.pi.fset.Position(n.Pos())
	broken("purefunc %s.%s: %s (at %s:%d)", t.dir, t.fn, fmt.Sprintf(format, a...), pos.Filename, pos.Line)
}

type tkind struct {
	k    string // "bool" "Z" "N" "struct" "list" "err"
	w    int    // width for ints
	name string // struct name
	elem *tkind // list element
	alen int64  // array length, -1 for slices and strings
	fn   string // Coq arrow type of a func-typed value
	key  *tkind // map key
}

var usesGoList bool

func isErrorType(ty types.Type) bool {
	n, ok := types.Unalias(ty).(*types.Named)
	return ok && n.Obj().Pkg() == nil && n.Obj().Name() == "error"
}

func kindOfType(ty types.Type) (tkind, bool) {
	if ty == nil {
		return tkind{}, false
	}
	if isErrorType(ty) {
		return tkind{k: "err"}, true
	}
	if p, ok := types.Unalias(ty).(*types.Pointer); ok {
		// *T for a struct T of the repository is read as the value it points to (assignment
		// through it is refused, a comparison with nil too)
		if n := namedOf(p); n != nil {
			if _, isStruct := n.Underlying().(*types.Struct); isStruct && !isTimeTime(n) && structPkgOK(n.Obj().Pkg()) {
				return kindOfType(p.Elem())
			}
		}
		return tkind{}, false
	}
	if sig, ok := types.Unalias(ty).Underlying().(*types.Signature); ok && sig.Recv() == nil && !sig.Variadic() {
		// a func-typed parameter (a callback): a Coq function argument; the theorems quantify over it
		var parts []string
		for i := 0; i < sig.Params().Len(); i++ {
			k, ok := kindOfType(sig.Params().At(i).Type())
			if !ok || k.k == "func" {
				return tkind{}, false
			}
			parts = append(parts, k.coq())
		}
		var res []string
		for i := 0; i < sig.Results().Len(); i++ {
			k, ok := kindOfType(sig.Results().At(i).Type())
			if !ok || k.k == "func" {
				return tkind{}, false
			}
			res = append(res, k.coq())
		}
		if len(res) == 0 || len(parts) == 0 {
			return tkind{}, false // a callback called for its effect only: outside the subset
		}
		r := res[0]
		if len(res) > 1 {
			r = "(" + strings.Join(res, " * ") + ")%type"
		}
		return tkind{k: "func", fn: "(" + strings.Join(parts, " -> ") + " -> " + r + ")"}, true
	}
	if _, ok := types.Unalias(ty).(*types.TypeParam); ok {
		// a value of a type parameter (V any): the code can only copy, zero and return it, so by
		// parametricity one instance stands for all — a number, whose zero value is 0
		return tkind{k: "N", w: 64}, true
	}
	if n, ok := types.Unalias(ty).(*types.Named); ok {
		if _, isIface := n.Underlying().(*types.Interface); isIface {
			if inf := lookupIface(n); inf != nil {
				return tkind{k: "iface", name: inf.tag}, true
			}
			return tkind{}, false
		}
	}
	if n, ok := ty.(*types.Named); ok {
		if isTimeTime(n) {
			// time.Time as an instant in ns on an ideal Z line; the zero Time is 0 and
			// every real instant is assumed non-zero (stated in the trusted base)
			return tkind{k: "Z", w: 64}, true
		}
		if _, ok := n.Underlying().(*types.Struct); ok {
			if !structPkgOK(n.Obj().Pkg()) {
				return tkind{}, false // sync.Mutex, atomic.Int64, netip.Addr, ...: outside the subset
			}
			return tkind{k: "struct", name: structTag(n)}, true
		}
	}
	if a, ok := ty.(*types.Alias); ok {
		return kindOfType(types.Unalias(a))
	}
	switch u := ty.Underlying().(type) {
	case *types.Map:
		// a map is an association list (first pair for a key counts, insertion keeps keys unique)
		kk, ok := kindOfType(u.Key())
		if !ok || kk.eqb() == "" {
			return tkind{}, false
		}
		var vk tkind
		if st, isSt := u.Elem().(*types.Struct); isSt && st.NumFields() == 0 {
			vk = tkind{k: "bool"} // map[K]struct{}: a set; the value carries nothing
		} else if vk, ok = kindOfType(u.Elem()); !ok || vk.k == "func" {
			return tkind{}, false
		}
		usesGoList = true
		return tkind{k: "map", elem: &vk, key: &kk}, true
	case *types.Slice:
		if ek, ok := kindOfType(u.Elem()); ok {
			usesGoList = true
			return tkind{k: "list", elem: &ek, alen: -1}, true
		}
		return tkind{}, false
	case *types.Array:
		if ek, ok := kindOfType(u.Elem()); ok {
			usesGoList = true
			return tkind{k: "list", elem: &ek, alen: u.Len()}, true
		}
		return tkind{}, false
	}
	b, ok := ty.Underlying().(*types.Basic)
	if !ok {
		return tkind{}, false
	}
	switch b.Kind() {
	case types.Bool, types.UntypedBool:
		return tkind{k: "bool"}, true
	case types.Int, types.Int64, types.UntypedInt, types.UntypedRune:
		return tkind{k: "Z", w: 64}, true
	case types.Int32:
		return tkind{k: "Z", w: 32}, true
	case types.Int16:
		return tkind{k: "Z", w: 16}, true
	case types.Int8:
		return tkind{k: "Z", w: 8}, true
	case types.Uint, types.Uint64, types.Uintptr:
		return tkind{k: "N", w: 64}, true
	case types.Uint32:
		return tkind{k: "N", w: 32}, true
	case types.Uint16:
		return tkind{k: "N", w: 16}, true
	case types.Uint8:
		return tkind{k: "N", w: 8}, true
	case types.String, types.UntypedString:
		usesGoList = true
		return tkind{k: "list", elem: &tkind{k: "N", w: 8}, alen: -1}, true
	}
	return tkind{}, false
}

func (k tkind) coq() string {
	switch k.k {
	case "bool", "err":
		return "bool"
	case "Z":
		return "Z"
	case "N":
		return "N"
	case "struct":
		return "T_" + k.name
	case "list":
		return "(list " + k.elem.coq() + ")"
	case "func":
		return k.fn
	case "iface":
		return "I_" + k.name
	case "map":
		return "(list (" + k.key.coq() + " * " + k.elem.coq() + "))"
	}
	return "?"
}

// eqb gives a boolean equality on values of kind k, "" if there is none.
func (k tkind) eqb() string {
	switch k.k {
	case "bool", "err":
		return "Bool.eqb"
	case "Z":
		return "Z.eqb"
	case "N":
		return "N.eqb"
	case "list":
		if e := k.elem.eqb(); e != "" {
			return "(go_list_eqb " + e + ")"
		}
	}
	return ""
}

func modOf(w int) string {
	switch w {
	case 8:
		return "two8"
	case 16:
		return "two16"
	case 32:
		return "two32"
	}
	return "two64"
}

func wrapOf(w int) string { return fmt.Sprintf("wrap%d", w) }

func (t *ftr) zeroK(k tkind, ty types.Type, at ast.Node) string {
	if k.k == "func" {
		t.bad(at, "a func-typed value has no zero value in the translation (only parameters may be functions)")
	}
	switch k.k {
	case "bool", "err":
		return "false"
	case "Z":
		return "(0)%Z"
	case "N":
		return "(0)%N"
	case "iface":
		return "I_" + k.name + "_nil"
	case "map":
		return "(@nil (" + k.key.coq() + " * " + k.elem.coq() + "))"
	case "list":
		if k.alen >= 0 {
			var ety types.Type
			if a, ok := ty.Underlying().(*types.Array); ok {
				ety = a.Elem()
			}
			return fmt.Sprintf("(go_make %s (%d)%%Z)", t.zeroK(*k.elem, ety, at), k.alen)
		}
		return "(@nil " + k.elem.coq() + ")"
	}
	st := derefStruct(ty).Underlying().(*types.Struct)
	t.ensureStruct(namedOf(ty), at)
	var parts []string
	for i := 0; i < st.NumFields(); i++ {
		if !fieldOK(st, i) {
			continue
		}
		parts = append(parts, t.zero(st.Field(i).Type(), at))
	}
	return "(mk_T_" + k.name + " " + strings.Join(parts, " ") + ")"
}

// fieldOK: the field is part of the emitted Record — its type is inside the subset and it does not
// close a cycle in the struct graph (a job that points at its burst that points back at the job: read as
// values such a pair would be infinite; the field that closes the cycle is left out, where it is first met).
func fieldOK(st *types.Struct, i int) bool {
	return keptFieldsOf(st)[i]
}

var (
	keptMemo = map[*types.Struct][]bool{}
	keptPath = map[*types.Struct]bool{}
)

// structUnder strips pointers, slices and arrays and returns the struct a value of ty is made of, if any.
func structUnder(ty types.Type) *types.Struct {
	for i := 0; i < 8; i++ {
		switch u := types.Unalias(ty).(type) {
		case *types.Pointer:
			ty = u.Elem()
			continue
		case *types.Slice:
			ty = u.Elem()
			continue
		case *types.Array:
			ty = u.Elem()
			continue
		case *types.Named:
			if isTimeTime(u) {
				return nil
			}
			switch uu := u.Underlying().(type) {
			case *types.Struct:
				return uu
			case *types.Slice:
				ty = uu.Elem()
				continue
			case *types.Array:
				ty = uu.Elem()
				continue
			}
			return nil
		}
		return nil
	}
	return nil
}

// mapFields (spec field "map_fields"): struct fields of map type are part of the emitted Records. Off by default
// so that Records generated before maps were translatable keep their shape.
var mapFields bool

func kindHasMap(k tkind) bool {
	if k.k == "map" {
		return true
	}
	if k.elem != nil && k.k == "list" {
		return kindHasMap(*k.elem)
	}
	return false
}

func keptFieldsOf(st *types.Struct) []bool {
	if m, ok := keptMemo[st]; ok {
		return m
	}
	keptPath[st] = true
	res := make([]bool, st.NumFields())
	for i := range res {
		f := st.Field(i)
		if f.Name() == "_" {
			continue
		}
		fk, ok := kindOfType(f.Type())
		if !ok {
			continue
		}
		if !mapFields && kindHasMap(fk) {
			continue // struct fields of map type enter the Records only under "map_fields": true
		}
		if inner := structUnder(f.Type()); inner != nil {
			if keptPath[inner] {
				continue // back edge
			}
			keptFieldsOf(inner)
		}
		res[i] = true
	}
	delete(keptPath, st)
	keptMemo[st] = res
	return res
}

func (t *ftr) zero(ty types.Type, at ast.Node) string {
	k, ok := kindOfType(ty)
	if !ok {
		t.bad(at, "unsupported type %s", ty)
	}
	return t.zeroK(k, ty, at)
}

func (t *ftr) ensureStruct(n *types.Named, at ast.Node) {
	key := dirOfPkg(n.Obj().Pkg()) + "." + n.Obj().Name()
	if emittedStructs[key] {
		return
	}
	emittedStructs[key] = true
	st := n.Underlying().(*types.Struct)
	var fs []string
	for i := 0; i < st.NumFields(); i++ {
		fk, ok := kindOfType(st.Field(i).Type())
		if !ok || !fieldOK(st, i) {
			// left out of the Record: a function that mentions the field is refused where it does
			continue
		}
		t.ensureKind(fk, st.Field(i).Type(), at)
		fs = append(fs, fmt.Sprintf("T_%s_%s : %s", structTag(n), st.Field(i).Name(), fk.coq()))
	}
	fmt.Fprintf(&out, "(* struct %s.%s *)\nRecord T_%s := mk_T_%s { %s }.\n\n", dirOfPkg(n.Obj().Pkg()), n.Obj().Name(), structTag(n), structTag(n), strings.Join(fs, "; "))
	structEmitted[key] = true
}

// structEmitted: the Record is written (not merely scheduled), so a zero constant may follow it.
var (
	structEmitted = map[string]bool{}
	zeroConst     = map[string]bool{}
)

// zeroName is zeroK, with a named constant standing in for a record's zero value
// (the default of go_idx, which would otherwise be spelled out at every index expression).
func (t *ftr) zeroName(k tkind, ty types.Type, at ast.Node) string {
	if k.k != "struct" {
		return t.zeroK(k, ty, at)
	}
	t.ensureKind(k, ty, at)
	name := "zero_T_" + k.name
	if !zeroConst[name] {
		zeroConst[name] = true
		fmt.Fprintf(&out, "Definition %s : T_%s := %s.\n\n", name, k.name, t.zeroK(k, ty, at))
	}
	return name
}

// ensureKind emits the record types a value of kind k mentions.
func (t *ftr) ensureKind(k tkind, ty types.Type, at ast.Node) {
	switch k.k {
	case "struct":
		t.ensureStruct(namedOf(ty), at)
	case "iface":
		if inf := ifaceOf(ty); inf != nil {
			t.ensureIface(inf, at)
		}
	case "map":
		ensureMapHelpers()
		if m, ok := types.Unalias(ty).Underlying().(*types.Map); ok {
			if _, isSt := m.Elem().(*types.Struct); !isSt {
				t.ensureKind(*k.elem, m.Elem(), at)
			}
		}
	case "list":
		switch u := types.Unalias(ty).Underlying().(type) {
		case *types.Slice:
			t.ensureKind(*k.elem, u.Elem(), at)
		case *types.Array:
			t.ensureKind(*k.elem, u.Elem(), at)
		}
	}
}

func (t *ftr) typeOf(e ast.Expr) types.Type {
	if tv, ok := t.pi.info.Types[e]; ok {
		return tv.Type
	}
	if id, ok := e.(*ast.Ident); ok {
		if o := t.pi.info.Uses[id]; o != nil {
			return o.Type()
		}
		if o := t.pi.info.Defs[id]; o != nil {
			return o.Type()
		}
	}
	return nil
}

func (t *ftr) kindOf(e ast.Expr) tkind {
	k, ok := kindOfType(t.typeOf(e))
	if !ok {
		t.bad(e, "expression of unsupported type %v", t.typeOf(e))
	}
	t.ensureKind(k, t.typeOf(e), e)
	return k
}

func namedOf(ty types.Type) *types.Named {
	ty = types.Unalias(ty)
	if p, ok := ty.(*types.Pointer); ok {
		ty = p.Elem()
	}
	n, _ := ty.(*types.Named)
	return n
}

func constLit(v constant.Value, k tkind) (string, bool) {
	switch k.k {
	case "bool":
		if v.Kind() == constant.Bool {
			if constant.BoolVal(v) {
				return "true", true
			}
			return "false", true
		}
	case "Z":
		iv := constant.ToInt(v)
		if iv.Kind() == constant.Int {
			return "(" + iv.ExactString() + ")%Z", true
		}
	case "N":
		iv := constant.ToInt(v)
		if iv.Kind() == constant.Int && constant.Sign(iv) >= 0 {
			return "(" + iv.ExactString() + ")%N", true
		}
	case "list":
		if v.Kind() == constant.String && k.elem.k == "N" {
			b := []byte(constant.StringVal(v))
			if len(b) == 0 {
				return "(@nil N)", true
			}
			var parts []string
			for _, c := range b {
				parts = append(parts, fmt.Sprintf("%d", c))
			}
			return "([" + strings.Join(parts, "; ") + "]%N)", true
		}
	}
	return "", false
}

// ------------------------------------------------------------ names and scope

func (t *ftr) nameOf(obj types.Object) string {
	if n, ok := t.names[obj]; ok {
		return n
	}
	base := "v_" + obj.Name()
	n := base
	for i := 2; t.used[n]; i++ {
		n = fmt.Sprintf("%s_%d", base, i)
	}
	t.used[n] = true
	t.names[obj] = n
	return n
}

func (t *ftr) objOf(id *ast.Ident) types.Object {
	if o := t.pi.info.Defs[id]; o != nil {
		return o
	}
	return t.pi.info.Uses[id]
}

func (t *ftr) push(name, typ string) { t.env = append(t.env, envVar{name, typ}) }

// bind registers name as bound (if it is not in scope yet) while rest is rendered.
func (t *ftr) bind(name, typ string, rest func() string) string {
	for _, v := range t.env {
		if v.name == name {
			return rest()
		}
	}
	t.env = append(t.env, envVar{name, typ})
	n := len(t.env)
	r := rest()
	t.env = t.env[:n-1]
	return r
}

func tupleOf(vs []envVar) string {
	if len(vs) == 0 {
		return "tt"
	}
	var ns []string
	for _, v := range vs {
		ns = append(ns, v.name)
	}
	if len(ns) == 1 {
		return ns[0]
	}
	return "(" + strings.Join(ns, ", ") + ")"
}

func tupleTypeOf(vs []envVar) string {
	if len(vs) == 0 {
		return "unit"
	}
	var ts []string
	for _, v := range vs {
		ts = append(ts, v.typ)
	}
	if len(ts) == 1 {
		return ts[0]
	}
	return "(" + strings.Join(ts, " * ") + ")%type"
}

func (t *ftr) cur() *lctx {
	if len(t.loops) == 0 {
		return nil
	}
	return t.loops[len(t.loops)-1]
}

// mkRet renders "the function returns r" in the current context.
func (t *ftr) mkRet(r string) string {
	if c := t.cur(); c != nil {
		return "(GoRet " + r + ", " + tupleOf(c.state) + ")"
	}
	if t.opt {
		return "(Some " + r + ")"
	}
	return r
}

// mkOof renders "the iteration budget ran out" in the current context.
func (t *ftr) mkOof() string {
	if c := t.cur(); c != nil {
		return "(GoOof, " + tupleOf(c.state) + ")"
	}
	if t.opt {
		return "None"
	}
	return t.resZero // only behind a range loop's budget S (length s): unreachable
}

func (t *ftr) takePending() []pendCall {
	p := t.pending
	t.pending = nil
	return p
}

func (t *ftr) wrapPending(p []pendCall, body string) string {
	for i := len(p) - 1; i >= 0; i-- {
		body = "(match " + p[i].e + " with\n  | Some " + p[i].tmp + " => " + body + "\n  | None => " + t.mkOof() + " end)"
	}
	return body
}

// ---------------------------------------------------------------- expressions

func (t *ftr) toN(e ast.Expr) string { // shift counts
	tv := t.pi.info.Types[e]
	if tv.Value != nil {
		if s, ok := constLit(tv.Value, tkind{k: "N"}); ok {
			return s
		}
	}
	k := t.kindOf(e)
	if k.k == "N" {
		return t.expr(e)
	}
	return "(Z.to_N " + t.expr(e) + ")"
}

// toZ renders an index / length expression as Z.
func (t *ftr) toZ(e ast.Expr) string {
	tv := t.pi.info.Types[e]
	if tv.Value != nil {
		if s, ok := constLit(tv.Value, tkind{k: "Z"}); ok {
			return s
		}
	}
	k := t.kindOf(e)
	switch k.k {
	case "Z":
		return t.expr(e)
	case "N":
		return "(Z.of_N " + t.expr(e) + ")"
	}
	t.bad(e, "index of kind %s", k.k)
	return ""
}

func (t *ftr) isRecvIdent(e ast.Expr) bool {
	id, ok := e.(*ast.Ident)
	return ok && t.recvObj != nil && t.objOf(id) == t.recvObj
}

func (t *ftr) isNil(e ast.Expr) bool {
	if tv, ok := t.pi.info.Types[e]; ok && tv.IsNil() {
		return true
	}
	if id, ok := e.(*ast.Ident); ok && id.Name == "nil" {
		_, isNil := t.pi.info.Uses[id].(*types.Nil)
		return isNil
	}
	return false
}

func (t *ftr) expr(e ast.Expr) string {
	if tv, ok := t.pi.info.Types[e]; ok && tv.Value != nil {
		k, ok := kindOfType(tv.Type)
		if ok {
			if s, ok := constLit(tv.Value, k); ok {
				return s
			}
		}
	}
	switch e := e.(type) {
	case *ast.ParenExpr:
		return t.expr(e.X)
	case *ast.Ident:
		switch e.Name {
		case "true", "false":
			return e.Name
		}
		obj := t.objOf(e)
		if v, ok := obj.(*types.Var); ok && v.Parent() != t.pi.pkg.Scope() && !v.IsField() {
			t.kindOf(e)
			return t.nameOf(v)
		}
		if v, ok := obj.(*types.Var); ok && isErrorType(v.Type()) {
			return "true" // a package-level error value: non-nil
		}
		if fn, ok := obj.(*types.Func); ok && fn.Pkg() == t.pi.pkg {
			// a function of the package handed on as a value (a callback argument): its translation
			if sig, ok := fn.Type().(*types.Signature); ok && sig.Recv() == nil {
				if needsFuel(t.pi, t.dir, fn.Name()) || needsNow(t.pi, t.dir, fn.Name()) {
					t.bad(e, "function %s used as a value needs an iteration budget or the clock", e.Name)
				}
				return ensureFunc(t.pi, t.dir, fn.Name(), e)
			}
		}
		t.bad(e, "identifier %s is not a local variable or constant", e.Name)
	case *ast.UnaryExpr:
		if e.Op == token.AND {
			// &x for a struct value: pointers to repository structs are read as values
			if k := t.kindOf(e.X); k.k == "struct" {
				return t.expr(e.X)
			}
			t.bad(e, "address-of")
		}
		k := t.kindOf(e)
		x := t.expr(e.X)
		switch e.Op {
		case token.NOT:
			return "(negb " + x + ")"
		case token.ADD:
			return x
		case token.SUB:
			if k.k == "Z" {
				return "(Z.opp " + x + ")"
			}
			return "(subw " + modOf(k.w) + " (0)%N " + x + ")"
		case token.XOR:
			if k.k == "Z" {
				return "(Z.lnot " + x + ")"
			}
			return "(notw " + modOf(k.w) + " " + x + ")"
		}
		t.bad(e, "unary operator %s", e.Op)
	case *ast.BinaryExpr:
		return t.binary(e)
	case *ast.IndexExpr:
		bk := t.kindOf(e.X)
		if bk.k == "map" {
			return t.mapIndex(e, bk)
		}
		if bk.k != "list" {
			t.bad(e, "index into a non-list")
		}
		var ety types.Type
		switch u := types.Unalias(t.typeOf(e.X)).Underlying().(type) {
		case *types.Slice:
			ety = u.Elem()
		case *types.Array:
			ety = u.Elem()
		}
		return "(go_idx " + t.zeroName(*bk.elem, ety, e) + " " + t.expr(e.X) + " " + t.toZ(e.Index) + ")"
	case *ast.SliceExpr:
		if e.Slice3 {
			t.bad(e, "three-index slice")
		}
		bk := t.kindOf(e.X)
		if bk.k != "list" {
			t.bad(e, "slice of a non-list")
		}
		x := t.expr(e.X)
		switch {
		case e.Low == nil && e.High == nil:
			return x
		case e.High == nil:
			return "(go_slice_from " + x + " " + t.toZ(e.Low) + ")"
		case e.Low == nil:
			return "(go_slice_to " + x + " " + t.toZ(e.High) + ")"
		}
		return "(go_slice " + x + " " + t.toZ(e.Low) + " " + t.toZ(e.High) + ")"
	case *ast.SelectorExpr:
		e = t.desugarPromoted(e)
		// struct field
		if sel := namedOf(t.typeOf(e.X)); sel != nil {
			if _, ok := sel.Underlying().(*types.Struct); ok && structPkgOK(sel.Obj().Pkg()) {
				if _, isField := t.pi.info.Uses[e.Sel].(*types.Var); isField {
					st := sel.Underlying().(*types.Struct)
					for i := 0; i < st.NumFields(); i++ {
						if st.Field(i).Name() == e.Sel.Name && !fieldOK(st, i) {
							t.bad(e, "field %s of %s is left out of the translated Record (its type is outside the subset or it closes a cycle between structs)", e.Sel.Name, sel.Obj().Name())
						}
					}
					t.ensureStruct(sel, e)
					t.kindOf(e)
					return "(T_" + structTag(sel) + "_" + e.Sel.Name + " " + t.expr(e.X) + ")"
				}
			}
		}
		if v, ok := t.pi.info.Uses[e.Sel].(*types.Var); ok && isErrorType(v.Type()) && !v.IsField() {
			return "true" // pkg.ErrSomething
		}
		t.bad(e, "selector %s", e.Sel.Name)
	case *ast.StarExpr:
		// *p where p is a pointer to a translatable struct: the value itself
		if n := namedOf(t.typeOf(e.X)); n != nil {
			if _, ok := t.typeOf(e.X).(*types.Pointer); ok {
				return t.expr(e.X)
			}
		}
		t.bad(e, "pointer dereference")
	case *ast.CompositeLit:
		return t.composite(e)
	case *ast.CallExpr:
		return t.call(e)
	case *ast.TypeAssertExpr:
		return t.typeAssert(e)
	}
	t.bad(e, "unsupported expression %T", e)
	return ""
}

func (t *ftr) composite(e *ast.CompositeLit) string {
	ty := t.typeOf(e)
	if k, ok := kindOfType(ty); ok && k.k == "map" {
		t.ensureKind(k, ty, e)
		acc := t.zeroK(k, nil, e)
		for _, el := range e.Elts {
			kv, ok := el.(*ast.KeyValueExpr)
			if !ok {
				t.bad(e, "map literal element")
			}
			val := "true"
			if _, isSt := types.Unalias(ty).Underlying().(*types.Map).Elem().(*types.Struct); !isSt {
				val = t.exprAs(kv.Value, *k.elem)
			}
			acc = "(go_map_set " + k.key.eqb() + " " + acc + " " + t.exprAs(kv.Key, *k.key) + " " + val + ")"
		}
		return acc
	}
	if k, ok := kindOfType(ty); ok && k.k == "list" {
		var ety types.Type
		switch u := types.Unalias(ty).Underlying().(type) {
		case *types.Slice:
			ety = u.Elem()
		case *types.Array:
			ety = u.Elem()
		}
		t.ensureKind(k, ty, e)
		var parts []string
		for _, el := range e.Elts {
			if _, ok := el.(*ast.KeyValueExpr); ok {
				t.bad(e, "keyed element in a slice/array literal")
			}
			parts = append(parts, t.exprAs(el, *k.elem))
		}
		lit := "(@nil " + k.elem.coq() + ")"
		if len(parts) > 0 {
			lit = "[" + strings.Join(parts, "; ") + "]"
		}
		if k.alen >= 0 && int64(len(parts)) < k.alen {
			return fmt.Sprintf("(%s ++ go_make %s (%d)%%Z)", lit, t.zeroK(*k.elem, ety, e), k.alen-int64(len(parts)))
		}
		return lit
	}
	n := namedOf(ty)
	if isTimeTime(n) && len(e.Elts) == 0 {
		return "(0)%Z"
	}
	if n == nil {
		t.bad(e, "composite literal of unsupported type")
	}
	st, ok := n.Underlying().(*types.Struct)
	if !ok || !structPkgOK(n.Obj().Pkg()) {
		t.bad(e, "composite literal of a type outside the repository")
	}
	t.ensureStruct(n, e)
	vals := make([]string, st.NumFields())
	for i := range vals {
		if fieldOK(st, i) {
			vals[i] = t.zero(st.Field(i).Type(), e)
		}
	}
	for i, el := range e.Elts {
		if kv, ok := el.(*ast.KeyValueExpr); ok {
			name := kv.Key.(*ast.Ident).Name
			found := false
			for j := 0; j < st.NumFields(); j++ {
				if st.Field(j).Name() == name {
					fk, ok := kindOfType(st.Field(j).Type())
					if !ok {
						t.bad(e, "field %s has a type outside the subset", name)
					}
					vals[j] = t.exprAs(kv.Value, fk)
					found = true
				}
			}
			if !found {
				t.bad(e, "unknown field %s", name)
			}
		} else {
			fk, ok := kindOfType(st.Field(i).Type())
			if !ok {
				t.bad(e, "field %s has a type outside the subset", st.Field(i).Name())
			}
			vals[i] = t.exprAs(el, fk)
		}
	}
	var kept []string
	for i, v := range vals {
		if fieldOK(st, i) {
			kept = append(kept, v)
		}
	}
	return "(mk_T_" + structTag(n) + " " + strings.Join(kept, " ") + ")"
}

func (t *ftr) binary(e *ast.BinaryExpr) string {
	switch e.Op {
	case token.LAND:
		return "(andb " + t.expr(e.X) + " " + t.expr(e.Y) + ")"
	case token.LOR:
		return "(orb " + t.expr(e.X) + " " + t.expr(e.Y) + ")"
	case token.SHL, token.SHR:
		k := t.kindOf(e)
		x := t.expr(e.X)
		c := t.toN(e.Y)
		if k.k == "N" {
			if e.Op == token.SHL {
				return "(" + wrapOf(k.w) + " (N.shiftl " + x + " " + c + "))"
			}
			return "(N.shiftr " + x + " " + c + ")"
		}
		if e.Op == token.SHL {
			return "(Z.shiftl " + x + " (Z.of_N " + c + "))"
		}
		return "(Z.shiftr " + x + " (Z.of_N " + c + "))"
	case token.EQL, token.NEQ, token.LSS, token.LEQ, token.GTR, token.GEQ:
		// comparison with nil: errors (non-nil flag) and slices (nil = empty)
		if t.isNil(e.X) || t.isNil(e.Y) {
			o := e.X
			if t.isNil(e.X) {
				o = e.Y
			}
			ok := t.kindOf(o)
			var isnil string
			_, isPtr := types.Unalias(t.typeOf(o)).(*types.Pointer)
			switch {
			case ok.k == "err":
				isnil = "(negb " + t.expr(o) + ")"
			case ok.k == "list":
				isnil = "(Z.eqb (go_len " + t.expr(o) + ") (0)%Z)"
			case ok.k == "iface":
				isnil = "(match " + t.expr(o) + " with I_" + ok.name + "_nil => true | _ => false end)"
			case ok.k == "map":
				isnil = "(match " + t.expr(o) + " with nil => true | _ => false end)"
			case ok.k == "struct" && isPtr && (assumeNonNil || t.isRecvIdent(o)):
				// the receiver of a translated method is the value it points to, hence non-nil
				isnil = "false"
			default:
				t.bad(e, "comparison of a %s value with nil", ok.k)
			}
			if e.Op == token.EQL {
				return isnil
			}
			if e.Op == token.NEQ {
				return "(negb " + isnil + ")"
			}
			t.bad(e, "ordering against nil")
		}
		// operand kind: take from whichever side is typed
		k := t.kindOf(e.X)
		if tv := t.pi.info.Types[e.X]; tv.Value != nil {
			k = t.kindOf(e.Y)
		}
		x, y := t.exprAs(e.X, k), t.exprAs(e.Y, k)
		var m string
		switch k.k {
		case "Z":
			m = "Z"
		case "N":
			m = "N"
		case "bool":
			if e.Op == token.EQL {
				return "(Bool.eqb " + x + " " + y + ")"
			}
			if e.Op == token.NEQ {
				return "(negb (Bool.eqb " + x + " " + y + "))"
			}
			t.bad(e, "ordering on bool")
		case "list":
			eq := k.eqb()
			if eq == "" || k.alen >= 0 && false {
				t.bad(e, "comparison of lists without decidable element equality")
			}
			if e.Op == token.EQL {
				return "(" + eq + " " + x + " " + y + ")"
			}
			if e.Op == token.NEQ {
				return "(negb (" + eq + " " + x + " " + y + "))"
			}
			t.bad(e, "ordering on strings")
		default:
			t.bad(e, "comparison of %s values", k.k)
		}
		switch e.Op {
		case token.EQL:
			return "(" + m + ".eqb " + x + " " + y + ")"
		case token.NEQ:
			return "(negb (" + m + ".eqb " + x + " " + y + "))"
		case token.LSS:
			return "(" + m + ".ltb " + x + " " + y + ")"
		case token.LEQ:
			return "(" + m + ".leb " + x + " " + y + ")"
		case token.GTR:
			return "(" + m + ".ltb " + y + " " + x + ")"
		case token.GEQ:
			return "(" + m + ".leb " + y + " " + x + ")"
		}
	}
	k := t.kindOf(e)
	x, y := t.exprAs(e.X, k), t.exprAs(e.Y, k)
	if k.k == "list" && e.Op == token.ADD {
		return "(" + x + " ++ " + y + ")"
	}
	if k.k == "Z" {
		op := map[token.Token]string{token.ADD: "Z.add", token.SUB: "Z.sub", token.MUL: "Z.mul", token.QUO: "Z.quot",
			token.REM: "Z.rem", token.AND: "Z.land", token.OR: "Z.lor", token.XOR: "Z.lxor", token.AND_NOT: "Z.ldiff"}[e.Op]
		if op == "" {
			t.bad(e, "operator %s", e.Op)
		}
		return "(" + op + " " + x + " " + y + ")"
	}
	if k.k == "N" {
		switch e.Op {
		case token.ADD:
			return "(" + wrapOf(k.w) + " (N.add " + x + " " + y + "))"
		case token.SUB:
			return "(subw " + modOf(k.w) + " " + x + " " + y + ")"
		case token.MUL:
			return "(" + wrapOf(k.w) + " (N.mul " + x + " " + y + "))"
		case token.QUO:
			return "(N.div " + x + " " + y + ")"
		case token.REM:
			return "(N.modulo " + x + " " + y + ")"
		case token.AND:
			return "(N.land " + x + " " + y + ")"
		case token.OR:
			return "(N.lor " + x + " " + y + ")"
		case token.XOR:
			return "(N.lxor " + x + " " + y + ")"
		case token.AND_NOT:
			return "(N.ldiff " + x + " " + y + ")"
		}
	}
	t.bad(e, "operator %s on %s", e.Op, k.k)
	return ""
}

// exprAs renders e, forcing constant operands, nil and foreign error values into kind k.
func (t *ftr) exprAs(e ast.Expr, k tkind) string {
	if tv, ok := t.pi.info.Types[e]; ok && tv.Value != nil {
		if s, ok := constLit(tv.Value, k); ok {
			return s
		}
	}
	if k.k == "iface" {
		for _, inf := range ifaceMemo {
			if inf.tag == k.name {
				if v, ok := t.ifaceInject(e, inf); ok {
					return v
				}
			}
		}
		return t.expr(e)
	}
	if t.isNil(e) {
		switch k.k {
		case "err":
			return "false"
		case "list":
			return "(@nil " + k.elem.coq() + ")"
		case "map":
			return t.zeroK(k, nil, e)
		}
		t.bad(e, "nil where a %s is expected", k.k)
	}
	if k.k == "err" {
		if p, ok := e.(*ast.ParenExpr); ok {
			return t.exprAs(p.X, k)
		}
		// an error made by a function outside the repository (errors.New, fmt.Errorf, ...): non-nil
		if c, ok := e.(*ast.CallExpr); ok && !t.repoCallee(c) {
			if tv, ok := t.pi.info.Types[c.Fun]; !ok || !tv.IsType() {
				return "true"
			}
		}
	}
	return t.expr(e)
}

// repoCallee reports whether the call's callee is a function or method declared in the repository.
func (t *ftr) repoCallee(e *ast.CallExpr) bool {
	var id *ast.Ident
	switch f := e.Fun.(type) {
	case *ast.Ident:
		id = f
	case *ast.SelectorExpr:
		id = f.Sel
	default:
		return false
	}
	fn, ok := t.pi.info.Uses[id].(*types.Func)
	return ok && fn.Pkg() != nil && (fn.Pkg() == t.pi.pkg || calleePkgOK(fn.Pkg()))
}

func (t *ftr) conv(target types.Type, arg ast.Expr, at ast.Node) string {
	tk, ok := kindOfType(target)
	if !ok {
		t.bad(at, "conversion to unsupported type %s", target)
	}
	if t.isNil(arg) {
		return t.exprAs(arg, tk)
	}
	sk := t.kindOf(arg)
	x := t.expr(arg)
	switch {
	case tk.k == "bool" && sk.k == "bool":
		return x
	case tk.k == "list" && sk.k == "list":
		if tk.elem.k == sk.elem.k && tk.elem.w == sk.elem.w {
			return x // string <-> []byte, named slice types
		}
		t.bad(at, "conversion between lists of different element types")
	case tk.k == "N" && sk.k == "N":
		if tk.w >= sk.w {
			return x
		}
		return "(" + wrapOf(tk.w) + " " + x + ")"
	case tk.k == "N" && sk.k == "Z":
		return "(Z_to_uw " + modOf(tk.w) + " " + x + ")"
	case tk.k == "Z" && sk.k == "N":
		if tk.w > sk.w {
			return "(Z.of_N " + x + ")"
		}
		if tk.w == 64 {
			return "(N_to_s64 " + x + ")"
		}
		t.bad(at, "narrowing unsigned->signed conversion")
	case tk.k == "Z" && sk.k == "Z":
		return x
	}
	t.bad(at, "conversion %s -> %s", sk.k, tk.k)
	return ""
}

// stdFunc recognises the handful of standard-library functions the translator knows.
func (t *ftr) stdFunc(e *ast.CallExpr) (string, bool) {
	sel, ok := e.Fun.(*ast.SelectorExpr)
	if !ok {
		return "", false
	}
	fn, ok := t.pi.info.Uses[sel.Sel].(*types.Func)
	if !ok || fn.Pkg() == nil {
		return "", false
	}
	full := fn.FullName()
	arg := func(i int) string { return t.expr(e.Args[i]) }
	be := map[string]string{"Uint16": "16", "Uint32": "32", "Uint64": "64"}
	switch {
	case full == "time.Now" || full == "time.Since" || full == "time.Until":
		if !t.now {
			t.bad(e, "%s: the clock is a parameter of whole-function translations only (purefunc), not of loopfunc items", full)
		}
		switch full {
		case "time.Now":
			return "now", true
		case "time.Since":
			return "(Z.sub now " + arg(0) + ")", true
		}
		return "(Z.sub " + arg(0) + " now)", true
	case full == "time.Unix" && len(e.Args) == 2:
		// an instant from seconds and nanoseconds since the epoch, on the ideal ns line
		return "(Z.add (Z.mul " + t.exprAs(e.Args[0], tkind{k: "Z", w: 64}) + " (1000000000)%Z) " + t.exprAs(e.Args[1], tkind{k: "Z", w: 64}) + ")", true
	case strings.HasPrefix(full, "(encoding/binary.bigEndian).") || strings.HasPrefix(full, "(encoding/binary.littleEndian)."):
		usesGoList = true
		pre := "go_be"
		if strings.Contains(full, "littleEndian") {
			pre = "go_le"
		}
		name := fn.Name()
		if w, ok := be[name]; ok {
			if pre == "go_le" && w == "64" {
				return "", false
			}
			return "(" + pre + w + " " + arg(0) + ")", true
		}
		if w, ok := be[strings.TrimPrefix(name, "Append")]; ok && strings.HasPrefix(name, "Append") && pre == "go_be" {
			return "(" + arg(0) + " ++ go_put_be" + w + " " + t.exprAs(e.Args[1], tkind{k: "N", w: 64}) + ")", true
		}
	case full == "bytes.Compare" || full == "strings.Compare":
		ensureCompareHelper()
		return "(go_bytes_compare " + t.exprAs(e.Args[0], byteList) + " " + t.exprAs(e.Args[1], byteList) + ")", true
	case full == "bytes.Equal":
		usesGoList = true
		return "(go_list_eqb N.eqb " + t.exprAs(e.Args[0], byteList) + " " + t.exprAs(e.Args[1], byteList) + ")", true
	case full == "strings.HasPrefix" || full == "bytes.HasPrefix":
		return "(go_has_prefix N.eqb " + t.exprAs(e.Args[0], byteList) + " " + t.exprAs(e.Args[1], byteList) + ")", true
	case full == "strings.HasSuffix" || full == "bytes.HasSuffix":
		return "(go_has_suffix N.eqb " + t.exprAs(e.Args[0], byteList) + " " + t.exprAs(e.Args[1], byteList) + ")", true
	case full == "strings.IndexByte" || full == "bytes.IndexByte":
		usesGoList = true
		return "(go_index_byte " + t.exprAs(e.Args[0], byteList) + " " + t.exprAs(e.Args[1], tkind{k: "N", w: 8}) + ")", true
	case full == "strings.LastIndexByte" || full == "bytes.LastIndexByte":
		usesGoList = true
		return "(go_last_index_byte " + t.exprAs(e.Args[0], byteList) + " " + t.exprAs(e.Args[1], tkind{k: "N", w: 8}) + ")", true
	case full == "strings.Contains" || full == "bytes.Contains":
		usesGoList = true
		return "(go_contains " + t.exprAs(e.Args[0], byteList) + " " + t.exprAs(e.Args[1], byteList) + ")", true
	case full == "strings.TrimPrefix" || full == "bytes.TrimPrefix":
		usesGoList = true
		return "(go_trim_prefix " + t.exprAs(e.Args[0], byteList) + " " + t.exprAs(e.Args[1], byteList) + ")", true
	case full == "strings.TrimSuffix" || full == "bytes.TrimSuffix":
		usesGoList = true
		return "(go_trim_suffix " + t.exprAs(e.Args[0], byteList) + " " + t.exprAs(e.Args[1], byteList) + ")", true
	case full == "github.com/miekg/dns.CanonicalName" && asciiStrings:
		// strings.Map over an ASCII-only letter mapping of dns.Fqdn(s): on ASCII input, GoList's model
		usesGoList = true
		return "(go_canonical_name_ascii " + t.exprAs(e.Args[0], byteList) + ")", true
	case full == "github.com/miekg/dns.IsFqdn" && asciiStrings:
		usesGoList = true
		return "(go_is_fqdn_ascii " + t.exprAs(e.Args[0], byteList) + ")", true
	case full == "github.com/miekg/dns.Fqdn" && asciiStrings:
		usesGoList = true
		return "(go_fqdn_ascii " + t.exprAs(e.Args[0], byteList) + ")", true
	case (full == "strings.IndexFunc" || full == "bytes.IndexFunc") && asciiStrings && len(e.Args) == 2:
		// only the one use the repository has: the first white-space octet (unicode.IsSpace on ASCII)
		if sel2, ok := e.Args[1].(*ast.SelectorExpr); ok {
			if f2, ok := t.pi.info.Uses[sel2.Sel].(*types.Func); ok && f2.FullName() == "unicode.IsSpace" {
				usesGoList = true
				return "(go_index_space_ascii " + t.exprAs(e.Args[0], byteList) + ")", true
			}
		}
		return "", false
	case (full == "strings.ToLower" || full == "bytes.ToLower") && asciiStrings:
		usesGoList = true
		return "(go_ascii_lower " + t.exprAs(e.Args[0], byteList) + ")", true
	case (full == "strings.EqualFold" || full == "bytes.EqualFold") && asciiStrings:
		usesGoList = true
		return "(go_equal_fold_ascii " + t.exprAs(e.Args[0], byteList) + " " + t.exprAs(e.Args[1], byteList) + ")", true
	}
	return "", false
}

var byteList = tkind{k: "list", elem: &tkind{k: "N", w: 8}, alen: -1}

func (t *ftr) call(e *ast.CallExpr) string {
	// conversion?
	if tv, ok := t.pi.info.Types[e.Fun]; ok && tv.IsType() {
		if len(e.Args) != 1 {
			t.bad(e, "conversion arity")
		}
		return t.conv(tv.Type, e.Args[0], e)
	}
	if s, ok := t.stdFunc(e); ok {
		return s
	}
	switch f := e.Fun.(type) {
	case *ast.Ident:
		if _, isBuiltin := t.pi.info.Uses[f].(*types.Builtin); isBuiltin {
			switch f.Name {
			case "min", "max":
				k := t.kindOf(e)
				acc := t.exprAs(e.Args[0], k)
				for _, a := range e.Args[1:] {
					acc = "(" + k.k + "." + f.Name + " " + acc + " " + t.exprAs(a, k) + ")"
				}
				return acc
			case "len":
				if t.kindOf(e.Args[0]).k == "map" {
					return "(Z.of_nat (length " + t.expr(e.Args[0]) + "))"
				}
				if t.kindOf(e.Args[0]).k != "list" {
					t.bad(e, "len of a non-list")
				}
				return "(go_len " + t.expr(e.Args[0]) + ")"
			case "append":
				k := t.kindOf(e)
				acc := t.exprAs(e.Args[0], k)
				if e.Ellipsis.IsValid() {
					if len(e.Args) != 2 {
						t.bad(e, "append shape")
					}
					return "(" + acc + " ++ " + t.exprAs(e.Args[1], k) + ")"
				}
				var parts []string
				for _, a := range e.Args[1:] {
					parts = append(parts, t.exprAs(a, *k.elem))
				}
				if len(parts) == 0 {
					return acc
				}
				return "(" + acc + " ++ [" + strings.Join(parts, "; ") + "])"
			case "make":
				k := t.kindOf(e)
				if k.k == "map" {
					return t.zeroK(k, nil, e)
				}
				if k.k != "list" {
					t.bad(e, "make of a non-slice")
				}
				if len(e.Args) < 2 {
					t.bad(e, "make without a length")
				}
				var ety types.Type
				if sl, ok := types.Unalias(t.typeOf(e)).Underlying().(*types.Slice); ok {
					ety = sl.Elem()
				}
				return "(go_make " + t.zeroK(*k.elem, ety, e) + " " + t.toZ(e.Args[1]) + ")"
			}
			t.bad(e, "builtin %s", f.Name)
		}
		if fn, ok := t.pi.info.Uses[f].(*types.Func); ok && fn.Pkg() == t.pi.pkg {
			return t.apply(t.pi, t.dir, f.Name, nil, e)
		}
		if v, ok := t.pi.info.Uses[f].(*types.Var); ok && v.Parent() != t.pi.pkg.Scope() {
			if k, ok := kindOfType(v.Type()); ok && k.k == "func" {
				sig := types.Unalias(v.Type()).Underlying().(*types.Signature)
				parts := []string{t.nameOf(v)}
				for i, a := range e.Args {
					ak, _ := kindOfType(sig.Params().At(i).Type())
					parts = append(parts, t.exprAs(a, ak))
				}
				return "(" + strings.Join(parts, " ") + ")"
			}
		}
	case *ast.SelectorExpr:
		if inf := ifaceOf(t.typeOf(f.X)); inf != nil {
			if _, isMethod := t.pi.info.Uses[f.Sel].(*types.Func); isMethod {
				t.ensureIface(inf, e)
				if f.Sel.Name == "Header" && inf.hdr != nil && len(e.Args) == 0 {
					return "(I_" + inf.tag + "_Header " + t.expr(f.X) + ")"
				}
				t.bad(e, "method %s called on a value of interface %s (only Header() of a record-like interface is translated)", f.Sel.Name, inf.key)
			}
		}
		if n := namedOf(t.typeOf(f.X)); isTimeTime(n) {
			x := t.expr(f.X)
			arg := func(i int) string { return t.expr(e.Args[i]) }
			switch f.Sel.Name {
			case "IsZero":
				return "(Z.eqb " + x + " (0)%Z)"
			case "Before":
				return "(Z.ltb " + x + " " + arg(0) + ")"
			case "After":
				return "(Z.ltb " + arg(0) + " " + x + ")"
			case "Equal":
				return "(Z.eqb " + x + " " + arg(0) + ")"
			case "Add":
				return "(Z.add " + x + " " + arg(0) + ")"
			case "Sub":
				return "(Z.sub " + x + " " + arg(0) + ")"
			case "Compare":
				return "(match Z.compare " + x + " " + arg(0) + " with Lt => (-1)%Z | Eq => (0)%Z | Gt => (1)%Z end)"
			case "UnixNano":
				return x
			case "Unix":
				return "(Z.div " + x + " (1000000000)%Z)"
			}
			t.bad(e, "time.Time method %s", f.Sel.Name)
		}
		if n := namedOf(t.typeOf(f.X)); n != nil && calleePkgOK(n.Obj().Pkg()) {
			if _, ok := t.pi.info.Uses[f.Sel].(*types.Func); ok {
				d := dirOfPkg(n.Obj().Pkg())
				pi := t.pi
				if d != t.dir {
					pi = loadPkg(d)
				}
				return t.apply(pi, d, n.Obj().Name()+"."+f.Sel.Name, f.X, e)
			}
		}
		// function of another package of the repository: pkg.Func(args)
		if id, ok := f.X.(*ast.Ident); ok {
			if pn, ok := t.pi.info.Uses[id].(*types.PkgName); ok && calleePkgOK(pn.Imported()) {
				if _, ok := t.pi.info.Uses[f.Sel].(*types.Func); ok {
					d := dirOfPkg(pn.Imported())
					return t.apply(loadPkg(d), d, f.Sel.Name, nil, e)
				}
			}
		}
	}
	t.bad(e, "call of a function outside the translatable set")
	return ""
}

// apply renders a call of the translatable function dir.fn. A callee that needs an
// iteration budget returns an option: the call is hoisted in front of the statement
// (takePending / wrapPending) and its place is taken by the bound result.
func (t *ftr) apply(pi *pkgInfo, dir, fn string, recv ast.Expr, e *ast.CallExpr) string {
	if recv != nil && isMutator(pi, dir, fn) && !t.mutCallOK {
		t.bad(e, "call of the receiver-mutating method %s inside an expression (only `x.M(…)` as a statement or as the whole right-hand side of an assignment is translated)", fn)
	}
	name := ensureFunc(pi, dir, fn, e)
	parts := []string{name}
	calleeOpt := optFuncs[dir+"."+fn]
	if calleeOpt {
		if !t.opt {
			t.bad(e, "internal: callee needs fuel but caller was not classified so")
		}
		parts = append(parts, "fuel")
	}
	if nowFuncs[dir+"."+fn] {
		if !t.now {
			t.bad(e, "internal: callee reads the clock but caller was not classified so")
		}
		parts = append(parts, "now")
	}
	if recv != nil {
		parts = append(parts, t.expr(recv))
	}
	sig, _ := t.typeOf(e.Fun).(*types.Signature)
	for i, a := range e.Args {
		if sig != nil && i < sig.Params().Len() {
			if k, ok := kindOfType(sig.Params().At(i).Type()); ok {
				parts = append(parts, t.exprAs(a, k))
				continue
			}
		}
		parts = append(parts, t.expr(a))
	}
	c := "(" + strings.Join(parts, " ") + ")"
	if !calleeOpt {
		return c
	}
	t.ntmp++
	tmp := fmt.Sprintf("c_%d", t.ntmp)
	t.pending = append(t.pending, pendCall{tmp, c})
	return tmp
}

// ------------------------------------------------------------- statements

func rootIdent(e ast.Expr) *ast.Ident {
	for {
		switch x := e.(type) {
		case *ast.Ident:
			return x
		case *ast.ParenExpr:
			e = x.X
		case *ast.SelectorExpr:
			e = x.X
		case *ast.IndexExpr:
			e = x.X
		case *ast.SliceExpr:
			e = x.X
		case *ast.StarExpr:
			e = x.X
		default:
			return nil
		}
	}
}

// refuseCallerVisible refuses a mutation the caller of the Go function would see.
func (t *ftr) refuseCallerVisible(lhs ast.Expr, base *ast.Ident, what string) {
	if t.allowMut {
		return
	}
	obj := t.objOf(base)
	if !t.params[obj] {
		return
	}
	ty := types.Unalias(obj.Type())
	_, isPtr := ty.(*types.Pointer)
	_, isSlice := ty.Underlying().(*types.Slice)
	if _, isMap := ty.Underlying().(*types.Map); isMap && what == "element" {
		isSlice = true
	}
	if isPtr || (isSlice && what == "element") {
		t.bad(lhs, "assignment to %s of parameter %s is visible to the caller and cannot be shown by a pure translation (set \"allow_param_mutation\": true on the item if the caller-visible effect is irrelevant)", what, base.Name)
	}
}

func (t *ftr) letIn(name, typ, val string, rest func() string) string {
	return t.bind(name, typ, func() string { return "(let " + name + " := " + val + " in\n  " + rest() + ")" })
}

func (t *ftr) assignTo(lhs ast.Expr, val string, rest func() string) string {
	switch l := lhs.(type) {
	case *ast.ParenExpr:
		return t.assignTo(l.X, val, rest)
	case *ast.Ident:
		if l.Name == "_" {
			return rest()
		}
		obj := t.objOf(l)
		k, ok := kindOfType(obj.Type())
		if !ok {
			t.bad(lhs, "variable %s has unsupported type %s", l.Name, obj.Type())
		}
		t.ensureKind(k, obj.Type(), lhs)
		return t.letIn(t.nameOf(obj), k.coq(), val, rest)
	case *ast.SelectorExpr, *ast.IndexExpr:
		base := rootIdent(lhs)
		if base == nil {
			t.bad(lhs, "unsupported assignment target")
		}
		what := "field"
		if _, ok := lhs.(*ast.IndexExpr); ok {
			what = "element"
		}
		if t.ptrAlias[t.objOf(base)] {
			t.bad(lhs, "assignment through %s, a pointer taken with & to an element or field of another variable: the translation reads pointers as values and could not show the write in the variable pointed into", base.Name)
		}
		t.refuseCallerVisible(lhs, base, what)
		obj := t.objOf(base)
		bk, ok := kindOfType(derefStruct(obj.Type()))
		if !ok {
			t.bad(lhs, "variable %s has unsupported type", base.Name)
		}
		return t.letIn(t.nameOf(obj), bk.coq(), t.lvalUpdate(lhs, val), rest)
	}
	t.bad(lhs, "unsupported assignment target")
	return ""
}

func derefStruct(ty types.Type) types.Type {
	if p, ok := types.Unalias(ty).(*types.Pointer); ok {
		return p.Elem()
	}
	return ty
}

// lvalUpdate gives the new value of the variable at the root of lhs after `lhs = val`.
func (t *ftr) lvalUpdate(lhs ast.Expr, val string) string {
	switch l := lhs.(type) {
	case *ast.ParenExpr:
		return t.lvalUpdate(l.X, val)
	case *ast.Ident:
		return val
	case *ast.StarExpr:
		return t.lvalUpdate(l.X, val)
	case *ast.SelectorExpr:
		l = t.desugarPromoted(l)
		n := namedOf(t.typeOf(l.X))
		if n != nil {
			if st, ok := n.Underlying().(*types.Struct); ok && structPkgOK(n.Obj().Pkg()) {
				t.ensureStruct(n, lhs)
				x := t.expr(l.X)
				var parts []string
				found := false
				for i := 0; i < st.NumFields(); i++ {
					if !fieldOK(st, i) {
						continue
					}
					if st.Field(i).Name() == l.Sel.Name {
						parts = append(parts, val)
						found = true
					} else {
						parts = append(parts, "(T_"+structTag(n)+"_"+st.Field(i).Name()+" "+x+")")
					}
				}
				if found {
					return t.lvalUpdate(l.X, "(mk_T_"+structTag(n)+" "+strings.Join(parts, " ")+")")
				}
			}
		}
	case *ast.IndexExpr:
		if mk := t.kindOf(l.X); mk.k == "map" {
			if _, isSt := types.Unalias(t.typeOf(l.X)).Underlying().(*types.Map).Elem().(*types.Struct); isSt {
				val = "true"
			}
			return t.lvalUpdate(l.X, "(go_map_set "+mk.key.eqb()+" "+t.expr(l.X)+" "+t.exprAs(l.Index, *mk.key)+" "+val+")")
		}
		if t.kindOf(l.X).k == "list" {
			return t.lvalUpdate(l.X, "(go_upd "+t.expr(l.X)+" "+t.toZ(l.Index)+" "+val+")")
		}
	}
	t.bad(lhs, "unsupported assignment target")
	return ""
}

// overwrite renders `copy(dst, src)` / PutUintNN(dst, v) as an update of the variable under dst.
func (t *ftr) overwrite(dst ast.Expr, src string, rest func() string, at ast.Node) string {
	off := "(0)%Z"
	target := dst
	limit := ""
	if se, ok := dst.(*ast.SliceExpr); ok && !se.Slice3 {
		target = se.X
		if se.Low != nil {
			off = t.toZ(se.Low)
		}
		if se.High != nil {
			limit = t.toZ(se.High)
		}
	}
	base, ok := target.(*ast.Ident)
	if !ok || t.kindOf(target).k != "list" {
		t.bad(at, "copy / Put into something that is not a slice variable (or a slice of one)")
	}
	t.refuseCallerVisible(dst, base, "element")
	bn := t.nameOf(t.objOf(base))
	if limit != "" {
		// copy(dst[a:b], src): at most b-a elements
		src = "(go_slice_to " + src + " (Z.sub " + limit + " " + off + "))"
	}
	return t.letIn(bn, t.kindOf(target).coq(), "(go_copy_at "+bn+" "+off+" "+src+")", rest)
}

// retValueOrNone is retValue, "" for the bare return of a method without results.
func (t *ftr) retValueOrNone(results []ast.Expr, at ast.Node) string {
	if len(results) == 0 && len(t.resKinds) == 0 {
		return ""
	}
	return t.retValue(results, at)
}

// withRecv appends the receiver's current value to the results of a receiver-mutating method.
func (t *ftr) withRecv(v string) string {
	if !t.mut {
		return v
	}
	if v == "" {
		return t.recvName
	}
	return "(" + v + ", " + t.recvName + ")"
}

func (t *ftr) retValue(results []ast.Expr, at ast.Node) string {
	if len(results) == 0 {
		if len(t.named) == 0 {
			t.bad(at, "bare return without named results")
		}
		if len(t.named) == 1 {
			return t.named[0]
		}
		return "(" + strings.Join(t.named, ", ") + ")"
	}
	if len(results) == 1 && len(t.resKinds) > 1 {
		return t.expr(results[0]) // return f(...) with a multi-valued f
	}
	var parts []string
	for i, r := range results {
		if i < len(t.resKinds) {
			parts = append(parts, t.exprAs(r, t.resKinds[i]))
		} else {
			parts = append(parts, t.expr(r))
		}
	}
	if len(parts) == 1 {
		return parts[0]
	}
	return "(" + strings.Join(parts, ", ") + ")"
}

func (t *ftr) block(list []ast.Stmt, k func() string) string {
	if len(list) == 0 {
		if k == nil {
			if t.mut && len(t.resKinds) == 0 {
				return t.mkRet(t.recvName) // a method without results ends: hand back the receiver
			}
			broken("purefunc %s.%s: control reaches the end of the function without return", t.dir, t.fn)
		}
		return k()
	}
	s := list[0]
	restK := func() string { return t.block(list[1:], k) }
	switch s := s.(type) {
	case *ast.ReturnStmt:
		v := t.withRecv(t.retValueOrNone(s.Results, s))
		if v == "" {
			v = "tt" // bare return of a function without results (loopfunc): the loop ends the function
		}
		return t.wrapPending(t.takePending(), t.mkRet(v))
	case *ast.BlockStmt:
		return t.block(append(append([]ast.Stmt{}, s.List...), list[1:]...), k)
	case *ast.IfStmt:
		mk := func() string {
			if joinIfs {
				if r, ok := t.joinedIf(s, restK); ok {
					return r
				}
			}
			cond := t.expr(s.Cond)
			pend := t.takePending()
			th := t.block(s.Body.List, restK)
			var el string
			switch e := s.Else.(type) {
			case nil:
				el = restK()
			case *ast.BlockStmt:
				el = t.block(e.List, restK)
			case *ast.IfStmt:
				el = t.block([]ast.Stmt{e}, restK)
			}
			return t.wrapPending(pend, "(if "+cond+"\n  then "+th+"\n  else "+el+")")
		}
		if s.Init != nil {
			return t.block([]ast.Stmt{s.Init}, mk)
		}
		return mk()
	case *ast.SwitchStmt:
		mk := func() string {
			var clauses []*ast.CaseClause
			var def *ast.CaseClause
			for _, c := range s.Body.List {
				cc := c.(*ast.CaseClause)
				for _, b := range cc.Body {
					if br, ok := b.(*ast.BranchStmt); ok && br.Tok != token.CONTINUE {
						t.bad(br, "branch statement in switch")
					}
				}
				if cc.List == nil {
					def = cc
				} else {
					clauses = append(clauses, cc)
				}
			}
			tag := ""
			var tagK tkind
			var tagPend []pendCall
			if s.Tag != nil {
				tagK = t.kindOf(s.Tag)
				tag = t.expr(s.Tag)
				tagPend = t.takePending()
			}
			var build func(i int) string
			build = func(i int) string {
				if i == len(clauses) {
					if def != nil {
						return t.block(def.Body, restK)
					}
					return restK()
				}
				cc := clauses[i]
				var conds []string
				for _, ce := range cc.List {
					if s.Tag != nil {
						eq := tagK.eqb()
						if eq == "" {
							t.bad(s, "switch on a %s value", tagK.k)
						}
						conds = append(conds, "("+eq+" "+tag+" "+t.exprAs(ce, tagK)+")")
					} else {
						conds = append(conds, t.expr(ce))
					}
				}
				pend := t.takePending()
				c := conds[0]
				for _, x := range conds[1:] {
					c = "(orb " + c + " " + x + ")"
				}
				th := t.block(cc.Body, restK)
				return t.wrapPending(pend, "(if "+c+"\n  then "+th+"\n  else "+build(i+1)+")")
			}
			return t.wrapPending(tagPend, build(0))
		}
		if s.Init != nil {
			return t.block([]ast.Stmt{s.Init}, mk)
		}
		return mk()
	case *ast.TypeSwitchStmt:
		return t.typeSwitch(s, restK)
	case *ast.AssignStmt:
		if len(s.Lhs) == len(s.Rhs) {
			for i, r := range s.Rhs {
				if u, ok := r.(*ast.UnaryExpr); ok && u.Op == token.AND {
					if _, lit := u.X.(*ast.CompositeLit); !lit {
						if id, ok := s.Lhs[i].(*ast.Ident); ok && id.Name != "_" {
							if t.ptrAlias == nil {
								t.ptrAlias = map[types.Object]bool{}
							}
							t.ptrAlias[t.objOf(id)] = true
						}
					}
				}
			}
		}
		if s.Tok == token.DEFINE && len(s.Lhs) == 1 && len(s.Rhs) == 1 {
			if fl, ok := s.Rhs[0].(*ast.FuncLit); ok {
				// name := func(params) { … }: a local closure without results that is only ever called as a
				// statement; it is inlined at each call (it may assign captured variables)
				id, isId := s.Lhs[0].(*ast.Ident)
				if !isId || fl.Type.Results != nil && len(fl.Type.Results.List) > 0 {
					t.bad(s, "closure with results (only result-less local closures called as statements are inlined)")
				}
				ast.Inspect(fl.Body, func(n ast.Node) bool {
					switch n.(type) {
					case *ast.ReturnStmt, *ast.FuncLit, *ast.DeferStmt, *ast.GoStmt:
						t.bad(n, "closure body with return / nested closure / defer / go")
					}
					return true
				})
				obj := t.objOf(id)
				// every use must be the callee of a call statement
				uses, calls := 0, 0
				for uid, uo := range t.pi.info.Uses {
					if uo == obj {
						uses++
						_ = uid
					}
				}
				ast.Inspect(t.pi.findFunc(t.fn).Body, func(n ast.Node) bool {
					if es, ok := n.(*ast.ExprStmt); ok {
						if c, ok := es.X.(*ast.CallExpr); ok {
							if cid, ok := c.Fun.(*ast.Ident); ok && t.pi.info.Uses[cid] == obj {
								calls++
							}
						}
					}
					return true
				})
				if uses != calls {
					t.bad(s, "closure %s is used other than as the callee of a call statement", id.Name)
				}
				if t.closures == nil {
					t.closures = map[types.Object]*ast.FuncLit{}
				}
				t.closures[obj] = fl
				return restK()
			}
		}
		if s.Tok == token.ASSIGN || s.Tok == token.DEFINE {
			if len(s.Lhs) == len(s.Rhs) {
				if c, ok := s.Rhs[0].(*ast.CallExpr); ok && len(s.Lhs) == 1 {
					if rx, nres, ok := t.mutatorCall(c); ok && nres == 1 {
						t.mutCallOK = true
						call := t.expr(c)
						t.mutCallOK = false
						pend := t.takePending()
						return t.wrapPending(pend, "(let '(tmp_res, tmp_recv) := "+call+" in\n  "+
							t.assignTo(s.Lhs[0], "tmp_res", func() string { return t.assignTo(rx, "tmp_recv", restK) })+")")
					}
				}
				if ix, ok := s.Lhs[0].(*ast.IndexExpr); ok && len(s.Lhs) == 1 {
					if mt, ok := types.Unalias(t.typeOf(ix.X)).Underlying().(*types.Map); ok {
						if st, isSt := mt.Elem().(*types.Struct); isSt && st.NumFields() == 0 {
							// set[k] = struct{}{}: membership only
							return t.assignTo(s.Lhs[0], "true", restK)
						}
					}
				}
				if len(s.Lhs) == 1 {
					var v string
					if id, ok := s.Lhs[0].(*ast.Ident); ok && id.Name == "_" {
						v = t.expr(s.Rhs[0])
					} else {
						v = t.exprAs(s.Rhs[0], t.kindOf(s.Lhs[0]))
					}
					pend := t.takePending()
					return t.wrapPending(pend, t.assignTo(s.Lhs[0], v, restK))
				}
				// parallel assignment: evaluate all, then bind
				var tmp []string
				for i, r := range s.Rhs {
					var v string
					if id, ok := s.Lhs[i].(*ast.Ident); ok && id.Name == "_" {
						v = t.expr(r)
					} else {
						v = t.exprAs(r, t.kindOf(s.Lhs[i]))
					}
					tmp = append(tmp, fmt.Sprintf("(let tmp_%d := %s in ", i, v))
				}
				pend := t.takePending()
				var bindAll func(i int) string
				bindAll = func(i int) string {
					if i == len(s.Lhs) {
						return restK()
					}
					return t.assignTo(s.Lhs[i], fmt.Sprintf("tmp_%d", i), func() string { return bindAll(i + 1) })
				}
				return t.wrapPending(pend, strings.Join(tmp, "")+bindAll(0)+strings.Repeat(")", len(tmp)))
			}
			if len(s.Rhs) == 1 {
				var mutRecv ast.Expr
				if c, ok := s.Rhs[0].(*ast.CallExpr); ok {
					if rx, _, ok := t.mutatorCall(c); ok {
						mutRecv = rx
						t.mutCallOK = true
					}
				}
				rhs := t.expr(s.Rhs[0])
				t.mutCallOK = false
				pend := t.takePending()
				var names []string
				type b struct{ n, ty string }
				var bs []b
				for _, l := range s.Lhs {
					id, ok := l.(*ast.Ident)
					if !ok {
						t.bad(s, "tuple assignment to non-identifier")
					}
					if id.Name == "_" {
						names = append(names, "_")
					} else {
						obj := t.objOf(id)
						kk, ok := kindOfType(obj.Type())
						if !ok {
							t.bad(s, "variable %s has unsupported type", id.Name)
						}
						n := t.nameOf(obj)
						names = append(names, n)
						bs = append(bs, b{n, kk.coq()})
					}
				}
				var bindAll func(i int) string
				bindAll = func(i int) string {
					if i == len(bs) {
						if mutRecv != nil {
							return t.assignTo(mutRecv, "tmp_recv", restK)
						}
						return restK()
					}
					return t.bind(bs[i].n, bs[i].ty, func() string { return bindAll(i + 1) })
				}
				if mutRecv != nil {
					names = append(names, "tmp_recv")
				}
				return t.wrapPending(pend, "(let '("+strings.Join(names, ", ")+") := "+rhs+" in\n  "+bindAll(0)+")")
			}
			t.bad(s, "assignment shape")
		}
		ops := map[token.Token]token.Token{token.ADD_ASSIGN: token.ADD, token.SUB_ASSIGN: token.SUB, token.MUL_ASSIGN: token.MUL,
			token.QUO_ASSIGN: token.QUO, token.REM_ASSIGN: token.REM, token.AND_ASSIGN: token.AND, token.OR_ASSIGN: token.OR,
			token.XOR_ASSIGN: token.XOR, token.SHL_ASSIGN: token.SHL, token.SHR_ASSIGN: token.SHR, token.AND_NOT_ASSIGN: token.AND_NOT}
		if op, ok := ops[s.Tok]; ok && len(s.Lhs) == 1 {
			be := &ast.BinaryExpr{X: s.Lhs[0], Op: op, Y: s.Rhs[0], OpPos: s.TokPos}
			t.pi.info.Types[be] = types.TypeAndValue{Type: t.typeOf(s.Lhs[0])}
			v := t.binary(be)
			pend := t.takePending()
			return t.wrapPending(pend, t.assignTo(s.Lhs[0], v, restK))
		}
		t.bad(s, "assignment operator %s", s.Tok)
	case *ast.IncDecStmt:
		k := t.kindOf(s.X)
		one := "(1)%" + k.k
		x := t.expr(s.X)
		var v string
		if k.k == "Z" {
			if s.Tok == token.INC {
				v = "(Z.add " + x + " " + one + ")"
			} else {
				v = "(Z.sub " + x + " " + one + ")"
			}
		} else {
			if s.Tok == token.INC {
				v = "(" + wrapOf(k.w) + " (N.add " + x + " " + one + "))"
			} else {
				v = "(subw " + modOf(k.w) + " " + x + " " + one + ")"
			}
		}
		pend := t.takePending()
		return t.wrapPending(pend, t.assignTo(s.X, v, restK))
	case *ast.DeclStmt:
		gd, ok := s.Decl.(*ast.GenDecl)
		if !ok || (gd.Tok != token.VAR && gd.Tok != token.CONST) {
			t.bad(s, "declaration")
		}
		if gd.Tok == token.CONST {
			return restK()
		}
		type bnd struct{ name, typ, val string }
		var binds []bnd
		for _, sp := range gd.Specs {
			vs := sp.(*ast.ValueSpec)
			for i, n := range vs.Names {
				if n.Name == "_" {
					continue
				}
				obj := t.pi.info.Defs[n]
				kk, ok := kindOfType(obj.Type())
				if !ok {
					t.bad(s, "variable %s has unsupported type %s", n.Name, obj.Type())
				}
				t.ensureKind(kk, obj.Type(), s)
				if i < len(vs.Values) {
					binds = append(binds, bnd{t.nameOf(obj), kk.coq(), t.exprAs(vs.Values[i], kk)})
				} else {
					binds = append(binds, bnd{t.nameOf(obj), kk.coq(), t.zero(obj.Type(), s)})
				}
			}
		}
		pend := t.takePending()
		var bindAll func(i int) string
		bindAll = func(i int) string {
			if i == len(binds) {
				return restK()
			}
			return t.letIn(binds[i].name, binds[i].typ, binds[i].val, func() string { return bindAll(i + 1) })
		}
		return t.wrapPending(pend, bindAll(0))
	case *ast.DeferStmt:
		if isMutexCall(t.pi, s.Call) {
			return restK() // defer mu.Unlock(): locks are no-ops in the translation (one thread's view)
		}
		t.bad(s, "defer statement (only a deferred sync.Mutex / RWMutex unlock is accepted, as a no-op)")
	case *ast.ExprStmt:
		if c, ok := s.X.(*ast.CallExpr); ok {
			if cid, ok := c.Fun.(*ast.Ident); ok && t.closures != nil {
				if fl, ok := t.closures[t.objOf(cid)]; ok {
					// inline: bind the parameters to the arguments (evaluated first, left to right), run the body
					type pb struct {
						obj types.Object
						k   tkind
						val string
					}
					var binds []pb
					i := 0
					for _, f := range fl.Type.Params.List {
						for _, n := range f.Names {
							if i >= len(c.Args) {
								t.bad(s, "closure call arity")
							}
							po := t.pi.info.Defs[n]
							pk, ok := kindOfType(po.Type())
							if !ok {
								t.bad(s, "closure parameter %s has unsupported type %s", n.Name, po.Type())
							}
							binds = append(binds, pb{po, pk, t.exprAs(c.Args[i], pk)})
							i++
						}
					}
					if i != len(c.Args) {
						t.bad(s, "closure call arity")
					}
					pend := t.takePending()
					var tmps []string
					for j := range binds {
						tmps = append(tmps, fmt.Sprintf("(let tmp_c%d := %s in ", j, binds[j].val))
					}
					var bindAll func(j int) string
					bindAll = func(j int) string {
						if j == len(binds) {
							return t.block(fl.Body.List, restK)
						}
						if binds[j].obj.Name() == "_" {
							return bindAll(j + 1)
						}
						return t.letIn(t.nameOf(binds[j].obj), binds[j].k.coq(), fmt.Sprintf("tmp_c%d", j), func() string { return bindAll(j + 1) })
					}
					return t.wrapPending(pend, strings.Join(tmps, "")+bindAll(0)+strings.Repeat(")", len(tmps)))
				}
			}
			if isMutexCall(t.pi, c) {
				return restK() // mu.Lock() / mu.Unlock(): no-ops, the translation describes one thread's view
			}
			if recvX, nres, ok := t.mutatorCall(c); ok {
				t.mutCallOK = true
				call := t.expr(c)
				t.mutCallOK = false
				pend := t.takePending()
				if nres == 0 {
					return t.wrapPending(pend, t.assignTo(recvX, call, restK))
				}
				pat := strings.Repeat("_, ", nres) + "tmp_recv"
				return t.wrapPending(pend, "(let '("+pat+") := "+call+" in\n  "+t.assignTo(recvX, "tmp_recv", restK)+")")
			}
			if id, ok := c.Fun.(*ast.Ident); ok && id.Name == "delete" {
				if _, isB := t.pi.info.Uses[id].(*types.Builtin); isB && len(c.Args) == 2 {
					mk := t.kindOf(c.Args[0])
					if mk.k != "map" {
						t.bad(s, "delete on a non-map")
					}
					base := rootIdent(c.Args[0])
					if base == nil {
						t.bad(s, "delete: the map is not an assignable path")
					}
					t.refuseCallerVisible(c.Args[0], base, "element")
					v := "(go_map_del " + mk.key.eqb() + " " + t.expr(c.Args[0]) + " " + t.exprAs(c.Args[1], *mk.key) + ")"
					pend := t.takePending()
					obj := t.objOf(base)
					bk, ok := kindOfType(derefStruct(obj.Type()))
					if !ok {
						t.bad(s, "variable %s has unsupported type", base.Name)
					}
					return t.wrapPending(pend, t.letIn(t.nameOf(obj), bk.coq(), t.lvalUpdate(c.Args[0], v), restK))
				}
			}
			if id, ok := c.Fun.(*ast.Ident); ok && id.Name == "copy" {
				if _, isB := t.pi.info.Uses[id].(*types.Builtin); isB && len(c.Args) == 2 {
					src := t.expr(c.Args[1])
					pend := t.takePending()
					return t.wrapPending(pend, t.overwrite(c.Args[0], src, restK, s))
				}
			}
			if sel, ok := c.Fun.(*ast.SelectorExpr); ok {
				if fn, ok := t.pi.info.Uses[sel.Sel].(*types.Func); ok && strings.HasPrefix(fn.FullName(), "(encoding/binary.bigEndian).Put") && len(c.Args) == 2 {
					w := strings.TrimPrefix(fn.Name(), "PutUint")
					if w == "16" || w == "32" || w == "64" {
						usesGoList = true
						v := t.exprAs(c.Args[1], tkind{k: "N", w: 64})
						pend := t.takePending()
						return t.wrapPending(pend, t.overwrite(c.Args[0], "(go_put_be"+w+" "+v+")", restK, s))
					}
				}
			}
		}
		t.bad(s, "expression statement (only copy and binary.BigEndian.PutUintNN are known)")
	case *ast.ForStmt:
		if s.Cond == nil && !hasOwnBreak(s.Body) {
			// `for { ... }` left only by return: what follows is unreachable (GoNext never happens)
			return t.forLoop(s, func() string { return t.mkOof() })
		}
		return t.forLoop(s, restK)
	case *ast.RangeStmt:
		return t.rangeLoop(s, restK)
	case *ast.BranchStmt:
		c := t.cur()
		if s.Label != nil || c == nil {
			t.bad(s, "branch statement %s outside a loop or with a label", s.Tok)
		}
		switch s.Tok {
		case token.BREAK:
			return "(GoNext, " + tupleOf(c.state) + ")"
		case token.CONTINUE:
			return t.loopNext()
		}
		t.bad(s, "branch statement %s", s.Tok)
	case *ast.EmptyStmt:
		return restK()
	}
	t.bad(s, "unsupported statement %T", s)
	return ""
}

// isMutexCall: Lock / Unlock / RLock / RUnlock on a sync.Mutex or sync.RWMutex.
func isMutexCall(pi *pkgInfo, c *ast.CallExpr) bool {
	sel, ok := c.Fun.(*ast.SelectorExpr)
	if !ok {
		return false
	}
	fn, ok := pi.info.Uses[sel.Sel].(*types.Func)
	if !ok {
		return false
	}
	switch fn.FullName() {
	case "(*sync.Mutex).Lock", "(*sync.Mutex).Unlock", "(*sync.RWMutex).Lock", "(*sync.RWMutex).Unlock",
		"(*sync.RWMutex).RLock", "(*sync.RWMutex).RUnlock":
		return true
	}
	return false
}

// hasOwnBreak: a break statement that leaves this loop (not one of a nested loop).
func hasOwnBreak(body *ast.BlockStmt) bool {
	found := false
	var walk func(n ast.Node) bool
	walk = func(n ast.Node) bool {
		switch x := n.(type) {
		case *ast.ForStmt, *ast.RangeStmt, *ast.FuncLit, *ast.SelectStmt:
			return false
		case *ast.BranchStmt:
			if x.Tok == token.BREAK {
				found = true
			}
		}
		return true
	}
	ast.Inspect(body, walk)
	return found
}

// joinedIf renders an always-falling-through if statement with a join point (see joinIfs).
func (t *ftr) joinedIf(s *ast.IfStmt, restK func() string) (string, bool) {
	var elseList []ast.Stmt
	switch e := s.Else.(type) {
	case nil:
	case *ast.BlockStmt:
		elseList = e.List
	default:
		return "", false // else-if chains keep the continuation-passing form
	}
	simple := func(list []ast.Stmt) bool {
		ok := true
		for _, st := range list {
			ast.Inspect(st, func(n ast.Node) bool {
				switch x := n.(type) {
				case *ast.FuncLit:
					return false
				case *ast.IfStmt:
					if !joinNested {
						ok = false
					}
				case *ast.ReturnStmt, *ast.BranchStmt, *ast.ForStmt, *ast.RangeStmt, *ast.SwitchStmt, *ast.TypeSwitchStmt:
					_ = x
					ok = false
				case *ast.CallExpr:
					var id *ast.Ident
					switch f := x.Fun.(type) {
					case *ast.Ident:
						id = f
					case *ast.SelectorExpr:
						id = f.Sel
					}
					if id != nil {
						if callee, isFn := t.pi.info.Uses[id].(*types.Func); isFn && callee.Pkg() != nil && (callee.Pkg() == t.pi.pkg || calleePkgOK(callee.Pkg())) {
							cd, cpi := t.dir, t.pi
							if callee.Pkg() != t.pi.pkg {
								cd = dirOfPkg(callee.Pkg())
								cpi = loadPkg(cd)
							}
							cfn := callee.Name()
							if sig, isSig := callee.Type().(*types.Signature); isSig && sig.Recv() != nil {
								if nn := namedOf(sig.Recv().Type()); nn != nil {
									cfn = nn.Obj().Name() + "." + callee.Name()
								}
							}
							if needsFuel(cpi, cd, cfn) {
								ok = false
							}
						}
					}
				}
				return ok
			})
		}
		return ok
	}
	if (s.Init != nil && !joinNested) || !simple(s.Body.List) || !simple(elseList) {
		return "", false
	}
	// variables the branches assign that live outside the statement
	seen := map[types.Object]bool{}
	var vars []types.Object
	note := func(e ast.Expr) {
		id := rootIdent(e)
		if id == nil || id.Name == "_" {
			return
		}
		obj := t.pi.info.Uses[id]
		v, isVar := obj.(*types.Var)
		if !isVar || v.IsField() || (v.Pos() >= s.Pos() && v.Pos() < s.End()) || seen[obj] {
			return
		}
		seen[obj] = true
		vars = append(vars, obj)
	}
	for _, list := range [][]ast.Stmt{s.Body.List, elseList} {
		for _, st := range list {
			ast.Inspect(st, func(n ast.Node) bool {
				switch x := n.(type) {
				case *ast.AssignStmt:
					for _, l := range x.Lhs {
						note(l)
					}
				case *ast.IncDecStmt:
					note(x.X)
				case *ast.ExprStmt:
					if c, isCall := x.X.(*ast.CallExpr); isCall {
						if id, isId := c.Fun.(*ast.Ident); isId && id.Name == "copy" && len(c.Args) == 2 {
							note(c.Args[0])
						}
						if sel, isSel := c.Fun.(*ast.SelectorExpr); isSel {
							if fn, isFn := t.pi.info.Uses[sel.Sel].(*types.Func); isFn && strings.HasPrefix(fn.FullName(), "(encoding/binary.bigEndian).Put") && len(c.Args) == 2 {
								note(c.Args[0])
							} else if _, _, isMut := t.mutatorCall(c); isMut {
								note(sel.X)
							}
						}
					}
				}
				return true
			})
		}
	}
	sort.Slice(vars, func(i, j int) bool { return vars[i].Pos() < vars[j].Pos() })
	if len(vars) == 0 {
		return "", false
	}
	var names []string
	for _, v := range vars {
		names = append(names, t.nameOf(v))
	}
	tuple := names[0]
	if len(names) > 1 {
		tuple = "(" + strings.Join(names, ", ") + ")"
	}
	cond := t.expr(s.Cond)
	pend := t.takePending()
	join := func() string { return tuple }
	th := t.block(s.Body.List, join)
	el := tuple
	if elseList != nil {
		el = t.block(elseList, join)
	}
	pat := tuple
	if len(names) > 1 {
		pat = "'" + tuple
	}
	return t.wrapPending(pend, "(let "+pat+" := (if "+cond+"\n  then "+th+"\n  else "+el+") in\n  "+restK()+")"), true
}

// loopNext: run the post statement and go round again.
func (t *ftr) loopNext() string {
	c := t.cur()
	return t.block(c.post, func() string {
		parts := []string{c.fix}
		parts = append(parts, c.lead...)
		parts = append(parts, c.lf)
		if c.rng {
			parts = append(parts, "(Z.add "+c.ri+" (1)%Z)")
		}
		for _, v := range c.state {
			parts = append(parts, v.name)
		}
		return "(" + strings.Join(parts, " ") + ")"
	})
}

// emitLoop writes the Fixpoint of a loop and returns the term that runs it and continues with rest.
//
//	lead      constant leading parameters (name, type) — the range source
//	budget    the nat the loop may spend
//	cond      renders the loop condition ("" = true) — called inside the loop context
//	prelude   binds the per-iteration variables of a range loop around the body
func (t *ftr) emitLoop(at ast.Node, lead []envVar, leadArgs []string, budget string, rng bool, post []ast.Stmt,
	cond func() (string, []pendCall), body func(k func() string) string, rest func() string) string {
	usesGoList = true
	t.nloops++
	if t.opt {
		// the budget of nested loops and of callees travels along unchanged
		lead = append([]envVar{{"fuel", "nat"}}, lead...)
		leadArgs = append([]string{"fuel"}, leadArgs...)
	}
	if t.now {
		lead = append([]envVar{{"now", "Z"}}, lead...)
		leadArgs = append([]string{"now"}, leadArgs...)
	}
	num := t.nloops
	fix := fmt.Sprintf("%s_loop%d", coqFuncName(t.dir, t.fn), num)
	state := append([]envVar{}, t.env...)
	c := &lctx{fix: fix, state: state, post: post, rng: rng, lf: "lf", ri: fmt.Sprintf("r_i%d", num), num: num}
	for _, l := range lead {
		c.lead = append(c.lead, l.name)
	}
	// inside the fix: scope = lead + (r_i) + state; the outer scope is not visible
	savedEnv := t.env
	t.env = nil
	for _, l := range lead {
		if l.name != "fuel" && l.name != "now" { // the budget and the clock are passed along but are not program variables
			t.env = append(t.env, l)
		}
	}
	if rng {
		t.env = append(t.env, envVar{c.ri, "Z"})
	}
	t.env = append(t.env, state...)
	t.loops = append(t.loops, c)
	var fixBody string
	{
		cnd, pend := "true", []pendCall(nil)
		if cond != nil {
			cnd, pend = cond()
		}
		exit := "(GoNext, " + tupleOf(state) + ")"
		b := body(func() string { return t.loopNext() })
		fixBody = t.wrapPending(pend, "(if "+cnd+"\n  then "+b+"\n  else "+exit+")")
	}
	oof := t.mkOof()
	t.loops = t.loops[:len(t.loops)-1]
	t.env = savedEnv
	var params []string
	for _, l := range lead {
		params = append(params, "("+l.name+" : "+l.typ+")")
	}
	params = append(params, "(lf0 : nat)")
	if rng {
		params = append(params, "("+c.ri+" : Z)")
	}
	for _, v := range state {
		params = append(params, "("+v.name+" : "+v.typ+")")
	}
	pos := t.pi.fset.Position(at.Pos())
	fmt.Fprintf(&out, "(* loop %d of %s.%s (%s:%d): hands back (how it ended, the variables in scope) *)\nFixpoint %s %s {struct lf0} : (go_ctl %s * %s)%%type :=\n  match lf0 with\n  | O => %s\n  | S lf => %s\n  end.\n\n",
		num, t.dir, t.fn, strings.TrimPrefix(pos.Filename, repo+"/"), pos.Line, fix, strings.Join(params, " "), t.rtPlain, tupleTypeOf(state), oof, fixBody)
	// the call site
	call := []string{fix}
	call = append(call, leadArgs...)
	call = append(call, budget)
	if rng {
		call = append(call, "(0)%Z")
	}
	for _, v := range state {
		call = append(call, v.name)
	}
	callTerm := "(" + strings.Join(call, " ") + ")"
	if rest == nil {
		return callTerm
	}
	after := rest()
	pat := tupleOf(state)
	return "(match " + callTerm + " with\n  | (GoRet r_ret, _) => " + t.mkRet("r_ret") + "\n  | (GoOof, _) => " + t.mkOof() + "\n  | (GoNext, " + "st_loop) => let '" + patOrUnit(pat) + " := st_loop in " + after + "\n  end)"
}

func patOrUnit(p string) string {
	if strings.HasPrefix(p, "(") {
		return p
	}
	return "(" + p + ")"
}

func (t *ftr) forLoop(s *ast.ForStmt, rest func() string) string {
	if !t.opt {
		t.bad(s, "internal: for loop in a function not classified as needing fuel")
	}
	run := func() string {
		var post []ast.Stmt
		if s.Post != nil {
			post = []ast.Stmt{s.Post}
		}
		var cond func() (string, []pendCall)
		if s.Cond != nil {
			cond = func() (string, []pendCall) { c := t.expr(s.Cond); return c, t.takePending() }
		}
		return t.emitLoop(s, nil, nil, "fuel", false, post, cond,
			func(k func() string) string { return t.block(s.Body.List, k) }, rest)
	}
	if s.Init != nil {
		return t.block([]ast.Stmt{s.Init}, run)
	}
	return run()
}

func (t *ftr) rangeLoop(s *ast.RangeStmt, rest func() string) string {
	if s.Tok == token.ASSIGN {
		t.bad(s, "range loop assigning to existing variables")
	}
	xt := t.typeOf(s.X)
	xk, ok := kindOfType(xt)
	if !ok {
		t.bad(s, "range over unsupported type %s", xt)
	}
	if b, isBasic := types.Unalias(xt).Underlying().(*types.Basic); isBasic && b.Info()&types.IsString != 0 {
		t.bad(s, "range over a string iterates over runes, not octets")
	}
	src := t.expr(s.X)
	pend := t.takePending()
	num := t.nloops + 1
	rS, rI, rN, rSrc := fmt.Sprintf("r_s%d", num), fmt.Sprintf("r_i%d", num), fmt.Sprintf("r_n%d", num), fmt.Sprintf("r_src%d", num)
	keyObj := func(e ast.Expr) (types.Object, bool) {
		if e == nil {
			return nil, false
		}
		id, ok := e.(*ast.Ident)
		if !ok {
			t.bad(s, "range variable is not an identifier")
		}
		if id.Name == "_" {
			return nil, false
		}
		return t.objOf(id), true
	}
	switch xk.k {
	case "list":
		var ety types.Type
		switch u := types.Unalias(xt).Underlying().(type) {
		case *types.Slice:
			ety = u.Elem()
		case *types.Array:
			ety = u.Elem()
		}
		d := t.zeroName(*xk.elem, ety, s)
		lead := []envVar{{rS, xk.coq()}}
		body := func(k func() string) string {
			inner := func() string { return t.block(s.Body.List, k) }
			if vo, ok := keyObj(s.Value); ok {
				in2 := inner
				inner = func() string {
					return t.letIn(t.nameOf(vo), xk.elem.coq(), "(go_idx "+d+" "+rS+" "+rI+")", in2)
				}
			}
			if ko, ok := keyObj(s.Key); ok {
				in3 := inner
				inner = func() string { return t.letIn(t.nameOf(ko), "Z", rI, in3) }
			}
			return inner()
		}
		cond := func() (string, []pendCall) { return "(Z.ltb " + rI + " (go_len " + rS + "))", nil }
		return t.wrapPending(pend, "(let "+rSrc+" := "+src+" in\n  "+
			t.emitLoop(s, lead, []string{rSrc}, "(S (length "+rSrc+"))", true, nil, cond, body, rest)+")")
	case "map":
		if !mapRangeOK {
			t.bad(s, "range over a map: Go's iteration order is unspecified; set \"map_range_in_list_order\": true on the item if the loop's result does not depend on the order (the translation visits the pairs in the association list's order)")
		}
		mt := types.Unalias(xt).Underlying().(*types.Map)
		zk := t.zeroK(*xk.key, mt.Key(), s)
		zv := "false"
		if st, isSt := mt.Elem().(*types.Struct); !(isSt && st.NumFields() == 0) {
			zv = t.zeroName(*xk.elem, mt.Elem(), s)
		}
		d := "(" + zk + ", " + zv + ")"
		lead := []envVar{{rS, xk.coq()}}
		body := func(k func() string) string {
			inner := func() string { return t.block(s.Body.List, k) }
			if vo, ok := keyObj(s.Value); ok {
				in2 := inner
				inner = func() string {
					return t.letIn(t.nameOf(vo), xk.elem.coq(), "(snd (go_idx "+d+" "+rS+" "+rI+"))", in2)
				}
			}
			if ko, ok := keyObj(s.Key); ok {
				in3 := inner
				inner = func() string {
					return t.letIn(t.nameOf(ko), xk.key.coq(), "(fst (go_idx "+d+" "+rS+" "+rI+"))", in3)
				}
			}
			return inner()
		}
		cond := func() (string, []pendCall) { return "(Z.ltb " + rI + " (go_len " + rS + "))", nil }
		return t.wrapPending(pend, "(let "+rSrc+" := "+src+" in\n  "+
			t.emitLoop(s, lead, []string{rSrc}, "(S (length "+rSrc+"))", true, nil, cond, body, rest)+")")
	case "Z", "N":
		// for i := range n
		if s.Value != nil {
			t.bad(s, "range over an integer with two variables")
		}
		lead := []envVar{{rN, "Z"}}
		n := src
		if xk.k == "N" {
			n = "(Z.of_N " + src + ")"
		}
		body := func(k func() string) string {
			inner := func() string { return t.block(s.Body.List, k) }
			if ko, ok := keyObj(s.Key); ok {
				in3 := inner
				val := rI
				if xk.k == "N" {
					val = "(Z.to_N " + rI + ")"
				}
				inner = func() string { return t.letIn(t.nameOf(ko), xk.coq(), val, in3) }
			}
			return inner()
		}
		cond := func() (string, []pendCall) { return "(Z.ltb " + rI + " " + rN + ")", nil }
		return t.wrapPending(pend, "(let "+rSrc+" := "+n+" in\n  "+
			t.emitLoop(s, lead, []string{rSrc}, "(S (Z.to_nat "+rSrc+"))", true, nil, cond, body, rest)+")")
	}
	t.bad(s, "range over a %s value", xk.k)
	return ""
}

func coqFuncName(dir, fn string) string {
	return "go_" + typeTag(dir, strings.ReplaceAll(fn, ".", "_"))
}

// mutatorCall recognises `x.M(args)` where M is a receiver-mutating method of a repository type:
// the receiver expression (an assignable path), the number of M's own results.
func (t *ftr) mutatorCall(c *ast.CallExpr) (ast.Expr, int, bool) {
	sel, ok := c.Fun.(*ast.SelectorExpr)
	if !ok {
		return nil, 0, false
	}
	fn, ok := t.pi.info.Uses[sel.Sel].(*types.Func)
	if !ok || fn.Pkg() == nil || !(fn.Pkg() == t.pi.pkg || inRepo(fn.Pkg())) {
		return nil, 0, false
	}
	sig, ok := fn.Type().(*types.Signature)
	if !ok || sig.Recv() == nil {
		return nil, 0, false
	}
	n := namedOf(sig.Recv().Type())
	if n == nil {
		return nil, 0, false
	}
	d, pi := t.dir, t.pi
	if fn.Pkg() != t.pi.pkg {
		d = dirOfPkg(fn.Pkg())
		pi = loadPkg(d)
	}
	if !isMutator(pi, d, n.Obj().Name()+"."+fn.Name()) {
		return nil, 0, false
	}
	if rootIdent(sel.X) == nil {
		t.bad(c, "receiver of a mutating method is not an assignable path")
	}
	return sel.X, sig.Results().Len(), true
}

// isMutator: a method with a pointer receiver that assigns through it (directly or by calling
// another mutating method on it).
var (
	mutDone = map[string]bool{}
	mutVal  = map[string]bool{}
	mutBusy = map[string]bool{}
)

func isMutator(pi *pkgInfo, dir, fn string) bool {
	if allowParamMutation {
		// the item asked for the older reading: writes through parameters and receivers are local
		// updates, nothing is handed back
		return false
	}
	key := dir + "." + fn
	if mutDone[key] {
		return mutVal[key]
	}
	if mutBusy[key] {
		return false
	}
	mutBusy[key] = true
	defer delete(mutBusy, key)
	res := false
	fd := pi.findFunc(fn)
	if fd != nil && fd.Body != nil && fd.Recv != nil && len(fd.Recv.List) == 1 && len(fd.Recv.List[0].Names) == 1 {
		if _, isPtr := pi.info.Types[fd.Recv.List[0].Type].Type.(*types.Pointer); isPtr {
			recv := pi.info.Defs[fd.Recv.List[0].Names[0]]
			isRecv := func(e ast.Expr) bool {
				id := rootIdent(e)
				return id != nil && pi.info.Uses[id] == recv
			}
			ast.Inspect(fd.Body, func(n ast.Node) bool {
				if res {
					return false
				}
				switch x := n.(type) {
				case *ast.FuncLit:
					return false
				case *ast.AssignStmt:
					for _, l := range x.Lhs {
						if _, plain := l.(*ast.Ident); !plain && isRecv(l) {
							res = true
						}
					}
				case *ast.IncDecStmt:
					if _, plain := x.X.(*ast.Ident); !plain && isRecv(x.X) {
						res = true
					}
				case *ast.CallExpr:
					if id, ok := x.Fun.(*ast.Ident); ok && id.Name == "delete" && len(x.Args) == 2 && isRecv(x.Args[0]) {
						if _, plain := x.Args[0].(*ast.Ident); !plain {
							res = true
						}
					}
					if id, ok := x.Fun.(*ast.Ident); ok && id.Name == "copy" && len(x.Args) == 2 && isRecv(x.Args[0]) {
						if _, plain := x.Args[0].(*ast.Ident); !plain {
							res = true
						}
					}
					if sel, ok := x.Fun.(*ast.SelectorExpr); ok && isRecv(sel.X) {
						if callee, ok := pi.info.Uses[sel.Sel].(*types.Func); ok && callee.Pkg() == pi.pkg {
							if sig, ok := callee.Type().(*types.Signature); ok && sig.Recv() != nil {
								if nn := namedOf(sig.Recv().Type()); nn != nil {
									if isMutator(pi, dir, nn.Obj().Name()+"."+callee.Name()) {
										res = true
									}
								}
							}
						}
					}
				}
				return true
			})
		}
	}
	mutDone[key] = true
	mutVal[key] = res
	return res
}

// optFuncs: functions that need an iteration budget (a non-range loop, directly or in a callee).
var (
	optFuncs = map[string]bool{}
	optDone  = map[string]bool{}
	optBusy  = map[string]bool{}
)

func needsFuel(pi *pkgInfo, dir, fn string) bool {
	key := dir + "." + fn
	if optDone[key] {
		return optFuncs[key]
	}
	if optBusy[key] {
		return false // recursion is refused later
	}
	optBusy[key] = true
	fd := pi.findFunc(fn)
	res := false
	if fd != nil && fd.Body != nil {
		ast.Inspect(fd.Body, func(n ast.Node) bool {
			if res {
				return false
			}
			switch x := n.(type) {
			case *ast.ForStmt:
				res = true
			case *ast.FuncLit:
				return false
			case *ast.CallExpr:
				var id *ast.Ident
				var recvT types.Type
				switch f := x.Fun.(type) {
				case *ast.Ident:
					id = f
				case *ast.SelectorExpr:
					id = f.Sel
					if tv, ok := pi.info.Types[f.X]; ok {
						recvT = tv.Type
					}
				}
				if id == nil {
					return true
				}
				callee, ok := pi.info.Uses[id].(*types.Func)
				if !ok || callee.Pkg() == nil || !(callee.Pkg() == pi.pkg || calleePkgOK(callee.Pkg())) {
					return true
				}
				cd := dir
				cpi := pi
				if callee.Pkg() != pi.pkg {
					cd = dirOfPkg(callee.Pkg())
					cpi = loadPkg(cd)
				}
				cfn := callee.Name()
				switch callee.FullName() {
				case "github.com/miekg/dns.CanonicalName", "github.com/miekg/dns.IsFqdn", "github.com/miekg/dns.Fqdn":
					if asciiStrings {
						return true // modelled in GoList.v, no fuel
					}
				}
				if sig, ok := callee.Type().(*types.Signature); ok && sig.Recv() != nil {
					if n := namedOf(sig.Recv().Type()); n != nil {
						cfn = n.Obj().Name() + "." + callee.Name()
					}
				}
				_ = recvT
				if needsFuel(cpi, cd, cfn) {
					res = true
				}
			}
			return true
		})
	}
	delete(optBusy, key)
	optDone[key] = true
	optFuncs[key] = res
	return res
}

// joinIfs (item flag "join_ifs"): an if statement whose branches always fall through (no return, break,
// continue, loop or fuel-needing call inside) is translated with a join point —
// `let '(vars) := if c then … else … in rest` over the variables the branches assign — instead of
// copying the rest of the function into both branches. A run of n such statements is then linear, not 2^n.
var joinIfs bool

// mapRangeOK (item flag "map_range_in_list_order"): `for k, v := range m` over a map is translated as a walk over
// the association list in its own order — one of the orders Go may choose; exact only for loops whose effect does
// not depend on the order.
var mapRangeOK bool

// joinNested (item flag "join_nested_ifs", implies join_ifs): the join-point form is also used for an if
// statement with an init clause (its variables live inside the statement) and for one whose branches contain
// further if statements (rendered in continuation-passing form around the join tuple).
var joinNested bool

var allowParamMutation bool

// asciiStrings: strings.ToLower / EqualFold are translated as their ASCII restrictions (item flag
// "ascii_strings": exact only for inputs whose octets are all below 128).
var asciiStrings bool

// assumeNonNil: `p == nil` on a pointer to a struct reads false (the translation describes the
// function on non-nil arguments; item flag "nonnil_pointers").
var assumeNonNil bool

// ensureFunc translates dir.fn if not done yet and returns its Coq name.
func ensureFunc(pi *pkgInfo, dir, fn string, at ast.Node) string {
	key := dir + "." + fn
	if n, ok := emittedFuncs[key]; ok {
		return n
	}
	if inProgress[key] {
		broken("purefunc %s: recursive function", key)
	}
	inProgress[key] = true
	fd := pi.findFunc(fn)
	if fd == nil || fd.Body == nil {
		broken("purefunc %s: function not found", key)
	}
	t := &ftr{pi: pi, dir: dir, fn: fn, names: map[types.Object]string{}, used: map[string]bool{}, params: map[types.Object]bool{}, allowMut: allowParamMutation}
	for _, r := range []string{"fuel", "now", "lf", "lf0", "r_i", "r_s", "r_n", "r_src", "r_ret", "st_loop", "v_ta"} {
		t.used[r] = true
	}
	t.opt = needsFuel(pi, dir, fn)
	t.now = needsNow(pi, dir, fn)
	var params []string
	if t.opt {
		params = append(params, "(fuel : nat)")
	}
	if t.now {
		params = append(params, "(now : Z)")
	}
	var recvType, recvZero string
	addParam := func(id *ast.Ident, ty types.Type, at ast.Node) {
		k, ok := kindOfType(ty)
		if !ok {
			t.bad(at, "parameter has unsupported type %s", ty)
		}
		t.ensureKind(k, ty, at)
		if id == nil || id.Name == "_" || id.Name == "" {
			params = append(params, "(_ : "+k.coq()+")")
			return
		}
		obj := pi.info.Defs[id]
		n := t.nameOf(obj)
		t.params[obj] = true
		params = append(params, "("+n+" : "+k.coq()+")")
		t.push(n, k.coq())
	}
	if fd.Recv != nil {
		f := fd.Recv.List[0]
		var id *ast.Ident
		if len(f.Names) == 1 {
			id = f.Names[0]
		}
		ty := pi.info.Types[f.Type].Type
		if p, ok := ty.(*types.Pointer); ok {
			ty = p.Elem()
		}
		addParam(id, ty, f)
		if id != nil && id.Name != "_" {
			t.recvObj = pi.info.Defs[id]
			// keep the pointer-ness for the caller-visibility test
			if _, isPtr := pi.info.Types[f.Type].Type.(*types.Pointer); !isPtr {
				delete(t.params, pi.info.Defs[id])
			}
			if isMutator(pi, dir, fn) {
				// the method writes through its receiver: the translation hands the final receiver back
				t.mut = true
				t.recvName = t.nameOf(pi.info.Defs[id])
				delete(t.params, pi.info.Defs[id])
				rk, _ := kindOfType(ty)
				recvType, recvZero = rk.coq(), t.zero(ty, f)
			}
		}
	}
	for _, f := range fd.Type.Params.List {
		ty := pi.info.Types[f.Type].Type
		if p, ok := ty.(*types.Pointer); ok {
			if n := namedOf(p); n != nil {
				if _, isStruct := n.Underlying().(*types.Struct); isStruct {
					ty = p.Elem() // *T parameter read as a value (mutation through it is refused)
				}
			}
		}
		if len(f.Names) == 0 {
			addParam(nil, ty, f)
		}
		for _, n := range f.Names {
			addParam(n, ty, f)
		}
	}
	var rts []string
	var namedInit []struct{ n, ty, z string }
	if fd.Type.Results != nil {
		for _, f := range fd.Type.Results.List {
			ty := pi.info.Types[f.Type].Type
			k, ok := kindOfType(ty)
			if !ok {
				t.bad(f, "result has unsupported type %s", ty)
			}
			t.ensureKind(k, ty, f)
			cnt := len(f.Names)
			if cnt == 0 {
				cnt = 1
			}
			for i := 0; i < cnt; i++ {
				rts = append(rts, k.coq())
				t.resKinds = append(t.resKinds, k)
			}
			for _, n := range f.Names {
				nm := t.nameOf(pi.info.Defs[n])
				t.named = append(t.named, nm)
				namedInit = append(namedInit, struct{ n, ty, z string }{nm, k.coq(), t.zero(ty, f)})
			}
		}
	}
	if t.mut {
		rts = append(rts, recvType)
	}
	if len(rts) == 0 {
		broken("purefunc %s: no results", key)
	}
	rt := rts[0]
	if len(rts) > 1 {
		rt = "(" + strings.Join(rts, " * ") + ")%type"
	}
	t.rtPlain = rt
	{
		var zs []string
		i := 0
		var resList []*ast.Field
		if fd.Type.Results != nil {
			resList = fd.Type.Results.List
		}
		for _, f := range resList {
			cnt := len(f.Names)
			if cnt == 0 {
				cnt = 1
			}
			for j := 0; j < cnt; j++ {
				zs = append(zs, t.zero(pi.info.Types[f.Type].Type, f))
				i++
			}
		}
		if t.mut {
			zs = append(zs, recvZero)
		}
		t.resZero = zs[0]
		if len(zs) > 1 {
			t.resZero = "(" + strings.Join(zs, ", ") + ")"
		}
	}
	var mkBody func(i int) string
	mkBody = func(i int) string {
		if i == len(namedInit) {
			return t.block(fd.Body.List, nil)
		}
		return t.letIn(namedInit[i].n, namedInit[i].ty, namedInit[i].z, func() string { return mkBody(i + 1) })
	}
	body := mkBody(0)
	name := coqFuncName(dir, fn)
	pos := pi.fset.Position(fd.Pos())
	outRt := rt
	if t.opt {
		outRt = "option " + rt
	}
	fmt.Fprintf(&out, "(* purefunc %s.%s (%s:%d) *)\nDefinition %s %s : %s :=\n  %s.\n\n", dir, fn, strings.TrimPrefix(pos.Filename, repo+"/"), pos.Line, name, strings.Join(params, " "), outRt, body)
	emittedFuncs[key] = name
	delete(inProgress, key)
	return name
}

func doPureFunc(it Item) {
	rootDir = it.Pkg
	allowParamMutation = it.AllowParamMutation
	assumeNonNil = it.NonNilPointers
	asciiStrings = it.ASCIIStrings
	joinIfs = it.JoinIfs || it.JoinNestedIfs
	joinNested = it.JoinNestedIfs
	mapRangeOK = it.MapRangeInListOrder
	pi := loadPkg(it.Pkg)
	name := ensureFunc(pi, it.Pkg, it.Func, nil)
	if it.As != "" && it.As != name {
		fmt.Fprintf(&out, "Definition %s := %s.\n\n", it.As, name)
	}
}

// ---------------------------------------------------------------- loopfunc
//
// {"kind":"loopfunc","pkg":dir,"func":"Name|Recv.Name","nth":k} translates the k-th for/range
// statement (source order, nested ones counted) of a function that is not translatable as a
// whole (netip / net / map / interface types around the loop) as a function of the local
// variables the loop mentions: `go_<Func>_loop<k>_run [fuel] vars : (go_ctl R * State)` where
// State is the tuple of those variables after the loop (GoNext), R the enclosing function's
// result when the loop contains a return statement (unit otherwise).
func doLoopFunc(it Item) {
	rootDir = it.Pkg
	asciiStrings = it.ASCIIStrings
	joinIfs = it.JoinIfs || it.JoinNestedIfs
	joinNested = it.JoinNestedIfs
	mapRangeOK = it.MapRangeInListOrder
	assumeNonNil = it.NonNilPointers
	pi := loadPkg(it.Pkg)
	fd := pi.findFunc(it.Func)
	if fd == nil || fd.Body == nil {
		broken("loopfunc %s.%s: function not found", it.Pkg, it.Func)
	}
	var loops []ast.Stmt
	ast.Inspect(fd.Body, func(n ast.Node) bool {
		switch x := n.(type) {
		case *ast.FuncLit:
			return false
		case *ast.ForStmt:
			loops = append(loops, x)
		case *ast.RangeStmt:
			loops = append(loops, x)
		}
		return true
	})
	if it.Nth >= len(loops) {
		broken("loopfunc %s.%s: %d loops, need index %d", it.Pkg, it.Func, len(loops), it.Nth)
	}
	loop := loops[it.Nth]
	t := &ftr{pi: pi, dir: it.Pkg, fn: it.Func, names: map[types.Object]string{}, used: map[string]bool{}, params: map[types.Object]bool{}, allowMut: true}
	for _, r := range []string{"fuel", "lf", "lf0", "r_i", "r_s", "r_n", "r_src", "r_ret", "st_loop"} {
		t.used[r] = true
	}
	t.nloops = it.Nth // the Fixpoint is named ..._loop<nth+1>
	// result type of the enclosing function, needed only when the loop returns
	hasRet := false
	ast.Inspect(loop, func(n ast.Node) bool {
		switch n.(type) {
		case *ast.FuncLit:
			return false
		case *ast.ReturnStmt:
			hasRet = true
		}
		return true
	})
	t.rtPlain, t.resZero = "unit", "tt"
	if hasRet {
		var rts, zs []string
		var resFields []*ast.Field
		if fd.Type.Results != nil {
			resFields = fd.Type.Results.List
		}
		for _, f := range resFields {
			ty := pi.info.Types[f.Type].Type
			k, ok := kindOfType(ty)
			if !ok {
				t.bad(f, "the loop returns and the function's result has unsupported type %s", ty)
			}
			t.ensureKind(k, ty, f)
			cnt := len(f.Names)
			if cnt == 0 {
				cnt = 1
			}
			for i := 0; i < cnt; i++ {
				rts = append(rts, k.coq())
				zs = append(zs, t.zero(ty, f))
				t.resKinds = append(t.resKinds, k)
			}
			for _, n := range f.Names {
				t.named = append(t.named, t.nameOf(pi.info.Defs[n]))
			}
		}
		if len(rts) > 0 {
			t.rtPlain, t.resZero = rts[0], zs[0]
		}
		if len(rts) > 1 {
			t.rtPlain = "(" + strings.Join(rts, " * ") + ")%type"
			t.resZero = "(" + strings.Join(zs, ", ") + ")"
		}
	}
	// free local variables of the loop, in declaration order
	seen := map[types.Object]bool{}
	var free []*types.Var
	ast.Inspect(loop, func(n ast.Node) bool {
		id, ok := n.(*ast.Ident)
		if !ok {
			return true
		}
		v, ok := pi.info.Uses[id].(*types.Var)
		if !ok || v.IsField() || v.Parent() == pi.pkg.Scope() || v.Pkg() != pi.pkg {
			return true
		}
		if v.Pos() >= loop.Pos() && v.Pos() < loop.End() {
			return true
		}
		if !seen[v] {
			seen[v] = true
			free = append(free, v)
		}
		return true
	})
	sort.Slice(free, func(i, j int) bool { return free[i].Pos() < free[j].Pos() })
	_, isFor := loop.(*ast.ForStmt)
	t.opt = isFor || loopNeedsFuel(pi, it.Pkg, loop)
	var params []string
	if t.opt {
		params = append(params, "(fuel : nat)")
	}
	for _, v := range free {
		ty := derefStruct(v.Type())
		k, ok := kindOfType(ty)
		if !ok {
			broken("loopfunc %s.%s: the loop uses variable %s of unsupported type %s", it.Pkg, it.Func, v.Name(), v.Type())
		}
		t.ensureKind(k, ty, loop)
		n := t.nameOf(v)
		params = append(params, "("+n+" : "+k.coq()+")")
		t.push(n, k.coq())
	}
	var stateT, call string
	switch l := loop.(type) {
	case *ast.ForStmt:
		run := func() string {
			stateT = tupleTypeOf(t.env)
			bare := *l
			bare.Init = nil
			return t.forLoop(&bare, nil)
		}
		if l.Init != nil {
			// the init clause runs inside the wrapper; its variables are part of the state handed back
			call = t.block([]ast.Stmt{l.Init}, run)
		} else {
			call = run()
		}
	case *ast.RangeStmt:
		stateT = tupleTypeOf(t.env)
		call = t.rangeLoop(l, nil)
	}
	name := fmt.Sprintf("%s_loop%d_run", coqFuncName(it.Pkg, it.Func), it.Nth+1)
	pos := pi.fset.Position(loop.Pos())
	fmt.Fprintf(&out, "(* loopfunc %s.%s loop %d (%s:%d): the loop as a function of the local variables it mentions *)\nDefinition %s %s : (go_ctl %s * %s)%%type :=\n  %s.\n\n",
		it.Pkg, it.Func, it.Nth+1, strings.TrimPrefix(pos.Filename, repo+"/"), pos.Line, name, strings.Join(params, " "), t.rtPlain, stateT, call)
	if it.As != "" && it.As != name {
		fmt.Fprintf(&out, "Definition %s := %s.\n\n", it.As, name)
	}
}

// loopNeedsFuel: a range loop whose body holds a for loop or calls a function that needs fuel.
func loopNeedsFuel(pi *pkgInfo, dir string, loop ast.Stmt) bool {
	res := false
	ast.Inspect(loop, func(n ast.Node) bool {
		switch x := n.(type) {
		case *ast.FuncLit:
			return false
		case *ast.ForStmt:
			res = true
		case *ast.CallExpr:
			var id *ast.Ident
			switch f := x.Fun.(type) {
			case *ast.Ident:
				id = f
			case *ast.SelectorExpr:
				id = f.Sel
			}
			if id == nil {
				return true
			}
			callee, ok := pi.info.Uses[id].(*types.Func)
			if !ok || callee.Pkg() == nil || !(callee.Pkg() == pi.pkg || calleePkgOK(callee.Pkg())) {
				return true
			}
			cd, cpi := dir, pi
			if callee.Pkg() != pi.pkg {
				cd = dirOfPkg(callee.Pkg())
				cpi = loadPkg(cd)
			}
			cfn := callee.Name()
			if sig, ok := callee.Type().(*types.Signature); ok && sig.Recv() != nil {
				if n := namedOf(sig.Recv().Type()); n != nil {
					cfn = n.Obj().Name() + "." + callee.Name()
				}
			}
			if needsFuel(cpi, cd, cfn) {
				res = true
			}
		}
		return true
	})
	return res
}
