#!/usr/bin/env python3
"""Regenerates harness/overlay/middleware/edns/zz_verif_c06_test.go from the server driver.

The two C06 drivers live in different Go packages, so the helpers they share
(abstraction to Coq terms, option builders, the scripted last handler, the
query / script generators) have to exist twice.  This script copies them from
harness/overlay/server/zz_verif_c06_test.go and appends the edns-specific
entry code below.  Not run by the check; run it by hand after editing the
shared part of the server driver:  python3 props/C06/mk_edns_driver.py
"""
import os, re
ROOT = os.path.dirname(os.path.dirname(os.path.dirname(os.path.abspath(__file__))))
src = open(os.path.join(ROOT, "harness/overlay/server/zz_verif_c06_test.go")).read()

def between(a, b):
    i = src.index(a)
    j = src.index(b, i)
    return src[i:j]

shared = (
    between("const (\n\tvC06UDP", "// ---------------------------------------------------------------- transports")
    + between("// ---------------------------------------------------------------- generators", "// ---------------------------------------------------------------- the test")
    + between("// vC06Limit is", "// vC06Runner serves one")
)

head = '''//go:build verif

package edns

// C06 driver (package middleware/edns): generated (query, scripted downstream
// response) pairs through the REAL edns handler in a middleware.Chain ahead of
// a scripted last handler, over mock.Writer transports ("udp", "tcp", "doh") —
// the entry the internal sub-pipeline and embedders use (no server-level
// QDCOUNT guard, no header accept).  Both request births are driven: decoded
// (Chain.Reset) and wire-born (Request.ParseWire + Chain.ResetWire).  The
// observation is the message the transport was handed, packed with the library.
//
// GENERATED from harness/overlay/server/zz_verif_c06_test.go by
// props/C06/mk_edns_driver.py (shared helpers) — edit there.

import (
	"context"
	"encoding/binary"
	"encoding/hex"
	"encoding/json"
	"fmt"
	"math/big"
	"math/rand"
	"net"
	"net/netip"
	"os"
	"reflect"
	"strconv"
	"strings"
	"testing"
	"time"

	"github.com/miekg/dns"
	"github.com/semihalev/sdns/config"
	"github.com/semihalev/sdns/internal/dnsutil"
	"github.com/semihalev/sdns/internal/ecs"
	"github.com/semihalev/sdns/internal/mock"
	"github.com/semihalev/sdns/middleware"
)

'''

tail = '''
// vC06Chain runs one query through [edns, stub] on a mock transport. strictTry:
// enter wire-born when the strict parser accepts the packet.
func vC06Chain(e *EDNS, proto string, raw []byte, client netip.AddrPort, strictTry bool) *dns.Msg {
	w := mock.NewWriter(proto, client.String())
	ch := middleware.NewChain([]middleware.Handler{e, vC06Stub{}})
	var req middleware.Request
	if strictTry && req.ParseWire(raw, time.Now(), new(ResponseWriter)) {
		ch.ResetWire(w, &req)
	} else {
		q := new(dns.Msg)
		if err := q.Unpack(raw); err != nil {
			return nil
		}
		ch.Reset(w, q)
	}
	ch.Next(context.Background())
	ch.Finish()
	return w.Msg()
}

func TestVerifC06Edns(t *testing.T) {
	outp := os.Getenv("VERIF_OUT")
	if outp == "" {
		t.Skip("VERIF_OUT not set")
	}
	f, err := os.Create(outp)
	if err != nil {
		t.Fatal(err)
	}
	defer f.Close()
	seed := int64(vC06EnvInt("VERIF_SEED", 1))
	r := rand.New(rand.NewSource(seed*7919 + 606))
	n := vC06EnvInt("VERIF_N", 400)
	var cfgs []*config.Config
	var hs []*EDNS
	var pols []*ecs.Policy
	for i := 0; i < 4; i++ {
		cfg := new(config.Config)
		cfg.CookieSecret = "c06-edns-" + strconv.Itoa(i)
		if i&1 == 1 {
			cfg.NSID = []string{"", "edns-nsid", "", "n"}[i]
		}
		if i&2 == 2 {
			cfg.ECS = config.ECSConfig{Enabled: true, ForwardV4Max: 20, ForwardV6Max: 48, ClientNetworks: []string{"192.0.2.0/24", "2001:db8::/32"}}
		}
		p, _ := ecs.Build(cfg.ECS.Enabled, cfg.ECS.ForwardV4Max, cfg.ECS.ForwardV6Max, cfg.ECS.MinScopeV4, cfg.ECS.MinScopeV6, cfg.ECS.ClientNetworks)
		cfgs, hs, pols = append(cfgs, cfg), append(hs, New(cfg)), append(pols, p)
	}
	clients := []netip.AddrPort{netip.MustParseAddrPort("192.0.2.7:5353"), netip.MustParseAddrPort("[2001:db8::7]:5353"), netip.MustParseAddrPort("203.0.113.9:4000")}
	protos := []string{"udp", "tcp", "doh"}

	corpus := vC06CorpusFile("steps_edns.json")
	var prev *vC06Step
	for c := 0; c < len(corpus)+n; c++ {
		var gq *vC06Q
		var sc *vC06Script
		var tr, ci, cli int
		var strictTry bool
		tune, tuneOff := false, 0
		fromCorpus := c < len(corpus)
		if fromCorpus {
			st := corpus[c]
			b, err := hex.DecodeString(st.QueryHex)
			if err != nil || st.Tr < 0 || st.Tr > vC06DOH || st.Cfg < 0 || st.Cfg > 3 || st.Client < 0 || st.Client > 2 {
				t.Fatalf("corpus step %d is malformed", c)
			}
			gq, sc, tr, ci, cli, strictTry = &vC06Q{raw: b}, st.script(), st.Tr, st.Cfg, st.Client, st.Strict
		} else {
			gq = vC06GenQuery(r)
			sc = vC06GenScript(r)
			tr = []int{vC06UDP, vC06UDP, vC06UDP, vC06TCP, vC06TCP, vC06DOH}[r.Intn(6)]
			ci = r.Intn(4)
			cli = []int{0, 0, 1, 1, 2}[r.Intn(5)]
			strictTry = r.Intn(2) == 0
			if tr == vC06UDP && r.Intn(3) == 0 {
				tune, tuneOff = true, r.Intn(3)-1
			}
		}
		client := clients[cli]
		raw := gq.raw
		body := new(dns.Msg)
		if body.Unpack(raw) != nil || len(body.Question) != 1 || body.Response {
			continue // the chain entry is only ever handed decodable single-question queries
		}
		vC06Facts(gq, body)
		twin := func() int {
			keep := sc.tab
			sc.tab = vC06NewTab()
			defer func() { sc.tab = keep }()
			vC06Cur = sc
			m := vC06Chain(hs[ci], "doh", raw, client, false)
			if m == nil {
				return 0
			}
			return m.Len()
		}
		if tune && sc.write {
			target := vC06Limit(body) + tuneOff
			if sc.fill == 0 {
				sc.fill = 10
			}
			for it := 0; it < 4; it++ {
				cl := twin()
				if cl == 0 || cl == target {
					break
				}
				nf := sc.fill + target - cl
				if nf < 1 {
					break
				}
				sc.fill = nf
			}
		}
		step := vC06MkStep(tr, ci, cli, 0, strictTry, raw, sc)
		tab := vC06NewTab()
		qCoq := tab.absMsg(body, nil)
		sc.tab = tab
		sc.called, sc.dn, sc.foreign, sc.undecoded, sc.extraOpt = false, "", false, false, false
		vC06Cur = sc
		m := vC06Chain(hs[ci], protos[tr], raw, client, strictTry)
		called, dn, foreign, strict, extraOpt := sc.called, sc.dn, sc.foreign, sc.undecoded, sc.extraOpt
		clen := 0
		if tr == vC06UDP {
			clen = twin()
		}
		vC06Cur = nil

		goFail := ""
		obsCoq := "None"
		oulen, oclen := 0, 0
		var obs *dns.Msg
		var reply []byte
		if m != nil {
			var perr error
			reply, perr = m.Pack()
			if perr != nil {
				goFail = "reply does not pack: " + perr.Error()
			} else {
				obs = new(dns.Msg)
				if err := obs.Unpack(reply); err != nil {
					goFail = "reply does not unpack: " + err.Error()
					obs = nil
				} else {
					obsCoq = "(Some (" + tab.absMsg(obs, nil) + "))"
					oulen = obs.Len()
					cm := obs.Copy()
					cm.Compress = true
					oclen = cm.Len()
				}
			}
		}
		dnCoq := "None"
		if dn != "" {
			dnCoq = "(Some (" + dn + "))"
		}
		cfg := cfgs[ci]
		nsidCoq := "None"
		if cfg.NSID != "" {
			nsidCoq = fmt.Sprintf("(Some (mk_eopt 3 %d %s))", len(cfg.NSID), new(big.Int).SetBytes([]byte(cfg.NSID)).String())
		}
		cookieCoq := "0"
		if gq.cookie != "" {
			ip := net.IP(client.Addr().AsSlice())
			sck := dnsutil.GenerateServerCookie(cfg.CookieSecret, ip.String(), gq.cookie)
			b, _ := hex.DecodeString(sck)
			cookieCoq = new(big.Int).SetBytes(b).String()
		}
		ecsCoq := "None"
		if gq.ecsOpt != nil && pols[ci].Allows(client.Addr()) {
			if fwd := pols[ci].Clamp(gq.ecsOpt); fwd != nil {
				ecsCoq = "(Some (" + vC06AbsEopt(fwd) + "))"
			}
		}
		cfgCoq := fmt.Sprintf("(mk_cfg %s %s %s)", nsidCoq, cookieCoq, ecsCoq)
		coq := fmt.Sprintf("CaseChain %s %s %s (%s) %s %s %d %s %d %d %d", vC06TrName[tr], cfgCoq, tab.table(), qCoq, vC06B(strict), dnCoq, clen, obsCoq, len(reply), oulen, oclen)
		coq = fmt.Sprintf("CaseBytes [] 0 %s (%s)", vC06Octets(vC06OptTail(obs, reply)), coq)

		k := "chain-" + strings.ToLower(vC06TrName[tr]) + "-"
		if fromCorpus {
			k = "corpus-" + k
		}
		switch {
		case obs == nil:
			k += "nowrite"
		case !called && obs.Rcode == dns.RcodeBadVers:
			k += "badvers"
		case !called && obs.Rcode == dns.RcodeNotImplemented:
			k += "notimp"
		case !called:
			k += "other"
		case obs.Truncated && len(obs.Answer) == 0 && sc.write && !sc.tc:
			k += "truncated"
		default:
			k += "shaped"
			if strict {
				k += "-strict"
			}
		}
		switch {
		case !called && obs != nil && obs.Rcode == dns.RcodeBadVers && ecsCoq != "None":
			k += "-ecs"
		case !called && obs != nil && obs.Rcode == dns.RcodeBadVers && tr == vC06UDP && len(raw) > vC06Limit(body):
			k += "-bigquery"
		case called && extraOpt && gq.hasOpt && obs != nil:
			k += "-extraopt"
		case called && foreign && gq.hasOpt && obs != nil:
			k += "-foreignopt"
		}
		fkey := ""
		relax := 0
		if sc.optMode == 4 {
			k += "-reqoptjunk"
			relax = 1
		}
		nontrivial := !(called && !gq.hasOpt && sc.optMode == 0 && len(sc.ns) == 0)
		rec := map[string]any{
			"k": k, "coq": coq, "nontrivial": nontrivial,
			"desc": map[string]any{"transport": protos[tr], "cfg": ci, "client": client.String(), "query_hex": hex.EncodeToString(raw),
				"wire_born": strict, "downstream": dn, "reply_hex": hex.EncodeToString(reply), "clen_oracle": clen, "step": step, "prev_step": prev},
		}
		prev = step
		if goFail == "" && tab.bad != "" {
			goFail = "driver cannot abstract a record: " + tab.bad
		}
		if goFail != "" {
			rec["go_fail"] = goFail
		}
		if fkey != "" {
			rec["fkey"] = fkey
		}
		if relax != 0 {
			rec["coq"] = fmt.Sprintf("CaseRelax %d (%s)", relax, coq)
			relax = 0
		}
		b, _ := json.Marshal(rec)
		f.Write(append(b, '\\n'))
		if relax != 0 {
			rec2 := map[string]any{"k": k + "-relaxed", "coq": fmt.Sprintf("CaseRelax %d (%s)", relax, coq), "nontrivial": false, "desc": rec["desc"]}
			b2, _ := json.Marshal(rec2)
			f.Write(append(b2, '\\n'))
		}
	}
}

var _ = binary.BigEndian
'''
out = os.path.join(ROOT, "harness/overlay/middleware/edns/zz_verif_c06_test.go")
os.makedirs(os.path.dirname(out), exist_ok=True)
open(out, "w").write(head + shared + tail)
print("wrote", out)

# ---- third copy: package middleware/cache (the real cache as the downstream of the edns layer) ----
head_cache = head.replace("package edns", "package cache").replace(
    '\t"github.com/semihalev/sdns/middleware"\n)', '\t"github.com/semihalev/sdns/middleware"\n\t"github.com/semihalev/sdns/middleware/edns"\n)')
head_cache = head_cache[:head_cache.index("// C06 driver")] + """// C06 driver (package middleware/cache): the REAL cache as what is downstream of the edns layer.
// Cache states (exact entries, negative entries, alias chains held entirely in the cache) are
// primed through the store; generated queries enter a Chain [edns, recorder, cache, miss-marker]
// wire-born (Request.ParseWire + ResetWire) or decoded, on a transport with the wire lease.  The
// recorder sits where the edns writer is handed the cache's product: a message (WriteMsg) or a
// packed body with its WireInfo (WriteWire / CommitWire).  Observation = the octets the
// transport sent.
//
// GENERATED by props/C06/mk_edns_driver.py: shared helpers from the server driver + the tail in
// props/C06/cache_driver_tail.go.txt — edit there.

""" + head_cache[head_cache.index("import ("):]
tail_cache = open(os.path.join(ROOT, "props/C06/cache_driver_tail.go.txt")).read()
out = os.path.join(ROOT, "harness/overlay/middleware/cache/zz_verif_c06_test.go")
os.makedirs(os.path.dirname(out), exist_ok=True)
open(out, "w").write(head_cache + shared + tail_cache)
print("wrote", out)

