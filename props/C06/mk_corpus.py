#!/usr/bin/env python3
"""Adds replayable steps to corpus/C06/steps_<driver>.json (what the C06 drivers run first, in order).

  mk_corpus.py replay <name> [work/C06/replay.json]       the failing case of a replay (+ the step before it)
  mk_corpus.py trace  <driver> <name> <trace.jsonl> <line> [<line> ...]   cases of a driver trace, by 0-based line
  mk_corpus.py stale  <name> <trace.jsonl> <line>          case <line> of a server trace preceded by the most recent
                                                           earlier step on the same (transport, cfg) whose reply
                                                           carried a server cookie (history-dependent failures)

Every case's desc carries its own `step` and the `prev_step`; a step is (transport, cfg, client, qid, packet,
script of the last handler) — see vC06Step in harness/overlay/server/zz_verif_c06_test.go.
"""
import json, os, sys
ROOT = os.path.dirname(os.path.dirname(os.path.dirname(os.path.abspath(__file__))))


def load(driver):
    p = os.path.join(ROOT, "corpus", "C06", "steps_%s.json" % driver)
    return p, (json.load(open(p)) if os.path.exists(p) else [])


def save(p, steps):
    os.makedirs(os.path.dirname(p), exist_ok=True)
    with open(p, "w") as f:
        f.write("[\n" + ",\n".join(" " + json.dumps(s, sort_keys=True) for s in steps) + "\n]\n")
    print("wrote", p, len(steps), "steps")


def add(driver, name, steps):
    p, cur = load(driver)
    have = {json.dumps({k: v for k, v in s.items() if k != "name"}, sort_keys=True) for s in cur}
    for i, s in enumerate(x for x in steps if x):
        s = dict(s)
        s["name"] = "%s/%d" % (name, i)
        key = json.dumps({k: v for k, v in s.items() if k != "name"}, sort_keys=True)
        if key in have and len(steps) == 1:
            continue
        cur.append(s)
    save(p, cur)


def main():
    cmd = sys.argv[1]
    if cmd == "replay":
        name = sys.argv[2]
        r = json.load(open(sys.argv[3] if len(sys.argv) > 3 else os.path.join(ROOT, "work/C06/replay.json")))
        d = r["case"]["desc"]
        add(r["driver"], name, [d.get("prev_step"), d["step"]])
    elif cmd == "trace":
        driver, name, trace = sys.argv[2:5]
        lines = open(trace).read().splitlines()
        add(driver, name, [json.loads(lines[int(i)])["desc"]["step"] for i in sys.argv[5:]])
    elif cmd == "stale":
        name, trace, line = sys.argv[2], sys.argv[3], int(sys.argv[4])
        recs = [json.loads(l) for l in open(trace).read().splitlines()]
        b = recs[line]["desc"]["step"]
        a = None
        for r in reversed(recs[:line]):
            s = r["desc"]["step"]
            if s["tr"] == b["tr"] and s["cfg"] == b["cfg"] and "000a0028" in r["desc"].get("reply_hex", ""):
                a = s
                break
        add("server", name, [a, b])
    else:
        sys.exit(__doc__)


if __name__ == "__main__":
    main()
