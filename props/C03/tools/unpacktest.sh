#!/bin/bash
# usage: unpacktest.sh <dir of a (mutated) copy of github.com/miekg/dns at go.mod's version>
# Does Proofs_Unpack.v still prove when the miekg items of srcgen.json are translated from that copy?
# (check.py reads the module cache; this tool stands in for a go.mod bump to a library that behaves differently.)
src=$(readlink -f "$1"); d=/verif/work/c03_dev/un; rm -rf $d; mkdir -p $d/mc/github.com/miekg $d/theories/Common $d/theories/Gen $d/theories/C03
ver=$(grep -m1 'github.com/miekg/dns ' /repo/go.mod | awk '{print $2}')
ln -s "$src" $d/mc/github.com/miekg/dns@$ver
python3 - <<PY
import json
s=json.load(open('/verif/props/C03/srcgen.json'))
s['items']=[i for i in s['items'] if i.get('pkg')=='github.com/miekg/dns']
json.dump(s,open('$d/spec.json','w'))
PY
GOMODCACHE=$d/mc timeout 300 /verif/work/bin/srcgen -repo /repo -spec $d/spec.json -out $d/miekg.v || { echo "translation refused (tie broken)"; exit 1; }
# the real Gen/C03.v with its miekg tail (from the first miekg const on) replaced by the variant's
python3 - <<PY
g=open('/verif/coq/theories/Gen/C03.v').read(); m=open('$d/miekg.v').read()
cut=g.index('(* const: github.com/miekg/dns.'); mc=m.index('(* const: github.com/miekg/dns.')
open('$d/theories/Gen/C03.v','w').write(g[:cut]+m[mc:])
PY
cp /verif/coq/theories/Common/*.v /verif/coq/theories/Common/*.vo $d/theories/Common/ 2>/dev/null
for f in Model Proofs_Key Proofs_Gen Proofs_Unpack; do cp /verif/coq/theories/C03/$f.v $d/theories/C03/; done
cd $d; for f in Gen/C03 C03/Model C03/Proofs_Key C03/Proofs_Gen C03/Proofs_Unpack; do timeout 900 coqc -Q theories Sdns theories/$f.v 2>&1 | grep -v "^Closed" | head -12; [ ${PIPESTATUS[0]} -eq 0 ] || { echo "unpacktest: $f FAILED"; exit 1; }; done; echo "unpacktest: all proofs hold"
