#!/bin/bash
# usage: corpus_try.sh <repo path>   — run only the corpus scripts of the dev driver against that tree, judge with Coq
repo=${1:-/repo}; d=/verif/work/c03_dev; mkdir -p $d; out=$d/try; rm -rf $out; mkdir -p $out/scratch
echo "{\"Replace\": {\"$repo/middleware/cache/zz_verif_c03_test.go\": \"${DRIVER:-/verif/harness/overlay/middleware/cache/zz_verif_c03_test.go}\"}}" > $out/ov.json
(cd $repo && GOFLAGS=-mod=mod GOPROXY=off CGO_ENABLED=0 timeout 600 go test -c -vet=off -tags verif -overlay $out/ov.json -o $out/store.test ./middleware/cache) || exit 2
(cd $out && VERIF_SEED=1 VERIF_TIER=quick VERIF_N=${N:-0} VERIF_OUT=$out/out.jsonl VERIF_CORPUS=/verif/corpus/C03 VERIF_SCRATCH=$out/scratch timeout 300 ./store.test -test.run '^TestVerifC03Store$' -test.count=1 >/dev/null 2>$out/err.txt) || { tail -20 $out/err.txt; }
python3 - $out <<'PY'
import json,sys
out=sys.argv[1]
cs=[json.loads(l) for l in open(out+'/out.jsonl')]
cs=[c for c in cs if not c.get('inconclusive')]
open(out+'/cases.v','w').write("From Sdns Require Import Common.Base C03.Run.\nDefinition cases : list case :=\n  [ "+";\n  ".join(c['coq'] for c in cs)+" ].\nDefinition M := Eval vm_compute in (failing check_case cases, failing spec_case cases).\nPrint M.\n")
json.dump(cs,open(out+'/cases.json','w'))
for i,c in enumerate(cs):
    if c.get('go_fail'): print("GO_FAIL",i,c['desc'][0][:60] if isinstance(c['desc'],list) else '',"::",c['go_fail'][:200])
print(len(cs),"cases")
PY
cd $out && timeout 600 coqc -Q /verif/coq/theories Sdns cases.v 2>&1 | tr '\n' ' ' | sed 's/  */ /g' | cut -c1-400; echo
