#!/bin/bash
# usage: gentest.sh <Gen variant .v>  — does Proofs_Gen.v still prove against this translation?
d=/verif/work/c03_dev/cq; rm -rf $d; mkdir -p $d/theories/Common $d/theories/Gen $d/theories/C03
cp /verif/coq/theories/Common/*.v /verif/coq/theories/Common/*.vo $d/theories/Common/ 2>/dev/null
cp $1 $d/theories/Gen/C03.v
cp /verif/coq/theories/C03/Model.v /verif/coq/theories/C03/Proofs_Key.v /verif/coq/theories/C03/Proofs_Gen.v $d/theories/C03/
cd $d; for f in Gen/C03 C03/Model C03/Proofs_Key C03/Proofs_Gen; do timeout 900 coqc -Q theories Sdns theories/$f.v 2>&1 | grep -v "^Closed" | head -12 || exit 1; done; echo "gentest finished"
