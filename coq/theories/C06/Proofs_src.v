(* C06 — source-text pins: the lines of /repo the model's accept ladder,
   in-place reject header, AD rule and size rule were written against,
   re-read by srcgen on every run.  If one of them changes, the lemma
   below stops compiling and the check reports a broken tie. *)
From Sdns Require Import Common.Base Gen.C06.
From Coq Require Import String Ascii.
Open Scope N_scope.

Definition bytes_of (s : string) : list N := map (fun a => N_of_ascii a) (list_ascii_of_string s).

Lemma gen_accept_src_qr : accept_src_qr = [bytes_of "h.QR()"].
Proof. reflexivity. Qed.
Lemma gen_accept_src_opcode :
  accept_src_opcode = [bytes_of "op := h.Opcode(); op != dns.OpcodeQuery && op != dns.OpcodeNotify"].
Proof. reflexivity. Qed.
Lemma gen_reject_src_flags :
  udp_reject_src_flags = [bytes_of "0x80 | (opcode << 3) | (j.rx[2] & 0x01)"]
  /\ tcp_reject_src_flags = udp_reject_src_flags.
Proof. split; reflexivity. Qed.
Lemma gen_edns_stream_protos : edns_stream_protos_src = [bytes_of """tcp"", ""doq"", ""doh"""].
Proof. reflexivity. Qed.
Lemma gen_edns_noad :
  edns_noad_src = [bytes_of "req.CheckingDisabled || (!req.AuthenticatedData && !do)"]
  /\ edns_noad_wire_src = [bytes_of "req.CD() || (!req.AD() && !req.DO())"].
Proof. split; reflexivity. Qed.
Lemma gen_edns_wire_size :
  edns_wire_size_src = [bytes_of "min(max(int(req.UDPSize()), dns.MinMsgSize), dnsutil.DefaultMsgSize)"].
Proof. reflexivity. Qed.
