(* C06 — source-text pins: the lines of /repo the model's accept ladder,
   in-place reject header, AD rule and size rule were written against,
   re-read by srcgen on every run.  If one of them changes, the lemma
   below stops compiling and the check reports a broken tie. *)
From Sdns Require Import Common.Base Gen.C06.
From Coq Require Import String Ascii.
Open Scope N_scope.

Definition bytes_of (s : string) : list N := map (fun a => N_of_ascii a) (list_ascii_of_string s).

Lemma gen_reject_src_flags :
  udp_reject_src_flags = [bytes_of "0x80 | (opcode << 3) | (j.rx[2] & 0x01)"]
  /\ tcp_reject_src_flags = udp_reject_src_flags.
Proof. split; reflexivity. Qed.
Lemma gen_edns_stream_protos : edns_stream_protos_src = [bytes_of """tcp"", ""doq"", ""doh"""].
Proof. reflexivity. Qed.
Lemma gen_edns_noad :
  edns_noad_src = [bytes_of "req.CheckingDisabled || (!req.AuthenticatedData && !do)"]
  /\ edns_noad_wire_src = [bytes_of "req.CD() || (!req.AD() && !req.DO())"].
Proof. split; reflexivity. Qed.
Lemma gen_edns_wire_size :
  edns_wire_size_src = [bytes_of "min(max(int(req.UDPSize()), dns.MinMsgSize), dnsutil.DefaultMsgSize)"].
Proof. reflexivity. Qed.

(* inventory of the statements that write the options of an existing OPT, per file that has one
   (Proofs.opt_writer models exactly these; a new writer in one of these files breaks the pin —
   a writer in a NEW file is not seen: see "srcgen wishes" in NOTES.md) *)
Lemma gen_opt_writers :
  opt_writers_ede = [bytes_of "append(opt.Option, ede)"]
  /\ opt_writers_helpers = [bytes_of "nil"; bytes_of "append(opt.Option, forwarded)"]
  /\ opt_writers_cache_types = [bytes_of "append(opt.Option, e.ede)"]
  /\ opt_writers_pool = [bytes_of "append(msg.IsEdns0().Option, ka)"].
Proof. repeat split; reflexivity. Qed.

(* appendWireOPT (middleware/edns/wire.go): the builders it calls, in order, with their arguments,
   and the guards in front of them — WireOpt.append_wire_opt composes the TRANSLATED builders in
   exactly this order under exactly these guards *)
Lemma gen_wire_opt_calls :
  wire_opt_calls_src = [bytes_of "AppendOPTHeader(body, w.respUDPSize, w.do)";
                        bytes_of "AppendOption(body, dns.EDNS0COOKIE, cookie[:])";
                        bytes_of "AppendOptionString(body, dns.EDNS0NSID, w.nsidstr)";
                        bytes_of "AppendOption(body, dns.EDNS0TCPKEEPALIVE, timeout[:])";
                        bytes_of "AppendOptionEDE(body, info.EDECode, info.EDEText)";
                        bytes_of "FinishOPT(body, rdlenOff)"]
  /\ wire_opt_guards_src = [bytes_of "w.cookie != """" || w.hasCookieRaw"; bytes_of "w.nsidstr != """" && w.nsid";
                            bytes_of "w.keepalive"; bytes_of "info.HasEDE"].
Proof. split; reflexivity. Qed.

(* session 4 — the cache's reply producers (Model.apply_reply / hit_ad / hit_wire).  wire.ApplyReply and
   wire.ClearAD return nothing, which purefunc still refuses: the header masks are tied as constants
   (the weights Run.hdr_word gives the bits) and the flag / AD statements as text. *)
Lemma gen_hit_flags :
  wflag_qr = 32768 /\ wflag_aa = 1024 /\ wflag_tc = 512 /\ wflag_rd = 256 /\ wflag_ra = 128 /\ wflag_ad = 32
  /\ wflag_cd = 16 /\ wflag_opcode_sh = 11 /\ wflag_opcode_msk = 30720.
Proof. repeat split; reflexivity. Qed.
Lemma gen_hit_src :
  apply_reply_src = [bytes_of "flags |= FlagQR"; bytes_of "flags &^= FlagAA";
                     bytes_of "flags = (flags &^ FlagOpcodeMsk) | (uint16(opcode)<<FlagOpcodeSh)&FlagOpcodeMsk";
                     bytes_of "flags |= FlagRD"; bytes_of "flags &^= FlagRD"; bytes_of "flags |= FlagCD"; bytes_of "flags &^= FlagCD"]
  /\ hit_exact_ad_src = [bytes_of "authData := header.AD()"; bytes_of "if req.CheckingDisabled && authData {";
                         bytes_of "wire.ClearAD(body)"; bytes_of "authData = false"]
  /\ hit_exact_req_ad_src = [bytes_of "authData := header.AD()"; bytes_of "if req.CD() && authData {";
                             bytes_of "wire.ClearAD(body)"; bytes_of "authData = false"]
  /\ hit_chase_merge_src = [bytes_of "ad = ad && segs[i].ad"]
  /\ hit_chase_ad_src = [bytes_of "if !ad {"; bytes_of "wire.ClearAD(body)"; bytes_of "authData := ad";
                         bytes_of "if req.CD() && authData {"; bytes_of "wire.ClearAD(body)"; bytes_of "authData = false"]
  /\ hit_info_ad_src = [bytes_of "authData"].
Proof. repeat split; reflexivity. Qed.

(* session 5 — the four in-place header setters and the call sequences of the cut / failure composers
   (Proofs_word.v writes them on the flags word; Model.produce follows the call order) *)
Lemma gen_hit_word_src :
  clear_ad_src = [bytes_of "body[3] &^= FlagAD"] /\ set_ad_src = [bytes_of "body[3] |= 0x20"]
  /\ set_ra_src = [bytes_of "body[3] |= 0x80"] /\ set_rcode_src = [bytes_of "body[3] = body[3]&0xF0 | byte(rcode&0x0F)"]
  /\ cut_wire_calls_src = [bytes_of "wire.ApplyReply(body, req.ID(), req.Opcode(), req.RD(), req.CD())";
                           bytes_of "wire.SetRcode(body, dns.RcodeNameError)"; bytes_of "wire.SetRA(body)"; bytes_of "wire.SetAD(body)"]
  /\ failure_wire_calls_src = [bytes_of "wire.ApplyReply(body, req.ID(), req.Opcode(), req.RD(), req.CD())";
                               bytes_of "wire.SetRcode(body, dns.RcodeServerFailure)"; bytes_of "wire.SetRA(body)"].
Proof. repeat split; reflexivity. Qed.

(* WriteWire's top-level guards, in order (Model.write_wire follows them) *)
Lemma gen_write_wire_guards :
  write_wire_guards_src = [bytes_of "!ok || len(body) < wire.HeaderLen"; bytes_of "!w.do && info.HasDNSSEC";
                           bytes_of "w.noad && info.AuthenticatedData"; bytes_of "w.noedns"; bytes_of "!ok"; bytes_of "!ok";
                           bytes_of "w.Proto() == ""udp"" && len(withOPT) > w.size"].
Proof. reflexivity. Qed.
