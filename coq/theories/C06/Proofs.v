(* C06 — proofs about the reply-path model (Model.v), stated with the very
   predicates the correspondence check applies to the observed replies
   (Run.v: hdr_echo, quest_echo, has_opt, no_dnssec, no_ecs_ka, options_own,
   tc_minimal, udp_limit ...). *)
From Sdns Require Import Common.Base Gen.C06 C06.Model C06.Run.
Open Scope N_scope.

(* Ties to constants and translated functions (the source-text pins are in Proofs_src.v) *)
(* the numbers the statement names *)
Lemma gen_sizes : default_msg_size = 1232 /\ tcp_keepalive_units = 80 /\ server_cookie_len = 40
                  /\ header_len = 12 /\ opt_fixed_len = 11 /\ opt_option_hdr_len = 4 /\ doq_reply_id = 0
                  /\ edns_opcode_floor = 0%Z.
Proof. repeat split; reflexivity. Qed.
Lemma gen_accept_counts : accept_qd = 1 /\ accept_an_max = 1 /\ accept_ns_max = 1 /\ accept_ar_max = 2.
Proof. repeat split; reflexivity. Qed.

(* the library constants the model writes out are the ones the code names *)
(* type_rrsig (46) is no longer pinned here: dnsutil.ClearDNSSEC is translated as a whole (Proofs_strip.v) *)
Lemma gen_lib_consts :
  min_msg_size = lib_min_msg_size /\ max_msg_size = lib_max_msg_size /\ rcode_badvers = lib_rcode_badvers
  /\ rcode_notimp = lib_rcode_notimp /\ rcode_formerr = lib_rcode_formerr /\ lib_reject_default_rcode = rcode_formerr
  /\ code_cookie = lib_code_cookie /\ code_nsid = lib_code_nsid
  /\ code_keepalive = lib_code_keepalive /\ lib_code_keepalive_wire = lib_code_keepalive.
Proof. repeat split; reflexivity. Qed.

(* server.acceptHeader, translated from the Go AST together with wire.Header and its accessors,
   IS the model's accept ladder (verdict numbering: the iota order of the acceptVerdict constants) *)
Definition verdict_code (v : verdict) : N :=
  match v with AcceptOK => 0 | AcceptIgnore => 1 | AcceptNotImp => 2 | AcceptFormErr => 3 end.
Lemma gen_acceptHeader h : go_acceptHeader h = verdict_code (accept_header h).
Proof.
  unfold go_acceptHeader, accept_header, opcode_query, opcode_notify, accept_qd, accept_an_max, accept_ns_max, accept_ar_max.
  destruct (go_Header_QR h); [reflexivity|].
  destruct (negb (go_Header_Opcode h =? 0)%Z && negb (go_Header_Opcode h =? 4)%Z); [reflexivity|].
  destruct (negb (T_Header_QDCount h =? 1) || (1 <? T_Header_ANCount h) || (1 <? T_Header_NSCount h) || (2 <? T_Header_ARCount h)); reflexivity.
Qed.

(* the translated header accessors say what the model's reject header says *)
Lemma gen_Header_Opcode h : go_Header_Opcode h = Z.of_N (flags_opcode h).
Proof.
  unfold go_Header_Opcode, flags_opcode.
  destruct (N.shiftr (T_Header_Flags h) 11); reflexivity.
Qed.
Lemma gen_Header_QR h : go_Header_QR h = flags_qr h.
Proof. reflexivity. Qed.

(* ------------------------------------------------------------------ *)
(* Premises about "everything downstream of the edns handler"          *)

(* downstream built its response with SetReply on the request it was handed *)
Definition dn_echo (q d : msg) : Prop :=
  h_qr (m_hdr d) = true /\ h_id (m_hdr d) = h_id (m_hdr q)
  /\ h_opcode (m_hdr d) = h_opcode (m_hdr q) /\ m_q d = m_q q.
Definition opt_count (ex : list xrr) : nat := length (filter is_opt ex).
Definition one_opt (d : msg) : Prop := (opt_count (m_ex d) <= 1)%nat.
(* the two oracle options have the codes their names say *)
Definition cfg_wf (c : cfg) : Prop :=
  (forall e, c_ecs_fwd c = Some e -> e_code e = code_ecs)
  /\ (forall n, c_nsid c = Some n -> e_code n = code_nsid).

Definition client_opt (q : msg) : option opt := last_opt (m_ex q).
Definition client_do (q : msg) : bool := match client_opt q with Some o => o_do o | None => false end.
Definition client_ver (q : msg) : N := match client_opt q with Some o => o_ver o | None => 0 end.
Definition asked_rrsig (q : msg) : bool := match m_q q with x :: _ => q_type x =? type_rrsig | [] => false end.

(* ------------------------------------------------------------------ *)
(* Lists of additional records                                         *)

Definition ex_opts (ex : list xrr) : list eopt :=
  flat_map (fun x => match opt_of x with Some o => o_opts o | None => [] end) ex.

Lemma all_opts_ex m : all_opts m = ex_opts (m_ex m).
Proof. reflexivity. Qed.

Lemma ex_opts_app a b : ex_opts (a ++ b) = ex_opts a ++ ex_opts b.
Proof. unfold ex_opts. apply flat_map_app. Qed.

Lemma ex_opts_cons x l :
  ex_opts (x :: l) = match opt_of x with Some o => o_opts o | None => [] end ++ ex_opts l.
Proof. reflexivity. Qed.

Lemma no_opt_ex_opts l : filter is_opt l = [] -> ex_opts l = [].
Proof.
  unfold ex_opts. induction l as [|x l IH]; cbn; [reflexivity|].
  destruct x; cbn; try discriminate. intros H. exact (IH H).
Qed.

Lemma ex_opts_norm l : ex_opts (map norm_x l) = ex_opts l.
Proof. unfold ex_opts. induction l as [|x l IH]; cbn; [reflexivity|]. destruct x; cbn; rewrite <- IH; reflexivity. Qed.

Lemma filter_is_opt_norm l : filter is_opt (map norm_x l) = map norm_x (filter is_opt l).
Proof. induction l as [|x l IH]; cbn; [reflexivity|]. destruct x; cbn; rewrite IH; reflexivity. Qed.

Lemma existsb_is_opt_norm l : existsb is_opt (map norm_x l) = existsb is_opt l.
Proof. induction l as [|x l IH]; cbn; [reflexivity|]. destruct x; cbn; rewrite ?IH; reflexivity. Qed.

Lemma forallb_is_opt_norm l : forallb is_opt (map norm_x l) = forallb is_opt l.
Proof. induction l as [|x l IH]; cbn; [reflexivity|]. destruct x; cbn; rewrite ?IH; reflexivity. Qed.

Lemma keep_opt_only_incl l e : In e (ex_opts (keep_opt_only l)) -> In e (ex_opts l).
Proof.
  unfold ex_opts. induction l as [|x l IH]; cbn; [tauto|].
  destruct x; cbn.
  - exact IH.
  - rewrite app_nil_r. intros H. apply in_or_app. left. exact H.
  - rewrite app_nil_r. intros H. apply in_or_app. left. exact H.
Qed.

Lemma keep_opt_only_all_opt l : forallb is_opt (keep_opt_only l) = true.
Proof. induction l as [|x l IH]; cbn; [reflexivity|]. destruct x; cbn; auto. Qed.

Lemma keep_opt_only_none l : filter is_opt l = [] -> keep_opt_only l = [].
Proof. induction l as [|x l IH]; cbn; [reflexivity|]. destruct x; cbn; try discriminate. exact IH. Qed.

Lemma existsb_filter_nil {A} (f : A -> bool) l : filter f l = [] -> existsb f l = false.
Proof. induction l as [|x l IH]; cbn; [reflexivity|]. destruct (f x); cbn; [discriminate|exact IH]. Qed.

Lemma filter_neg_is_opt l : filter is_opt (filter (fun x => negb (is_opt x)) l) = [].
Proof. induction l as [|x l IH]; cbn; [reflexivity|]. destruct x; cbn; exact IH. Qed.

(* split_last_opt really splits at the last OPT *)
Lemma split_last_opt_none ex : split_last_opt ex = None -> filter is_opt ex = [].
Proof.
  induction ex as [|x ex IH]; cbn; [reflexivity|].
  destruct (split_last_opt ex) as [[[pre o] suf]|]; [discriminate|].
  destruct x; try discriminate. intros _. cbn. apply IH. reflexivity.
Qed.

Lemma split_last_opt_some ex pre b o suf :
  split_last_opt ex = Some (pre, (b, o), suf) ->
  ex = pre ++ (if b then XReq o else XO o) :: suf /\ filter is_opt suf = [].
Proof.
  revert pre b o suf. induction ex as [|x ex IH]; cbn; intros pre b o suf H; [discriminate|].
  destruct (split_last_opt ex) as [[[pre' [b' o']] suf']|] eqn:E.
  - inversion H; subst. destruct (IH _ _ _ _ eq_refl) as [-> Hs]. split; [reflexivity|exact Hs].
  - pose proof (split_last_opt_none _ E) as Hn.
    destruct x; inversion H; subst; split; try reflexivity; exact Hn.
Qed.

Lemma last_opt_split ex :
  last_opt ex = match split_last_opt ex with Some (_, (_, o), _) => Some o | None => None end.
Proof.
  induction ex as [|x ex IH]; cbn; [reflexivity|]. rewrite IH.
  destruct (split_last_opt ex) as [[[pre [b o]] suf]|]; [reflexivity|]. destruct x; reflexivity.
Qed.

Lemma last_opt_none_filter ex : last_opt ex = None -> filter is_opt ex = [].
Proof.
  rewrite last_opt_split. destruct (split_last_opt ex) as [[[pre [b o]] suf]|] eqn:E; [discriminate|].
  intros _. apply split_last_opt_none. exact E.
Qed.

Lemma one_opt_pre pre x suf :
  is_opt x = true -> (opt_count (pre ++ x :: suf) <= 1)%nat -> filter is_opt pre = [].
Proof.
  unfold opt_count. rewrite filter_app. cbn. intros ->. rewrite app_length. cbn.
  destruct (filter is_opt pre); [reflexivity|cbn; lia].
Qed.

(* ------------------------------------------------------------------ *)
(* Option-list surgery                                                 *)

Lemma in_strip c l e : In e (strip_code c l) <-> In e l /\ e_code e <> c.
Proof.
  unfold strip_code. rewrite filter_In. split; intros [H1 H2]; split; auto.
  - intros E. rewrite E, N.eqb_refl in H2. discriminate.
  - apply negb_true_iff. apply N.eqb_neq. exact H2.
Qed.

Lemma in_finish w l e :
  In e (finish_opts w l) ->
  (In e l /\ e_code e <> code_ecs /\ e_code e <> code_keepalive) \/ (w_ka w = true /\ e = keepalive_opt).
Proof.
  unfold finish_opts. intros H. apply in_app_or in H. destruct H as [H|H].
  - apply in_strip in H. destruct H as [H Hk]. apply in_strip in H. destruct H as [H He]. left. auto.
  - destruct (w_ka w); [|destruct H]. destruct H as [<-|[]]. right. auto.
Qed.

Lemma in_own_opts c w e :
  In e (own_opts c w) ->
  (w_cookie w = true /\ e = cookie_opt c) \/ (w_nsid w = true /\ c_nsid c = Some e).
Proof.
  unfold own_opts. intros H. apply in_app_or in H. destruct H as [H|H].
  - destruct (w_cookie w); [|destruct H]. destruct H as [<-|[]]. left. auto.
  - destruct (c_nsid c) as [n|]; [|destruct H]. destruct (w_nsid w); [|destruct H].
    destruct H as [<-|[]]. right. auto.
Qed.

(* keepRelayable / keepOneOPT *)
Lemma in_relay l e : In e (keep_relayable l) <-> In e l /\ e_code e = code_ede.
Proof.
  unfold keep_relayable. rewrite filter_In. split; intros [H1 H2]; split; auto.
  - apply N.eqb_eq. exact H2.
  - apply N.eqb_eq. exact H2.
Qed.
Lemma drop_opts_none l : filter is_opt (drop_opts l) = [].
Proof. apply filter_neg_is_opt. Qed.

(* the writer-owned OPT's options when WriteMsg starts *)
Definition wcur_opts (w : wstate) (ex : list xrr) : list eopt :=
  match find_req ex with Some o => o_opts o | None => match w_opt w with Some o => o_opts o | None => [] end end.

(* every option of the shaped additional section is
   - an Extended DNS Error of the response's selected OPT,
   - an option of the writer-owned OPT (the forwarded ECS copy; stripped unless downstream put more there),
   - cookie / NSID generated here — none of these with code ECS or keepalive —
   - or our keepalive.  There is exactly one OPT left, whatever the response carried. *)
Lemma shape_ex_opts c w ex e :
  In e (ex_opts (shape_ex c w ex)) ->
  (((In e (ex_opts ex) /\ e_code e = code_ede) \/ In e (wcur_opts w ex) \/ In e (own_opts c w))
   /\ e_code e <> code_ecs /\ e_code e <> code_keepalive)
  \/ (w_ka w = true /\ e = keepalive_opt).
Proof.
  unfold shape_ex, wcur_opts.
  destruct (split_last_opt ex) as [[[pre [b o]] suf]|] eqn:E.
  - destruct (split_last_opt_some _ _ _ _ _ E) as [Hex Hsuf].
    assert (Ho : forall x, In x (o_opts o) -> In x (ex_opts ex)).
    { intros x Hx. rewrite Hex, ex_opts_app. apply in_or_app. right.
      change (ex_opts ((if b then XReq o else XO o) :: suf)) with
          ((match opt_of (if b then XReq o else XO o) with Some o0 => o_opts o0 | None => [] end) ++ ex_opts suf).
      apply in_or_app. left. destruct b; exact Hx. }
    assert (Hred : forall l, In e (ex_opts (drop_opts pre ++ XO (opt_set_opts (opt_set_size (opt_set_do o (w_do w)) (w_resp w)) (finish_opts w l)) :: suf)) ->
                   In e (finish_opts w l)).
    { intros l H. rewrite ex_opts_app, (no_opt_ex_opts _ (drop_opts_none pre)), ex_opts_cons in H.
      rewrite (no_opt_ex_opts _ Hsuf), app_nil_r in H. exact H. }
    destruct b; intros H; apply Hred in H; apply in_finish in H; destruct H as [[H Hc]|H]; auto; left; split; auto.
    + apply in_app_or in H. destruct H as [H|H]; auto. apply in_relay in H. destruct H. auto.
    + apply in_app_or in H. destruct H as [H|H]; [apply in_relay in H; destruct H; auto|].
      apply in_app_or in H. destruct H as [H|H]; auto.
      right. left. destruct (find_req ex); [exact H|]. destruct (w_opt w); [exact H|destruct H].
  - intros H. pose proof (split_last_opt_none _ E) as Hn.
    rewrite ex_opts_app, (no_opt_ex_opts _ Hn) in H. cbn in H. rewrite app_nil_r in H.
    apply in_finish in H. destruct H as [[H Hc]|H]; auto. left. split; auto.
    apply in_app_or in H. destruct H as [H|H]; auto.
    right. left. destruct (find_req ex); [exact H|]. destruct (w_opt w); [exact H|destruct H].
Qed.

(* ------------------------------------------------------------------ *)
(* shape_reply, field by field                                         *)

Definition pre_of (c : cfg) (w : wstate) (d : msg) : msg := shape_pre c w d.

Lemma clear_dnssec_hdr m : m_hdr (clear_dnssec m) = m_hdr m.
Proof. unfold clear_dnssec. destruct (m_q m) as [|q ?]; [reflexivity|]. destruct (q_type q =? type_rrsig); reflexivity. Qed.
Lemma clear_dnssec_q m : m_q (clear_dnssec m) = m_q m.
Proof. unfold clear_dnssec. destruct (m_q m) as [|q ?] eqn:E; [reflexivity|]. destruct (q_type q =? type_rrsig); [exact E|reflexivity]. Qed.
Lemma clear_dnssec_ex m : m_ex (clear_dnssec m) = m_ex m.
Proof. unfold clear_dnssec. destruct (m_q m) as [|q ?]; [reflexivity|]. destruct (q_type q =? type_rrsig); reflexivity. Qed.

Lemma shape_pre_q c w d : m_q (shape_pre c w d) = m_q d.
Proof.
  unfold shape_pre. destruct (w_noad w), (w_noedns w), (w_do w); cbn; try rewrite clear_dnssec_q; reflexivity.
Qed.

Lemma shape_pre_ident c w d :
  h_id (m_hdr (shape_pre c w d)) = h_id (m_hdr d) /\ h_qr (m_hdr (shape_pre c w d)) = h_qr (m_hdr d)
  /\ h_opcode (m_hdr (shape_pre c w d)) = h_opcode (m_hdr d).
Proof.
  unfold shape_pre. destruct (w_noad w), (w_noedns w), (w_do w); cbn; try rewrite clear_dnssec_hdr; auto.
Qed.

Lemma shape_pre_ad c w d : w_noad w = true -> h_ad (m_hdr (shape_pre c w d)) = false.
Proof. unfold shape_pre. intros ->. reflexivity. Qed.

Lemma shape_pre_ex c w d :
  m_ex (shape_pre c w d) = if w_noedns w then filter (fun x => negb (is_opt x)) (m_ex d) else shape_ex c w (m_ex d).
Proof.
  unfold shape_pre. destruct (w_noad w), (w_noedns w), (w_do w); cbn; try rewrite clear_dnssec_ex; reflexivity.
Qed.

Lemma shape_pre_sections c w d :
  m_an (shape_pre c w d) = m_an (if w_do w then d else clear_dnssec d)
  /\ m_ns (shape_pre c w d) = m_ns (if w_do w then d else clear_dnssec d).
Proof. unfold shape_pre. destruct (w_noad w), (w_noedns w), (w_do w); cbn; auto. Qed.

Definition truncated (tr : transport) (c : cfg) (w : wstate) (d : msg) (clen : N) : bool :=
  is_udp tr && udp_overflow (shape_pre c w d) clen (w_size w).

Lemma shape_reply_unfold tr c w d clen :
  shape_reply tr c w d clen = norm (if truncated tr c w d clen then truncate (shape_pre c w d) else shape_pre c w d).
Proof. reflexivity. Qed.

Lemma shape_reply_q tr c w d clen : m_q (shape_reply tr c w d clen) = m_q d.
Proof. rewrite shape_reply_unfold. destruct (truncated tr c w d clen); cbn; apply shape_pre_q. Qed.

Lemma shape_reply_ident tr c w d clen :
  h_id (m_hdr (shape_reply tr c w d clen)) = h_id (m_hdr d) /\ h_qr (m_hdr (shape_reply tr c w d clen)) = h_qr (m_hdr d)
  /\ h_opcode (m_hdr (shape_reply tr c w d clen)) = h_opcode (m_hdr d).
Proof. rewrite shape_reply_unfold. destruct (truncated tr c w d clen); cbn; apply shape_pre_ident. Qed.

Lemma shape_reply_ad tr c w d clen : w_noad w = true -> h_ad (m_hdr (shape_reply tr c w d clen)) = false.
Proof. intros H. rewrite shape_reply_unfold. destruct (truncated tr c w d clen); cbn; [reflexivity|]. apply shape_pre_ad. exact H. Qed.

Lemma shape_reply_opts_incl tr c w d clen e :
  In e (all_opts (shape_reply tr c w d clen)) -> In e (ex_opts (m_ex (shape_pre c w d))).
Proof.
  rewrite shape_reply_unfold, all_opts_ex. destruct (truncated tr c w d clen); cbn; rewrite ex_opts_norm.
  - apply keep_opt_only_incl.
  - auto.
Qed.

Lemma shape_reply_dnssec tr c w d clen :
  w_do w = false -> asked_rrsig d = false -> no_dnssec (shape_reply tr c w d clen) = true.
Proof.
  intros Hdo Hq. rewrite shape_reply_unfold. unfold no_dnssec.
  destruct (truncated tr c w d clen); cbn; [reflexivity|].
  destruct (shape_pre_sections c w d) as [-> ->]. rewrite Hdo.
  unfold clear_dnssec, asked_rrsig in *. rewrite forallb_app.
  assert (F : forall l, forallb (fun r => negb (is_dnssec r)) (filter (fun r => negb (is_dnssec r)) l) = true).
  { intros l. apply forallb_forall. intros x Hx. apply filter_In in Hx. tauto. }
  destruct (m_q d) as [|q ?]; [cbn; rewrite !F; reflexivity|]. rewrite Hq. cbn. rewrite !F. reflexivity.
Qed.

Lemma shape_reply_no_opt tr c w d clen :
  w_noedns w = true -> has_opt (shape_reply tr c w d clen) = false.
Proof.
  intros Hn. rewrite shape_reply_unfold. unfold has_opt.
  assert (Hf : filter is_opt (m_ex (shape_pre c w d)) = []).
  { rewrite shape_pre_ex, Hn. apply filter_neg_is_opt. }
  destruct (truncated tr c w d clen); cbn; rewrite existsb_is_opt_norm.
  - rewrite (keep_opt_only_none _ Hf). reflexivity.
  - apply existsb_filter_nil. exact Hf.
Qed.

(* ------------------------------------------------------------------ *)
(* The request side                                                    *)

Lemma eopt_eqb_refl e : eopt_eqb e e = true.
Proof. unfold eopt_eqb. rewrite !N.eqb_refl. reflexivity. Qed.
Lemma quest_eqb_refl x : quest_eqb x x = true.
Proof. unfold quest_eqb. rewrite !N.eqb_refl. reflexivity. Qed.
Lemma list_eqb_refl {A} (f : A -> A -> bool) l : (forall x, f x x = true) -> list_eqb f l l = true.
Proof. intros H. induction l as [|x l IH]; cbn; [reflexivity|]. rewrite H, IH. reflexivity. Qed.

Lemma opcode_floor op : (edns_opcode_floor <? Z.of_N op)%Z = negb (op =? 0).
Proof. unfold edns_opcode_floor. destruct op; reflexivity. Qed.

(* what SetEdns0 reads off the client's OPT *)
Lemma set_edns0_noopt c q :
  client_opt q = None ->
  f_noedns (set_edns0 c q) = true /\ f_ver (set_edns0 c q) = 0 /\ f_do (set_edns0 c q) = false.
Proof. unfold client_opt, set_edns0. intros ->. auto. Qed.

Lemma set_edns0_ver c q : f_ver (set_edns0 c q) = client_ver q.
Proof.
  unfold client_ver, client_opt, set_edns0. destruct (last_opt (m_ex q)) as [o|]; [|reflexivity].
  destruct (o_ver o =? 0) eqn:E; cbn; [|reflexivity]. apply N.eqb_eq in E. auto.
Qed.

Lemma set_edns0_opt c q o :
  client_opt q = Some o -> o_ver o = 0 ->
  set_edns0 c q = mk_facts false 0 (clamp_size (o_size o)) (o_do o) (client_cookie_ok (o_opts o))
                           (has_code code_nsid (o_opts o)) (has_code code_keepalive (o_opts o))
                           (mk_opt 0 default_msg_size true 0 (fwd_opts c (o_opts o))).
Proof. unfold client_opt, set_edns0. intros -> ->. reflexivity. Qed.

Lemma fwd_opts_code c l e : cfg_wf c -> In e (fwd_opts c l) -> e_code e = code_ecs.
Proof.
  intros [Hw _]. unfold fwd_opts. destruct (has_code code_ecs l); [|intros []].
  destruct (c_ecs_fwd c) as [x|] eqn:E; [|intros []]. intros [<-|[]]. apply Hw. reflexivity.
Qed.

Lemma clamp_is_limit s : clamp_size s = N.max min_msg_size (N.min s default_msg_size).
Proof.
  unfold clamp_size, min_msg_size, default_msg_size.
  destruct (s <? 512) eqn:E1.
  - apply N.ltb_lt in E1. destruct (1232 <? 512) eqn:E2; [apply N.ltb_lt in E2; lia|]. lia.
  - apply N.ltb_ge in E1. destruct (1232 <? s) eqn:E2; [apply N.ltb_lt in E2|apply N.ltb_ge in E2]; lia.
Qed.

(* ------------------------------------------------------------------ *)
(* The four ways serve_msg answers                                     *)

Inductive route (tr : transport) (c : cfg) (q : msg) (strict : bool) (dn : option msg) (clen : N) (r : msg) : Prop :=
| RouteFormErr : length (m_q q) <> 1%nat -> r = transport_write tr (set_rcode q rcode_formerr) -> route tr c q strict dn clen r
| RouteNotImp : length (m_q q) = 1%nat -> h_opcode (m_hdr q) <> 0 -> r = transport_write tr (not_supported q) -> route tr c q strict dn clen r
| RouteBadVers : length (m_q q) = 1%nat -> h_opcode (m_hdr q) = 0 -> client_ver q <> 0 ->
                 r = transport_write tr (badvers_reply q (set_edns0 c q)) -> route tr c q strict dn clen r
| RouteShaped d : length (m_q q) = 1%nat -> h_opcode (m_hdr q) = 0 -> client_ver q = 0 -> dn = Some d ->
                  r = transport_write tr (shape_reply tr c (mk_wstate tr strict q (set_edns0 c q)) d clen) -> route tr c q strict dn clen r.

Lemma serve_msg_route tr c q strict dn clen r :
  serve_msg tr c q strict dn clen = Some r -> route tr c q strict dn clen r.
Proof.
  unfold serve_msg, serve_msg_gen. destruct (length (m_q q) =? 1)%nat eqn:EQ; cbn.
  2:{ intros H. inversion H. apply RouteFormErr; [|reflexivity]. apply Nat.eqb_neq. exact EQ. }
  apply Nat.eqb_eq in EQ. unfold edns_serve_gen. rewrite opcode_floor.
  destruct (h_opcode (m_hdr q) =? 0) eqn:EO; cbn.
  2:{ intros H. inversion H. apply RouteNotImp; auto. apply N.eqb_neq. exact EO. }
  apply N.eqb_eq in EO. rewrite set_edns0_ver.
  destruct (client_ver q =? 0) eqn:EV; cbn.
  2:{ intros H. inversion H. apply RouteBadVers; auto. apply N.eqb_neq. exact EV. }
  apply N.eqb_eq in EV. destruct dn as [d|]; cbn; [|discriminate].
  intros H. inversion H. eapply RouteShaped; eauto.
Qed.

Lemma tw_hdr tr m :
  h_qr (m_hdr (transport_write tr m)) = h_qr (m_hdr m) /\ h_opcode (m_hdr (transport_write tr m)) = h_opcode (m_hdr m)
  /\ h_ad (m_hdr (transport_write tr m)) = h_ad (m_hdr m) /\ h_rcode (m_hdr (transport_write tr m)) = h_rcode (m_hdr m)
  /\ h_tc (m_hdr (transport_write tr m)) = h_tc (m_hdr m)
  /\ h_id (m_hdr (transport_write tr m)) = match tr with DOQ => 0 | _ => h_id (m_hdr m) end.
Proof. destruct tr; cbn; auto 10. Qed.
Lemma tw_body tr m :
  m_q (transport_write tr m) = m_q m /\ m_an (transport_write tr m) = m_an m
  /\ m_ns (transport_write tr m) = m_ns m /\ m_ex (transport_write tr m) = m_ex m.
Proof. destruct tr; cbn; auto. Qed.

Lemma tw_echo tr q m :
  h_qr (m_hdr m) = true -> h_id (m_hdr m) = h_id (m_hdr q) -> h_opcode (m_hdr m) = h_opcode (m_hdr q) ->
  hdr_echo tr q (transport_write tr m) = true.
Proof.
  intros H1 H2 H3. unfold hdr_echo. destruct (tw_hdr tr m) as (-> & -> & _ & _ & _ & ->).
  rewrite H1, H3, N.eqb_refl. cbn. destruct tr; cbn; rewrite ?H2, ?N.eqb_refl; reflexivity.
Qed.

Lemma tw_bare tr m : is_bare_reject (transport_write tr m) = is_bare_reject m.
Proof.
  unfold is_bare_reject. destruct (tw_hdr tr m) as (_ & _ & _ & -> & _). destruct (tw_body tr m) as (-> & -> & -> & ->). reflexivity.
Qed.
Lemma tw_all_opts tr m : all_opts (transport_write tr m) = all_opts m.
Proof. unfold all_opts. destruct (tw_body tr m) as (_ & _ & _ & ->). reflexivity. Qed.
Lemma tw_has_opt tr m : has_opt (transport_write tr m) = has_opt m.
Proof. unfold has_opt. destruct (tw_body tr m) as (_ & _ & _ & ->). reflexivity. Qed.
Lemma tw_no_dnssec tr m : no_dnssec (transport_write tr m) = no_dnssec m.
Proof. unfold no_dnssec. destruct (tw_body tr m) as (_ & -> & -> & _). reflexivity. Qed.

(* the writer facts, in terms of what the client sent *)
Lemma wstate_do tr strict c q : client_ver q = 0 -> w_do (mk_wstate tr strict q (set_edns0 c q)) = client_do q.
Proof.
  unfold client_ver, client_do. destruct (client_opt q) as [o|] eqn:E.
  - intros Hv. rewrite (set_edns0_opt c q o E Hv). reflexivity.
  - intros _. destruct (set_edns0_noopt c q E) as (_ & _ & H). exact H.
Qed.

Lemma wstate_noedns tr strict c q :
  client_ver q = 0 -> w_noedns (mk_wstate tr strict q (set_edns0 c q)) = match client_opt q with None => true | Some _ => false end.
Proof.
  unfold client_ver. destruct (client_opt q) as [o|] eqn:E.
  - intros Hv. rewrite (set_edns0_opt c q o E Hv). reflexivity.
  - intros _. destruct (set_edns0_noopt c q E) as (H & _). exact H.
Qed.

Lemma wstate_noad tr strict c q :
  client_ver q = 0 ->
  w_noad (mk_wstate tr strict q (set_edns0 c q)) = h_cd (m_hdr q) || (negb (h_ad (m_hdr q)) && negb (client_do q)).
Proof. intros Hv. cbn. change (f_do (set_edns0 c q)) with (w_do (mk_wstate tr strict q (set_edns0 c q))). rewrite wstate_do; auto. Qed.

Lemma wstate_size c q strict :
  client_ver q = 0 -> w_size (mk_wstate UDP strict q (set_edns0 c q)) = udp_limit (client_opt q).
Proof.
  unfold client_ver, udp_limit. destruct (client_opt q) as [o|] eqn:E.
  - intros Hv. rewrite (set_edns0_opt c q o E Hv). cbn. apply clamp_is_limit.
  - intros _. cbn. destruct (set_edns0_noopt c q E) as (-> & _). reflexivity.
Qed.

(* ------------------------------------------------------------------ *)
(* The clauses                                                         *)

Lemma qr_id_opcode_echo_msg_l tr c q strict dn clen r :
  serve_msg tr c q strict dn clen = Some r ->
  (forall d, dn = Some d -> dn_echo q d) ->
  hdr_echo tr q r = true.
Proof.
  intros H Hd. destruct (serve_msg_route _ _ _ _ _ _ _ H) as [? ->|? ? ->|? ? ? ->|d ? ? ? Hdn ->].
  - apply tw_echo; reflexivity.
  - apply tw_echo; reflexivity.
  - apply tw_echo; reflexivity.
  - destruct (Hd d Hdn) as (Hq & Hi & Ho & _).
    destruct (shape_reply_ident tr c (mk_wstate tr strict q (set_edns0 c q)) d clen) as (Ei & Eq & Eo).
    apply tw_echo; congruence.
Qed.

Lemma question_echo_l tr c q strict dn clen r :
  serve_msg tr c q strict dn clen = Some r ->
  (forall d, dn = Some d -> dn_echo q d) ->
  is_bare_reject r = true \/ quest_echo q r = true.
Proof.
  intros H Hd. unfold quest_echo.
  destruct (serve_msg_route _ _ _ _ _ _ _ H) as [? ->|? ? ->|? ? ? ->|d Hl ? ? Hdn ->].
  - right. destruct (tw_body tr (set_rcode q rcode_formerr)) as (-> & _). apply list_eqb_refl, quest_eqb_refl.
  - left. rewrite tw_bare. reflexivity.
  - right. destruct (tw_body tr (badvers_reply q (set_edns0 c q))) as (-> & _). apply list_eqb_refl, quest_eqb_refl.
  - right. destruct (Hd d Hdn) as (_ & _ & _ & Hq).
    match goal with |- context [transport_write tr ?m] => destruct (tw_body tr m) as (-> & _) end.
    rewrite shape_reply_q, Hq.
    destruct (m_q q) as [|x [|y l]]; cbn in Hl; try discriminate. cbn. rewrite quest_eqb_refl. reflexivity.
Qed.

Lemma no_opt_unless_asked_l tr c q strict dn clen r :
  serve_msg tr c q strict dn clen = Some r -> has_opt r = true -> client_opt q <> None.
Proof.
  intros H Ho. destruct (serve_msg_route _ _ _ _ _ _ _ H) as [? ->|? ? ->|? ? Hv ->|d ? ? Hv Hdn ->];
    rewrite tw_has_opt in Ho.
  - discriminate.
  - discriminate.
  - intros E. apply Hv. unfold client_ver. rewrite E. reflexivity.
  - intros E. rewrite shape_reply_no_opt in Ho; [discriminate|]. rewrite wstate_noedns, E; auto.
Qed.

Lemma no_dnssec_l tr c q strict dn clen r :
  serve_msg tr c q strict dn clen = Some r ->
  (forall d, dn = Some d -> dn_echo q d) ->
  client_do q = false -> asked_rrsig q = false -> no_dnssec r = true.
Proof.
  intros H Hd Hdo Hq. destruct (serve_msg_route _ _ _ _ _ _ _ H) as [? ->|? ? ->|? ? ? ->|d ? ? Hv Hdn ->];
    rewrite tw_no_dnssec; try reflexivity.
  apply shape_reply_dnssec.
  - rewrite wstate_do; auto.
  - destruct (Hd d Hdn) as (_ & _ & _ & E). unfold asked_rrsig in *. rewrite E. exact Hq.
Qed.

Lemma ad_clear_l tr c q strict dn clen r :
  serve_msg tr c q strict dn clen = Some r ->
  h_cd (m_hdr q) = true \/ (client_do q = false /\ h_ad (m_hdr q) = false) ->
  is_bare_reject r = true \/ h_ad (m_hdr r) = false.
Proof.
  intros H Hc. destruct (serve_msg_route _ _ _ _ _ _ _ H) as [? ->|? ? ->|? ? ? ->|d ? ? Hv Hdn ->].
  - right. destruct (tw_hdr tr (set_rcode q rcode_formerr)) as (_ & _ & -> & _). reflexivity.
  - left. rewrite tw_bare. reflexivity.
  - right. destruct (tw_hdr tr (badvers_reply q (set_edns0 c q))) as (_ & _ & -> & _). reflexivity.
  - right. match goal with |- context [transport_write tr ?m] => destruct (tw_hdr tr m) as (_ & _ & -> & _) end.
    apply shape_reply_ad. rewrite wstate_noad; auto.
    destruct Hc as [->|[-> ->]]; [reflexivity|]. apply orb_true_r.
Qed.

Lemma existsb_false_ex_opts l : existsb is_opt l = false -> ex_opts l = [].
Proof.
  intros H. apply no_opt_ex_opts. induction l as [|x l IH]; cbn in *; [reflexivity|].
  apply orb_false_iff in H. destruct H as [H1 H2]. rewrite H1. auto.
Qed.

Lemma find_req_in ex o e : find_req ex = Some o -> In e (o_opts o) -> In e (ex_opts ex).
Proof.
  induction ex as [|x ex IH]; [discriminate|]. rewrite ex_opts_cons.
  destruct x; cbn [find_req opt_of]; intros H Hi.
  - cbn [app]. apply IH; auto.
  - apply in_or_app. right. apply IH; auto.
  - inversion H; subst. apply in_or_app. left. exact Hi.
Qed.

(* downstream may have appended options to the REQUEST's own OPT object and then sent another OPT
   after it: those options are merged unfiltered.  The premise says they are of the relayable kind
   (ECS / keepalive, stripped; EDE) — vacuous unless a response carries the request's OPT and a later OPT *)
Definition relayable (e : eopt) : Prop :=
  e_code e = code_ecs \/ e_code e = code_keepalive \/ e_code e = code_ede.
Definition req_opt_clean (d : msg) : Prop :=
  forall o, find_req (m_ex d) = Some o -> forall e, In e (o_opts o) -> relayable e.

(* where an option of a shaped reply can come from *)
Lemma shaped_option_origin tr c q strict d clen e :
  cfg_wf c -> client_ver q = 0 ->
  In e (all_opts (shape_reply tr c (mk_wstate tr strict q (set_edns0 c q)) d clen)) ->
  (In e (all_opts d) /\ e_code e = code_ede)
  \/ (exists o, find_req (m_ex d) = Some o /\ In e (o_opts o) /\ e_code e <> code_ecs /\ e_code e <> code_keepalive)
  \/ (client_cookie_ok (client_opts (client_opt q)) = true /\ e = cookie_opt c)
  \/ (has_code code_nsid (client_opts (client_opt q)) = true /\ c_nsid c = Some e)
  \/ (is_tcp tr = true /\ has_code code_keepalive (client_opts (client_opt q)) = true /\ e = keepalive_opt).
Proof.
  intros Hw Hv H. apply shape_reply_opts_incl in H. rewrite shape_pre_ex in H.
  rewrite wstate_noedns in H by exact Hv.
  destruct (client_opt q) as [o|] eqn:E.
  2:{ rewrite (no_opt_ex_opts _ (filter_neg_is_opt _)) in H. destruct H. }
  assert (Hvo : o_ver o = 0) by (unfold client_ver in Hv; rewrite E in Hv; exact Hv).
  apply shape_ex_opts in H. rewrite (set_edns0_opt c q o E Hvo) in H.
  destruct H as [[[H|[H|H]] [Hc1 Hc2]]|H].
  - left. exact H.
  - unfold wcur_opts in H. destruct (find_req (m_ex d)) as [ro|] eqn:F.
    + right. left. exists ro. auto.
    + cbn in H. destruct strict; [destruct H|]. exfalso. apply Hc1. eapply fwd_opts_code; eauto.
  - apply in_own_opts in H. cbn in H. destruct H as [[Hx1 Hx2]|[Hx1 Hx2]]; cbn; auto 6.
  - cbn in H. destruct H as [Hx1 Hx2]. apply andb_true_iff in Hx1. destruct Hx1. cbn. auto 8.
Qed.

Lemma own_cookie_ok tr c qo : client_cookie_ok (client_opts qo) = true -> own_option_ok tr c qo (cookie_opt c) = true.
Proof.
  intros H. unfold own_option_ok. change (e_code (cookie_opt c) =? code_cookie) with true. cbv iota.
  rewrite H, eopt_eqb_refl. reflexivity.
Qed.
Lemma own_nsid_ok tr c qo n :
  cfg_wf c -> has_code code_nsid (client_opts qo) = true -> c_nsid c = Some n -> own_option_ok tr c qo n = true.
Proof.
  intros [_ Hw] H Hn. unfold own_option_ok. rewrite (Hw n Hn). cbn. rewrite H, Hn, eopt_eqb_refl. reflexivity.
Qed.
Lemma own_ka_ok tr c qo :
  is_tcp tr = true -> has_code code_keepalive (client_opts qo) = true -> own_option_ok tr c qo keepalive_opt = true.
Proof. intros H1 H2. unfold own_option_ok. cbn. rewrite H1, H2. reflexivity. Qed.
Lemma own_ede_ok tr c qo e : e_code e = code_ede -> own_option_ok tr c qo e = true.
Proof. intros E. unfold own_option_ok. rewrite E. reflexivity. Qed.

Lemma badvers_no_opts q f : all_opts (badvers_reply q f) = [].
Proof. reflexivity. Qed.

(* FULL: for every query and every downstream response *)
Lemma no_ecs_ka_l tr c q strict dn clen r :
  serve_msg tr c q strict dn clen = Some r -> cfg_wf c ->
  no_ecs_ka tr c (client_opt q) r = true.
Proof.
  intros H Hw. unfold no_ecs_ka. apply forallb_forall. intros e He.
  destruct (serve_msg_route _ _ _ _ _ _ _ H) as [? ->|? ? ->|? ? Hv' ->|d ? ? Hv Hdn ->];
    rewrite tw_all_opts in He; try (destruct He; fail).
  apply shaped_option_origin in He; auto.
  destruct He as [(Hi & Hx)|[(ro & _ & _ & Hx1 & Hx2)|[(Hx1 & ->)|[(Hx1 & Hx2)|(Hx1 & Hx2 & ->)]]]].
  - rewrite Hx. reflexivity.
  - apply N.eqb_neq in Hx1, Hx2. rewrite Hx1, Hx2. reflexivity.
  - reflexivity.
  - destruct Hw as [_ Hn]. rewrite (Hn e Hx2). reflexivity.
  - change (e_code keepalive_opt =? code_ecs) with false.
    change (e_code keepalive_opt =? code_keepalive) with true. cbn [negb andb orb].
    apply own_ka_ok; auto.
Qed.

Lemma options_own_l tr c q strict dn clen r :
  serve_msg tr c q strict dn clen = Some r -> cfg_wf c ->
  (forall d, dn = Some d -> req_opt_clean d) ->
  options_own tr c (client_opt q) r = true.
Proof.
  intros H Hw Hd. unfold options_own. apply forallb_forall. intros e He.
  destruct (serve_msg_route _ _ _ _ _ _ _ H) as [? ->|? ? ->|? ? Hv' ->|d ? ? Hv Hdn ->];
    rewrite tw_all_opts in He; try (destruct He; fail).
  apply shaped_option_origin in He; auto.
  destruct He as [(Hi & Hx)|[(ro & Hf & Hi & Hx1 & Hx2)|[(Hx1 & ->)|[(Hx1 & Hx2)|(Hx1 & Hx2 & ->)]]]].
  - apply own_ede_ok. exact Hx.
  - destruct (Hd d Hdn ro Hf e Hi) as [E|[E|E]]; try contradiction. apply own_ede_ok. exact E.
  - apply own_cookie_ok. exact Hx1.
  - eapply own_nsid_ok; eauto.
  - apply own_ka_ok; auto.
Qed.

Lemma cookie_only_l tr c q strict dn clen r e :
  serve_msg tr c q strict dn clen = Some r -> cfg_wf c ->
  (forall d, dn = Some d -> req_opt_clean d) ->
  In e (all_opts r) -> e_code e = code_cookie ->
  client_cookie_ok (client_opts (client_opt q)) = true /\ e = cookie_opt c.
Proof.
  intros H Hw Hd He Hc.
  destruct (serve_msg_route _ _ _ _ _ _ _ H) as [? ->|? ? ->|? ? Hv' ->|d ? ? Hv Hdn ->];
    rewrite tw_all_opts in He; try (destruct He; fail).
  apply shaped_option_origin in He; auto.
  destruct He as [(Hi & Hx)|[(ro & Hf & Hi & Hx1 & Hx2)|[Hx|[(Hx1 & Hx2)|(Hx1 & Hx2 & ->)]]]].
  - rewrite Hx in Hc. discriminate.
  - destruct (Hd d Hdn ro Hf e Hi) as [E|[E|E]]; rewrite E in Hc; discriminate.
  - exact Hx.
  - destruct Hw as [_ Hn]. rewrite (Hn e Hx2) in Hc. discriminate.
  - discriminate.
Qed.

(* ------------------------------------------------------------------ *)
(* UDP size                                                            *)

Lemma tc_minimal_truncate m : tc_minimal (norm (truncate m)) = true.
Proof.
  unfold tc_minimal, norm, truncate, with_ex. cbn. rewrite forallb_is_opt_norm. apply keep_opt_only_all_opt.
Qed.

(* a question on the wire: a name of at most 255 octets, type, class *)
Definition quest_small (q : msg) : Prop := forall x, In x (m_q q) -> q_len x <= 259.

Lemma sumN_firstn1 (l : list quest) : (forall x, In x l -> q_len x <= 259) -> sumN q_len (firstn 1 l) <= 259.
Proof.
  destruct l as [|x l]; cbn; [lia|]. intros H. specialize (H x (or_introl eq_refl)). lia.
Qed.

Lemma udp_limit_ge qo : 512 <= udp_limit qo.
Proof. unfold udp_limit, min_msg_size. destruct qo; lia. Qed.

Lemma ulen_set_rcode q rc : msg_ulen (set_rcode q rc) = header_len + sumN q_len (firstn 1 (m_q q)) + 0 + 0 + 0.
Proof. reflexivity. Qed.
Lemma ulen_badvers q f :
  msg_ulen (badvers_reply q f) = header_len + sumN q_len (firstn 1 (m_q q)) + 0 + 0 + (opt_fixed_len + 0 + 0).
Proof. reflexivity. Qed.

(* FULL: every reply over UDP — shaped, BADVERS, NOTIMP, FORMERR — for every compressed length
   the library may report for the shaped message (compression only shortens) *)
Lemma udp_size_bound_l c q strict dn clen r :
  serve_msg UDP c q strict dn clen = Some r ->
  quest_small q ->
  (forall d, dn = Some d -> clen <= msg_ulen (shape_pre c (mk_wstate UDP strict q (set_edns0 c q)) d)) ->
  tc_minimal r = true
  \/ msg_ulen r <= udp_limit (client_opt q)
  \/ (exists d, dn = Some d /\ r = norm (shape_pre c (mk_wstate UDP strict q (set_edns0 c q)) d)
                 /\ clen <= udp_limit (client_opt q)).
Proof.
  intros H Hq Hc. pose proof (udp_limit_ge (client_opt q)) as Hl.
  destruct (serve_msg_route _ _ _ _ _ _ _ H) as [? ->|? ? ->|? ? Hv' ->|d ? ? Hv Hdn ->]; cbn [transport_write].
  - right. left. rewrite ulen_set_rcode.
    pose proof (sumN_firstn1 (m_q q) Hq). unfold header_len. lia.
  - right. left. change (msg_ulen (not_supported q)) with header_len. unfold header_len. lia.
  - right. left. rewrite ulen_badvers.
    pose proof (sumN_firstn1 (m_q q) Hq). unfold header_len, opt_fixed_len. lia.
  - specialize (Hc d Hdn).
    rewrite shape_reply_unfold. unfold truncated. cbn [is_udp andb].
    set (w := mk_wstate UDP strict q (set_edns0 c q)) in *.
    destruct (udp_overflow (shape_pre c w d) clen (w_size w)) eqn:EO.
    + left. apply tc_minimal_truncate.
    + right. right. exists d. split; [exact Hdn|]. split; [reflexivity|]. unfold udp_overflow in EO.
      assert (Hs : w_size w = udp_limit (client_opt q)) by (apply wstate_size; exact Hv).
      rewrite Hs in EO.
      destruct (msg_ulen (shape_pre c w d) <=? udp_limit (client_opt q)) eqn:E1.
      * apply N.leb_le in E1. lia.
      * apply N.ltb_ge in EO. exact EO.
Qed.

Lemma reject_small h rc : msg_ulen (reject_in_place h rc) = header_len.
Proof. reflexivity. Qed.
Lemma not_supported_small q : msg_ulen (not_supported q) = header_len.
Proof. reflexivity. Qed.

(* ------------------------------------------------------------------ *)
(* Accept table                                                        *)

Definition bad_counts (h : T_Header) : bool :=
  negb (T_Header_QDCount h =? accept_qd) || (accept_an_max <? T_Header_ANCount h)
  || (accept_ns_max <? T_Header_NSCount h) || (accept_ar_max <? T_Header_ARCount h).

Lemma accept_header_spec h :
  accept_header h =
  if flags_qr h then AcceptIgnore
  else if negb (flags_opcode h =? 0) && negb (flags_opcode h =? 4) then AcceptNotImp
  else if bad_counts h then AcceptFormErr else AcceptOK.
Proof.
  unfold accept_header, bad_counts. rewrite gen_Header_QR, gen_Header_Opcode.
  unfold opcode_query, opcode_notify.
  replace (Z.of_N (flags_opcode h) =? 0)%Z with (flags_opcode h =? 0).
  2:{ destruct (flags_opcode h); reflexivity. }
  replace (Z.of_N (flags_opcode h) =? 4)%Z with (flags_opcode h =? 4).
  2:{ destruct (flags_opcode h) as [|p]; [reflexivity|]. cbn. reflexivity. }
  reflexivity.
Qed.

Lemma reject_ok h rc : raw_reject_ok h rc (Some (reject_in_place h rc)) = true.
Proof. unfold raw_reject_ok, reject_in_place, flags_opcode. cbn. rewrite !N.eqb_refl. reflexivity. Qed.

Lemma accept_table_l tr c h body strict dn clen :
  (flags_qr h = true -> serve_raw tr c h body strict dn clen = None)
  /\ (flags_qr h = false -> flags_opcode h <> 0 -> flags_opcode h <> 4 ->
      serve_raw tr c h body strict dn clen = Some (reject_in_place h rcode_notimp))
  /\ (flags_qr h = false -> (flags_opcode h = 0 \/ flags_opcode h = 4) -> bad_counts h = true ->
      serve_raw tr c h body strict dn clen = Some (reject_in_place h rcode_formerr))
  /\ (flags_qr h = false -> (flags_opcode h = 0 \/ flags_opcode h = 4) -> bad_counts h = false -> body = None ->
      serve_raw tr c h body strict dn clen = Some (reject_in_place h rcode_formerr))
  /\ (forall q, flags_qr h = false -> (flags_opcode h = 0 \/ flags_opcode h = 4) -> bad_counts h = false -> body = Some q ->
      length (m_q q) = 1%nat -> h_opcode (m_hdr q) <> 0 ->
      serve_raw tr c h body strict dn clen = Some (transport_write tr (not_supported q)))
  /\ (forall q, flags_qr h = false -> (flags_opcode h = 0 \/ flags_opcode h = 4) -> bad_counts h = false -> body = Some q ->
      length (m_q q) = 1%nat -> h_opcode (m_hdr q) = 0 -> client_ver q <> 0 ->
      exists r, serve_raw tr c h body strict dn clen = Some r /\ h_rcode (m_hdr r) = rcode_badvers
                /\ hdr_echo tr q r = true /\ quest_echo q r = true).
Proof.
  unfold serve_raw, serve_raw_gen. rewrite accept_header_spec.
  assert (Hop : forall P : Prop, (flags_opcode h = 0 \/ flags_opcode h = 4) ->
                negb (flags_opcode h =? 0) && negb (flags_opcode h =? 4) = false).
  { intros _ [->| ->]; reflexivity. }
  repeat split.
  - intros ->. reflexivity.
  - intros -> H0 H4. apply N.eqb_neq in H0, H4. rewrite H0, H4. reflexivity.
  - intros -> Ho ->. rewrite (Hop True Ho). reflexivity.
  - intros -> Ho -> ->. rewrite (Hop True Ho). reflexivity.
  - intros q -> Ho -> -> Hl Hq. rewrite (Hop True Ho). unfold serve_msg_gen. rewrite Hl. cbn.
    unfold edns_serve_gen. rewrite opcode_floor. apply N.eqb_neq in Hq. rewrite Hq. reflexivity.
  - intros q -> Ho -> -> Hl Hq Hv. rewrite (Hop True Ho). unfold serve_msg_gen. rewrite Hl. cbn.
    unfold edns_serve_gen. rewrite opcode_floor, Hq. cbn. rewrite set_edns0_ver. apply N.eqb_neq in Hv. rewrite Hv. cbn.
    eexists. split; [reflexivity|]. split.
    + destruct (tw_hdr tr (badvers_reply q (set_edns0 c q))) as (_ & _ & _ & -> & _). reflexivity.
    + split; [apply tw_echo; reflexivity|]. unfold quest_echo.
      destruct (tw_body tr (badvers_reply q (set_edns0 c q))) as (-> & _). apply list_eqb_refl, quest_eqb_refl.
Qed.

(* the raw listeners: ID and opcode of the PACKET are echoed *)
Definition hdr_agrees (h : T_Header) (q : msg) : Prop :=
  h_id (m_hdr q) = T_Header_ID h /\ h_opcode (m_hdr q) = flags_opcode h.

Lemma qr_id_opcode_echo_raw_l tr c h body strict dn clen r :
  tr = UDP \/ tr = TCP ->
  serve_raw tr c h body strict dn clen = Some r ->
  (forall q, body = Some q -> hdr_agrees h q) ->
  (forall q d, body = Some q -> dn = Some d -> dn_echo q d) ->
  h_qr (m_hdr r) = true /\ h_id (m_hdr r) = T_Header_ID h /\ h_opcode (m_hdr r) = flags_opcode h.
Proof.
  intros Htr H Hb Hd. unfold serve_raw, serve_raw_gen in H.
  destruct (accept_header h); try discriminate.
  - destruct body as [q|]; [|inversion H; subst; cbn; auto].
    destruct (Hb q eq_refl) as [Hi Ho].
    assert (E : hdr_echo tr q r = true).
    { eapply qr_id_opcode_echo_msg_l; eauto. }
    unfold hdr_echo in E. apply andb_true_iff in E. destruct E as [E E3]. apply andb_true_iff in E. destruct E as [E1 E2].
    apply N.eqb_eq in E2, E3. split; [exact E1|]. split; [|congruence].
    rewrite E2. destruct Htr as [-> | ->]; cbn; exact Hi.
  - inversion H; subst; cbn; auto.
  - inversion H; subst; cbn; auto.
Qed.

(* ------------------------------------------------------------------ *)
(* The wire-born (strict) branch and the decoded branch shape the same
   reply: the writer-owned OPT only ever contributes the forwarded ECS
   copy, which is stripped.                                            *)

Lemma strip_app c a b : strip_code c (a ++ b) = strip_code c a ++ strip_code c b.
Proof. unfold strip_code. apply filter_app. Qed.

Lemma strip_fwd c l : cfg_wf c -> strip_code code_ecs (fwd_opts c l) = [].
Proof.
  intros [Hw _]. unfold fwd_opts. destruct (has_code code_ecs l); [|reflexivity].
  destruct (c_ecs_fwd c) as [e|] eqn:E; [|reflexivity]. cbn. rewrite (Hw e eq_refl). reflexivity.
Qed.

Lemma finish_drop_fwd c w l a b :
  cfg_wf c -> finish_opts w (a ++ fwd_opts c l ++ b) = finish_opts w (a ++ b).
Proof. intros Hw. unfold finish_opts. rewrite !strip_app, (strip_fwd c l Hw). reflexivity. Qed.

Lemma strict_same_reply_l tr c q d clen :
  cfg_wf c -> client_ver q = 0 -> find_req (m_ex d) = None ->
  shape_reply tr c (mk_wstate tr true q (set_edns0 c q)) d clen
  = shape_reply tr c (mk_wstate tr false q (set_edns0 c q)) d clen.
Proof.
  intros Hw Hv Hf.
  assert (Hex : forall ex, find_req ex = None ->
            shape_ex c (mk_wstate tr true q (set_edns0 c q)) ex = shape_ex c (mk_wstate tr false q (set_edns0 c q)) ex).
  { intros ex Hfe. unfold shape_ex. rewrite Hfe.
    destruct (client_opt q) as [o|] eqn:E.
    - assert (Hvo : o_ver o = 0) by (unfold client_ver in Hv; rewrite E in Hv; exact Hv).
      rewrite (set_edns0_opt c q o E Hvo).
      unfold finish_opts, own_opts, opt_set_opts, opt_set_size, opt_set_do, fresh_opt.
      cbn [mk_wstate w_opt w_do w_resp w_cookie w_nsid w_ka f_wopt f_do f_cookie f_nsid f_ka o_opts o_ver o_z o_size o_do].
      destruct (split_last_opt ex) as [[[pre [b o0]] suf]|]; [destruct b|]; try reflexivity;
        cbn [o_opts o_ver o_z o_size o_do]; rewrite !strip_app, (strip_fwd c _ Hw); reflexivity.
    - unfold set_edns0. unfold client_opt in E. rewrite E.
      destruct (split_last_opt ex) as [[[pre [b o0]] suf]|]; [destruct b|]; reflexivity. }
  assert (Hpre : shape_pre c (mk_wstate tr true q (set_edns0 c q)) d = shape_pre c (mk_wstate tr false q (set_edns0 c q)) d).
  { unfold shape_pre, shape_opt. cbn [w_do w_noedns w_noad mk_wstate].
    destruct (f_do (set_edns0 c q)); rewrite ?clear_dnssec_ex, Hex by (rewrite ?clear_dnssec_ex; exact Hf); reflexivity. }
  unfold shape_reply. rewrite Hpre. reflexivity.
Qed.

(* ------------------------------------------------------------------ *)
(* Witnesses: the full statements that do NOT hold of the faithful model *)

Definition wit_c : cfg := mk_cfg None 0 None.
Definition wit_c_ecs : cfg := mk_cfg None 0 (Some (mk_eopt 8 7 1172539060992)).
Lemma wit_c_wf : cfg_wf wit_c.
Proof. split; intros ? H; discriminate H. Qed.
Lemma wit_c_ecs_wf : cfg_wf wit_c_ecs.
Proof. split; intros ? H; [inversion H; reflexivity|discriminate H]. Qed.

(* a plain query with a bare OPT *)
Definition wit_q : msg :=
  mk_msg (mk_hdr 7 false 0 false false true false false false false 0) [mk_quest 0 1 1 17] [] []
         [XO (mk_opt 0 1232 false 0 [])].
(* a forwarded upstream response that carries its own OPT: COOKIE, NSID, PADDING *)
Definition wit_d : msg :=
  mk_msg (mk_hdr 7 true 0 false false true true false false false 0) [mk_quest 0 1 1 17] [mk_rr 0 0 1 1 300 27 []] []
         [XO (mk_opt 0 4096 false 0 [mk_eopt 10 24 99; mk_eopt 3 4 5; mk_eopt 12 8 1])].
(* the same with two OPT records, the first holding ECS and an upstream keepalive *)
Definition wit_d2 : msg :=
  mk_msg (mk_hdr 7 true 0 false false true true false false false 0) [mk_quest 0 1 1 17] [mk_rr 0 0 1 1 300 27 []] []
         [XO (mk_opt 0 4096 false 0 [mk_eopt 8 7 1172539060992; mk_eopt 11 2 600]); XO (mk_opt 0 4096 false 0 [])].
(* EDNS version 1, a client-subnet option, a 600-byte additional record, 512 advertised *)
Definition wit_qv : msg :=
  mk_msg (mk_hdr 9 false 0 false false true false false false false 0) [mk_quest 0 1 1 17] [] []
         [XR (mk_rr 0 1 16 1 60 600 []); XO (mk_opt 1 512 false 0 [mk_eopt 8 8 312264627564736])].

(* The four inputs that refuted the full statements before fix fb9758c, on the repaired code: *)
(* F5: the upstream's COOKIE / NSID / PADDING stop at the edns layer *)
Example ex_foreign_dropped :
  serve_msg TCP wit_c wit_q false (Some wit_d) 0
  = Some (mk_msg (mk_hdr 7 true 0 false false true true false false false 0) [mk_quest 0 1 1 17] [mk_rr 0 0 1 1 300 27 []] []
                 [XO (mk_opt 0 1232 false 0 [])]).
Proof. vm_compute. reflexivity. Qed.
(* a second OPT (with ECS and an upstream keepalive) does not survive *)
Example ex_second_opt_dropped :
  serve_msg TCP wit_c wit_q false (Some wit_d2) 0
  = Some (mk_msg (mk_hdr 7 true 0 false false true true false false false 0) [mk_quest 0 1 1 17] [mk_rr 0 0 1 1 300 27 []] []
                 [XO (mk_opt 0 1232 false 0 [])]).
Proof. vm_compute. reflexivity. Qed.
(* BADVERS: a bare OPT, whatever the query carried (forwardable ECS, a 600-byte record) *)
Example ex_badvers_bare :
  serve_msg UDP wit_c_ecs wit_qv false None 0
  = Some (mk_msg (mk_hdr 9 true 0 false false true true false false false 16) [mk_quest 0 1 1 17] [] []
                 [XO (mk_opt 0 1232 false 0 [])]).
Proof. vm_compute. reflexivity. Qed.

(* ------------------------------------------------------------------ *)
(* Examples: the hypotheses of the theorems are met by ordinary traffic *)

(* a signed answer (A + RRSIG, NSEC in authority, AD set) for a client that sent a bare OPT with
   neither DO nor AD, over UDP: signatures and denial records go, AD goes, our OPT is attached *)
Definition ex_d : msg :=
  mk_msg (mk_hdr 7 true 0 false false true true false true false 0) [mk_quest 0 1 1 17]
         [mk_rr 0 0 1 1 300 27 []; mk_rr 1 0 46 1 300 90 []] [mk_rr 2 0 47 1 300 40 []] [].
Example ex_shaped :
  serve_msg UDP wit_c wit_q false (Some ex_d) 150
  = Some (mk_msg (mk_hdr 7 true 0 false false true true false false false 0) [mk_quest 0 1 1 17]
                 [mk_rr 0 0 1 1 300 27 []] [] [XO (mk_opt 0 1232 false 0 [])]).
Proof. vm_compute. reflexivity. Qed.
Example ex_shaped_premises : dn_echo wit_q ex_d /\ one_opt ex_d /\ client_ver wit_q = 0 /\ client_do wit_q = false
                            /\ asked_rrsig wit_q = false /\ length (m_q wit_q) = 1%nat.
Proof. repeat split. unfold one_opt. cbn. lia. Qed.

(* a 2000-byte answer to a client that advertised 1232: question + OPT with TC *)
Definition ex_big : msg :=
  mk_msg (mk_hdr 7 true 0 false false true true false false false 0) [mk_quest 0 1 1 17]
         [mk_rr 0 0 16 1 60 1000 []; mk_rr 1 0 16 1 60 1000 []] [] [].
Example ex_truncated :
  serve_msg UDP wit_c wit_q false (Some ex_big) 2040
  = Some (mk_msg (mk_hdr 7 true 0 false true true true false false false 0) [mk_quest 0 1 1 17]
                 [] [] [XO (mk_opt 0 1232 false 0 [])]).
Proof. vm_compute. reflexivity. Qed.

(* header ladder *)
Example ex_accept :
  accept_header (mk_T_Header 1 256 1 0 0 1) = AcceptOK /\ accept_header (mk_T_Header 1 33024 1 0 0 0) = AcceptIgnore
  /\ accept_header (mk_T_Header 1 10240 1 0 0 0) = AcceptNotImp /\ accept_header (mk_T_Header 1 256 2 0 0 0) = AcceptFormErr
  /\ accept_header (mk_T_Header 1 8448 1 0 0 0) = AcceptOK.
Proof. repeat split. Qed.

(* ------------------------------------------------------------------ *)
(* "The same rules on bytes": when WriteWire does not fall back, the reply
   it sends is the reply WriteMsg would have sent for the same response.  *)

Definition has_dnssec_aug (d : msg) : bool :=
  negb (asked_rrsig d) && existsb is_dnssec (m_an d ++ m_ns d).

Lemma filter_id {A} (f : A -> bool) l : forallb f l = true -> filter f l = l.
Proof.
  induction l as [|x l IH]; cbn; [reflexivity|]. intros H. apply andb_true_iff in H. destruct H as [H1 H2].
  rewrite H1, IH; auto.
Qed.

Lemma existsb_false_forallb_neg {A} (f : A -> bool) l : existsb f l = false -> forallb (fun x => negb (f x)) l = true.
Proof.
  induction l as [|x l IH]; cbn; [reflexivity|]. intros H. apply orb_false_iff in H. destruct H as [H1 H2].
  rewrite H1, IH; auto.
Qed.

Lemma clear_dnssec_id d : has_dnssec_aug d = false -> clear_dnssec d = d.
Proof.
  unfold has_dnssec_aug, asked_rrsig, clear_dnssec. destruct d as [h qs an ns ex]. cbn.
  intros H.
  assert (Hs : existsb is_dnssec (an ++ ns) = false ->
               mk_msg h qs (filter (fun r => negb (is_dnssec r)) an) (filter (fun r => negb (is_dnssec r)) ns) ex = mk_msg h qs an ns ex).
  { intros He. rewrite existsb_app in He. apply orb_false_iff in He. destruct He as [Ha Hn].
    rewrite (filter_id _ _ (existsb_false_forallb_neg _ _ Ha)), (filter_id _ _ (existsb_false_forallb_neg _ _ Hn)). reflexivity. }
  destruct qs as [|q qs]; cbn in *.
  - apply Hs. exact H.
  - destruct (q_type q =? type_rrsig); cbn in H; [reflexivity|]. apply Hs. exact H.
Qed.

Lemma no_opt_filter_id ex : filter is_opt ex = [] -> filter (fun x => negb (is_opt x)) ex = ex.
Proof.
  induction ex as [|x ex IH]; cbn; [reflexivity|]. destruct x; cbn; try discriminate. intros H. rewrite IH; auto.
Qed.

Lemma no_opt_split_none ex : filter is_opt ex = [] -> split_last_opt ex = None /\ find_req ex = None.
Proof.
  induction ex as [|x ex IH]; cbn; [auto|]. destruct x; cbn; try discriminate. intros H.
  destruct (IH H) as [-> ->]. auto.
Qed.

Lemma set_ad_false_id m : h_ad (m_hdr m) = false -> with_hdr m (set_ad (m_hdr m) false) = m.
Proof. destruct m as [h qs an ns ex]. destruct h. cbn. intros ->. reflexivity. Qed.

Lemma own_opts_codes c w e : cfg_wf c -> In e (own_opts c w) -> e_code e <> code_ecs /\ e_code e <> code_keepalive.
Proof.
  intros [_ Hn] H. apply in_own_opts in H. destruct H as [[_ ->]|[_ H]].
  - cbn. split; discriminate.
  - rewrite (Hn e H). split; discriminate.
Qed.

Lemma strip_id c l : (forall e, In e l -> e_code e <> c) -> strip_code c l = l.
Proof.
  intros H. unfold strip_code. apply filter_id. apply forallb_forall. intros e He.
  apply negb_true_iff, N.eqb_neq, H, He.
Qed.

Lemma wire_path_agrees_l tr c q strict d iad hasd blen r :
  let w := mk_wstate tr strict q (set_edns0 c q) in
  cfg_wf c -> client_ver q = 0 ->
  filter is_opt (m_ex d) = [] ->
  iad = h_ad (m_hdr d) ->
  hasd = has_dnssec_aug d ->
  write_wire tr c w d iad hasd None blen = Some r ->
  norm r = shape_reply tr c w d (blen + (if w_noedns w then 0 else opt_len (wire_opt c w None))).
Proof.
  intros w Hw Hv Hno Hia Hd H. subst iad. unfold write_wire in H.
  destruct (negb (w_do w) && hasd) eqn:E0; [discriminate|].
  (* step 1: the DNSSEC strip is the identity *)
  assert (H1 : (if w_do w then d else clear_dnssec d) = d).
  { destruct (w_do w); [reflexivity|]. cbn in E0. apply clear_dnssec_id. congruence. }
  (* step 3: AD *)
  assert (H3 : forall m, (if w_noad w && h_ad (m_hdr m) then with_hdr m (set_ad (m_hdr m) false) else m)
                         = (if w_noad w then with_hdr m (set_ad (m_hdr m) false) else m)).
  { intros m. destruct (w_noad w); [|reflexivity]. cbn. destruct (h_ad (m_hdr m)) eqn:Ea; [reflexivity|].
    symmetry. apply set_ad_false_id. exact Ea. }
  rewrite H3 in H.
  unfold shape_reply, shape_pre. rewrite H1.
  destruct (w_noedns w) eqn:En.
  - (* no EDNS: the body goes out as it is *)
    destruct (is_udp tr && (w_size w <? blen)) eqn:Es; [discriminate|]. inversion H; subst r. clear H.
    unfold clear_opt. rewrite (no_opt_filter_id _ Hno).
    replace (with_ex d (m_ex d)) with d by (destruct d; reflexivity).
    assert (Ho : is_udp tr && udp_overflow (if w_noad w then with_hdr d (set_ad (m_hdr d) false) else d) (blen + 0) (w_size w) = false).
    { destruct (is_udp tr); [|reflexivity]. cbn in *. apply N.ltb_ge in Es. unfold udp_overflow.
      destruct (_ <=? _); [reflexivity|]. apply N.ltb_ge. lia. }
    rewrite Ho. reflexivity.
  - destruct (is_udp tr && (w_size w <? blen + opt_len (wire_opt c w None))) eqn:Es; [discriminate|].
    inversion H; subst r. clear H.
    destruct (no_opt_split_none _ Hno) as [Hs Hf].
    (* the OPT the Msg path attaches is the one the byte path encodes *)
    assert (Hex : shape_ex c w (m_ex d) = m_ex d ++ [XO (wire_opt c w None)]).
    { unfold shape_ex. rewrite Hs, Hf. f_equal. f_equal. unfold wire_opt.
      assert (Hfin : forall fw, (forall e, In e fw -> e_code e = code_ecs) ->
                finish_opts w (fw ++ own_opts c w) = own_opts c w ++ (if w_ka w then [keepalive_opt] else []) ++ []).
      { intros fw Hfw. unfold finish_opts. rewrite app_nil_r. f_equal. rewrite strip_app.
        assert (E8 : strip_code code_ecs fw = []).
        { unfold strip_code. induction fw as [|x fw IH]; cbn; [reflexivity|]. rewrite (Hfw x (or_introl eq_refl)). cbn.
          apply IH. intros e He. apply Hfw. right. exact He. }
        rewrite E8. cbn [app].
        rewrite (strip_id code_ecs), (strip_id code_keepalive); [reflexivity| |];
          intros e He; apply (own_opts_codes c w e Hw) in He; tauto. }
      assert (Hwopt : w_opt w = None \/ exists fw, w_opt w = Some (mk_opt 0 default_msg_size true 0 fw)
                                                /\ forall e, In e fw -> e_code e = code_ecs).
      { subst w. cbn [mk_wstate w_opt]. destruct strict; [left; reflexivity|right].
        unfold client_ver in Hv. destruct (client_opt q) as [o|] eqn:Eo.
        - rewrite (set_edns0_opt c q o Eo Hv). cbn [f_wopt]. eexists. split; [reflexivity|].
          intros e He. eapply fwd_opts_code; eauto.
        - unfold set_edns0. unfold client_opt in Eo. rewrite Eo. cbn [f_wopt]. eexists. split; [reflexivity|]. intros e []. }
      destruct Hwopt as [E|(fw & E & Hfw)]; rewrite E.
      + unfold fresh_opt, opt_set_opts, opt_set_size, opt_set_do. cbn [o_ver o_z o_opts o_size o_do].
        rewrite (Hfin []) by (intros e []). reflexivity.
      + unfold opt_set_opts, opt_set_size, opt_set_do. cbn [o_ver o_z o_opts o_size o_do].
        rewrite (Hfin fw Hfw). reflexivity. }
    unfold shape_opt. rewrite Hex.
    set (m3 := if w_noad w then with_hdr (with_ex d (m_ex d ++ [XO (wire_opt c w None)])) (set_ad (m_hdr (with_ex d (m_ex d ++ [XO (wire_opt c w None)]))) false)
               else with_ex d (m_ex d ++ [XO (wire_opt c w None)])).
    assert (Ho : is_udp tr && udp_overflow m3 (blen + opt_len (wire_opt c w None)) (w_size w) = false).
    { destruct (is_udp tr); [|reflexivity]. cbn in *. apply N.ltb_ge in Es. unfold udp_overflow.
      destruct (_ <=? _); [reflexivity|]. apply N.ltb_ge. exact Es. }
    rewrite Ho. subst m3. unfold w. cbn [w_noad mk_wstate].
    destruct (h_cd (m_hdr q) || negb (h_ad (m_hdr q)) && negb (f_do (set_edns0 c q))); destruct d; reflexivity.
Qed.

(* ------------------------------------------------------------------ *)
(* Name compression: the computed Msg.Len() with compression never
   exceeds the uncompressed one ("compression only shortens" is now a
   lemma about the model of compressionLenSearch, not a premise).      *)

Lemma chain_wlen_cons id len r : chain_wlen ((id, len) :: r) = 1 + len + chain_wlen r.
Proof. unfold chain_wlen, sumN. cbn [fold_right snd]. lia. Qed.
Lemma chain_wlen_pos ch : 1 <= chain_wlen ch.
Proof. unfold chain_wlen. lia. Qed.

Lemma comp_search_le cm msgoff o ch o' cm' :
  comp_search cm msgoff o ch = (Some o', cm') -> o' + 2 <= o + chain_wlen ch.
Proof.
  revert cm o. induction ch as [|[id len] r IH]; intros cm o H; cbn [comp_search] in H; [discriminate|].
  rewrite chain_wlen_cons. pose proof (chain_wlen_pos r).
  destruct (existsb (N.eqb id) cm).
  - inversion H; subst. lia.
  - apply IH in H. lia.
Qed.

Lemma name_clen_le nt cm off cp id : fst (name_clen nt cm off cp id) <= name_wlen nt id.
Proof.
  unfold name_clen, name_wlen. destruct (name_chain nt id) as [|x r] eqn:E.
  - cbn. unfold chain_wlen. cbn. lia.
  - destruct (cp || (off <? max_compression_offset)); [|cbn; lia].
    destruct (comp_search cm off 0 (x :: r)) as [[o|] cm'] eqn:S; [|cbn; lia].
    destruct cp; [|cbn; lia]. cbn [fst]. apply comp_search_le in S. lia.
Qed.

Lemma segs_clen_le nt sgs : forall cm off l, fst (segs_clen nt cm off l sgs) <= l + sumN (seg_ulen nt) sgs.
Proof.
  induction sgs as [|sg r IH]; intros cm off l; cbn [segs_clen sumN fold_right]; [cbn; lia|].
  destruct sg as [n|cp id].
  - specialize (IH cm off (l + n)). cbn [seg_ulen]. unfold sumN in *. lia.
  - pose proof (name_clen_le nt cm (off + l) cp id) as Hn.
    destruct (name_clen nt cm (off + l) cp id) as [k cm'] eqn:E. cbn [fst] in Hn.
    specialize (IH cm' off (l + k)). cbn [seg_ulen]. unfold sumN in *. lia.
Qed.

Lemma rr_clen_le nt cm off r : rr_wf nt r = true -> fst (rr_clen nt cm off r) <= r_len r.
Proof.
  unfold rr_wf, rr_clen. intros H. apply N.eqb_eq in H.
  pose proof (name_clen_le nt cm off true (r_owner r)) as Hn.
  destruct (name_clen nt cm off true (r_owner r)) as [k cm'] eqn:E. cbn [fst] in Hn.
  pose proof (segs_clen_le nt (r_rd r) cm' off (k + 10)). lia.
Qed.

Lemma quest_clen_le nt cm off q : quest_wf nt q = true -> fst (quest_clen nt cm off q) <= q_len q.
Proof.
  unfold quest_wf, quest_clen. intros H. apply N.eqb_eq in H.
  pose proof (name_clen_le nt cm off false (q_name q)) as Hn.
  destruct (name_clen nt cm off false (q_name q)) as [k cm'] eqn:E. cbn [fst] in *. lia.
Qed.

Lemma xrr_clen_le nt cm off x : xrr_wf nt x = true -> fst (xrr_clen nt cm off x) <= xrr_len x.
Proof. destruct x; cbn; intros H; [apply rr_clen_le; exact H|lia|lia]. Qed.

Lemma fold_clen_le {A} (f : list N -> N -> A -> N * list N) (ul : A -> N) (wf : A -> bool) l :
  (forall cm off x, wf x = true -> fst (f cm off x) <= ul x) ->
  forallb wf l = true ->
  forall st, fst (fold_clen f st l) <= fst st + sumN ul l.
Proof.
  intros Hf. unfold fold_clen. induction l as [|x l IH]; intros Hw st; cbn [fold_left sumN fold_right]; [lia|].
  cbn in Hw. apply andb_true_iff in Hw. destruct Hw as [Hx Hl].
  specialize (Hf (snd st) (fst st) x Hx).
  destruct (f (snd st) (fst st) x) as [k cm'] eqn:E. cbn [fst] in Hf.
  specialize (IH Hl (fst st + k, cm')). cbn [fst] in IH. unfold sumN in *. lia.
Qed.

Lemma msg_clen_le_ulen_l nt m : msg_wf nt m = true -> msg_clen nt m <= msg_ulen m.
Proof.
  unfold msg_wf, msg_clen, msg_ulen. intros H.
  apply andb_true_iff in H. destruct H as [H Hex]. apply andb_true_iff in H. destruct H as [H Hns].
  apply andb_true_iff in H. destruct H as [Hq Han].
  destruct (is_compressible m); [|lia].
  pose proof (fold_clen_le (quest_clen nt) q_len (quest_wf nt) (m_q m) (quest_clen_le nt) Hq (header_len, [])) as H1.
  set (s1 := fold_clen (quest_clen nt) (header_len, []) (m_q m)) in *.
  pose proof (fold_clen_le (rr_clen nt) r_len (rr_wf nt) (m_an m) (rr_clen_le nt) Han s1) as H2.
  set (s2 := fold_clen (rr_clen nt) s1 (m_an m)) in *.
  pose proof (fold_clen_le (rr_clen nt) r_len (rr_wf nt) (m_ns m) (rr_clen_le nt) Hns s2) as H3.
  set (s3 := fold_clen (rr_clen nt) s2 (m_ns m)) in *.
  pose proof (fold_clen_le (xrr_clen nt) xrr_len (xrr_wf nt) (m_ex m) (xrr_clen_le nt) Hex s3) as H4.
  cbn [fst] in H1. lia.
Qed.

(* well-formedness w.r.t. the name table survives the shaping *)
Lemma forallb_filter {A} (f g : A -> bool) l : forallb f l = true -> forallb f (filter g l) = true.
Proof.
  induction l as [|x l IH]; cbn; [auto|]. intros H. apply andb_true_iff in H. destruct H as [H1 H2].
  destruct (g x); cbn; rewrite ?H1; auto.
Qed.

Lemma shape_ex_wf nt c w ex : forallb (xrr_wf nt) ex = true -> forallb (xrr_wf nt) (shape_ex c w ex) = true.
Proof.
  intros H. unfold shape_ex.
  destruct (split_last_opt ex) as [[[pre [b o]] suf]|] eqn:E.
  - destruct (split_last_opt_some _ _ _ _ _ E) as [Hex _]. rewrite Hex in H.
    rewrite forallb_app in H. apply andb_true_iff in H. destruct H as [Hp Hs]. cbn in Hs.
    apply andb_true_iff in Hs. destruct Hs as [_ Hs].
    destruct b; rewrite forallb_app; cbn; rewrite Hs; unfold drop_opts; rewrite (forallb_filter _ _ _ Hp); reflexivity.
  - rewrite forallb_app, H. reflexivity.
Qed.

Lemma clear_dnssec_wf nt m : msg_wf nt m = true -> msg_wf nt (clear_dnssec m) = true.
Proof.
  intros H. unfold clear_dnssec.
  set (st := mk_msg (m_hdr m) (m_q m) (filter (fun r => negb (is_dnssec r)) (m_an m))
                    (filter (fun r => negb (is_dnssec r)) (m_ns m)) (m_ex m)).
  assert (Hst : msg_wf nt st = true).
  { unfold msg_wf in *. subst st. cbn [m_q m_an m_ns m_ex].
    apply andb_true_iff in H. destruct H as [H Hex]. apply andb_true_iff in H. destruct H as [H Hns].
    apply andb_true_iff in H. destruct H as [Hq Han].
    rewrite Hq, (forallb_filter _ _ _ Han), (forallb_filter _ _ _ Hns), Hex. reflexivity. }
  clearbody st. destruct (m_q m) as [|q ?]; [exact Hst|]. destruct (q_type q =? type_rrsig); [exact H|exact Hst].
Qed.

Lemma shape_pre_wf nt c w d : msg_wf nt d = true -> msg_wf nt (shape_pre c w d) = true.
Proof.
  intros H. unfold shape_pre.
  assert (H1 : msg_wf nt (if w_do w then d else clear_dnssec d) = true).
  { destruct (w_do w); [exact H|apply clear_dnssec_wf; exact H]. }
  set (m1 := if w_do w then d else clear_dnssec d) in *.
  assert (H2 : msg_wf nt (if w_noedns w then clear_opt m1 else shape_opt c w m1) = true).
  { unfold msg_wf in *. 
    apply andb_true_iff in H1. destruct H1 as [H1 Hex]. apply andb_true_iff in H1. destruct H1 as [H1 Hns].
    apply andb_true_iff in H1. destruct H1 as [Hq Han].
    destruct (w_noedns w); cbn [clear_opt shape_opt with_ex m_q m_an m_ns m_ex]; rewrite Hq, Han, Hns; cbn [andb].
    - apply forallb_filter. exact Hex.
    - apply shape_ex_wf. exact Hex. }
  destruct (w_noad w); [|exact H2]. exact H2.
Qed.

(* the ladders with the computed length are instances of the ladders that are generic in it *)
Definition clen_of (nt : ntab) (tr : transport) (c : cfg) (q : msg) (strict : bool) (dn : option msg) : N :=
  match dn with
  | Some d => msg_clen nt (shape_pre c (mk_wstate tr strict q (set_edns0 c q)) d)
  | None => 0
  end.

Lemma serve_msg_c_instance_l nt tr c q strict dn :
  serve_msg_c nt tr c q strict dn = serve_msg tr c q strict dn (clen_of nt tr c q strict dn).
Proof.
  unfold serve_msg_c, serve_msg, serve_msg_gen, edns_serve_gen, clen_of, shape_reply_c.
  destruct (negb (length (m_q q) =? 1)%nat); [reflexivity|].
  destruct ((edns_opcode_floor <? Z.of_N (h_opcode (m_hdr q)))%Z); [reflexivity|].
  destruct (negb (f_ver (set_edns0 c q) =? 0)); [reflexivity|].
  destruct dn; reflexivity.
Qed.

Lemma serve_raw_c_instance_l nt tr c h body strict dn :
  serve_raw_c nt tr c h body strict dn
  = serve_raw tr c h body strict dn (match body with Some q => clen_of nt tr c q strict dn | None => 0 end).
Proof.
  unfold serve_raw_c, serve_raw, serve_raw_gen. destruct (accept_header h); try reflexivity.
  destruct body as [q|]; [|reflexivity]. apply (serve_msg_c_instance_l nt tr c q strict dn).
Qed.

(* FULL, no premise on the length: every UDP reply of the pipeline that measures with the model of
   the library's compressed Len *)
Lemma udp_size_bound_c_l nt c q strict dn r :
  serve_msg_c nt UDP c q strict dn = Some r ->
  quest_small q ->
  (forall d, dn = Some d -> msg_wf nt d = true) ->
  tc_minimal r = true
  \/ msg_ulen r <= udp_limit (client_opt q)
  \/ (exists d, dn = Some d /\ r = norm (shape_pre c (mk_wstate UDP strict q (set_edns0 c q)) d)
                 /\ msg_clen nt r <= udp_limit (client_opt q)).
Proof.
  intros H Hq Hw. rewrite serve_msg_c_instance_l in H.
  apply udp_size_bound_l in H; auto.
  - destruct H as [H|[H|(d & Hd & Hr & Hc)]]; auto. right. right. exists d. split; [exact Hd|]. split; [exact Hr|].
    unfold clen_of in Hc. rewrite Hd in Hc. rewrite Hr.
    (* norm does not change lengths *)
    assert (Hn : forall m, msg_clen nt (norm m) = msg_clen nt m).
    { intros m. unfold msg_clen, norm, is_compressible, msg_ulen. cbn [with_ex m_q m_an m_ns m_ex].
      assert (E1 : forall l st, fold_clen (xrr_clen nt) st (map norm_x l) = fold_clen (xrr_clen nt) st l).
      { unfold fold_clen. induction l as [|x l IH]; intros st; cbn [map fold_left]; [reflexivity|].
        destruct x; cbn [norm_x xrr_clen]; apply IH. }
      assert (E2 : forall l, sumN xrr_len (map norm_x l) = sumN xrr_len l).
      { induction l as [|x l IH]; cbn; [reflexivity|]. unfold sumN in IH. rewrite IH. destruct x; reflexivity. }
      rewrite E1, E2. destruct (m_ex m) as [|x l]; [reflexivity|]. destruct x; reflexivity. }
    rewrite Hn. exact Hc.
  - intros d Hd. unfold clen_of. rewrite Hd. apply msg_clen_le_ulen_l, shape_pre_wf, Hw, Hd.
Qed.

(* the table-derived lengths really bound the wire: an example with two names sharing a suffix *)
Example ex_compress :
  let nt := [(3, 0); (7, 1); (3, 2)] in   (* 1 = "com."  2 = "example.com."  3 = "www.example.com." *)
  let m := mk_msg (mk_hdr 1 true 0 false false true true false false false 0) [mk_quest 3 1 1 21]
                  [mk_rr 0 3 5 1 60 40 [SName true 2]; mk_rr 1 2 1 1 60 27 [SFix 4]] [] [] in
  msg_wf nt m = true /\ msg_ulen m = 100 /\ msg_clen nt m = 63.
Proof. vm_compute. auto. Qed.

(* ------------------------------------------------------------------ *)
(* The premise req_opt_clean: (a) it holds for every writer of OPT
   options the tree has, (b) it cannot be dropped.                      *)

(* every statement in the non-test code that writes the options of an OPT it did not just create
   (inventory pinned in Proofs_src.gen_opt_writers):
     dnsutil.SetEDE                opt.Option = append(opt.Option, ede)          an EDNS0_EDE
     cache CacheEntry.ToMsg        opt.Option = append(opt.Option, e.ede)        an EDNS0_EDE
     resolver SetEDNSKeepalive     ... = append(..., ka)                         an EDNS0_TCP_KEEPALIVE
     dnsutil.SetEdns0              opt.Option = append(opt.Option, forwarded)    an EDNS0_SUBNET *)
Inductive opt_writer := W_EDE (e : eopt) | W_Keepalive (e : eopt) | W_FwdECS (e : eopt).
Definition writer_ok (x : opt_writer) : Prop :=
  match x with
  | W_EDE e => e_code e = code_ede
  | W_Keepalive e => e_code e = code_keepalive
  | W_FwdECS e => e_code e = code_ecs
  end.
Definition written (x : opt_writer) : eopt := match x with W_EDE e | W_Keepalive e | W_FwdECS e => e end.
Definition apply_writers (l : list eopt) (ws : list opt_writer) : list eopt := l ++ map written ws.

Lemma writers_relayable l ws :
  (forall e, In e l -> relayable e) -> Forall writer_ok ws -> forall e, In e (apply_writers l ws) -> relayable e.
Proof.
  intros Hl Hw e He. unfold apply_writers in He. apply in_app_or in He. destruct He as [He|He]; [auto|].
  apply in_map_iff in He. destruct He as (x & <- & Hx). rewrite Forall_forall in Hw. specialize (Hw x Hx).
  unfold relayable. destruct x; cbn in *; auto.
Qed.

(* whatever sequence of the tree's writers ran on the request's OPT after SetEdns0, the premise holds *)
Lemma req_opt_clean_tree_l c d :
  cfg_wf c ->
  (forall o, find_req (m_ex d) = Some o ->
     exists l ws, Forall writer_ok ws /\ o_opts o = apply_writers (fwd_opts c l) ws) ->
  req_opt_clean d.
Proof.
  intros Hw H o Hf e He. destruct (H o Hf) as (l & ws & Hws & Eo). rewrite Eo in He.
  eapply writers_relayable; eauto. intros x Hx. left. eapply fwd_opts_code; eauto.
Qed.

(* (b) a handler that appends a private-use option to the request's own OPT, attaches it, and
   attaches another OPT after it: the option reaches the client (replayed on the Go code by the
   drivers' script mode 4, kind "-reqoptjunk") *)
Definition wit_d_junk : msg :=
  mk_msg (mk_hdr 7 true 0 false false true true false false false 0) [mk_quest 0 1 1 17] [mk_rr 0 0 1 1 300 27 []] []
         [XReq (mk_opt 0 1232 true 0 [mk_eopt 65001 2 49158]); XO (mk_opt 0 4096 false 0 [])].
Lemma req_opt_clean_necessary_l :
  exists tr c q d clen r,
    serve_msg tr c q false (Some d) clen = Some r /\ cfg_wf c /\ dn_echo q d /\ client_ver q = 0
    /\ ~ req_opt_clean d /\ options_own tr c (client_opt q) r = false.
Proof.
  exists TCP, wit_c, wit_q, wit_d_junk, 0. eexists. split; [vm_compute; reflexivity|].
  split; [exact wit_c_wf|]. split; [repeat split|]. split; [reflexivity|]. split; [|reflexivity].
  intros H. specialize (H _ eq_refl (mk_eopt 65001 2 49158) (or_introl eq_refl)).
  destruct H as [H|[H|H]]; discriminate H.
Qed.

(* (c) what the INGRESS guarantees: when SetEdns0 hands the request on (ch.Next), the request's OPT —
   the object the writer owns — holds nothing but the forwarded client-subnet copy, whatever the
   client sent (any number of OPTs, any options, any version) *)
Lemma ingress_req_opt_clean_l c q e :
  cfg_wf c -> In e (o_opts (f_wopt (set_edns0 c q))) -> e_code e = code_ecs.
Proof.
  intros Hw. unfold set_edns0. destruct (last_opt (m_ex q)) as [o|]; [|intros []].
  destruct (negb (o_ver o =? 0)); cbn [f_wopt o_opts]; apply fwd_opts_code; exact Hw.
Qed.

Lemma ingress_wopt_fwd c q : exists l, o_opts (f_wopt (set_edns0 c q)) = fwd_opts c l.
Proof.
  unfold set_edns0. destruct (last_opt (m_ex q)) as [o|].
  - exists (o_opts o). destruct (negb (o_ver o =? 0)); reflexivity.
  - exists []. reflexivity.
Qed.

(* the premise discharged for the tree: from the ingress state, through any sequence of the tree's
   four writers, to the reply — no premise on the response's own OPTs at all *)
Lemma options_own_tree_l tr c q strict dn clen r :
  serve_msg tr c q strict dn clen = Some r -> cfg_wf c ->
  (forall d o, dn = Some d -> find_req (m_ex d) = Some o ->
     exists ws, Forall writer_ok ws /\ o_opts o = apply_writers (o_opts (f_wopt (set_edns0 c q))) ws) ->
  options_own tr c (client_opt q) r = true.
Proof.
  intros H Hw Hd. eapply options_own_l; eauto. intros d Hdn. apply (req_opt_clean_tree_l c d Hw).
  intros o Hf. destruct (Hd d o Hdn Hf) as (ws & Hws & Eo). destruct (ingress_wopt_fwd c q) as (l & El).
  exists l, ws. rewrite <- El. auto.
Qed.
