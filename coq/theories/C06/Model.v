(* C06 — every reply respects what the client sent and negotiated.

   Executable model of the client-facing reply path, written statement by
   statement from

     server/udp_engine.go     acceptHeader, udpJob.rejectInPlace
     server/tcp_engine.go     serveFrame, tcpJob.rejectInPlace
     server/strict.go         ServeRaw (undecodable body => FORMERR)
     server/server.go         serveMsgBy (QDCOUNT != 1 => FORMERR)
     middleware/edns/edns.go  ServeDNS, serveWire, ResponseWriter.WriteMsg, keepOneOPT, keepRelayable,
                              keepOPTOnly, stripECS, stripKeepalive, ensureOpt,
                              setCookie, setNSID, udpOverflow
     internal/dnsutil/helpers.go  SetEdns0, ClearDNSSEC, ClearOPT, NotSupported
     middleware/chain.go      CancelWithRcode
     server/doq/response_writer.go  WriteMsg (ID := 0)
     miekg/dns                SetReply, SetRcode, IsEdns0 (LAST OPT of Extra)

   Definitions only; proofs are in Proofs.v.

   A message is abstract: names, records and option payloads are atoms with
   decidable equality; every record carries its uncompressed wire length so
   that Msg.Len() without compression is computed by the model.  Names are
   ids into a per-case table of suffixes (hash-consed, case-sensitive like the
   library's compression map), records carry their RDATA name layout, and the
   library's Msg.Len() WITH compression is computed too ([msg_clen], the
   compression-map walk of compressionLenSearch).  [shape_reply] stays generic
   in the compressed length ([clen]); [shape_reply_c] plugs the computed one in. *)
From Sdns Require Import Common.Base Gen.C06.
Open Scope N_scope.

(* ---- constants of github.com/miekg/dns (library, trusted) ---- *)
Definition min_msg_size : N := 512.
Definition max_msg_size : N := 65535.
Definition code_nsid : N := 3.
Definition code_ecs : N := 8.
Definition code_cookie : N := 10.
Definition code_keepalive : N := 11.
Definition code_ede : N := 15.
Definition type_rrsig : N := 46.
Definition type_nsec : N := 47.
Definition type_nsec3 : N := 50.
Definition rcode_formerr : N := 1.
Definition rcode_notimp : N := 4.
Definition rcode_badvers : N := 16.
Definition opcode_query : Z := 0%Z.
Definition opcode_notify : Z := 4%Z.

(* ---- abstract messages ---- *)
Record hdr := mk_hdr { h_id : N; h_qr : bool; h_opcode : N; h_aa : bool; h_tc : bool; h_rd : bool;
                       h_ra : bool; h_z : bool; h_ad : bool; h_cd : bool; h_rcode : N }.
Record quest := mk_quest { q_name : N; q_type : N; q_class : N; q_len : N }.
(* RDATA layout, as far as name compression sees it: runs of opaque bytes and domain names
   (compressible per the library's `cdomain-name` tag, or not) *)
Inductive seg := SFix (n : N) | SName (compress : bool) (name : N).
Record rr := mk_rr { r_id : N; r_owner : N; r_type : N; r_class : N; r_ttl : N; r_len : N; r_rd : list seg }.
(* one EDNS option: code, payload length, payload (big-endian value) *)
Record eopt := mk_eopt { e_code : N; e_len : N; e_data : N }.
(* an OPT record: version, class (= UDP size), DO, the other 15 flag bits, options *)
Record opt := mk_opt { o_ver : N; o_size : N; o_do : bool; o_z : N; o_opts : list eopt }.
(* an element of the additional section.  [XReq o] is the OPT object the edns
   writer owns (the request's OPT, aliased by pointer), in state [o]. *)
Inductive xrr := XR (r : rr) | XO (o : opt) | XReq (o : opt).
Record msg := mk_msg { m_hdr : hdr; m_q : list quest; m_an : list rr; m_ns : list rr; m_ex : list xrr }.

Inductive transport := UDP | TCP | DOH | DOQ.
Definition is_udp (t : transport) : bool := match t with UDP => true | _ => false end.
Definition is_tcp (t : transport) : bool := match t with TCP => true | _ => false end.

(* configuration + the two oracles that are functions of (config, client):
   the NSID option this server would send, the server cookie for this
   client's cookie (SHA-256: not modelled, an arbitrary value), and the ECS
   option SetEdns0 keeps on the forwarded OPT (ecs.Policy.Allows/Clamp, C19). *)
Record cfg := mk_cfg { c_nsid : option eopt; c_srv_cookie : N; c_ecs_fwd : option eopt }.

(* ---- header setters ---- *)
Definition set_id (h : hdr) (v : N) : hdr :=
  mk_hdr v (h_qr h) (h_opcode h) (h_aa h) (h_tc h) (h_rd h) (h_ra h) (h_z h) (h_ad h) (h_cd h) (h_rcode h).
Definition set_tc (h : hdr) (v : bool) : hdr :=
  mk_hdr (h_id h) (h_qr h) (h_opcode h) (h_aa h) v (h_rd h) (h_ra h) (h_z h) (h_ad h) (h_cd h) (h_rcode h).
Definition set_ad (h : hdr) (v : bool) : hdr :=
  mk_hdr (h_id h) (h_qr h) (h_opcode h) (h_aa h) (h_tc h) (h_rd h) (h_ra h) (h_z h) v (h_cd h) (h_rcode h).
Definition with_hdr (m : msg) (h : hdr) : msg := mk_msg h (m_q m) (m_an m) (m_ns m) (m_ex m).
Definition with_ex (m : msg) (ex : list xrr) : msg := mk_msg (m_hdr m) (m_q m) (m_an m) (m_ns m) ex.

(* ---- OPT helpers ---- *)
Definition is_opt (x : xrr) : bool := match x with XR _ => false | _ => true end.
Definition opt_of (x : xrr) : option opt := match x with XR _ => None | XO o => Some o | XReq o => Some o end.

(* dns.Msg.IsEdns0: scans Extra from the END *)
Fixpoint last_opt (ex : list xrr) : option opt :=
  match ex with
  | [] => None
  | x :: r => match last_opt r with
              | Some o => Some o
              | None => opt_of x
              end
  end.

(* the last OPT with what precedes and follows it; the flag says whether it is
   the writer-owned object *)
Fixpoint split_last_opt (ex : list xrr) : option (list xrr * (bool * opt) * list xrr) :=
  match ex with
  | [] => None
  | x :: r =>
      match split_last_opt r with
      | Some (pre, o, suf) => Some (x :: pre, o, suf)
      | None => match x with
                | XR _ => None
                | XO o => Some ([], (false, o), r)
                | XReq o => Some ([], (true, o), r)
                end
      end
  end.

Fixpoint find_req (ex : list xrr) : option opt :=
  match ex with
  | [] => None
  | XReq o :: _ => Some o
  | _ :: r => find_req r
  end.

Definition has_code (c : N) (l : list eopt) : bool := existsb (fun e => e_code e =? c) l.
Definition strip_code (c : N) (l : list eopt) : list eopt := filter (fun e => negb (e_code e =? c)) l.

Definition opt_set_do (o : opt) (d : bool) : opt := mk_opt (o_ver o) (o_size o) d (o_z o) (o_opts o).
Definition opt_set_size (o : opt) (s : N) : opt := mk_opt (o_ver o) s (o_do o) (o_z o) (o_opts o).
Definition opt_set_opts (o : opt) (l : list eopt) : opt := mk_opt (o_ver o) (o_size o) (o_do o) (o_z o) l.

(* ---- dnsutil.SetEdns0 on the decoded request ---- *)
Record facts := mk_facts {
  f_noedns : bool;        (* req.IsEdns0() == nil *)
  f_ver : N;              (* opt.Version() after SetEdns0 *)
  f_size : N;             (* SetEdns0's clamped size *)
  f_do : bool;
  f_cookie : bool;        (* a COOKIE option of at least 8 bytes (16 hex chars) *)
  f_nsid : bool;
  f_ka : bool;            (* hasClientKeepalive *)
  f_wopt : opt            (* the request OPT after the mutation *)
}.

Definition clamp_size (s : N) : N :=
  let s1 := if s <? min_msg_size then min_msg_size else s in
  if default_msg_size <? s1 then default_msg_size else s1.

Definition client_cookie_ok (l : list eopt) : bool :=
  existsb (fun e => (e_code e =? code_cookie) && (client_cookie_hex_len <=? 2 * e_len e)) l.

Definition fwd_opts (c : cfg) (l : list eopt) : list eopt :=
  if has_code code_ecs l then match c_ecs_fwd c with Some e => [e] | None => [] end else [].

Definition set_edns0 (c : cfg) (q : msg) : facts :=
  match last_opt (m_ex q) with
  | None =>
      mk_facts true 0 default_msg_size false false false false (mk_opt 0 default_msg_size true 0 [])
  | Some o =>
      let kept := fwd_opts c (o_opts o) in
      if negb (o_ver o =? 0)
      then mk_facts false (o_ver o) (clamp_size (o_size o)) false (client_cookie_ok (o_opts o))
                    (has_code code_nsid (o_opts o)) (has_code code_keepalive (o_opts o))
                    (mk_opt (o_ver o) default_msg_size (o_do o) (o_z o) kept)
      else mk_facts false 0 (clamp_size (o_size o)) (o_do o) (client_cookie_ok (o_opts o))
                    (has_code code_nsid (o_opts o)) (has_code code_keepalive (o_opts o))
                    (mk_opt 0 default_msg_size true 0 kept)
  end.

(* ---- the edns writer ---- *)
Record wstate := mk_w {
  w_opt : option opt;     (* writer-owned OPT; None on the wire-born (strict) branch *)
  w_size : N; w_do : bool; w_cookie : bool; w_nsid : bool;
  w_noedns : bool; w_noad : bool; w_ka : bool; w_resp : N }.

(* size selection of ServeDNS / serveWire: stream transports lift the bound,
   a client without EDNS gets 512 whatever the transport *)
Definition edns_size (tr : transport) (noedns : bool) (sz : N) : N :=
  if noedns then min_msg_size else match tr with UDP => sz | _ => max_msg_size end.

Definition mk_wstate (tr : transport) (strict : bool) (q : msg) (f : facts) : wstate :=
  mk_w (if strict then None else Some (f_wopt f))
       (edns_size tr (f_noedns f) (f_size f))
       (f_do f) (f_cookie f) (f_nsid f) (f_noedns f)
       (h_cd (m_hdr q) || (negb (h_ad (m_hdr q)) && negb (f_do f)))
       (f_ka f && is_tcp tr)
       default_msg_size.

Definition is_dnssec (r : rr) : bool :=
  (r_type r =? type_rrsig) || (r_type r =? type_nsec) || (r_type r =? type_nsec3).

(* dnsutil.ClearDNSSEC: keyed on the RESPONSE's own first question *)
Definition clear_dnssec (m : msg) : msg :=
  let strip := mk_msg (m_hdr m) (m_q m) (filter (fun r => negb (is_dnssec r)) (m_an m))
                      (filter (fun r => negb (is_dnssec r)) (m_ns m)) (m_ex m) in
  match m_q m with
  | q :: _ => if q_type q =? type_rrsig then m else strip
  | [] => strip
  end.

Definition clear_opt (m : msg) : msg := with_ex m (filter (fun x => negb (is_opt x)) (m_ex m)).

Definition fresh_opt : opt := mk_opt 0 0 false 0 [].
Definition cookie_opt (c : cfg) : eopt := mk_eopt code_cookie server_cookie_len (c_srv_cookie c).
Definition keepalive_opt : eopt := mk_eopt code_keepalive 2 tcp_keepalive_units.

(* what setCookie / setNSID append to the writer-owned OPT *)
Definition own_opts (c : cfg) (w : wstate) : list eopt :=
  (if w_cookie w then [cookie_opt c] else []) ++
  (match c_nsid c with Some n => if w_nsid w then [n] else [] | None => [] end).

Definition finish_opts (w : wstate) (l : list eopt) : list eopt :=
  strip_code code_keepalive (strip_code code_ecs l) ++ (if w_ka w then [keepalive_opt] else []).

(* keepRelayable: of a response OPT's options only Extended DNS Errors are passed on *)
Definition keep_relayable (l : list eopt) : list eopt := filter (fun e => e_code e =? code_ede) l.
(* keepOneOPT drops every OPT but the selected one *)
Definition drop_opts (ex : list xrr) : list xrr := filter (fun x => negb (is_opt x)) ex.

(* the !noedns branch of WriteMsg, on the additional section *)
Definition shape_ex (c : cfg) (w : wstate) (ex : list xrr) : list xrr :=
  (* the state of the writer-owned OPT when WriteMsg starts *)
  let wcur := match find_req ex with Some o => Some o | None => w_opt w end in
  match split_last_opt ex with
  | None =>
      (* no OPT in the response: ours (ensureOpt) is appended *)
      let own := match wcur with Some o => o | None => fresh_opt end in
      let o1 := opt_set_size (opt_set_do own (w_do w)) (w_resp w) in
      ex ++ [XO (opt_set_opts o1 (finish_opts w (o_opts own ++ own_opts c w)))]
  | Some (pre, (true, o), suf) =>
      (* the response carries the writer-owned OPT itself: the other OPTs go, its options are
         reduced to EDE, then cookie / NSID are appended to it *)
      let o1 := opt_set_size (opt_set_do o (w_do w)) (w_resp w) in
      drop_opts pre ++ XO (opt_set_opts o1 (finish_opts w (keep_relayable (o_opts o) ++ own_opts c w))) :: suf
  | Some (pre, (false, o), suf) =>
      (* a response OPT of its own: the other OPTs go, only its EDE stays, ours are merged in *)
      let o1 := opt_set_size (opt_set_do o (w_do w)) (w_resp w) in
      let ours := match wcur with Some wo => o_opts wo | None => [] end ++ own_opts c w in
      drop_opts pre ++ XO (opt_set_opts o1 (finish_opts w (keep_relayable (o_opts o) ++ ours))) :: suf
  end.
Definition shape_opt (c : cfg) (w : wstate) (m : msg) : msg := with_ex m (shape_ex c w (m_ex m)).

(* ---- sizes ---- *)
Definition sumN {A} (f : A -> N) (l : list A) : N := fold_right (fun x a => f x + a) 0 l.
Definition opt_len (o : opt) : N := opt_fixed_len + sumN (fun e => opt_option_hdr_len + e_len e) (o_opts o).
Definition xrr_len (x : xrr) : N := match x with XR r => r_len r | XO o => opt_len o | XReq o => opt_len o end.
(* Msg.Len() with Compress = false *)
Definition msg_ulen (m : msg) : N :=
  header_len + sumN q_len (m_q m) + sumN r_len (m_an m) + sumN r_len (m_ns m) + sumN xrr_len (m_ex m).

(* ---- miekg/dns name compression as Msg.Len() computes it ---- *)
Definition max_compression_offset : N := 16384.   (* 2 << 13, dns.maxCompressionOffset *)
(* name table: entry i (0-based) describes name id i+1 as (length of its first label, id of the
   rest of the name); id 0 is the root.  Equal ids <=> equal (case-sensitive) names. *)
Definition ntab := list (N * N).
Definition nt_get (nt : ntab) (id : N) : option (N * N) :=
  if id =? 0 then None else nth_error nt (N.to_nat (id - 1)).
(* the suffixes of a name, longest first: (suffix id, length of its first label) *)
Fixpoint chain (nt : ntab) (fuel : nat) (id : N) : list (N * N) :=
  match fuel with
  | O => []
  | S f => match nt_get nt id with
           | None => []
           | Some (len, parent) => (id, len) :: chain nt f parent
           end
  end.
Definition name_chain (nt : ntab) (id : N) : list (N * N) := chain nt (S (length nt)) id.
Definition chain_wlen (ch : list (N * N)) : N := sumN (fun p => 1 + snd p) ch + 1.
Definition name_wlen (nt : ntab) (id : N) : N := chain_wlen (name_chain nt id).

(* compressionLenSearch(c, s, msgOff): walk the suffixes; the first one already in the map ends
   the walk (Some = bytes before it); every suffix passed on the way is entered into the map
   while it lies below the pointer range *)
Fixpoint comp_search (cm : list N) (msgoff o : N) (ch : list (N * N)) : option N * list N :=
  match ch with
  | [] => (None, cm)
  | (id, len) :: r =>
      if existsb (N.eqb id) cm then (Some o, cm)
      else comp_search (if msgoff + o <? max_compression_offset then id :: cm else cm) msgoff (o + 1 + len) r
  end.

(* domainNameLen(s, off, compression, compress) *)
Definition name_clen (nt : ntab) (cm : list N) (off : N) (compress : bool) (id : N) : N * list N :=
  match name_chain nt id with
  | [] => (1, cm)
  | ch =>
      if compress || (off <? max_compression_offset) then
        match comp_search cm off 0 ch with
        | (Some o, cm') => if compress then (o + 2, cm') else (chain_wlen ch, cm')
        | (None, cm') => (chain_wlen ch, cm')
        end
      else (chain_wlen ch, cm)
  end.

Definition seg_ulen (nt : ntab) (sg : seg) : N := match sg with SFix n => n | SName _ id => name_wlen nt id end.
(* the generated (rr *T).len(off, compression): header, then the fields in order; [l] = length so far *)
Fixpoint segs_clen (nt : ntab) (cm : list N) (off l : N) (sgs : list seg) : N * list N :=
  match sgs with
  | [] => (l, cm)
  | SFix n :: r => segs_clen nt cm off (l + n) r
  | SName cp id :: r => let '(k, cm') := name_clen nt cm (off + l) cp id in segs_clen nt cm' off (l + k) r
  end.
Definition rr_clen (nt : ntab) (cm : list N) (off : N) (r : rr) : N * list N :=
  let '(k, cm') := name_clen nt cm off true (r_owner r) in segs_clen nt cm' off (k + 10) (r_rd r).
Definition quest_clen (nt : ntab) (cm : list N) (off : N) (q : quest) : N * list N :=
  let '(k, cm') := name_clen nt cm off false (q_name q) in (k + 4, cm').
Definition xrr_clen (nt : ntab) (cm : list N) (off : N) (x : xrr) : N * list N :=
  match x with XR r => rr_clen nt cm off r | XO o => (opt_len o, cm) | XReq o => (opt_len o, cm) end.
(* msgLenWithCompressionMap: running length and map *)
Definition fold_clen {A} (f : list N -> N -> A -> N * list N) (st : N * list N) (l : list A) : N * list N :=
  fold_left (fun st x => let '(k, cm') := f (snd st) (fst st) x in (fst st + k, cm')) l st.
Definition is_compressible (m : msg) : bool :=
  (1 <? length (m_q m))%nat || negb (match m_an m, m_ns m, m_ex m with [], [], [] => true | _, _, _ => false end).
(* Msg.Len() with Compress = true *)
Definition msg_clen (nt : ntab) (m : msg) : N :=
  if is_compressible m then
    fst (fold_clen (xrr_clen nt) (fold_clen (rr_clen nt) (fold_clen (rr_clen nt)
          (fold_clen (quest_clen nt) (header_len, []) (m_q m)) (m_an m)) (m_ns m)) (m_ex m))
  else msg_ulen m.

(* the table-derived uncompressed lengths agree with the library-measured ones the records carry *)
Definition quest_wf (nt : ntab) (q : quest) : bool := q_len q =? name_wlen nt (q_name q) + 4.
Definition rr_wf (nt : ntab) (r : rr) : bool :=
  r_len r =? name_wlen nt (r_owner r) + 10 + sumN (seg_ulen nt) (r_rd r).
Definition xrr_wf (nt : ntab) (x : xrr) : bool := match x with XR r => rr_wf nt r | _ => true end.
Definition msg_wf (nt : ntab) (m : msg) : bool :=
  forallb (quest_wf nt) (m_q m) && forallb (rr_wf nt) (m_an m) && forallb (rr_wf nt) (m_ns m) && forallb (xrr_wf nt) (m_ex m).

(* udpOverflow(m, limit); [clen] = the library's Msg.Len() with compression *)
Definition udp_overflow (m : msg) (clen limit : N) : bool :=
  if msg_ulen m <=? limit then false else limit <? clen.

(* keepOPTOnly: the FIRST OPT of Extra *)
Fixpoint keep_opt_only (ex : list xrr) : list xrr :=
  match ex with
  | [] => []
  | XR _ :: r => keep_opt_only r
  | x :: _ => [x]
  end.

Definition truncate (m : msg) : msg :=
  mk_msg (set_ad (set_tc (m_hdr m) true) false) (m_q m) [] [] (keep_opt_only (m_ex m)).

(* aliasing is not observable on the wire *)
Definition norm_x (x : xrr) : xrr := match x with XReq o => XO o | _ => x end.
Definition norm (m : msg) : msg := with_ex m (map norm_x (m_ex m)).

(* WriteMsg up to (not including) the truncation test *)
Definition shape_pre (c : cfg) (w : wstate) (dn : msg) : msg :=
  let m1 := if w_do w then dn else clear_dnssec dn in
  let m2 := if w_noedns w then clear_opt m1 else shape_opt c w m1 in
  if w_noad w then with_hdr m2 (set_ad (m_hdr m2) false) else m2.

Definition shape_reply (tr : transport) (c : cfg) (w : wstate) (dn : msg) (clen : N) : msg :=
  let m := shape_pre c w dn in
  norm (if is_udp tr && udp_overflow m clen (w_size w) then truncate m else m).

(* WriteMsg with the compressed length computed by the model of the library *)
Definition shape_reply_c (nt : ntab) (tr : transport) (c : cfg) (w : wstate) (dn : msg) : msg :=
  shape_reply tr c w dn (msg_clen nt (shape_pre c w dn)).

(* ---- replies built from the request ---- *)
(* dns.Msg.SetReply on a fresh message, then Rcode *)
Definition set_rcode (req : msg) (rc : N) : msg :=
  let h := m_hdr req in
  let q0 := h_opcode h =? 0 in
  mk_msg (mk_hdr (h_id h) true (h_opcode h) false false (q0 && h_rd h) false false false (q0 && h_cd h) rc)
         (firstn 1 (m_q req)) [] [] [].

(* dnsutil.NotSupported *)
Definition not_supported (req : msg) : msg :=
  mk_msg (mk_hdr (h_id (m_hdr req)) true (h_opcode (m_hdr req)) false false true false false true false rcode_notimp) [] [] [] [].

(* Chain.CancelWithRcode(BADVERS, do) after SetEdns0, opt.SetVersion(0), opt.Option = nil and
   req.Extra = [opt]: the reply carries a bare OPT and nothing else of the request's additional section *)
Definition badvers_reply (q : msg) (f : facts) : msg :=
  let o := f_wopt f in
  let o' := mk_opt 0 (o_size o) false (o_z o) [] in
  let m := set_rcode q rcode_badvers in
  let h := m_hdr m in
  mk_msg (mk_hdr (h_id h) true (h_opcode h) false false true true false false (h_cd h) rcode_badvers)
         (m_q m) [] [] [XO o'].

(* ---- the byte path of the writer (WireReady said yes, WriteWire is handed a packed body) ---- *)
(* the OPT appendWireOPT encodes: cookie, NSID, keepalive, then the Extended DNS Error the caller passes *)
Definition wire_opt (c : cfg) (w : wstate) (ede : option eopt) : opt :=
  mk_opt 0 (w_resp w) (w_do w) 0
         (own_opts c w ++ (if w_ka w then [keepalive_opt] else []) ++ (match ede with Some e => [e] | None => [] end)).

(* ResponseWriter.WriteWire on a body that decodes to [d] (no OPT) and is [blen] bytes long;
   [iad] / [hasdnssec] / [ede] are the caller's WireInfo (AuthenticatedData, HasDNSSEC, the EDE).
   None = ErrWireFallback.  The AD bit of the body is cleared only when the caller's WireInfo SAYS
   it is set ([w.noad && info.AuthenticatedData]): the writer never reads the bit off the body. *)
Definition write_wire (tr : transport) (c : cfg) (w : wstate) (d : msg) (iad hasdnssec : bool) (ede : option eopt)
           (blen : N) : option msg :=
  if negb (w_do w) && hasdnssec then None
  else
    let d1 := if w_noad w && iad then with_hdr d (set_ad (m_hdr d) false) else d in
    if w_noedns w then
      if is_udp tr && (w_size w <? blen) then None else Some d1
    else
      let o := wire_opt c w ede in
      if is_udp tr && (w_size w <? blen + opt_len o) then None
      else Some (with_ex d1 (m_ex d1 ++ [XO o])).

(* a last handler that tries the byte path with the response minus its OPT and re-serves the
   whole message through WriteMsg on ErrWireFallback (what the cache does) *)
Definition wire_then_msg (tr : transport) (c : cfg) (hasdnssec : bool) (ede : option eopt) (blen clen : N)
           (w : wstate) (d : msg) : msg :=
  (* the scripted handler's WireInfo is truthful: AuthenticatedData = the AD bit of its message *)
  match write_wire tr c w (clear_opt d) (h_ad (m_hdr d)) hasdnssec ede blen with
  | Some r => norm r
  | None => shape_reply tr c w d clen
  end.

Definition wire_then_msg_c (nt : ntab) (tr : transport) (c : cfg) (hasdnssec : bool) (ede : option eopt) (blen : N)
           (w : wstate) (d : msg) : msg :=
  wire_then_msg tr c hasdnssec ede blen (msg_clen nt (shape_pre c w d)) w d.

(* EDNS.ServeDNS with everything downstream played by [dn] (None: nothing written);
   [wr] is what the wrapped writer does with the message it is handed *)
Definition edns_serve_gen (wr : wstate -> msg -> msg) (tr : transport) (c : cfg) (q : msg) (strict : bool)
           (dn : option msg) : option msg :=
  if (edns_opcode_floor <? Z.of_N (h_opcode (m_hdr q)))%Z then Some (not_supported q)
  else
    let f := set_edns0 c q in
    if negb (f_ver f =? 0) then Some (badvers_reply q f)
    else match dn with
         | None => None
         | Some d => Some (wr (mk_wstate tr strict q f) d)
         end.
Definition edns_serve (tr : transport) (c : cfg) (q : msg) (strict : bool) (dn : option msg) (clen : N) : option msg :=
  edns_serve_gen (fun w d => shape_reply tr c w d clen) tr c q strict dn.

(* the transport's own last touch: DoQ rewrites the ID *)
Definition transport_write (tr : transport) (m : msg) : msg :=
  match tr with DOQ => with_hdr m (set_id (m_hdr m) doq_reply_id) | _ => m end.

(* Server.serveMsgBy *)
Definition serve_msg_gen (wr : wstate -> msg -> msg) (tr : transport) (c : cfg) (q : msg) (strict : bool)
           (dn : option msg) : option msg :=
  option_map (transport_write tr)
    (if negb (length (m_q q) =? 1)%nat then Some (set_rcode q rcode_formerr)
     else edns_serve_gen wr tr c q strict dn).
Definition serve_msg (tr : transport) (c : cfg) (q : msg) (strict : bool) (dn : option msg) (clen : N) : option msg :=
  serve_msg_gen (fun w d => shape_reply tr c w d clen) tr c q strict dn.

(* ---- header-level accept (datagram and stream listeners) ---- *)
Inductive verdict := AcceptOK | AcceptIgnore | AcceptNotImp | AcceptFormErr.

(* the section-count limits of server.acceptHeader.  Written out here (session 3): the tie is
   Proofs.gen_acceptHeader — the function translated from the Go AST IS accept_header — so a
   behaviour-preserving rewrite of acceptHeader keeps the tie and a changed limit breaks it
   (they used to be regex constants over the statement text, which seeded C06-8's refactor broke) *)
Definition accept_qd : N := 1.
Definition accept_an_max : N := 1.
Definition accept_ns_max : N := 1.
Definition accept_ar_max : N := 2.

Definition accept_header (h : T_Header) : verdict :=
  if go_Header_QR h then AcceptIgnore
  else if negb (go_Header_Opcode h =? opcode_query)%Z && negb (go_Header_Opcode h =? opcode_notify)%Z then AcceptNotImp
  else if negb (T_Header_QDCount h =? accept_qd) || (accept_an_max <? T_Header_ANCount h)
          || (accept_ns_max <? T_Header_NSCount h) || (accept_ar_max <? T_Header_ARCount h) then AcceptFormErr
  else AcceptOK.

(* rejectInPlace: ID, opcode and RD echoed, QR set, everything else zero *)
Definition reject_in_place (h : T_Header) (rc : N) : msg :=
  mk_msg (mk_hdr (T_Header_ID h) true (N.land (N.shiftr (T_Header_Flags h) 11) 15) false false
                 (negb (N.land (T_Header_Flags h) 256 =? 0)) false false false false rc) [] [] [] [].

(* udpEngine.serve / tcpEngine.serveFrame; [body] = the library's decode of the packet *)
Definition serve_raw_gen (wr : wstate -> msg -> msg) (tr : transport) (c : cfg) (h : T_Header) (body : option msg)
           (strict : bool) (dn : option msg) : option msg :=
  match accept_header h with
  | AcceptIgnore => None
  | AcceptNotImp => Some (reject_in_place h rcode_notimp)
  | AcceptFormErr => Some (reject_in_place h rcode_formerr)
  | AcceptOK =>
      match body with
      | None => Some (reject_in_place h rcode_formerr)
      | Some q => serve_msg_gen wr tr c q strict dn
      end
  end.
Definition serve_raw (tr : transport) (c : cfg) (h : T_Header) (body : option msg) (strict : bool)
           (dn : option msg) (clen : N) : option msg :=
  serve_raw_gen (fun w d => shape_reply tr c w d clen) tr c h body strict dn.

(* the same ladders with the model's own compressed length *)
Definition edns_serve_c (nt : ntab) (tr : transport) (c : cfg) (q : msg) (strict : bool) (dn : option msg) : option msg :=
  edns_serve_gen (shape_reply_c nt tr c) tr c q strict dn.
Definition serve_msg_c (nt : ntab) (tr : transport) (c : cfg) (q : msg) (strict : bool) (dn : option msg) : option msg :=
  serve_msg_gen (shape_reply_c nt tr c) tr c q strict dn.
Definition serve_raw_c (nt : ntab) (tr : transport) (c : cfg) (h : T_Header) (body : option msg) (strict : bool)
           (dn : option msg) : option msg :=
  serve_raw_gen (shape_reply_c nt tr c) tr c h body strict dn.

(* ---- the cache's reply producers (middleware/cache): header and WireInfo.AuthenticatedData ---- *)
(* wire.ApplyReply on a stored header: ID, QR, opcode, RD, CD from the request, AA cleared; TC, RA,
   Z, AD and the rcode stay as stored.  (CacheEntry.ToMsg arrives at the same header through
   dns.Msg.SetReply for an opcode-0 request: the only kind the edns layer lets through.) *)
Definition apply_reply (st q : hdr) : hdr :=
  mk_hdr (h_id q) true (h_opcode q) false (h_tc st) (h_rd q) (h_ra st) (h_z st) (h_ad st) (h_cd q) (h_rcode st).
(* the merged validation verdict: every hop stored with AD, and the client did not set CD *)
Definition hit_ad (hops : list hdr) (q : hdr) : bool := forallb h_ad hops && negb (h_cd q).
(* CacheEntry.serveWireInto / serveWireIntoRequest (one stored header: the exact entry's) and
   composeWireChase (the alias entry's stored header first, then every hop's): the header of the
   body handed to the writer chain and the WireInfo.AuthenticatedData that goes with it *)
Definition hit_wire (hops : list hdr) (q : hdr) : option (hdr * bool) :=
  match hops with
  | [] => None
  | st :: _ => let ad := hit_ad hops q in Some (set_ad (apply_reply st q) ad, ad)
  end.

(* every byte-path producer of the cache.  Besides the entry-based ones:
   - nxDomainCutEntry.serveWireInto + serveCutHitFromWire (RFC 8020 subtree cut): a template header
     with no flags, ApplyReply, then SetRcode(NXDOMAIN), SetRA, SetAD; WireInfo.AuthenticatedData is
     the constant true; serveCompositeFromWire consults the cut only for CD = 0 requests;
   - serveFailureFromWire (RFC 9520 cached failure): a zeroed header, ApplyReply, SetRcode(SERVFAIL),
     SetRA; WireInfo.AuthenticatedData is left false. *)
Definition rcode_servfail : N := 2.
Definition rcode_nxdomain : N := 3.
Inductive producer := PEntries (hops : list hdr) | PCut | PFailure.
Definition zero_hdr : hdr := mk_hdr 0 false 0 false false false false false false false 0.
Definition with_rcode_ra_ad (h : hdr) (rc : N) (ad : bool) : hdr :=
  mk_hdr (h_id h) (h_qr h) (h_opcode h) (h_aa h) (h_tc h) (h_rd h) true (h_z h) ad (h_cd h) rc.
Definition produce (p : producer) (q : hdr) : option (hdr * bool) :=
  match p with
  | PEntries hops => hit_wire hops q
  | PCut => if h_cd q then None else Some (with_rcode_ra_ad (apply_reply zero_hdr q) rcode_nxdomain true, true)
  | PFailure => Some (with_rcode_ra_ad (apply_reply zero_hdr q) rcode_servfail false, false)
  end.

(* ---- the cache's Msg-path producers (session 5) ----
   Every route of Cache.ServeDNS that answers from cached state through ch.Writer.WriteMsg: the header
   of the message handed to the writer chain.  Its question section is the request's first question,
   spelling included, on every route, byte path or Msg path ([product_q]). *)
(* dns.Msg.SetReply run on a message that already has a header [st] (an unpacked entry, a copied
   proof, or a fresh message = zero_hdr): Id, QR and the opcode come from the request; RD and CD are
   copied only for opcode 0; the rcode is reset; every other bit stays *)
Definition set_reply_on (st q : hdr) : hdr :=
  let q0 := h_opcode q =? 0 in
  mk_hdr (h_id q) true (h_opcode q) (h_aa st) (h_tc st) (if q0 then h_rd q else h_rd st) (h_ra st) (h_z st) (h_ad st)
         (if q0 then h_cd q else h_cd st) 0.
(* CacheEntry.ToMsg: Unpack(e.wire), SetReply(req), rcode restored, Id, Authoritative = false,
   AuthenticatedData = false for a CD request *)
Definition to_msg_hdr (st q : hdr) : hdr :=
  let h := set_reply_on st q in
  mk_hdr (h_id h) (h_qr h) (h_opcode h) false (h_tc h) (h_rd h) (h_ra h) (h_z h)
         (if h_cd q then false else h_ad h) (h_cd h) (h_rcode st).
(* one answer of the internal sub-pipeline to the alias chase (Cache.additionalAnswer): its AD bit,
   its rcode, whether it carried answer or authority records *)
Record sub := mk_sub { s_ad : bool; s_rcode : N; s_recs : bool }.
Definition set_hrcode (h : hdr) (rc : N) : hdr :=
  mk_hdr (h_id h) (h_qr h) (h_opcode h) (h_aa h) (h_tc h) (h_rd h) (h_ra h) (h_z h) (h_ad h) (h_cd h) rc.
(* additionalAnswer, as far as the header goes: a sub-response that carries records is merged by
   searchAdditionalAnswer (AD stays only if the sub-response has it too); an NXDOMAIN sub-response
   ends the chase and becomes the rcode.  (The exits through dnsutil.SetRcode — alias loop, work
   limits — are not modelled: the drivers do not reach them.) *)
Fixpoint msg_chase (h : hdr) (subs : list sub) : hdr :=
  match subs with
  | [] => h
  | s :: r =>
      let h1 := if s_recs s && h_ad h && negb (s_ad s) then set_ad h false else h in
      if s_rcode s =? rcode_nxdomain then set_hrcode h1 rcode_nxdomain else msg_chase h1 r
  end.
Inductive mproducer :=
| MEntry (st : hdr) (subs : list sub)   (* handleCacheHit: entry.ToMsg(req), then additionalAnswer *)
| MCut (stc : hdr)                      (* handleNXDomainCutHit: nxDomainCutEntry.response(req) on the stored proof *)
| MFailure                              (* handleFailureHit: FailureHit.Response(req) *)
| MNoRec.                               (* RD = 0: Chain.CancelWithRcode(SERVFAIL, false) before any lookup *)
Definition produce_msg (p : mproducer) (q : hdr) : option hdr :=
  match p with
  | MEntry st subs => Some (msg_chase (to_msg_hdr st q) subs)
  | MCut stc =>
      if h_cd q then None
      else let h := set_reply_on stc q in
           Some (mk_hdr (h_id h) (h_qr h) (h_opcode h) false (h_tc h) (h_rd h) true (h_z h) true false rcode_nxdomain)
  | MFailure =>
      let h := set_reply_on zero_hdr q in
      Some (mk_hdr (h_id h) (h_qr h) (h_opcode h) false false (h_rd h) true (h_z h) false (h_cd h) rcode_servfail)
  | MNoRec =>
      if h_rd q then None
      else Some (mk_hdr (h_id q) true (h_opcode q) false false true true false false ((h_opcode q =? 0) && h_cd q) rcode_servfail)
  end.
(* the question section of every product of the cache: SetReply's / the byte composers' copy of the
   request's first question *)
Definition product_q (q : msg) : list quest := firstn 1 (m_q q).
(* the sub-response the internal pipeline gives for a cached hop: ToMsg of the hop's entry for the
   chase's own request (CD copied from the outer message) *)
Definition sub_of_hop (cd : bool) (hop : hdr) : sub := mk_sub (h_ad hop && negb cd) (h_rcode hop) true.
