(* C06 — every reply respects what the client sent and negotiated.
   Property theorems over the model of the reply path (Model.v), for EVERY
   client query, EVERY downstream response and EVERY value of the library's
   compressed length.  Predicates (hdr_echo, quest_echo, has_opt, no_dnssec,
   no_ecs_ka, options_own, tc_minimal, udp_limit, raw_reject_ok) are the ones
   Run.spec_case applies to the replies observed at the transports.

   Premises name what is outside the edns layer:
     dn_echo q d   downstream built its response with SetReply (ID, opcode, question, QR)
     req_opt_clean d   options downstream appended to the request's own OPT are ECS / keepalive / EDE
     quest_small q the question fits the wire format (name <= 255 octets)
     cfg_wf c      the ECS / NSID oracle options have the codes 8 / 3
     hdr_agrees    the library decoded ID and opcode from the packet header            *)
From Sdns Require Import Common.Base Common.GoList Gen.C06 C06.Model C06.WireOpt C06.Run C06.Proofs C06.Proofs_wire C06.Proofs_hit C06.Proofs_word C06.Proofs_filters C06.Proofs_strip.
Open Scope N_scope.

(* datagram / stream listeners: QR set, the packet's ID and opcode echoed, on every reply *)
Theorem qr_id_opcode_echo :
  forall tr c h body strict dn clen r,
    tr = UDP \/ tr = TCP ->
    serve_raw tr c h body strict dn clen = Some r ->
    (forall q, body = Some q -> hdr_agrees h q) ->
    (forall q d, body = Some q -> dn = Some d -> dn_echo q d) ->
    h_qr (m_hdr r) = true /\ h_id (m_hdr r) = T_Header_ID h /\ h_opcode (m_hdr r) = flags_opcode h.
Proof. exact qr_id_opcode_echo_raw_l. Qed.
Print Assumptions qr_id_opcode_echo.

(* message entries (DoH, DoQ — and the decoded fallback of the raw ones): ID 0 over DoQ *)
Theorem qr_id_opcode_echo_msg :
  forall tr c q strict dn clen r,
    serve_msg tr c q strict dn clen = Some r ->
    (forall d, dn = Some d -> dn_echo q d) ->
    hdr_echo tr q r = true.
Proof. exact qr_id_opcode_echo_msg_l. Qed.
Print Assumptions qr_id_opcode_echo_msg.

Theorem question_echo :
  forall tr c q strict dn clen r,
    serve_msg tr c q strict dn clen = Some r ->
    (forall d, dn = Some d -> dn_echo q d) ->
    is_bare_reject r = true \/ quest_echo q r = true.
Proof. exact question_echo_l. Qed.
Print Assumptions question_echo.

(* no premise on the downstream response at all *)
Theorem no_opt_unless_asked :
  forall tr c q strict dn clen r,
    serve_msg tr c q strict dn clen = Some r -> has_opt r = true -> client_opt q <> None.
Proof. exact no_opt_unless_asked_l. Qed.
Print Assumptions no_opt_unless_asked.

Theorem no_dnssec_unless_do_or_rrsig :
  forall tr c q strict dn clen r,
    serve_msg tr c q strict dn clen = Some r ->
    (forall d, dn = Some d -> dn_echo q d) ->
    client_do q = false -> asked_rrsig q = false -> no_dnssec r = true.
Proof. exact no_dnssec_l. Qed.
Print Assumptions no_dnssec_unless_do_or_rrsig.

(* no premise on the downstream response *)
Theorem ad_clear_when_cd_or_not_asked :
  forall tr c q strict dn clen r,
    serve_msg tr c q strict dn clen = Some r ->
    h_cd (m_hdr q) = true \/ (client_do q = false /\ h_ad (m_hdr q) = false) ->
    is_bare_reject r = true \/ h_ad (m_hdr r) = false.
Proof. exact ad_clear_l. Qed.
Print Assumptions ad_clear_when_cd_or_not_asked.

(* FULL: for every query (any EDNS version) and every downstream response (any number of OPT
   records, any options): no client-subnet option and no keepalive but our own reaches the client.
   (Before fix fb9758c this held only for version 0 and single-OPT responses.) *)
Theorem no_ecs_no_keepalive_reflected :
  forall tr c q strict dn clen r,
    serve_msg tr c q strict dn clen = Some r -> cfg_wf c ->
    no_ecs_ka tr c (client_opt q) r = true.
Proof. exact no_ecs_ka_l. Qed.
Print Assumptions no_ecs_no_keepalive_reflected.

(* FULL: every option in a reply is one this server generated for this client (its cookie against
   the client's, NSID when asked and configured, its keepalive on TCP when asked) or an Extended
   DNS Error.  (DESIGN §6 F5: refuted before fix fb9758c.)  The one premise left concerns options
   downstream appended to the REQUEST's own OPT object when it also sends a later OPT of its own
   (req_opt_clean; vacuous otherwise — those are merged unfiltered, see NOTES.md). *)
Theorem no_foreign_option_reflected :
  forall tr c q strict dn clen r,
    serve_msg tr c q strict dn clen = Some r -> cfg_wf c ->
    (forall d, dn = Some d -> req_opt_clean d) ->
    options_own tr c (client_opt q) r = true.
Proof. exact options_own_l. Qed.
Print Assumptions no_foreign_option_reflected.

(* a COOKIE option in a reply is the server cookie for the client cookie that was sent *)
Theorem cookie_only_against_client_cookie :
  forall tr c q strict dn clen r e,
    serve_msg tr c q strict dn clen = Some r -> cfg_wf c ->
    (forall d, dn = Some d -> req_opt_clean d) ->
    In e (all_opts r) -> e_code e = code_cookie ->
    client_cookie_ok (client_opts (client_opt q)) = true /\ e = cookie_opt c.
Proof. exact cookie_only_l. Qed.
Print Assumptions cookie_only_against_client_cookie.

(* FULL: every reply over UDP — shaped, BADVERS, NOTIMP, FORMERR — for every compressed length the
   library may report for the shaped message (compression only shortens): question + OPT with TC,
   or at most max(512, min(advertised, 1232)) bytes even uncompressed, or the shaped message
   unchanged with its compressed length within that bound.  (The BADVERS reply was unbounded
   before fix fb9758c.)  The in-place rejects of the listeners are 12 bytes (Proofs.reject_small). *)
Theorem udp_size_bound :
  forall c q strict dn clen r,
    serve_msg UDP c q strict dn clen = Some r ->
    quest_small q ->
    (forall d, dn = Some d -> clen <= msg_ulen (shape_pre c (mk_wstate UDP strict q (set_edns0 c q)) d)) ->
    tc_minimal r = true
    \/ msg_ulen r <= udp_limit (client_opt q)
    \/ (exists d, dn = Some d /\ r = norm (shape_pre c (mk_wstate UDP strict q (set_edns0 c q)) d)
                   /\ clen <= udp_limit (client_opt q)).
Proof. exact udp_size_bound_l. Qed.
Print Assumptions udp_size_bound.

Theorem accept_table :
  forall tr c h body strict dn clen,
  (flags_qr h = true -> serve_raw tr c h body strict dn clen = None)
  /\ (flags_qr h = false -> flags_opcode h <> 0 -> flags_opcode h <> 4 ->
      serve_raw tr c h body strict dn clen = Some (reject_in_place h rcode_notimp))
  /\ (flags_qr h = false -> (flags_opcode h = 0 \/ flags_opcode h = 4) -> bad_counts h = true ->
      serve_raw tr c h body strict dn clen = Some (reject_in_place h rcode_formerr))
  /\ (flags_qr h = false -> (flags_opcode h = 0 \/ flags_opcode h = 4) -> bad_counts h = false -> body = None ->
      serve_raw tr c h body strict dn clen = Some (reject_in_place h rcode_formerr))
  /\ (forall q, flags_qr h = false -> (flags_opcode h = 0 \/ flags_opcode h = 4) -> bad_counts h = false -> body = Some q ->
      length (m_q q) = 1%nat -> h_opcode (m_hdr q) <> 0 ->
      serve_raw tr c h body strict dn clen = Some (transport_write tr (not_supported q)))
  /\ (forall q, flags_qr h = false -> (flags_opcode h = 0 \/ flags_opcode h = 4) -> bad_counts h = false -> body = Some q ->
      length (m_q q) = 1%nat -> h_opcode (m_hdr q) = 0 -> client_ver q <> 0 ->
      exists r, serve_raw tr c h body strict dn clen = Some r /\ h_rcode (m_hdr r) = rcode_badvers
                /\ hdr_echo tr q r = true /\ quest_echo q r = true).
Proof. exact accept_table_l. Qed.
Print Assumptions accept_table.

(* the wire-born (strict) branch and the decoded branch of the edns handler shape the same reply *)
Theorem strict_path_same_reply :
  forall tr c q d clen,
    cfg_wf c -> client_ver q = 0 -> find_req (m_ex d) = None ->
    shape_reply tr c (mk_wstate tr true q (set_edns0 c q)) d clen
    = shape_reply tr c (mk_wstate tr false q (set_edns0 c q)) d clen.
Proof. exact strict_same_reply_l. Qed.
Print Assumptions strict_path_same_reply.

(* "the same rules on bytes": whenever ResponseWriter.WriteWire accepts a packed body (no OPT of
   its own, truthful WireInfo, no stored EDE), the reply it sends is the reply WriteMsg sends for
   the same response — so every clause above carries over to the byte path *)
Theorem wire_path_agrees :
  forall tr c q strict d iad hasd blen r,
    let w := mk_wstate tr strict q (set_edns0 c q) in
    cfg_wf c -> client_ver q = 0 ->
    filter is_opt (m_ex d) = [] ->
    iad = h_ad (m_hdr d) ->
    hasd = has_dnssec_aug d ->
    write_wire tr c w d iad hasd None blen = Some r ->
    norm r = shape_reply tr c w d (blen + (if w_noedns w then 0 else opt_len (wire_opt c w None))).
Proof. exact wire_path_agrees_l. Qed.
Print Assumptions wire_path_agrees.

(* ---- name compression computed, not supplied ---- *)

(* "compression only shortens", for the model of the library's compression-map walk *)
Theorem msg_clen_le_ulen :
  forall nt m, msg_wf nt m = true -> msg_clen nt m <= msg_ulen m.
Proof. exact msg_clen_le_ulen_l. Qed.
Print Assumptions msg_clen_le_ulen.

(* the pipeline that measures with the computed compressed length (the one check_case runs against
   the observed replies) is an instance of the pipeline every theorem above quantifies over *)
Theorem computed_length_instance :
  forall nt tr c q strict dn,
    serve_msg_c nt tr c q strict dn = serve_msg tr c q strict dn (clen_of nt tr c q strict dn).
Proof. exact serve_msg_c_instance_l. Qed.
Print Assumptions computed_length_instance.

Theorem computed_length_instance_raw :
  forall nt tr c h body strict dn,
    serve_raw_c nt tr c h body strict dn
    = serve_raw tr c h body strict dn (match body with Some q => clen_of nt tr c q strict dn | None => 0 end).
Proof. exact serve_raw_c_instance_l. Qed.
Print Assumptions computed_length_instance_raw.

(* FULL, without any premise about lengths: over UDP every reply is question + OPT with TC, or at
   most max(512, min(advertised, 1232)) bytes even uncompressed, or the shaped message unchanged
   whose compressed length — as the model of Msg.Len computes it — is within that bound.
   msg_wf: the lengths the records carry agree with the name table (checked on every case). *)
Theorem udp_size_bound_computed :
  forall nt c q strict dn r,
    serve_msg_c nt UDP c q strict dn = Some r ->
    quest_small q ->
    (forall d, dn = Some d -> msg_wf nt d = true) ->
    tc_minimal r = true
    \/ msg_ulen r <= udp_limit (client_opt q)
    \/ (exists d, dn = Some d /\ r = norm (shape_pre c (mk_wstate UDP strict q (set_edns0 c q)) d)
                   /\ msg_clen nt r <= udp_limit (client_opt q)).
Proof. exact udp_size_bound_c_l. Qed.
Print Assumptions udp_size_bound_computed.

(* ---- the premise req_opt_clean ---- *)

(* it holds for every writer of OPT options the tree has: whatever sequence of SetEDE / cache EDE
   restore / pool keepalive / SetEdns0's forwarded ECS ran on the request's OPT *)
Theorem req_opt_clean_tree :
  forall c d,
    cfg_wf c ->
    (forall o, find_req (m_ex d) = Some o ->
       exists l ws, Forall writer_ok ws /\ o_opts o = apply_writers (fwd_opts c l) ws) ->
    req_opt_clean d.
Proof. exact req_opt_clean_tree_l. Qed.
Print Assumptions req_opt_clean_tree.

(* and it cannot be dropped: a (hypothetical) handler that appends a private-use option to the
   request's own OPT and attaches another OPT after it gets that option through to the client.
   Not a defect of the tree — no handler does this — but the remaining gap of fix fb9758c; the
   hardening is one line (keepRelayable on w.opt.Option), see NOTES.md. *)
Theorem req_opt_clean_necessary :
  exists tr c q d clen r,
    serve_msg tr c q false (Some d) clen = Some r /\ cfg_wf c /\ dn_echo q d /\ client_ver q = 0
    /\ ~ req_opt_clean d /\ options_own tr c (client_opt q) r = false.
Proof. exact req_opt_clean_necessary_l. Qed.
Print Assumptions req_opt_clean_necessary.

(* what the ingress guarantees: at the hand-over to the rest of the chain the request's OPT (the
   object the writer keeps) holds only the forwarded client-subnet copy — for every query *)
Theorem ingress_req_opt_clean :
  forall c q e, cfg_wf c -> In e (o_opts (f_wopt (set_edns0 c q))) -> e_code e = code_ecs.
Proof. exact ingress_req_opt_clean_l. Qed.
Print Assumptions ingress_req_opt_clean.

(* the premise discharged for the tree as it is: ingress state + any sequence of the tree's four
   writers (inventory pinned by Proofs_src.gen_opt_writers) on the request's OPT *)
Theorem no_foreign_option_reflected_tree :
  forall tr c q strict dn clen r,
    serve_msg tr c q strict dn clen = Some r -> cfg_wf c ->
    (forall d o, dn = Some d -> find_req (m_ex d) = Some o ->
       exists ws, Forall writer_ok ws /\ o_opts o = apply_writers (o_opts (f_wopt (set_edns0 c q))) ws) ->
    options_own tr c (client_opt q) r = true.
Proof. exact options_own_tree_l. Qed.
Print Assumptions no_foreign_option_reflected_tree.

(* the writer itself, for EVERY state of the writer-owned OPT (attached to the response or not,
   mutated downstream or not) and every additional section: an option that leaves is an Extended
   DNS Error of the response, an option sitting on the writer-owned OPT at that moment (other than
   ECS / keepalive — THE unfiltered source req_opt_clean is about), the cookie / NSID generated
   here, or this server's keepalive *)
Theorem writer_option_origin :
  forall c w ex e,
    In e (ex_opts (shape_ex c w ex)) ->
    (((In e (ex_opts ex) /\ e_code e = code_ede) \/ In e (wcur_opts w ex) \/ In e (own_opts c w))
     /\ e_code e <> code_ecs /\ e_code e <> code_keepalive)
    \/ (w_ka w = true /\ e = keepalive_opt).
Proof. exact shape_ex_opts. Qed.
Print Assumptions writer_option_origin.

(* ---- the byte path's OPT as octets (PHASE3 item 3: internal/wire builders, translated) ---- *)

(* FULL: the octets appendWireOPT appends — the translated AppendOPTHeader / AppendOption /
   AppendOptionString / AppendOptionEDE / FinishOPT, composed in the pinned order — are the wire form
   of the OPT the model attaches on the byte path, for every body, writer state and WireInfo.
   Premises: the byte-level inputs describe the abstract configuration (40 cookie octets, NSID text),
   option payloads are octets, the options fit an RDLENGTH. *)
Theorem wire_opt_builder_is_model :
  forall body c w ck nsidstr ede,
    wire_inputs_ok c ck nsidstr ->
    (match ede with Some x => octets (snd x) /\ (2 + Z.of_nat (length (snd x)) < 65536)%Z | None => True end) ->
    (Z.of_nat (length (enc_opts (o_opts (wire_opt c w (option_map ede_eopt ede))))) < 65536)%Z ->
    append_wire_opt body (w_resp w) (w_do w) (w_cookie w) ck nsidstr (w_nsid w) (w_ka w) ede
    = body ++ enc_opt 0 (wire_opt c w (option_map ede_eopt ede)).
Proof. exact append_wire_opt_is_model_l. Qed.
Print Assumptions wire_opt_builder_is_model.

(* the encoded OPT is as long as the model's size arithmetic (udp_size_bound, write_wire) says *)
Theorem enc_opt_length : forall xrc o, N.of_nat (length (enc_opt xrc o)) = opt_len o.
Proof. exact enc_opt_length_l. Qed.
Print Assumptions enc_opt_length.

(* the listeners' first step, translated wire.ParseHeader: fewer than 12 octets are refused
   (silence), otherwise the six big-endian words acceptHeader judges *)
Theorem packet_header_parse :
  forall pkt,
    parse_pkt pkt =
    if (length pkt <? N.to_nat header_len)%nat then None
    else Some (mk_T_Header (go_be16 (firstn 2 pkt)) (go_be16 (firstn 2 (skipn 2 pkt))) (go_be16 (firstn 2 (skipn 4 pkt)))
                           (go_be16 (firstn 2 (skipn 6 pkt))) (go_be16 (firstn 2 (skipn 8 pkt))) (go_be16 (firstn 2 (skipn 10 pkt)))).
Proof. exact gen_ParseHeader_l. Qed.
Print Assumptions packet_header_parse.

(* ---- session 4: the cache behind the edns writer (anchors middleware/cache/entry_wire.go,
   wire.ApplyReply; "AD on cache hits for CD clients") ----
   [produce p q] is the header of the body a byte-path producer of the cache hands to the writer chain,
   with the WireInfo.AuthenticatedData that goes with it, for EVERY request header [q]:
     PEntries [st]            CacheEntry.serveWireInto / serveWireIntoRequest, st = the entry's stored header
     PEntries (alias :: hops) composeWireChase, the alias entry's stored header then every hop's
     PCut                     the RFC 8020 cut composer (nxDomainCutEntry.serveWireInto)
     PFailure                 the RFC 9520 cached-failure composer (serveFailureFromWire)
   — for EVERY combination of stored header bits. *)

(* the reply header is derived from the request: QR set; ID, opcode, RD, CD echoed; AA cleared *)
Theorem cache_hit_header_from_request :
  forall p q h iad,
    produce p q = Some (h, iad) ->
    h_qr h = true /\ h_id h = h_id q /\ h_opcode h = h_opcode q /\ h_rd h = h_rd q /\ h_cd h = h_cd q /\ h_aa h = false.
Proof. exact produce_header. Qed.
Print Assumptions cache_hit_header_from_request.

(* an entry-based hit keeps RA, TC and the rcode of the (first) stored header *)
Theorem cache_entry_hit_keeps_stored :
  forall hops st q h iad,
    hit_wire (st :: hops) q = Some (h, iad) ->
    h_ra h = h_ra st /\ h_tc h = h_tc st /\ h_rcode h = h_rcode st.
Proof. exact cache_entry_hit_keeps_stored_l. Qed.
Print Assumptions cache_entry_hit_keeps_stored.

(* the WireInfo the cache passes is truthful about AD — the premise [iad = h_ad (m_hdr d)] of
   wire_path_agrees *)
Theorem cache_wire_info_truthful :
  forall p q h iad, produce p q = Some (h, iad) -> iad = h_ad h.
Proof. exact produce_truthful. Qed.
Print Assumptions cache_wire_info_truthful.

(* AD is asserted by an entry-based hit only for a chain validated at every hop, never under CD; the
   cut composer (which always asserts it) is not consulted for CD clients *)
Theorem cache_hit_ad_only_when_validated :
  forall hops q h iad,
    hit_wire hops q = Some (h, iad) -> h_ad h = true ->
    h_cd q = false /\ forall st, In st hops -> h_ad st = true.
Proof. exact hit_wire_ad. Qed.
Print Assumptions cache_hit_ad_only_when_validated.

Theorem cache_cut_not_for_cd :
  forall q h iad, produce PCut q = Some (h, iad) -> h_cd q = false /\ h_rcode h = rcode_nxdomain.
Proof. exact produce_cut_gate. Qed.
Print Assumptions cache_cut_not_for_cd.

(* end to end on the byte path, no premise on what is stored: a cache hit the edns writer lets
   through as bytes reaches a client that set CD, or neither DO nor AD, with AD clear; and it echoes
   QR / ID / opcode *)
Theorem ad_clear_on_cache_wire_hit :
  forall tr c q strict p d h iad hasd ede blen r,
    let w := mk_wstate tr strict q (set_edns0 c q) in
    client_ver q = 0 ->
    produce p (m_hdr q) = Some (h, iad) -> m_hdr d = h ->
    write_wire tr c w d iad hasd ede blen = Some r ->
    h_cd (m_hdr q) = true \/ (client_do q = false /\ h_ad (m_hdr q) = false) ->
    h_ad (m_hdr r) = false.
Proof. exact hit_ad_clear_l. Qed.
Print Assumptions ad_clear_on_cache_wire_hit.

Theorem qr_id_opcode_echo_cache_wire_hit :
  forall tr c q strict p d h iad hasd ede blen r,
    let w := mk_wstate tr strict q (set_edns0 c q) in
    produce p (m_hdr q) = Some (h, iad) -> m_hdr d = h ->
    write_wire tr c w d iad hasd ede blen = Some r ->
    h_qr (m_hdr r) = true /\ h_id (m_hdr r) = h_id (m_hdr q) /\ h_opcode (m_hdr r) = h_opcode (m_hdr q).
Proof. exact hit_echo_l. Qed.
Print Assumptions qr_id_opcode_echo_cache_wire_hit.

(* the truthfulness is NECESSARY: ResponseWriter.WriteWire clears AD only when the WireInfo says it is
   set, so a body with AD = 1 handed over with AuthenticatedData = false reaches a CD = 1 client with
   AD = 1 (computed witness; seeded change C06-11 makes composeWireChase produce exactly this, and the
   cache driver shows it on the Go code).  Hardening candidate: clear the bit whenever w.noad. *)
Theorem wire_info_truth_necessary :
  let c := mk_cfg None 0 None in
  let w := mk_wstate UDP true hn_q (set_edns0 c hn_q) in
  h_cd (m_hdr hn_q) = true /\
  exists r, write_wire UDP c w hn_d false false None 17 = Some r /\ h_ad (m_hdr r) = true.
Proof. exact wire_info_truth_necessary_l. Qed.
Print Assumptions wire_info_truth_necessary.

(* ---- session 5: the Msg-path routes of the cache, and the question section of every product ----
   [produce_msg p q] is the header of the message a Msg-path route of Cache.ServeDNS hands to the
   writer chain (ch.Writer.WriteMsg), for EVERY request header [q] and EVERY stored header:
     MEntry st subs   handleCacheHit: entry.ToMsg(req), then additionalAnswer with the sub-pipeline
                      answering [subs] (AD, rcode, carried records) in that order
     MCut stc         handleNXDomainCutHit: nxDomainCutEntry.response(req) on the stored proof message
     MFailure         handleFailureHit: FailureHit.Response(req)
     MNoRec           an RD = 0 query: Chain.CancelWithRcode(SERVFAIL) before any lookup
   [product_q q] is the question section of every product, byte path or Msg path: the request's first
   question, spelling included (checked on every cache case).  Not modelled: RFC 8198 synthesis
   (handleDenialProofHit) and additionalAnswer's exits through dnsutil.SetRcode (alias loop, work limits). *)

(* "reply header derived from request" on the Msg path: QR set, ID and opcode echoed, AA cleared on
   every route; for opcode-0 requests (the only ones the edns layer hands on) CD echoed, and RD too
   unless the query is refused for RD = 0 *)
Theorem cache_msg_header_from_request :
  forall p q h,
    produce_msg p q = Some h ->
    h_qr h = true /\ h_id h = h_id q /\ h_opcode h = h_opcode q /\ h_aa h = false
    /\ (h_opcode q = 0 -> h_cd h = h_cd q)
    /\ (h_opcode q = 0 -> p <> MNoRec -> h_rd h = h_rd q).
Proof. exact produce_msg_header. Qed.
Print Assumptions cache_msg_header_from_request.

(* AD on the Msg path: for an entry-based answer only if the entry was stored validated, the client
   did not set CD, and every sub-response the alias chase consumed with records was validated;
   never under CD on any route *)
Theorem cache_msg_hit_ad_only_when_validated :
  forall st subs q h,
    produce_msg (MEntry st subs) q = Some h -> h_ad h = true ->
    h_cd q = false /\ h_ad st = true /\ forall s, In s (chase_taken subs) -> s_recs s = true -> s_ad s = true.
Proof. exact produce_msg_ad. Qed.
Print Assumptions cache_msg_hit_ad_only_when_validated.

Theorem cache_msg_no_ad_under_cd :
  forall p q h, produce_msg p q = Some h -> h_cd q = true -> h_ad h = false.
Proof. exact produce_msg_ad_cd. Qed.
Print Assumptions cache_msg_no_ad_under_cd.

(* "the same rules on bytes", cache side: for every opcode-0 request the byte path and the Msg path
   of the cache hand over the same header — an exact entry; an alias chain completed from cached
   hops (the sub-pipeline answering each hop from its entry: sub_of_hop); the RFC 8020 cut (stored
   proof without TC / Z — the byte template has no flags); the RFC 9520 failure.  Together with
   wire_path_agrees (edns side) the client gets the same reply whichever path served it. *)
Theorem cache_paths_same_header :
  forall q, h_opcode q = 0 ->
    (forall st, hit_wire [st] q = Some (to_msg_hdr st q, h_ad (to_msg_hdr st q)))
    /\ (forall alias hops, Forall (fun x => h_rcode x <> rcode_nxdomain) hops ->
          option_map fst (hit_wire (alias :: hops) q) = produce_msg (MEntry alias (map (sub_of_hop (h_cd q)) hops)) q)
    /\ (forall stc, h_tc stc = false -> h_z stc = false -> option_map fst (produce PCut q) = produce_msg (MCut stc) q)
    /\ option_map fst (produce PFailure q) = produce_msg MFailure q.
Proof. exact cache_paths_same_header_l. Qed.
Print Assumptions cache_paths_same_header.

(* the premise dn_echo of the edns theorems, discharged for every product of the cache *)
Theorem cache_products_are_replies :
  forall q d, length (m_q q) = 1%nat -> m_q d = product_q q ->
    (forall p h, produce_msg p (m_hdr q) = Some h -> m_hdr d = h -> dn_echo q d)
    /\ (forall p h iad, produce p (m_hdr q) = Some (h, iad) -> m_hdr d = h -> dn_echo q d).
Proof. exact cache_products_are_replies_l. Qed.
Print Assumptions cache_products_are_replies.

(* END TO END with the cache as the downstream, Msg path — NO premise about the downstream response
   beyond "it is a product of the cache": through Server.serveMsgBy, the edns handler and
   ResponseWriter.WriteMsg the reply echoes QR / ID (0 on DoQ) / opcode and the question, carries an
   OPT only if asked, no RRSIG / NSEC / NSEC3 without DO or qtype RRSIG, and AD clear for a CD or
   neither-DO-nor-AD client — whatever records, OPTs and bits the cached state holds *)
Theorem cache_reply_respects_client :
  forall tr c q strict p d h clen r,
    length (m_q q) = 1%nat ->
    produce_msg p (m_hdr q) = Some h -> m_hdr d = h -> m_q d = product_q q ->
    serve_msg tr c q strict (Some d) clen = Some r ->
    hdr_echo tr q r = true
    /\ (is_bare_reject r = true \/ quest_echo q r = true)
    /\ (has_opt r = true -> client_opt q <> None)
    /\ (client_do q = false -> asked_rrsig q = false -> no_dnssec r = true)
    /\ (h_cd (m_hdr q) = true \/ (client_do q = false /\ h_ad (m_hdr q) = false) ->
        is_bare_reject r = true \/ h_ad (m_hdr r) = false).
Proof. exact cache_reply_respects_client_l. Qed.
Print Assumptions cache_reply_respects_client.

(* byte path: the question the cache copied into the body is the question that leaves *)
Theorem question_echo_cache_wire_hit :
  forall tr c w q d iad hasd ede blen r,
    m_q d = product_q q -> write_wire tr c w d iad hasd ede blen = Some r -> quest_echo q r = true.
Proof. exact hit_quest_echo_l. Qed.
Print Assumptions question_echo_cache_wire_hit.

(* END TO END with the cache as the downstream, byte path: a product of ANY of the cache's four
   byte-path producers that ResponseWriter.WriteWire accepts reaches the client with every clause of
   the statement — header echo, question echo, OPT only if asked, no DNSSEC records without DO /
   RRSIG, AD clear for a CD or neither-DO-nor-AD client, every option this server's own (cookie
   against the client's, NSID when asked, TCP keepalive when asked) or the Extended DNS Error the cache
   passes, no ECS, and over UDP body + OPT within max(512, min(advertised, 1232)).  Premises = what the
   writer relies on its caller for, each checked on every cache case (Run.hit_wire_facts_ok,
   hit_producer_ok): the body carries no OPT, its question is the request's, WireInfo.HasDNSSEC is
   truthful, the EDE passed is an EDE.  Unlike wire_path_agrees this covers bodies with a stored EDE. *)
Theorem cache_wire_reply_respects_client :
  forall tr c q strict p d h iad hasd ede blen r,
    let w := mk_wstate tr strict q (set_edns0 c q) in
    cfg_wf c -> client_ver q = 0 ->
    produce p (m_hdr q) = Some (h, iad) -> m_hdr d = h -> m_q d = product_q q ->
    filter is_opt (m_ex d) = [] ->
    (hasd = false -> asked_rrsig q = true \/ no_dnssec d = true) ->
    (forall x, ede = Some x -> e_code x = code_ede) ->
    write_wire tr c w d iad hasd ede blen = Some r ->
    (h_qr (m_hdr r) = true /\ h_id (m_hdr r) = h_id (m_hdr q) /\ h_opcode (m_hdr r) = h_opcode (m_hdr q))
    /\ quest_echo q r = true
    /\ (has_opt r = true -> client_opt q <> None)
    /\ (client_do q = false -> asked_rrsig q = false -> no_dnssec r = true)
    /\ (h_cd (m_hdr q) = true \/ (client_do q = false /\ h_ad (m_hdr q) = false) -> h_ad (m_hdr r) = false)
    /\ options_own tr c (client_opt q) r = true /\ no_ecs_ka tr c (client_opt q) r = true
    /\ (tr = UDP -> blen + (if w_noedns w then 0 else opt_len (wire_opt c w ede)) <= udp_limit (client_opt q)).
Proof. exact cache_wire_reply_respects_client_l. Qed.
Print Assumptions cache_wire_reply_respects_client.

(* the record-level header functions of the cache model ARE the composers' statements on the flags
   word, written with internal/wire's own mask constants (Proofs_word.v): wire.ApplyReply; then
   ClearAD; and SetRcode, SetRA, SetAD / a cleared AD — for every stored header with opcode 0 and every
   request (exhaustive computation over the 4 096 x 64 combinations) *)
Theorem cache_header_model_is_word_level :
  forall st q rc,
    h_opcode st = 0 -> h_rcode st < 16 -> h_opcode q < 16 -> rc < 16 ->
    hdr_word (apply_reply st q) = apply_reply_w (hdr_word st) (h_opcode q) (h_rd q) (h_cd q)
    /\ hdr_word (set_ad st false) = clear_ad_w (hdr_word st)
    /\ hdr_word (with_rcode_ra_ad st rc true) = set_ad_w (set_ra_w (set_rcode_w (hdr_word st) rc))
    /\ hdr_word (with_rcode_ra_ad st rc false) = clear_ad_w (set_ra_w (set_rcode_w (hdr_word st) rc)).
Proof. exact cache_header_model_is_word_level_l. Qed.
Print Assumptions cache_header_model_is_word_level.

(* ---- session 5: the writer's filters are the translated Go functions ----
   keepRelayable, stripECS, stripKeepalive (options of an OPT) and keepOPTOnly (additional section on
   truncation), translated from middleware/edns/edns.go with dns.EDNS0 / dns.RR as sum types, ARE the
   model's keep_relayable / strip_code code_ecs / strip_code code_keepalive / keep_opt_only — the
   functions "client subnet, upstream keepalive and foreign options never reflected" and "a TC=1 reply
   holding only question and OPT" rest on — for every option list and every additional section, under
   ANY abstraction of options / records to the model's that respects the Go-type <-> code
   correspondence (EDNS0_EDE = 15, EDNS0_SUBNET = 8, EDNS0_TCP_KEEPALIVE = 11; OPT records) *)
Theorem edns_filters_are_the_translated_code :
  forall (abs : I_EDNS0 -> eopt) (absx : I_RR -> xrr),
    (forall o, (e_code (abs o) =? code_ede) = is_EDE o) ->
    (forall o, (e_code (abs o) =? code_ecs) = is_SUBNET o) ->
    (forall o, (e_code (abs o) =? code_keepalive) = is_KA o) ->
    (forall x, is_opt (absx x) = is_OPT x) ->
    (forall l, map abs (go_keepRelayable l) = keep_relayable (map abs l))
    /\ (forall l, map abs (go_stripECS l) = strip_code code_ecs (map abs l))
    /\ (forall l, map abs (go_stripKeepalive l) = strip_code code_keepalive (map abs l))
    /\ (forall l, map absx (go_keepOPTOnly l) = keep_opt_only (map absx l)).
Proof. exact edns_filters_are_the_translated_code_l. Qed.
Print Assumptions edns_filters_are_the_translated_code.

(* ---- wave 9: the DNSSEC / OPT stripping IS the translated Go code ----
   dnsutil.ClearDNSSEC (the one function behind "no RRSIG, NSEC or NSEC3 in answer or authority unless DO was
   set or type RRSIG was asked": edns.ResponseWriter.WriteMsg, the cache's stripped bodies and cut
   responses all call it) and dnsutil.ClearOPT ("no OPT unless the query carried one"), translated from the
   Go AST with their helpers filterOut / isDNSSEC / isOPT, ARE Model.clear_dnssec and Model.clear_opt — for
   every library message, under ANY abstraction of library messages to the model's that keeps the question
   type and respects Go type <-> record type (RRSIG / NSEC / NSEC3 <-> 46 / 47 / 50, OPT records).  The
   RRSIG-question exemption is part of the statement: a widened exemption (seeded C06-14) or a filter that
   misses a record breaks this proof.  filterOut is the plain filter for EVERY callback. *)
Theorem dnssec_strip_is_the_translated_code :
  forall (absh : T_MsgHdr -> hdr) (absq : T_Question -> quest) (absr : I_RR -> rr) (absx : I_RR -> xrr),
    (forall q, q_type (absq q) = T_Question_Qtype q) ->
    (forall x, is_dnssec (absr x) = go_isDNSSEC x) ->
    (forall x, is_opt (absx x) = go_isOPT x) ->
    (forall m, abs_msg absh absq absr absx (go_ClearDNSSEC m) = clear_dnssec (abs_msg absh absq absr absx m))
    /\ (forall m, abs_msg absh absq absr absx (go_ClearOPT m) = clear_opt (abs_msg absh absq absr absx m))
    /\ (forall rrs drop, go_filterOut rrs drop = filter (fun x => negb (drop x)) rrs).
Proof. exact dnssec_strip_is_the_translated_code_l. Qed.
Print Assumptions dnssec_strip_is_the_translated_code.
