(* C06 — every reply respects what the client sent and negotiated.
   Property theorems over the model of the reply path (Model.v), for EVERY
   client query, EVERY downstream response and EVERY value of the library's
   compressed length.  Predicates (hdr_echo, quest_echo, has_opt, no_dnssec,
   no_ecs_ka, options_own, tc_minimal, udp_limit, raw_reject_ok) are the ones
   Run.spec_case applies to the replies observed at the transports.

   Premises name what is outside the edns layer:
     dn_echo q d   downstream built its response with SetReply (ID, opcode, question, QR)
     one_opt d     the downstream response carries at most one OPT
     cfg_wf c      the ECS / NSID oracle options have the codes 8 / 3
     hdr_agrees    the library decoded ID and opcode from the packet header            *)
From Sdns Require Import Common.Base Gen.C06 C06.Model C06.Run C06.Proofs.
Open Scope N_scope.

(* datagram / stream listeners: QR set, the packet's ID and opcode echoed, on every reply *)
Theorem qr_id_opcode_echo :
  forall tr c h body strict dn clen r,
    tr = UDP \/ tr = TCP ->
    serve_raw tr c h body strict dn clen = Some r ->
    (forall q, body = Some q -> hdr_agrees h q) ->
    (forall q d, body = Some q -> dn = Some d -> dn_echo q d) ->
    h_qr (m_hdr r) = true /\ h_id (m_hdr r) = T_Header_ID h /\ h_opcode (m_hdr r) = flags_opcode h.
Proof. exact qr_id_opcode_echo_raw_l. Qed.
Print Assumptions qr_id_opcode_echo.

(* message entries (DoH, DoQ — and the decoded fallback of the raw ones): ID 0 over DoQ *)
Theorem qr_id_opcode_echo_msg :
  forall tr c q strict dn clen r,
    serve_msg tr c q strict dn clen = Some r ->
    (forall d, dn = Some d -> dn_echo q d) ->
    hdr_echo tr q r = true.
Proof. exact qr_id_opcode_echo_msg_l. Qed.
Print Assumptions qr_id_opcode_echo_msg.

Theorem question_echo :
  forall tr c q strict dn clen r,
    serve_msg tr c q strict dn clen = Some r ->
    (forall d, dn = Some d -> dn_echo q d) ->
    is_bare_reject r = true \/ quest_echo q r = true.
Proof. exact question_echo_l. Qed.
Print Assumptions question_echo.

(* no premise on the downstream response at all *)
Theorem no_opt_unless_asked :
  forall tr c q strict dn clen r,
    serve_msg tr c q strict dn clen = Some r -> has_opt r = true -> client_opt q <> None.
Proof. exact no_opt_unless_asked_l. Qed.
Print Assumptions no_opt_unless_asked.

Theorem no_dnssec_unless_do_or_rrsig :
  forall tr c q strict dn clen r,
    serve_msg tr c q strict dn clen = Some r ->
    (forall d, dn = Some d -> dn_echo q d) ->
    client_do q = false -> asked_rrsig q = false -> no_dnssec r = true.
Proof. exact no_dnssec_l. Qed.
Print Assumptions no_dnssec_unless_do_or_rrsig.

(* no premise on the downstream response *)
Theorem ad_clear_when_cd_or_not_asked :
  forall tr c q strict dn clen r,
    serve_msg tr c q strict dn clen = Some r ->
    h_cd (m_hdr q) = true \/ (client_do q = false /\ h_ad (m_hdr q) = false) ->
    is_bare_reject r = true \/ h_ad (m_hdr r) = false.
Proof. exact ad_clear_l. Qed.
Print Assumptions ad_clear_when_cd_or_not_asked.

(* FULL statement (does not hold, see the two _refuted theorems below):
     forall tr c q strict dn clen r, serve_msg tr c q strict dn clen = Some r -> cfg_wf c ->
       no_ecs_ka tr c (client_opt q) r = true.
   What holds: for EDNS version 0 queries and downstream responses with at most one OPT. *)
Theorem no_ecs_no_keepalive_reflected_partial :
  forall tr c q strict dn clen r,
    serve_msg tr c q strict dn clen = Some r -> cfg_wf c -> client_ver q = 0 ->
    (forall d, dn = Some d -> one_opt d) ->
    no_ecs_ka tr c (client_opt q) r = true.
Proof. exact no_ecs_ka_partial_l. Qed.
Print Assumptions no_ecs_no_keepalive_reflected_partial.

(* BADVERS replies return the clamped client subnet when [ecs] forwarding is on (finding badvers-ecs-reflected) *)
Theorem no_ecs_reflected_badvers_refuted :
  exists tr c q r,
    serve_msg tr c q false None 0 = Some r /\ cfg_wf c /\ no_ecs_ka tr c (client_opt q) r = false.
Proof. exact no_ecs_reflected_badvers_refuted_l. Qed.
Print Assumptions no_ecs_reflected_badvers_refuted.

(* only the LAST OPT of a downstream response is shaped (finding edns-extra-opt-relayed) *)
Theorem no_ecs_reflected_second_opt_refuted :
  exists tr c q d clen r,
    serve_msg tr c q false (Some d) clen = Some r /\ cfg_wf c /\ dn_echo q d /\ client_ver q = 0
    /\ no_ecs_ka tr c (client_opt q) r = false.
Proof. exact no_ecs_reflected_second_opt_refuted_l. Qed.
Print Assumptions no_ecs_reflected_second_opt_refuted.

(* a COOKIE option in a reply is the downstream response's, the client's own (BADVERS echo of its
   additional section), or the server cookie for the client cookie that was sent *)
Theorem cookie_only_against_client_cookie :
  forall tr c q strict dn clen r e,
    serve_msg tr c q strict dn clen = Some r -> cfg_wf c ->
    In e (all_opts r) -> e_code e = code_cookie ->
    (exists d, dn = Some d /\ In e (all_opts d))
    \/ In e (all_opts q)
    \/ (client_cookie_ok (client_opts (client_opt q)) = true /\ e = cookie_opt c).
Proof. exact cookie_only_l. Qed.
Print Assumptions cookie_only_against_client_cookie.

(* FULL statement (does not hold — DESIGN §6 F5, finding edns-foreign-option-relayed):
     forall tr c q strict dn clen r, serve_msg tr c q strict dn clen = Some r -> cfg_wf c ->
       (forall d, dn = Some d -> dn_echo q d /\ one_opt d) ->
       options_own tr c (client_opt q) r = true. *)
Theorem no_foreign_option_reflected_refuted :
  exists tr c q d clen r,
    serve_msg tr c q false (Some d) clen = Some r /\ cfg_wf c /\ dn_echo q d /\ one_opt d /\ client_ver q = 0
    /\ options_own tr c (client_opt q) r = false.
Proof. exact no_foreign_option_reflected_refuted_l. Qed.
Print Assumptions no_foreign_option_reflected_refuted.

(* What holds: when every option the downstream response carries is one the shaper strips (ECS,
   keepalive) or an Extended DNS Error — in particular when its OPT is the request's, or absent. *)
Theorem no_foreign_option_reflected_partial :
  forall tr c q strict dn clen r,
    serve_msg tr c q strict dn clen = Some r -> cfg_wf c -> client_ver q = 0 ->
    (forall d, dn = Some d -> one_opt d /\ forall e, In e (all_opts d) -> relayable e) ->
    options_own tr c (client_opt q) r = true.
Proof. exact options_own_partial_l. Qed.
Print Assumptions no_foreign_option_reflected_partial.

(* shaped replies over UDP, for every compressed length the library may report (compression only
   shortens): question + OPT with TC, or unchanged and within max(512, min(advertised, 1232)) *)
Theorem udp_size_bound :
  forall c q strict d clen r,
    serve_msg UDP c q strict (Some d) clen = Some r ->
    length (m_q q) = 1%nat -> h_opcode (m_hdr q) = 0 -> client_ver q = 0 ->
    clen <= msg_ulen (shape_pre c (mk_wstate UDP strict q (set_edns0 c q)) d) ->
    tc_minimal r = true
    \/ (r = norm (shape_pre c (mk_wstate UDP strict q (set_edns0 c q)) d) /\ clen <= udp_limit (client_opt q)).
Proof. exact udp_size_bound_l. Qed.
Print Assumptions udp_size_bound.

(* the BADVERS reply is not measured at all (finding badvers-reply-oversize) *)
Theorem udp_size_bound_badvers_refuted :
  exists c q r,
    serve_msg UDP c q false None 0 = Some r /\ h_rcode (m_hdr r) = rcode_badvers
    /\ udp_limit (client_opt q) < msg_ulen r /\ tc_minimal r = false.
Proof. exact udp_size_bound_badvers_refuted_l. Qed.
Print Assumptions udp_size_bound_badvers_refuted.

Theorem accept_table :
  forall tr c h body strict dn clen,
  (flags_qr h = true -> serve_raw tr c h body strict dn clen = None)
  /\ (flags_qr h = false -> flags_opcode h <> 0 -> flags_opcode h <> 4 ->
      serve_raw tr c h body strict dn clen = Some (reject_in_place h rcode_notimp))
  /\ (flags_qr h = false -> (flags_opcode h = 0 \/ flags_opcode h = 4) -> bad_counts h = true ->
      serve_raw tr c h body strict dn clen = Some (reject_in_place h rcode_formerr))
  /\ (flags_qr h = false -> (flags_opcode h = 0 \/ flags_opcode h = 4) -> bad_counts h = false -> body = None ->
      serve_raw tr c h body strict dn clen = Some (reject_in_place h rcode_formerr))
  /\ (forall q, flags_qr h = false -> (flags_opcode h = 0 \/ flags_opcode h = 4) -> bad_counts h = false -> body = Some q ->
      length (m_q q) = 1%nat -> h_opcode (m_hdr q) <> 0 ->
      serve_raw tr c h body strict dn clen = Some (transport_write tr (not_supported q)))
  /\ (forall q, flags_qr h = false -> (flags_opcode h = 0 \/ flags_opcode h = 4) -> bad_counts h = false -> body = Some q ->
      length (m_q q) = 1%nat -> h_opcode (m_hdr q) = 0 -> client_ver q <> 0 ->
      exists r, serve_raw tr c h body strict dn clen = Some r /\ h_rcode (m_hdr r) = rcode_badvers
                /\ hdr_echo tr q r = true /\ quest_echo q r = true).
Proof. exact accept_table_l. Qed.
Print Assumptions accept_table.

(* the wire-born (strict) branch and the decoded branch of the edns handler shape the same reply *)
Theorem strict_path_same_reply :
  forall tr c q d clen,
    cfg_wf c -> client_ver q = 0 -> find_req (m_ex d) = None ->
    shape_reply tr c (mk_wstate tr true q (set_edns0 c q)) d clen
    = shape_reply tr c (mk_wstate tr false q (set_edns0 c q)) d clen.
Proof. exact strict_same_reply_l. Qed.
Print Assumptions strict_path_same_reply.

(* "the same rules on bytes": whenever ResponseWriter.WriteWire accepts a packed body (no OPT of
   its own, truthful WireInfo, no stored EDE), the reply it sends is the reply WriteMsg sends for
   the same response — so every clause above carries over to the byte path *)
Theorem wire_path_agrees :
  forall tr c q strict d hasd blen r,
    let w := mk_wstate tr strict q (set_edns0 c q) in
    cfg_wf c -> client_ver q = 0 ->
    filter is_opt (m_ex d) = [] ->
    hasd = has_dnssec_aug d ->
    write_wire tr c w d hasd None blen = Some r ->
    norm r = shape_reply tr c w d (blen + (if w_noedns w then 0 else opt_len (wire_opt c w None))).
Proof. exact wire_path_agrees_l. Qed.
Print Assumptions wire_path_agrees.
