(* C06 — the cache composers' header arithmetic on the flags WORD (session 5).
   wire.ApplyReply / ClearAD / SetAD / SetRA / SetRcode return nothing, which purefunc still refuses
   (srcgen wish 3); their statements are pinned as text (Proofs_src.gen_hit_src, gen_hit_word_src) and
   written out here on the 16-bit flags word with the package's own mask constants (Gen: the wflag
   constants).  The lemmas prove that Model.apply_reply / set_ad _ false / with_rcode_ra_ad — the
   record-level functions every cache theorem is stated over — ARE those word-level functions, for every
   stored header with opcode 0 (all 4 096 of them: 8 flag bits x 16 rcodes, by computation) and every
   request (16 opcodes x RD x CD).  A changed mask constant or shift breaks these lemmas. *)
From Sdns Require Import Common.Base Gen.C06 C06.Model C06.Run.
Open Scope N_scope.

(* wire.ApplyReply on the flags word, statement by statement (statements pinned by gen_hit_src), with the
   package's own masks (Gen: the wflag constants) *)
Definition apply_reply_w (w op : N) (rd cd : bool) : N :=
  let f := N.lor w wflag_qr in
  let f := N.ldiff f wflag_aa in
  let f := N.lor (N.ldiff f wflag_opcode_msk) (N.land (N.shiftl op wflag_opcode_sh) wflag_opcode_msk) in
  let f := if rd then N.lor f wflag_rd else N.ldiff f wflag_rd in
  if cd then N.lor f wflag_cd else N.ldiff f wflag_cd.
(* wire.ClearAD / SetAD / SetRA / SetRcode act on body[3], the low octet of the flags word *)
Definition clear_ad_w (w : N) : N := N.ldiff w wflag_ad.
Definition set_ad_w (w : N) : N := N.lor w 32.
Definition set_ra_w (w : N) : N := N.lor w 128.
Definition set_rcode_w (w rc : N) : N := N.lor (N.land w 65520) (N.land rc 15).

Definition nibbles : list N := [0;1;2;3;4;5;6;7;8;9;10;11;12;13;14;15].
Definition bools : list bool := [false; true].
Lemma in_nibbles x : x < 16 -> In x nibbles.
Proof.
  intros H. assert (E : x = 0 \/ x = 1 \/ x = 2 \/ x = 3 \/ x = 4 \/ x = 5 \/ x = 6 \/ x = 7 \/ x = 8 \/ x = 9 \/ x = 10
                        \/ x = 11 \/ x = 12 \/ x = 13 \/ x = 14 \/ x = 15) by lia.
  unfold nibbles. cbn. intuition.
Qed.
Lemma in_bools b : In b bools.
Proof. destruct b; cbn; auto. Qed.

(* every stored header with opcode 0 (the cache stores answers to opcode-0 queries only; the composers'
   templates have opcode 0): flag bits and the 4-bit rcode *)
Definition all_hdrs (f : hdr -> bool) : bool :=
  forallb (fun qr => forallb (fun aa => forallb (fun tc => forallb (fun rd => forallb (fun ra =>
  forallb (fun z => forallb (fun ad => forallb (fun cd => forallb (fun rc =>
    f (mk_hdr 0 qr 0 aa tc rd ra z ad cd rc)) nibbles) bools) bools) bools) bools) bools) bools) bools) bools.
Lemma all_hdrs_spec f :
  all_hdrs f = true -> forall h, h_id h = 0 -> h_opcode h = 0 -> h_rcode h < 16 -> f h = true.
Proof.
  unfold all_hdrs. intros H [i qr op aa tc rd ra z ad cd rc]. cbn. intros -> -> Hr.
  rewrite forallb_forall in H; specialize (H _ (in_bools qr)).
  rewrite forallb_forall in H; specialize (H _ (in_bools aa)).
  rewrite forallb_forall in H; specialize (H _ (in_bools tc)).
  rewrite forallb_forall in H; specialize (H _ (in_bools rd)).
  rewrite forallb_forall in H; specialize (H _ (in_bools ra)).
  rewrite forallb_forall in H; specialize (H _ (in_bools z)).
  rewrite forallb_forall in H; specialize (H _ (in_bools ad)).
  rewrite forallb_forall in H; specialize (H _ (in_bools cd)).
  rewrite forallb_forall in H; specialize (H _ (in_nibbles _ Hr)).
  exact H.
Qed.

Definition apply_word_ok (st : hdr) : bool :=
  forallb (fun qop =>
    forallb (fun qrd => forallb (fun qcd =>
      hdr_word (apply_reply st (mk_hdr 0 false qop false false qrd false false false qcd 0))
      =? apply_reply_w (hdr_word st) qop qrd qcd) bools) bools
    && (hdr_word (with_rcode_ra_ad st qop true) =? set_ad_w (set_ra_w (set_rcode_w (hdr_word st) qop)))
    && (hdr_word (with_rcode_ra_ad st qop false) =? clear_ad_w (set_ra_w (set_rcode_w (hdr_word st) qop))))
    nibbles
  && (hdr_word (set_ad st false) =? clear_ad_w (hdr_word st)).
Lemma apply_word_all : all_hdrs apply_word_ok = true.
Proof. vm_compute. reflexivity. Qed.

Lemma apply_word_at st :
  h_opcode st = 0 -> h_rcode st < 16 -> apply_word_ok (set_id st 0) = true.
Proof.
  intros Ho Hr. apply (all_hdrs_spec _ apply_word_all); destruct st; cbn in *; auto.
Qed.

(* Model.apply_reply IS wire.ApplyReply's statement sequence on the flags word, for every stored
   header with opcode 0 and every request *)
Lemma apply_reply_is_word st q :
  h_opcode st = 0 -> h_rcode st < 16 -> h_opcode q < 16 ->
  hdr_word (apply_reply st q) = apply_reply_w (hdr_word st) (h_opcode q) (h_rd q) (h_cd q).
Proof.
  intros Ho Hr Hq. pose proof (apply_word_at st Ho Hr) as H. unfold apply_word_ok in H.
  apply andb_true_iff in H. destruct H as [H _]. rewrite forallb_forall in H. specialize (H _ (in_nibbles _ Hq)).
  apply andb_true_iff in H. destruct H as [H _]. apply andb_true_iff in H. destruct H as [H _].
  rewrite forallb_forall in H. specialize (H _ (in_bools (h_rd q))).
  rewrite forallb_forall in H. specialize (H _ (in_bools (h_cd q))).
  apply N.eqb_eq in H. destruct st, q; cbn in *. exact H.
Qed.

(* the composers' tail: SetRcode, SetRA, then SetAD (cut) or nothing on a cleared bit (failure) *)
Lemma with_rcode_ra_ad_is_word st rc :
  h_opcode st = 0 -> h_rcode st < 16 -> rc < 16 ->
  hdr_word (with_rcode_ra_ad st rc true) = set_ad_w (set_ra_w (set_rcode_w (hdr_word st) rc))
  /\ hdr_word (with_rcode_ra_ad st rc false) = clear_ad_w (set_ra_w (set_rcode_w (hdr_word st) rc)).
Proof.
  intros Ho Hr Hq. pose proof (apply_word_at st Ho Hr) as H. unfold apply_word_ok in H.
  apply andb_true_iff in H. destruct H as [H _]. rewrite forallb_forall in H. specialize (H _ (in_nibbles _ Hq)).
  apply andb_true_iff in H. destruct H as [H H2]. apply andb_true_iff in H. destruct H as [_ H1].
  apply N.eqb_eq in H1, H2. destruct st; cbn in *. split; assumption.
Qed.

Lemma set_ad_false_is_word st :
  h_opcode st = 0 -> h_rcode st < 16 -> hdr_word (set_ad st false) = clear_ad_w (hdr_word st).
Proof.
  intros Ho Hr. pose proof (apply_word_at st Ho Hr) as H. unfold apply_word_ok in H.
  apply andb_true_iff in H. destruct H as [_ H]. apply N.eqb_eq in H. destruct st; cbn in *. exact H.
Qed.

(* statements of Properties.v proved here (Properties.v holds only `exact`) *)
Lemma cache_header_model_is_word_level_l :
  forall st q rc,
    h_opcode st = 0 -> h_rcode st < 16 -> h_opcode q < 16 -> rc < 16 ->
    hdr_word (apply_reply st q) = apply_reply_w (hdr_word st) (h_opcode q) (h_rd q) (h_cd q)
    /\ hdr_word (set_ad st false) = clear_ad_w (hdr_word st)
    /\ hdr_word (with_rcode_ra_ad st rc true) = set_ad_w (set_ra_w (set_rcode_w (hdr_word st) rc))
    /\ hdr_word (with_rcode_ra_ad st rc false) = clear_ad_w (set_ra_w (set_rcode_w (hdr_word st) rc)).
Proof.
intros st q rc Ho Hr Hq Hc. split; [apply apply_reply_is_word; assumption|].
  split; [apply set_ad_false_is_word; assumption|]. apply with_rcode_ra_ad_is_word; assumption.
Qed.
