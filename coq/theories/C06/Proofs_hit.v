(* C06 — the cache's reply producers behind the edns writer (session 4).
   Model: Model.apply_reply / hit_ad / hit_wire (wire.ApplyReply, CacheEntry.serveWireInto /
   serveWireIntoRequest, composeWireChase) and Model.write_wire, which since this session takes the
   caller's WireInfo.AuthenticatedData as a parameter of its own — the writer never reads the AD
   bit off the body. *)
From Sdns Require Import Common.Base Gen.C06 C06.Model C06.WireOpt C06.Run C06.Proofs.
Open Scope N_scope.

Lemma set_ad_fields h v :
  h_id (set_ad h v) = h_id h /\ h_qr (set_ad h v) = h_qr h /\ h_opcode (set_ad h v) = h_opcode h
  /\ h_aa (set_ad h v) = h_aa h /\ h_rd (set_ad h v) = h_rd h /\ h_cd (set_ad h v) = h_cd h
  /\ h_ad (set_ad h v) = v /\ h_rcode (set_ad h v) = h_rcode h /\ h_ra (set_ad h v) = h_ra h
  /\ h_tc (set_ad h v) = h_tc h.
Proof. destruct h; cbn; repeat split. Qed.

(* WireInfo.AuthenticatedData mirrors the AD bit of the body the cache hands over *)
Lemma hit_wire_truthful hops q h iad : hit_wire hops q = Some (h, iad) -> iad = h_ad h.
Proof.
  destruct hops as [|st r]; [discriminate|]. cbn [hit_wire]. intros H. inversion H; subst.
  destruct (set_ad_fields (apply_reply st q) (hit_ad (st :: r) q)) as (_&_&_&_&_&_&->&_). reflexivity.
Qed.

(* the header is derived from the request: QR set, ID / opcode / RD / CD echoed, AA cleared;
   RA, TC and the rcode are the first stored header's *)
Lemma hit_wire_header hops st q h iad :
  hit_wire (st :: hops) q = Some (h, iad) ->
  h_qr h = true /\ h_id h = h_id q /\ h_opcode h = h_opcode q /\ h_rd h = h_rd q /\ h_cd h = h_cd q
  /\ h_aa h = false /\ h_ra h = h_ra st /\ h_tc h = h_tc st /\ h_rcode h = h_rcode st.
Proof.
  cbn [hit_wire]. intros H. inversion H; subst.
  destruct (set_ad_fields (apply_reply st q) (hit_ad (st :: hops) q)) as (->&->&->&->&->&->&_&->&->&->).
  cbn. repeat split.
Qed.

(* AD is asserted only for a chain stored validated at every hop, and never to a CD client *)
Lemma hit_wire_ad hops q h iad :
  hit_wire hops q = Some (h, iad) ->
  h_ad h = true -> h_cd q = false /\ forall st, In st hops -> h_ad st = true.
Proof.
  intros H Ha. pose proof (hit_wire_truthful _ _ _ _ H) as Ht. rewrite Ha in Ht.
  destruct hops as [|st r]; [discriminate|]. cbn [hit_wire] in H. injection H as _ Hi.
  rewrite Ht in Hi. unfold hit_ad in Hi. apply andb_true_iff in Hi. destruct Hi as [Hf Hc]. split.
  - now apply negb_true_iff in Hc.
  - intros x Hx. exact (proj1 (forallb_forall _ _) Hf x Hx).
Qed.

(* every producer: truthful WireInfo, header derived from the request *)
Lemma produce_truthful p q h iad : produce p q = Some (h, iad) -> iad = h_ad h.
Proof.
  destruct p as [hops| |]; cbn [produce].
  - apply hit_wire_truthful.
  - destruct (h_cd q); [discriminate|]. intros H. inversion H. reflexivity.
  - intros H. inversion H. reflexivity.
Qed.

Lemma produce_header p q h iad :
  produce p q = Some (h, iad) ->
  h_qr h = true /\ h_id h = h_id q /\ h_opcode h = h_opcode q /\ h_rd h = h_rd q /\ h_cd h = h_cd q /\ h_aa h = false.
Proof.
  destruct p as [hops| |]; cbn [produce].
  - destruct hops as [|st r]; [discriminate|]. intros H.
    destruct (hit_wire_header _ _ _ _ _ H) as (?&?&?&?&?&?&_). auto 6.
  - destruct (h_cd q) eqn:E; [discriminate|]. intros H. inversion H. cbn. rewrite E. auto 6.
  - intros H. inversion H. cbn. auto 6.
Qed.

(* the cut composer asserts AD, and is consulted only for clients that did not set CD *)
Lemma produce_cut_gate q h iad : produce PCut q = Some (h, iad) -> h_cd q = false /\ h_rcode h = rcode_nxdomain.
Proof. cbn [produce]. destruct (h_cd q); [discriminate|]. intros H. inversion H. split; reflexivity. Qed.

Lemma write_wire_hdr tr c w d iad hasd ede blen r :
  write_wire tr c w d iad hasd ede blen = Some r ->
  m_hdr r = if w_noad w && iad then set_ad (m_hdr d) false else m_hdr d.
Proof.
  unfold write_wire. destruct (negb (w_do w) && hasd); [discriminate|].
  destruct (w_noedns w).
  - destruct (is_udp tr && _); [discriminate|]. intros H. inversion H. destruct (w_noad w && iad); reflexivity.
  - destruct (is_udp tr && _); [discriminate|]. intros H. inversion H. destruct (w_noad w && iad); reflexivity.
Qed.

(* end to end on the byte path: whatever bits the entries were stored with, a reply the edns writer
   lets through as bytes has AD clear for a client that set CD or set neither DO nor AD *)
Lemma hit_ad_clear_l tr c q strict p d h iad hasd ede blen r :
  let w := mk_wstate tr strict q (set_edns0 c q) in
  client_ver q = 0 ->
  produce p (m_hdr q) = Some (h, iad) -> m_hdr d = h ->
  write_wire tr c w d iad hasd ede blen = Some r ->
  h_cd (m_hdr q) = true \/ (client_do q = false /\ h_ad (m_hdr q) = false) ->
  h_ad (m_hdr r) = false.
Proof.
  intros w Hv Hh Hd Hw Hc. rewrite (write_wire_hdr _ _ _ _ _ _ _ _ _ Hw).
  assert (Hno : w_noad w = true).
  { unfold w. rewrite wstate_noad by exact Hv. destruct Hc as [->|[-> ->]]; [reflexivity|]. apply orb_true_r. }
  rewrite Hno. cbn [andb]. pose proof (produce_truthful _ _ _ _ Hh) as Ht.
  destruct iad.
  - destruct (set_ad_fields (m_hdr d) false) as (_&_&_&_&_&_&->&_). reflexivity.
  - rewrite Hd. symmetry. exact Ht.
Qed.

(* the header echo survives the writer *)
Lemma hit_echo_l tr c q strict p d h iad hasd ede blen r :
  let w := mk_wstate tr strict q (set_edns0 c q) in
  produce p (m_hdr q) = Some (h, iad) -> m_hdr d = h ->
  write_wire tr c w d iad hasd ede blen = Some r ->
  h_qr (m_hdr r) = true /\ h_id (m_hdr r) = h_id (m_hdr q) /\ h_opcode (m_hdr r) = h_opcode (m_hdr q).
Proof.
  intros w Hh Hd Hw. rewrite (write_wire_hdr _ _ _ _ _ _ _ _ _ Hw).
  destruct (produce_header _ _ _ _ Hh) as (Hq & Hi & Ho & _). rewrite Hd.
  destruct (w_noad w && iad).
  - destruct (set_ad_fields h false) as (->&->&->&_). auto.
  - auto.
Qed.

(* the writer alone does NOT enforce the AD clause on the byte path: it clears the bit only when the
   WireInfo says it is set.  A body with AD = 1 handed over with AuthenticatedData = false reaches a
   CD = 1 client with AD = 1 (what seeded change C06-11 makes composeWireChase do). *)
Definition hn_q : msg :=
  mk_msg (mk_hdr 7 false 0 false false true false false false true 0) [mk_quest 1 1 1 5] [] [] [].
Definition hn_d : msg :=
  mk_msg (mk_hdr 7 true 0 false false true true false true true 0) [mk_quest 1 1 1 5] [] [] [].
Lemma wire_info_truth_necessary_l :
  let c := mk_cfg None 0 None in
  let w := mk_wstate UDP true hn_q (set_edns0 c hn_q) in
  h_cd (m_hdr hn_q) = true /\
  exists r, write_wire UDP c w hn_d false false None 17 = Some r /\ h_ad (m_hdr r) = true.
Proof. cbn. split; [reflexivity|]. eexists. split; reflexivity. Qed.

(* non-vacuity: a validated alias (stored AD = 1) into an unvalidated target (AD = 0), asked by a
   client that set AD: the composed header has AD = 0 and the WireInfo says so *)
Definition ex_alias : hdr := mk_hdr 0 true 0 true false true true false true false 0.
Definition ex_target : hdr := mk_hdr 0 true 0 false false true true false false false 0.
Definition ex_client : hdr := mk_hdr 4242 false 0 false false true false false true false 0.
Example ex_produce_cut_failure :
  produce PCut ex_client = Some (mk_hdr 4242 true 0 false false true true false true false 3, true)
  /\ produce PFailure ex_client = Some (mk_hdr 4242 true 0 false false true true false false false 2, false).
Proof. split; reflexivity. Qed.
Example ex_hit_chase :
  hit_wire [ex_alias; ex_target] ex_client
  = Some (mk_hdr 4242 true 0 false false true true false false false 0, false)
  /\ hit_wire [ex_alias] ex_client = Some (mk_hdr 4242 true 0 false false true true false true false 0, true).
Proof. split; reflexivity. Qed.

(* ================================================================== *)
(* Session 5 — the Msg-path producers of the cache (Model.produce_msg) and the question section of
   every product: what the edns layer's theorems ask of "downstream" (dn_echo) is PROVED for the
   cache, so the clauses hold end to end with the cache as the downstream, no premise left. *)

Lemma set_hrcode_fields h rc :
  h_id (set_hrcode h rc) = h_id h /\ h_qr (set_hrcode h rc) = h_qr h /\ h_opcode (set_hrcode h rc) = h_opcode h
  /\ h_aa (set_hrcode h rc) = h_aa h /\ h_rd (set_hrcode h rc) = h_rd h /\ h_cd (set_hrcode h rc) = h_cd h
  /\ h_ad (set_hrcode h rc) = h_ad h /\ h_ra (set_hrcode h rc) = h_ra h /\ h_tc (set_hrcode h rc) = h_tc h.
Proof. destruct h; cbn; repeat split. Qed.

(* the fields the alias chase never touches *)
Definition same_but_ad_rcode (a b : hdr) : Prop :=
  h_id a = h_id b /\ h_qr a = h_qr b /\ h_opcode a = h_opcode b /\ h_aa a = h_aa b /\ h_tc a = h_tc b
  /\ h_rd a = h_rd b /\ h_ra a = h_ra b /\ h_z a = h_z b /\ h_cd a = h_cd b.
Lemma same_refl a : same_but_ad_rcode a a.
Proof. unfold same_but_ad_rcode. repeat split. Qed.
Lemma same_trans a b c : same_but_ad_rcode a b -> same_but_ad_rcode b c -> same_but_ad_rcode a c.
Proof. unfold same_but_ad_rcode. intuition congruence. Qed.
Lemma same_set_ad h v : same_but_ad_rcode (set_ad h v) h.
Proof. destruct h; unfold same_but_ad_rcode; cbn; repeat split. Qed.
Lemma same_set_hrcode h v : same_but_ad_rcode (set_hrcode h v) h.
Proof. destruct h; unfold same_but_ad_rcode; cbn; repeat split. Qed.

Lemma msg_chase_same subs : forall h, same_but_ad_rcode (msg_chase h subs) h.
Proof.
  induction subs as [|s r IH]; intros h; cbn [msg_chase]; [apply same_refl|].
  set (h1 := if s_recs s && h_ad h && negb (s_ad s) then set_ad h false else h).
  assert (H1 : same_but_ad_rcode h1 h) by (unfold h1; destruct (_ && _ && _); [apply same_set_ad|apply same_refl]).
  destruct (s_rcode s =? rcode_nxdomain).
  - eapply same_trans; [apply same_set_hrcode|exact H1].
  - eapply same_trans; [apply IH|exact H1].
Qed.

(* the sub-responses the chase consumes: up to and including the first NXDOMAIN *)
Fixpoint chase_taken (subs : list sub) : list sub :=
  match subs with
  | [] => []
  | s :: r => if s_rcode s =? rcode_nxdomain then [s] else s :: chase_taken r
  end.

(* AD survives the chase only if the entry's message had it and every consumed sub-response that
   brought records had it too *)
Lemma msg_chase_ad subs : forall h,
  h_ad (msg_chase h subs) = true ->
  h_ad h = true /\ forall s, In s (chase_taken subs) -> s_recs s = true -> s_ad s = true.
Proof.
  induction subs as [|s r IH]; intros h; cbn [msg_chase chase_taken]; [intros H; split; [exact H|intros ? []]|].
  set (h1 := if s_recs s && h_ad h && negb (s_ad s) then set_ad h false else h).
  assert (H1 : h_ad h1 = true -> h_ad h = true /\ (s_recs s = true -> s_ad s = true)).
  { unfold h1. destruct (s_recs s) eqn:Er, (h_ad h) eqn:Ea, (s_ad s) eqn:Es; cbn [andb negb]; intros H.
    all: try discriminate.
    all: try (destruct (set_ad_fields h false) as (_&_&_&_&_&_&E&_); rewrite E in H; discriminate).
    all: try (rewrite Ea in H; discriminate).
    all: split; [reflexivity|intros; reflexivity || discriminate]. }
  destruct (s_rcode s =? rcode_nxdomain).
  - intros H. destruct (set_hrcode_fields h1 rcode_nxdomain) as (_&_&_&_&_&_&E&_). rewrite E in H.
    destruct (H1 H) as [Ha Hs]. split; [exact Ha|]. intros x [<-|[]]. exact Hs.
  - intros H. destruct (IH h1 H) as [Ha Hr]. destruct (H1 Ha) as [Hh Hs]. split; [exact Hh|].
    intros x [<-|Hx]; [exact Hs|apply Hr; exact Hx].
Qed.

(* every Msg-path route: the header comes from the request — QR set, ID and opcode echoed, AA clear;
   for the opcode-0 requests the edns layer lets through, CD is echoed and, unless the query is
   refused for RD = 0, so is RD *)
Lemma produce_msg_header p q h :
  produce_msg p q = Some h ->
  h_qr h = true /\ h_id h = h_id q /\ h_opcode h = h_opcode q /\ h_aa h = false
  /\ (h_opcode q = 0 -> h_cd h = h_cd q)
  /\ (h_opcode q = 0 -> p <> MNoRec -> h_rd h = h_rd q).
Proof.
  destruct p as [st subs|stc| |]; cbn [produce_msg].
  - intros H. inversion H; subst. destruct (msg_chase_same subs (to_msg_hdr st q)) as (->&->&->&->&_&->&_&_&->).
    cbn. repeat split; intros E; rewrite E; cbn; auto.
  - destruct (h_cd q) eqn:Ec; [discriminate|]. intros H. inversion H; subst. cbn. repeat split; intros E; try rewrite E; cbn; auto.
  - intros H. inversion H; subst. cbn. repeat split; intros E; rewrite E; cbn; auto.
  - destruct (h_rd q); [discriminate|]. intros H. inversion H; subst. cbn. repeat split; intros E; try rewrite E; cbn; auto.
    all: try (intros C; exfalso; apply C; reflexivity).
Qed.

(* AD on the Msg path: never for a CD client; for an entry-based answer only if the entry was
   stored validated and every consumed sub-response that brought records was validated *)
Lemma produce_msg_ad st subs q h :
  produce_msg (MEntry st subs) q = Some h -> h_ad h = true ->
  h_cd q = false /\ h_ad st = true /\ forall s, In s (chase_taken subs) -> s_recs s = true -> s_ad s = true.
Proof.
  cbn [produce_msg]. intros H Ha. inversion H; subst. destruct (msg_chase_ad _ _ Ha) as [H0 Hs].
  unfold to_msg_hdr in H0. cbn in H0. destruct (h_cd q); [discriminate|]. auto.
Qed.
Lemma produce_msg_ad_cd p q h : produce_msg p q = Some h -> h_cd q = true -> h_ad h = false.
Proof.
  destruct p as [st subs|stc| |]; cbn [produce_msg]; intros H Hc.
  - inversion H; subst. destruct (h_ad (msg_chase (to_msg_hdr st q) subs)) eqn:E; [|reflexivity].
    destruct (msg_chase_ad _ _ E) as [H0 _]. unfold to_msg_hdr in H0. cbn in H0. rewrite Hc in H0. discriminate.
  - rewrite Hc in H. discriminate.
  - inversion H. reflexivity.
  - destruct (h_rd q); [discriminate|]. inversion H. reflexivity.
Qed.

(* "the same rules on bytes", cache side: for the opcode-0 requests that reach the cache, the byte
   path and the Msg path hand the writer chain the same header —
   an entry / an alias chain completed from cached hops, the RFC 8020 cut (the stored proof message
   carries neither TC nor Z: the byte template has no flags at all), the RFC 9520 failure *)
Lemma to_msg_is_hit_wire st q :
  h_opcode q = 0 -> hit_wire [st] q = Some (to_msg_hdr st q, h_ad (to_msg_hdr st q)).
Proof.
  intros E. destruct st as [i qr op aa tc rd ra z ad cdh rc], q as [qi qqr qop qaa qtc qrd qra qz qad qcd qrc].
  cbn in E. subst qop. unfold hit_wire, hit_ad, to_msg_hdr, set_reply_on, apply_reply, set_ad. cbn.
  destruct ad, qcd; reflexivity.
Qed.

Lemma set_ad_same h : set_ad h (h_ad h) = h.
Proof. destruct h; reflexivity. Qed.
Lemma set_ad_set_ad h a b : set_ad (set_ad h a) b = set_ad h b.
Proof. destruct h; reflexivity. Qed.

(* the sub-pipeline answering every hop from the cache: the chase leaves everything but AD alone, and
   AD is the conjunction over the hops *)
Lemma msg_chase_hops cd : forall hops h,
  Forall (fun x => h_rcode x <> rcode_nxdomain) hops ->
  msg_chase h (map (sub_of_hop cd) hops) = set_ad h (h_ad h && forallb (fun x => h_ad x && negb cd) hops).
Proof.
  induction hops as [|x r IH]; intros h Hf.
  - cbn. rewrite andb_true_r, set_ad_same. reflexivity.
  - inversion Hf as [|? ? Hx Hr]; subst. cbn [map msg_chase sub_of_hop s_recs s_ad s_rcode forallb].
    destruct (h_rcode x =? rcode_nxdomain) eqn:En; [apply N.eqb_eq in En; contradiction|].
    rewrite IH by exact Hr. cbn [andb].
    destruct (h_ad h) eqn:Ea, (h_ad x && negb cd) eqn:Ex; cbn [andb negb].
    + rewrite Ea. reflexivity.
    + rewrite set_ad_set_ad. destruct (set_ad_fields h false) as (_&_&_&_&_&_&->&_). reflexivity.
    + rewrite Ea. reflexivity.
    + rewrite Ea. reflexivity.
Qed.

Lemma forallb_and_true {A} (f : A -> bool) l : forallb (fun x => f x && true) l = forallb f l.
Proof. induction l as [|x r IH]; cbn; [reflexivity|]. rewrite IH, andb_true_r. reflexivity. Qed.

Lemma chase_paths_agree alias hops q :
  h_opcode q = 0 -> Forall (fun x => h_rcode x <> rcode_nxdomain) hops ->
  option_map fst (hit_wire (alias :: hops) q) = produce_msg (MEntry alias (map (sub_of_hop (h_cd q)) hops)) q.
Proof.
  intros E Hf. cbn [hit_wire produce_msg option_map fst]. f_equal. rewrite msg_chase_hops by exact Hf.
  destruct alias as [i qr op aa tc rd ra z ad cdh rc], q as [qi qqr qop qaa qtc qrd qra qz qad qcd qrc]. cbn in E. subst qop.
  unfold hit_ad, to_msg_hdr, set_reply_on, apply_reply, set_ad. cbn. f_equal.
  destruct qcd; cbn.
  - rewrite andb_false_r. reflexivity.
  - rewrite andb_true_r, forallb_and_true. reflexivity.
Qed.

Lemma cut_paths_agree stc q :
  h_opcode q = 0 -> h_tc stc = false -> h_z stc = false ->
  option_map fst (produce PCut q) = produce_msg (MCut stc) q.
Proof.
  intros E Ht Hz. cbn [produce produce_msg]. destruct (h_cd q) eqn:Ec; [reflexivity|]. cbn. f_equal.
  destruct q; cbn in *. subst. cbn. rewrite Ht, Hz. reflexivity.
Qed.

Lemma failure_paths_agree q : h_opcode q = 0 -> option_map fst (produce PFailure q) = produce_msg MFailure q.
Proof. intros E. cbn. f_equal. destruct q; cbn in *. subst. reflexivity. Qed.

(* ---- dn_echo discharged for the cache ---- *)
Lemma firstn1_single {A} (l : list A) : length l = 1%nat -> firstn 1 l = l.
Proof. destruct l as [|x [|y r]]; cbn; intros H; try discriminate; reflexivity. Qed.

Lemma cache_msg_product_dn_echo p q d h :
  length (m_q q) = 1%nat -> produce_msg p (m_hdr q) = Some h -> m_hdr d = h -> m_q d = product_q q -> dn_echo q d.
Proof.
  intros Hl Hp Hd Hq. destruct (produce_msg_header _ _ _ Hp) as (H1 & H2 & H3 & _). unfold dn_echo. rewrite Hd, Hq.
  unfold product_q. rewrite firstn1_single by exact Hl. auto.
Qed.
Lemma cache_wire_product_dn_echo p q d h iad :
  length (m_q q) = 1%nat -> produce p (m_hdr q) = Some (h, iad) -> m_hdr d = h -> m_q d = product_q q -> dn_echo q d.
Proof.
  intros Hl Hp Hd Hq. destruct (produce_header _ _ _ _ Hp) as (H1 & H2 & H3 & _). unfold dn_echo. rewrite Hd, Hq.
  unfold product_q. rewrite firstn1_single by exact Hl. auto.
Qed.

(* end to end, Msg path: the real routes of the cache behind the whole message entry
   (Server.serveMsgBy -> edns -> cache product -> ResponseWriter.WriteMsg -> transport), every clause
   of the statement that the edns theorems state under dn_echo, now without it *)
Lemma cache_reply_respects_client_l tr c q strict p d h clen r :
  length (m_q q) = 1%nat ->
  produce_msg p (m_hdr q) = Some h -> m_hdr d = h -> m_q d = product_q q ->
  serve_msg tr c q strict (Some d) clen = Some r ->
  hdr_echo tr q r = true
  /\ (is_bare_reject r = true \/ quest_echo q r = true)
  /\ (has_opt r = true -> client_opt q <> None)
  /\ (client_do q = false -> asked_rrsig q = false -> no_dnssec r = true)
  /\ (h_cd (m_hdr q) = true \/ (client_do q = false /\ h_ad (m_hdr q) = false) ->
      is_bare_reject r = true \/ h_ad (m_hdr r) = false).
Proof.
  intros Hl Hp Hd Hq Hs.
  assert (He : forall d0, Some d = Some d0 -> dn_echo q d0).
  { intros d0 E. inversion E; subst d0. eapply cache_msg_product_dn_echo; eauto. }
  split; [eapply qr_id_opcode_echo_msg_l; eauto|].
  split; [eapply question_echo_l; eauto|].
  split; [eapply no_opt_unless_asked_l; eauto|].
  split; [intros; eapply no_dnssec_l; eauto|].
  intros; eapply ad_clear_l; eauto.
Qed.

(* byte path: the question the cache put into the body is the one that leaves *)
Lemma write_wire_q tr c w d iad hasd ede blen r :
  write_wire tr c w d iad hasd ede blen = Some r -> m_q r = m_q d.
Proof.
  unfold write_wire. destruct (negb (w_do w) && hasd); [discriminate|].
  destruct (w_noedns w); destruct (is_udp tr && _); try discriminate; intros H; inversion H;
    destruct (w_noad w && iad); reflexivity.
Qed.
Lemma hit_quest_echo_l tr c w q d iad hasd ede blen r :
  m_q d = product_q q -> write_wire tr c w d iad hasd ede blen = Some r -> quest_echo q r = true.
Proof.
  intros Hq Hw. unfold quest_echo. rewrite (write_wire_q _ _ _ _ _ _ _ _ _ Hw), Hq. apply list_eqb_refl, quest_eqb_refl.
Qed.

(* non-vacuity: the validated alias of ex_hit_chase completed on the Msg path — an unvalidated
   target clears AD, an NXDOMAIN target becomes the rcode; and the two paths agree *)
Example ex_msg_chase :
  produce_msg (MEntry ex_alias [sub_of_hop false ex_target]) ex_client
  = Some (mk_hdr 4242 true 0 false false true true false false false 0)
  /\ produce_msg (MEntry ex_alias [mk_sub true 3 true]) ex_client
     = Some (mk_hdr 4242 true 0 false false true true false true false 3)
  /\ produce_msg (MEntry ex_alias []) ex_client = option_map fst (hit_wire [ex_alias] ex_client)
  /\ produce_msg MNoRec (mk_hdr 9 false 0 false false false false false false true 0)
     = Some (mk_hdr 9 true 0 false false true true false false true 2).
Proof. repeat split; reflexivity. Qed.

(* ---- the byte path, end to end (session 5) ---- *)
Lemma write_wire_shape tr c w d iad hasd ede blen r :
  write_wire tr c w d iad hasd ede blen = Some r ->
  (negb (w_do w) && hasd = false)
  /\ m_an r = m_an d /\ m_ns r = m_ns d
  /\ ((w_noedns w = true /\ m_ex r = m_ex d /\ (is_udp tr = true -> blen <= w_size w))
      \/ (w_noedns w = false /\ m_ex r = m_ex d ++ [XO (wire_opt c w ede)]
          /\ (is_udp tr = true -> blen + opt_len (wire_opt c w ede) <= w_size w))).
Proof.
  unfold write_wire. destruct (negb (w_do w) && hasd); [discriminate|]. intros H0. split; [reflexivity|]. revert H0.
  destruct (w_noedns w).
  - destruct (is_udp tr) eqn:Eu; cbn [andb].
    + destruct (w_size w <? blen) eqn:Es; [discriminate|]. apply N.ltb_ge in Es. intros HH. inversion HH.
      destruct (w_noad w && iad); cbn; repeat split; left; repeat split; auto.
    + intros HH. inversion HH. destruct (w_noad w && iad); cbn; repeat split; left; repeat split; auto; discriminate.
  - destruct (is_udp tr) eqn:Eu; cbn [andb].
    + destruct (w_size w <? blen + opt_len (wire_opt c w ede)) eqn:Es; [discriminate|]. apply N.ltb_ge in Es. intros HH. inversion HH.
      destruct (w_noad w && iad); cbn; repeat split; right; repeat split; auto.
    + intros HH. inversion HH. destruct (w_noad w && iad); cbn; repeat split; right; repeat split; auto; discriminate.
Qed.

Lemma wire_opt_option_ok tr c q strict ede e :
  let w := mk_wstate tr strict q (set_edns0 c q) in
  cfg_wf c -> client_ver q = 0 -> w_noedns w = false ->
  (forall x, ede = Some x -> e_code x = code_ede) ->
  In e (o_opts (wire_opt c w ede)) ->
  own_option_ok tr c (client_opt q) e = true /\ e_code e <> code_ecs.
Proof.
  intros w Hw Hv Hn He Hi. unfold w in *. rewrite wstate_noedns in Hn by exact Hv.
  destruct (client_opt q) as [o|] eqn:E; [|discriminate].
  assert (Hvo : o_ver o = 0) by (unfold client_ver in Hv; rewrite E in Hv; exact Hv).
  rewrite (set_edns0_opt c q o E Hvo) in Hi. cbn [wire_opt o_opts] in Hi.
  apply in_app_or in Hi. destruct Hi as [Hi|Hi].
  - apply in_own_opts in Hi. cbn in Hi. destruct Hi as [[H1 ->]|[H1 H2]].
    + split; [apply own_cookie_ok; exact H1|discriminate].
    + split; [eapply own_nsid_ok; eauto|]. destruct Hw as [_ Hn']. rewrite (Hn' e H2). discriminate.
  - apply in_app_or in Hi. destruct Hi as [Hi|Hi].
    + cbn in Hi. destruct (has_code code_keepalive (o_opts o) && is_tcp tr) eqn:Ek; [|destruct Hi].
      destruct Hi as [<-|[]]. apply andb_true_iff in Ek. destruct Ek as [K1 K2].
      split; [apply own_ka_ok; auto|discriminate].
    + destruct ede as [x|]; [|destruct Hi]. destruct Hi as [<-|[]]. pose proof (He x eq_refl) as Hc.
      split; [apply own_ede_ok; exact Hc|rewrite Hc; discriminate].
Qed.

(* END TO END, byte path: a product of the cache's byte-path producers that ResponseWriter.WriteWire
   accepts reaches the client with every clause of the statement *)
Lemma cache_wire_reply_respects_client_l tr c q strict p d h iad hasd ede blen r :
  let w := mk_wstate tr strict q (set_edns0 c q) in
  cfg_wf c -> client_ver q = 0 ->
  produce p (m_hdr q) = Some (h, iad) -> m_hdr d = h -> m_q d = product_q q ->
  filter is_opt (m_ex d) = [] ->
  (hasd = false -> asked_rrsig q = true \/ no_dnssec d = true) ->
  (forall x, ede = Some x -> e_code x = code_ede) ->
  write_wire tr c w d iad hasd ede blen = Some r ->
  (h_qr (m_hdr r) = true /\ h_id (m_hdr r) = h_id (m_hdr q) /\ h_opcode (m_hdr r) = h_opcode (m_hdr q))
  /\ quest_echo q r = true
  /\ (has_opt r = true -> client_opt q <> None)
  /\ (client_do q = false -> asked_rrsig q = false -> no_dnssec r = true)
  /\ (h_cd (m_hdr q) = true \/ (client_do q = false /\ h_ad (m_hdr q) = false) -> h_ad (m_hdr r) = false)
  /\ options_own tr c (client_opt q) r = true /\ no_ecs_ka tr c (client_opt q) r = true
  /\ (tr = UDP -> blen + (if w_noedns w then 0 else opt_len (wire_opt c w ede)) <= udp_limit (client_opt q)).
Proof.
  intros w Hw Hv Hp Hd Hq Hno Hds He Hww.
  destruct (write_wire_shape _ _ _ _ _ _ _ _ _ Hww) as (Hg & Han & Hns & Hex).
  split; [eapply hit_echo_l; eauto|].
  split; [eapply hit_quest_echo_l; eauto|].
  assert (Hopts : forall e, In e (all_opts r) -> w_noedns w = false /\ In e (o_opts (wire_opt c w ede))).
  { intros e Hi. rewrite all_opts_ex in Hi. destruct Hex as [(Hn & Hx & _)|(Hn & Hx & _)]; rewrite Hx in Hi.
    - rewrite (no_opt_ex_opts _ Hno) in Hi. destruct Hi.
    - rewrite ex_opts_app, (no_opt_ex_opts _ Hno) in Hi. cbn in Hi. rewrite app_nil_r in Hi. auto. }
  split.
  { intros Ho E. unfold has_opt in Ho. destruct Hex as [(Hn & Hx & _)|(Hn & Hx & _)].
    - rewrite Hx, (existsb_filter_nil _ _ Hno) in Ho. discriminate.
    - unfold w in Hn. rewrite wstate_noedns, E in Hn by exact Hv. discriminate. }
  split.
  { intros Hdo Hr. unfold no_dnssec. rewrite Han, Hns.
    unfold w in Hg. rewrite wstate_do, Hdo in Hg by exact Hv. cbn in Hg.
    destruct (Hds Hg) as [C|C]; [rewrite Hr in C; discriminate|exact C]. }
  split; [intros Hc; eapply hit_ad_clear_l; eauto|].
  split; [|split].
  - unfold options_own. apply forallb_forall. intros e Hi. destruct (Hopts e Hi) as [Hn Ho].
    exact (proj1 (wire_opt_option_ok tr c q strict ede e Hw Hv Hn He Ho)).
  - unfold no_ecs_ka. apply forallb_forall. intros e Hi. destruct (Hopts e Hi) as [Hn Ho].
    destruct (wire_opt_option_ok tr c q strict ede e Hw Hv Hn He Ho) as [H1 H2].
    apply N.eqb_neq in H2. rewrite H2, H1. cbn. apply orb_true_r.
  - intros ->. unfold w in *. rewrite <- (wstate_size c q strict Hv).
    destruct Hex as [(Hn & _ & Hs)|(Hn & _ & Hs)]; rewrite Hn; [rewrite N.add_0_r|]; apply Hs; reflexivity.
Qed.

(* statements of Properties.v proved here (Properties.v holds only `exact`) *)
Lemma cache_entry_hit_keeps_stored_l :
  forall hops st q h iad,
    hit_wire (st :: hops) q = Some (h, iad) ->
    h_ra h = h_ra st /\ h_tc h = h_tc st /\ h_rcode h = h_rcode st.
Proof.
intros hops st q h iad H. destruct (hit_wire_header _ _ _ _ _ H) as (_&_&_&_&_&_&?&?&?). auto. Qed.

Lemma cache_paths_same_header_l :
  forall q, h_opcode q = 0 ->
    (forall st, hit_wire [st] q = Some (to_msg_hdr st q, h_ad (to_msg_hdr st q)))
    /\ (forall alias hops, Forall (fun x => h_rcode x <> rcode_nxdomain) hops ->
          option_map fst (hit_wire (alias :: hops) q) = produce_msg (MEntry alias (map (sub_of_hop (h_cd q)) hops)) q)
    /\ (forall stc, h_tc stc = false -> h_z stc = false -> option_map fst (produce PCut q) = produce_msg (MCut stc) q)
    /\ option_map fst (produce PFailure q) = produce_msg MFailure q.
Proof.
intros q E. split; [intros; apply to_msg_is_hit_wire; exact E|].
  split; [intros; apply chase_paths_agree; assumption|].
  split; [intros; apply cut_paths_agree; assumption|apply failure_paths_agree; exact E].
Qed.

Lemma cache_products_are_replies_l :
  forall q d, length (m_q q) = 1%nat -> m_q d = product_q q ->
    (forall p h, produce_msg p (m_hdr q) = Some h -> m_hdr d = h -> dn_echo q d)
    /\ (forall p h iad, produce p (m_hdr q) = Some (h, iad) -> m_hdr d = h -> dn_echo q d).
Proof.
intros q d Hl Hq. split; intros.
  - eapply cache_msg_product_dn_echo; eauto.
  - eapply cache_wire_product_dn_echo; eauto.
Qed.
