(* C06 — the cache's reply producers behind the edns writer (session 4).
   Model: Model.apply_reply / hit_ad / hit_wire (wire.ApplyReply, CacheEntry.serveWireInto /
   serveWireIntoRequest, composeWireChase) and Model.write_wire, which since this session takes the
   caller's WireInfo.AuthenticatedData as a parameter of its own — the writer never reads the AD
   bit off the body. *)
From Sdns Require Import Common.Base Gen.C06 C06.Model C06.WireOpt C06.Run C06.Proofs.
Open Scope N_scope.

Lemma set_ad_fields h v :
  h_id (set_ad h v) = h_id h /\ h_qr (set_ad h v) = h_qr h /\ h_opcode (set_ad h v) = h_opcode h
  /\ h_aa (set_ad h v) = h_aa h /\ h_rd (set_ad h v) = h_rd h /\ h_cd (set_ad h v) = h_cd h
  /\ h_ad (set_ad h v) = v /\ h_rcode (set_ad h v) = h_rcode h /\ h_ra (set_ad h v) = h_ra h
  /\ h_tc (set_ad h v) = h_tc h.
Proof. destruct h; cbn; repeat split. Qed.

(* WireInfo.AuthenticatedData mirrors the AD bit of the body the cache hands over *)
Lemma hit_wire_truthful hops q h iad : hit_wire hops q = Some (h, iad) -> iad = h_ad h.
Proof.
  destruct hops as [|st r]; [discriminate|]. cbn [hit_wire]. intros H. inversion H; subst.
  destruct (set_ad_fields (apply_reply st q) (hit_ad (st :: r) q)) as (_&_&_&_&_&_&->&_). reflexivity.
Qed.

(* the header is derived from the request: QR set, ID / opcode / RD / CD echoed, AA cleared;
   RA, TC and the rcode are the first stored header's *)
Lemma hit_wire_header hops st q h iad :
  hit_wire (st :: hops) q = Some (h, iad) ->
  h_qr h = true /\ h_id h = h_id q /\ h_opcode h = h_opcode q /\ h_rd h = h_rd q /\ h_cd h = h_cd q
  /\ h_aa h = false /\ h_ra h = h_ra st /\ h_tc h = h_tc st /\ h_rcode h = h_rcode st.
Proof.
  cbn [hit_wire]. intros H. inversion H; subst.
  destruct (set_ad_fields (apply_reply st q) (hit_ad (st :: hops) q)) as (->&->&->&->&->&->&_&->&->&->).
  cbn. repeat split.
Qed.

(* AD is asserted only for a chain stored validated at every hop, and never to a CD client *)
Lemma hit_wire_ad hops q h iad :
  hit_wire hops q = Some (h, iad) ->
  h_ad h = true -> h_cd q = false /\ forall st, In st hops -> h_ad st = true.
Proof.
  intros H Ha. pose proof (hit_wire_truthful _ _ _ _ H) as Ht. rewrite Ha in Ht.
  destruct hops as [|st r]; [discriminate|]. cbn [hit_wire] in H. injection H as _ Hi.
  rewrite Ht in Hi. unfold hit_ad in Hi. apply andb_true_iff in Hi. destruct Hi as [Hf Hc]. split.
  - now apply negb_true_iff in Hc.
  - intros x Hx. exact (proj1 (forallb_forall _ _) Hf x Hx).
Qed.

(* every producer: truthful WireInfo, header derived from the request *)
Lemma produce_truthful p q h iad : produce p q = Some (h, iad) -> iad = h_ad h.
Proof.
  destruct p as [hops| |]; cbn [produce].
  - apply hit_wire_truthful.
  - destruct (h_cd q); [discriminate|]. intros H. inversion H. reflexivity.
  - intros H. inversion H. reflexivity.
Qed.

Lemma produce_header p q h iad :
  produce p q = Some (h, iad) ->
  h_qr h = true /\ h_id h = h_id q /\ h_opcode h = h_opcode q /\ h_rd h = h_rd q /\ h_cd h = h_cd q /\ h_aa h = false.
Proof.
  destruct p as [hops| |]; cbn [produce].
  - destruct hops as [|st r]; [discriminate|]. intros H.
    destruct (hit_wire_header _ _ _ _ _ H) as (?&?&?&?&?&?&_). auto 6.
  - destruct (h_cd q) eqn:E; [discriminate|]. intros H. inversion H. cbn. rewrite E. auto 6.
  - intros H. inversion H. cbn. auto 6.
Qed.

(* the cut composer asserts AD, and is consulted only for clients that did not set CD *)
Lemma produce_cut_gate q h iad : produce PCut q = Some (h, iad) -> h_cd q = false /\ h_rcode h = rcode_nxdomain.
Proof. cbn [produce]. destruct (h_cd q); [discriminate|]. intros H. inversion H. split; reflexivity. Qed.

Lemma write_wire_hdr tr c w d iad hasd ede blen r :
  write_wire tr c w d iad hasd ede blen = Some r ->
  m_hdr r = if w_noad w && iad then set_ad (m_hdr d) false else m_hdr d.
Proof.
  unfold write_wire. destruct (negb (w_do w) && hasd); [discriminate|].
  destruct (w_noedns w).
  - destruct (is_udp tr && _); [discriminate|]. intros H. inversion H. destruct (w_noad w && iad); reflexivity.
  - destruct (is_udp tr && _); [discriminate|]. intros H. inversion H. destruct (w_noad w && iad); reflexivity.
Qed.

(* end to end on the byte path: whatever bits the entries were stored with, a reply the edns writer
   lets through as bytes has AD clear for a client that set CD or set neither DO nor AD *)
Lemma hit_ad_clear_l tr c q strict p d h iad hasd ede blen r :
  let w := mk_wstate tr strict q (set_edns0 c q) in
  client_ver q = 0 ->
  produce p (m_hdr q) = Some (h, iad) -> m_hdr d = h ->
  write_wire tr c w d iad hasd ede blen = Some r ->
  h_cd (m_hdr q) = true \/ (client_do q = false /\ h_ad (m_hdr q) = false) ->
  h_ad (m_hdr r) = false.
Proof.
  intros w Hv Hh Hd Hw Hc. rewrite (write_wire_hdr _ _ _ _ _ _ _ _ _ Hw).
  assert (Hno : w_noad w = true).
  { unfold w. rewrite wstate_noad by exact Hv. destruct Hc as [->|[-> ->]]; [reflexivity|]. apply orb_true_r. }
  rewrite Hno. cbn [andb]. pose proof (produce_truthful _ _ _ _ Hh) as Ht.
  destruct iad.
  - destruct (set_ad_fields (m_hdr d) false) as (_&_&_&_&_&_&->&_). reflexivity.
  - rewrite Hd. symmetry. exact Ht.
Qed.

(* the header echo survives the writer *)
Lemma hit_echo_l tr c q strict p d h iad hasd ede blen r :
  let w := mk_wstate tr strict q (set_edns0 c q) in
  produce p (m_hdr q) = Some (h, iad) -> m_hdr d = h ->
  write_wire tr c w d iad hasd ede blen = Some r ->
  h_qr (m_hdr r) = true /\ h_id (m_hdr r) = h_id (m_hdr q) /\ h_opcode (m_hdr r) = h_opcode (m_hdr q).
Proof.
  intros w Hh Hd Hw. rewrite (write_wire_hdr _ _ _ _ _ _ _ _ _ Hw).
  destruct (produce_header _ _ _ _ Hh) as (Hq & Hi & Ho & _). rewrite Hd.
  destruct (w_noad w && iad).
  - destruct (set_ad_fields h false) as (->&->&->&_). auto.
  - auto.
Qed.

(* the writer alone does NOT enforce the AD clause on the byte path: it clears the bit only when the
   WireInfo says it is set.  A body with AD = 1 handed over with AuthenticatedData = false reaches a
   CD = 1 client with AD = 1 (what seeded change C06-11 makes composeWireChase do). *)
Definition hn_q : msg :=
  mk_msg (mk_hdr 7 false 0 false false true false false false true 0) [mk_quest 1 1 1 5] [] [] [].
Definition hn_d : msg :=
  mk_msg (mk_hdr 7 true 0 false false true true false true true 0) [mk_quest 1 1 1 5] [] [] [].
Lemma wire_info_truth_necessary_l :
  let c := mk_cfg None 0 None in
  let w := mk_wstate UDP true hn_q (set_edns0 c hn_q) in
  h_cd (m_hdr hn_q) = true /\
  exists r, write_wire UDP c w hn_d false false None 17 = Some r /\ h_ad (m_hdr r) = true.
Proof. cbn. split; [reflexivity|]. eexists. split; reflexivity. Qed.

(* non-vacuity: a validated alias (stored AD = 1) into an unvalidated target (AD = 0), asked by a
   client that set AD: the composed header has AD = 0 and the WireInfo says so *)
Definition ex_alias : hdr := mk_hdr 0 true 0 true false true true false true false 0.
Definition ex_target : hdr := mk_hdr 0 true 0 false false true true false false false 0.
Definition ex_client : hdr := mk_hdr 4242 false 0 false false true false false true false 0.
Example ex_produce_cut_failure :
  produce PCut ex_client = Some (mk_hdr 4242 true 0 false false true true false true false 3, true)
  /\ produce PFailure ex_client = Some (mk_hdr 4242 true 0 false false true true false false false 2, false).
Proof. split; reflexivity. Qed.
Example ex_hit_chase :
  hit_wire [ex_alias; ex_target] ex_client
  = Some (mk_hdr 4242 true 0 false false true true false false false 0, false)
  /\ hit_wire [ex_alias] ex_client = Some (mk_hdr 4242 true 0 false false true true false true false 0, true).
Proof. split; reflexivity. Qed.
