(* C06 — the OPT record as octets.

   Definitions only (proofs: Proofs_wire.v).

   [enc_opt] is the wire form of an abstract OPT (Model.opt): what the library's packer emits for
   it and what the byte path of the edns writer must emit.  [append_wire_opt] is
   middleware/edns/wire.go appendWireOPT, composed statement by statement from the TRANSLATED
   internal/wire builders (Gen.C06: go_AppendOPTHeader, go_AppendOption, go_AppendOptionString,
   go_AppendOptionEDE, go_FinishOPT); the order of the calls and their guards are pinned against the
   source text (Proofs_src.gen_wire_opt_calls).  [parse_pkt] puts the translated wire.ParseHeader in
   front of the accept ladder, as udpEngine.serve / tcpEngine.serveFrame do. *)
From Sdns Require Import Common.Base Common.GoList Gen.C06 C06.Model.
Open Scope N_scope.

(* big-endian octets of [v] on [n] octets, and back *)
Fixpoint be_bytes (n : nat) (v : N) : list N :=
  match n with
  | O => []
  | S k => be_bytes k (N.shiftr v 8) ++ [N.land v 255]
  end.
Definition be_val (bs : list N) : N := fold_left (fun a b => a * 256 + b) bs 0.
Definition octets (bs : list N) : Prop := Forall (fun b => b < 256) bs.

(* the abstract option whose payload is the octets [bs] (what the drivers' abstraction emits) *)
Definition eopt_of_bytes (code : N) (bs : list N) : eopt := mk_eopt code (N.of_nat (length bs)) (be_val bs).

Definition enc_eopt (e : eopt) : list N :=
  go_put_be16 (e_code e) ++ go_put_be16 (e_len e) ++ be_bytes (N.to_nat (e_len e)) (e_data e).
Definition enc_opts (l : list eopt) : list N := flat_map enc_eopt l.

(* the OPT TTL: extended RCODE (the reply's rcode / 16), version, DO, the other flag bits *)
Definition opt_ttl (xrc : N) (o : opt) : N :=
  xrc * 16777216 + o_ver o * 65536 + (if o_do o then 32768 else 0) + o_z o.
Definition opt_rrtype : N := 41.
Definition enc_opt (xrc : N) (o : opt) : list N :=
  [0] ++ go_put_be16 opt_rrtype ++ go_put_be16 (o_size o) ++ go_put_be32 (opt_ttl xrc o)
  ++ go_put_be16 (N.of_nat (length (enc_opts (o_opts o)))) ++ enc_opts (o_opts o).

(* ---- middleware/edns/wire.go appendWireOPT over the translated builders ----
   [ck]: the 40 octets serverCookie wrote; [nsidstr]: the configured NSID text; [ede]: WireInfo's
   (EDECode, EDEText) when HasEDE *)
Definition append_wire_opt (body : list N) (size : N) (do has_cookie : bool) (ck : list N)
           (nsidstr : list N) (nsid ka : bool) (ede : option (N * list N)) : list N :=
  let '(b0, off) := go_AppendOPTHeader body size do in
  let b1 := if has_cookie then go_AppendOption b0 lib_code_cookie ck else b0 in
  let b2 := if negb (match nsidstr with [] => true | _ => false end) && nsid
            then go_AppendOptionString b1 lib_code_nsid nsidstr else b1 in
  let b3 := if ka then go_AppendOption b2 lib_code_keepalive_wire (go_put_be16 tcp_keepalive_units) else b2 in
  let b4 := match ede with Some (code, text) => go_AppendOptionEDE b3 code text | None => b3 end in
  go_FinishOPT b4 off.

Definition ede_eopt (x : N * list N) : eopt := eopt_of_bytes code_ede (go_put_be16 (fst x) ++ snd x).

(* the octets the byte path appends for a writer state, from the abstract configuration *)
Definition wire_opt_octets (c : cfg) (w : wstate) (ede : option eopt) : list N :=
  append_wire_opt [] (w_resp w) (w_do w) (w_cookie w) (be_bytes (N.to_nat server_cookie_len) (c_srv_cookie c))
    (match c_nsid c with Some n => be_bytes (N.to_nat (e_len n)) (e_data n) | None => [] end)
    (w_nsid w) (w_ka w)
    (match ede with
     | Some e => let bs := be_bytes (N.to_nat (e_len e)) (e_data e) in Some (go_be16 (firstn 2 bs), skipn 2 bs)
     | None => None
     end).

(* ---- the listeners' first step: wire.ParseHeader on the packet ---- *)
Definition parse_pkt (pkt : list N) : option T_Header :=
  let '(h, ok) := go_ParseHeader pkt in if ok then Some h else None.
