(* C06 — the DNSSEC / OPT stripping functions, translated from the Go AST (wave 9; srcgen: package functions
   as callback values, `iface_cases` dns.RR = OPT / RRSIG / NSEC / NSEC3, `allow_param_mutation` because
   ClearDNSSEC / ClearOPT assign msg.Answer / msg.Ns / msg.Extra and return msg).
   internal/dnsutil ClearDNSSEC, ClearOPT, filterOut, isDNSSEC, isOPT were hand copies in Model.v
   (clear_dnssec, clear_opt, is_dnssec, is_opt) with one text pin (the RRSIG-question test).  Here:
   gen_filterOut (the two translated loops, first-drop index + copy + append, ARE List.filter, for EVERY
   callback), and ClearDNSSEC_is_model / ClearOPT_is_model: under any abstraction of the library message to
   the model's that respects Go type <-> record type, the translated functions ARE Model.clear_dnssec
   (RRSIG-question exemption included: the literal 46 comes from the translation) and Model.clear_opt.
   Not modelled by the translation: slice aliasing (filterOut returns its input when nothing is dropped). *)
From Sdns Require Import Common.Base Common.GoList Gen.C06 C06.Model.
Open Scope Z_scope.

(* ---- dnsutil.filterOut / ClearDNSSEC / ClearOPT, translated (wave 9) ---- *)
Lemma f9_idx_mid {A} (d : A) p x s : go_idx d (p ++ x :: s) (go_len p) = x.
Proof.
  rewrite go_idx_nth by apply go_len_nonneg. unfold go_len. rewrite Nat2Z.id.
  rewrite app_nth2 by lia. rewrite Nat.sub_diag. reflexivity.
Qed.
Lemma f9_len_snoc {A} (p : list A) x : go_len (p ++ [x]) = go_len p + 1.
Proof. rewrite go_len_app. unfold go_len. cbn. lia. Qed.
Lemma f9_ltb_mid {A} (p : list A) x s : (go_len p <? go_len (p ++ x :: s)) = true.
Proof. apply Z.ltb_lt. rewrite go_len_app, go_len_cons. pose proof (go_len_nonneg s). lia. Qed.
Lemma f9_ltb_end {A} (p : list A) : (go_len p <? go_len (p ++ [])) = false.
Proof. rewrite app_nil_r. apply Z.ltb_irrefl. Qed.

(* the index loop 1 leaves in firstDrop: the first element [drop] takes, counted from [base] *)
Fixpoint fd_of (drop : I_RR -> bool) (l : list I_RR) (base fd : Z) : Z :=
  match l with
  | [] => fd
  | x :: r => if drop x then base else fd_of drop r (base + 1) fd
  end.

Lemma filterOut_loop1 drop rrs fd rest : forall pre fuel,
  (length rest < fuel)%nat ->
  go_filterOut_loop1 (pre ++ rest) fuel (go_len pre) rrs drop fd
  = (GoNext, (rrs, drop, fd_of drop rest (go_len pre) fd)).
Proof.
  induction rest as [|x r IH]; intros pre fuel Hf; destruct fuel as [|f]; cbn [length] in Hf; try lia.
  - cbn [go_filterOut_loop1]. rewrite f9_ltb_end. reflexivity.
  - cbn [go_filterOut_loop1 fd_of]. rewrite f9_ltb_mid, f9_idx_mid. destruct (drop x); [reflexivity|].
    replace (go_len pre + 1) with (go_len (pre ++ [x])) by apply f9_len_snoc.
    replace (pre ++ x :: r) with ((pre ++ [x]) ++ r) by (rewrite <- app_assoc; reflexivity).
    apply IH. lia.
Qed.

Lemma filterOut_loop2 drop rrs fd rest : forall pre fuel kept,
  (length rest < fuel)%nat ->
  go_filterOut_loop2 (pre ++ rest) fuel (go_len pre) rrs drop fd kept
  = (GoNext, (rrs, drop, fd, kept ++ filter (fun x => negb (drop x)) rest)).
Proof.
  induction rest as [|x r IH]; intros pre fuel kept Hf; destruct fuel as [|f]; cbn [length] in Hf; try lia.
  - cbn [go_filterOut_loop2]. rewrite f9_ltb_end. cbn. rewrite app_nil_r. reflexivity.
  - cbn [go_filterOut_loop2 filter]. rewrite f9_ltb_mid, f9_idx_mid.
    replace (go_len pre + 1) with (go_len (pre ++ [x])) by apply f9_len_snoc.
    replace (pre ++ x :: r) with ((pre ++ [x]) ++ r) by (rewrite <- app_assoc; reflexivity).
    destruct (drop x); cbn [negb]; rewrite IH by lia; [reflexivity|]. rewrite <- app_assoc. reflexivity.
Qed.

Lemma fd_spec drop l : forall base,
  0 <= base ->
  (fd_of drop l base (-1) = -1 /\ filter (fun x => negb (drop x)) l = l)
  \/ (exists pre x rest, l = pre ++ x :: rest /\ fd_of drop l base (-1) = base + go_len pre /\ drop x = true
                         /\ filter (fun x => negb (drop x)) pre = pre).
Proof.
  induction l as [|y r IH]; intros base Hb; cbn [fd_of filter].
  - left. auto.
  - destruct (drop y) eqn:E; cbn [negb].
    + right. exists [], y, r. cbn. repeat split; auto. lia.
    + destruct (IH (base + 1) ltac:(lia)) as [[H1 H2]|(pre & x & rest & H1 & H2 & H3 & H4)].
      * left. rewrite H2. auto.
      * right. exists (y :: pre), x, rest. subst r. cbn [app filter]. rewrite E. cbn [negb]. rewrite H4, H2.
        rewrite go_len_cons. repeat split; auto. lia.
Qed.

(* filterOut IS the filter that keeps what [drop] does not take — for every callback *)
Lemma gen_filterOut rrs drop : go_filterOut rrs drop = filter (fun x => negb (drop x)) rrs.
Proof.
  unfold go_filterOut.
  pose proof (filterOut_loop1 drop rrs (-1) rrs [] (S (length rrs)) ltac:(lia)) as H1. cbn [app] in H1.
  change (go_len (@nil I_RR)) with 0 in H1. rewrite H1. clear H1.
  destruct (fd_spec drop rrs 0 ltac:(lia)) as [[H1 H2]|(pre & x & rest & H1 & H2 & H3 & H4)].
  - rewrite H1. cbn. symmetry. exact H2.
  - rewrite H2. assert (Hk : 0 + go_len pre = go_len pre) by lia. rewrite Hk.
    pose proof (go_len_nonneg pre) as Hp.
    destruct (go_len pre =? -1) eqn:E; [apply Z.eqb_eq in E; lia|].
    assert (Hs : go_slice_to rrs (go_len pre) = pre).
    { unfold go_slice_to, go_len. rewrite Nat2Z.id, H1. rewrite firstn_app, Nat.sub_diag, firstn_all. cbn. apply app_nil_r. }
    assert (Hf : go_slice_from rrs (go_len pre + 1) = rest).
    { unfold go_slice_from, go_len. replace (Z.to_nat (Z.of_nat (length pre) + 1)) with (length pre + 1)%nat by lia.
      rewrite H1. rewrite skipn_app. replace (length pre + 1 - length pre)%nat with 1%nat by lia.
      rewrite skipn_all2 by lia. reflexivity. }
    assert (Hc : go_copy_at (go_make I_RR_nil (go_len pre)) 0 pre = pre).
    { unfold go_copy_at. rewrite go_make_length. unfold go_len. rewrite Nat2Z.id. cbn [Z.to_nat firstn app Nat.add].
      rewrite Nat.sub_0_r, Nat.min_id, firstn_all. unfold go_make. rewrite Nat2Z.id.
      rewrite skipn_all2 by (rewrite repeat_length; lia). apply app_nil_r. }
    rewrite Hs, Hf, Hc.
    pose proof (filterOut_loop2 drop rrs (go_len pre) rest [] (S (length rest)) pre ltac:(lia)) as H5. cbn [app] in H5.
    change (go_len (@nil I_RR)) with 0 in H5. rewrite H5.
    rewrite H1, filter_app. cbn [filter]. rewrite H3. cbn [negb]. rewrite H4. reflexivity.
Qed.

(* ---- the translated functions ARE the model's, under the Go-type <-> record-type correspondence ---- *)
Section Abs9.
  Variable absh : T_MsgHdr -> hdr.
  Variable absq : T_Question -> quest.
  Variable absr : I_RR -> rr.        (* answer / authority records *)
  Variable absx : I_RR -> xrr.       (* additional records *)
  Hypothesis absq_type : forall q, q_type (absq q) = T_Question_Qtype q.
  Hypothesis absr_dnssec : forall x, is_dnssec (absr x) = go_isDNSSEC x.
  Hypothesis absx_opt : forall x, is_opt (absx x) = go_isOPT x.

  Definition abs_msg (m : T_Msg) : msg :=
    mk_msg (absh (T_Msg_MsgHdr m)) (map absq (T_Msg_Question m)) (map absr (T_Msg_Answer m)) (map absr (T_Msg_Ns m))
           (map absx (T_Msg_Extra m)).

  Lemma map_filter_gen {A B} (abs : A -> B) (f : A -> bool) (g : B -> bool) l :
    (forall o, g (abs o) = f o) -> map abs (filter f l) = filter g (map abs l).
  Proof.
    intros H. induction l as [|x r IH]; cbn; [reflexivity|]. rewrite H. destruct (f x); cbn; rewrite IH; reflexivity.
  Qed.

  Lemma ClearDNSSEC_is_model m : abs_msg (go_ClearDNSSEC m) = clear_dnssec (abs_msg m).
  Proof.
    unfold go_ClearDNSSEC, clear_dnssec, abs_msg. cbn [m_q m_hdr m_an m_ns m_ex].
    destruct (T_Msg_Question m) as [|q qs] eqn:EQ.
    - cbn. rewrite !gen_filterOut.
      rewrite !(map_filter_gen absr _ (fun r => negb (is_dnssec r))) by (intros o; rewrite absr_dnssec; reflexivity).
      reflexivity.
    - assert (Hl : (0 <? go_len (q :: qs)) = true) by (apply Z.ltb_lt; rewrite go_len_cons; pose proof (go_len_nonneg qs); lia).
      rewrite Hl. cbn [andb map]. rewrite go_idx_0. rewrite absq_type. unfold type_rrsig.
      destruct (T_Question_Qtype q =? 46)%N.
      + rewrite EQ. reflexivity.
      + cbn. rewrite !gen_filterOut.
        rewrite !(map_filter_gen absr _ (fun r => negb (is_dnssec r))) by (intros o; rewrite absr_dnssec; reflexivity).
        reflexivity.
  Qed.

  Lemma ClearOPT_is_model m : abs_msg (go_ClearOPT m) = clear_opt (abs_msg m).
  Proof.
    unfold go_ClearOPT, clear_opt, with_ex, abs_msg. cbn. rewrite gen_filterOut.
    rewrite (map_filter_gen absx _ (fun x => negb (is_opt x))) by (intros o; rewrite absx_opt; reflexivity).
    reflexivity.
  Qed.
End Abs9.

(* non-vacuity: an abstraction that respects the correspondence, and the translated ClearDNSSEC computing on
   a signed answer: stripped for an A question, untouched for an RRSIG question *)
Definition ex9_absr (x : I_RR) : rr :=
  match x with
  | I_RR_of_RRSIG _ => mk_rr 1 0 46 1 0 0 []
  | I_RR_of_NSEC _ => mk_rr 2 0 47 1 0 0 []
  | I_RR_of_NSEC3 _ => mk_rr 3 0 50 1 0 0 []
  | I_RR_of_OPT _ => mk_rr 4 0 41 1 0 0 []
  | I_RR_other _ _ => mk_rr 5 0 1 1 0 0 []
  | I_RR_nil => mk_rr 6 0 0 0 0 0 []
  end.
Definition ex9_absx (x : I_RR) : xrr :=
  match x with I_RR_of_OPT _ => XO (mk_opt 0 0 false 0 []) | y => XR (ex9_absr y) end.
Definition ex9_hdr : T_RR_Header := mk_T_RR_Header [] 1 1 300 4.
Definition ex9_a : I_RR := I_RR_other 1 ex9_hdr.
Definition ex9_sig : I_RR := I_RR_of_RRSIG (mk_T_RRSIG ex9_hdr 1 13 2 300 0 0 4242 [] []).
Definition ex9_msg (qt : N) (h : T_MsgHdr) : T_Msg :=
  mk_T_Msg h false [mk_T_Question [] qt 1] [ex9_a; ex9_sig; ex9_a; ex9_sig] [ex9_sig] [I_RR_of_OPT zero_T_OPT; ex9_a].
Example ex_clear_dnssec :
  (forall x, is_dnssec (ex9_absr x) = go_isDNSSEC x) /\ (forall x, is_opt (ex9_absx x) = go_isOPT x)
  /\ forall h, T_Msg_Answer (go_ClearDNSSEC (ex9_msg 1 h)) = [ex9_a; ex9_a] /\ T_Msg_Ns (go_ClearDNSSEC (ex9_msg 1 h)) = []
              /\ go_ClearDNSSEC (ex9_msg 46 h) = ex9_msg 46 h
              /\ T_Msg_Extra (go_ClearOPT (ex9_msg 1 h)) = [ex9_a].
Proof.
  split; [intros []; reflexivity|]. split; [intros []; reflexivity|]. intros h. repeat split; reflexivity.
Qed.

(* the statement of Properties.dnssec_strip_is_the_translated_code *)
Open Scope N_scope.
Lemma dnssec_strip_is_the_translated_code_l :
  forall (absh : T_MsgHdr -> hdr) (absq : T_Question -> quest) (absr : I_RR -> rr) (absx : I_RR -> xrr),
    (forall q, q_type (absq q) = T_Question_Qtype q) ->
    (forall x, is_dnssec (absr x) = go_isDNSSEC x) ->
    (forall x, is_opt (absx x) = go_isOPT x) ->
    (forall m, abs_msg absh absq absr absx (go_ClearDNSSEC m) = clear_dnssec (abs_msg absh absq absr absx m))
    /\ (forall m, abs_msg absh absq absr absx (go_ClearOPT m) = clear_opt (abs_msg absh absq absr absx m))
    /\ (forall rrs drop, go_filterOut rrs drop = filter (fun x => negb (drop x)) rrs).
Proof.
  intros absh absq absr absx H1 H2 H3. split; [intros; apply ClearDNSSEC_is_model; assumption|].
  split; [intros; apply ClearOPT_is_model; assumption|intros; apply gen_filterOut].
Qed.
