(* C06 — correspondence: case type and the two checkers evaluated with
   vm_compute on what the Go drivers observed at the transports.
   check_case: the model computes the reply the implementation sent.
   spec_case : the reply the implementation sent satisfies the property's
               statement, judged on (query, observed reply) alone. *)
From Sdns Require Export Common.Base Common.GoList Gen.C06 C06.Model C06.WireOpt.
Open Scope N_scope.

(* ---- decidable equality on abstract messages ---- *)
Definition hdr_eqb (a b : hdr) : bool :=
  (h_id a =? h_id b) && Bool.eqb (h_qr a) (h_qr b) && (h_opcode a =? h_opcode b) && Bool.eqb (h_aa a) (h_aa b)
  && Bool.eqb (h_tc a) (h_tc b) && Bool.eqb (h_rd a) (h_rd b) && Bool.eqb (h_ra a) (h_ra b) && Bool.eqb (h_z a) (h_z b)
  && Bool.eqb (h_ad a) (h_ad b) && Bool.eqb (h_cd a) (h_cd b) && (h_rcode a =? h_rcode b).
Definition quest_eqb (a b : quest) : bool :=
  (q_name a =? q_name b) && (q_type a =? q_type b) && (q_class a =? q_class b) && (q_len a =? q_len b).
Definition seg_eqb (a b : seg) : bool :=
  match a, b with
  | SFix x, SFix y => x =? y
  | SName c x, SName d y => Bool.eqb c d && (x =? y)
  | _, _ => false
  end.
Fixpoint segs_eqb (a b : list seg) : bool :=
  match a, b with
  | [], [] => true
  | x :: xs, y :: ys => seg_eqb x y && segs_eqb xs ys
  | _, _ => false
  end.
Definition rr_eqb (a b : rr) : bool :=
  (r_id a =? r_id b) && (r_owner a =? r_owner b) && (r_type a =? r_type b) && (r_class a =? r_class b)
  && (r_ttl a =? r_ttl b) && (r_len a =? r_len b) && segs_eqb (r_rd a) (r_rd b).
Definition eopt_eqb (a b : eopt) : bool :=
  (e_code a =? e_code b) && (e_len a =? e_len b) && (e_data a =? e_data b).
Fixpoint list_eqb {A} (eqb : A -> A -> bool) (a b : list A) : bool :=
  match a, b with
  | [], [] => true
  | x :: xs, y :: ys => eqb x y && list_eqb eqb xs ys
  | _, _ => false
  end.
Definition opt_eqb (a b : opt) : bool :=
  (o_ver a =? o_ver b) && (o_size a =? o_size b) && Bool.eqb (o_do a) (o_do b) && (o_z a =? o_z b)
  && list_eqb eopt_eqb (o_opts a) (o_opts b).
Definition xrr_eqb (a b : xrr) : bool :=
  match a, b with
  | XR x, XR y => rr_eqb x y
  | XO x, XO y => opt_eqb x y
  | XReq x, XReq y => opt_eqb x y
  | _, _ => false
  end.
Definition msg_eqb (a b : msg) : bool :=
  hdr_eqb (m_hdr a) (m_hdr b) && list_eqb quest_eqb (m_q a) (m_q b) && list_eqb rr_eqb (m_an a) (m_an b)
  && list_eqb rr_eqb (m_ns a) (m_ns b) && list_eqb xrr_eqb (m_ex a) (m_ex b).
Definition omsg_eqb (a b : option msg) : bool :=
  match a, b with
  | None, None => true
  | Some x, Some y => msg_eqb x y
  | _, _ => false
  end.

(* ---- the specification, on the observed reply ---- *)
Definition all_opts (m : msg) : list eopt :=
  flat_map (fun x => match opt_of x with Some o => o_opts o | None => [] end) (m_ex m).
Definition has_opt (m : msg) : bool := existsb is_opt (m_ex m).
Definition no_dnssec (m : msg) : bool := forallb (fun r => negb (is_dnssec r)) (m_an m ++ m_ns m).

(* a bare-header rejection: FORMERR / NOTIMP with nothing but the header *)
Definition is_bare_reject (r : msg) : bool :=
  ((h_rcode (m_hdr r) =? rcode_formerr) || (h_rcode (m_hdr r) =? rcode_notimp))
  && match m_q r, m_an r, m_ns r, m_ex r with [], [], [], [] => true | _, _, _, _ => false end.
(* the FORMERR / NOTIMP rejections the statement exempts from the shaping clauses *)
Definition is_reject (r : msg) : bool := is_bare_reject r.

(* max(512, min(advertised, 1232)); no OPT: 512 *)
Definition udp_limit (qo : option opt) : N :=
  match qo with
  | None => min_msg_size
  | Some o => N.max min_msg_size (N.min (o_size o) default_msg_size)
  end.

Definition tc_minimal (r : msg) : bool :=
  h_tc (m_hdr r) && match m_an r, m_ns r with [], [] => true | _, _ => false end && forallb is_opt (m_ex r).

Definition expect_id (tr : transport) (q : msg) : N := match tr with DOQ => 0 | _ => h_id (m_hdr q) end.

Definition hdr_echo (tr : transport) (q r : msg) : bool :=
  h_qr (m_hdr r) && (h_id (m_hdr r) =? expect_id tr q) && (h_opcode (m_hdr r) =? h_opcode (m_hdr q)).

Definition quest_echo (q r : msg) : bool := list_eqb quest_eqb (m_q r) (firstn 1 (m_q q)).

Definition client_opts (qo : option opt) : list eopt := match qo with Some o => o_opts o | None => [] end.

(* the options this server may generate for this client *)
Definition own_option_ok (tr : transport) (c : cfg) (qo : option opt) (e : eopt) : bool :=
  if e_code e =? code_cookie then client_cookie_ok (client_opts qo) && eopt_eqb e (cookie_opt c)
  else if e_code e =? code_nsid then
    has_code code_nsid (client_opts qo) && match c_nsid c with Some n => eopt_eqb e n | None => false end
  else if e_code e =? code_keepalive then is_tcp tr && has_code code_keepalive (client_opts qo) && eopt_eqb e keepalive_opt
  else e_code e =? code_ede.

(* the clauses about option CONTENT other than ECS / keepalive — the part F5 breaks *)
Definition options_own (tr : transport) (c : cfg) (qo : option opt) (r : msg) : bool :=
  forallb (own_option_ok tr c qo) (all_opts r).
(* ECS never reflected; a keepalive only if it is ours *)
Definition no_ecs_ka (tr : transport) (c : cfg) (qo : option opt) (r : msg) : bool :=
  forallb (fun e => negb (e_code e =? code_ecs)
                    && (negb (e_code e =? code_keepalive) || own_option_ok tr c qo e)) (all_opts r).

(* [rx] relaxes clauses for the second copy of an input of a KNOWN finding (see CaseRelax):
   bit 0: "only own options"; bit 1: "no ECS / foreign keepalive"; bit 2: the UDP size bound *)
Definition reply_ok (rx : N) (tr : transport) (c : cfg) (q r : msg) (rlen : N) : bool :=
  let qo := last_opt (m_ex q) in
  let do := match qo with Some o => o_do o | None => false end in
  let qt_rrsig := match m_q q with x :: _ => q_type x =? type_rrsig | [] => false end in
  hdr_echo tr q r
  && (N.testbit rx 2 || negb (is_udp tr) || (rlen <=? udp_limit qo) || tc_minimal r)
  && (is_reject r
      || (quest_echo q r
          && (negb (has_opt r) || match qo with Some _ => true | None => false end)
          && (do || qt_rrsig || no_dnssec r)
          && (negb (h_cd (m_hdr q) || (negb do && negb (h_ad (m_hdr q)))) || negb (h_ad (m_hdr r)))
          && (N.testbit rx 1 || no_ecs_ka tr c qo r)
          && (N.testbit rx 0 || options_own tr c qo r))).

(* what a decoded query must get, if anything is sent at all *)
Definition msg_reply_ok (rx : N) (tr : transport) (c : cfg) (q : msg) (obs : option msg) (rlen : N) : bool :=
  match obs with
  | None => true        (* nothing downstream answered: no reply to judge *)
  | Some r =>
      reply_ok rx tr c q r rlen
      && (if negb (length (m_q q) =? 1)%nat then h_rcode (m_hdr r) =? rcode_formerr
          else if negb (h_opcode (m_hdr q) =? 0) then h_rcode (m_hdr r) =? rcode_notimp
          else match last_opt (m_ex q) with
               | Some o => if negb (o_ver o =? 0) then h_rcode (m_hdr r) =? rcode_badvers else true
               | None => true
               end)
  end.

Definition flags_opcode (h : T_Header) : N := N.land (N.shiftr (T_Header_Flags h) 11) 15.
Definition flags_qr (h : T_Header) : bool := negb (N.land (T_Header_Flags h) 32768 =? 0).

Definition is_nil {A} (l : list A) : bool := match l with [] => true | _ => false end.
Definition is_none {A} (o : option A) : bool := match o with None => true | Some _ => false end.

(* the in-place rejection: bare header, ID and opcode echoed, QR set *)
Definition raw_reject_ok (h : T_Header) (rc : N) (obs : option msg) : bool :=
  match obs with
  | None => false
  | Some r => h_qr (m_hdr r) && (h_id (m_hdr r) =? T_Header_ID h) && (h_opcode (m_hdr r) =? flags_opcode h)
              && (h_rcode (m_hdr r) =? rc) && is_nil (m_q r) && is_nil (m_an r) && is_nil (m_ns r) && is_nil (m_ex r)
  end.

(* the server itself owes these queries a reply, whatever is downstream *)
Definition must_answer (q : msg) : bool :=
  negb (length (m_q q) =? 1)%nat || negb (h_opcode (m_hdr q) =? 0)
  || match last_opt (m_ex q) with Some o => negb (o_ver o =? 0) | None => false end.

Definition spec_msg (rx : N) (tr : transport) (c : cfg) (q : msg) (obs : option msg) (rlen : N) : bool :=
  msg_reply_ok rx tr c q obs rlen && (negb (must_answer q) || negb (is_none obs)).

(* datagram / stream listeners: the accept table, then the reply clauses *)
Definition spec_raw (rx : N) (tr : transport) (c : cfg) (h : T_Header) (body : option msg)
           (obs : option msg) (rlen : N) : bool :=
  if flags_qr h then is_none obs
  else if negb (flags_opcode h =? 0) && negb (flags_opcode h =? 4) then raw_reject_ok h rcode_notimp obs
  (* the library server's accept function, which the listeners promise to mirror:
     exactly one question, at most one answer / authority record, at most two additional *)
  else if negb (T_Header_QDCount h =? 1) || (1 <? T_Header_ANCount h)
          || (1 <? T_Header_NSCount h) || (2 <? T_Header_ARCount h)
       then raw_reject_ok h rcode_formerr obs
  else match body with
       | None => raw_reject_ok h rcode_formerr obs
       | Some q => spec_msg rx tr c q obs rlen
       end.

Inductive case :=
  (* one packet on a datagram / stream listener: name table, raw header, the library's decode of the
     packet (None: undecodable), whether the chain ran it wire-born, what the scripted last handler
     wrote (None: nothing), the library's compressed Len of the shaped message measured on a twin run
     (informational: the model computes its own), the observed reply with its wire length, its
     uncompressed and its compressed library Len *)
| CaseRaw (tr : transport) (c : cfg) (nt : ntab) (h : T_Header) (body : option msg) (strict : bool) (dn : option msg)
          (clen : N) (obs : option msg) (rlen oulen oclen : N)
  (* the same, with a last handler that took the byte path: WireReady said yes and WriteWire was
     handed the response minus its OPT, packed to [blen] bytes, with WireInfo (hasd, ede);
     [dn] is the whole message it re-serves through WriteMsg on ErrWireFallback *)
| CaseWire (tr : transport) (c : cfg) (nt : ntab) (h : T_Header) (body : option msg) (strict : bool) (dn : option msg)
           (hasd : bool) (ede : option eopt) (blen clen : N) (obs : option msg) (rlen oulen oclen : N)
  (* one decoded query on the message entry (DoH, DoQ) *)
| CaseMsg (tr : transport) (c : cfg) (nt : ntab) (q : msg) (dn : option msg) (clen : N) (obs : option msg) (rlen oulen oclen : N)
  (* one decoded single-question query handed straight to a Chain [edns; last handler]
     (sub-pipeline / embedder entry: no header accept, no QDCOUNT guard) *)
| CaseChain (tr : transport) (c : cfg) (nt : ntab) (q : msg) (strict : bool) (dn : option msg) (clen : N) (obs : option msg)
            (rlen oulen oclen : N)
  (* the same input judged without the clauses a KNOWN finding breaks (unused since fb9758c) *)
| CaseRelax (rx : N) (c : case)
  (* a case together with octets of the packets themselves: [pkt] = the first (at most 12) octets of
     the query packet on a datagram / stream listener ([] elsewhere), [plen] = its length (0
     elsewhere; the model parses [pkt] padded to that length) — the translated
     wire.ParseHeader must produce the header the case carries, and fewer than 12 octets must be met
     with silence; [tail] = the octets of the reply's OPT when it is the reply's last record ([]
     otherwise) — they must be the wire form of the abstract OPT (WireOpt.enc_opt), and on the byte
     path exactly what the translated internal/wire builders produce (WireOpt.wire_opt_octets) *)
| CaseBytes (pkt : list N) (plen : N) (tail : list N) (c : case)
  (* thorough tier, exhaustive: ALL 65 536 values of the flags word of a header-only (12-octet)
     packet with ID [id] and the four section counts, on one listener.  [runs] are the observed
     outcomes in flag order, run-length encoded as (how many consecutive flag words, outcome):
     outcome 0 = silence, 1 + the 12 reply octets as a big-endian number otherwise.  The library
     decodes a header-only packet to a message without sections whatever the counts say (the driver
     checks that on every packet); that decode is [sweep_body]. *)
| CaseSweep (tr : transport) (id qd an ns ar : N) (runs : list (N * N))
  (* one query answered by the REAL cache sitting behind the edns layer (driver `cache`): a Chain
     [edns; recorder; cache] entered wire-born ([strict]) or decoded.  [hops] = the stored headers
     the reply was produced from: the exact entry's ([kind] 0), or the alias entry's followed by
     every hop's when composeWireChase served ([kind] 1); [] when an alias was completed on the Msg
     path ([kind] 2: the product is observed, its header not predicted — no case of the drivers is of
     this kind any more); [kind] 3 = the RFC 8020 cut served ([hops] = the header of the stored proof
     message), 4 = the RFC 9520 cached failure, 8 = an RD = 0 query refused before any lookup.
     Session 5: every kind covers the byte path AND the Msg path — kind 0 with [subs] = what the
     internal sub-pipeline answered to the Msg-path alias chase, in order (AD, rcode, carried
     records); [hops] = [] for kinds 4 and 8.  [wtry] = the body the
     cache handed to WriteWire / CommitWire, decoded, with WireInfo.AuthenticatedData, HasDNSSEC,
     the EDE and the body's length; [dn] = the message it handed to WriteMsg (after a declined byte
     path, or instead of it); then the octets the transport sent, as in the other cases *)
| CaseHit (tr : transport) (c : cfg) (nt : ntab) (q : msg) (strict : bool) (kind : N) (hops : list hdr) (subs : list sub)
          (wtry : option (msg * bool * bool * option eopt * N)) (dn : option msg)
          (obs : option msg) (rlen oulen oclen : N).

(* the model's two length computations agree with the library's on the observed reply, and the
   lengths the records carry agree with the name table *)
Definition lens_ok (nt : ntab) (obs : option msg) (oulen oclen : N) : bool :=
  match obs with
  | Some r => (msg_ulen r =? oulen) && (msg_clen nt r =? oclen) && msg_wf nt r
  | None => true
  end.
Definition omsg_wf (nt : ntab) (m : option msg) : bool := match m with Some x => msg_wf nt x | None => true end.

(* ---- the header sweep ---- *)
Definition hdr_word (h : hdr) : N :=
  (if h_qr h then 32768 else 0) + h_opcode h * 2048 + (if h_aa h then 1024 else 0) + (if h_tc h then 512 else 0)
  + (if h_rd h then 256 else 0) + (if h_ra h then 128 else 0) + (if h_z h then 64 else 0) + (if h_ad h then 32 else 0)
  + (if h_cd h then 16 else 0) + h_rcode h.
Definition hdr_of_word (id w : N) : hdr :=
  mk_hdr id (N.testbit w 15) (N.land (N.shiftr w 11) 15) (N.testbit w 10) (N.testbit w 9) (N.testbit w 8) (N.testbit w 7)
         (N.testbit w 6) (N.testbit w 5) (N.testbit w 4) (N.land w 15).
Definition two64 : N := 18446744073709551616.
(* what the library makes of a header-only packet *)
Definition sweep_body (id flags : N) : msg := mk_msg (hdr_of_word id flags) [] [] [] [].
(* a reply as an outcome number (only a bare header fits 12 octets) and back *)
Definition sweep_outcome (o : option msg) : N :=
  match o with
  | None => 0
  | Some r => match m_q r, m_an r, m_ns r, m_ex r with
              | [], [], [], [] => 1 + (h_id (m_hdr r) * 65536 + hdr_word (m_hdr r)) * two64
              | _, _, _, _ => 1
              end
  end.
Definition sweep_obs (v : N) : option msg :=
  if v =? 0 then None
  else let x := v - 1 in
       let w := N.land (N.shiftr x 64) 65535 in
       Some (mk_msg (hdr_of_word (N.shiftr x 80) w) (if N.land x (two64 - 1) =? 0 then [] else [mk_quest 0 0 0 0]) [] [] []).
Fixpoint run_ok (f : N -> bool) (start : N) (n : nat) : bool :=
  match n with O => true | S k => f start && run_ok f (start + 1) k end.
Fixpoint sweep_ok (f : N -> N -> bool) (runs : list (N * N)) (start : N) : bool :=
  match runs with
  | [] => start =? 65536
  | (n, o) :: r => run_ok (fun fl => f fl o) start (N.to_nat n) && sweep_ok f r (start + n)
  end.
Definition sweep_cfg : cfg := mk_cfg None 0 None.

(* ---- the cache behind the edns layer ---- *)
(* the edns writer on what the cache handed it *)
Definition hit_reply (nt : ntab) (tr : transport) (c : cfg) (q : msg) (strict : bool)
           (wtry : option (msg * bool * bool * option eopt * N)) (dn : option msg) : option msg :=
  let w := mk_wstate tr strict q (set_edns0 c q) in
  match wtry with
  | Some (d, iad, hasd, ede, blen) =>
      match write_wire tr c w d iad hasd ede blen with
      | Some r => Some (norm r)
      | None => option_map (shape_reply_c nt tr c w) dn
      end
  | None => option_map (shape_reply_c nt tr c w) dn
  end.
(* the cache's producers: the header of the body / message and the WireInfo verdict are the
   model's function of the stored headers and the request's *)
Definition hit_producer (kind : N) (hops : list hdr) : option producer :=
  if (kind =? 0) || (kind =? 1) then Some (PEntries hops)
  else if kind =? 3 then Some PCut else if kind =? 4 then Some PFailure else None.
(* the Msg-path twin of each kind (session 5); a byte-path alias chase (kind 1) has none: it is served
   as bytes or the case is of kind 0 *)
Definition hit_mproducer (kind : N) (hops : list hdr) (subs : list sub) : option mproducer :=
  if kind =? 0 then match hops with [st] => Some (MEntry st subs) | _ => None end
  else if kind =? 3 then match hops with [stc] => Some (MCut stc) | _ => None end
  else if kind =? 4 then Some MFailure else if kind =? 8 then Some MNoRec else None.
(* whatever the cache hands over carries the request's own first question, spelling included *)
Definition hit_q_ok (q : msg) (wtry : option (msg * bool * bool * option eopt * N)) (dn : option msg) : bool :=
  match wtry with Some (d, _, _, _, _) => list_eqb quest_eqb (m_q d) (product_q q) | None => true end
  && match dn with Some m => list_eqb quest_eqb (m_q m) (product_q q) | None => true end.
Definition hit_producer_ok (q : msg) (kind : N) (hops : list hdr) (subs : list sub)
           (wtry : option (msg * bool * bool * option eopt * N)) (dn : option msg) : bool :=
  hit_q_ok q wtry dn
  && ((kind =? 2)
      || (match wtry with
          | Some (d, iad', _, _, _) =>
              match hit_producer kind hops with
              | Some p => match produce p (m_hdr q) with
                          | Some (h, iad) => hdr_eqb (m_hdr d) h && Bool.eqb iad iad'
                          | None => false
                          end
              | None => false
              end
          | None => true
          end
          && match dn with
             | Some m =>
                 match hit_mproducer kind hops subs with
                 | Some p => match produce_msg p (m_hdr q) with
                             | Some h => hdr_eqb (m_hdr m) h
                             | None => false
                             end
                 | None => false
                 end
             | None => true
             end
          && (if kind =? 1 then negb (is_none wtry) else true))).

(* session 5 — what ResponseWriter.WriteWire relies on the caller for, checked on every body the cache
   hands over: the body carries no OPT; WireInfo.HasDNSSEC is truthful in the direction the writer
   uses it (false only for a body without RRSIG / NSEC / NSEC3 in answer and authority, or an RRSIG
   question); the EDE it passes is an EDE; and when the writer accepts the body, the octets that
   leave are the body plus the OPT the model attaches — the length the size theorem talks about *)
Definition hit_wire_facts_ok (tr : transport) (c : cfg) (q : msg) (strict : bool)
           (wtry : option (msg * bool * bool * option eopt * N)) (obs : option msg) (rlen : N) : bool :=
  match wtry with
  | None => true
  | Some (d, iad, hasd, ede, blen) =>
      let w := mk_wstate tr strict q (set_edns0 c q) in
      forallb (fun x => negb (is_opt x)) (m_ex d)
      && (hasd || match m_q q with x :: _ => q_type x =? type_rrsig | [] => false end || no_dnssec d)
      && match ede with Some x => e_code x =? code_ede | None => true end
      && match write_wire tr c w d iad hasd ede blen, obs with
         | Some _, Some _ => rlen =? blen + (if w_noedns w then 0 else opt_len (wire_opt c w ede))
         | _, _ => true
         end
  end.

Definition theader_eqb (a b : T_Header) : bool :=
  (T_Header_ID a =? T_Header_ID b) && (T_Header_Flags a =? T_Header_Flags b) && (T_Header_QDCount a =? T_Header_QDCount b)
  && (T_Header_ANCount a =? T_Header_ANCount b) && (T_Header_NSCount a =? T_Header_NSCount b)
  && (T_Header_ARCount a =? T_Header_ARCount b).
Definition case_hdr (x : case) : option T_Header :=
  match x with
  | CaseRaw _ _ _ h _ _ _ _ _ _ _ _ => Some h
  | CaseWire _ _ _ h _ _ _ _ _ _ _ _ _ _ _ => Some h
  | _ => None
  end.
Definition case_obs (x : case) : option msg :=
  match x with
  | CaseRaw _ _ _ _ _ _ _ _ obs _ _ _ => obs
  | CaseWire _ _ _ _ _ _ _ _ _ _ _ obs _ _ _ => obs
  | CaseMsg _ _ _ _ _ _ obs _ _ _ => obs
  | CaseChain _ _ _ _ _ _ _ obs _ _ _ => obs
  | CaseHit _ _ _ _ _ _ _ _ _ _ obs _ _ _ => obs
  | _ => None
  end.
Definition bytes_eqb (a b : list N) : bool := list_eqb N.eqb a b.
(* the reply's last record is an OPT and [tail] is its wire form *)
Definition tail_ok (tail : list N) (x : case) : bool :=
  match tail with
  | [] => true
  | _ => match case_obs x with
         | Some r => match last (map Some (m_ex r)) None with
                     | Some (XO o) => bytes_eqb (enc_opt (h_rcode (m_hdr r) / 16) o) tail
                     | _ => false
                     end
         | None => false
         end
  end.
(* byte path taken (WriteWire accepted the body): the translated builders' octets are the tail *)
Definition wire_octets_ok (tail : list N) (x : case) : bool :=
  match x with
  | CaseWire tr c _ h (Some q) strict (Some d) hasd ede blen _ (Some _) _ _ _ =>
      let w := mk_wstate tr strict q (set_edns0 c q) in
      match write_wire tr c w (clear_opt d) (h_ad (m_hdr d)) hasd ede blen with
      | Some _ => w_noedns w || bytes_eqb (wire_opt_octets c w ede) tail
      | None => true
      end
  | CaseHit tr c _ q strict _ _ _ (Some (d, iad, hasd, ede, blen)) _ (Some _) _ _ _ =>
      let w := mk_wstate tr strict q (set_edns0 c q) in
      match write_wire tr c w d iad hasd ede blen with
      | Some _ => w_noedns w || bytes_eqb (wire_opt_octets c w ede) tail
      | None => true
      end
  | _ => true
  end.

Fixpoint check_case (x : case) : bool :=
  match x with
  | CaseRaw tr c nt h body strict dn clen obs rlen oulen oclen =>
      omsg_eqb (serve_raw_c nt tr c h body strict dn) obs && lens_ok nt obs oulen oclen && omsg_wf nt dn
  | CaseWire tr c nt h body strict dn hasd ede blen clen obs rlen oulen oclen =>
      omsg_eqb (serve_raw_gen (wire_then_msg_c nt tr c hasd ede blen) tr c h body strict dn) obs
      && lens_ok nt obs oulen oclen && omsg_wf nt dn
  | CaseMsg tr c nt q dn clen obs rlen oulen oclen =>
      omsg_eqb (serve_msg_c nt tr c q false dn) obs && lens_ok nt obs oulen oclen && omsg_wf nt dn
  | CaseChain tr c nt q strict dn clen obs rlen oulen oclen =>
      omsg_eqb (option_map (transport_write tr) (edns_serve_c nt tr c q strict dn)) obs
      && lens_ok nt obs oulen oclen && omsg_wf nt dn
  | CaseRelax _ y => check_case y
  | CaseHit tr c nt q strict kind hops subs wtry dn obs rlen oulen oclen =>
      (* the generator sends opcode-0, version-0, single-question queries: the edns layer hands them on *)
      is_none (edns_serve_gen (fun _ d => d) tr c q strict None)
      && omsg_eqb (hit_reply nt tr c q strict wtry dn) obs && hit_producer_ok q kind hops subs wtry dn
      && hit_wire_facts_ok tr c q strict wtry obs rlen
      && lens_ok nt obs oulen oclen && omsg_wf nt dn
  | CaseSweep tr id qd an ns ar runs =>
      sweep_ok (fun fl o =>
                  sweep_outcome (serve_raw tr sweep_cfg (mk_T_Header id fl qd an ns ar) (Some (sweep_body id fl)) false None 0) =? o)
               runs 0
  | CaseBytes pkt plen tail y =>
      match pkt with
      | [] => check_case y && tail_ok tail y && wire_octets_ok tail y
      | _ => match parse_pkt (pkt ++ repeat 0 (N.to_nat plen - length pkt)) with
             | None => is_none (case_obs y)
             | Some h => match case_hdr y with Some h' => theader_eqb h h' | None => false end
                         && check_case y && tail_ok tail y && wire_octets_ok tail y
             end
      end
  end.

Fixpoint spec_top (rx : N) (x : case) : bool :=
  match x with
  | CaseRaw tr c _ h body _ _ _ obs rlen _ _ => spec_raw rx tr c h body obs rlen
  | CaseWire tr c _ h body _ _ _ _ _ _ obs rlen _ _ => spec_raw rx tr c h body obs rlen
  | CaseMsg tr c _ q _ _ obs rlen _ _ => spec_msg rx tr c q obs rlen
  | CaseChain tr c _ q _ _ _ obs rlen _ _ => negb (length (m_q q) =? 1)%nat || spec_msg rx tr c q obs rlen
  | CaseHit tr c _ q _ _ _ _ _ _ obs rlen _ _ => negb (length (m_q q) =? 1)%nat || spec_msg rx tr c q obs rlen
  | CaseRelax _ _ => true
    (* fewer than 12 octets: no header to answer to — the statement is silent, so is the server
       (judged on the packet's length alone: the oracle does not go through the translated parser) *)
  | CaseSweep tr id qd an ns ar runs =>
      sweep_ok (fun fl o => spec_raw rx tr sweep_cfg (mk_T_Header id fl qd an ns ar) (Some (sweep_body id fl)) (sweep_obs o) 12) runs 0
  | CaseBytes _ plen _ y => if (0 <? plen) && (plen <? 12) then is_none (case_obs y) else spec_top rx y
  end.

Definition spec_case (x : case) : bool :=
  match x with
  | CaseRelax rx y => spec_top rx y
  | _ => spec_top 0 x
  end.
