(* C06 — the byte path's OPT builder and the packet header parser, tied to the model through the
   functions srcgen translates from internal/wire. *)
From Sdns Require Import Common.Base Common.GoList Gen.C06 C06.Model C06.WireOpt.
Open Scope N_scope.

(* ------------------------------------------------------------------ *)
(* octets                                                              *)

Lemma be_bytes_length n v : length (be_bytes n v) = n.
Proof. revert v. induction n as [|n IH]; intros v; cbn; [reflexivity|]. rewrite app_length, IH. cbn. lia. Qed.

Lemma be_val_snoc l x : be_val (l ++ [x]) = be_val l * 256 + x.
Proof. unfold be_val. rewrite fold_left_app. reflexivity. Qed.

Lemma be_bytes_val bs : octets bs -> be_bytes (length bs) (be_val bs) = bs.
Proof.
  unfold octets. induction bs as [|x l IH] using rev_ind; intros H; [reflexivity|].
  apply Forall_app in H. destruct H as [Hl Hx]. inversion Hx as [|? ? Hx' _]; subst.
  rewrite app_length. cbn [length]. rewrite Nat.add_1_r. cbn [be_bytes]. rewrite be_val_snoc.
  assert (E1 : N.shiftr (be_val l * 256 + x) 8 = be_val l).
  { rewrite N.shiftr_div_pow2. change (2 ^ 8) with 256. rewrite N.div_add_l by lia. rewrite N.div_small by exact Hx'. lia. }
  assert (E2 : N.land (be_val l * 256 + x) 255 = x).
  { change 255 with (N.ones 8). rewrite N.land_ones. change (2 ^ 8) with 256.
    rewrite N.add_comm, N.mod_add by lia. apply N.mod_small. exact Hx'. }
  rewrite E1, E2, IH by exact Hl. reflexivity.
Qed.

Lemma put_be16_octets v : octets (go_put_be16 v).
Proof. unfold octets, go_put_be16. repeat constructor; apply N.mod_lt; lia. Qed.

Lemma octets_app a b : octets a -> octets b -> octets (a ++ b).
Proof. unfold octets. intros. apply Forall_app. auto. Qed.

(* ------------------------------------------------------------------ *)
(* the encoders                                                        *)

Definition raw_opt (code : N) (data : list N) : list N :=
  go_put_be16 code ++ go_put_be16 (N.of_nat (length data)) ++ data.

Lemma enc_eopt_of_bytes code bs : octets bs -> enc_eopt (eopt_of_bytes code bs) = raw_opt code bs.
Proof.
  intros H. unfold enc_eopt, eopt_of_bytes, raw_opt. cbn [e_code e_len e_data].
  rewrite Nat2N.id, be_bytes_val by exact H. reflexivity.
Qed.

Lemma enc_eopt_length e : N.of_nat (length (enc_eopt e)) = opt_option_hdr_len + e_len e.
Proof.
  unfold enc_eopt. rewrite !app_length, be_bytes_length. cbn [go_put_be16 length].
  change opt_option_hdr_len with 4. lia.
Qed.

Lemma enc_opts_app a b : enc_opts (a ++ b) = enc_opts a ++ enc_opts b.
Proof. apply flat_map_app. Qed.

Lemma enc_opts_length l : N.of_nat (length (enc_opts l)) = sumN (fun e => opt_option_hdr_len + e_len e) l.
Proof.
  induction l as [|e l IH]; [reflexivity|]. cbn [enc_opts flat_map sumN fold_right].
  rewrite app_length, Nat2N.inj_add, enc_eopt_length. fold (enc_opts l). rewrite IH. reflexivity.
Qed.

(* the encoded OPT is exactly as long as the model's size arithmetic says (Model.opt_len —
   what WireReady reserves and what WriteWire measures against the client's limit) *)
Lemma enc_opt_length_l xrc o : N.of_nat (length (enc_opt xrc o)) = opt_len o.
Proof.
  unfold enc_opt, opt_len. rewrite !app_length, !Nat2N.inj_add, enc_opts_length.
  cbn [go_put_be16 go_put_be32 length]. change opt_fixed_len with 11. lia.
Qed.

(* ------------------------------------------------------------------ *)
(* the translated builders                                             *)

Lemma len16 {A} (l : list A) : (Z.of_nat (length l) < 65536)%Z -> Z_to_uw two16 (go_len l) = N.of_nat (length l).
Proof.
  intros H. unfold Z_to_uw, go_len, two16. rewrite Z.mod_small by lia. lia.
Qed.

Lemma gen_AppendOption_l b code data :
  (Z.of_nat (length data) < 65536)%Z -> go_AppendOption b code data = b ++ raw_opt code data.
Proof. intros H. unfold go_AppendOption, raw_opt. rewrite len16 by exact H. rewrite <- !app_assoc. reflexivity. Qed.

Lemma gen_AppendOptionString_l b code data :
  (Z.of_nat (length data) < 65536)%Z -> go_AppendOptionString b code data = b ++ raw_opt code data.
Proof. intros H. unfold go_AppendOptionString, raw_opt. rewrite len16 by exact H. rewrite <- !app_assoc. reflexivity. Qed.

Lemma gen_AppendOptionEDE_l b info text :
  (2 + Z.of_nat (length text) < 65536)%Z ->
  go_AppendOptionEDE b info text = b ++ raw_opt lib_code_ede_wire (go_put_be16 info ++ text).
Proof.
  intros H. unfold go_AppendOptionEDE, raw_opt.
  assert (E : Z_to_uw two16 (2 + go_len text) = N.of_nat (length (go_put_be16 info ++ text))).
  { rewrite app_length. cbn [go_put_be16 length]. unfold Z_to_uw, go_len, two16. rewrite Z.mod_small by lia. lia. }
  rewrite E. rewrite <- !app_assoc. reflexivity.
Qed.

Definition opt_fixed (size : N) (do : bool) : list N :=
  [0] ++ go_put_be16 opt_rrtype ++ go_put_be16 size ++ go_put_be32 (if do then 32768 else 0).

Lemma gen_AppendOPTHeader_l body size do :
  go_AppendOPTHeader body size do = (body ++ opt_fixed size do ++ [0; 0], (go_len body + 9)%Z).
Proof.
  unfold go_AppendOPTHeader, opt_fixed, opt_rrtype.
  destruct do; cbv zeta; f_equal; rewrite <- ?app_assoc; try reflexivity;
    rewrite !go_len_app; unfold go_len; cbn [go_put_be16 go_put_be32 length]; lia.
Qed.

Lemma firstn_app_exact {A} (a b : list A) n : n = length a -> firstn n (a ++ b) = a.
Proof. intros ->. rewrite firstn_app, Nat.sub_diag, firstn_all. cbn. apply app_nil_r. Qed.
Lemma skipn_app_exact {A} (a b : list A) n : n = length a -> skipn n (a ++ b) = b.
Proof. intros ->. rewrite skipn_app, Nat.sub_diag, skipn_all. reflexivity. Qed.

Lemma gen_FinishOPT_l (pre opts : list N) :
  (Z.of_nat (length opts) < 65536)%Z ->
  go_FinishOPT (pre ++ [0; 0] ++ opts) (go_len pre)
  = pre ++ go_put_be16 (N.of_nat (length opts)) ++ opts.
Proof.
  intros H. unfold go_FinishOPT.
  assert (L : go_len (pre ++ [0; 0] ++ opts) = (go_len pre + 2 + go_len opts)%Z).
  { rewrite !go_len_app. unfold go_len. cbn [length]. lia. }
  rewrite L.
  assert (C : (go_len pre <? 0)%Z || (go_len pre + 2 + go_len opts <? go_len pre + 2)%Z = false).
  { unfold go_len. apply orb_false_iff. split; apply Z.ltb_ge; lia. }
  rewrite C.
  assert (V : Z_to_uw two16 (go_len pre + 2 + go_len opts - go_len pre - 2) = N.of_nat (length opts)).
  { unfold Z_to_uw, go_len, two16. rewrite Z.mod_small by lia. lia. }
  rewrite V. unfold go_copy_at, go_len. rewrite Nat2Z.id.
  set (v := go_put_be16 (N.of_nat (length opts))).
  assert (Lv : length v = 2%nat) by reflexivity.
  rewrite !app_length, Lv. cbn [length].
  replace (Nat.min (length pre + (2 + length opts) - length pre) 2) with 2%nat by lia.
  rewrite firstn_app_exact by reflexivity.
  rewrite (firstn_all2 (n := 2) v) by (rewrite Lv; lia).
  f_equal. f_equal. rewrite (app_assoc pre [0; 0] opts).
  apply skipn_app_exact. rewrite app_length. reflexivity.
Qed.

(* ------------------------------------------------------------------ *)
(* appendWireOPT = the encoding of the model's wire_opt                 *)

Definition opt_list (b : bool) (x : list N) : list N := if b then x else [].

Lemma append_wire_opt_raw body size do hc ck nsidstr nsid ka ede :
  let has_nsid := negb (match nsidstr with [] => true | _ => false end) && nsid in
  let opts := opt_list hc (raw_opt lib_code_cookie ck)
              ++ opt_list has_nsid (raw_opt lib_code_nsid nsidstr)
              ++ opt_list ka (raw_opt lib_code_keepalive_wire (go_put_be16 tcp_keepalive_units))
              ++ match ede with Some x => raw_opt lib_code_ede_wire (go_put_be16 (fst x) ++ snd x) | None => [] end in
  (Z.of_nat (length ck) < 65536)%Z -> (Z.of_nat (length nsidstr) < 65536)%Z ->
  (match ede with Some x => (2 + Z.of_nat (length (snd x)) < 65536)%Z | None => True end) ->
  (Z.of_nat (length opts) < 65536)%Z ->
  append_wire_opt body size do hc ck nsidstr nsid ka ede
  = body ++ opt_fixed size do ++ go_put_be16 (N.of_nat (length opts)) ++ opts.
Proof.
  intros has_nsid opts Hck Hns Hede Hlen. unfold append_wire_opt. rewrite gen_AppendOPTHeader_l.
  fold has_nsid. cbv beta iota.
  set (pre := body ++ opt_fixed size do).
  assert (Eoff : (go_len body + 9)%Z = go_len pre).
  { unfold pre. rewrite go_len_app. unfold go_len at 2. destruct do; reflexivity. }
  rewrite Eoff.
  replace (body ++ opt_fixed size do ++ [0; 0]) with (pre ++ [0; 0]) by (unfold pre; rewrite <- app_assoc; reflexivity).
  set (b0 := pre ++ [0; 0]).
  set (o1 := opt_list hc (raw_opt lib_code_cookie ck)).
  assert (E1 : (if hc then go_AppendOption b0 lib_code_cookie ck else b0) = b0 ++ o1).
  { unfold o1. destruct hc; cbn [opt_list]; [apply gen_AppendOption_l; exact Hck|symmetry; apply app_nil_r]. }
  rewrite E1.
  set (o2 := opt_list has_nsid (raw_opt lib_code_nsid nsidstr)).
  assert (E2 : (if has_nsid then go_AppendOptionString (b0 ++ o1) lib_code_nsid nsidstr else b0 ++ o1) = (b0 ++ o1) ++ o2).
  { unfold o2. destruct has_nsid; cbn [opt_list]; [apply gen_AppendOptionString_l; exact Hns|symmetry; apply app_nil_r]. }
  rewrite E2.
  set (o3 := opt_list ka (raw_opt lib_code_keepalive_wire (go_put_be16 tcp_keepalive_units))).
  assert (E3 : (if ka then go_AppendOption ((b0 ++ o1) ++ o2) lib_code_keepalive_wire (go_put_be16 tcp_keepalive_units)
                else (b0 ++ o1) ++ o2) = ((b0 ++ o1) ++ o2) ++ o3).
  { unfold o3. destruct ka; cbn [opt_list]; [apply gen_AppendOption_l; cbn; lia|symmetry; apply app_nil_r]. }
  rewrite E3.
  set (o4 := match ede with Some x => raw_opt lib_code_ede_wire (go_put_be16 (fst x) ++ snd x) | None => [] end).
  assert (E4 : match ede with Some (code, text) => go_AppendOptionEDE (((b0 ++ o1) ++ o2) ++ o3) code text
               | None => ((b0 ++ o1) ++ o2) ++ o3 end = (((b0 ++ o1) ++ o2) ++ o3) ++ o4).
  { unfold o4. destruct ede as [[i t]|]; [apply gen_AppendOptionEDE_l; exact Hede|symmetry; apply app_nil_r]. }
  rewrite E4.
  assert (Eall : (((b0 ++ o1) ++ o2) ++ o3) ++ o4 = pre ++ [0; 0] ++ opts).
  { unfold b0, opts. fold o1 o2 o3 o4. rewrite <- !app_assoc. reflexivity. }
  rewrite Eall. rewrite gen_FinishOPT_l by exact Hlen. unfold pre. rewrite <- app_assoc. reflexivity.
Qed.

(* the byte-level inputs of appendWireOPT describe the abstract configuration [c] *)
Record wire_inputs_ok (c : cfg) (ck nsidstr : list N) : Prop := {
  wi_ck_len : N.of_nat (length ck) = server_cookie_len;
  wi_ck_oct : octets ck;
  wi_ck_val : c_srv_cookie c = be_val ck;
  wi_ns_oct : octets nsidstr;
  wi_ns_len : (Z.of_nat (length nsidstr) < 65536)%Z;
  wi_ns_val : c_nsid c = match nsidstr with [] => None | _ => Some (eopt_of_bytes code_nsid nsidstr) end }.

Lemma enc_wire_opt c w ede :
  enc_opt 0 (wire_opt c w ede)
  = opt_fixed (w_resp w) (w_do w) ++ go_put_be16 (N.of_nat (length (enc_opts (o_opts (wire_opt c w ede)))))
    ++ enc_opts (o_opts (wire_opt c w ede)).
Proof.
  unfold enc_opt, opt_fixed, opt_ttl, wire_opt. cbn [o_size o_ver o_do o_z o_opts].
  rewrite <- !app_assoc. destruct (w_do w); reflexivity.
Qed.

(* FULL: for every writer state and every WireInfo, the octets appendWireOPT appends — computed by
   the translated internal/wire builders — are the wire form of the OPT the model's byte path
   attaches (Model.wire_opt), i.e. of the OPT WriteMsg would attach (wire_path_agrees) *)
Lemma append_wire_opt_is_model_l body c w ck nsidstr ede :
  wire_inputs_ok c ck nsidstr ->
  (match ede with Some x => octets (snd x) /\ (2 + Z.of_nat (length (snd x)) < 65536)%Z | None => True end) ->
  (Z.of_nat (length (enc_opts (o_opts (wire_opt c w (option_map ede_eopt ede))))) < 65536)%Z ->
  append_wire_opt body (w_resp w) (w_do w) (w_cookie w) ck nsidstr (w_nsid w) (w_ka w) ede
  = body ++ enc_opt 0 (wire_opt c w (option_map ede_eopt ede)).
Proof.
  intros [Hl Ho Hv Hno Hnl Hnv] Hede Hlen.
  assert (Eopts : enc_opts (o_opts (wire_opt c w (option_map ede_eopt ede)))
          = opt_list (w_cookie w) (raw_opt lib_code_cookie ck)
            ++ opt_list (negb (match nsidstr with [] => true | _ => false end) && w_nsid w) (raw_opt lib_code_nsid nsidstr)
            ++ opt_list (w_ka w) (raw_opt lib_code_keepalive_wire (go_put_be16 tcp_keepalive_units))
            ++ match ede with Some x => raw_opt lib_code_ede_wire (go_put_be16 (fst x) ++ snd x) | None => [] end).
  { unfold wire_opt. cbn [o_opts]. unfold own_opts. rewrite !enc_opts_app. rewrite <- !app_assoc. f_equal; [|f_equal; [|f_equal]].
    - destruct (w_cookie w); cbn [opt_list]; [|reflexivity]. cbn [enc_opts flat_map]. rewrite app_nil_r.
      assert (E : cookie_opt c = eopt_of_bytes code_cookie ck).
      { unfold cookie_opt, eopt_of_bytes. rewrite Hl, Hv. reflexivity. }
      rewrite E. apply enc_eopt_of_bytes. exact Ho.
    - rewrite Hnv. destruct nsidstr as [|x l]; cbn [negb andb opt_list]; [reflexivity|].
      destruct (w_nsid w); cbn [opt_list]; [|reflexivity]. cbn [enc_opts flat_map]. rewrite app_nil_r.
      apply enc_eopt_of_bytes. exact Hno.
    - destruct (w_ka w); reflexivity.
    - destruct ede as [[i t]|]; cbn [option_map]; [|reflexivity]. cbn [enc_opts flat_map fst snd]. rewrite app_nil_r.
      unfold ede_eopt. cbn [fst snd]. destruct Hede as [Ht _].
      change lib_code_ede_wire with code_ede. apply enc_eopt_of_bytes. apply octets_app; [apply put_be16_octets|exact Ht]. }
  rewrite enc_wire_opt, Eopts.
  rewrite Eopts in Hlen.
  apply append_wire_opt_raw; try assumption.
  - change server_cookie_len with 40 in Hl. lia.
  - destruct ede as [[i t]|]; [exact (proj2 Hede)|exact I].
Qed.

(* ------------------------------------------------------------------ *)
(* wire.ParseHeader                                                    *)

(* a packet of at least HeaderLen octets parses to the six big-endian words; anything shorter is
   refused (the listeners then stay silent) *)
Lemma gen_ParseHeader_l pkt :
  parse_pkt pkt =
  if (length pkt <? N.to_nat header_len)%nat then None
  else Some (mk_T_Header (go_be16 (firstn 2 pkt)) (go_be16 (firstn 2 (skipn 2 pkt))) (go_be16 (firstn 2 (skipn 4 pkt)))
                         (go_be16 (firstn 2 (skipn 6 pkt))) (go_be16 (firstn 2 (skipn 8 pkt))) (go_be16 (firstn 2 (skipn 10 pkt)))).
Proof.
  unfold parse_pkt, go_ParseHeader, go_len. change (N.to_nat header_len) with 12%nat.
  destruct (Nat.ltb_spec (length pkt) 12) as [H|H].
  - replace (Z.of_nat (length pkt) <? 12)%Z with true by (symmetry; apply Z.ltb_lt; lia). reflexivity.
  - replace (Z.of_nat (length pkt) <? 12)%Z with false by (symmetry; apply Z.ltb_ge; lia). reflexivity.
Qed.

Lemma parse_pkt_short pkt : (length pkt < 12)%nat -> parse_pkt pkt = None.
Proof. intros H. rewrite gen_ParseHeader_l. change (N.to_nat header_len) with 12%nat. apply Nat.ltb_lt in H. rewrite H. reflexivity. Qed.
