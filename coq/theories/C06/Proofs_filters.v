(* C06 — the edns writer's list filters, translated from the Go AST (session 5; srcgen `iface_cases`:
   dns.EDNS0 and dns.RR as sum types).  middleware/edns keepRelayable / stripECS / stripKeepalive /
   keepOPTOnly were hand-copied into Model.v (keep_relayable, strip_code code_ecs / code_keepalive,
   keep_opt_only); here the translated loops are proved to be list filters (gen_... lemmas, by induction
   over the generated Fixpoints, the range budget S (length s) always suffices) and, under the
   correspondence between an option's Go type and its code, to BE the model's functions.
   Not modelled by the translation: aliasing (keep := opts[:0] filters in place). *)
From Sdns Require Import Common.Base Common.GoList Gen.C06 C06.Model.
Open Scope Z_scope.

(* ---- the edns writer's filters, translated from the Go AST (session 5) ---- *)
Definition is_EDE (o : I_EDNS0) : bool := match o with I_EDNS0_of_EDNS0_EDE _ => true | _ => false end.
Definition is_SUBNET (o : I_EDNS0) : bool := match o with I_EDNS0_of_EDNS0_SUBNET _ => true | _ => false end.
Definition is_KA (o : I_EDNS0) : bool := match o with I_EDNS0_of_EDNS0_TCP_KEEPALIVE _ => true | _ => false end.
Definition is_OPT (x : I_RR) : bool := match x with I_RR_of_OPT _ => true | _ => false end.

Lemma idx_mid {A} (d : A) p x s : go_idx d (p ++ x :: s) (go_len p) = x.
Proof.
  rewrite go_idx_nth by apply go_len_nonneg. unfold go_len. rewrite Nat2Z.id.
  rewrite app_nth2 by lia. rewrite Nat.sub_diag. reflexivity.
Qed.
Lemma len_snoc {A} (p : list A) x : go_len (p ++ [x]) = go_len p + 1.
Proof. rewrite go_len_app. unfold go_len. cbn. lia. Qed.
Lemma ltb_mid {A} (p : list A) x s : (go_len p <? go_len (p ++ x :: s)) = true.
Proof. apply Z.ltb_lt. rewrite go_len_app, go_len_cons. pose proof (go_len_nonneg s). lia. Qed.
Lemma ltb_end {A} (p : list A) : (go_len p <? go_len (p ++ [])) = false.
Proof. rewrite app_nil_r. apply Z.ltb_irrefl. Qed.

Lemma keepRelayable_loop rest : forall pre fuel opts keep,
  (length rest < fuel)%nat ->
  go_keepRelayable_loop1 (pre ++ rest) fuel (go_len pre) opts keep = (GoNext, (opts, keep ++ filter is_EDE rest)).
Proof.
  induction rest as [|x r IH]; intros pre fuel opts keep Hf; destruct fuel as [|f]; cbn [length] in Hf; try lia.
  - cbn [go_keepRelayable_loop1]. rewrite ltb_end. cbn. rewrite app_nil_r. reflexivity.
  - cbn [go_keepRelayable_loop1]. rewrite ltb_mid, idx_mid.
    replace (go_len pre + 1) with (go_len (pre ++ [x])) by apply len_snoc.
    replace (pre ++ x :: r) with ((pre ++ [x]) ++ r) by (rewrite <- app_assoc; reflexivity).
    destruct x; cbn [is_EDE filter]; rewrite IH by lia; try reflexivity.
    rewrite <- app_assoc. reflexivity.
Qed.
Lemma gen_keepRelayable opts : go_keepRelayable opts = filter is_EDE opts.
Proof.
  unfold go_keepRelayable. change (go_slice_to opts 0) with (@nil I_EDNS0).
  pose proof (keepRelayable_loop opts [] (S (length opts)) opts [] ltac:(lia)) as H. cbn [app] in H.
  change (go_len (@nil I_EDNS0)) with 0 in H. rewrite H. reflexivity.
Qed.

Lemma stripECS_loop rest : forall pre fuel opts keep,
  (length rest < fuel)%nat ->
  go_stripECS_loop1 (pre ++ rest) fuel (go_len pre) opts keep = (GoNext, (opts, keep ++ filter (fun o => negb (is_SUBNET o)) rest)).
Proof.
  induction rest as [|x r IH]; intros pre fuel opts keep Hf; destruct fuel as [|f]; cbn [length] in Hf; try lia.
  - cbn [go_stripECS_loop1]. rewrite ltb_end. cbn. rewrite app_nil_r. reflexivity.
  - cbn [go_stripECS_loop1]. rewrite ltb_mid, idx_mid.
    replace (go_len pre + 1) with (go_len (pre ++ [x])) by apply len_snoc.
    replace (pre ++ x :: r) with ((pre ++ [x]) ++ r) by (rewrite <- app_assoc; reflexivity).
    destruct x; cbn [is_SUBNET filter negb]; rewrite IH by lia; try reflexivity;
      rewrite <- app_assoc; reflexivity.
Qed.
Lemma gen_stripECS opts : go_stripECS opts = filter (fun o => negb (is_SUBNET o)) opts.
Proof.
  unfold go_stripECS. change (go_slice_to opts 0) with (@nil I_EDNS0).
  pose proof (stripECS_loop opts [] (S (length opts)) opts [] ltac:(lia)) as H. cbn [app] in H.
  change (go_len (@nil I_EDNS0)) with 0 in H. rewrite H. reflexivity.
Qed.

Lemma stripKeepalive_loop rest : forall pre fuel opts keep,
  (length rest < fuel)%nat ->
  go_stripKeepalive_loop1 (pre ++ rest) fuel (go_len pre) opts keep = (GoNext, (opts, keep ++ filter (fun o => negb (is_KA o)) rest)).
Proof.
  induction rest as [|x r IH]; intros pre fuel opts keep Hf; destruct fuel as [|f]; cbn [length] in Hf; try lia.
  - cbn [go_stripKeepalive_loop1]. rewrite ltb_end. cbn. rewrite app_nil_r. reflexivity.
  - cbn [go_stripKeepalive_loop1]. rewrite ltb_mid, idx_mid.
    replace (go_len pre + 1) with (go_len (pre ++ [x])) by apply len_snoc.
    replace (pre ++ x :: r) with ((pre ++ [x]) ++ r) by (rewrite <- app_assoc; reflexivity).
    destruct x; cbn [is_KA filter negb]; rewrite IH by lia; try reflexivity;
      rewrite <- app_assoc; reflexivity.
Qed.
Lemma gen_stripKeepalive opts : go_stripKeepalive opts = filter (fun o => negb (is_KA o)) opts.
Proof.
  unfold go_stripKeepalive. change (go_slice_to opts 0) with (@nil I_EDNS0).
  pose proof (stripKeepalive_loop opts [] (S (length opts)) opts [] ltac:(lia)) as H. cbn [app] in H.
  change (go_len (@nil I_EDNS0)) with 0 in H. rewrite H. reflexivity.
Qed.

(* keepOPTOnly: the FIRST OPT of the section, alone *)
Fixpoint first_opt (l : list I_RR) : list I_RR :=
  match l with
  | [] => []
  | I_RR_of_OPT v :: _ => [I_RR_of_OPT v]
  | _ :: r => first_opt r
  end.
Lemma keepOPTOnly_loop rest : forall pre fuel extra,
  (length rest < fuel)%nat ->
  go_keepOPTOnly_loop1 (pre ++ rest) fuel (go_len pre) extra
  = match first_opt rest with [] => (GoNext, extra) | l => (GoRet l, extra) end.
Proof.
  induction rest as [|x r IH]; intros pre fuel extra Hf; destruct fuel as [|f]; cbn [length] in Hf; try lia.
  - cbn [go_keepOPTOnly_loop1]. rewrite ltb_end. reflexivity.
  - cbn [go_keepOPTOnly_loop1]. rewrite ltb_mid, idx_mid.
    replace (go_len pre + 1) with (go_len (pre ++ [x])) by apply len_snoc.
    replace (pre ++ x :: r) with ((pre ++ [x]) ++ r) by (rewrite <- app_assoc; reflexivity).
    destruct x; cbn [first_opt]; try (rewrite IH by lia; reflexivity). reflexivity.
Qed.
Lemma gen_keepOPTOnly extra : go_keepOPTOnly extra = first_opt extra.
Proof.
  unfold go_keepOPTOnly. pose proof (keepOPTOnly_loop extra [] (S (length extra)) extra ltac:(lia)) as H. cbn [app] in H.
  change (go_len (@nil I_RR)) with 0 in H. rewrite H.
  destruct (first_opt extra); reflexivity.
Qed.

(* ---- the translated filters ARE the model's, under the correspondence between an option's Go type and
   its code (the explicit assumption of the check: a code-8 option is an *EDNS0_SUBNET, code 11 an
   *EDNS0_TCP_KEEPALIVE, code 15 an *EDNS0_EDE — as for any message decoded from the wire) ---- *)
Section Abs.
  Variable abs : I_EDNS0 -> eopt.
  Hypothesis abs_ede : forall o, (e_code (abs o) =? code_ede)%N = is_EDE o.
  Hypothesis abs_ecs : forall o, (e_code (abs o) =? code_ecs)%N = is_SUBNET o.
  Hypothesis abs_ka : forall o, (e_code (abs o) =? code_keepalive)%N = is_KA o.

  Lemma map_filter_abs (f : I_EDNS0 -> bool) (g : eopt -> bool) l :
    (forall o, g (abs o) = f o) -> map abs (filter f l) = filter g (map abs l).
  Proof.
    intros H. induction l as [|x r IH]; cbn; [reflexivity|]. rewrite H. destruct (f x); cbn; rewrite IH; reflexivity.
  Qed.
  Lemma keepRelayable_is_model l : map abs (go_keepRelayable l) = keep_relayable (map abs l).
  Proof. rewrite gen_keepRelayable. unfold keep_relayable. apply map_filter_abs. exact abs_ede. Qed.
  Lemma stripECS_is_model l : map abs (go_stripECS l) = strip_code code_ecs (map abs l).
  Proof. rewrite gen_stripECS. unfold strip_code. apply map_filter_abs. intros o. rewrite abs_ecs. reflexivity. Qed.
  Lemma stripKeepalive_is_model l : map abs (go_stripKeepalive l) = strip_code code_keepalive (map abs l).
  Proof. rewrite gen_stripKeepalive. unfold strip_code. apply map_filter_abs. intros o. rewrite abs_ka. reflexivity. Qed.

  (* the additional section: an OPT record is XO / XReq, anything else XR *)
  Variable absx : I_RR -> xrr.
  Hypothesis absx_opt : forall x, is_opt (absx x) = is_OPT x.
  Lemma keepOPTOnly_is_model l : map absx (go_keepOPTOnly l) = keep_opt_only (map absx l).
  Proof.
    rewrite gen_keepOPTOnly. induction l as [|x r IH]; [reflexivity|]. cbn [map keep_opt_only].
    pose proof (absx_opt x) as Hx. destruct x; cbn [first_opt is_OPT] in *; destruct (absx _) eqn:E; cbn in Hx; try discriminate;
      try exact IH; cbn [map]; rewrite E; reflexivity.
  Qed.
End Abs.

(* non-vacuity: an abstraction that respects the correspondence exists, and the translated filters
   compute on a concrete option list / additional section *)
Definition ex_abs (o : I_EDNS0) : eopt :=
  match o with
  | I_EDNS0_of_EDNS0_EDE v => mk_eopt 15 (2 + N.of_nat (length (T_EDNS0_EDE_ExtraText v))) (T_EDNS0_EDE_InfoCode v)
  | I_EDNS0_of_EDNS0_SUBNET _ => mk_eopt 8 0 0
  | I_EDNS0_of_EDNS0_TCP_KEEPALIVE _ => mk_eopt 11 0 0
  | I_EDNS0_of_EDNS0_COOKIE _ => mk_eopt 10 0 0
  | I_EDNS0_of_EDNS0_NSID _ => mk_eopt 3 0 0
  | I_EDNS0_other tag => mk_eopt 65001 0 tag
  | I_EDNS0_nil => mk_eopt 65000 0 0
  end.
Definition ex_absx (x : I_RR) : xrr :=
  match x with
  | I_RR_of_OPT v => XO (mk_opt 0 (T_RR_Header_Class (T_OPT_Hdr v)) false 0 (map ex_abs (T_OPT_Option v)))
  | _ => XR (mk_rr 0 0 1 1 0 0 [])
  end.
Example ex_filters :
  (forall o, (e_code (ex_abs o) =? code_ede)%N = is_EDE o)
  /\ (forall o, (e_code (ex_abs o) =? code_ecs)%N = is_SUBNET o)
  /\ (forall o, (e_code (ex_abs o) =? code_keepalive)%N = is_KA o)
  /\ (forall x, is_opt (ex_absx x) = is_OPT x)
  /\ let ecs := I_EDNS0_of_EDNS0_SUBNET (mk_T_EDNS0_SUBNET 8 1 24 0 [192; 0; 2; 0]%N) in
     let ede := I_EDNS0_of_EDNS0_EDE (mk_T_EDNS0_EDE 3 []) in
     let ka := I_EDNS0_of_EDNS0_TCP_KEEPALIVE (mk_T_EDNS0_TCP_KEEPALIVE 11 80 2) in
     let ck := I_EDNS0_of_EDNS0_COOKIE (mk_T_EDNS0_COOKIE 10 []) in
     go_stripECS [ecs; ede; ka; ck] = [ede; ka; ck] /\ go_stripKeepalive [ecs; ede; ka; ck] = [ecs; ede; ck]
     /\ go_keepRelayable [ecs; ede; ka; ck] = [ede]
     /\ go_keepOPTOnly [I_RR_other 1 zero_T_RR_Header; I_RR_of_OPT (mk_T_OPT zero_T_RR_Header [ede]); I_RR_of_OPT zero_T_OPT]
        = [I_RR_of_OPT (mk_T_OPT zero_T_RR_Header [ede])].
Proof.
  split; [intros []; reflexivity|]. split; [intros []; reflexivity|]. split; [intros []; reflexivity|].
  split; [intros []; reflexivity|]. cbv zeta. repeat split; reflexivity.
Qed.

(* statements of Properties.v proved here (Properties.v holds only `exact`) *)
Open Scope N_scope.
Lemma edns_filters_are_the_translated_code_l :
  forall (abs : I_EDNS0 -> eopt) (absx : I_RR -> xrr),
    (forall o, (e_code (abs o) =? code_ede) = is_EDE o) ->
    (forall o, (e_code (abs o) =? code_ecs) = is_SUBNET o) ->
    (forall o, (e_code (abs o) =? code_keepalive) = is_KA o) ->
    (forall x, is_opt (absx x) = is_OPT x) ->
    (forall l, map abs (go_keepRelayable l) = keep_relayable (map abs l))
    /\ (forall l, map abs (go_stripECS l) = strip_code code_ecs (map abs l))
    /\ (forall l, map abs (go_stripKeepalive l) = strip_code code_keepalive (map abs l))
    /\ (forall l, map absx (go_keepOPTOnly l) = keep_opt_only (map absx l)).
Proof.
intros abs absx H1 H2 H3 H4. split; [intros; apply keepRelayable_is_model; assumption|].
  split; [intros; apply stripECS_is_model; assumption|].
  split; [intros; apply stripKeepalive_is_model; assumption|intros; apply keepOPTOnly_is_model; assumption].
Qed.
