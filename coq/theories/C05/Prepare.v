(* C05 — definitions for the tie of the TRANSLATED cache.prepareWireServe (Gen.C05.go_prepareWireServe, with
   wire.ParseHeader / ParseQuestion / ParseRR / SkipName) to the abstract admission verdict of Verdict.v: the record
   walk stated with the translated wire.ParseRR itself, what the loop accumulates on the type list, the body
   (rcode + record types per section) a walk describes, the flag byte.  No proofs (Proofs_prepare.v). *)
From Coq Require Import List Bool NArith ZArith Lia.
Import ListNotations.
From Sdns Require Import Common.Base Common.GoList Gen.C05 C05.Chase C05.Verdict.
Open Scope N_scope.

(* the record walk: n records from [off], their types and the offset behind the last one *)
Fixpoint rr_types (fuel : nat) (n : nat) (body : list N) (off : Z) : option (list N * Z) :=
  match n with
  | O => Some ([], off)
  | S k =>
      match go_ParseRR fuel body off with
      | Some (rr, true) =>
          match rr_types fuel k body (T_wire_RR_End rr) with
          | Some (ts, e) => Some (T_wire_RR_Type rr :: ts, e)
          | None => None
          end
      | _ => None
      end
  end.

(* what the loop accumulates, on the type list *)
Fixpoint walk_model (an answered : Z) (qtype : N) (i : Z) (ts : list N) (st : N * bool * bool) : N * bool * bool :=
  match ts with
  | [] => st
  | t :: r =>
      let '(fl, hq, hc) := st in
      let fl' := if (i <? answered)%Z && ((t =? 46) || (t =? 47) || (t =? 50)) then N.lor fl 2 else fl in
      let hq' := if (i <? an)%Z && (t =? qtype) then true else hq in
      let hc' := if (i <? an)%Z && (t =? 5) then true else hc in
      walk_model an answered qtype (i + 1)%Z r (fl', hq', hc')
  end.

(* the accumulator against the sections: answer = the first an types, authority = up to answered *)
Definition tyrec (t : N) : rrec N := mk_rrec N t 0 0 0.
Definition is_dnssec_ty (t : N) : bool := (t =? 46) || (t =? 47) || (t =? 50).

(* the body the walk describes: rcode from the header, sections split by the counts *)
Definition body_of_types (h : T_Header) (ts : list N) : vbody N :=
  let an := N.to_nat (T_Header_ANCount h) in
  let ns := N.to_nat (T_Header_NSCount h) in
  mk_vbody N (N.land (T_Header_Flags h) 15) false
    (map tyrec (firstn an ts)) (map tyrec (firstn ns (skipn an ts))) (map tyrec (skipn (an + ns) ts)).

Definition vflags_byte (f : vflags) : N :=
  (if vf_eligible f then 1 else 0) + (if vf_dnssec f then 2 else 0) + (if vf_chase_safe f then 4 else 0).


(* the stored octets of a real entry against the body the library decodes from them: the translated parsers walk
   the whole body, and the types they meet in answer + authority are the decoded records' types *)
Fixpoint types_eqb (a b : list N) : bool :=
  match a, b with
  | [], [] => true
  | x :: xs, y :: ys => (x =? y) && types_eqb xs ys
  | _, _ => false
  end.
Definition stored_walk_ok (fuel : nat) (bytes : list N) (qtype : N) (full : vbody N) : bool :=
  match go_ParseHeader bytes with
  | (h, true) =>
      (T_Header_QDCount h =? 1) &&
      match go_ParseQuestion fuel bytes 12 with
      | Some (q, true) =>
          (T_wire_Question_Qtype q =? qtype) &&
          let an := N.to_nat (T_Header_ANCount h) in
          let ns := N.to_nat (T_Header_NSCount h) in
          match rr_types fuel (an + ns + N.to_nat (T_Header_ARCount h)) bytes (T_wire_Question_End q) with
          | Some (ts, e) =>
              (e =? go_len bytes)%Z && (N.land (T_Header_Flags h) 15 =? vb_rcode N full) &&
              types_eqb (firstn an ts) (map (r_type N) (vb_an N full)) &&
              types_eqb (firstn ns (skipn an ts)) (map (r_type N) (vb_ns N full))
          | None => false
          end
      | _ => false
      end
  | _ => false
  end.

(* ---- a decoded message (the translated dns.Msg with dns.RR as a sum type) as Verdict.v's body, for the tie of
   the translated dnsutil.ClearDNSSEC (Proofs_cleardnssec.v) ---- *)
(* the record type a value stands for: fixed by the dynamic Go type for the listed ones, the header's otherwise *)
Definition rr_type (r : I_RR) : N :=
  match r with
  | I_RR_nil => 0
  | I_RR_of_RRSIG _ => 46
  | I_RR_of_NSEC _ => 47
  | I_RR_of_NSEC3 _ => 50
  | I_RR_other _ h => T_RR_Header_Rrtype h
  end.
Definition rr_abs (r : I_RR) : rrec N := mk_rrec N (rr_type r) 0 0 0.
(* the library's invariant: a record whose Go type is none of *RRSIG / *NSEC / *NSEC3 does not claim one of
   their type numbers in its header (what dns.TypeToRR guarantees for every record the library builds) *)
Definition rr_typed (r : I_RR) : Prop :=
  match r with I_RR_other _ h => is_dnssec (T_RR_Header_Rrtype h) = false | _ => True end.
Definition msg_body (m : T_Msg) : vbody N :=
  mk_vbody N (Z.to_N (T_MsgHdr_Rcode (T_Msg_MsgHdr m))) (T_MsgHdr_AuthenticatedData (T_Msg_MsgHdr m))
    (map rr_abs (T_Msg_Answer m)) (map rr_abs (T_Msg_Ns m)) (map rr_abs (T_Msg_Extra m)).

