(* C05 — lemmas: byte/slice arithmetic, header-word round trip, the name loop and the
   option walk of ParseWire against the library model, soundness of the strict
   admission, totality of a refusal, fuel sufficiency, accept-table agreement. *)
From Sdns Require Import Common.Base Gen.C05 C05.Model.
Open Scope N_scope.

(* ------------------------------------------------------------------ bytes *)
Definition bytes_ok (raw : list N) : Prop := Forall (fun b => b < 256) raw.

Lemma byte_at_lt raw off : bytes_ok raw -> byte_at raw off < 256.
Proof.
  intros H. unfold byte_at. destruct (nth_in_or_default (N.to_nat off) raw 0) as [Hin | Hd]; [|rewrite Hd; lia].
  unfold bytes_ok in H. rewrite Forall_forall in H. exact (H _ Hin).
Qed.
Lemma be16_lt raw off : bytes_ok raw -> be16 raw off < 65536.
Proof. intros H. unfold be16. pose proof (byte_at_lt raw off H). pose proof (byte_at_lt raw (off + 1) H). lia. Qed.

Lemma blen_nat raw : N.to_nat (blen raw) = length raw.
Proof. unfold blen. apply Nat2N.id. Qed.

Lemma firstn_add {A} (a b : nat) (l : list A) : firstn (a + b) l = firstn a l ++ firstn b (skipn a l).
Proof.
  revert l. induction a as [|a IH]; intros l; cbn; [reflexivity|].
  destruct l as [|x l]; cbn; [now rewrite firstn_nil|]. now rewrite IH.
Qed.
Lemma skipn_add {A} (a b : nat) (l : list A) : skipn (a + b) l = skipn b (skipn a l).
Proof.
  revert l. induction a as [|a IH]; intros l; cbn; [reflexivity|].
  destruct l as [|x l]; cbn; [now rewrite skipn_nil|]. apply IH.
Qed.

Lemma slice_app raw off a b : slice raw off (a + b) = slice raw off a ++ slice raw (off + a) b.
Proof.
  unfold slice. rewrite !N2Nat.inj_add. rewrite firstn_add. f_equal. now rewrite skipn_add.
Qed.
Lemma slice_length raw off n : off + n <= blen raw -> blen (slice raw off n) = n.
Proof.
  intros H. unfold slice, blen in *. rewrite firstn_length, skipn_length. lia.
Qed.
Lemma skipn_nth_cons {A} (d : A) n (l : list A) : (n < length l)%nat -> skipn n l = nth n l d :: skipn (S n) l.
Proof.
  revert l. induction n as [|n IH]; intros l H; destruct l as [|x l]; cbn in *; try lia; [reflexivity|].
  apply IH. lia.
Qed.
Lemma slice_one raw off : off < blen raw -> slice raw off 1 = [byte_at raw off].
Proof.
  intros H. unfold slice, byte_at, blen in *.
  rewrite (skipn_nth_cons 0 (N.to_nat off) raw) by lia. reflexivity.
Qed.
Lemma slice_cons raw off n : off < blen raw -> slice raw off (1 + n) = byte_at raw off :: slice raw (off + 1) n.
Proof. intros H. rewrite slice_app, slice_one by exact H. reflexivity. Qed.
Lemma slice_zero raw off : slice raw off 0 = [].
Proof. reflexivity. Qed.

Lemma nth_firstn_lt {A} (d : A) i n (l : list A) : (i < n)%nat -> nth i (firstn n l) d = nth i l d.
Proof.
  revert i l. induction n as [|n IH]; intros i l H; [lia|].
  destruct l as [|x l]; [now rewrite firstn_nil|]. destruct i as [|i]; cbn; [reflexivity|]. apply IH. lia.
Qed.
Lemma nth_skipn_add {A} (d : A) i n (l : list A) : nth i (skipn n l) d = nth (n + i) l d.
Proof.
  revert l. induction n as [|n IH]; intros l; [reflexivity|].
  destruct l as [|x l]; cbn; [now destruct i|]. apply IH.
Qed.
Lemma byte_at_slice raw off n i : i < n -> byte_at (slice raw off n) i = byte_at raw (off + i).
Proof.
  intros H. unfold byte_at, slice.
  rewrite nth_firstn_lt by lia. rewrite nth_skipn_add. f_equal. lia.
Qed.
Lemma be16_slice raw off n i : i + 1 < n -> be16 (slice raw off n) i = be16 raw (off + i).
Proof. intros H. unfold be16. rewrite !byte_at_slice by lia. now rewrite N.add_assoc. Qed.

Lemma firstn_slice raw off n m : n <= m -> firstn (N.to_nat n) (slice raw off m) = slice raw off n.
Proof. intros H. unfold slice. rewrite firstn_firstn. f_equal. lia. Qed.

(* ------------------------------------------------------------------ header word *)
Definition Nrange (n : nat) : list N := map N.of_nat (seq 0 n).
Lemma Nrange_in n x : x < N.of_nat n -> In x (Nrange n).
Proof.
  intros H. unfold Nrange. apply in_map_iff. exists (N.to_nat x). split; [apply N2Nat.id|].
  apply in_seq. lia.
Qed.
(* a predicate on 16-bit words checked on all of them, byte by byte *)
Definition all16 (p : N -> bool) : bool :=
  forallb (fun hi => forallb (fun lo => p (hi * 256 + lo)) (Nrange 256)) (Nrange 256).
Lemma all16_spec p : all16 p = true -> forall x, x < 65536 -> p x = true.
Proof.
  intros A x H. unfold all16 in A. rewrite forallb_forall in A.
  assert (H1 : x / 256 < N.of_nat 256) by (change (N.of_nat 256) with 256; lia).
  assert (H2 : x mod 256 < N.of_nat 256) by (change (N.of_nat 256) with 256; lia).
  specialize (A _ (Nrange_in 256 _ H1)). rewrite forallb_forall in A.
  specialize (A _ (Nrange_in 256 _ H2)).
  replace (x / 256 * 256 + x mod 256) with x in A by lia. exact A.
Qed.

Definition hdr_of_bits (bits : N) (rcode : N) : lmsg :=
  mk_lmsg 0 (bit bits 32768) (N.land (N.shiftr bits 11) 15) (bit bits 1024) (bit bits 512)
          (bit bits 256) (bit bits 128) (bit bits 64) (bit bits 32) (bit bits 16) rcode [] [] [] [].

Definition bits_roundtrip_b (bits : N) : bool := msg_bits (hdr_of_bits bits (N.land bits 15)) =? bits.
Lemma bits_roundtrip_all : all16 bits_roundtrip_b = true.
Proof. vm_compute. reflexivity. Qed.
Lemma bits_roundtrip bits : bits < 65536 -> msg_bits (hdr_of_bits bits (N.land bits 15)) = bits.
Proof.
  intros H. pose proof (all16_spec _ bits_roundtrip_all bits H) as A.
  unfold bits_roundtrip_b in A. now apply N.eqb_eq in A.
Qed.

(* OPT TTL word: extended rcode, version, flags *)
Lemma land_shiftr_mask t : N.shiftr (N.land t 16711680) 16 = (t / 65536) mod 256.
Proof.
  rewrite N.shiftr_land. change (N.shiftr 16711680 16) with (N.ones 8).
  rewrite N.land_ones. rewrite N.shiftr_div_pow2. reflexivity.
Qed.
Lemma land_shiftr_mask24 t : N.shiftr (N.land t 4278190080) 24 = (t / 16777216) mod 256.
Proof.
  rewrite N.shiftr_land. change (N.shiftr 4278190080 24) with (N.ones 8).
  rewrite N.land_ones. rewrite N.shiftr_div_pow2. reflexivity.
Qed.
Lemma land_low16 t m : m < 65536 -> N.land t m = N.land (t mod 65536) m.
Proof.
  intros H. change 65536 with (2 ^ 16). rewrite <- N.land_ones. rewrite <- N.land_assoc.
  f_equal. rewrite N.land_comm. rewrite N.land_ones. rewrite N.mod_small; [reflexivity|exact H].
Qed.
Definition do_bit_b (fl : N) : bool := Bool.eqb (N.land fl 32768 =? 32768) (negb (N.land fl 32768 =? 0)).
Lemma do_bit_all : all16 do_bit_b = true.
Proof. vm_compute. reflexivity. Qed.
Lemma do_bit fl : fl < 65536 -> (N.land fl 32768 =? 32768) = negb (N.land fl 32768 =? 0).
Proof.
  intros H. pose proof (all16_spec _ do_bit_all fl H) as A.
  unfold do_bit_b in A. now apply Bool.eqb_prop in A.
Qed.

Lemma ttl_facts raw off r : bytes_ok raw -> byte_at raw off = 0 -> rr_ttl r = be32 raw off ->
  opt_ext_rcode r = 0 /\
  opt_version r = byte_at raw (off + 1) /\
  opt_do r = negb (N.land (be16 raw (off + 2)) 32768 =? 0).
Proof.
  intros Hb H0 Hr. unfold opt_ext_rcode, opt_version, opt_do. rewrite Hr. set (ttl := be32 raw off).
  pose proof (byte_at_lt raw (off + 1) Hb) as Hv. pose proof (be16_lt raw (off + 2) Hb) as Hf.
  assert (E : ttl = byte_at raw (off + 1) * 65536 + be16 raw (off + 2)).
  { unfold ttl, be32. unfold be16 at 1. rewrite H0. lia. }
  rewrite land_shiftr_mask24, land_shiftr_mask. rewrite (land_low16 ttl 32768) by lia.
  assert (ttl / 16777216 = 0) by (apply N.div_small; lia).
  assert (ttl / 65536 = byte_at raw (off + 1)) by (rewrite E; lia).
  assert (ttl mod 65536 = be16 raw (off + 2)) by (rewrite E; lia).
  repeat split.
  - rewrite H. reflexivity.
  - rewrite H1. apply N.mod_small. exact Hv.
  - rewrite H2. apply do_bit. exact Hf.
Qed.

(* ------------------------------------------------------------------ the question name *)
Lemma pw_name_bounds : forall fuel raw off e, pw_name fuel raw off = Ok e -> off < e /\ e <= blen raw.
Proof.
  induction fuel as [|k IH]; intros raw off e H; cbn in H; [discriminate|].
  destruct (blen raw <=? off) eqn:E1; [discriminate|]. apply N.leb_gt in E1.
  destruct (byte_at raw off =? 0) eqn:E2.
  - inversion H; subst. lia.
  - destruct (N.land (byte_at raw off) pw_label_mask =? 0); cbn [negb] in H; [|discriminate].
    destruct (blen raw <? off + 1 + byte_at raw off) eqn:E4; [discriminate|].
    apply IH in H. lia.
Qed.

Lemma pw_name_lib : forall fuel raw off e,
  pw_name fuel raw off = Ok e ->
  forall fuel' budget acc, (fuel <= fuel')%nat -> (Z.of_N (e - off) - 1 < budget)%Z ->
  exists ls, lib_name_loop fuel' raw off budget 0 0 acc = LOk (acc ++ ls, e)
          /\ encode_labels ls = slice raw off (e - off).
Proof.
  induction fuel as [|k IH]; intros raw off e H fuel' budget acc Hf Hb; cbn in H; [discriminate|].
  destruct fuel' as [|k']; [lia|]. cbn [lib_name_loop].
  destruct (blen raw <=? off) eqn:E1; [discriminate|]. apply N.leb_gt in E1.
  destruct (byte_at raw off =? 0) eqn:E2.
  - inversion H; subst e. apply N.eqb_eq in E2. rewrite E2. cbn.
    exists []. rewrite app_nil_r. split; [reflexivity|].
    replace (off + 1 - off) with 1 by lia. rewrite slice_one by exact E1. now rewrite E2.
  - unfold pw_label_mask in H.
    destruct (N.land (byte_at raw off) 192 =? 0) eqn:E3; cbn [negb] in H; [|discriminate].
    destruct (blen raw <? off + 1 + byte_at raw off) eqn:E4; [discriminate|].
    pose proof (pw_name_bounds _ _ _ _ H) as [B1 B2]. apply N.ltb_ge in E4.
    cbn zeta.
    set (c := byte_at raw off) in *.
    destruct ((budget - (Z.of_N c + 1) <=? 0)%Z) eqn:E5; [lia|].
    destruct (IH raw (off + 1 + c) e H k' (budget - (Z.of_N c + 1))%Z (acc ++ [slice raw (off + 1) c]))
      as [ls [L1 L2]]; [lia|lia|].
    exists (slice raw (off + 1) c :: ls). rewrite L1. rewrite <- app_assoc. split; [reflexivity|].
    cbn [encode_labels]. rewrite L2. rewrite slice_length by lia.
    replace (e - off) with (1 + (c + (e - (off + 1 + c)))) by lia.
    rewrite slice_cons by exact E1. rewrite slice_app. reflexivity.
Qed.

(* ------------------------------------------------------------------ the option walk *)
Local Arguments firstn : simpl never.
Definition abs_cookie (raw : list N) (a : optfacts) : list N :=
  if o_cookie_len a =? 0 then [] else slice raw (o_cookie_off a) (o_cookie_len a).
Definition cookie_fn (acc : list N) (o : lopt) : list N :=
  if (lo_code o =? EDNS0COOKIE) && (8 <=? blen (lo_data o)) then firstn 8 (lo_data o) else acc.

Lemma no_cookie_fold os : cookie_count os = 0%nat -> forall acc, fold_left cookie_fn os acc = acc.
Proof.
  unfold cookie_count. induction os as [|o os IH]; intros H acc; [reflexivity|].
  cbn in H. cbn [fold_left]. unfold cookie_fn at 2.
  destruct (lo_code o =? EDNS0COOKIE); cbn in *; [discriminate|]. now apply IH.
Qed.
Lemma no_cookie_find os : cookie_count os = 0%nat -> msg_cookie_echo os = [].
Proof.
  unfold cookie_count, msg_cookie_echo. induction os as [|o os IH]; intros H; [reflexivity|].
  cbn in H. cbn [find]. destruct (lo_code o =? EDNS0COOKIE); cbn in *; [discriminate|]. now apply IH.
Qed.

Ltac unfold_consts :=
  unfold EDNS0COOKIE, EDNS0NSID, EDNS0SUBNET, EDNS0PADDING, EDNS0TCPKEEPALIVE, EDNS0LLQ, EDNS0UL,
         EDNS0EXPIRE, EDNS0EDE, EDNS0ZONEVERSION, EDNS0REPORTING,
         opt_option_hdr_len, po_cookie_min, po_cookie_max, po_ecs_min, po_v4_mask_max, po_v4_scope_max,
         po_v6_mask_max, po_v6_scope_max, po_ka_len_a, po_ka_len_b in *.

Definition opts_rel (raw : list N) (a a' : optfacts) (os : list lopt) : Prop :=
  o_nsid a' = o_nsid a || has_code EDNS0NSID os
  /\ o_ecs a' = o_ecs a || has_code EDNS0SUBNET os
  /\ o_ka a' = o_ka a || has_code EDNS0TCPKEEPALIVE os
  /\ (o_cookie_len a <> 0 ->
        cookie_count os = 0%nat /\ o_cookie_off a' = o_cookie_off a /\ o_cookie_len a' = o_cookie_len a)
  /\ (o_cookie_len a = 0 ->
        (cookie_count os <= 1)%nat
        /\ abs_cookie raw a' = msg_cookie_echo os
        /\ firstn 8 (abs_cookie raw a') = fold_left cookie_fn os []
        /\ (o_cookie_len a' = 0 \/ 8 <= o_cookie_len a')).

(* prepending an option that is not a cookie and sets at most the flag it names *)
Lemma opts_rel_other raw a a1 a' code b os :
  code <> EDNS0COOKIE ->
  o_cookie_off a1 = o_cookie_off a -> o_cookie_len a1 = o_cookie_len a ->
  o_nsid a1 = o_nsid a || (code =? EDNS0NSID) ->
  o_ecs a1 = o_ecs a || (code =? EDNS0SUBNET) ->
  o_ka a1 = o_ka a || (code =? EDNS0TCPKEEPALIVE) ->
  opts_rel raw a1 a' os -> opts_rel raw a a' (mk_lopt code b :: os).
Proof.
  intros Hc Ho Hl Hn He Hk (R1 & R2 & R3 & R4 & R5).
  assert (Ec : (code =? EDNS0COOKIE) = false) by now apply N.eqb_neq.
  unfold opts_rel, has_code. cbn [existsb lo_code].
  repeat split.
  - rewrite R1, Hn. now rewrite orb_assoc.
  - rewrite R2, He. now rewrite orb_assoc.
  - rewrite R3, Hk. now rewrite orb_assoc.
  - unfold cookie_count. cbn [filter lo_code]. rewrite Ec. apply R4. congruence.
  - destruct (R4 ltac:(congruence)) as (_ & E & _). congruence.
  - destruct (R4 ltac:(congruence)) as (_ & _ & E). congruence.
  - unfold cookie_count. cbn [filter lo_code]. rewrite Ec. apply R5. congruence.
  - unfold msg_cookie_echo. cbn [find lo_code]. rewrite Ec. cbn [andb]. apply R5. congruence.
  - cbn [fold_left]. unfold cookie_fn at 2. cbn [lo_code]. rewrite Ec. cbn [andb]. apply R5. congruence.
  - apply R5. congruence.
Qed.

Lemma pw_opts_lib : forall fuel raw off endo a a',
  pw_opts fuel raw off endo a = Ok a' -> endo <= blen raw ->
  exists os, lib_opts fuel raw off endo = LOk os /\ opts_rel raw a a' os.
Proof.
  induction fuel as [|k IH]; intros raw off endo a a' H Hend; cbn [pw_opts] in H; [discriminate|].
  cbn [lib_opts].
  destruct (endo <=? off) eqn:E0.
  { destruct (off =? endo); [|discriminate]. inversion H; subst a'. exists []. split; [reflexivity|].
    unfold opts_rel, has_code, cookie_count, msg_cookie_echo, abs_cookie; cbn -[firstn].
    rewrite !orb_false_r. repeat split; intros; try reflexivity; try lia.
    - rewrite H0. reflexivity.
    - rewrite H0. reflexivity. }
  apply N.leb_gt in E0.
  unfold opt_option_hdr_len in H. cbn zeta in H.
  destruct (endo <? off + 4) eqn:E1; [discriminate|]. apply N.ltb_ge in E1.
  set (code := be16 raw off) in *. set (optlen := be16 raw (off + 2)) in *.
  cbn zeta. fold code optlen.
  destruct (endo <? off + 4 + optlen) eqn:E2; [discriminate|]. apply N.ltb_ge in E2.
  set (b := slice raw (off + 4) optlen).
  assert (Hb : blen b = optlen) by (apply slice_length; lia).
  unfold_consts.
  destruct (code =? 10) eqn:C10.
  { (* cookie *)
    apply N.eqb_eq in C10.
    destruct ((optlen <? 8) || (40 <? optlen) || negb (o_cookie_len a =? 0)) eqn:G; [discriminate|].
    apply orb_false_iff in G as [G G3]. apply orb_false_iff in G as [G1 G2].
    apply N.ltb_ge in G1. apply N.ltb_ge in G2. apply negb_false_iff in G3. apply N.eqb_eq in G3.
    destruct (IH _ _ _ _ _ H Hend) as [os [L R]]. rewrite C10. cbn. rewrite L.
    exists (mk_lopt 10 b :: os). split; [reflexivity|].
    destruct R as (R1 & R2 & R3 & R4 & _). cbn in R1, R2, R3, R4.
    destruct (R4 ltac:(lia)) as (Q1 & Q2 & Q3).
    unfold opts_rel, has_code. cbn [existsb lo_code]. unfold_consts. cbn.
    repeat split; try assumption; try lia.
    - unfold cookie_count in *. unfold_consts. rewrite Q1. lia.
    - unfold msg_cookie_echo. cbn [find lo_code lo_data]. unfold_consts. rewrite Hb.
      replace (8 <=? optlen) with true by (symmetry; apply N.leb_le; lia). cbn.
      unfold abs_cookie. rewrite Q2, Q3. replace (optlen =? 0) with false by (symmetry; apply N.eqb_neq; lia).
      reflexivity.
    - cbn [fold_left]. unfold cookie_fn at 2. cbn [lo_code lo_data]. unfold_consts. rewrite Hb.
      replace (8 <=? optlen) with true by (symmetry; apply N.leb_le; lia). cbn.
      rewrite no_cookie_fold by exact Q1.
      unfold abs_cookie. rewrite Q2, Q3. replace (optlen =? 0) with false by (symmetry; apply N.eqb_neq; lia).
      reflexivity. }
  destruct (code =? 3) eqn:C3.
  { apply N.eqb_eq in C3. destruct (IH _ _ _ _ _ H Hend) as [os [L R]]. rewrite C3. cbn. rewrite L.
    exists (mk_lopt 3 b :: os). split; [reflexivity|].
    eapply opts_rel_other; [| | | | | |exact R]; cbn; unfold_consts; try reflexivity; try lia;
      now rewrite ?orb_true_r, ?orb_false_r. }
  destruct (code =? 8) eqn:C8.
  { apply N.eqb_eq in C8.
    destruct (optlen <? 4) eqn:G0; [discriminate|]. apply N.ltb_ge in G0.
    match type of H with (if ?c then _ else _) = _ => destruct c eqn:G end; [|discriminate].
    destruct (IH _ _ _ _ _ H Hend) as [os [L R]]. rewrite C8.
    assert (CK : lib_opt_check 8 b = Some true).
    { unfold lib_opt_check. unfold_consts. cbn. rewrite Hb.
      replace (optlen <? 4) with false by (symmetry; apply N.ltb_ge; lia).
      unfold b. rewrite be16_slice by lia. rewrite !byte_at_slice by lia. rewrite N.add_0_r.
      replace (off + 4 + 2) with (off + 4 + 2) by lia.
      destruct (be16 raw (off + 4) =? 0); [now rewrite G|].
      destruct (be16 raw (off + 4) =? 1); [now rewrite G|].
      destruct (be16 raw (off + 4) =? 2); [now rewrite G|]. discriminate. }
    rewrite CK. rewrite L.
    exists (mk_lopt 8 b :: os). split; [reflexivity|].
    eapply opts_rel_other; [| | | | | |exact R]; cbn; unfold_consts; try reflexivity; try lia;
      now rewrite ?orb_true_r, ?orb_false_r. }
  destruct (code =? 12) eqn:C12.
  { apply N.eqb_eq in C12. destruct (IH _ _ _ _ _ H Hend) as [os [L R]]. rewrite C12. cbn. rewrite L.
    exists (mk_lopt 12 b :: os). split; [reflexivity|].
    eapply opts_rel_other; [| | | | | |exact R]; cbn; unfold_consts; try reflexivity; try lia;
      now rewrite ?orb_true_r, ?orb_false_r. }
  destruct (code =? 11) eqn:C11; [|discriminate].
  apply N.eqb_eq in C11.
  destruct (negb (optlen =? 0) && negb (optlen =? 2)) eqn:G; [discriminate|].
  destruct (IH _ _ _ _ _ H Hend) as [os [L R]]. rewrite C11.
  assert (CK : lib_opt_check 11 b = Some true).
  { unfold lib_opt_check. unfold_consts. cbn. rewrite Hb.
    destruct (optlen =? 0); [reflexivity|]. destruct (optlen =? 2); [reflexivity|]. discriminate. }
  rewrite CK, L.
  exists (mk_lopt 11 b :: os). split; [reflexivity|].
  eapply opts_rel_other; [| | | | | |exact R]; cbn; unfold_consts; try reflexivity; try lia;
    now rewrite ?orb_true_r, ?orb_false_r.
Qed.

(* ------------------------------------------------------------------ soundness of the strict admission *)
Lemma lib_name_fuel_pos msg : exists k, lib_name_fuel msg = S k.
Proof. unfold lib_name_fuel. exists (126 * S (length msg) + length msg)%nat. lia. Qed.

Lemma lib_name_root raw off : off < blen raw -> byte_at raw off = 0 -> lib_name raw off = LOk ([], off + 1).
Proof.
  intros H H0. unfold lib_name. destruct (lib_name_fuel_pos raw) as [k ->]. cbn [lib_name_loop].
  replace (blen raw <=? off) with false by (symmetry; apply N.leb_gt; exact H). rewrite H0. reflexivity.
Qed.

Lemma lib_u16_ok raw off : off + 2 <= blen raw -> lib_u16 raw off = Some (be16 raw off, off + 2).
Proof. intros H. unfold lib_u16. replace (blen raw <? off + 2) with false by (symmetry; apply N.ltb_ge; exact H). reflexivity. Qed.
Lemma lib_u32_ok raw off : off + 4 <= blen raw -> lib_u32 raw off = Some (be32 raw off, off + 4).
Proof. intros H. unfold lib_u32. replace (blen raw <? off + 4) with false by (symmetry; apply N.ltb_ge; exact H). reflexivity. Qed.

Lemma parse_header_some raw h : parse_header raw = Some h ->
  12 <= blen raw /\ h = mk_T_Header (be16 raw 0) (be16 raw 2) (be16 raw 4) (be16 raw 6) (be16 raw 8) (be16 raw 10).
Proof.
  unfold parse_header, header_len. destruct (blen raw <? 12) eqn:E; [discriminate|]. apply N.ltb_ge in E.
  intros H. inversion H. split; [exact E|reflexivity].
Qed.

Lemma Z_of_N_land a b : Z.of_N (N.land a b) = Z.land (Z.of_N a) (Z.of_N b).
Proof. destruct a, b; reflexivity. Qed.
Lemma opcode_zero flags : (Z.land (Z.of_N (N.shiftr flags 11)) 15 =? 0)%Z = true -> N.land (N.shiftr flags 11) 15 = 0.
Proof.
  intros H. apply Z.eqb_eq in H. change 15%Z with (Z.of_N 15) in H. rewrite <- Z_of_N_land in H. lia.
Qed.

(* the decoded question of an accepted packet *)
Lemma question_of_accepted raw e :
  pw_name (name_fuel raw) raw 12 = Ok e -> e - 12 <= 255 -> e + 4 <= blen raw ->
  exists ls, lib_question raw 12 = LOk (mk_lq ls (be16 raw e) (be16 raw (e + 2)), e + 4)
          /\ encode_labels ls = slice raw 12 (e - 12).
Proof.
  intros PN Hn Hl. pose proof (pw_name_bounds _ _ _ _ PN) as [B1 B2].
  destruct (pw_name_lib _ _ _ _ PN (lib_name_fuel raw) maxDomainNameWireOctets [])
    as [ls [L1 L2]].
  { unfold name_fuel, lib_name_fuel. lia. }
  { unfold maxDomainNameWireOctets. lia. }
  exists ls. split; [|exact L2].
  unfold lib_question, lib_name. rewrite L1. cbn [app].
  replace (e =? blen raw) with false by (symmetry; apply N.eqb_neq; lia).
  rewrite lib_u16_ok by lia.
  replace (e + 2 =? blen raw) with false by (symmetry; apply N.eqb_neq; lia).
  rewrite lib_u16_ok by lia. now replace (e + 2 + 2) with (e + 4) by lia.
Qed.

Lemma opt_of_accepted raw off p : bytes_ok raw -> pw_opt raw off = Ok p ->
  exists r, lib_rr raw off = LOk (r, blen raw)
    /\ off + 11 <= blen raw
    /\ rr_type r = dns_TypeOPT /\ rr_class r = p_udpsize p /\ opt_do r = p_do p /\ opt_version r = p_version p
    /\ opt_ext_rcode r = 0 /\ p_hasopt p = true /\ opts_rel raw optfacts0 (p_opts p) (rr_opts r).
Proof.
  intros Hb H. unfold pw_opt in H. unfold po_fixed, po_do_mask, dns_TypeOPT in *.
  destruct ((blen raw <? off + 11) || negb (byte_at raw off =? 0)) eqn:G1; [discriminate|].
  apply orb_false_iff in G1 as [G1 G2]. apply N.ltb_ge in G1. apply negb_false_iff in G2. apply N.eqb_eq in G2.
  destruct (be16 raw (off + 1) =? 41) eqn:G3; cbn [negb] in H; [|discriminate]. apply N.eqb_eq in G3.
  cbn zeta in H.
  destruct (off + 11 + be16 raw (off + 9) =? blen raw) eqn:G4; cbn [negb] in H; [|discriminate]. apply N.eqb_eq in G4.
  destruct (byte_at raw (off + 5) =? 0) eqn:G5; cbn [negb] in H; [|discriminate]. apply N.eqb_eq in G5.
  destruct (pw_opts (opts_fuel raw) raw (off + 11) (off + 11 + be16 raw (off + 9)) optfacts0) as [a| |] eqn:PO;
    try discriminate.
  inversion H; subst p; clear H. cbn [p_udpsize p_do p_version p_hasopt p_opts].
  destruct (pw_opts_lib _ _ _ _ _ _ PO ltac:(lia)) as [os [L R]].
  unfold lib_rr.
  replace (off =? blen raw) with false by (symmetry; apply N.eqb_neq; lia).
  rewrite lib_name_root by (try lia; exact G2).
  rewrite (lib_u16_ok raw (off + 1)) by lia. replace (off + 1 + 2) with (off + 3) by lia.
  rewrite (lib_u16_ok raw (off + 3)) by lia. replace (off + 3 + 2) with (off + 5) by lia.
  rewrite (lib_u32_ok raw (off + 5)) by lia. replace (off + 5 + 4) with (off + 9) by lia.
  rewrite (lib_u16_ok raw (off + 9)) by lia. replace (off + 9 + 2) with (off + 11) by lia.
  replace (blen raw <? off + 11 + be16 raw (off + 9)) with false by (symmetry; apply N.ltb_ge; lia).
  rewrite G3. cbn [N.eqb Pos.eqb].
  destruct (be16 raw (off + 9) =? 0) eqn:Z.
  - apply N.eqb_eq in Z. rewrite Z in *.
    unfold opts_fuel in L. cbn [lib_opts] in L.
    replace (off + 11 + 0 <=? off + 11) with true in L by (symmetry; apply N.leb_le; lia).
    inversion L; subst os.
    eexists. split; [f_equal; f_equal; lia|]. cbn [rr_type rr_class rr_opts].
    destruct (ttl_facts raw (off + 5) (mk_lrr [] 41 (be16 raw (off + 3)) (be32 raw (off + 5)) 0 []) Hb G5 eq_refl)
      as (T1 & T2 & T3).
    replace (off + 5 + 1) with (off + 6) in * by lia. replace (off + 5 + 2) with (off + 7) in * by lia.
    repeat (split; [first [assumption | lia | reflexivity]|]). exact R.
  - unfold opts_fuel in L. rewrite L. rewrite G4.
    eexists. split; [reflexivity|]. cbn [rr_type rr_class rr_opts].
    destruct (ttl_facts raw (off + 5) (mk_lrr [] 41 (be16 raw (off + 3)) (be32 raw (off + 5)) (be16 raw (off + 9)) os) Hb G5 eq_refl)
      as (T1 & T2 & T3).
    replace (off + 5 + 1) with (off + 6) in * by lia. replace (off + 5 + 2) with (off + 7) in * by lia.
    repeat (split; [first [assumption | lia | reflexivity]|]). exact R.
Qed.

Lemma cookie_client_abs raw a : (o_cookie_len a = 0 \/ 8 <= o_cookie_len a) ->
  (if o_cookie_len a =? 0 then [] else slice raw (o_cookie_off a) rq_client_cookie_len) = firstn 8 (abs_cookie raw a).
Proof.
  intros H. unfold abs_cookie, rq_client_cookie_len. destruct (o_cookie_len a =? 0) eqn:E; [reflexivity|].
  apply N.eqb_neq in E. change 8%nat with (N.to_nat 8). rewrite firstn_slice by lia. reflexivity.
Qed.

Definition sound_msg (raw : list N) (f : facts) (m : lmsg) : Prop :=
  lib_unpack raw = LOk m /\ facts_of m = f
  /\ length (m_question m) = 1%nat /\ m_opcode m = 0 /\ m_response m = false
  /\ m_rd m = fact_rd f /\ m_cd m = fact_cd f /\ m_ad m = fact_ad f /\ m_opcode m = fact_opcode f
  /\ m_answer m = [] /\ m_ns m = [] /\ (length (m_extra m) <= 1)%nat
  /\ (forall o, is_edns0 (m_extra m) = Some o -> (cookie_count (rr_opts o) <= 1)%nat /\ opt_ext_rcode o = 0).

Theorem parse_wire_sound_strong raw f : bytes_ok raw -> parse_wire raw = Some f -> exists m, sound_msg raw f m.
Proof.
  intros Hb H. unfold parse_wire in H. destruct (parse_wire_r raw) as [f0| |] eqn:PW; try discriminate.
  inversion H; subst f0; clear H. unfold parse_wire_r in PW.
  destruct (parse_header raw) as [h|] eqn:PH; [|discriminate].
  apply parse_header_some in PH as [Hlen Hh].
  unfold pw_qd, pw_an, pw_ns, pw_ar_max, pw_name_max, pw_qfixed, header_len, dns_OpcodeQuery in PW.
  destruct (negb (go_Header_Opcode h =? 0)%Z || go_Header_QR h) eqn:G1; [discriminate|].
  apply orb_false_iff in G1 as [G1 G2]. apply negb_false_iff in G1.
  destruct (negb (T_Header_QDCount h =? 1) || negb (T_Header_ANCount h =? 0)
            || negb (T_Header_NSCount h =? 0) || (1 <? T_Header_ARCount h)) eqn:G3; [discriminate|].
  apply orb_false_iff in G3 as [G3 G6]. apply orb_false_iff in G3 as [G3 G5]. apply orb_false_iff in G3 as [G3 G4].
  apply negb_false_iff in G3, G4, G5. apply N.eqb_eq in G3, G4, G5. apply N.ltb_ge in G6.
  destruct (pw_name (name_fuel raw) raw 12) as [e| |] eqn:PN; try discriminate.
  destruct ((255 <? e - 12) || (blen raw <? e + 4)) eqn:G7; [discriminate|].
  apply orb_false_iff in G7 as [G7 G8]. apply N.ltb_ge in G7, G8.
  pose proof (pw_name_bounds _ _ _ _ PN) as [B1 B2].
  destruct (question_of_accepted raw e PN G7 G8) as [ls [LQ EN]].
  subst h. cbn [T_Header_QDCount T_Header_ANCount T_Header_NSCount T_Header_ARCount T_Header_ID T_Header_Flags] in *.
  unfold go_Header_Opcode, go_Header_QR in *. cbn [T_Header_Flags] in *.
  apply opcode_zero in G1. apply negb_false_iff in G2.
  pose proof (be16_lt raw 2 Hb) as Hfl.
  (* the common prefix of lib_unpack *)
  assert (LU : forall ex off',
     lib_rrs (N.to_nat (be16 raw 10)) raw (e + 4) = LOk (ex, off') ->
     lib_unpack raw = LOk (mk_lmsg (be16 raw 0) (bit (be16 raw 2) 32768) (N.land (N.shiftr (be16 raw 2) 11) 15)
        (bit (be16 raw 2) 1024) (bit (be16 raw 2) 512) (bit (be16 raw 2) 256) (bit (be16 raw 2) 128)
        (bit (be16 raw 2) 64) (bit (be16 raw 2) 32) (bit (be16 raw 2) 16)
        (match is_edns0 ex with Some o => N.lor (N.land (be16 raw 2) 15) (opt_ext_rcode o) | None => N.land (be16 raw 2) 15 end)
        [mk_lq ls (be16 raw e) (be16 raw (e + 2))] [] [] ex)).
  { intros ex off' LX. unfold lib_unpack.
    replace (blen raw <? 12) with false by (symmetry; apply N.ltb_ge; lia).
    replace (blen raw =? 12) with false by (symmetry; apply N.eqb_neq; lia).
    rewrite G3, G4, G5. change (N.to_nat 1) with 1%nat. change (N.to_nat 0) with 0%nat.
    cbn [lib_questions lib_rrs]. rewrite LQ.
    replace (e + 4 =? 12) with false by (symmetry; apply N.eqb_neq; lia).
    rewrite LX. reflexivity. }
  assert (BR : forall rc, rc = N.land (be16 raw 2) 15 ->
     msg_bits (mk_lmsg (be16 raw 0) (bit (be16 raw 2) 32768) (N.land (N.shiftr (be16 raw 2) 11) 15)
        (bit (be16 raw 2) 1024) (bit (be16 raw 2) 512) (bit (be16 raw 2) 256) (bit (be16 raw 2) 128)
        (bit (be16 raw 2) 64) (bit (be16 raw 2) 32) (bit (be16 raw 2) 16) rc [] [] [] []) = be16 raw 2).
  { intros rc ->. exact (bits_roundtrip _ Hfl). }
  destruct (be16 raw 10 =? 1) eqn:AR.
  - (* one additional record: the OPT *)
    apply N.eqb_eq in AR.
    destruct (pw_opt raw (e + 4)) as [p| |] eqn:PO; try discriminate.
    inversion PW; subst f; clear PW.
    destruct (opt_of_accepted raw (e + 4) p Hb PO) as (r & LR & Hl & Ty & Cl & Do & Ve & Ex & Ho & R).
    destruct R as (R1 & R2 & R3 & _ & R5). destruct (R5 eq_refl) as (K1 & K2 & K3 & K4).
    assert (LX : lib_rrs (N.to_nat (be16 raw 10)) raw (e + 4) = LOk ([r], blen raw)).
    { rewrite AR. change (N.to_nat 1) with 1%nat. cbn [lib_rrs]. rewrite LR.
      replace (blen raw =? e + 4) with false by (symmetry; apply N.eqb_neq; lia). reflexivity. }
    assert (IE : is_edns0 [r] = Some r).
    { unfold is_edns0. cbn [rev app find]. rewrite Ty. reflexivity. }
    eexists. split; [exact (LU _ _ LX)|]. rewrite IE. rewrite Ex, N.lor_0_r.
    split.
    + unfold facts_of. cbn [m_question m_extra m_id q_type q_class q_name]. rewrite IE.
      unfold msg_bits. cbn [m_response m_opcode m_aa m_tc m_rd m_ra m_zero m_ad m_cd m_rcode].
      pose proof (BR _ eq_refl) as BR'. unfold msg_bits in BR'.
      cbn [m_response m_opcode m_aa m_tc m_rd m_ra m_zero m_ad m_cd m_rcode] in BR'. rewrite BR'.
      rewrite EN. rewrite slice_length by lia.
      rewrite Cl, Do, Ve. cbn [orb o_nsid o_ecs o_ka optfacts0] in R1, R2, R3. rewrite R1, R2, R3.
      rewrite cookie_client_abs by exact K4.
      unfold msg_cookie_client. fold cookie_fn. rewrite <- K3, <- K2. unfold abs_cookie. rewrite Ho.
      f_equal. lia.
    + cbn [m_question m_opcode m_response m_answer m_ns m_extra length].
      repeat (split; [first [reflexivity | assumption | lia | (unfold bit; rewrite G2; reflexivity)]|]).
      intros o Ho'. rewrite IE in Ho'. inversion Ho'; subst o. split; assumption.
  - (* no additional record *)
    destruct (negb (e + 4 =? blen raw)) eqn:TR; [discriminate|].
    apply negb_false_iff in TR. apply N.eqb_eq in TR.
    inversion PW; subst f; clear PW.
    assert (AR0 : be16 raw 10 = 0) by (apply N.eqb_neq in AR; lia).
    assert (LX : lib_rrs (N.to_nat (be16 raw 10)) raw (e + 4) = LOk ([], e + 4)).
    { rewrite AR0. reflexivity. }
    eexists. split; [exact (LU _ _ LX)|]. cbn [is_edns0 rev find].
    split.
    + unfold facts_of. cbn [m_question m_extra m_id q_type q_class q_name is_edns0 rev find].
      unfold msg_bits. cbn [m_response m_opcode m_aa m_tc m_rd m_ra m_zero m_ad m_cd m_rcode].
      pose proof (BR _ eq_refl) as BR'. unfold msg_bits in BR'.
      cbn [m_response m_opcode m_aa m_tc m_rd m_ra m_zero m_ad m_cd m_rcode] in BR'. rewrite BR'.
      rewrite EN. rewrite slice_length by lia.
      cbn. f_equal. lia.
    + cbn [m_question m_opcode m_response m_answer m_ns m_extra length].
      repeat (split; [first [reflexivity | assumption | lia | (unfold bit; rewrite G2; reflexivity)]|]).
      intros o Ho'. discriminate.
Qed.

Theorem parse_wire_sound_lemma raw f : bytes_ok raw -> parse_wire raw = Some f ->
  exists m, lib_unpack raw = LOk m /\ facts_of m = f.
Proof. intros Hb H. destruct (parse_wire_sound_strong raw f Hb H) as [m (A & B & _)]. eauto. Qed.

(* ------------------------------------------------------------------ fuel is never the reason *)
Lemma pw_name_fuel_ok : forall fuel raw off, (length raw - N.to_nat off < fuel)%nat -> pw_name fuel raw off <> NoFuel.
Proof.
  induction fuel as [|k IH]; intros raw off H; [lia|]. cbn [pw_name].
  destruct (blen raw <=? off) eqn:E1; [discriminate|]. apply N.leb_gt in E1. unfold blen in E1.
  destruct (byte_at raw off =? 0); [discriminate|].
  destruct (negb (N.land (byte_at raw off) pw_label_mask =? 0)); [discriminate|].
  destruct (blen raw <? off + 1 + byte_at raw off); [discriminate|].
  apply IH. lia.
Qed.
Lemma pw_opts_fuel_ok : forall fuel raw off endo a, (N.to_nat endo - N.to_nat off < fuel)%nat ->
  pw_opts fuel raw off endo a <> NoFuel.
Proof.
  induction fuel as [|k IH]; intros raw off endo a H; [lia|]. cbn [pw_opts].
  destruct (endo <=? off) eqn:E0; [destruct (off =? endo); discriminate|]. apply N.leb_gt in E0.
  unfold opt_option_hdr_len. cbn zeta.
  destruct (endo <? off + 4); [discriminate|].
  destruct (endo <? off + 4 + be16 raw (off + 2)); [discriminate|].
  repeat match goal with
  | |- (if ?c then _ else _) <> NoFuel => destruct c
  | |- Decline <> NoFuel => discriminate
  | |- pw_opts k _ _ _ _ <> NoFuel => apply IH; lia
  end.
Qed.
Theorem parse_wire_fuel_ok raw : parse_wire_r raw <> NoFuel.
Proof.
  unfold parse_wire_r. destruct (parse_header raw) as [h|] eqn:PH; [|discriminate].
  apply parse_header_some in PH as [Hlen _].
  destruct (negb (go_Header_Opcode h =? dns_OpcodeQuery)%Z || go_Header_QR h); [discriminate|].
  match goal with |- (if ?c then _ else _) <> _ => destruct c end; [discriminate|].
  pose proof (pw_name_fuel_ok (name_fuel raw) raw header_len) as NF.
  destruct (pw_name (name_fuel raw) raw header_len) as [e| |] eqn:PN; try discriminate.
  2:{ exfalso. apply NF; [|reflexivity]. unfold name_fuel. lia. }
  match goal with |- (if ?c then _ else _) <> _ => destruct c end; [discriminate|].
  destruct (T_Header_ARCount h =? 1).
  - unfold pw_opt.
    match goal with |- match (if ?c then _ else _) with _ => _ end <> _ => destruct c end; [discriminate|].
    match goal with |- match (if ?c then _ else _) with _ => _ end <> _ => destruct c end; [discriminate|].
    cbn zeta.
    match goal with |- match (if ?c then _ else _) with _ => _ end <> _ => destruct c eqn:EX end; [discriminate|].
    match goal with |- match (if ?c then _ else _) with _ => _ end <> _ => destruct c end; [discriminate|].
    apply negb_false_iff, N.eqb_eq in EX.
    match goal with |- match (match ?x with _ => _ end) with _ => _ end <> _ => destruct x eqn:PO end; try discriminate.
    exfalso. revert PO. apply pw_opts_fuel_ok. unfold opts_fuel. rewrite EX. rewrite blen_nat. lia.
  - destruct (negb (e + pw_qfixed =? blen raw)); discriminate.
Qed.

(* ------------------------------------------------------------------ accept table *)
Lemma accepted_header_ok raw f : parse_wire raw = Some f ->
  exists h, parse_header raw = Some h /\ accept_header h = AcceptOK.
Proof.
  unfold parse_wire, parse_wire_r. destruct (parse_header raw) as [h|]; [|discriminate].
  intros H. exists h. split; [reflexivity|].
  unfold dns_OpcodeQuery, pw_qd, pw_an, pw_ns, pw_ar_max in H.
  destruct (negb (go_Header_Opcode h =? 0)%Z || go_Header_QR h) eqn:G1; [discriminate|].
  apply orb_false_iff in G1 as [G1 G2]. apply negb_false_iff in G1.
  destruct (negb (T_Header_QDCount h =? 1) || negb (T_Header_ANCount h =? 0)
            || negb (T_Header_NSCount h =? 0) || (1 <? T_Header_ARCount h)) eqn:G3; [discriminate|].
  apply orb_false_iff in G3 as [G3 G6]. apply orb_false_iff in G3 as [G3 G5]. apply orb_false_iff in G3 as [G3 G4].
  apply negb_false_iff in G3, G4, G5. apply N.eqb_eq in G3, G4, G5. apply N.ltb_ge in G6.
  unfold accept_header, dns_OpcodeQuery, dns_OpcodeNotify, ah_qd, ah_an_max, ah_ns_max, ah_ar_max.
  rewrite G2, G1. cbn [negb andb]. rewrite G3, G4, G5. cbn.
  replace (2 <? T_Header_ARCount h) with false by (symmetry; apply N.ltb_ge; lia). reflexivity.
Qed.

Theorem accept_agree_lemma raw : bytes_ok raw -> ingress_wire raw = ingress_msg raw.
Proof.
  intros Hb. unfold ingress_wire, ingress_msg, ingress_hdr.
  destruct (parse_header raw) as [h|]; [|reflexivity].
  destruct (accept_header h); try reflexivity.
  destruct (parse_wire raw) as [f|] eqn:PW; [|reflexivity].
  destruct (wire_gate f) eqn:WG; [|reflexivity].
  destruct (parse_wire_sound_strong raw f Hb PW) as [m (LU & FO & Q1 & OP & _ & _ & _ & _ & _ & _ & _ & _ & _)].
  unfold decoded_route. rewrite LU. f_equal. unfold msg_verdict. rewrite Q1, OP. cbn.
  unfold wire_gate in WG. apply andb_prop in WG as [_ WG].
  rewrite <- FO in WG. unfold facts_of in WG. cbn [f_hasopt f_version] in WG.
  destruct (is_edns0 (m_extra m)) as [o|]; [|reflexivity].
  cbn in WG. rewrite WG. reflexivity.
Qed.

(* ------------------------------------------------------------------ ties to the source text *)
From Coq Require Import String Ascii.
Definition s2n (s : string) : list N := map (fun c => N.of_nat (nat_of_ascii c)) (list_ascii_of_string s).

Lemma gen_pw_src_opcode_qr : pw_src_opcode_qr = [s2n "header.Opcode() != dns.OpcodeQuery || header.QR()"].
Proof. reflexivity. Qed.
Lemma gen_pw_src_ar_one : pw_src_ar_one = [s2n "header.ARCount == 1"].
Proof. reflexivity. Qed.
Lemma gen_pw_src_trailing : pw_src_trailing = [s2n "off != len(raw)"].
Proof. reflexivity. Qed.
Lemma gen_po_src_type : po_src_type = [s2n "binary.BigEndian.Uint16(raw[off+1:off+3]) != dns.TypeOPT"].
Proof. reflexivity. Qed.
Lemma gen_po_src_exact : po_src_exact = [s2n "off+rdlen != len(raw)"].
Proof. reflexivity. Qed.
Lemma gen_po_src_extrcode : po_src_extrcode = [s2n "extRcode != 0"].
Proof. reflexivity. Qed.
Lemma gen_po_opt_cases : po_opt_cases =
  [s2n "dns.EDNS0COOKIE"; s2n "dns.EDNS0NSID"; s2n "dns.EDNS0SUBNET"; s2n "dns.EDNS0PADDING"; s2n "dns.EDNS0TCPKEEPALIVE"].
Proof. reflexivity. Qed.
Lemma gen_po_opt_default : po_opt_default_src = [s2n "default"].
Proof. reflexivity. Qed.
Lemma gen_po_ecs_family_cases : po_ecs_family_cases = [s2n "case 0:"; s2n "case 1:"; s2n "case 2:"; s2n "default:"].
Proof. reflexivity. Qed.
Lemma gen_po_src_fam0 : po_src_fam0 = [s2n "netmask != 0"].
Proof. reflexivity. Qed.
Lemma gen_po_src_final : po_src_final = [s2n "return off == end"].
Proof. reflexivity. Qed.
Lemma gen_ah_src_qr : ah_src_qr = [s2n "h.QR()"].
Proof. reflexivity. Qed.
Lemma gen_ah_src_opcode : ah_src_opcode = [s2n "op := h.Opcode(); op != dns.OpcodeQuery && op != dns.OpcodeNotify"].
Proof. reflexivity. Qed.
Lemma gen_edns_src_wire_gate : edns_src_wire_gate = [s2n "r.Opcode() == 0 && (!r.HasOPT() || r.EDNSVersion() == 0)"].
Proof. reflexivity. Qed.
Lemma gen_edns_src_opcode : edns_src_opcode = [s2n "req.Opcode > 0"].
Proof. reflexivity. Qed.
Lemma gen_edns_src_version : edns_src_version = [s2n "opt.Version() != 0"].
Proof. reflexivity. Qed.
Lemma gen_srv_src_qcount : srv_src_qcount = [s2n "len(r.Question) != 1"].
Proof. reflexivity. Qed.
(* the numbers the proofs rely on, as the source has them now *)
Lemma gen_numbers :
  (header_len, opt_fixed_len, opt_option_hdr_len, po_fixed) = (12, 11, 4, 11) /\
  (pw_qd, pw_an, pw_ns, pw_ar_max, pw_label_mask, pw_name_max, pw_qfixed) = (1, 0, 0, 1, 192, 255, 4) /\
  (po_do_mask, po_cookie_min, po_cookie_max, po_ecs_min) = (32768, 8, 40, 4) /\
  (po_v4_mask_max, po_v4_scope_max, po_v6_mask_max, po_v6_scope_max, po_ka_len_a, po_ka_len_b) = (32, 32, 128, 128, 0, 2) /\
  (rq_rd_mask, rq_cd_mask, rq_ad_mask, rq_opcode_shift, rq_opcode_mask, rq_client_cookie_len) = (256, 16, 32, 11, 15, 8) /\
  (ah_qd, ah_an_max, ah_ns_max, ah_ar_max) = (1, 1, 1, 2).
Proof. repeat split. Qed.

(* ------------------------------------------------------------------ examples: the hypotheses are satisfiable *)
Definition ex_packet : list N :=
  [18;52; 1;32; 0;1; 0;0; 0;0; 0;1;  3;119;119;119;2;97;98;0; 0;28; 0;1;
   0; 0;41; 4;208; 0;0;128;0; 0;22;  0;10;0;8;1;2;3;4;5;6;7;8;  0;8;0;6;0;1;24;0;192;0].
Example ex_packet_ok : bytes_ok ex_packet.
Proof. unfold bytes_ok, ex_packet. repeat constructor. Qed.
Example ex_packet_accepted :
  parse_wire ex_packet =
  Some (mk_facts 4660 288 28 1 [3;119;119;119;2;97;98;0] 24 true 1232 true 0 true false false
                 [1;2;3;4;5;6;7;8] [1;2;3;4;5;6;7;8]).
Proof. vm_compute. reflexivity. Qed.
Example ex_packet_lib : exists m, lib_unpack ex_packet = LOk m /\ msg_verdict m = VProceed.
Proof. eexists. split; [vm_compute; reflexivity|reflexivity]. Qed.
(* a packet the strict parser refuses although the library takes it (compressed question name) *)
Example ex_refused_but_decodable :
  let raw := [0;1; 1;0; 0;1; 0;0; 0;0; 0;0; 192;18; 0;1; 0;1; 1;97;0] in
  parse_wire raw = None /\ exists m, lib_unpack raw = LOk m.
Proof. split; [vm_compute; reflexivity|]. eexists. vm_compute. reflexivity. Qed.
(* version 1: the strict parser takes it, the edns gate sends it to the decoded body: BADVERS on both *)
Example ex_badvers :
  let raw := [0;1; 1;0; 0;1; 0;0; 0;0; 0;1; 1;97;0; 0;1; 0;1; 0; 0;41; 4;208; 0;1;0;0; 0;0] in
  ingress_wire raw = Some VBadVers /\ ingress_msg raw = Some VBadVers.
Proof. split; vm_compute; reflexivity. Qed.

Lemma declines_safely_lemma raw : bytes_ok raw -> parse_wire raw = None ->
  parse_wire_r raw = Decline /\ ingress_wire raw = ingress_msg raw.
Proof.
  intros Hb H. split; [|exact (accept_agree_lemma raw Hb)].
  unfold parse_wire in H. pose proof (parse_wire_fuel_ok raw) as F.
  destruct (parse_wire_r raw); [discriminate|reflexivity|congruence].
Qed.

Definition source_guards_stmt : Prop :=
  pw_src_opcode_qr = [s2n "header.Opcode() != dns.OpcodeQuery || header.QR()"] /\
  pw_src_ar_one = [s2n "header.ARCount == 1"] /\
  pw_src_trailing = [s2n "off != len(raw)"] /\
  po_src_type = [s2n "binary.BigEndian.Uint16(raw[off+1:off+3]) != dns.TypeOPT"] /\
  po_src_exact = [s2n "off+rdlen != len(raw)"] /\
  po_src_extrcode = [s2n "extRcode != 0"] /\
  po_opt_cases = [s2n "dns.EDNS0COOKIE"; s2n "dns.EDNS0NSID"; s2n "dns.EDNS0SUBNET"; s2n "dns.EDNS0PADDING"; s2n "dns.EDNS0TCPKEEPALIVE"] /\
  po_opt_default_src = [s2n "default"] /\
  po_ecs_family_cases = [s2n "case 0:"; s2n "case 1:"; s2n "case 2:"; s2n "default:"] /\
  po_src_fam0 = [s2n "netmask != 0"] /\
  po_src_final = [s2n "return off == end"] /\
  ah_src_qr = [s2n "h.QR()"] /\
  ah_src_opcode = [s2n "op := h.Opcode(); op != dns.OpcodeQuery && op != dns.OpcodeNotify"] /\
  edns_src_wire_gate = [s2n "r.Opcode() == 0 && (!r.HasOPT() || r.EDNSVersion() == 0)"] /\
  edns_src_opcode = [s2n "req.Opcode > 0"] /\
  edns_src_version = [s2n "opt.Version() != 0"] /\
  srv_src_qcount = [s2n "len(r.Question) != 1"].
Lemma gen_source_guards : source_guards_stmt.
Proof. unfold source_guards_stmt. repeat split; reflexivity. Qed.

(* ------------------------------------------------------------------ reply header of a served hit *)
Definition hit_flags_b (stored : N) : bool :=
  forallb (fun rd => forallb (fun cd => wire_hit_flags stored 0 rd cd =? msg_hit_flags stored 0 rd cd) [true; false]) [true; false].
Lemma hit_flags_all : all16 hit_flags_b = true.
Proof. vm_compute. reflexivity. Qed.
Lemma hit_flags_eq stored rd cd : stored < 65536 -> wire_hit_flags stored 0 rd cd = msg_hit_flags stored 0 rd cd.
Proof.
  intros H. pose proof (all16_spec _ hit_flags_all stored H) as A. unfold hit_flags_b in A.
  cbn [forallb] in A. rewrite !andb_true_r in A.
  apply andb_prop in A as [A1 A2]. apply andb_prop in A1 as [A11 A12]. apply andb_prop in A2 as [A21 A22].
  destruct rd, cd; apply N.eqb_eq; assumption.
Qed.
