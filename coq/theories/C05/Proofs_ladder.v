(* C05 — the wire ladder refines the decoded ladder (over the abstract store of Ladder.v). *)
From Sdns Require Import Common.Base C05.Ladder.
Open Scope N_scope.

Section LadderProofs.
  Variable body reply : Type.
  Variable shape_msg shape_wire cut_msg cut_wire : body -> lreq -> reply.
  Variable fail_msg fail_wire servfail_norec : lreq -> reply.
  Variable denial_msg : body -> lreq -> reply.
  Variable zone_eval : N * N -> question -> option body.

  Notation entry := (entry body).
  Notation store := (store body).
  Notation msg_ladder := (msg_ladder body reply shape_msg cut_msg fail_msg servfail_norec denial_msg zone_eval).
  Notation wire_ladder := (wire_ladder body reply shape_wire cut_wire fail_wire).
  Notation serve_dns := (serve_dns body reply shape_msg shape_wire cut_msg cut_wire fail_msg fail_wire
                                   servfail_norec denial_msg zone_eval).

  (* the admission-time verdict: whichever stored body the byte path picks for a client shapes
     into the reply the decoded path builds from the stored message (DO stripping through the
     stored stripped body, TTL, header, AD on CD, EDE, OPT: tested differentially, C06 for OPT) *)
  Hypothesis body_equiv : forall (e : entry) rq b,
    wire_body_for body e rq = Some b -> shape_wire b rq = shape_msg (e_full body e) rq.
  Hypothesis cut_equiv : forall b rq, cut_wire b rq = cut_msg b rq.
  Hypothesis fail_equiv : forall rq, fail_wire rq = fail_msg rq.

  (* the miss witness of a question-kind failure names zones whose snapshots did not deny that
     question when the failure was recorded *)
  Definition store_ok (st : store) : Prop :=
    forall q f, s_failure body st q false = Some f -> f_kind_question f = true ->
      forall z, In z (f_witness f) -> zone_eval z q = None.

  Lemma denial_none_subset path W q :
    (forall z, In z W -> zone_eval z q = None) ->
    forallb (fun z => existsb (fun w => (fst w =? fst z) && (snd w =? snd z)) W) path = true ->
    denial_eval body zone_eval path q = None.
  Proof.
    intros HW. induction path as [|z r IH]; intros H; [reflexivity|].
    cbn in H. apply andb_prop in H as [H1 H2]. cbn.
    apply existsb_exists in H1 as [w [Hin Heq]].
    apply andb_prop in Heq as [E1 E2]. apply N.eqb_eq in E1, E2.
    assert (w = z) by (destruct w, z; cbn in *; congruence). subst w.
    rewrite (HW _ Hin). exact (IH H2).
  Qed.

  Lemma allow_det tk id : forall ok tk', allow tk id = (ok, tk') -> ok = false -> tk' = tk.
  Proof. unfold allow. intros ok tk' H E. destruct (tk id); inversion H; subst; [reflexivity|discriminate]. Qed.

  (* whichever path served, the client-visible outcome and the limiter state are those of the
     decoded ladder run on its own: one token per question, same rung, same reply *)
  Theorem serve_dns_refines : forall (st : store) tk rq ch,
    store_ok st -> serve_dns st tk rq ch = msg_ladder st tk rq ch None.
  Proof.
    intros st tk rq ch OK. unfold Ladder.serve_dns, Ladder.wire_ladder.
    destruct (negb (r_rd rq) || r_ecs rq) eqn:G1; [reflexivity|].
    apply orb_false_iff in G1 as [Grd Gecs]. apply negb_false_iff in Grd.
    destruct (r_type_known rq) eqn:Gt; cbn [negb]; [|reflexivity].
    destruct (r_class_known rq) eqn:Gc; cbn [negb]; [|reflexivity].
    (* the composite rungs *)
    assert (COMP : forall tk0, 
      match wire_composite body reply cut_wire fail_wire st tk0 rq ch with
      | WServed _ o tk' => (o, tk')
      | WDeclined _ tk' spent => msg_rest body reply cut_msg fail_msg denial_msg zone_eval st tk' rq
      end = msg_rest body reply cut_msg fail_msg denial_msg zone_eval st tk0 rq).
    { intros tk0. unfold wire_composite, msg_rest.
      destruct (if r_cd rq then None else s_cut body st (r_q rq)) as [b|] eqn:CUT.
      - destruct (c_internal ch || negb (c_wire_ready ch) || negb (c_lease ch) || negb (c_build ch)
                  || negb (c_fits ch) || negb (c_commit ch) || negb (s_cut_full_ok body st)) eqn:D.
        + reflexivity.
        + repeat (apply orb_false_iff in D as [D ?]). apply negb_false_iff in H.
          rewrite H. rewrite cut_equiv. reflexivity.
      - destruct (s_failure body st (r_q rq) (r_cd rq)) as [f|] eqn:F.
        2:{ reflexivity. }
        match goal with |- match (if ?g then _ else _) with _ => _ end = _ => destruct g eqn:GATE end.
        2:{ reflexivity. }
        assert (DEN : (if r_cd rq || r_ecs rq || negb (s_denial_on body st) then None
                       else denial_eval body zone_eval (s_path body st (r_q rq)) (r_q rq)) = None).
        { destruct (r_cd rq) eqn:CD; [reflexivity|]. rewrite Gecs. cbn [orb].
          destruct (s_denial_on body st) eqn:DO; [|reflexivity]. cbn [negb orb andb] in *.
          rewrite orb_false_r in GATE. apply andb_prop in GATE as [K W].
          apply denial_none_subset with (W := f_witness f); [|exact W].
          intros z Hz. eapply OK; eauto. }
        destruct (c_internal ch || negb (c_wire_ready ch) || negb (c_lease ch) || negb (c_build ch)
                  || negb (c_commit ch)) eqn:D.
        + rewrite DEN. reflexivity.
        + rewrite DEN. rewrite fail_equiv. reflexivity. }
    unfold Ladder.msg_ladder. rewrite Gc, Gt, Grd. cbn [andb negb]. rewrite andb_false_r.
    destruct (s_exact body st (r_q rq) (r_cd rq)) as [e|] eqn:EX.
    2:{ specialize (COMP tk).
        destruct (wire_composite body reply cut_wire fail_wire st tk rq ch); exact COMP. }
    destruct (entry_matches body e rq) eqn:M.
    2:{ specialize (COMP tk). unfold msg_hit. rewrite M. cbn [negb].
        destruct (wire_composite body reply cut_wire fail_wire st tk rq ch); exact COMP. }
    (* verified exact hit *)
    unfold wire_hit.
    destruct (c_internal ch) eqn:CI; [reflexivity|].
    destruct (e_prefetch_due body e); [reflexivity|].
    destruct (e_eligible body e); cbn [negb]; [|reflexivity].
    destruct (c_wire_ready ch); cbn [negb]; [|reflexivity].
    destruct (e_chase_safe body e); cbn [negb]; [|reflexivity].
    destruct (wire_body_for body e rq) as [b|] eqn:WB; [|reflexivity].
    destruct (c_fits ch); cbn [negb]; [|reflexivity].
    unfold msg_hit. rewrite M. cbn [negb]. rewrite CI.
    destruct (e_limiter body e) as [id|] eqn:LIM.
    - destruct (allow tk id) as [ok tk'] eqn:AL. destruct ok; [|reflexivity].
      destruct (c_lease ch); cbn [negb]; [|cbn -[msg_rest allow N.eqb]; rewrite N.eqb_refl; reflexivity].
      destruct (e_live body e) eqn:LV; cbn [andb negb];
        [|cbn -[msg_rest allow N.eqb]; rewrite N.eqb_refl; reflexivity].
      destruct (c_build ch); cbn [negb]; [|cbn -[msg_rest allow N.eqb]; rewrite N.eqb_refl; reflexivity].
      destruct (c_commit ch); cbn [negb]; [|cbn -[msg_rest allow N.eqb]; rewrite N.eqb_refl; reflexivity].
      rewrite (body_equiv e rq b WB). reflexivity.
    - destruct (c_lease ch); cbn [negb]; [|reflexivity].
      destruct (e_live body e) eqn:LV; cbn [andb negb]; [|reflexivity].
      destruct (c_build ch); cbn [negb]; [|reflexivity].
      destruct (c_commit ch); cbn [negb]; [|reflexivity].
      rewrite (body_equiv e rq b WB). reflexivity.
  Qed.
End LadderProofs.

(* ------------------------------------------------------------------ example: the hypotheses are satisfiable and the
   order of the rungs matters.  Bodies and replies are numbers; the shapers are the identity on the
   body (so byte and message shaping agree), a cached failure for the question is shadowed by a
   denial zone admitted later: the wire ladder declines, the decoded ladder synthesises the denial. *)
Definition ex_q := mk_question [3;110;120;102;0] 1 1.
Definition ex_rq := mk_lreq ex_q true false false false true true false false.
Definition ex_chain := mk_chain false true true true true true.
Definition ex_zone_eval (z : N * N) (q : question) : option N := if snd z =? 2 then Some 99 else None.
Definition ex_store (snapshot : N) : store N :=
  mk_store N (fun _ _ => None) (fun _ => None) true (fun _ => [(7, snapshot)]) true
           (fun _ _ => Some (mk_failure true [(7, 1)])).
Example ex_store_ok : forall s, store_ok N ex_zone_eval (ex_store s).
Proof.
  intros s q f H _ z Hin. cbn in H. inversion H; subst f. cbn in Hin. destruct Hin as [<-|[]]. reflexivity.
Qed.
(* snapshot unchanged since the failure was recorded: served from bytes *)
Example ex_failure_served :
  wire_ladder N N (fun b _ => b) (fun b _ => b) (fun _ => 2) (ex_store 1) (fun _ => 1%nat) ex_rq ex_chain
  = WServed N (OReply N 2) (fun _ => 1%nat).
Proof. reflexivity. Qed.
(* the zone's snapshot was replaced (a proof was admitted): the wire ladder declines and the decoded
   ladder answers from the denial rung, not from the failure *)
Example ex_failure_shadowed :
  (exists tk, wire_ladder N N (fun b _ => b) (fun b _ => b) (fun _ => 2) (ex_store 2) (fun _ => 1%nat) ex_rq ex_chain
              = WDeclined N tk None) /\
  fst (serve_dns N N (fun b _ => b) (fun b _ => b) (fun b _ => b) (fun b _ => b) (fun _ => 2) (fun _ => 2)
                 (fun _ => 3) (fun b _ => b) ex_zone_eval (ex_store 2) (fun _ => 1%nat) ex_rq ex_chain)
  = OReply N 99.
Proof. split; [eexists; reflexivity|reflexivity]. Qed.
