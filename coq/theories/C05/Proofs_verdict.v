(* C05 — the byte path's DO-class verdict serves exactly what the decoded path writes for an exact hit. *)
From Coq Require Import List Bool Arith NArith Lia.
Import ListNotations.
From Sdns Require Import C05.Chase C05.Proofs_chase C05.Verdict.
Open Scope N_scope.

Section VerdictProofs.
  Variable name : Type.
  Variable fold : name -> name.
  Variable name_eqb : name -> name -> bool.
  Hypothesis name_eqb_spec : forall a b, name_eqb a b = true <-> a = b.

  Notation rrec := (rrec name).
  Notation vbody := (vbody name).
  Notation is_plain := (rec_plain name).

  (* ---------------------------------------------------------------- ClearDNSSEC *)
  Lemma filter_idem {A} (p : A -> bool) (l : list A) : filter p (filter p l) = filter p l.
  Proof. induction l as [|x l IH]; [reflexivity|]. cbn. destruct (p x) eqn:P; [cbn; rewrite P; now f_equal|exact IH]. Qed.

  Lemma clear_dnssec_idem qtype (b : vbody) :
    clear_dnssec name qtype (clear_dnssec name qtype b) = clear_dnssec name qtype b.
  Proof.
    unfold clear_dnssec. destruct (qtype =? TypeRRSIG) eqn:Q; [reflexivity|]. cbn. now rewrite !filter_idem.
  Qed.

  Lemma filter_plain_no_dnssec (rs : list rrec) : existsb (rec_dnssec name) (filter is_plain rs) = false.
  Proof.
    induction rs as [|r rs IH]; [reflexivity|]. cbn. destruct (is_plain r) eqn:P; [|exact IH].
    cbn. rewrite IH. unfold rec_plain in P. now rewrite (proj1 (negb_true_iff _) P).
  Qed.

  Lemma clear_dnssec_clean qtype (b : vbody) :
    (qtype =? TypeRRSIG) = false ->
    existsb (rec_dnssec name) (vb_an name (clear_dnssec name qtype b) ++ vb_ns name (clear_dnssec name qtype b)) = false.
  Proof.
    intro Q. unfold clear_dnssec. rewrite Q. cbn. rewrite existsb_app, !filter_plain_no_dnssec. reflexivity.
  Qed.

  (* a body without DNSSEC records is its own ClearDNSSEC form *)
  Lemma filter_plain_id (rs : list rrec) : existsb (rec_dnssec name) rs = false -> filter is_plain rs = rs.
  Proof.
    induction rs as [|r rs IH]; [reflexivity|]. cbn. intro H. apply orb_false_iff in H as [H1 H2].
    unfold rec_plain at 1. rewrite H1. cbn. now rewrite IH.
  Qed.

  Lemma clear_dnssec_plain qtype (b : vbody) :
    existsb (rec_dnssec name) (vb_an name b ++ vb_ns name b) = false -> clear_dnssec name qtype b = b.
  Proof.
    intro H. rewrite existsb_app in H. apply orb_false_iff in H as [Ha Hn].
    unfold clear_dnssec. destruct (qtype =? TypeRRSIG); [reflexivity|].
    rewrite (filter_plain_id _ Ha), (filter_plain_id _ Hn). now destruct b.
  Qed.

  (* ---------------------------------------------------------------- the served body *)
  (* whatever the byte path serves for an exact entry is the full stored body after the edns writer's
     DNSSEC step - for every body, question type and DO bit *)
  Lemma wire_exact_body qtype (b r : vbody) do :
    wire_exact name (admission name qtype b) do = WServe name r -> r = edns_write_msg name qtype do b.
  Proof.
    unfold wire_exact, admission, wire_body_for, info_dnssec, edns_write_msg. cbn [ve_flags ve_qtype ve_full ve_stripped].
    set (f := prepare_wire_serve name qtype b).
    destruct (negb (vf_eligible f)); [discriminate|].
    destruct (negb (vf_chase_safe f)); [discriminate|].
    destruct do; cbn [orb negb andb].
    - intro H. now inversion H.
    - destruct (vf_dnssec f) eqn:D; cbn [negb orb].
      + destruct (qtype =? TypeRRSIG) eqn:Q; cbn [negb andb].
        * (* RRSIG question: the stored body for any DO; ClearDNSSEC leaves it alone *)
          rewrite andb_false_r. intro H. inversion H. unfold clear_dnssec. now rewrite Q.
        * unfold prepare_stripped. rewrite D, Q. cbn [negb orb].
          destruct (negb (vf_ready (prepare_wire_serve name qtype (clear_dnssec name qtype b))) ||
                    vf_dnssec (prepare_wire_serve name qtype (clear_dnssec name qtype b))) eqn:S; [discriminate|].
          apply orb_false_iff in S as [_ S]. rewrite S. cbn. intro H. now inversion H.
      + (* no DNSSEC records at all: the stored body is its own stripped form *)
        rewrite D. cbn [andb]. intro H. inversion H. subst r. symmetry. apply clear_dnssec_plain. exact D.
  Qed.

  (* a client without DO never sees a DNSSEC record in answer or authority from the byte path, unless it
     asked for RRSIG *)
  Lemma wire_exact_nodo_clean qtype (b r : vbody) :
    (qtype =? TypeRRSIG) = false ->
    wire_exact name (admission name qtype b) false = WServe name r ->
    existsb (rec_dnssec name) (vb_an name r ++ vb_ns name r) = false.
  Proof.
    intros Q H. apply wire_exact_body in H. subst r. unfold edns_write_msg. now apply clear_dnssec_clean.
  Qed.

  (* ---------------------------------------------------------------- the decoded chase on a chase-safe entry *)
  Variable qtype : N.
  Variable cd : bool.
  Variable ns_dup : rrec -> rrec -> bool.
  Notation additional := (additional name fold name_eqb qtype ns_dup).
  Notation to_msg := (to_msg name cd).
  Notation stamp := (stamp name).

  Lemma has_type_stamp t ttl (rs : list rrec) : has_type name t (map (stamp ttl) rs) = has_type name t rs.
  Proof. unfold has_type. induction rs as [|r rs IH]; [reflexivity|]. cbn. now rewrite IH. Qed.

  Lemma no_self_alias_in qname (rs : list rrec) ttl :
    no_self_alias name fold name_eqb qname rs = true ->
    forall r, In r (map (stamp ttl) rs) -> r_type name r = TypeCNAME -> fold (r_target name r) <> fold qname.
  Proof.
    unfold no_self_alias. rewrite forallb_forall. intros H r Hin Ht.
    apply in_map_iff in Hin as [r0 [<- Hin0]]. specialize (H r0 Hin0). cbn in Ht |- *.
    rewrite Ht, N.eqb_refl in H. cbn in H. apply negb_true_iff in H.
    intro E. apply name_eqb_spec in E. congruence.
  Qed.

  (* additionalAnswer leaves the message of a chase-safe entry as ToMsg made it *)
  Lemma chase_safe_additional_id sub qname ttl (b : vbody) :
    vf_chase_safe (prepare_wire_serve name qtype b) = true ->
    no_self_alias name fold name_eqb qname (vb_an name b) = true ->
    additional sub qname (to_msg (centry_of name qname ttl b)) = to_msg (centry_of name qname ttl b).
  Proof.
    intros Hs Hn. unfold Chase.additional, Chase.to_msg, centry_of. cbn [ce_rcode ce_answers ce_ns ce_ad ce_ttl].
    cbn [vf_chase_safe prepare_wire_serve] in Hs.
    destruct ((qtype =? TypeCNAME) || (qtype =? 43)) eqn:Q; [reflexivity|].
    destruct (vb_rcode name b =? 3) eqn:R; [reflexivity|].
    apply orb_false_iff in Q as [Q1 Q2]. unfold TypeDS in Hs. rewrite Q1, Q2 in Hs. cbn [orb] in Hs.
    pose proof (no_self_alias_in qname _ ttl Hn) as Hc.
    destruct (has_type name qtype (vb_an name b)) eqn:HQ.
    - rewrite (scan_found name fold name_eqb name_eqb_spec qtype qname _ None); [reflexivity| |exact Hc].
      unfold Chase.has_qtype. change (has_type name qtype (map (stamp ttl) (vb_an name b)) = true). now rewrite has_type_stamp.
    - cbn [orb] in Hs. apply negb_true_iff in Hs.
      rewrite (scan_target name fold name_eqb name_eqb_spec qtype qname _ None); [| |exact Hc].
      + (* no alias record: the scan ends without a target *)
        assert (E : forall (rs : list rrec) t, has_type name TypeCNAME rs = false ->
                  fold_left (fun acc r => if r_type name r =? TypeCNAME then Some (r_target name r) else acc) rs t = t).
        { induction rs as [|r rs IH]; intros t H; [reflexivity|]. cbn in H. apply orb_false_iff in H as [H1 H2].
          cbn. rewrite H1. now apply IH. }
        rewrite E; [reflexivity|]. now rewrite has_type_stamp.
      + unfold Chase.has_qtype. change (has_type name qtype (map (stamp ttl) (vb_an name b)) = false). now rewrite has_type_stamp.
  Qed.

  (* the two statements together: for an exact entry the byte path serves, the decoded path's message is
     ToMsg's (no chase), and the sections it writes after the edns writer's DNSSEC step are the sections of
     the body the byte path copied *)
  Lemma wire_verdict_eq_msg_lemma sub qname ttl (b r : vbody) do :
    no_self_alias name fold name_eqb qname (vb_an name b) = true ->
    wire_exact name (admission name qtype b) do = WServe name r ->
    additional sub qname (to_msg (centry_of name qname ttl b)) = to_msg (centry_of name qname ttl b)
    /\ r = edns_write_msg name qtype do b.
  Proof.
    intros Hn H. split; [|now apply wire_exact_body].
    apply chase_safe_additional_id; [|exact Hn].
    unfold wire_exact, admission in H. cbn [ve_flags] in H.
    destruct (negb (vf_eligible (prepare_wire_serve name qtype b))); [discriminate|].
    destruct (vf_chase_safe (prepare_wire_serve name qtype b)); [reflexivity|discriminate].
  Qed.
End VerdictProofs.

(* ---------------------------------------------------------------- examples (names are numbers) *)
Definition exA : rrec N := mk_rrec N 1 0 11 300.
Definition exSigA : rrec N := mk_rrec N 46 0 12 300.
Definition exNsec : rrec N := mk_rrec N 47 0 13 60.
Definition exSigNsec : rrec N := mk_rrec N 46 0 14 60.
Definition exSoa : rrec N := mk_rrec N 6 0 15 300.

(* signed A answer: DO=1 gets the stored body, DO=0 the stripped one (A alone), on both paths *)
Example ex_signed_a :
  let b := mk_vbody N 0 true [exA; exSigA] [] [] in
  wire_exact N (admission N 1 b) true = WServe N b /\
  wire_exact N (admission N 1 b) false = WServe N (mk_vbody N 0 true [exA] [] []) /\
  edns_write_msg N 1 false b = mk_vbody N 0 true [exA] [] [].
Proof. vm_compute. repeat split. Qed.

(* an RRSIG question keeps its signatures for any DO; an NSEC question does not (both paths strip) *)
Example ex_rrsig_question :
  let b := mk_vbody N 0 true [exSigA] [] [] in wire_exact N (admission N 46 b) false = WServe N b.
Proof. reflexivity. Qed.
Example ex_nsec_question_nodo :
  let b := mk_vbody N 0 true [exNsec; exSigNsec] [] [] in
  wire_exact N (admission N 47 b) false = WServe N (mk_vbody N 0 true [] [] []) /\
  edns_write_msg N 47 false b = mk_vbody N 0 true [] [] [].
Proof. vm_compute. split; reflexivity. Qed.

(* signed NODATA: the stripped body keeps the SOA only *)
Example ex_signed_nodata :
  let b := mk_vbody N 0 true [] [exSoa; exSigA; exNsec; exSigNsec] [] in
  wire_exact N (admission N 28 b) false = WServe N (mk_vbody N 0 true [] [exSoa] []).
Proof. reflexivity. Qed.

(* a signed alias without its terminal is not chase-safe: the composer's business (Chase.v) *)
Example ex_alias_goes_to_chase :
  wire_exact N (admission N 1 (mk_vbody N 0 false [mk_rrec N 5 7 16 300] [] [])) true = WChase N.
Proof. reflexivity. Qed.

(* the premise no_self_alias is necessary: "n CNAME n" + "n A" is chase-safe by its flags (served from
   bytes as stored), while the decoded scan answers SERVFAIL - the shape admission refuses *)
Example ex_self_alias_needed :
  let b := mk_vbody N 0 false [mk_rrec N 5 2 17 300; mk_rrec N 1 0 18 300] [] [] in
  wire_exact N (admission N 1 b) true = WServe N b /\
  additional N (fun n => n) N.eqb 1 (fun _ _ => false) (fun n => MUpstream N n) 2 (to_msg N false (centry_of N 2 300 b)) = MServfail N /\
  no_self_alias N (fun n => n) N.eqb 2 (vb_an N b) = false.
Proof. vm_compute. repeat split. Qed.
