(* C05 — cache.prepareWireServe TRANSLATED from source (Gen.C05.go_prepareWireServe, with wire.ParseHeader /
   ParseQuestion / ParseRR / SkipName) against the abstract admission verdict Verdict.prepare_wire_serve, for
   ALL octet strings: whenever the translated parsers walk the body record by record to its end, the flag byte
   the translated function returns is the model's verdict on the record TYPES the walk met (answer, authority,
   additional split by the header counts) - and it is 0 (ineligible) when the header, the question, a record
   or the closing length test fails.  The walk is stated with the translated wire.ParseRR itself, so no byte
   model of a packed message is needed. *)
From Coq Require Import List Bool NArith ZArith Lia.
Import ListNotations.
From Sdns Require Import Common.Base Common.GoList Gen.C05 C05.Chase C05.Verdict C05.Prepare.
Open Scope N_scope.

Lemma gen_prepare_loop : forall fuel n h ok q answered ts k lf i body off fl hq hc e,
  length ts = k -> (k < lf)%nat -> (i + Z.of_nat k = n)%Z ->
  rr_types fuel k body off = Some (ts, e) ->
  go_prepareWireServe_loop1 fuel n lf i body fl h ok q off answered hq hc =
  let '(fl', hq', hc') := walk_model (Z.of_N (T_Header_ANCount h)) answered (T_wire_Question_Qtype q) i ts (fl, hq, hc) in
  (GoNext, (body, fl', h, ok, q, e, answered, hq', hc')).
Proof.
  intros fuel n h ok q answered ts. induction ts as [|t ts IH]; intros k lf i body off fl hq hc e HL HF HN HW.
  - cbn in HL. subst k. cbn in HW. injection HW as <-. destruct lf; [lia|].
    cbn [go_prepareWireServe_loop1 walk_model].
    destruct (Z.ltb_spec i n); [lia|]. reflexivity.
  - cbn in HL. subst k. destruct lf as [|lf]; [lia|].
    cbn [rr_types] in HW.
    destruct (go_ParseRR fuel body off) as [[rr okr]|] eqn:PR; [|discriminate].
    destruct okr; [|discriminate].
    destruct (rr_types fuel (length ts) body (T_wire_RR_End rr)) as [[ts' e']|] eqn:RT; [|discriminate].
    injection HW as Ht Hts He. subst t ts' e'.
    cbn [go_prepareWireServe_loop1]. rewrite PR.
    destruct (Z.ltb_spec i n); [|lia].
    cbn [negb]. cbn [walk_model].
    assert (IH' := fun fl hq hc => IH (length ts) lf (i + 1)%Z body (T_wire_RR_End rr) fl hq hc e eq_refl ltac:(lia) ltac:(lia) RT).
    destruct (i <? answered)%Z; cbn [andb];
      destruct ((T_wire_RR_Type rr =? 46) || (T_wire_RR_Type rr =? 47) || (T_wire_RR_Type rr =? 50)); cbn [andb];
      destruct (i <? Z.of_N (T_Header_ANCount h))%Z; cbn [andb];
      destruct (T_wire_RR_Type rr =? T_wire_Question_Qtype q); destruct (T_wire_RR_Type rr =? 5); apply IH'.
Qed.

Lemma walk_model_spec an answered qtype : forall ts i fl hq hc,
  (0 <= i)%Z ->
  walk_model an answered qtype i ts (fl, hq, hc) =
  (if existsb is_dnssec_ty (firstn (Z.to_nat (answered - i)) ts) then N.lor fl 2 else fl,
   hq || existsb (fun t => t =? qtype) (firstn (Z.to_nat (an - i)) ts),
   hc || existsb (fun t => t =? 5) (firstn (Z.to_nat (an - i)) ts)).
Proof.
  induction ts as [|t ts IH]; intros i fl hq hc Hi.
  - cbn. rewrite !firstn_nil. cbn. now rewrite !orb_false_r.
  - cbn [walk_model]. rewrite IH by lia.
    replace (Z.to_nat (answered - (i + 1))) with (Nat.pred (Z.to_nat (answered - i))) by lia.
    replace (Z.to_nat (an - (i + 1))) with (Nat.pred (Z.to_nat (an - i))) by lia.
    fold (is_dnssec_ty t).
    destruct (Z.ltb_spec i answered) as [A|A]; destruct (Z.ltb_spec i an) as [B|B]; cbn [andb].
    + destruct (Z.to_nat (answered - i)) as [|a] eqn:EA; [lia|]. destruct (Z.to_nat (an - i)) as [|b] eqn:EB; [lia|].
      cbn [Nat.pred firstn existsb].
      destruct (is_dnssec_ty t); cbn [orb];
        destruct (t =? qtype); destruct (t =? 5); cbn [orb];
        rewrite ?orb_true_r, ?N.lor_assoc; cbn [N.lor]; try reflexivity;
        destruct (existsb is_dnssec_ty (firstn a ts)); try reflexivity;
        rewrite <- N.lor_assoc; reflexivity.
    + destruct (Z.to_nat (answered - i)) as [|a] eqn:EA; [lia|]. replace (Z.to_nat (an - i)) with 0%nat by lia.
      cbn [Nat.pred firstn existsb].
      destruct (is_dnssec_ty t); cbn [orb]; try reflexivity.
      destruct (existsb is_dnssec_ty (firstn a ts)); try reflexivity.
      rewrite <- N.lor_assoc; reflexivity.
    + replace (Z.to_nat (answered - i)) with 0%nat by lia. destruct (Z.to_nat (an - i)) as [|b] eqn:EB; [lia|].
      cbn [Nat.pred firstn existsb].
      destruct (t =? qtype); destruct (t =? 5); cbn [orb]; rewrite ?orb_true_r; reflexivity.
    + replace (Z.to_nat (answered - i)) with 0%nat by lia. replace (Z.to_nat (an - i)) with 0%nat by lia.
      reflexivity.
Qed.

Lemma existsb_map_ty (p : N -> bool) ts : existsb (fun r => p (r_type N r)) (map tyrec ts) = existsb p ts.
Proof. induction ts as [|t ts IH]; [reflexivity|]. cbn. now rewrite IH. Qed.

Lemma firstn_add_split {A} (a b : nat) (l : list A) : firstn (a + b) l = firstn a l ++ firstn b (skipn a l).
Proof.
  revert l. induction a as [|a IH]; intros l; [reflexivity|].
  destruct l as [|x l]; [cbn; now rewrite firstn_nil|]. cbn. now rewrite IH.
Qed.

Theorem gen_prepare_wire_serve : forall fuel body h q ts e,
  go_ParseHeader body = (h, true) -> T_Header_QDCount h = 1 ->
  go_ParseQuestion fuel body 12 = Some (q, true) ->
  rr_types fuel (N.to_nat (T_Header_ANCount h) + N.to_nat (T_Header_NSCount h) + N.to_nat (T_Header_ARCount h))
           body (T_wire_Question_End q) = Some (ts, e) ->
  go_prepareWireServe fuel body =
  Some (if (e =? go_len body)%Z
        then vflags_byte (prepare_wire_serve N (T_wire_Question_Qtype q) (body_of_types h ts))
        else 0).
Proof.
  intros fuel body h q ts e PH QD PQ RT.
  unfold go_prepareWireServe. rewrite PH. cbv zeta. rewrite QD. cbn [N.eqb Pos.eqb negb orb]. rewrite PQ. cbn [negb].
  set (an := T_Header_ANCount h) in *. set (ns := T_Header_NSCount h) in *. set (ar := T_Header_ARCount h) in *.
  set (k := (N.to_nat an + N.to_nat ns + N.to_nat ar)%nat) in *.
  assert (HL : length ts = k).
  { clear -RT. revert RT. generalize (T_wire_Question_End q). generalize k. clear.
    intros k. revert ts e. induction k as [|k IH]; intros ts e off H.
    - cbn in H. now injection H as <- <-.
    - cbn in H. destruct (go_ParseRR fuel body off) as [[rr [|]]|]; try discriminate.
      destruct (rr_types fuel k body (T_wire_RR_End rr)) as [[ts' e']|] eqn:R; [|discriminate].
      injection H as <- <-. cbn. f_equal. eapply IH. exact R. }
  replace (Z.to_nat (Z.of_N an + Z.of_N ns + Z.of_N ar)) with k by (unfold k; lia).
  rewrite (gen_prepare_loop fuel (Z.of_N an + Z.of_N ns + Z.of_N ar)%Z h true q (Z.of_N an + Z.of_N ns)%Z ts k (S k) 0%Z body
             (T_wire_Question_End q) 0 false false e HL ltac:(lia) ltac:(unfold k; lia) RT).
  fold an. rewrite walk_model_spec by lia.
  rewrite !Z.sub_0_r. cbn [orb].
  replace (Z.to_nat (Z.of_N an + Z.of_N ns)) with (N.to_nat an + N.to_nat ns)%nat by lia.
  replace (Z.to_nat (Z.of_N an)) with (N.to_nat an) by lia.
  destruct (Z.eqb_spec e (go_len body)) as [E|E]; cbn [negb]; [|reflexivity].
  f_equal. unfold prepare_wire_serve, body_of_types, vflags_byte. cbn [vb_rcode vb_an vb_ns vf_eligible vf_dnssec vf_chase_safe].
  fold an ns.
  unfold has_type. rewrite !(existsb_map_ty (fun t => t =? _)).
  unfold rec_dnssec, is_dnssec. rewrite <- map_app, <- firstn_add_split.
  change (fun r : rrec N => (r_type N r =? TypeRRSIG) || (r_type N r =? TypeNSEC) || (r_type N r =? TypeNSEC3))
    with (fun r : rrec N => is_dnssec_ty (r_type N r)).
  rewrite (existsb_map_ty is_dnssec_ty).
  unfold go_Header_Rcode, TypeCNAME, TypeDS.
  replace (Z.of_N (N.land (T_Header_Flags h) 15) =? 3)%Z with (N.land (T_Header_Flags h) 15 =? 3)
    by (destruct (N.eqb_spec (N.land (T_Header_Flags h) 15) 3), (Z.eqb_spec (Z.of_N (N.land (T_Header_Flags h) 15)) 3); try reflexivity; lia).
  destruct (existsb is_dnssec_ty (firstn (N.to_nat an + N.to_nat ns) ts));
    destruct ((N.land (T_Header_Flags h) 15 =? 3) || (T_wire_Question_Qtype q =? 5) || (T_wire_Question_Qtype q =? 43)
              || existsb (fun t => t =? T_wire_Question_Qtype q) (firstn (N.to_nat an) ts)
              || negb (existsb (fun t => t =? 5) (firstn (N.to_nat an) ts))); reflexivity.
Qed.

(* ... and every parse failure gives the zero byte (ineligible) *)
Lemma gen_prepare_wire_serve_refuses : forall fuel body h ok,
  go_ParseHeader body = (h, ok) -> (ok = false \/ T_Header_QDCount h <> 1) ->
  go_prepareWireServe fuel body = Some 0.
Proof.
  intros fuel body h ok PH H. unfold go_prepareWireServe. rewrite PH. cbv zeta.
  destruct H as [->|H]; [reflexivity|].
  destruct ok; [|reflexivity]. cbn [negb orb].
  destruct (N.eqb_spec (T_Header_QDCount h) 1); [contradiction|reflexivity].
Qed.
