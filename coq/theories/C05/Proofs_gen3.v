(* C05 — ties to the stage-3 translations of internal/wire (lists, loops): ParseHeader and the OPT
   builders.  The byte-built OPT of edns.appendWireOPT, composed from the TRANSLATED builders, is
   exactly the RFC 6891 encoding of the abstract record Edns.wire_opt. *)
From Coq Require Import Lia.
From Sdns Require Import Common.Base Common.GoList Gen.C05 C05.Model C05.Edns C05.Proofs_edns.
Open Scope N_scope.

(* ------------------------------------------------------------------ wire.ParseHeader *)
Lemma gen_parse_header : forall raw,
  go_ParseHeader raw =
  match parse_header raw with
  | Some h => (h, true)
  | None => (mk_T_Header 0 0 0 0 0 0, false)
  end.
Proof.
  intro raw. unfold go_ParseHeader, parse_header, blen, header_len, go_len.
  do 12 (destruct raw as [|? raw]; [reflexivity|]).
  assert (L : (Z.of_nat (length (n :: n0 :: n1 :: n2 :: n3 :: n4 :: n5 :: n6 :: n7 :: n8 :: n9 :: n10 :: raw)) <? 12)%Z = false)
    by (cbn [length]; lia).
  assert (L' : (N.of_nat (length (n :: n0 :: n1 :: n2 :: n3 :: n4 :: n5 :: n6 :: n7 :: n8 :: n9 :: n10 :: raw)) <? 12) = false)
    by (cbn [length]; lia).
  rewrite L, L'. reflexivity.
Qed.

(* ------------------------------------------------------------------ the OPT builders *)
Lemma put16_len v : length (go_put_be16 v) = 2%nat.  Proof. reflexivity. Qed.

Lemma gen_append_option dst code data :
  go_AppendOption dst code data = dst ++ encode_option (mk_eopt code data).
Proof. unfold go_AppendOption, encode_option. cbn [eo_code eo_data]. now rewrite <- !app_assoc. Qed.

Lemma gen_append_option_string dst code data :
  go_AppendOptionString dst code data = dst ++ encode_option (mk_eopt code data).
Proof. unfold go_AppendOptionString, encode_option. cbn [eo_code eo_data]. now rewrite <- !app_assoc. Qed.

Lemma gen_append_option_ede dst code text :
  go_AppendOptionEDE dst code text = dst ++ encode_option (ede_eopt (code, text)).
Proof.
  unfold go_AppendOptionEDE, encode_option, ede_eopt, OPT_EDE. cbn [eo_code eo_data fst snd].
  rewrite go_len_app. replace (go_len (go_put_be16 code)) with 2%Z by reflexivity.
  now rewrite <- !app_assoc.
Qed.

Lemma gen_append_opt_header dst size do :
  go_AppendOPTHeader dst size do =
  (dst ++ [0] ++ go_put_be16 41 ++ go_put_be16 size ++ go_put_be32 (if do then 32768 else 0) ++ [0; 0],
   (go_len dst + 9)%Z).
Proof.
  unfold go_AppendOPTHeader. destruct do; cbn [N.lor]; rewrite <- !app_assoc; f_equal;
    rewrite !go_len_app; reflexivity.
Qed.

Lemma copy_at_patch {A} (pre post : list A) a b x y :
  go_copy_at (pre ++ [a; b] ++ post) (go_len pre) [x; y] = pre ++ [x; y] ++ post.
Proof.
  unfold go_copy_at, go_len. rewrite Nat2Z.id.
  rewrite firstn_app, firstn_all, Nat.sub_diag. cbn [firstn]. rewrite app_nil_r.
  rewrite app_length. cbn [length app].
  replace (Nat.min (length pre + S (S (length post)) - length pre) 2) with 2%nat by lia.
  cbn [firstn]. f_equal.
  rewrite skipn_app, skipn_all2 by lia.
  replace (length pre + 2 - length pre)%nat with 2%nat by lia. reflexivity.
Qed.

Lemma gen_finish_opt pre a b post :
  go_FinishOPT (pre ++ [a; b] ++ post) (go_len pre) =
  pre ++ go_put_be16 (Z_to_uw two16 (go_len post)) ++ post.
Proof.
  unfold go_FinishOPT.
  assert (H : (go_len pre <? 0)%Z || (go_len (pre ++ [a; b] ++ post) <? go_len pre + 2)%Z = false).
  { rewrite !go_len_app. pose proof (go_len_nonneg pre). pose proof (go_len_nonneg post).
    replace (go_len [a; b]) with 2%Z by reflexivity. apply Bool.orb_false_iff. split; lia. }
  rewrite H.
  replace (go_len (pre ++ [a; b] ++ post) - go_len pre - 2)%Z with (go_len post)
    by (rewrite !go_len_app; replace (go_len [a; b]) with 2%Z by reflexivity; lia).
  unfold go_put_be16 at 1. apply copy_at_patch.
Qed.

Section OptBytes.
  Variable srv : list N -> list N.

  (* appendWireOPT over the translated builders writes, behind the body it was given, exactly the
     encoding of the abstract record - for every writer, every EDE, every body; no size premise:
     the 16-bit length fields wrap on both sides alike *)
  Lemma append_wire_opt_encodes : forall w ede body r,
    wire_opt srv w (option_map ede_eopt ede) = Some r ->
    append_wire_opt srv w ede body = body ++ encode_opt r.
  Proof.
    intros w ede body r H. unfold wire_opt in H. destruct (ew_noedns w); [discriminate|].
    injection H as <-. unfold append_wire_opt, encode_opt. cbn [or_size or_do or_options].
    rewrite gen_append_opt_header.
    set (pre := body ++ [0] ++ go_put_be16 41 ++ go_put_be16 (ew_size w) ++ go_put_be32 (if ew_do w then 32768 else 0)).
    set (os := own_options srv w ++ keepalive_option w ++ match option_map ede_eopt ede with Some e => [e] | None => [] end).
    assert (E : forall hd,
      (let body0 := match ew_cookie w with Some c => go_AppendOption hd OPT_COOKIE (srv c) | None => hd end in
       let body1 := match ew_nsid w with Some s => go_AppendOptionString body0 OPT_NSID s | None => body0 end in
       let body2 := if ew_keepalive w then go_AppendOption body1 OPT_KEEPALIVE (go_put_be16 tcp_keepalive_units) else body1 in
       match ede with Some e => go_AppendOptionEDE body2 (fst e) (snd e) | None => body2 end)
      = hd ++ encode_options os).
    { intro hd. subst os. unfold own_options, keepalive_option, encode_options, be16_bytes.
      cbv zeta.
      destruct (ew_cookie w) as [c|], (ew_nsid w) as [s|], (ew_keepalive w), ede as [[code text]|];
        cbn [option_map app flat_map fst snd];
        rewrite ?gen_append_option_ede, ?gen_append_option, ?gen_append_option_string, <- ?app_assoc, ?app_nil_r;
        try reflexivity. }
    cbv zeta in E. rewrite E.
    replace (body ++ [0] ++ go_put_be16 41 ++ go_put_be16 (ew_size w) ++ go_put_be32 (if ew_do w then 32768 else 0) ++ [0; 0])
      with (pre ++ [0; 0]) by (subst pre; now rewrite <- !app_assoc).
    replace (go_len body + 9)%Z with (go_len pre)
      by (subst pre; rewrite !go_len_app; destruct (ew_do w); reflexivity).
    rewrite <- app_assoc. rewrite gen_finish_opt. subst pre. now rewrite <- !app_assoc.
  Qed.

  (* the encoded record is as long as Edns.optrec_len says (the figure wire_opt_reserve_exact ties
     to wireOPTLen + the entry's EDE reserve) *)
  Lemma encode_options_len os :
    N.of_nat (length (encode_options os)) =
    fold_right (fun e acc => 4 + N.of_nat (length (eo_data e)) + acc) 0 os.
  Proof.
    induction os as [|o os IH]; [reflexivity|]. cbn [encode_options flat_map fold_right].
    fold (encode_options os). rewrite app_length, Nat2N.inj_add, IH. unfold encode_option.
    rewrite !app_length, !put16_len. f_equal. rewrite !Nat2N.inj_add. change (N.of_nat 2) with 2. rewrite N.add_assoc. reflexivity.
  Qed.

  Lemma encode_opt_len r : N.of_nat (length (encode_opt r)) = optrec_len (Some r).
  Proof.
    unfold encode_opt, optrec_len. rewrite !app_length, Nat2N.inj_add.
    cbn [length]. rewrite !Nat2N.inj_add, encode_options_len, put16_len.
    replace (length (go_put_be32 (if or_do r then 32768 else 0))) with 4%nat by (destruct (or_do r); reflexivity).
    rewrite !put16_len. change (N.of_nat 1) with 1. change (N.of_nat 2) with 2. change (N.of_nat 4) with 4. lia.
  Qed.

  Lemma append_wire_opt_fills_reserve : forall w ede body r,
    (forall c, ew_cookie w = Some c -> length (srv c) = 40%nat) ->
    wire_opt srv w (option_map ede_eopt ede) = Some r ->
    N.of_nat (length (append_wire_opt srv w ede body)) =
    N.of_nat (length body) + wire_opt_len w + ede_reserve (option_map ede_eopt ede).
  Proof.
    intros w ede body r Hc H. rewrite (append_wire_opt_encodes _ _ _ _ H).
    rewrite app_length, Nat2N.inj_add, encode_opt_len, <- H.
    rewrite (wire_opt_len_exact srv w _ Hc).
    unfold wire_opt in H. destruct (ew_noedns w); [discriminate|]. lia.
  Qed.
End OptBytes.

(* example: cookie + NSID + keepalive + cached EDE behind a two-octet body *)
Example ex_opt_bytes :
  let w := mk_ewriter false true 1232 (Some [1;2;3;4;5;6;7;8]) (Some [110;115]) true [] in
  append_wire_opt (fun c => c ++ c) w (Some (3, [120])) [7;7] =
  [7;7; 0; 0;41; 4;208; 0;0;128;0; 0;39;
   0;10;0;16;1;2;3;4;5;6;7;8;1;2;3;4;5;6;7;8; 0;3;0;2;110;115; 0;11;0;2;0;80; 0;15;0;3;0;3;120].
Proof. reflexivity. Qed.
