(* C05 — correspondence: case type and the two checkers evaluated with vm_compute
   on what the Go drivers recorded.
   check_case: the model computes what the implementation (and the library) did.
   spec_case : what the implementation did satisfies the specification, judged on the
               observations alone (no model function on the judged side). *)
From Sdns Require Export Common.Base Gen.C05 C05.Model C05.Edns C05.Chase C05.Verdict C05.Climit C05.Prepare.
Open Scope N_scope.

(* what dns.Msg.Unpack did on the packet: error, or the number of decoded questions and
   the facts read through the accessors of a message-born middleware.Request *)
Inductive libobs := LibErrObs | LibOkObs (nq : nat) (f : facts).

Inductive case :=
  (* Request.ParseWire on raw: refused (None) or the parsed facts; dns.Msg.Unpack on raw *)
| CasePW (raw : list N) (pw : option facts) (lib : libobs)
  (* Server.ServeRaw on a strict-slot transport (strict = true) or the ServeMsg-shaped
     reference (acceptHeader + Unpack + ServeMsg) on the same packet: observed verdict *)
| CaseIngress (raw : list N) (strict : bool) (v : verdict)
  (* header word of a served hit: wire.ApplyReply + ClearAD-on-CD on the stored header against
     Unpack + Msg.SetReply + ToMsg's header steps + Pack; the strict path only ever carries opcode 0 *)
| CaseReplyHdr (stored opcode : N) (rd cd : bool) (wire_flags msg_flags : N)
  (* two-server differential step: digests of the components of the two abstract replies
     (presence, header, question, answer, authority, additional, OPT) and of what the stub
     resolver saw, first from the wire-path server, then from the decoded-path server *)
| CaseDiff (w m : list N)
  (* edns.ResponseWriter: WireReady's reserve and the OPT WriteWire appended to a body with this
     WireInfo EDE, and the OPT WriteMsg left on a message whose own OPT carried [down]; [srvc] is
     the server cookie dnsutil.GenerateServerCookie gives for the writer's client half *)
| CaseEdns (w : ewriter) (srvc : list N) (ede : option eopt) (down : option (list eopt))
           (reserve : N) (obs_wire obs_msg : option optrec)
  (* the octets edns.ResponseWriter.WriteWire put behind the body it was handed (the reply's tail),
     the header counts it left, and the OPT the library decodes from that reply *)
| CaseOptBytes (w : ewriter) (srvc : list N) (ede : option (N * list N)) (arcount_before arcount_after : N)
               (obs_wire : option optrec) (tail : list N)
  (* alias composition on real cache state.  Names are numbers (one per folded name).  [wview]: the chain
     the question would walk on the wire-path server, read entry by entry through the overlay hook
     cache.VC05ChaseView (hop 0 = the alias entry, the others keyed by the name they were looked up under);
     [code_segs] / [code_comp]: what Cache.collectWireChase filled (stored names of the segments, in order) and the records
     and AD of composeWireChase's reply on that same state; [wire_reply]: answers of the reply the byte path
     really sent when the composer served it; [mview] the same view on the decoded-path server and
     [msg_reply] (rcode, answers) of the reply it really sent (None: nothing comparable was written) *)
| CaseChase (qtype : N) (cd : bool) (qname : N)
            (wview : option (centry N * list (N * centry N)))
            (code_segs : option (list N)) (code_comp : option (list (rrec N) * bool))
            (wire_reply : option (list (rrec N)))
            (mview : option (centry N * list (N * centry N)))
            (msg_reply : option (N * list (rrec N)))
  (* the admission-time serving verdict on real cache state (overlay hook cache.VC05VerdictView, taken right
     before the packet): the exact entry's full stored body decoded with the library, the flags the code keeps
     (wireServe), its stripped body + strippedServe, which body wireBodyFor picked for the client's DO bit
     (0 none / 1 stored / 2 stripped) with its flags, wireInfoFor's HasDNSSEC, the stored packed body itself
     ([] = not exported; fed to the translated prepareWireServe), whether the byte path served the exact hit
     (outcome counter `served`), and the sections (TTL erased) of the replies both servers really sent *)
| CaseVerdict (qtype : N) (do cd : bool) (qname : N)
              (full : vbody N) (code_flags : vflags) (code_stripped : option (vbody N * vflags))
              (code_choice : N) (code_choice_flags : vflags) (code_info_dnssec : bool)
              (wire_bytes : list N) (route_served : bool)
              (wire_reply msg_reply : option (vbody N))
  (* the per-client limiter on the real RateLimit.ServeDNS (driver `climit`, package middleware/ratelimit): one
     packet served as a wire-born request on one RateLimit and as the decoded message on a twin, both clients'
     limiters in the same state before.  [gate]: replay pass / internal writer / rate 0 / no address / loopback;
     [cached] / [tokens]: the client's remembered cookie and whole tokens before (refill stopped); [srv]: the
     sha256 part of dnsutil.GenerateServerCookie for every client half in the packet; [os]: the options of the
     message's OPT as the library decodes them; [echo]: Request.CookieEcho() of the wire-born request (None:
     ParseWire refused the packet - decoded observation only); observations: what happened (0 rest of the chain
     ran / 1 nothing written / 2 BADCOOKIE with these options in the reply OPT), cookie and tokens afterwards *)
| CaseClientRL (gate : crl_gate) (udp : bool) (cached : list N) (tokens : N) (srv : list (list N * list N))
               (os : list lopt) (echo : option (list N))
               (obs_wire obs_msg : option (N * list lopt * list N * N)).

Fixpoint bytes_eqb (a b : list N) : bool :=
  match a, b with
  | [], [] => true
  | x :: xs, y :: ys => (x =? y) && bytes_eqb xs ys
  | _, _ => false
  end.

Definition facts_eqb (a b : facts) : bool :=
  (f_id a =? f_id b) && (f_flags a =? f_flags b) && (f_qtype a =? f_qtype b) && (f_qclass a =? f_qclass b)
  && bytes_eqb (f_name a) (f_name b) && (f_qend a =? f_qend b)
  && Bool.eqb (f_hasopt a) (f_hasopt b) && (f_udpsize a =? f_udpsize b) && Bool.eqb (f_do a) (f_do b)
  && (f_version a =? f_version b) && Bool.eqb (f_ecs a) (f_ecs b) && Bool.eqb (f_nsid a) (f_nsid b)
  && Bool.eqb (f_ka a) (f_ka b) && bytes_eqb (f_cookie_client a) (f_cookie_client b)
  && bytes_eqb (f_cookie_echo a) (f_cookie_echo b).

Definition facts_opt_eqb (a b : option facts) : bool :=
  match a, b with
  | None, None => true
  | Some x, Some y => facts_eqb x y
  | _, _ => false
  end.

Definition verdict_eqb (a b : verdict) : bool :=
  match a, b with
  | VDrop, VDrop | VNotImpHdr, VNotImpHdr | VFormErrHdr, VFormErrHdr | VFormErrBody, VFormErrBody
  | VFormErrQd, VFormErrQd | VNotImpOpcode, VNotImpOpcode | VBadVers, VBadVers | VProceed, VProceed => true
  | _, _ => false
  end.

Definition eopt_eqb (a b : eopt) : bool := (eo_code a =? eo_code b) && bytes_eqb (eo_data a) (eo_data b).
Fixpoint eopts_eqb (a b : list eopt) : bool :=
  match a, b with
  | [], [] => true
  | x :: xs, y :: ys => eopt_eqb x y && eopts_eqb xs ys
  | _, _ => false
  end.
Definition optrec_eqb (a b : option optrec) : bool :=
  match a, b with
  | None, None => true
  | Some x, Some y => (or_size x =? or_size y) && Bool.eqb (or_do x) (or_do y) && eopts_eqb (or_options x) (or_options y)
  | _, _ => false
  end.
(* same record up to the order of the options *)
Definition count_opt (o : eopt) (l : list eopt) : nat := length (filter (eopt_eqb o) l).
Definition optrec_sameb (a b : option optrec) : bool :=
  match a, b with
  | None, None => true
  | Some x, Some y =>
      (or_size x =? or_size y) && Bool.eqb (or_do x) (or_do y) &&
      (length (or_options x) =? length (or_options y))%nat &&
      forallb (fun o => (count_opt o (or_options x) =? count_opt o (or_options y))%nat) (or_options x)
  | _, _ => false
  end.
Definition down_eqb (a b : option (list eopt)) : bool :=
  match a, b with
  | None, None => true
  | Some x, Some y => eopts_eqb x y
  | _, _ => false
  end.

Definition rrec_eqb (a b : rrec N) : bool :=
  (r_type N a =? r_type N b) && (r_target N a =? r_target N b) && (r_rest N a =? r_rest N b) && (r_ttl N a =? r_ttl N b).
Fixpoint rrecs_eqb (a b : list (rrec N)) : bool :=
  match a, b with
  | [], [] => true
  | x :: xs, y :: ys => rrec_eqb x y && rrecs_eqb xs ys
  | _, _ => false
  end.
Definition chase_lookup (store : list (N * centry N)) (n : N) : option (centry N) :=
  match find (fun p => fst p =? n) store with Some p => Some (snd p) | None => None end.
Definition opt_names_eqb (a b : option (list N)) : bool :=
  match a, b with
  | None, None => true
  | Some x, Some y => bytes_eqb x y
  | _, _ => false
  end.

(* verdict cases: TTL-blind section equality (the AD bit of a reply is hit_header_eq's business) *)
Definition vbody_eqb (a b : vbody N) : bool :=
  (vb_rcode N a =? vb_rcode N b) && rrecs_eqb (vb_an N a) (vb_an N b) && rrecs_eqb (vb_ns N a) (vb_ns N b)
  && rrecs_eqb (vb_ar N a) (vb_ar N b).
Definition vflags_eqb (a b : vflags) : bool :=
  Bool.eqb (vf_eligible a) (vf_eligible b) && Bool.eqb (vf_dnssec a) (vf_dnssec b) && Bool.eqb (vf_chase_safe a) (vf_chase_safe b).
Definition vchoice_eqb (a b : option (vbody N * vflags)) : bool :=
  match a, b with
  | None, None => true
  | Some (x, f), Some (y, g) => vbody_eqb x y && Bool.eqb (vb_ad N x) (vb_ad N y) && vflags_eqb f g
  | _, _ => false
  end.
(* wireServeFlags as the byte the code stores *)
Definition vflags_num (f : vflags) : N :=
  (if vf_eligible f then 1 else 0) + (if vf_dnssec f then 2 else 0) + (if vf_chase_safe f then 4 else 0).

(* per-client limiter cases *)
Fixpoint crl_lookup (tab : list (list N * list N)) (c : list N) : list N :=
  match tab with
  | [] => []
  | (k, v) :: rest => if bytes_eqb k c then v else crl_lookup rest c
  end.
Definition lopt_eqb (a b : lopt) : bool := (lo_code a =? lo_code b) && bytes_eqb (lo_data a) (lo_data b).
Fixpoint lopts_eqb (a b : list lopt) : bool :=
  match a, b with
  | [], [] => true
  | x :: xs, y :: ys => lopt_eqb x y && lopts_eqb xs ys
  | _, _ => false
  end.
Definition crl_obs_eqb (os : list lopt) (r : crl_out * crl_state) (o : N * list lopt * list N * N) : bool :=
  let '(kind, ropts, cookie, toks) := o in
  match fst r with
  | CrlNext => kind =? 0
  | CrlDrop => kind =? 1
  | CrlBadCookie idx c => (kind =? 2) && lopts_eqb (crl_replace idx c os) ropts
  end && bytes_eqb (crl_cookie (snd r)) cookie && (crl_tokens (snd r) =? toks).
Definition crl_obs_same (a b : N * list lopt * list N * N) : bool :=
  let '(k1, o1, c1, t1) := a in let '(k2, o2, c2, t2) := b in
  (k1 =? k2) && lopts_eqb o1 o2 && bytes_eqb c1 c2 && (t1 =? t2).

(* the model's walk / composition / decoded chase on a view *)
Definition model_collect (qtype qname : N) (v : centry N * list (N * centry N)) :=
  collect N (fun n => n) N.eqb (chase_lookup (snd v)) qtype 10 qname qname (fst v) [].
Definition model_msg (qtype : N) (cd : bool) (qname : N) (v : centry N * list (N * centry N)) :=
  msg_hit N (fun n => n) N.eqb (chase_lookup (snd v)) qtype cd (fun _ _ => false) 11 0 qname (fst v).

Definition check_case (c : case) : bool :=
  match c with
  | CasePW raw pw lib =>
      facts_opt_eqb (parse_wire raw) pw &&
      match lib_unpack raw, lib with
      | LOk m, LibOkObs nq f => (length (m_question m) =? nq)%nat && facts_eqb (facts_of m) f
      | LErr, LibErrObs => true
      | LUnmodelled, _ => true
      | _, _ => false
      end
  | CaseIngress raw strict v =>
      match (if strict then ingress_wire raw else ingress_msg raw) with
      | Some v' => verdict_eqb v' v
      | None => true     (* outside the library model *)
      end
  | CaseReplyHdr stored opcode rd cd wf mf =>
      (wire_hit_flags stored opcode rd cd =? wf) && (msg_hit_flags stored opcode rd cd =? mf)
  | CaseDiff w m => (length w =? 8)%nat && (length m =? 8)%nat   (* no model: shape only *)
  | CaseEdns w srvc ede down reserve ow om =>
      optrec_eqb (wire_opt (fun _ => srvc) w ede) ow && optrec_eqb (msg_opt (fun _ => srvc) w down) om
      && (wire_opt_len w =? reserve)
  | CaseOptBytes w srvc ede ar0 ar1 _ tail =>
      (* appendWireOPT composed from the translated internal/wire builders, run on an empty body *)
      if ew_noedns w then (match tail with [] => true | _ => false end) && (ar1 =? ar0)
      else bytes_eqb (append_wire_opt (fun _ => srvc) w ede []) tail && (ar1 =? ar0 + 1)
  | CaseChase qtype cd qname wview code_segs code_comp _ mview msg_reply =>
      (* Chase.collect = collectWireChase (same segments or both decline), Chase.compose_* = composeWireChase *)
      match wview with
      | Some v =>
          let r := model_collect qtype qname v in
          opt_names_eqb (option_map (map (fun p => ce_name N (snd p))) r) code_segs &&
          match r, code_comp with
          | Some segs, Some (recs, ad) =>
              rrecs_eqb (compose_answers N (map snd segs)) recs && Bool.eqb (compose_ad N cd (map snd segs)) ad
          | Some _, None => false
          | None, _ => true
          end
      | None => true
      end &&
      (* Chase.msg_hit = what the decoded path (handleCacheHit -> ToMsg -> additionalAnswer) answered *)
      match mview, msg_reply with
      | Some v, Some (rc', ans') =>
          match model_msg qtype cd qname v with
          | MReply _ rc ans _ _ => (rc =? rc') && rrecs_eqb ans ans'
          | MServfail _ => rc' =? 2
          | MUpstream _ _ => true      (* a hop left the cache: resolver's business *)
          end
      | _, _ => true
      end
  | CaseVerdict qtype do cd qname full cflags cstripped choice chflags cinfo bytes served wrep mrep =>
      let e := admission N qtype full in
      (* prepareWireServe / prepareStripped = what the entry really keeps *)
      vflags_eqb (ve_flags N e) cflags && vchoice_eqb (ve_stripped N e) cstripped &&
      (* wireBodyFor / wireInfoFor = what the code picks and reports for this client's DO bit *)
      vchoice_eqb (wire_body_for N e do)
                  (if choice =? 0 then None else if choice =? 1 then Some (full, chflags)
                   else match cstripped with Some (sb, _) => Some (sb, chflags) | None => None end) &&
      match wire_body_for N e do with Some (_, f) => Bool.eqb (info_dnssec N e f) cinfo | None => true end &&
      (* the translated prepareWireServe on the stored octets = the stored flag byte *)
      match bytes with
      | [] => true
      | _ => match go_prepareWireServe 300 bytes with Some n => n =? vflags_num cflags | None => false end &&
             (* ... and the walk of the translated parsers over them meets the decoded body's record types
                (premises of Proofs_prepare.gen_prepare_wire_serve on this entry) *)
             stored_walk_ok 300 bytes qtype full
      end &&
      (* the DO-class gates: a byte-served exact hit is one the model serves, with that body *)
      match wire_exact N e do with
      | WServe _ r => match wrep with Some w => vbody_eqb r w | None => true end
      | _ => negb served
      end &&
      (* the decoded path for a chase-safe entry: ToMsg's message after the edns writer's DNSSEC step *)
      match mrep with
      | Some m =>
          if vf_chase_safe (ve_flags N e) && no_self_alias N (fun n => n) N.eqb qname (vb_an N full)
          then vbody_eqb (edns_write_msg N qtype do full) m else true
      | None => true
      end
  | CaseClientRL g udp cached tokens srv os echo ow om =>
      let st := mk_crl_state cached tokens in
      match echo, ow with
      | Some e, Some o => crl_obs_eqb os (crl_serve_wire (crl_lookup srv) g udp st e os) o
      | None, None => true
      | _, _ => false
      end &&
      match om with
      | Some o => crl_obs_eqb os (crl_serve_msg (crl_lookup srv) g udp st os) o
      | None => false
      end
  end.

(* the specification, on observations only:
   - a packet the strict parser took is one the library decodes, with exactly one
     question, and both read the same facts;
   - (ingress cases are judged pairwise by the driver's Go-side oracle: the strict and the
     reference verdict for the same packet are equal; here only the shape is checked)
   - the two reply headers are the same word. *)
Definition spec_case (c : case) : bool :=
  match c with
  | CasePW raw pw lib =>
      match pw with
      | None => true
      | Some f =>
          match lib with
          | LibOkObs nq f' => (nq =? 1)%nat && facts_eqb f f'
          | LibErrObs => false
          end
      end
  | CaseIngress _ _ _ => true
  | CaseReplyHdr _ opcode _ _ wf mf => negb (opcode =? 0) || (wf =? mf)
  | CaseDiff w m => bytes_eqb w m
  | CaseEdns w _ ede down reserve ow om =>
      (* the byte-built OPT is the message OPT whenever the message is what ToMsg hands over;
         the reserve is the encoded length of the record without the EDE *)
      (negb (down_eqb down (tomsg_down ede)) || optrec_sameb ow om)
      && (optrec_len ow =? reserve + (if ew_noedns w then 0 else ede_reserve ede))
  | CaseOptBytes w _ _ ar0 ar1 ow tail =>
      (* the tail is the RFC 6891 encoding of the record the library reads back, nothing else *)
      match ow with
      | Some r => bytes_eqb tail (encode_opt r) && (ar1 =? ar0 + 1)
      | None => (match tail with [] => true | _ => false end) && (ar1 =? ar0)
      end
  | CaseChase _ _ _ _ _ code_comp wire_reply _ msg_reply =>
      (* observations only: what the composer builds is what the byte path sent and what the decoded
         path answered for the same packet on the same history *)
      match code_comp with
      | Some (recs, _) =>
          match wire_reply with Some w => rrecs_eqb recs w | None => true end &&
          match msg_reply with Some (rc, m) => (rc =? 0) && rrecs_eqb recs m | None => true end
      | None => true
      end
  | CaseVerdict _ _ _ _ _ _ _ _ _ _ _ _ wrep mrep =>
      (* observations only: the byte-served exact hit and the decoded reply for the same packet on the same
         history carry the same rcode and the same three sections, record for record *)
      match wrep, mrep with Some w, Some m => vbody_eqb w m | _, _ => true end
  | CaseClientRL _ _ _ _ _ _ _ ow om =>
      (* observations only: same hand-over / drop / BADCOOKIE reply, same cookie remembered, same tokens left *)
      match ow, om with Some a, Some b => crl_obs_same a b | _, _ => true end
  end.
