(* C05 — the per-client limiter with DNS cookies (middleware/ratelimit/ratelimit.go).  Definitions only.

   RateLimit.ServeDNS has two bodies behind common gates (replay pass, internal writer, rate 0, no / loopback
   client address): the DECODED body reads the cookie options of the message, serveWire reads the parsed
   offsets of a wire-born request (Request.CookieEcho) and materialises only for the UDP BADCOOKIE reply.
   Which one runs must not be observable: same hand-over to the rest of the chain / drop / BADCOOKIE reply,
   same token charged, same cookie remembered for the client.

   Cookies are octet strings here; the code compares their lower-case hex forms (option.String() of the
   library, hex.EncodeToString of the echoed octets): 2 hex digits per octet, so [len(hex) >= cookieSize] is
   [cookieSize <= 2 * len] and [hex[:cookieSize]] is the first cookieSize/2 octets.  cookieSize is translated
   from the source (Gen.C05.rl_cookie_size).  dnsutil.GenerateServerCookie(secret, ip, client) = client ++
   hex(sha256(ip, client, secret)): the hash is a function argument.  The token bucket is x/time/rate's with the
   refill stopped (one serve is one instant): Allow takes a whole token when there is one. *)
From Coq Require Import List Bool NArith Lia.
Import ListNotations.
From Sdns Require Import Common.Base Gen.C05 C05.Model.
Open Scope N_scope.

Fixpoint crl_eqb (a b : list N) : bool :=
  match a, b with
  | [], [] => true
  | x :: xs, y :: ys => (x =? y) && crl_eqb xs ys
  | _, _ => false
  end.
Definition crl_nil (a : list N) : bool := match a with [] => true | _ => false end.

Section Climit.
  Variable hash : list N -> list N.
  Definition crl_server (client : list N) : list N := client ++ hash client.
  Definition crl_half (c : list N) : list N := firstn (N.to_nat (rl_cookie_size / 2)) c.
  Definition crl_long (c : list N) : bool := rl_cookie_size <=? 2 * blen c.

  (* the client's limiter: the remembered cookie ("" = []) and the whole tokens left *)
  Record crl_state := mk_crl_state { crl_cookie : list N; crl_tokens : N }.
  (* rest of the chain runs / nothing is written / BADCOOKIE with option [idx] of the request OPT rewritten *)
  Inductive crl_out := CrlNext | CrlDrop | CrlBadCookie (idx : nat) (cookie : list N).

  (* l.rl.Allow() *)
  Definition crl_allow (t : N) : bool * N := if 1 <=? t then (true, t - 1) else (false, t).

  (* the gates in front of both bodies, in code order *)
  Record crl_gate := mk_crl_gate { cg_replay : bool; cg_internal : bool; cg_rate0 : bool; cg_noip : bool; cg_loopback : bool }.
  Definition crl_pass (g : crl_gate) : bool := cg_replay g || cg_internal g || cg_rate0 g || cg_noip g || cg_loopback g.

  (* ---- decoded body: the loop over the options of req.IsEdns0() ---- *)
  Fixpoint crl_msg_loop (udp : bool) (st : crl_state) (idx : nat) (os : list lopt) (server : list N)
      : (crl_out * crl_state) + list N :=
    match os with
    | [] => inr server
    | o :: rest =>
        if (lo_code o =? EDNS0COOKIE) && crl_long (lo_data o) then
          let server' := crl_server (crl_half (lo_data o)) in
          if crl_nil (crl_cookie st) || crl_eqb (crl_cookie st) (lo_data o) then
            inl (CrlNext, mk_crl_state server' (crl_tokens st))
          else if udp then
            let '(ok, t) := crl_allow (crl_tokens st) in
            if ok then inl (CrlBadCookie idx server', mk_crl_state server' t)
            else inl (CrlDrop, st)
          else crl_msg_loop udp st (S idx) rest server'
        else crl_msg_loop udp st (S idx) rest server
    end.
  (* the plain limiter behind the loop; the last cookie seen is remembered after the chain ran *)
  Definition crl_msg_end (st : crl_state) (r : (crl_out * crl_state) + list N) : crl_out * crl_state :=
    match r with
    | inl x => x
    | inr server =>
        let '(ok, t) := crl_allow (crl_tokens st) in
        if ok then (CrlNext, mk_crl_state (if crl_nil server then crl_cookie st else server) t)
        else (CrlDrop, st)
    end.
  Definition crl_msg (udp : bool) (st : crl_state) (os : list lopt) : crl_out * crl_state :=
    crl_msg_end st (crl_msg_loop udp st 0 os []).

  (* ---- serveWire: the echoed cookie from the parsed offsets; [os] are the options of the materialised
     request (read only on the UDP mismatch branch: the first cookie option, of any length) ---- *)
  Fixpoint crl_first_cookie (idx : nat) (os : list lopt) : option nat :=
    match os with
    | [] => None
    | o :: rest => if lo_code o =? EDNS0COOKIE then Some idx else crl_first_cookie (S idx) rest
    end.
  Definition crl_wire_at (i : nat) (udp : bool) (st : crl_state) (echo : list N) (os : list lopt) : crl_out * crl_state :=
    if crl_nil echo then
      let '(ok, t) := crl_allow (crl_tokens st) in
      if ok then (CrlNext, mk_crl_state (crl_cookie st) t) else (CrlDrop, st)
    else
      let server := crl_server (crl_half echo) in
      if crl_nil (crl_cookie st) || crl_eqb (crl_cookie st) echo then (CrlNext, mk_crl_state server (crl_tokens st))
      else
        let '(ok, t) := crl_allow (crl_tokens st) in
        if negb ok then (CrlDrop, st)
        else if udp then
          match crl_first_cookie i os with
          | Some idx => (CrlBadCookie idx server, mk_crl_state server t)
          | None => (CrlNext, mk_crl_state server t)
          end
        else (CrlNext, mk_crl_state server t).
  Definition crl_wire := crl_wire_at 0.

  (* RateLimit.ServeDNS for a message-born and for a wire-born (Undecoded) request *)
  Definition crl_serve_msg (g : crl_gate) (udp : bool) (st : crl_state) (os : list lopt) : crl_out * crl_state :=
    if crl_pass g then (CrlNext, st) else crl_msg udp st os.
  Definition crl_serve_wire (g : crl_gate) (udp : bool) (st : crl_state) (echo : list N) (os : list lopt) : crl_out * crl_state :=
    if crl_pass g then (CrlNext, st) else crl_wire udp st echo os.

  (* the request OPT's options as the BADCOOKIE reply carries them (CancelWithRcode shares req.Extra) *)
  Fixpoint crl_replace (idx : nat) (c : list N) (os : list lopt) : list lopt :=
    match os, idx with
    | [], _ => []
    | o :: rest, O => mk_lopt (lo_code o) c :: rest
    | o :: rest, S k => o :: crl_replace k c rest
    end.
End Climit.

(* the options of the message's OPT, as req.IsEdns0() gives them *)
Definition crl_msg_opts (m : lmsg) : list lopt :=
  match is_edns0 (m_extra m) with Some r => rr_opts r | None => [] end.
