(* C05 — the admission-time serving verdict and the DO class of an exact hit.  Definitions only.

   Byte path: prepareWireServe (middleware/cache/entry_wire.go) walks the packed body once at admission and
   records eligible / has-DNSSEC / chase-safe; CacheEntry.prepareStripped (types.go) packs the DO=0 body with
   dnsutil.ClearDNSSEC and keeps it only when that body is itself servable; wireBodyFor picks the body for the
   client's DO bit; wireInfoFor reports HasDNSSEC, on which edns.ResponseWriter.WriteWire diverts a DO=0 reply
   back to the decoded path; serveHitFromWire runs these gates in this order.
   Decoded path: handleCacheHit -> ToMsg (the FULL stored body) -> additionalAnswer (Chase.additional) ->
   edns.ResponseWriter.WriteMsg, which runs dnsutil.ClearDNSSEC for a client without DO.

   Records are Chase.rrec (type, alias target, opaque rest, TTL); a body is its rcode, AD bit and three
   sections.  A body here is always one the packer produced (parse failures of prepareWireServe - zero flags -
   are outside: the driver reports an ineligible entry as a mismatch). *)
From Coq Require Import List Bool NArith Lia.
Import ListNotations.
From Sdns Require Import C05.Chase.
Open Scope N_scope.

Section Verdict.
  Variable name : Type.
  Notation rrec := (rrec name).

  Record vbody := mk_vbody { vb_rcode : N; vb_ad : bool; vb_an : list rrec; vb_ns : list rrec; vb_ar : list rrec }.

  Definition TypeRRSIG : N := 46.
  Definition TypeNSEC : N := 47.
  Definition TypeNSEC3 : N := 50.
  Definition TypeDS : N := 43.

  (* dnsutil.isDNSSEC / the type switch of prepareWireServe: the record types DNSSEC stripping removes *)
  Definition is_dnssec (t : N) : bool := (t =? TypeRRSIG) || (t =? TypeNSEC) || (t =? TypeNSEC3).
  Definition rec_dnssec (r : rrec) : bool := is_dnssec (r_type name r).
  Definition rec_plain (r : rrec) : bool := negb (rec_dnssec r).

  (* wireServeFlags *)
  Record vflags := mk_vflags { vf_eligible : bool; vf_dnssec : bool; vf_chase_safe : bool }.
  Definition vf_ready (f : vflags) : bool := vf_eligible f && vf_chase_safe f.

  Definition has_type (t : N) (rs : list rrec) : bool := existsb (fun r => r_type name r =? t) rs.

  (* prepareWireServe: the DNSSEC flag from answer and authority only; chase-safe unless the answer carries
     an alias without a record of the asked type (NXDOMAIN, CNAME and DS questions are never chased) *)
  Definition prepare_wire_serve (qtype : N) (b : vbody) : vflags :=
    mk_vflags true
      (existsb rec_dnssec (vb_an b ++ vb_ns b))
      ((vb_rcode b =? 3) || (qtype =? TypeCNAME) || (qtype =? TypeDS)
       || has_type qtype (vb_an b) || negb (has_type TypeCNAME (vb_an b))).

  (* dnsutil.ClearDNSSEC: an RRSIG question keeps everything; otherwise answer and authority lose their DNSSEC
     records, order kept; the additional section is never filtered *)
  Definition clear_dnssec (qtype : N) (b : vbody) : vbody :=
    if qtype =? TypeRRSIG then b
    else mk_vbody (vb_rcode b) (vb_ad b) (filter rec_plain (vb_an b)) (filter rec_plain (vb_ns b)) (vb_ar b).

  (* CacheEntry.prepareStripped: no stripped body without DNSSEC records or for an RRSIG question; the packed
     ClearDNSSEC form is kept only when it is eligible + chase-safe and free of DNSSEC records itself *)
  Definition prepare_stripped (qtype : N) (b : vbody) (f : vflags) : option (vbody * vflags) :=
    if negb (vf_dnssec f) || (qtype =? TypeRRSIG) then None else
    let s := clear_dnssec qtype b in
    let sf := prepare_wire_serve qtype s in
    if negb (vf_ready sf) || vf_dnssec sf then None else Some (s, sf).

  (* what NewCacheEntryWithKey keeps for byte serving *)
  Record ventry := mk_ventry { ve_qtype : N; ve_full : vbody; ve_flags : vflags; ve_stripped : option (vbody * vflags) }.
  Definition admission (qtype : N) (b : vbody) : ventry :=
    let f := prepare_wire_serve qtype b in mk_ventry qtype b f (prepare_stripped qtype b f).

  (* CacheEntry.wireBodyFor *)
  Definition wire_body_for (e : ventry) (do : bool) : option (vbody * vflags) :=
    if do || negb (vf_dnssec (ve_flags e)) || (ve_qtype e =? TypeRRSIG) then Some (ve_full e, ve_flags e)
    else ve_stripped e.

  (* CacheEntry.wireInfoFor: WireInfo.HasDNSSEC for the chosen body *)
  Definition info_dnssec (e : ventry) (f : vflags) : bool := vf_dnssec f && negb (ve_qtype e =? TypeRRSIG).

  (* the DO-class gates of Cache.serveHitFromWire for an exact entry, in code order (prefetch, writer, size,
     limiter and lease gates are Ladder.v's), then the edns writer's commit-time test *)
  Inductive wres := WDecline | WChase | WServe (b : vbody).
  Definition wire_exact (e : ventry) (do : bool) : wres :=
    if negb (vf_eligible (ve_flags e)) then WDecline else        (* wireSkipEntry *)
    if negb (vf_chase_safe (ve_flags e)) then WChase else        (* serveChaseHit: Chase.v *)
    match wire_body_for e do with
    | None => WDecline                                           (* wireChainMismatch: wireSkipDNSSEC *)
    | Some (b, f) =>
        if negb do && info_dnssec e f then WDecline              (* edns.WriteWire: ErrWireFallback *)
        else WServe b
    end.

  (* edns.ResponseWriter.WriteMsg, DNSSEC part *)
  Definition edns_write_msg (qtype : N) (do : bool) (b : vbody) : vbody :=
    if do then b else clear_dnssec qtype b.

  (* the full stored body as the entry Chase.v's decoded chase reads *)
  Definition centry_of (nm : name) (ttl : N) (b : vbody) : centry name :=
    mk_centry name nm (vb_an b) (vb_ns b) (vb_ar b) (vb_rcode b) (vb_ad b) true ttl true true false.

  (* no alias record of the answer points, under folding, at the question (what additionalAnswer's in-order
     scan answers SERVFAIL for; refused at admission for the spelling an entry is admitted under) *)
  Variable fold : name -> name.
  Variable name_eqb : name -> name -> bool.
  Definition no_self_alias (qname : name) (rs : list rrec) : bool :=
    forallb (fun r => negb ((r_type name r =? TypeCNAME) && name_eqb (fold (r_target name r)) (fold qname))) rs.

  (* TTL-blind comparison of sections, for the observations of the driver *)
  Definition untimed (r : rrec) : rrec := stamp name 0 r.
End Verdict.
