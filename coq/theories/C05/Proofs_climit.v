(* C05 — the per-client limiter: serveWire (parsed cookie offsets) = the decoded body (cookie options of the
   message), outcome and limiter state, for every limiter state, transport, gate and option list with at most
   one cookie option (what the strict admission guarantees: Proofs.parse_wire_sound_strong). *)
From Coq Require Import List Bool NArith Lia.
Import ListNotations.
From Sdns Require Import Common.Base Gen.C05 C05.Model C05.Proofs C05.Climit.
Open Scope N_scope.

Lemma crl_long_is_8 c : crl_long c = (8 <=? blen c).
Proof.
  unfold crl_long, rl_cookie_size.
  destruct (N.leb_spec 16 (2 * blen c)), (N.leb_spec 8 (blen c)); try reflexivity; lia.
Qed.

Lemma crl_long_not_nil c : crl_long c = true -> crl_nil c = false.
Proof.
  rewrite crl_long_is_8. destruct c; [|reflexivity]. cbn. discriminate.
Qed.

Lemma crl_half_not_nil c : crl_long c = true -> crl_nil (crl_half c) = false.
Proof.
  rewrite crl_long_is_8. unfold crl_half, rl_cookie_size. intros H.
  destruct c as [|x c]; [cbn in H; discriminate|].
  change (N.to_nat (16 / 2)) with 8%nat. reflexivity.
Qed.

Section ClimitProofs.
  Variable hash : list N -> list N.

  Lemma crl_server_not_nil c : crl_nil c = false -> crl_nil (crl_server hash c) = false.
  Proof. unfold crl_server. destruct c; [discriminate|reflexivity]. Qed.

  (* a list without cookie options: the loop falls through with the cookie it was handed *)
  Lemma crl_loop_no_cookie udp st : forall os i s, cookie_count os = 0%nat ->
    crl_msg_loop hash udp st i os s = inr s /\ crl_first_cookie i os = None.
  Proof.
    induction os as [|o os IH]; intros i s H; [split; reflexivity|].
    unfold cookie_count in H. cbn [filter] in H.
    cbn [crl_msg_loop crl_first_cookie].
    destruct (lo_code o =? EDNS0COOKIE) eqn:E; [cbn in H; discriminate|].
    cbn [andb]. apply IH. exact H.
  Qed.

  (* the decoded body at loop position i with no cookie seen yet = serveWire on the echoed cookie *)
  Lemma crl_loop_is_wire udp st : forall os i, (cookie_count os <= 1)%nat ->
    crl_msg_end st (crl_msg_loop hash udp st i os []) = crl_wire_at hash i udp st (msg_cookie_echo os) os.
  Proof.
    induction os as [|o os IH]; intros i H.
    - cbn. unfold crl_wire_at. cbn. destruct (crl_allow (crl_tokens st)) as [ok t]. destruct ok; reflexivity.
    - unfold cookie_count in H. cbn [filter] in H.
      cbn [crl_msg_loop]. unfold msg_cookie_echo. cbn [find].
      destruct (lo_code o =? EDNS0COOKIE) eqn:E; cbn [andb].
      2:{ (* not a cookie option *)
          fold (msg_cookie_echo os). rewrite IH by exact H.
          unfold crl_wire_at. cbn [crl_first_cookie]. rewrite E. reflexivity. }
      cbn [length] in H. assert (H0 : cookie_count os = 0%nat) by (unfold cookie_count; lia).
      destruct (crl_loop_no_cookie udp st os (S i) (crl_server hash (crl_half (lo_data o))) H0) as [L1 L2].
      destruct (crl_loop_no_cookie udp st os (S i) [] H0) as [L3 _].
      rewrite <- crl_long_is_8.
      destruct (crl_long (lo_data o)) eqn:Lg.
      + (* the cookie option the decoded body reads: it is the echoed cookie *)
        unfold crl_wire_at. rewrite (crl_long_not_nil _ Lg).
        destruct (crl_nil (crl_cookie st) || crl_eqb (crl_cookie st) (lo_data o)); [reflexivity|].
        cbn [crl_first_cookie]. rewrite E.
        destruct udp.
        * destruct (crl_allow (crl_tokens st)) as [ok t]. destruct ok; reflexivity.
        * rewrite L1. cbn [crl_msg_end].
          rewrite (crl_server_not_nil _ (crl_half_not_nil _ Lg)).
          destruct (crl_allow (crl_tokens st)) as [ok t]. destruct ok; reflexivity.
      + (* a cookie option too short to be read: both bodies take the plain limiter *)
        rewrite L3. fold (msg_cookie_echo os). rewrite (no_cookie_find os H0).
        unfold crl_wire_at. cbn [crl_msg_end crl_nil].
        destruct (crl_allow (crl_tokens st)) as [ok t]. destruct ok; reflexivity.
  Qed.

  Theorem crl_wire_eq_msg_lemma : forall g udp st os echo,
    (cookie_count os <= 1)%nat -> echo = msg_cookie_echo os ->
    crl_serve_wire hash g udp st echo os = crl_serve_msg hash g udp st os.
  Proof.
    intros g udp st os echo H ->. unfold crl_serve_wire, crl_serve_msg.
    destruct (crl_pass g); [reflexivity|].
    unfold crl_wire, crl_msg. symmetry. apply crl_loop_is_wire. exact H.
  Qed.

  (* ... for every packet the strict admission takes: the wire-born request's echoed cookie against the
     options of the message the library decodes from the same octets *)
  Theorem crl_strict_eq_msg_lemma : forall g udp st raw f,
    bytes_ok raw -> parse_wire raw = Some f ->
    exists m, lib_unpack raw = LOk m /\
      crl_serve_wire hash g udp st (f_cookie_echo f) (crl_msg_opts m) = crl_serve_msg hash g udp st (crl_msg_opts m).
  Proof.
    intros g udp st raw f Hb Hp.
    destruct (parse_wire_sound_strong raw f Hb Hp) as [m S].
    unfold sound_msg in S.
    destruct S as (U & F & _ & _ & _ & _ & _ & _ & _ & _ & _ & _ & C).
    exists m. split; [exact U|].
    apply crl_wire_eq_msg_lemma.
    - unfold crl_msg_opts. destruct (is_edns0 (m_extra m)) as [o|] eqn:E; [apply (C o eq_refl)|cbn; lia].
    - subst f. unfold facts_of, crl_msg_opts. reflexivity.
  Qed.

  (* the premise is needed: with two cookie options the decoded body goes on to the second one over TCP *)
  Example ex_two_cookies_differ :
    let os := [mk_lopt 10 [1;2;3;4;5;6;7;8]; mk_lopt 10 [9;9;9;9;9;9;9;9]] in
    let st := mk_crl_state [7;7;7;7;7;7;7;7] 3 in
    crl_wire hash false st (msg_cookie_echo os) os <> crl_msg hash false st os.
  Proof. cbv. intros H. inversion H. Qed.
End ClimitProofs.

(* non-vacuity: a stale cookie over UDP - BADCOOKIE, one token, the fresh server cookie remembered - and over TCP *)
Example ex_crl_badcookie :
  let h := fun _ : list N => [0;0] in
  let os := [mk_lopt 3 []; mk_lopt 10 [1;2;3;4;5;6;7;8;0;0]] in
  let st := mk_crl_state [1;2;3;4;5;6;7;8;5;5] 2 in
  crl_msg h true st os = (CrlBadCookie 1 [1;2;3;4;5;6;7;8;0;0], mk_crl_state [1;2;3;4;5;6;7;8;0;0] 1) /\
  crl_wire h true st (msg_cookie_echo os) os = crl_msg h true st os /\
  crl_msg h false st os = (CrlNext, mk_crl_state [1;2;3;4;5;6;7;8;0;0] 1) /\
  crl_msg h true (mk_crl_state [1;2;3;4;5;6;7;8;5;5] 0) os = (CrlDrop, mk_crl_state [1;2;3;4;5;6;7;8;5;5] 0).
Proof. repeat split; reflexivity. Qed.
