(* C05 — alias composition: the byte path's cache-contained chase (Cache.serveChaseHit /
   collectWireChase / composeWireChase, middleware/cache/entry_wire_chase.go) and the decoded path's
   chase (handleCacheHit -> ToMsg -> additionalAnswer -> internalExchange -> handleCacheHit ...,
   middleware/cache/cache.go) over ONE abstract store.  Definitions only.

   A name is an opaque value with a case-folding function: the byte path compares folded names
   (foldWireNamesEqual, KeyWire), the decoded path compares the presentation strings exactly
   (cr.Target == q.Name, slices.Contains(targets, target)) and looks entries up under the folded key.
   All hops are asked with the client's qtype / qclass / CD, so the store is a function of the folded
   name alone (checkCache + full-preimage check = [lookup] + the [ce_name] comparison). *)
From Coq Require Import List Bool NArith Lia.
Import ListNotations.
Open Scope N_scope.

Definition is_nil {A} (l : list A) : bool := match l with [] => true | _ => false end.

Section Chase.
  Variable name : Type.
  Variable fold : name -> name.                 (* ASCII case folding *)
  Variable name_eqb : name -> name -> bool.     (* exact equality *)

  (* a record of an answer section: type, the alias target when it is a CNAME, an opaque rest (owner,
     class, RDATA) and the TTL *)
  Record rrec := mk_rrec { r_type : N; r_target : name; r_rest : N; r_ttl : N }.
  Definition TypeCNAME : N := 5.
  Definition stamp (ttl : N) (r : rrec) : rrec := mk_rrec (r_type r) (r_target r) (r_rest r) ttl.

  (* one cache entry as both paths see it (the body is the one chosen for the client's DO class) *)
  Record centry := mk_centry {
    ce_name : name;            (* folded owner of the stored question *)
    ce_answers : list rrec;    (* answer section in stored order *)
    ce_ns : list rrec;         (* authority section *)
    ce_extra : list rrec;      (* additional section without OPT *)
    ce_rcode : N;
    ce_ad : bool;              (* stored AD bit *)
    ce_live : bool;            (* remaining(now) > 0 *)
    ce_ttl : N;                (* uint32(remaining.Seconds()) *)
    ce_wire_ok : bool;         (* wireServe&wireEligible != 0 and a body exists for the client's DO class *)
    ce_recomposable : bool;    (* every answer record has a type the composer re-encodes *)
    ce_due : bool              (* refresh queue configured && PrefetchEligible && ShouldPrefetch *)
  }.

  Variable lookup : name -> option centry.      (* checkCache(Key(folded name, qtype, qclass, CD)) *)
  Variable qtype : N.
  Variable cd : bool.

  Definition has_qtype (rs : list rrec) : bool := existsb (fun r => r_type r =? qtype) rs.
  (* the target of the LAST alias record of a section (both paths keep overwriting) *)
  Definition last_cname (rs : list rrec) : option name :=
    fold_left (fun acc r => if r_type r =? TypeCNAME then Some (r_target r) else acc) rs None.

  (* ------------------------------------------------------------------ byte path *)
  Definition maxWireChaseHops : nat := 10.

  (* collectWireChase: fills the segments in chain order.  [budget] = len(segs) - n, [asked] the name the
     current entry answers (the client's question for the alias, the alias target for a hop), [visited]
     the folded targets keyed so far.  None = declined. *)
  Fixpoint collect (budget : nat) (qname : name) (asked : name) (entry : centry) (visited : list name)
    : option (list (name * centry)) :=
    match budget with
    | O => None                                              (* n >= len(segs) *)
    | S b =>
        if negb (ce_wire_ok entry) then None else            (* wireBodyFor == nil *)
        if negb (ce_live entry) then None else               (* remaining <= 0 *)
        if negb (ce_rcode entry =? 0) || negb (is_nil (ce_ns entry)) || negb (is_nil (ce_extra entry)) then None else
        if negb (ce_recomposable entry) then None else
        if has_qtype (ce_answers entry) then Some [(asked, entry)] else
        match last_cname (ce_answers entry) with
        | None => None                                       (* no terminal and no continuation *)
        | Some t =>
            if name_eqb (fold t) (fold qname) then None else (* alias pointing back at the question *)
            if existsb (name_eqb (fold t)) visited then None else
            match lookup (fold t) with
            | None => None
            | Some next =>
                if negb (ce_wire_ok next) || negb (name_eqb (ce_name next) (fold t)) then None else
                if ce_due next then None else                (* cad4531: a refresh-due hop declines *)
                match collect b qname t next (visited ++ [fold t]) with
                | Some rest => Some ((asked, entry) :: rest)
                | None => None
                end
            end
        end
    end.

  (* composeWireChase: every record of a segment stamped with that segment's remaining seconds;
     AD = every segment's AD, cleared for CD *)
  Definition compose_answers (segs : list centry) : list rrec :=
    flat_map (fun e => map (stamp (ce_ttl e)) (ce_answers e)) segs.
  Definition compose_ad (segs : list centry) : bool := forallb ce_ad segs && negb cd.

  (* serveChaseHit's verdict for an alias entry that is itself past serveHitFromWire's gates *)
  Definition wire_chase (qname : name) (alias : centry) : option (list rrec * bool) :=
    match collect maxWireChaseHops qname qname alias [] with
    | Some segs => Some (compose_answers (map snd segs), compose_ad (map snd segs))
    | None => None
    end.

  (* ------------------------------------------------------------------ decoded path *)
  (* a decoded reply as far as the chase touches it *)
  Inductive mres :=
  | MReply (rcode : N) (answers ns : list rrec) (ad : bool)
  | MServfail                      (* dnsutil.SetRcode(msg, SERVFAIL) *)
  | MUpstream (n : name).          (* the sub-query left the cache: resolver's business, not modelled *)

  Definition maxCnameChaseDepth : nat := 10.

  (* CacheEntry.ToMsg: TTLs stamped with the remaining seconds, AD cleared for CD *)
  Definition to_msg (e : centry) : mres :=
    MReply (ce_rcode e) (map (stamp (ce_ttl e)) (ce_answers e)) (map (stamp (ce_ttl e)) (ce_ns e))
           (ce_ad e && negb cd).

  (* searchAdditionalAnswer's authority merge: records not already present (abstract duplicate test) *)
  Variable ns_dup : rrec -> rrec -> bool.
  Definition merge_ns (mine theirs : list rrec) : list rrec :=
    fold_left (fun acc r => if existsb (ns_dup r) acc then acc else acc ++ [r]) theirs mine.

  (* additionalAnswer's scan of the answer section, in record order: the first record of the asked type
     ends it (answer found), an alias pointing at the question itself - compared without regard to letter
     case since /repo a4faf69 (strings.EqualFold) - is a SERVFAIL, otherwise the last alias target is what
     gets asked next *)
  Inductive scan_res := ScanFound | ScanServfail | ScanTarget (t : option name).
  Fixpoint scan (qname : name) (rs : list rrec) (t : option name) : scan_res :=
    match rs with
    | [] => ScanTarget t
    | r :: rs =>
        if r_type r =? qtype then ScanFound else
        if r_type r =? TypeCNAME then (if name_eqb (fold (r_target r)) (fold qname) then ScanServfail else scan qname rs (Some (r_target r)))
        else scan qname rs t
    end.

  (* the lookup loop of additionalAnswer ([cdepth] = cnameDepth, [targets] = names asked so far, [t] =
     cnameReq's name); [sub] is the internal sub-query (internalExchange) *)
  Fixpoint chase_loop (sub : name -> mres) (qname : name) (rcode : N) (cdepth : nat) (targets : list name)
      (t : name) (ans ns : list rrec) (ad : bool) : mres :=
    match cdepth with
    | O => MReply rcode ans ns ad
    | S c =>
        if existsb (name_eqb t) targets then MServfail else
        match sub t with
        | MReply rc' ans' ns' ad' =>
            let merged := negb (is_nil ans') || negb (is_nil ns') in
            let ans1 := if merged then ans ++ ans' else ans in
            let ns1 := if merged then merge_ns ns ns' else ns in
            let ad1 := if merged then ad && ad' else ad in
            let child := merged && existsb (fun r => r_type r =? TypeCNAME) ans' in
            let t1 := if merged then last_cname ans' else Some t in   (* searchAdditionalAnswer's target: "" without an alias *)
            if rc' =? 3 then MReply 3 ans1 ns1 ad1 else
            if match t1 with Some x => name_eqb (fold x) (fold qname) | None => false end then MServfail else
            if child && Nat.ltb 0 c && negb (has_qtype ans') then
              match t1 with Some x => chase_loop sub qname rcode c (targets ++ [t]) x ans1 ns1 ad1 | None => MReply rcode ans1 ns1 ad1 end
            else MReply rcode ans1 ns1 ad1
        | MServfail => MUpstream t     (* a failed sub-query: error branches, not modelled *)
        | MUpstream n => MUpstream n
        end
    end.

  Definition additional (sub : name -> mres) (qname : name) (m : mres) : mres :=
    match m with
    | MReply rcode ans ns ad =>
        if (qtype =? TypeCNAME) || (qtype =? 43) then m else      (* CNAME and DS questions are not chased *)
        if rcode =? 3 then m else                                 (* RFC 6604: NXDOMAIN is terminal *)
        match scan qname ans None with
        | ScanFound => m
        | ScanServfail => MServfail
        | ScanTarget None => m
        | ScanTarget (Some t0) => chase_loop sub qname rcode 10 [] t0 ans ns ad
        end
    | _ => m
    end.

  (* handleCacheHit at chase depth [d] for the entry found under [qname]; the sub-query of the chase is a
     hit on the target's entry one level deeper when the cache holds a live entry, anything else leaves
     the cache.  [fuel] bounds the nesting. *)
  Fixpoint msg_hit (fuel : nat) (d : nat) (qname : name) (e : centry) : mres :=
    match fuel with
    | O => MUpstream qname
    | S f =>
        let m := to_msg e in
        if Nat.ltb d maxCnameChaseDepth then
          additional (fun t => match lookup (fold t) with
                               | Some e' => if name_eqb (ce_name e') (fold t) && ce_live e' then msg_hit f (S d) t e' else MUpstream t
                               | None => MUpstream t
                               end) qname m
        else m
    end.
End Chase.
