(* C05 — the fuel of the library model is never the reason for a result:
   lib_unpack msg <> LFuel for every byte list. *)
From Sdns Require Import Common.Base Gen.C05 C05.Model C05.Proofs.
Open Scope N_scope.

Lemma lib_name_loop_fuel : forall fuel msg off budget ptr off1 acc,
  ptr <= 126 ->
  ((126 - N.to_nat ptr) * S (length msg) + (length msg - N.to_nat off) < fuel)%nat ->
  lib_name_loop fuel msg off budget ptr off1 acc <> LFuel.
Proof.
  induction fuel as [|k IH]; intros msg off budget ptr off1 acc Hp Hf; [exfalso; exact (Nat.nlt_0_r _ Hf)|].
  cbn [lib_name_loop].
  destruct (blen msg <=? off) eqn:E1; [discriminate|]. apply N.leb_gt in E1. unfold blen in E1.
  cbn zeta.
  destruct (N.land (byte_at msg off) 192 =? 0) eqn:S0.
  - destruct (byte_at msg off =? 0) eqn:Z; [discriminate|].
    destruct (blen msg <? off + 1 + byte_at msg off); [discriminate|].
    destruct ((budget - (Z.of_N (byte_at msg off) + 1) <=? 0)%Z); [discriminate|].
    apply IH; [exact Hp|]. apply N.eqb_neq in Z. lia.
  - destruct (N.land (byte_at msg off) 192 =? 192); [|discriminate].
    destruct (blen msg <=? off + 1); [discriminate|].
    unfold maxCompressionPointers.
    destruct (126 <? ptr + 1) eqn:P; [discriminate|]. apply N.ltb_ge in P.
    apply IH; [lia|].
    replace (126 - N.to_nat (ptr + 1))%nat with (126 - N.to_nat ptr - 1)%nat by lia.
    assert (1 <= 126 - N.to_nat ptr)%nat by lia.
    set (a := (126 - N.to_nat ptr)%nat) in *. 
    replace (a * S (length msg))%nat with ((a - 1) * S (length msg) + S (length msg))%nat in Hf
      by (destruct a; [lia|cbn; lia]).
    lia.
Qed.

Lemma lib_name_fuel_ok msg off : lib_name msg off <> LFuel.
Proof.
  unfold lib_name. apply lib_name_loop_fuel; [lia|]. unfold lib_name_fuel. cbn. lia.
Qed.

Lemma lib_opts_fuel_ok : forall fuel msg off endo,
  (N.to_nat endo - N.to_nat off < fuel)%nat -> lib_opts fuel msg off endo <> LFuel.
Proof.
  induction fuel as [|k IH]; intros msg off endo H; [lia|]. cbn [lib_opts].
  destruct (endo <=? off) eqn:E0; [discriminate|]. apply N.leb_gt in E0.
  destruct (endo <? off + 4); [discriminate|]. cbn zeta.
  destruct (endo <? off + 4 + be16 msg (off + 2)); [discriminate|].
  destruct (lib_opt_check (be16 msg off) (slice msg (off + 4) (be16 msg (off + 2)))) as [[|]|]; try discriminate.
  specialize (IH msg (off + 4 + be16 msg (off + 2)) endo ltac:(lia)).
  destruct (lib_opts k msg (off + 4 + be16 msg (off + 2)) endo); try discriminate. congruence.
Qed.

Lemma lib_question_fuel_ok msg off : lib_question msg off <> LFuel.
Proof.
  unfold lib_question. pose proof (lib_name_fuel_ok msg off).
  destruct (lib_name msg off) as [[nm o]| | |]; try discriminate; [|congruence].
  destruct (o =? blen msg); [discriminate|].
  destruct (lib_u16 msg o) as [[t o2]|]; [|discriminate].
  destruct (o2 =? blen msg); [discriminate|].
  destruct (lib_u16 msg o2) as [[c o3]|]; discriminate.
Qed.

Lemma lib_questions_fuel_ok : forall n msg off, lib_questions n msg off <> LFuel.
Proof.
  induction n as [|k IH]; intros msg off; cbn [lib_questions]; [discriminate|].
  pose proof (lib_question_fuel_ok msg off).
  destruct (lib_question msg off) as [[q o]| | |]; try discriminate; [|congruence].
  destruct (o =? off); [discriminate|].
  specialize (IH msg o). destruct (lib_questions k msg o) as [[qs o2]| | |]; try discriminate. congruence.
Qed.

Lemma lib_rr_fuel_ok msg off : lib_rr msg off <> LFuel.
Proof.
  unfold lib_rr. destruct (off =? blen msg); [discriminate|].
  pose proof (lib_name_fuel_ok msg off).
  destruct (lib_name msg off) as [[nm o]| | |]; try discriminate; [|congruence].
  destruct (lib_u16 msg o) as [[ty o1]|]; [|discriminate].
  destruct (lib_u16 msg o1) as [[cl o2]|]; [|discriminate].
  destruct (lib_u32 msg o2) as [[ttl o3]|]; [|discriminate].
  destruct (lib_u16 msg o3) as [[rdlen o4]|]; [|discriminate].
  cbn zeta.
  destruct (blen msg <? o4 + rdlen) eqn:E; [discriminate|]. apply N.ltb_ge in E.
  destruct (rdlen =? 0); [discriminate|].
  destruct (ty =? dns_TypeOPT); [|discriminate].
  pose proof (lib_opts_fuel_ok (S (length msg)) msg o4 (o4 + rdlen)) as F.
  destruct (lib_opts (S (length msg)) msg o4 (o4 + rdlen)); try discriminate.
  exfalso. apply F; [|reflexivity]. unfold blen in E. lia.
Qed.

Lemma lib_rrs_fuel_ok : forall n msg off, lib_rrs n msg off <> LFuel.
Proof.
  induction n as [|k IH]; intros msg off; cbn [lib_rrs]; [discriminate|].
  pose proof (lib_rr_fuel_ok msg off).
  destruct (lib_rr msg off) as [[r o]| | |]; try discriminate; [|congruence].
  destruct (o =? off); [discriminate|].
  specialize (IH msg o). destruct (lib_rrs k msg o) as [[rs o2]| | |]; try discriminate. congruence.
Qed.

Theorem lib_unpack_fuel_ok msg : lib_unpack msg <> LFuel.
Proof.
  unfold lib_unpack. destruct (blen msg <? 12); [discriminate|]. cbn zeta.
  destruct (blen msg =? 12); [discriminate|].
  pose proof (lib_questions_fuel_ok (N.to_nat (be16 msg 4)) msg 12).
  destruct (lib_questions (N.to_nat (be16 msg 4)) msg 12) as [[qs o]| | |]; try discriminate; [|congruence].
  pose proof (lib_rrs_fuel_ok (N.to_nat (be16 msg 6)) msg o).
  destruct (lib_rrs (N.to_nat (be16 msg 6)) msg o) as [[an o1]| | |]; try discriminate; [|congruence].
  pose proof (lib_rrs_fuel_ok (N.to_nat (be16 msg 8)) msg o1).
  destruct (lib_rrs (N.to_nat (be16 msg 8)) msg o1) as [[ns o2]| | |]; try discriminate; [|congruence].
  pose proof (lib_rrs_fuel_ok (N.to_nat (be16 msg 10)) msg o2).
  destruct (lib_rrs (N.to_nat (be16 msg 10)) msg o2) as [[ex o3]| | |]; try discriminate. congruence.
Qed.
