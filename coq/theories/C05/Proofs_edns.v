(* C05 — the byte-built OPT equals the OPT the decoded path attaches. *)
From Coq Require Import Permutation.
From Sdns Require Import Common.Base Gen.C05 C05.Edns.
Open Scope N_scope.

Section EdnsProofs.
  Variable srv : list N -> list N.

  Definition only_subnet (os : list eopt) : Prop := Forall (fun o => eo_code o = OPT_SUBNET) os.

  Lemma filter_all_out {A} (f : A -> bool) l : Forall (fun x => f x = false) l -> filter f l = [].
  Proof. induction 1 as [|x l H _ IH]; cbn; [reflexivity|]. now rewrite H. Qed.
  Lemma filter_all_in {A} (f : A -> bool) l : Forall (fun x => f x = true) l -> filter f l = l.
  Proof. induction 1 as [|x l H _ IH]; cbn; [reflexivity|]. now rewrite H, IH. Qed.

  Lemma own_codes w : Forall (fun o => eo_code o = OPT_COOKIE \/ eo_code o = OPT_NSID) (own_options srv w).
  Proof.
    unfold own_options. apply Forall_app. split.
    - destruct (ew_cookie w); [constructor; [left; reflexivity|constructor]|constructor].
    - destruct (ew_nsid w); [constructor; [right; reflexivity|constructor]|constructor].
  Qed.

  (* what the decoded path leaves in the OPT of a served hit: the relayed EDE, the own options, the
     own keepalive; the request's forwarded subnet option is gone *)
  Lemma msg_opt_of_hit w ede :
    ew_noedns w = false -> only_subnet (ew_req_opts w) ->
    (forall e, ede = Some e -> eo_code e = OPT_EDE) ->
    msg_opt srv w (tomsg_down ede) =
    Some (mk_optrec (ew_size w) (ew_do w)
            ((match ede with Some e => [e] | None => [] end) ++ own_options srv w ++ keepalive_option w)).
  Proof.
    intros Hn Hs He. unfold msg_opt. rewrite Hn. f_equal. f_equal.
    assert (OWN1 : filter (fun o => negb (eo_code o =? OPT_SUBNET)) (own_options srv w) = own_options srv w).
    { apply filter_all_in. eapply Forall_impl; [|apply own_codes]. intros o [->| ->]; reflexivity. }
    assert (OWN2 : filter (fun o => negb (eo_code o =? OPT_KEEPALIVE)) (own_options srv w) = own_options srv w).
    { apply filter_all_in. eapply Forall_impl; [|apply own_codes]. intros o [->| ->]; reflexivity. }
    assert (REQ : filter (fun o => negb (eo_code o =? OPT_SUBNET)) (ew_req_opts w) = []).
    { apply filter_all_out. eapply Forall_impl; [|exact Hs]. intros o ->. reflexivity. }
    destruct ede as [e|]; unfold tomsg_down.
    - specialize (He e eq_refl).
      assert (E0 : filter (fun o => eo_code o =? OPT_EDE) [e] = [e]) by (cbn; rewrite He; reflexivity).
      assert (E1 : filter (fun o => negb (eo_code o =? OPT_SUBNET)) [e] = [e]) by (cbn; rewrite He; reflexivity).
      assert (E2 : filter (fun o => negb (eo_code o =? OPT_KEEPALIVE)) [e] = [e]) by (cbn; rewrite He; reflexivity).
      rewrite E0. rewrite !filter_app. rewrite REQ, OWN1, E1, E2, OWN2. cbn [app filter]. reflexivity.
    - rewrite !filter_app. rewrite REQ. cbn [app filter]. rewrite OWN1, OWN2. reflexivity.
  Qed.

  Theorem edns_wire_eq_msg_lemma w ede :
    only_subnet (ew_req_opts w) -> (forall e, ede = Some e -> eo_code e = OPT_EDE) ->
    match wire_opt srv w ede, msg_opt srv w (tomsg_down ede) with
    | None, None => True
    | Some a, Some b => or_size a = or_size b /\ or_do a = or_do b /\ Permutation (or_options a) (or_options b)
    | _, _ => False
    end.
  Proof.
    intros Hs He. destruct (ew_noedns w) eqn:Hn.
    - unfold wire_opt, msg_opt. rewrite Hn. exact I.
    - rewrite (msg_opt_of_hit w ede Hn Hs He). unfold wire_opt. rewrite Hn. cbn [or_size or_do or_options].
      repeat split. rewrite app_assoc. apply Permutation_app_comm.
  Qed.

  (* the lease reserve is the exact encoded length of the record appended *)
  Theorem wire_opt_len_exact w ede :
    (forall c, ew_cookie w = Some c -> length (srv c) = 40%nat) ->
    optrec_len (wire_opt srv w ede) = wire_opt_len w + (if ew_noedns w then 0 else ede_reserve ede).
  Proof.
    intros Hc. unfold wire_opt, wire_opt_len, optrec_len.
    destruct (ew_noedns w); [reflexivity|]. cbn [or_options].
    unfold own_options, keepalive_option, ede_reserve, opt_fixed_len, opt_option_hdr_len, server_cookie_len, be16_bytes.
    destruct (ew_cookie w) as [c|] eqn:C; destruct (ew_nsid w) as [s|]; destruct (ew_keepalive w); destruct ede as [[ec ed]|];
      cbn [app fold_right eo_data length]; try rewrite (Hc c eq_refl); cbn; lia.
  Qed.
End EdnsProofs.

(* example: cookie + NSID + keepalive + cached EDE, client with DO *)
Example ex_edns :
  let w := mk_ewriter false true 1232 (Some [1;2;3;4;5;6;7;8]) (Some [110;115]) true [mk_eopt 8 [0;1;24;0;192;0;2]] in
  wire_opt (fun c => c ++ c) w (Some (mk_eopt 15 [0;3;120])) =
    Some (mk_optrec 1232 true [mk_eopt 10 [1;2;3;4;5;6;7;8;1;2;3;4;5;6;7;8]; mk_eopt 3 [110;115]; mk_eopt 11 [0;80]; mk_eopt 15 [0;3;120]]) /\
  msg_opt (fun c => c ++ c) w (Some [mk_eopt 15 [0;3;120]]) =
    Some (mk_optrec 1232 true [mk_eopt 15 [0;3;120]; mk_eopt 10 [1;2;3;4;5;6;7;8;1;2;3;4;5;6;7;8]; mk_eopt 3 [110;115]; mk_eopt 11 [0;80]]).
Proof. split; reflexivity. Qed.
