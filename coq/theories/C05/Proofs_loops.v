(* C05 — ties to the stage-3 LOOP translations (srcgen `loopfunc`): the question-name loop of
   Request.ParseWire and the option walk of Request.parseWireOPT, translated from source as fuelled
   Fixpoints (Gen.C05: go_Request_ParseWire_loop1, go_Request_parseWireOPT_loop1), are the model's
   pw_name and pw_opts step for step - same verdict at every fuel, same offset / same receiver facts. *)
From Coq Require Import Lia List.
From Sdns Require Import Common.Base Common.GoList Gen.C05 C05.Model.
Open Scope N_scope.

Lemma go_len_blen (raw : list N) : go_len raw = Z.of_N (blen raw).
Proof. unfold go_len, blen. lia. Qed.

Lemma go_idx_byte_at raw off : go_idx 0 raw (Z.of_N off) = byte_at raw off.
Proof.
  unfold go_idx, byte_at. destruct (Z.ltb_spec (Z.of_N off) 0); [lia|].
  f_equal. lia.
Qed.

Lemma of_N_land a b : Z.of_N (N.land a b) = Z.land (Z.of_N a) (Z.of_N b).
Proof. destruct a, b; reflexivity. Qed.

(* what the translated loop hands back, as a function of the model's verdict *)
Definition name_loop_ctl (r : res N) : go_ctl bool :=
  match r with Ok _ => GoNext | Decline => GoRet false | NoFuel => GoOof end.

Lemma gen_pw_name_loop : forall f k raw off,
  let r := go_Request_ParseWire_loop1 f k raw (Z.of_N off) in
  fst r = name_loop_ctl (pw_name k raw off) /\
  (forall o, pw_name k raw off = Ok o -> snd r = (raw, Z.of_N o)).
Proof.
  intros f k. induction k as [|k IH]; intros raw off; cbn zeta.
  - cbn. split; [reflexivity|discriminate].
  - cbn [go_Request_ParseWire_loop1 pw_name].
    rewrite go_len_blen, go_idx_byte_at.
    destruct (Z.leb_spec (Z.of_N (blen raw)) (Z.of_N off)) as [H|H];
      destruct (N.leb_spec (blen raw) off) as [H'|H']; try lia.
    { cbn. split; [reflexivity|discriminate]. }
    set (c := byte_at raw off).
    destruct (Z.eqb_spec (Z.of_N c) 0) as [C|C]; destruct (N.eqb_spec c 0) as [C'|C']; try lia.
    { cbn. split; [reflexivity|]. intros o [= <-]. f_equal. lia. }
    change 192%Z with (Z.of_N 192). rewrite <- of_N_land.
    unfold pw_label_mask.
    destruct (Z.eqb_spec (Z.of_N (N.land c 192)) 0) as [M|M]; destruct (N.eqb_spec (N.land c 192) 0) as [M'|M']; try lia; cbn [negb].
    2:{ cbn. split; [reflexivity|discriminate]. }
    replace (Z.of_N off + (1 + Z.of_N c))%Z with (Z.of_N (off + 1 + c)) by lia.
    destruct (Z.ltb_spec (Z.of_N (blen raw)) (Z.of_N (off + 1 + c))) as [L|L];
      destruct (N.ltb_spec (blen raw) (off + 1 + c)) as [L'|L']; try lia.
    { cbn. split; [reflexivity|discriminate]. }
    apply IH.
Qed.

Lemma nth_skipn_add {A} (d : A) : forall a l i, nth i (skipn a l) d = nth (a + i) l d.
Proof.
  induction a as [|a IH]; intros l i; [reflexivity|].
  destruct l as [|x l]; [cbn; now destruct i|]. cbn [skipn Nat.add nth]. apply IH.
Qed.
Lemma nth_firstn_lt {A} (d : A) : forall n l i, (i < n)%nat -> nth i (firstn n l) d = nth i l d.
Proof.
  induction n as [|n IH]; intros l i H; [lia|].
  destruct l as [|x l]; [reflexivity|]. destruct i; [reflexivity|]. cbn. apply IH. lia.
Qed.

Lemma be16_slice raw a : go_be16 (go_slice raw (Z.of_N a) (Z.of_N (a + 2))) = be16 raw a.
Proof.
  unfold go_be16, go_b, go_slice, be16, byte_at.
  replace (Z.to_nat (Z.of_N (a + 2)) - Z.to_nat (Z.of_N a))%nat with 2%nat by lia.
  rewrite !nth_firstn_lt, !nth_skipn_add by lia.
  repeat f_equal; lia.
Qed.

Lemma be16_slice' raw a b : b = a + 2 -> go_be16 (go_slice raw (Z.of_N a) (Z.of_N b)) = be16 raw a.
Proof. intros ->. apply be16_slice. Qed.

Lemma ltb_of_N a b : (Z.of_N a <? Z.of_N b)%Z = (a <? b).
Proof. unfold Z.ltb, N.ltb. now rewrite N2Z.inj_compare. Qed.
Lemma eqb_of_N a b : (Z.of_N a =? Z.of_N b)%Z = (a =? b).
Proof. destruct (Z.eqb_spec (Z.of_N a) (Z.of_N b)), (N.eqb_spec a b); try reflexivity; lia. Qed.

(* the receiver fields the option walk writes, against the model's accumulator, and the fields it
   must leave alone (written by parseWireOPT before the walk) *)
Definition opt_rel (r : T_Request) (a : optfacts) : Prop :=
  T_Request_cookieOff r = Z.of_N (o_cookie_off a) /\ T_Request_cookieLen r = Z.of_N (o_cookie_len a) /\
  T_Request_hasNSID r = o_nsid a /\ T_Request_hasECS r = o_ecs a /\ T_Request_hasKeepalive r = o_ka a.
Definition opt_frame (raw : list N) (hasopt : bool) (us : N) (dob : bool) (ver : N) (r : T_Request) : Prop :=
  T_Request_raw r = raw /\ T_Request_hasOPT r = hasopt /\ T_Request_udpSize r = us /\
  T_Request_do r = dob /\ T_Request_version r = ver.

(* loop 1 of Request.parseWireOPT followed by its [return off == end], against Model.pw_opts *)
Definition walk_rel (raw : list N) (endo : N) (P : T_Request -> optfacts -> Prop)
    (res : go_ctl (bool * T_Request) * (T_Request * Z * list N * N * N * N * N * Z * Z)) (m : Model.res optfacts) : Prop :=
  match m with
  | NoFuel => fst res = GoOof
  | Decline => (exists r', fst res = GoRet (false, r')) \/
               exists r' o' us er ver fl rdl, res = (GoNext, (r', Z.of_N o', raw, us, er, ver, fl, rdl, Z.of_N endo)) /\ o' <> endo
  | Ok a' => exists r' us er ver fl rdl, res = (GoNext, (r', Z.of_N endo, raw, us, er, ver, fl, rdl, Z.of_N endo)) /\ P r' a'
  end.

Ltac norm :=
  change 4%Z with (Z.of_N 4); change 2%Z with (Z.of_N 2); change 3%Z with (Z.of_N 3);
  change 8%Z with (Z.of_N 8); change 40%Z with (Z.of_N 40); change 0%Z with (Z.of_N 0);
  rewrite <- ?N2Z.inj_add, ?ltb_of_N, ?eqb_of_N.

Ltac keep_inv := split; [repeat split; cbn; first [assumption | reflexivity] | repeat split; cbn; first [assumption | reflexivity]].

Lemma gen_pw_opts_loop : forall f k raw hasopt usz dob verz r off endo a us er ver fl rdl,
  opt_rel r a -> opt_frame raw hasopt usz dob verz r ->
  walk_rel raw endo (fun r' a' => opt_rel r' a' /\ opt_frame raw hasopt usz dob verz r')
    (go_Request_parseWireOPT_loop1 f k r (Z.of_N off) raw us er ver fl rdl (Z.of_N endo)) (pw_opts k raw off endo a).
Proof.
  intros f k. induction k as [|k IH]; intros raw hasopt usz dob verz r off endo a us er ver fl rdl R F; [reflexivity|].
  cbn [go_Request_parseWireOPT_loop1 pw_opts].
  unfold opt_option_hdr_len, EDNS0COOKIE, EDNS0NSID, EDNS0SUBNET, EDNS0PADDING, EDNS0TCPKEEPALIVE,
    po_cookie_min, po_cookie_max, po_ecs_min, po_v4_mask_max, po_v4_scope_max, po_v6_mask_max, po_v6_scope_max,
    po_ka_len_a, po_ka_len_b.
  destruct R as (R1 & R2 & R3 & R4 & R5). destruct F as (F1 & F2 & F3 & F4 & F5).
  norm.
  destruct (N.ltb_spec off endo) as [H|H]; destruct (N.leb_spec endo off) as [H'|H']; try lia.
  2:{ destruct (N.eqb_spec off endo) as [->|E]; cbn.
      - exists r, us, er, ver, fl, rdl. split; [reflexivity|]. repeat split; assumption.
      - right. exists r, off, us, er, ver, fl, rdl. split; [reflexivity|assumption]. }
  destruct (endo <? off + 4) eqn:T1; [left; eexists; reflexivity|].
  cbv zeta. norm.
  rewrite !be16_slice' by lia.
  set (code := be16 raw off). set (optlen := be16 raw (off + 2)).
  norm.
  destruct (endo <? off + 4 + optlen) eqn:T2; [left; eexists; reflexivity|].
  destruct (code =? 10) eqn:C10.
  { rewrite R2. norm.
    destruct ((optlen <? 8) || (40 <? optlen) || negb (o_cookie_len a =? 0)) eqn:T3; [left; eexists; reflexivity|].
    apply IH; repeat split; cbn; first [assumption | reflexivity]. }
  destruct (code =? 3) eqn:C3.
  { apply IH; repeat split; cbn; first [assumption | reflexivity]. }
  destruct (code =? 8) eqn:C8.
  { destruct (optlen <? 4) eqn:T4; [left; eexists; reflexivity|].
    rewrite ?be16_slice' by lia. rewrite ?go_idx_byte_at.
    set (family := be16 raw (off + 4)). set (netmask := byte_at raw (off + 4 + 2)). set (scope := byte_at raw (off + 4 + 3)).
    destruct (family =? 0) eqn:F0.
    { destruct (netmask =? 0) eqn:N0; cbn [negb]; [|left; eexists; reflexivity].
      apply IH; repeat split; cbn; first [assumption | reflexivity]. }
    destruct (family =? 1) eqn:Fa1.
    { destruct ((32 <? netmask) || (32 <? scope)) eqn:B; cbn [negb]; [left; eexists; reflexivity|].
      apply IH; repeat split; cbn; first [assumption | reflexivity]. }
    destruct (family =? 2) eqn:Fa2.
    { destruct ((128 <? netmask) || (128 <? scope)) eqn:B; cbn [negb]; [left; eexists; reflexivity|].
      apply IH; repeat split; cbn; first [assumption | reflexivity]. }
    left; eexists; reflexivity. }
  destruct (code =? 12) eqn:C12.
  { apply IH; repeat split; assumption. }
  destruct (code =? 11) eqn:C11.
  { destruct (negb (optlen =? 0) && negb (optlen =? 2)) eqn:K; [left; eexists; reflexivity|].
    apply IH; repeat split; cbn; first [assumption | reflexivity]. }
  left; eexists; reflexivity.
Qed.

(* ---- Request.parseWireOPT as a WHOLE (receiver-mutating method, final receiver as last result) against
   Model.pw_opt: same verdict, and on acceptance the receiver carries exactly the model's OPT facts ---- *)
Ltac norm11 :=
  change 11%Z with (Z.of_N 11); change 1%Z with (Z.of_N 1); change 3%Z with (Z.of_N 3);
  change 5%Z with (Z.of_N 5); change 6%Z with (Z.of_N 6); change 7%Z with (Z.of_N 7);
  change 9%Z with (Z.of_N 9); rewrite <- ?N2Z.inj_add.

Lemma gen_parse_wire_opt : forall raw r off,
  T_Request_raw r = raw -> opt_rel r optfacts0 ->
  match pw_opt raw off with
  | Ok p => exists r', go_Request_parseWireOPT (opts_fuel raw) r (Z.of_N off) = Some (true, r') /\
                       opt_rel r' (p_opts p) /\ opt_frame raw true (p_udpsize p) (p_do p) (p_version p) r'
  | Decline => exists r', go_Request_parseWireOPT (opts_fuel raw) r (Z.of_N off) = Some (false, r')
  | NoFuel => go_Request_parseWireOPT (opts_fuel raw) r (Z.of_N off) = None
  end.
Proof.
  intros raw r off Hraw R.
  (* the receiver is taken apart FIRST: the four record updates in front of the walk then reduce to one
     constructor over variables each (call by value); substituting the nested updates into each other
     with [cbv zeta] on an opaque receiver is 21^4 copies of it *)
  destruct r as [r_raw r_id r_flags r_qtype r_qclass r_nameOff r_nameLen r_qend r_hasOPT r_udp r_do r_ver
                 r_ecs r_nsid r_ka r_coff r_clen r_rt r_msg r_ran r_pol].
  cbn [T_Request_raw] in Hraw. subst r_raw.
  unfold pw_opt, go_Request_parseWireOPT.
  cbv beta iota zeta delta [T_Request_raw T_Request_id T_Request_flags T_Request_qtype T_Request_qclass
    T_Request_nameOff T_Request_nameLen T_Request_questionEnd T_Request_hasOPT T_Request_udpSize T_Request_do
    T_Request_version T_Request_hasECS T_Request_hasNSID T_Request_hasKeepalive T_Request_cookieOff
    T_Request_cookieLen T_Request_readTime T_Request_msg T_Request_ednsRan T_Request_ecsPolicy].
  unfold po_fixed, dns_TypeOPT, po_do_mask.
  norm11. rewrite go_len_blen, ltb_of_N, !go_idx_byte_at. rewrite !be16_slice' by lia.
  destruct ((blen raw <? off + 11) || negb (byte_at raw off =? 0)) eqn:G1; [eexists; reflexivity|].
  destruct (negb (be16 raw (off + 1) =? 41)) eqn:G2; [eexists; reflexivity|].
  rewrite <- ?N2Z.inj_add, eqb_of_N.
  destruct (negb (off + 11 + be16 raw (off + 9) =? blen raw)) eqn:G3; [eexists; reflexivity|].
  destruct (negb (byte_at raw (off + 5) =? 0)) eqn:G4; [eexists; reflexivity|].
  match goal with |- context [go_Request_parseWireOPT_loop1 ?f ?k ?r0 _ _ ?a1 ?a2 ?a3 ?a4 ?a5 _] =>
    pose proof (gen_pw_opts_loop f k raw true (be16 raw (off + 3))
                  (negb (N.land (be16 raw (off + 7)) 32768 =? 0)) (byte_at raw (off + 6))
                  r0 (off + 11) (off + 11 + be16 raw (off + 9)) optfacts0 a1 a2 a3 a4 a5) as W
  end.
  assert (W' := W ltac:(destruct R as (R1 & R2 & R3 & R4 & R5); repeat split; cbn; assumption)
                  ltac:(repeat split; cbn; first [assumption | reflexivity])).
  clear W. unfold walk_rel in W'.
  destruct (pw_opts (opts_fuel raw) raw (off + 11) (off + 11 + be16 raw (off + 9)) optfacts0) as [a'| |].
  - destruct W' as (r' & us & er & ver & fl & rdl & E & Rr & Fr). rewrite E.
    exists r'. rewrite Z.eqb_refl. split; [reflexivity|]. cbn [p_opts p_udpsize p_do p_version]. split; assumption.
  - destruct W' as [(r' & E)|(r' & o' & us & er & ver & fl & rdl & E & NE)].
    + destruct (go_Request_parseWireOPT_loop1 _ _ _ _ _ _ _ _ _ _ _) as [c st]. cbn in E. subst c. eexists; reflexivity.
    + rewrite E. exists r'. rewrite eqb_of_N. destruct (N.eqb_spec o' (off + 11 + be16 raw (off + 9))); [contradiction|reflexivity].
  - destruct (go_Request_parseWireOPT_loop1 _ _ _ _ _ _ _ _ _ _ _) as [c st]. cbn in W'. subst c. reflexivity.
Qed.
