(* C05 — the byte-composed alias chain equals the decoded path's chase, record for record. *)
From Coq Require Import List Bool Arith NArith Lia.
Import ListNotations.
From Sdns Require Import C05.Chase.
Open Scope N_scope.

Section ChaseProofs.
  Variable name : Type.
  Variable fold : name -> name.
  Variable name_eqb : name -> name -> bool.
  Hypothesis name_eqb_spec : forall a b, name_eqb a b = true <-> a = b.
  Variable lookup : name -> option (centry name).
  Variable qtype : N.
  Variable cd : bool.
  Variable ns_dup : rrec name -> rrec name -> bool.

  Notation rrec := (rrec name).
  Notation centry := (centry name).
  Notation has_qtype := (has_qtype name qtype).
  Notation last_cname := (last_cname name).
  Notation collect := (collect name fold name_eqb lookup qtype).
  Notation compose_answers := (compose_answers name).
  Notation msg_hit := (msg_hit name fold name_eqb lookup qtype cd ns_dup).
  Notation scan := (scan name fold name_eqb qtype).
  Notation stamp := (stamp name).

  Lemma name_eqb_false a b : a <> b -> name_eqb a b = false.
  Proof. intro H. destruct (name_eqb a b) eqn:E; [apply name_eqb_spec in E; contradiction|reflexivity]. Qed.

  Lemma has_qtype_stamp ttl rs : has_qtype (map (stamp ttl) rs) = has_qtype rs.
  Proof. unfold Chase.has_qtype. induction rs as [|r rs IH]; [reflexivity|]. cbn. now rewrite IH. Qed.

  Lemma has_qtype_app a b : has_qtype (a ++ b) = has_qtype a || has_qtype b.
  Proof. unfold Chase.has_qtype. apply existsb_app. Qed.

  (* the scan of a section without a record of the asked type and without an alias pointing at the
     question ends at the last alias target *)
  Lemma scan_target qn rs : forall t,
    has_qtype rs = false ->
    (forall r, In r rs -> r_type name r = TypeCNAME -> fold (r_target name r) <> fold qn) ->
    scan qn rs t = ScanTarget name (fold_left (fun acc r => if r_type name r =? TypeCNAME then Some (r_target name r) else acc) rs t).
  Proof.
    induction rs as [|r rs IH]; intros t Hq Hc; [reflexivity|].
    cbn in Hq. apply orb_false_iff in Hq as [Hq1 Hq2]. cbn [Chase.scan fold_left]. rewrite Hq1.
    destruct (r_type name r =? TypeCNAME) eqn:C.
    - rewrite name_eqb_false by (apply Hc; [now left|now apply N.eqb_eq]).
      apply IH; [assumption|]. intros r' Hin. apply Hc. now right.
    - apply IH; [assumption|]. intros r' Hin. apply Hc. now right.
  Qed.

  Lemma scan_found qn rs : forall t,
    has_qtype rs = true ->
    (forall r, In r rs -> r_type name r = TypeCNAME -> fold (r_target name r) <> fold qn) ->
    scan qn rs t = ScanFound name.
  Proof.
    induction rs as [|r rs IH]; intros t Hq Hc; [discriminate|].
    cbn [Chase.scan]. destruct (r_type name r =? qtype) eqn:Q; [reflexivity|].
    cbn in Hq. rewrite Q in Hq. cbn in Hq.
    destruct (r_type name r =? TypeCNAME) eqn:C.
    - rewrite name_eqb_false by (apply Hc; [now left|now apply N.eqb_eq]).
      apply IH; [assumption|]. intros r' Hin. apply Hc. now right.
    - apply IH; [assumption|]. intros r' Hin. apply Hc. now right.
  Qed.

  (* what the (repaired, a4faf69) admission path lets in: the miss path runs additionalAnswer on the
     upstream answer before storing it and files a SERVFAIL in the failure cache instead of a positive
     entry; so a stored alias-only answer (no record of the asked type) holds no alias record that points,
     in ANY spelling, at the name it is keyed under - the own-name part of [acyclic]'s head condition for
     every non-terminal segment.  (For a terminal segment the scan stops at the first record of the asked
     type, and names asked EARLIER in a chain are the walk's business: both stay in the premise.) *)
  Lemma admitted_alias_only_not_self qn rs : forall t,
    has_qtype rs = false -> scan qn rs t <> ScanServfail name ->
    forall r, In r rs -> r_type name r = TypeCNAME -> fold (r_target name r) <> fold qn.
  Proof.
    induction rs as [|r0 rs IH]; intros t Hq Hs r Hin Hc; [contradiction|].
    cbn in Hq. apply orb_false_iff in Hq as [Hq1 Hq2]. cbn [Chase.scan] in Hs. rewrite Hq1 in Hs.
    destruct (r_type name r0 =? TypeCNAME) eqn:C.
    - destruct (name_eqb (fold (r_target name r0)) (fold qn)) eqn:E; [contradiction Hs; reflexivity|].
      destruct Hin as [<-|Hin].
      + intro X. rewrite X in E. assert (name_eqb (fold qn) (fold qn) = true) by now apply name_eqb_spec. congruence.
      + eapply IH; eauto.
    - destruct Hin as [<-|Hin]; [apply N.eqb_eq in Hc; congruence|]. eapply IH; eauto.
  Qed.

  Lemma fold_cname_stamp ttl rs : forall t,
    fold_left (fun acc r => if r_type name r =? TypeCNAME then Some (r_target name r) else acc) (map (stamp ttl) rs) t =
    fold_left (fun acc r => if r_type name r =? TypeCNAME then Some (r_target name r) else acc) rs t.
  Proof. induction rs as [|r rs IH]; intro t; [reflexivity|]. cbn. apply IH. Qed.

  (* an alias target picked up from a section is the target of one of its alias records *)
  Lemma fold_cname_in rs : forall t x,
    fold_left (fun acc r => if r_type name r =? TypeCNAME then Some (r_target name r) else acc) rs t = Some x ->
    t = Some x \/ exists r, In r rs /\ r_type name r = TypeCNAME /\ r_target name r = x.
  Proof.
    induction rs as [|r rs IH]; intros t x H; [now left|]. cbn in H.
    apply IH in H as [H|(r' & Hin & Ht & Hx)].
    - destruct (r_type name r =? TypeCNAME) eqn:C; [|now left].
      right. exists r. injection H as <-. repeat split; [now left|now apply N.eqb_eq].
    - right. exists r'. repeat split; [now right|assumption|assumption].
  Qed.

  (* no alias record of the chain points (under case folding, as both paths now compare: a4faf69) at a
     name already asked at or before its segment.  collectWireChase itself guarantees this for the alias each segment continues with, under
     case folding (question-name check and visited keys); for the other alias records of a segment - an
     earlier CNAME of the same section, the CNAMEs of a terminal segment - only the decoded path looks
     (it answers SERVFAIL), the composer does not. *)
  Fixpoint acyclic (segs : list (name * centry)) : Prop :=
    match segs with
    | [] => True
    | (n, e) :: rest =>
        (forall r, In r (compose_answers (map snd segs)) -> r_type name r = TypeCNAME -> fold (r_target name r) <> fold n) /\ acyclic rest
    end.

  Lemma collect_head b : forall q n e vis segs, collect b q n e vis = Some segs ->
    ce_live name e = true /\ exists tl, segs = (n, e) :: tl.
  Proof.
    destruct b; intros q n e vis segs H; [discriminate|]. cbn in H.
    destruct (ce_wire_ok name e); [|discriminate]. destruct (ce_live name e); [|discriminate]. cbn in H.
    split; [reflexivity|].
    destruct (negb (ce_rcode name e =? 0) || negb (is_nil (ce_ns name e)) || negb (is_nil (ce_extra name e))); [discriminate|].
    destruct (ce_recomposable name e); [|discriminate]. cbn in H.
    destruct (has_qtype (ce_answers name e)); [injection H as <-; eexists; reflexivity|].
    destruct (last_cname (ce_answers name e)); [|discriminate].
    destruct (name_eqb (fold n0) (fold q)); [discriminate|].
    destruct (existsb (name_eqb (fold n0)) vis); [discriminate|].
    destruct (lookup (fold n0)); [|discriminate].
    destruct (negb (ce_wire_ok name c) || negb (name_eqb (ce_name name c) (fold n0))); [discriminate|].
    destruct (ce_due name c); [discriminate|].
    destruct (collect b q n0 c (vis ++ [fold n0])); [|discriminate]. injection H as <-. eexists; reflexivity.
  Qed.

  Lemma collect_has_qtype b : forall q n e vis segs, collect b q n e vis = Some segs ->
    has_qtype (compose_answers (map snd segs)) = true.
  Proof.
    induction b as [|b IH]; intros q n e vis segs H; [discriminate|]. cbn in H.
    destruct (ce_wire_ok name e); [|discriminate]. destruct (ce_live name e); [|discriminate]. cbn in H.
    destruct (negb (ce_rcode name e =? 0) || negb (is_nil (ce_ns name e)) || negb (is_nil (ce_extra name e))); [discriminate|].
    destruct (ce_recomposable name e); [|discriminate]. cbn in H.
    destruct (has_qtype (ce_answers name e)) eqn:Q.
    { injection H as <-. cbn [map snd Chase.compose_answers flat_map]. rewrite app_nil_r, has_qtype_stamp. exact Q. }
    destruct (last_cname (ce_answers name e)); [|discriminate].
    destruct (name_eqb (fold n0) (fold q)); [discriminate|].
    destruct (existsb (name_eqb (fold n0)) vis); [discriminate|].
    destruct (lookup (fold n0)); [|discriminate].
    destruct (negb (ce_wire_ok name c) || negb (name_eqb (ce_name name c) (fold n0))); [discriminate|].
    destruct (ce_due name c); [discriminate|].
    destruct (collect b q n0 c (vis ++ [fold n0])) eqn:R; [|discriminate]. injection H as <-.
    cbn [map snd Chase.compose_answers flat_map]. rewrite has_qtype_app. fold (compose_answers (map snd l)). rewrite (IH _ _ _ _ _ R). apply orb_true_r.
  Qed.

  Hypothesis qtype_not_cname : (qtype =? TypeCNAME) = false.   (* serveChaseHit's call-site guard: *)
  Hypothesis qtype_not_ds : (qtype =? 43) = false.             (* wireChaseSafe is set for CNAME and DS questions *)

  (* MAIN: whenever the byte path's walk succeeds, the decoded path's nested chase over the same store
     returns NOERROR with exactly the composed records (each segment's records stamped with that
     segment's remaining seconds, in chain order), an empty authority section and the merged AD verdict *)
  Lemma chase_agree : forall b q n e vis segs,
    collect b q n e vis = Some segs -> acyclic segs ->
    forall f d, (b <= f)%nat -> (d + b <= 10)%nat ->
    msg_hit f d n e = MReply name 0 (compose_answers (map snd segs)) [] (forallb (ce_ad name) (map snd segs) && negb cd).
  Proof.
    induction b as [|b IH]; intros q n e vis segs H AC f d Hf Hd; [discriminate|].
    destruct f as [|f]; [lia|]. cbn [Chase.collect] in H.
    destruct (ce_wire_ok name e); [|discriminate]. destruct (ce_live name e) eqn:LIVE; [|discriminate]. cbn [negb] in H.
    destruct (ce_rcode name e =? 0) eqn:RC; [|discriminate]. cbn [negb orb] in H.
    destruct (ce_ns name e) as [|? ?] eqn:NS; [|discriminate]. cbn [is_nil negb orb] in H.
    destruct (ce_extra name e) as [|? ?] eqn:EX; [|discriminate]. cbn [is_nil negb] in H.
    destruct (ce_recomposable name e); [|discriminate]. cbn [negb] in H.
    apply N.eqb_eq in RC.
    cbn [Chase.msg_hit]. unfold maxCnameChaseDepth.
    replace (Nat.ltb d 10) with true by (symmetry; apply Nat.ltb_lt; lia).
    unfold to_msg. rewrite NS, RC. cbn [map].
    unfold additional. rewrite qtype_not_cname, qtype_not_ds. cbn [orb N.eqb].
    destruct (has_qtype (ce_answers name e)) eqn:Q.
    - (* terminal segment *)
      injection H as <-. cbn in AC. destruct AC as [AC _]. rewrite app_nil_r in AC.
      rewrite scan_found; [|now rewrite has_qtype_stamp|exact AC].
      cbn. rewrite app_nil_r, andb_true_r. reflexivity.
    - destruct (last_cname (ce_answers name e)) as [t|] eqn:LC; [|discriminate].
      destruct (name_eqb (fold t) (fold q)); [discriminate|].
      destruct (existsb (name_eqb (fold t)) vis); [discriminate|].
      destruct (lookup (fold t)) as [next|] eqn:LK; [|discriminate].
      destruct (ce_wire_ok name next); [|discriminate]. cbn [negb orb] in H.
      destruct (name_eqb (ce_name name next) (fold t)) eqn:NM; [|discriminate]. cbn [negb] in H.
      destruct (ce_due name next); [discriminate|].
      destruct (collect b q t next (vis ++ [fold t])) as [rest|] eqn:R; [|discriminate].
      injection H as <-.
      destruct AC as [AC0 ACr].
      pose proof (collect_head _ _ _ _ _ _ R) as [LIVE' _].
      pose proof (collect_has_qtype _ _ _ _ _ _ R) as HQ.
      cbn [map snd Chase.compose_answers flat_map] in AC0 |- *. fold (compose_answers (map snd rest)) in AC0 |- *.
      rewrite scan_target;
        [|now rewrite has_qtype_stamp|intros r Hin; apply AC0; apply in_or_app; now left].
      rewrite fold_cname_stamp. unfold Chase.last_cname in LC. rewrite LC.
      cbn [Chase.chase_loop existsb]. rewrite LK, NM, LIVE'. cbn [andb].
      rewrite (IH _ _ _ _ _ R ACr f (S d)) by lia.
      set (A' := compose_answers (map snd rest)) in *.
      assert (NE : is_nil A' = false) by (destruct A'; [discriminate HQ|reflexivity]).
      rewrite NE. cbn [negb orb andb is_nil N.eqb]. unfold merge_ns. cbn [fold_left].
      rewrite HQ. cbn [negb]. rewrite andb_false_r.
      assert (T1 : match Chase.last_cname name A' with Some x => name_eqb (fold x) (fold n) | None => false end = false).
      { destruct (Chase.last_cname name A') as [x|] eqn:LX; [|reflexivity].
        apply name_eqb_false. unfold Chase.last_cname in LX. apply fold_cname_in in LX as [LX|(r & Hin & Ht & Hx)]; [discriminate|].
        subst x. apply AC0; [apply in_or_app; now right|assumption]. }
      rewrite T1. cbn [forallb]. f_equal.
      destruct (ce_ad name e), (forallb (ce_ad name) (map snd rest)), cd; reflexivity.
  Qed.

  (* serveChaseHit's reply against the decoded path's, for the alias entry of the client's question *)
  Lemma wire_chase_eq_msg_lemma : forall q alias ans ad,
    wire_chase name fold name_eqb lookup qtype cd q alias = Some (ans, ad) ->
    (forall segs, collect 10 q q alias [] = Some segs -> acyclic segs) ->
    forall f, (10 <= f)%nat -> msg_hit f 0 q alias = MReply name 0 ans [] ad.
  Proof.
    intros q alias ans ad H AC f Hf. unfold wire_chase, maxWireChaseHops in H.
    destruct (collect 10 q q alias []) as [segs|] eqn:C; [|discriminate].
    injection H as <- <-. unfold compose_ad.
    apply (chase_agree 10 q q alias [] segs C (AC segs eq_refl) f 0 Hf). lia.
  Qed.
End ChaseProofs.

(* ---- examples (names are numbers, folding is the identity) ---- *)
Definition ex_rec (ty : N) (tgt rest : N) : rrec N := mk_rrec N ty tgt rest 0.
Definition ex_entry (n : N) (ans : list (rrec N)) (ttl : N) (ad due : bool) : centry N :=
  mk_centry N n ans [] [] 0 ad true ttl true true due.
(* 1 -CNAME-> 2 -CNAME-> 3, 3 has two A records; remaining 3595 s / 40 s / 7 s *)
Definition ex_store (due3 : bool) (n : N) : option (centry N) :=
  if n =? 2 then Some (ex_entry 2 [ex_rec 5 3 20] 40 true false)
  else if n =? 3 then Some (ex_entry 3 [ex_rec 1 0 30; ex_rec 1 0 31] 7 false due3)
  else None.
Definition ex_alias := ex_entry 1 [ex_rec 5 2 10] 3595 true false.

Example ex_chase_three_hops :
  wire_chase N (fun n => n) N.eqb (ex_store false) 1 false 1 ex_alias =
    Some ([mk_rrec N 5 2 10 3595; mk_rrec N 5 3 20 40; mk_rrec N 1 0 30 7; mk_rrec N 1 0 31 7], false) /\
  msg_hit N (fun n => n) N.eqb (ex_store false) 1 false (fun _ _ => false) 11 0 1 ex_alias =
    MReply N 0 [mk_rrec N 5 2 10 3595; mk_rrec N 5 3 20 40; mk_rrec N 1 0 30 7; mk_rrec N 1 0 31 7] [] false.
Proof. split; reflexivity. Qed.

(* cad4531: a refresh-due hop makes the composer decline (the request then takes the decoded body) *)
Example ex_chase_due_hop_declines :
  wire_chase N (fun n => n) N.eqb (ex_store true) 1 false 1 ex_alias = None.
Proof. reflexivity. Qed.

(* the acyclicity premise is necessary IN THE MODEL (the store below is not reachable through admission:
   replayed on the Go code, the miss path refuses such an answer - see NOTES.md): a terminal segment that also carries an alias
   record pointing back at the name it was asked under is composed by the byte path, while the decoded
   path's scan answers SERVFAIL for that hop (the outer chase then takes its error branch) *)
Definition ex_store_back (n : N) : option (centry N) :=
  if n =? 2 then Some (ex_entry 2 [ex_rec 5 2 20; ex_rec 1 0 30] 40 true false) else None.
Example ex_chase_back_alias_differs :
  wire_chase N (fun n => n) N.eqb ex_store_back 1 false 1 ex_alias =
    Some ([mk_rrec N 5 2 10 3595; mk_rrec N 5 2 20 40; mk_rrec N 1 0 30 40], true) /\
  msg_hit N (fun n => n) N.eqb ex_store_back 1 false (fun _ _ => false) 11 0 1 ex_alias = MUpstream N 2.
Proof. split; reflexivity. Qed.

