(* C05 — dnsutil.ClearDNSSEC TRANSLATED from source (srcgen purefunc with iface_cases for dns.RR: filterOut with
   its two loops, isDNSSEC as a function value, the RRSIG-question exception) against Verdict.clear_dnssec, the
   DNSSEC step both paths share: the decoded path runs it in edns.ResponseWriter.WriteMsg, the byte path packs
   its result at admission (CacheEntry.prepareStripped). *)
From Coq Require Import List Bool NArith ZArith Lia.
Import ListNotations.
From Sdns Require Import Common.Base Common.GoList Gen.C05 C05.Chase C05.Verdict C05.Prepare.
Open Scope Z_scope.

Section FilterOut.
  Variable drop : I_RR -> bool.
  Definition keep (r : I_RR) : bool := negb (drop r).

  (* index of the first dropped record *)
  Fixpoint first_drop (l : list I_RR) : option nat :=
    match l with
    | [] => None
    | x :: r => if drop x then Some O else option_map S (first_drop r)
    end.

  Lemma idx_app_len (p l : list I_RR) : go_idx I_RR_nil (p ++ l) (Z.of_nat (length p)) = hd I_RR_nil l.
  Proof.
    unfold go_idx. destruct (Z.ltb_spec (Z.of_nat (length p)) 0); [lia|].
    rewrite Nat2Z.id, app_nth2 by lia. rewrite Nat.sub_diag. now destruct l.
  Qed.

  Lemma loop1_spec : forall l p lf vr fd, (length l < lf)%nat ->
    go_filterOut_loop1 (p ++ l) lf (Z.of_nat (length p)) vr drop fd =
    (GoNext, (vr, drop, match first_drop l with Some k => Z.of_nat (length p + k) | None => fd end)).
  Proof.
    induction l as [|x l IH]; intros p lf vr fd H; (destruct lf as [|lf]; [cbn in H; lia|]).
    - cbn [go_filterOut_loop1 first_drop]. rewrite app_nil_r. unfold go_len.
      destruct (Z.ltb_spec (Z.of_nat (length p)) (Z.of_nat (length p))); [lia|reflexivity].
    - cbn [go_filterOut_loop1 first_drop]. unfold go_len. rewrite app_length. cbn [length].
      destruct (Z.ltb_spec (Z.of_nat (length p)) (Z.of_nat (length p + S (length l)))); [|lia].
      rewrite idx_app_len. cbn [hd].
      destruct (drop x) eqn:D.
      + rewrite Nat.add_0_r. reflexivity.
      + replace (p ++ x :: l) with ((p ++ [x]) ++ l) by (rewrite <- app_assoc; reflexivity).
        replace (Z.of_nat (length p) + 1) with (Z.of_nat (length (p ++ [x]))) by (rewrite app_length; cbn [length]; lia).
        rewrite IH by (cbn in H; lia).
        destruct (first_drop l) as [k|]; cbn [option_map]; [|reflexivity].
        rewrite app_length. cbn [length]. f_equal. f_equal. lia.
  Qed.

  Lemma loop2_spec : forall l p lf vr fd kept, (length l < lf)%nat ->
    go_filterOut_loop2 (p ++ l) lf (Z.of_nat (length p)) vr drop fd kept =
    (GoNext, (vr, drop, fd, kept ++ filter keep l)).
  Proof.
    induction l as [|x l IH]; intros p lf vr fd kept H; (destruct lf as [|lf]; [cbn in H; lia|]).
    - cbn [go_filterOut_loop2 filter]. rewrite !app_nil_r. unfold go_len.
      destruct (Z.ltb_spec (Z.of_nat (length p)) (Z.of_nat (length p))); [lia|reflexivity].
    - cbn [go_filterOut_loop2 filter]. unfold go_len. rewrite app_length. cbn [length].
      destruct (Z.ltb_spec (Z.of_nat (length p)) (Z.of_nat (length p + S (length l)))); [|lia].
      rewrite idx_app_len. cbn [hd]. unfold keep at 1.
      replace (p ++ x :: l) with ((p ++ [x]) ++ l) by (rewrite <- app_assoc; reflexivity).
      replace (Z.of_nat (length p) + 1) with (Z.of_nat (length (p ++ [x]))) by (rewrite app_length; cbn [length]; lia).
      destruct (drop x) eqn:D; cbn [negb]; rewrite IH by (cbn in H; lia); [reflexivity|].
      now rewrite <- app_assoc.
  Qed.

  Lemma first_drop_none l : first_drop l = None -> filter keep l = l.
  Proof.
    induction l as [|x l IH]; [reflexivity|]. cbn. unfold keep at 1.
    destruct (drop x); [discriminate|]. cbn. destruct (first_drop l); [discriminate|]. intros _. now rewrite IH.
  Qed.
  Lemma first_drop_some l : forall k, first_drop l = Some k ->
    (k < length l)%nat /\ filter keep l = firstn k l ++ filter keep (skipn (S k) l).
  Proof.
    induction l as [|x l IH]; intros k H; [discriminate|]. cbn in H. cbn [filter]. unfold keep at 1.
    destruct (drop x) eqn:D.
    - injection H as <-. cbn. split; [lia|reflexivity].
    - destruct (first_drop l) as [j|]; [|discriminate]. injection H as <-.
      destruct (IH j eq_refl) as [L E]. cbn [negb length firstn skipn]. split; [lia|].
      cbn. now rewrite E.
  Qed.

  (* dnsutil.filterOut, translated with both its loops, is the list filter *)
  Lemma gen_filter_out : forall rrs, go_filterOut rrs drop = filter keep rrs.
  Proof.
    intros rrs. unfold go_filterOut. cbv zeta.
    pose proof (loop1_spec rrs [] (S (length rrs)) rrs (-1) ltac:(lia)) as L1. cbn [app length Z.of_nat] in L1.
    rewrite L1. clear L1.
    destruct (first_drop rrs) as [k|] eqn:FD.
    - destruct (first_drop_some rrs k FD) as [LK E]. cbn [Nat.add].
      destruct (Z.eqb_spec (Z.of_nat k) (-1)); [lia|].
      assert (K0 : go_copy_at (go_make I_RR_nil (Z.of_nat k)) 0 (go_slice_to rrs (Z.of_nat k)) = firstn k rrs).
      { unfold go_copy_at, go_make, go_slice_to. rewrite !Nat2Z.id. change (Z.to_nat 0) with 0%nat.
        rewrite repeat_length, Nat.sub_0_r, firstn_length, (Nat.min_l k (length rrs)) by lia.
        rewrite Nat.min_id. cbn [firstn Nat.add app].
        rewrite firstn_firstn, Nat.min_id.
        rewrite skipn_all2 by (rewrite repeat_length; lia). now rewrite app_nil_r. }
      rewrite K0. unfold go_slice_from.
      replace (Z.to_nat (Z.of_nat k + 1)) with (S k) by lia.
      pose proof (loop2_spec (skipn (S k) rrs) [] (S (length (skipn (S k) rrs))) rrs (Z.of_nat k) (firstn k rrs) ltac:(lia)) as L2.
      cbn [app length Z.of_nat] in L2. rewrite L2. now rewrite E.
    - destruct (Z.eqb_spec (-1) (-1)); [|lia]. now rewrite first_drop_none.
  Qed.
End FilterOut.

Open Scope N_scope.
Lemma is_dnssec_typed r : rr_typed r -> go_isDNSSEC r = rec_dnssec N (rr_abs r).
Proof. destruct r; cbn; intros H; try reflexivity. unfold rec_dnssec. cbn. now rewrite H. Qed.

Lemma filter_abs l : Forall rr_typed l ->
  map rr_abs (filter (keep go_isDNSSEC) l) = filter (rec_plain N) (map rr_abs l).
Proof.
  induction 1 as [|r l Hr Hl IH]; [reflexivity|]. cbn [filter map]. unfold keep at 1, rec_plain at 1.
  rewrite <- (is_dnssec_typed r Hr). destruct (go_isDNSSEC r); cbn [negb]; [exact IH|]. cbn [map]. now rewrite IH.
Qed.

(* dnsutil.ClearDNSSEC on a message with its one question = Verdict.clear_dnssec on its body *)
Theorem gen_clear_dnssec : forall m q rest,
  T_Msg_Question m = q :: rest -> Forall rr_typed (T_Msg_Answer m) -> Forall rr_typed (T_Msg_Ns m) ->
  msg_body (go_ClearDNSSEC m) = clear_dnssec N (T_Question_Qtype q) (msg_body m)
  /\ T_Msg_Question (go_ClearDNSSEC m) = T_Msg_Question m /\ T_Msg_MsgHdr (go_ClearDNSSEC m) = T_Msg_MsgHdr m
  /\ T_Msg_Extra (go_ClearDNSSEC m) = T_Msg_Extra m.
Proof.
  intros m q rest HQ HA HN. unfold go_ClearDNSSEC, clear_dnssec. rewrite HQ.
  unfold go_len. cbn [length]. rewrite go_idx_0. unfold TypeRRSIG.
  destruct (Z.ltb_spec 0 (Z.of_nat (S (length rest)))); [|lia]. cbn [andb].
  destruct (T_Question_Qtype q =? 46) eqn:E; [rewrite HQ; repeat split; reflexivity|].
  cbn [T_Msg_Question T_Msg_MsgHdr T_Msg_Extra T_Msg_Answer T_Msg_Ns T_Msg_Compress].
  repeat split; try assumption.
  unfold msg_body. cbn [T_Msg_MsgHdr T_Msg_Answer T_Msg_Ns T_Msg_Extra vb_rcode vb_ad vb_an vb_ns vb_ar].
  rewrite !gen_filter_out, !filter_abs by assumption. reflexivity.
Qed.

(* non-vacuity: a signed answer loses its RRSIG for an A question and keeps it for an RRSIG question *)
Example ex_clear_dnssec :
  let hdr t := mk_T_RR_Header [] t 1 300 0 in
  let sig := I_RR_of_RRSIG (mk_T_RRSIG (hdr 46) 1 8 2 300 0 0 0 [] []) in
  let a := I_RR_other 1 (hdr 1) in
  let m q := mk_T_Msg (mk_T_MsgHdr 1 true 0 false false true true false true false 0) false [mk_T_Question [] q 1] [a; sig] [] [] in
  T_Msg_Answer (go_ClearDNSSEC (m 1)) = [a] /\ T_Msg_Answer (go_ClearDNSSEC (m 46)) = [a; sig].
Proof. split; reflexivity. Qed.
