(* C05 — the per-client OPT: built from bytes (edns.ResponseWriter.WriteWire / appendWireOPT /
   wireOPTLen) and attached to a message (edns.ResponseWriter.WriteMsg).  Definitions only.

   The server cookie is a function of the client half (and of secret and address, fixed per
   writer): [srv] is that function, arbitrary.  Options are (code, payload). *)
From Sdns Require Import Common.Base Common.GoList Gen.C05.
Open Scope N_scope.

Inductive eopt := mk_eopt (code : N) (data : list N).
Definition eo_code (o : eopt) : N := let '(mk_eopt c _) := o in c.
Definition eo_data (o : eopt) : list N := let '(mk_eopt _ d) := o in d.

Definition OPT_COOKIE : N := 10.  Definition OPT_NSID : N := 3.  Definition OPT_KEEPALIVE : N := 11.
Definition OPT_EDE : N := 15.     Definition OPT_SUBNET : N := 8.

(* what the edns writer wrapper holds for one request *)
Record ewriter := mk_ewriter {
  ew_noedns : bool;               (* client sent no OPT *)
  ew_do : bool;                   (* client's own DO *)
  ew_size : N;                    (* respUDPSize *)
  ew_cookie : option (list N);    (* client half (8 octets), wire- or message-born *)
  ew_nsid : option (list N);      (* Some s: NSID configured as s and requested *)
  ew_keepalive : bool;            (* stream client that sent edns-tcp-keepalive *)
  ew_req_opts : list eopt         (* options left on the request's own OPT (message-born: [] or the
                                     forwarded ECS); [] for a wire-born request *)
}.

Record optrec := mk_optrec { or_size : N; or_do : bool; or_options : list eopt }.

Definition be16_bytes (v : N) : list N := [v / 256; v mod 256].

Section Edns.
  Variable srv : list N -> list N.   (* client half -> full server cookie (8 + 32 octets) *)

  Definition own_options (w : ewriter) : list eopt :=
    (match ew_cookie w with Some c => [mk_eopt OPT_COOKIE (srv c)] | None => [] end) ++
    (match ew_nsid w with Some s => [mk_eopt OPT_NSID s] | None => [] end).
  Definition keepalive_option (w : ewriter) : list eopt :=
    if ew_keepalive w then [mk_eopt OPT_KEEPALIVE (be16_bytes tcp_keepalive_units)] else [].

  (* appendWireOPT: header, cookie, NSID, keepalive, then the Extended DNS Error carried by info *)
  Definition wire_opt (w : ewriter) (ede : option eopt) : option optrec :=
    if ew_noedns w then None else
    Some (mk_optrec (ew_size w) (ew_do w)
            (own_options w ++ keepalive_option w ++ match ede with Some e => [e] | None => [] end)).

  (* wireOPTLen + the cache's wireEDEReserve: what the lease reserves *)
  Definition wire_opt_len (w : ewriter) : N :=
    if ew_noedns w then 0 else
    opt_fixed_len
    + (match ew_cookie w with Some _ => opt_option_hdr_len + server_cookie_len | None => 0 end)
    + (match ew_nsid w with Some s => opt_option_hdr_len + N.of_nat (length s) | None => 0 end)
    + (if ew_keepalive w then opt_option_hdr_len + 2 else 0).
  Definition ede_reserve (ede : option eopt) : N :=
    match ede with Some e => opt_option_hdr_len + N.of_nat (length (eo_data e)) | None => 0 end.
  (* encoded length of an OPT record *)
  Definition optrec_len (o : option optrec) : N :=
    match o with
    | None => 0
    | Some r => 11 + fold_right (fun e acc => 4 + N.of_nat (length (eo_data e)) + acc) 0 (or_options r)
    end.

  (* WriteMsg on a downstream message whose (last) OPT carries [down]: keepRelayable (EDE only), own
     cookie/NSID (into the writer's OPT, merged behind a downstream OPT), stripECS, stripKeepalive,
     own keepalive; without EDNS every OPT is removed *)
  Definition msg_opt (w : ewriter) (down : option (list eopt)) : option optrec :=
    if ew_noedns w then None else
    let merged :=
      match down with
      | None => ew_req_opts w ++ own_options w          (* the writer's OPT stands in *)
      | Some os => filter (fun o => eo_code o =? OPT_EDE) os ++ (ew_req_opts w ++ own_options w)
      end in
    let stripped := filter (fun o => negb (eo_code o =? OPT_KEEPALIVE))
                           (filter (fun o => negb (eo_code o =? OPT_SUBNET)) merged) in
    Some (mk_optrec (ew_size w) (ew_do w) (stripped ++ keepalive_option w)).

  (* ---- the bytes.  RFC 6891 wire form of the record: root owner, TYPE 41, CLASS = advertised size,
     TTL = extended rcode 0 / version 0 / DO, RDLENGTH, then (code, length, payload) per option.
     Lengths are written as the 16-bit values the code writes (uint16 conversion = wrap). *)
  Definition encode_option (o : eopt) : list N :=
    go_put_be16 (eo_code o) ++ go_put_be16 (Z_to_uw two16 (go_len (eo_data o))) ++ eo_data o.
  Definition encode_options (os : list eopt) : list N := flat_map encode_option os.
  Definition encode_opt (r : optrec) : list N :=
    [0] ++ go_put_be16 41 ++ go_put_be16 (or_size r) ++ go_put_be32 (if or_do r then 32768 else 0)
    ++ go_put_be16 (Z_to_uw two16 (go_len (encode_options (or_options r)))) ++ encode_options (or_options r).

  (* the Extended DNS Error as WireInfo carries it (code, text) and as an option *)
  Definition ede_eopt (e : N * list N) : eopt := mk_eopt OPT_EDE (go_put_be16 (fst e) ++ snd e).

  (* edns.ResponseWriter.appendWireOPT, statement by statement, over the TRANSLATED builders of
     internal/wire (Gen.C05: go_AppendOPTHeader, go_AppendOption, go_AppendOptionString,
     go_AppendOptionEDE, go_FinishOPT): header, cookie, NSID, keepalive, EDE, RDLENGTH patched in *)
  Definition append_wire_opt (w : ewriter) (ede : option (N * list N)) (body : list N) : list N :=
    let '(body, rdlen_off) := go_AppendOPTHeader body (ew_size w) (ew_do w) in
    let body := match ew_cookie w with Some c => go_AppendOption body OPT_COOKIE (srv c) | None => body end in
    let body := match ew_nsid w with Some s => go_AppendOptionString body OPT_NSID s | None => body end in
    let body := if ew_keepalive w then go_AppendOption body OPT_KEEPALIVE (go_put_be16 tcp_keepalive_units) else body in
    let body := match ede with Some e => go_AppendOptionEDE body (fst e) (snd e) | None => body end in
    go_FinishOPT body rdlen_off.

  (* CacheEntry.ToMsg: the entry's Extended DNS Error is put on a fresh OPT when the (normalised)
     request has one - it always has after SetEdns0 *)
  Definition tomsg_down (ede : option eopt) : option (list eopt) :=
    match ede with Some e => Some [e] | None => None end.
End Edns.
