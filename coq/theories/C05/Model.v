(* C05 — wire fast path vs decoded path: executable model.  Definitions only.

   Part (i)   [parse_wire]  : middleware.Request.ParseWire / parseWireOPT, statement
              by statement, over a packet given as a list of byte values.
   Part (ii)  [lib_unpack]  : hand model of miekg/dns v1.1.72 Msg.Unpack
              (unpackMsgHdr, Msg.unpack, unpackQuestion, UnpackDomainName with
              compression pointers, unpackRRslice, unpackHeader,
              UnpackRRWithHeader, OPT.unpack / unpackDataOpt with every option
              decoder of makeDataOpt).  Record types other than OPT with a
              non-empty RDATA, and the REPORTING option, are outside the model
              ([LUnmodelled]); everything ParseWire can accept is inside it.
   Part (iii) [facts_of]    : what the Request accessors report for a request born
              from the decoded message (Request.ID/RD/CD/AD/Opcode/Qtype/Qclass/
              HasOPT/UDPSize/DO/EDNSVersion/HasECS/HasNSID/HasTCPKeepalive, the
              client cookie as dnsutil.SetEdns0 reads it, the echoed cookie as
              ratelimit.ServeDNS reads it).
   Part (iv)  accept table  : server.acceptHeader, the serveMsgBy question-count
              guard, the edns opcode / version guards, and the edns wire gate.
   Part (v)   reply shaping on bytes (wire.ApplyReply) against dns.Msg.SetReply +
              the cache's header shaping — the header half of the ladder.

   Numbers that the Go source spells out are taken from Gen/C05.v (regenerated
   from /repo on every run); the miekg/dns constants (option codes, TypeOPT,
   maxDomainNameWireOctets, maxCompressionPointers, header bit positions) are
   written here and tied by the correspondence drivers. *)
From Sdns Require Import Common.Base Gen.C05.
Open Scope N_scope.

(* ---------------------------------------------------------------- bytes *)
Definition blen (raw : list N) : N := N.of_nat (length raw).
Definition byte_at (raw : list N) (off : N) : N := nth (N.to_nat off) raw 0.
Definition be16 (raw : list N) (off : N) : N := byte_at raw off * 256 + byte_at raw (off + 1).
Definition be32 (raw : list N) (off : N) : N := be16 raw off * 65536 + be16 raw (off + 2).
Definition slice (raw : list N) (off n : N) : list N := firstn (N.to_nat n) (skipn (N.to_nat off) raw).

(* three-valued result of the fuelled loops: the out-of-fuel outcome is its own
   constructor and is proved unreachable (Proofs.v, *_fuel_ok) *)
Inductive res (A : Type) := Ok (a : A) | Decline | NoFuel.
Arguments Ok {A} a. Arguments Decline {A}. Arguments NoFuel {A}.

(* miekg/dns constants *)
Definition dns_TypeOPT : N := 41.
Definition dns_OpcodeQuery : Z := 0%Z.
Definition dns_OpcodeNotify : Z := 4%Z.
Definition EDNS0LLQ : N := 1.   Definition EDNS0UL : N := 2.     Definition EDNS0NSID : N := 3.
Definition EDNS0ESU : N := 4.   Definition EDNS0DAU : N := 5.    Definition EDNS0DHU : N := 6.
Definition EDNS0N3U : N := 7.   Definition EDNS0SUBNET : N := 8. Definition EDNS0EXPIRE : N := 9.
Definition EDNS0COOKIE : N := 10. Definition EDNS0TCPKEEPALIVE : N := 11. Definition EDNS0PADDING : N := 12.
Definition EDNS0EDE : N := 15.  Definition EDNS0REPORTING : N := 18. Definition EDNS0ZONEVERSION : N := 19.
Definition maxDomainNameWireOctets : Z := 255%Z.
Definition maxCompressionPointers : N := 126.  (* (maxDomainNameWireOctets+1)/2 - 2 *)

(* ------------------------------------------------------------ (i) ParseWire *)

Definition parse_header (raw : list N) : option T_Header :=
  if blen raw <? header_len then None
  else Some (mk_T_Header (be16 raw 0) (be16 raw 2) (be16 raw 4) (be16 raw 6) (be16 raw 8) (be16 raw 10)).

(* the question-name loop of ParseWire; returns the offset after the root label *)
Fixpoint pw_name (fuel : nat) (raw : list N) (off : N) : res N :=
  match fuel with
  | O => NoFuel
  | S k =>
      if blen raw <=? off then Decline else
      let c := byte_at raw off in
      if c =? 0 then Ok (off + 1) else
      if negb (N.land c pw_label_mask =? 0) then Decline else
      let off' := off + 1 + c in
      if blen raw <? off' then Decline else pw_name k raw off'
  end.

(* facts parsed from the OPT options *)
Record optfacts := mk_optfacts {
  o_cookie_off : N; o_cookie_len : N; o_nsid : bool; o_ecs : bool; o_ka : bool }.
Definition optfacts0 := mk_optfacts 0 0 false false false.

(* the option walk of parseWireOPT: [for off < end { ... }; return off == end] *)
Fixpoint pw_opts (fuel : nat) (raw : list N) (off endo : N) (a : optfacts) : res optfacts :=
  match fuel with
  | O => NoFuel
  | S k =>
      if endo <=? off then (if off =? endo then Ok a else Decline) else
      if endo <? off + opt_option_hdr_len then Decline else
      let code := be16 raw off in
      let optlen := be16 raw (off + 2) in
      let off := off + opt_option_hdr_len in
      if endo <? off + optlen then Decline else
      if code =? EDNS0COOKIE then
        if (optlen <? po_cookie_min) || (po_cookie_max <? optlen) || negb (o_cookie_len a =? 0) then Decline
        else pw_opts k raw (off + optlen) endo (mk_optfacts off optlen (o_nsid a) (o_ecs a) (o_ka a))
      else if code =? EDNS0NSID then
        pw_opts k raw (off + optlen) endo (mk_optfacts (o_cookie_off a) (o_cookie_len a) true (o_ecs a) (o_ka a))
      else if code =? EDNS0SUBNET then
        if optlen <? po_ecs_min then Decline else
        let family := be16 raw off in
        let netmask := byte_at raw (off + 2) in
        let scope := byte_at raw (off + 3) in
        let ok :=
          if family =? 0 then netmask =? 0
          else if family =? 1 then negb ((po_v4_mask_max <? netmask) || (po_v4_scope_max <? scope))
          else if family =? 2 then negb ((po_v6_mask_max <? netmask) || (po_v6_scope_max <? scope))
          else false in
        if ok then pw_opts k raw (off + optlen) endo (mk_optfacts (o_cookie_off a) (o_cookie_len a) (o_nsid a) true (o_ka a))
        else Decline
      else if code =? EDNS0PADDING then
        pw_opts k raw (off + optlen) endo a
      else if code =? EDNS0TCPKEEPALIVE then
        if negb (optlen =? po_ka_len_a) && negb (optlen =? po_ka_len_b) then Decline
        else pw_opts k raw (off + optlen) endo (mk_optfacts (o_cookie_off a) (o_cookie_len a) (o_nsid a) (o_ecs a) true)
      else Decline
  end.

(* the request facts: every scalar ParseWire stores; offsets are resolved to the
   bytes they denote so that they can be compared with the decoded message *)
Record facts := mk_facts {
  f_id : N; f_flags : N; f_qtype : N; f_qclass : N;
  f_name : list N;          (* raw[nameOff : nameOff+nameLen], root label included *)
  f_qend : N;               (* questionEnd *)
  f_hasopt : bool; f_udpsize : N; f_do : bool; f_version : N;
  f_ecs : bool; f_nsid : bool; f_ka : bool;
  f_cookie_client : list N; (* Request.ClientCookie *)
  f_cookie_echo : list N    (* Request.CookieEcho *)
}.

Record optpart := mk_optpart {
  p_hasopt : bool; p_udpsize : N; p_do : bool; p_version : N; p_opts : optfacts }.
Definition optpart0 := mk_optpart false 0 false 0 optfacts0.

Definition opts_fuel (raw : list N) : nat := S (length raw).
Definition name_fuel (raw : list N) : nat := S (length raw).

Definition pw_opt (raw : list N) (off : N) : res optpart :=
  if (blen raw <? off + po_fixed) || negb (byte_at raw off =? 0) then Decline else
  if negb (be16 raw (off + 1) =? dns_TypeOPT) then Decline else
  let udpsize := be16 raw (off + 3) in
  let extrcode := byte_at raw (off + 5) in
  let version := byte_at raw (off + 6) in
  let flags := be16 raw (off + 7) in
  let rdlen := be16 raw (off + 9) in
  let off := off + po_fixed in
  if negb (off + rdlen =? blen raw) then Decline else
  if negb (extrcode =? 0) then Decline else
  match pw_opts (opts_fuel raw) raw off (off + rdlen) optfacts0 with
  | Ok a => Ok (mk_optpart true udpsize (negb (N.land flags po_do_mask =? 0)) version a)
  | Decline => Decline
  | NoFuel => NoFuel
  end.

Definition parse_wire_r (raw : list N) : res facts :=
  match parse_header raw with
  | None => Decline
  | Some h =>
      if negb (go_Header_Opcode h =? dns_OpcodeQuery)%Z || go_Header_QR h then Decline else
      if negb (T_Header_QDCount h =? pw_qd) || negb (T_Header_ANCount h =? pw_an)
         || negb (T_Header_NSCount h =? pw_ns) || (pw_ar_max <? T_Header_ARCount h) then Decline else
      match pw_name (name_fuel raw) raw header_len with
      | NoFuel => NoFuel
      | Decline => Decline
      | Ok off =>
          let namelen := off - header_len in
          if (pw_name_max <? namelen) || (blen raw <? off + pw_qfixed) then Decline else
          let qtype := be16 raw off in
          let qclass := be16 raw (off + 2) in
          let qend := off + pw_qfixed in
          let mk (p : optpart) :=
            let o := p_opts p in
            mk_facts (T_Header_ID h) (T_Header_Flags h) qtype qclass
                     (slice raw header_len namelen) qend
                     (p_hasopt p) (p_udpsize p) (p_do p) (p_version p)
                     (o_ecs o) (o_nsid o) (o_ka o)
                     (if o_cookie_len o =? 0 then [] else slice raw (o_cookie_off o) rq_client_cookie_len)
                     (if o_cookie_len o =? 0 then [] else slice raw (o_cookie_off o) (o_cookie_len o)) in
          if T_Header_ARCount h =? 1 then
            match pw_opt raw qend with
            | Ok p => Ok (mk p)
            | Decline => Decline
            | NoFuel => NoFuel
            end
          else if negb (qend =? blen raw) then Decline
          else Ok (mk optpart0)
      end
  end.

Definition parse_wire (raw : list N) : option facts :=
  match parse_wire_r raw with Ok f => Some f | _ => None end.

(* Request accessors over the flags word of a wire-born request *)
Definition fact_rd (f : facts) : bool := negb (N.land (f_flags f) rq_rd_mask =? 0).
Definition fact_cd (f : facts) : bool := negb (N.land (f_flags f) rq_cd_mask =? 0).
Definition fact_ad (f : facts) : bool := negb (N.land (f_flags f) rq_ad_mask =? 0).
Definition fact_opcode (f : facts) : N := N.land (N.shiftr (f_flags f) rq_opcode_shift) rq_opcode_mask.

(* ------------------------------------------------------------ (ii) the library *)

Inductive lres (A : Type) := LOk (a : A) | LErr | LUnmodelled | LFuel.
Arguments LOk {A} a. Arguments LErr {A}. Arguments LUnmodelled {A}. Arguments LFuel {A}.

Definition label := list N.
(* wire form of a label list *)
Fixpoint encode_labels (ls : list label) : list N :=
  match ls with
  | [] => [0]
  | l :: r => blen l :: l ++ encode_labels r
  end.

(* UnpackDomainName.  [budget] counts down from maxDomainNameWireOctets; [ptr] is the
   number of pointers followed; [off1] the offset after the first pointer. *)
Fixpoint lib_name_loop (fuel : nat) (msg : list N) (off : N) (budget : Z) (ptr off1 : N)
         (acc : list label) : lres (list label * N) :=
  match fuel with
  | O => LFuel
  | S k =>
      if blen msg <=? off then LErr else
      let c := byte_at msg off in
      let off := off + 1 in
      let sel := N.land c 192 in
      if sel =? 0 then
        if c =? 0 then LOk (acc, if ptr =? 0 then off else off1)
        else if blen msg <? off + c then LErr
        else let budget := (budget - (Z.of_N c + 1))%Z in
             if (budget <=? 0)%Z then LErr
             else lib_name_loop k msg (off + c) budget ptr off1 (acc ++ [slice msg off c])
      else if sel =? 192 then
        if blen msg <=? off then LErr else
        let c1 := byte_at msg off in
        let off := off + 1 in
        let off1 := if ptr =? 0 then off else off1 in
        let ptr := ptr + 1 in
        if maxCompressionPointers <? ptr then LErr
        else lib_name_loop k msg (N.lor (N.shiftl (N.lxor c 192) 8) c1) budget ptr off1 acc
      else LErr
  end.
Definition lib_name_fuel (msg : list N) : nat := (127 * S (length msg))%nat.
Definition lib_name (msg : list N) (off : N) : lres (list label * N) :=
  lib_name_loop (lib_name_fuel msg) msg off maxDomainNameWireOctets 0 0 [].

Definition lib_u16 (msg : list N) (off : N) : option (N * N) :=
  if blen msg <? off + 2 then None else Some (be16 msg off, off + 2).
Definition lib_u32 (msg : list N) (off : N) : option (N * N) :=
  if blen msg <? off + 4 then None else Some (be32 msg off, off + 4).

Record lq := mk_lq { q_name : list label; q_type : N; q_class : N }.

(* unpackQuestion: a question may stop right after the name or after the type *)
Definition lib_question (msg : list N) (off : N) : lres (lq * N) :=
  match lib_name msg off with
  | LOk (nm, off) =>
      if off =? blen msg then LOk (mk_lq nm 0 0, off) else
      match lib_u16 msg off with
      | None => LErr
      | Some (t, off) =>
          if off =? blen msg then LOk (mk_lq nm t 0, off) else
          match lib_u16 msg off with
          | None => LErr
          | Some (c, off) => LOk (mk_lq nm t c, off)
          end
      end
  | LErr => LErr | LUnmodelled => LUnmodelled | LFuel => LFuel
  end.

Fixpoint lib_questions (n : nat) (msg : list N) (off : N) : lres (list lq * N) :=
  match n with
  | O => LOk ([], off)
  | S k =>
      match lib_question msg off with
      | LOk (q, off') =>
          if off' =? off then LOk ([], off) else
          match lib_questions k msg off' with
          | LOk (qs, o) => LOk (q :: qs, o)
          | e => e
          end
      | LErr => LErr | LUnmodelled => LUnmodelled | LFuel => LFuel
      end
  end.

(* one decoded EDNS0 option: code and payload; the typed decoders only validate *)
Inductive lopt := mk_lopt (code : N) (data : list N).
Definition lo_code (o : lopt) : N := let '(mk_lopt c _) := o in c.
Definition lo_data (o : lopt) : list N := let '(mk_lopt _ d) := o in d.

(* makeDataOpt(code).unpack(b): Some true = accepted, Some false = error, None = unmodelled *)
Definition lib_opt_check (code : N) (b : list N) : option bool :=
  let n := blen b in
  if code =? EDNS0LLQ then Some (negb (n <? 18))
  else if code =? EDNS0UL then Some ((n =? 4) || (n =? 8))
  else if code =? EDNS0SUBNET then
    if n <? 4 then Some false else
    let family := be16 b 0 in
    let netmask := byte_at b 2 in
    let scope := byte_at b 3 in
    if family =? 0 then Some (netmask =? 0)
    else if family =? 1 then Some (negb ((32 <? netmask) || (32 <? scope)))
    else if family =? 2 then Some (negb ((128 <? netmask) || (128 <? scope)))
    else Some false
  else if code =? EDNS0EXPIRE then Some ((n =? 0) || negb (n <? 4))
  else if code =? EDNS0TCPKEEPALIVE then Some ((n =? 0) || (n =? 2))
  else if code =? EDNS0EDE then Some (negb (n <? 2))
  else if code =? EDNS0ZONEVERSION then Some (negb (n <? 2))
  else if code =? EDNS0REPORTING then None
  else Some true.   (* NSID, ESU, DAU, DHU, N3U, COOKIE, PADDING, EDNS0_LOCAL: any payload *)

(* unpackDataOpt over msg[:endo] *)
Fixpoint lib_opts (fuel : nat) (msg : list N) (off endo : N) : lres (list lopt) :=
  match fuel with
  | O => LFuel
  | S k =>
      if endo <=? off then LOk [] else
      if endo <? off + 4 then LErr else
      let code := be16 msg off in
      let optlen := be16 msg (off + 2) in
      let off := off + 4 in
      if endo <? off + optlen then LErr else
      let b := slice msg off optlen in
      match lib_opt_check code b with
      | None => LUnmodelled
      | Some false => LErr
      | Some true =>
          match lib_opts k msg (off + optlen) endo with
          | LOk r => LOk (mk_lopt code b :: r)
          | e => e
          end
      end
  end.

Record lrr := mk_lrr {
  rr_name : list label; rr_type : N; rr_class : N; rr_ttl : N; rr_rdlen : N; rr_opts : list lopt }.

(* UnpackRR = unpackHeader + UnpackRRWithHeader; result: record and next offset *)
Definition lib_rr (msg : list N) (off : N) : lres (lrr * N) :=
  if off =? blen msg then LOk (mk_lrr [] 0 0 0 0 [], off) else
  match lib_name msg off with
  | LOk (nm, off) =>
      match lib_u16 msg off with None => LErr | Some (ty, off) =>
      match lib_u16 msg off with None => LErr | Some (cl, off) =>
      match lib_u32 msg off with None => LErr | Some (ttl, off) =>
      match lib_u16 msg off with None => LErr | Some (rdlen, off) =>
        let endo := off + rdlen in
        if blen msg <? endo then LErr else
        if rdlen =? 0 then LOk (mk_lrr nm ty cl ttl rdlen [], off) else
        if ty =? dns_TypeOPT then
          match lib_opts (S (length msg)) msg off endo with
          | LOk os => LOk (mk_lrr nm ty cl ttl rdlen os, endo)
          | LErr => LErr | LUnmodelled => LUnmodelled | LFuel => LFuel
          end
        else LUnmodelled
      end end end end
  | LErr => LErr | LUnmodelled => LUnmodelled | LFuel => LFuel
  end.

(* unpackRRslice *)
Fixpoint lib_rrs (n : nat) (msg : list N) (off : N) : lres (list lrr * N) :=
  match n with
  | O => LOk ([], off)
  | S k =>
      match lib_rr msg off with
      | LOk (r, off') =>
          if off' =? off then LOk ([], off) else
          match lib_rrs k msg off' with
          | LOk (rs, o) => LOk (r :: rs, o)
          | e => e
          end
      | LErr => LErr | LUnmodelled => LUnmodelled | LFuel => LFuel
      end
  end.

Record lmsg := mk_lmsg {
  m_id : N;
  m_response : bool; m_opcode : N; m_aa : bool; m_tc : bool; m_rd : bool; m_ra : bool;
  m_zero : bool; m_ad : bool; m_cd : bool; m_rcode : N;
  m_question : list lq; m_answer : list lrr; m_ns : list lrr; m_extra : list lrr }.

Definition bit (x mask : N) : bool := negb (N.land x mask =? 0).

(* Msg.IsEdns0: the last OPT of the additional section *)
Definition is_edns0 (extra : list lrr) : option lrr :=
  find (fun r => rr_type r =? dns_TypeOPT) (rev extra).
Definition opt_ext_rcode (o : lrr) : N := N.shiftl (N.shiftr (N.land (rr_ttl o) 4278190080) 24) 4.
Definition opt_version (o : lrr) : N := N.shiftr (N.land (rr_ttl o) 16711680) 16.
Definition opt_do (o : lrr) : bool := N.land (rr_ttl o) 32768 =? 32768.

Definition lib_unpack (msg : list N) : lres lmsg :=
  if blen msg <? 12 then LErr else
  let id := be16 msg 0 in
  let bits := be16 msg 2 in
  let mk rcode q a n e :=
    mk_lmsg id (bit bits 32768) (N.land (N.shiftr bits 11) 15) (bit bits 1024) (bit bits 512)
            (bit bits 256) (bit bits 128) (bit bits 64) (bit bits 32) (bit bits 16) rcode q a n e in
  let rc0 := N.land bits 15 in
  if blen msg =? 12 then LOk (mk rc0 [] [] [] []) else
  match lib_questions (N.to_nat (be16 msg 4)) msg 12 with
  | LOk (qs, off) =>
      match lib_rrs (N.to_nat (be16 msg 6)) msg off with
      | LOk (an, off) =>
          match lib_rrs (N.to_nat (be16 msg 8)) msg off with
          | LOk (ns, off) =>
              match lib_rrs (N.to_nat (be16 msg 10)) msg off with
              | LOk (ex, _) =>
                  let rc := match is_edns0 ex with
                            | Some o => N.lor rc0 (opt_ext_rcode o)
                            | None => rc0 end in
                  LOk (mk rc qs an ns ex)
              | LErr => LErr | LUnmodelled => LUnmodelled | LFuel => LFuel
              end
          | LErr => LErr | LUnmodelled => LUnmodelled | LFuel => LFuel
          end
      | LErr => LErr | LUnmodelled => LUnmodelled | LFuel => LFuel
      end
  | LErr => LErr | LUnmodelled => LUnmodelled | LFuel => LFuel
  end.

(* ------------------------------------------------------------ (iii) facts of a message *)

(* header word as the library would pack it again (MsgHdr -> Header.Bits) *)
Definition b2n (b : bool) (mask : N) : N := if b then mask else 0.
Definition msg_bits (m : lmsg) : N :=
  b2n (m_response m) 32768 + N.land (m_opcode m) 15 * 2048 + b2n (m_aa m) 1024 + b2n (m_tc m) 512
  + b2n (m_rd m) 256 + b2n (m_ra m) 128 + b2n (m_zero m) 64 + b2n (m_ad m) 32 + b2n (m_cd m) 16
  + N.land (m_rcode m) 15.

Definition has_code (c : N) (os : list lopt) : bool := existsb (fun o => lo_code o =? c) os.
(* dnsutil.SetEdns0: the last cookie option of at least 8 bytes gives the client half *)
Definition msg_cookie_client (os : list lopt) : list N :=
  fold_left (fun acc o => if (lo_code o =? EDNS0COOKIE) && (8 <=? blen (lo_data o)) then firstn 8 (lo_data o) else acc) os [].
(* ratelimit.ServeDNS: the first cookie option of at least 8 bytes is compared in full *)
Definition msg_cookie_echo (os : list lopt) : list N :=
  match find (fun o => (lo_code o =? EDNS0COOKIE) && (8 <=? blen (lo_data o))) os with
  | Some o => lo_data o
  | None => []
  end.
Definition cookie_count (os : list lopt) : nat :=
  length (filter (fun o => lo_code o =? EDNS0COOKIE) os).

Definition facts_of (m : lmsg) : facts :=
  let q := match m_question m with q :: _ => q | [] => mk_lq [] 0 0 end in
  let nm := match m_question m with q :: _ => encode_labels (q_name q) | [] => [] end in
  let o := is_edns0 (m_extra m) in
  let os := match o with Some r => rr_opts r | None => [] end in
  mk_facts (m_id m) (msg_bits m) (q_type q) (q_class q) nm (12 + blen nm + 4)
           (match o with Some _ => true | None => false end)
           (match o with Some r => rr_class r | None => 0 end)
           (match o with Some r => opt_do r | None => false end)
           (match o with Some r => opt_version r | None => 0 end)
           (has_code EDNS0SUBNET os) (has_code EDNS0NSID os) (has_code EDNS0TCPKEEPALIVE os)
           (msg_cookie_client os) (msg_cookie_echo os).

(* ------------------------------------------------------------ (iv) accept table *)

Inductive verdict :=
| VDrop          (* no reply: short header or QR set *)
| VNotImpHdr     (* engine rejectInPlace NOTIMP *)
| VFormErrHdr    (* engine rejectInPlace FORMERR: section counts *)
| VFormErrBody   (* ServeRaw returned false: engine FORMERR for an undecodable body *)
| VFormErrQd     (* serveMsgBy: decoded question count is not 1 *)
| VNotImpOpcode  (* edns: opcode > 0 *)
| VBadVers       (* edns: OPT version not 0 *)
| VProceed.      (* handed to the rest of the chain *)

Inductive hverdict := AcceptOK | AcceptIgnore | AcceptNotImplemented | AcceptFormatError.
Definition accept_header (h : T_Header) : hverdict :=
  if go_Header_QR h then AcceptIgnore
  else if negb (go_Header_Opcode h =? dns_OpcodeQuery)%Z && negb (go_Header_Opcode h =? dns_OpcodeNotify)%Z
       then AcceptNotImplemented
  else if negb (T_Header_QDCount h =? ah_qd) || (ah_an_max <? T_Header_ANCount h)
          || (ah_ns_max <? T_Header_NSCount h) || (ah_ar_max <? T_Header_ARCount h)
       then AcceptFormatError
  else AcceptOK.

(* decoded route: Msg.Unpack, serveMsgBy guard, edns.ServeDNS decoded body *)
Definition msg_verdict (m : lmsg) : verdict :=
  if negb (length (m_question m) =? 1)%nat then VFormErrQd
  else if 0 <? m_opcode m then VNotImpOpcode
  else match is_edns0 (m_extra m) with
       | Some o => if negb (opt_version o =? 0) then VBadVers else VProceed
       | None => VProceed
       end.
(* strict route: edns.ServeDNS gate over the parsed facts; a request that fails the gate
   is materialised and takes the decoded body *)
Definition wire_gate (f : facts) : bool :=
  (fact_opcode f =? 0) && (negb (f_hasopt f) || (f_version f =? 0)).

Definition ingress_hdr (raw : list N) (k : T_Header -> option verdict) : option verdict :=
  match parse_header raw with
  | None => Some VDrop
  | Some h =>
      match accept_header h with
      | AcceptIgnore => Some VDrop
      | AcceptNotImplemented => Some VNotImpHdr
      | AcceptFormatError => Some VFormErrHdr
      | AcceptOK => k h
      end
  end.
Definition decoded_route (raw : list N) : option verdict :=
  match lib_unpack raw with
  | LOk m => Some (msg_verdict m)
  | LErr => Some VFormErrBody
  | _ => None
  end.
(* the ServeMsg-shaped reference: header accept, decode, guards *)
Definition ingress_msg (raw : list N) : option verdict := ingress_hdr raw (fun _ => decoded_route raw).
(* Server.ServeRaw on a strict-slot transport *)
Definition ingress_wire (raw : list N) : option verdict :=
  ingress_hdr raw (fun _ =>
    match parse_wire raw with
    | Some f => if wire_gate f then Some VProceed else decoded_route raw
    | None => decoded_route raw
    end).

(* ------------------------------------------------------------ (v) reply header shaping *)

(* wire.ApplyReply on a stored header word *)
Definition apply_reply_flags (stored : N) (opcode : N) (rd cd : bool) : N :=
  let f := N.lor stored 32768 in
  let f := N.land f (65535 - 1024) in
  let f := N.lor (N.land f (65535 - 30720)) (N.land (N.shiftl opcode 11) 30720) in
  let f := if rd then N.lor f 256 else N.land f (65535 - 256) in
  let f := if cd then N.lor f 16 else N.land f (65535 - 16) in
  f.
(* CacheEntry.serveWireIntoRequest: ApplyReply, then AD cleared for a CD=1 client *)
Definition wire_hit_flags (stored : N) (opcode : N) (rd cd : bool) : N :=
  let f := apply_reply_flags stored opcode rd cd in
  if cd && bit stored 32 then N.land f (65535 - 32) else f.
(* CacheEntry.ToMsg: Unpack the stored message, Msg.SetReply(req) (QR, opcode, and - for
   opcode QUERY only - RD and CD from the request), stored rcode restored, AA cleared, AD
   cleared for a CD=1 request; packed again.  [stored_rd]/[stored_cd] survive for other opcodes. *)
Definition msg_hit_flags (stored : N) (opcode : N) (rd cd : bool) : N :=
  let q := N.land opcode 15 =? 0 in
  let rd' := if q then rd else bit stored 256 in
  let cd' := if q then cd else bit stored 16 in
  32768 + N.land opcode 15 * 2048 + b2n (bit stored 512) 512 + b2n rd' 256 + b2n (bit stored 128) 128
  + b2n (bit stored 64) 64 + b2n (bit stored 32 && negb cd) 32 + b2n cd' 16 + N.land stored 15.
