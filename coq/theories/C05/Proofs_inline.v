(* C05 — one charge per question across the inline pass and the replay. *)
From Sdns Require Import Common.Base C05.Ladder C05.Proofs_ladder.
Open Scope N_scope.

Section InlineProofs.
  Variable body reply : Type.
  Variable shape_msg shape_wire cut_msg cut_wire : body -> lreq -> reply.
  Variable fail_msg fail_wire servfail_norec : lreq -> reply.
  Variable denial_msg : body -> lreq -> reply.
  Variable zone_eval : N * N -> question -> option body.

  Notation entry := (entry body).
  Notation store := (store body).
  Notation msg_ladder := (msg_ladder body reply shape_msg cut_msg fail_msg servfail_norec denial_msg zone_eval).
  Notation wire_ladder := (wire_ladder body reply shape_wire cut_wire fail_wire).
  Notation serve_inline_replay := (serve_inline_replay body reply shape_msg shape_wire cut_msg cut_wire fail_msg fail_wire
                                   servfail_norec denial_msg zone_eval).

  Hypothesis body_equiv : forall (e : entry) rq b,
    wire_body_for body e rq = Some b -> shape_wire b rq = shape_msg (e_full body e) rq.
  Hypothesis cut_equiv : forall b rq, cut_wire b rq = cut_msg b rq.
  Hypothesis fail_equiv : forall rq, fail_wire rq = fail_msg rq.

  (* every decline that can still happen AFTER the byte path charged the entry's limiter - a lease the
     transport cannot grant, an entry that expired between check and build, a body that does not build, a
     transport fall-back at commit - is excluded: these are the "commit-time backstops" the code comment
     accepts as the rare double charge (ex_backstop_double_charge below; seeded change C05-9 moved the
     deterministic size decline into that region) *)
  Definition no_backstop (st : store) (rq : lreq) (ch : chain) : Prop :=
    match s_exact body st (r_q rq) (r_cd rq) with
    | Some e => e_limiter body e = None \/
                (c_lease ch = true /\ e_live body e = true /\ c_build ch = true /\ c_commit ch = true)
    | None => True
    end.

  (* a decline of the inline pass has then spent nothing *)
  Lemma inline_decline_free st tk rq ch tk' sp :
    no_backstop st rq ch -> wire_ladder st tk rq ch = WDeclined reply tk' sp -> tk' = tk /\ sp = None.
  Proof.
    intros NB. unfold Ladder.wire_ladder.
    assert (COMP : wire_composite body reply cut_wire fail_wire st tk rq ch = WDeclined reply tk' sp -> tk' = tk /\ sp = None).
    { unfold wire_composite. repeat match goal with |- context [match ?x with _ => _ end] => destruct x end;
        intro H; first [discriminate | now inversion H]. }
    destruct (negb (r_rd rq) || r_ecs rq); [intro H; now inversion H|].
    destruct (negb (r_type_known rq)); [intro H; now inversion H|].
    destruct (negb (r_class_known rq)); [intro H; now inversion H|].
    unfold no_backstop in NB.
    destruct (s_exact body st (r_q rq) (r_cd rq)) as [e|]; [|exact COMP].
    destruct (entry_matches body e rq); [|exact COMP].
    unfold wire_hit.
    destruct (c_internal ch); [intro H; now inversion H|].
    destruct (e_prefetch_due body e); [intro H; now inversion H|].
    destruct (negb (e_eligible body e)); [intro H; now inversion H|].
    destruct (negb (c_wire_ready ch)); [intro H; now inversion H|].
    destruct (negb (e_chase_safe body e)); [intro H; now inversion H|].
    destruct (wire_body_for body e rq); [|intro H; now inversion H].
    destruct (negb (c_fits ch)); [intro H; now inversion H|].
    destruct NB as [NL|(L & LV & B & C)].
    - rewrite NL.
      destruct (negb (c_lease ch)); [intro H; now inversion H|].
      destruct (negb (e_live body e && c_build ch)); [intro H; now inversion H|].
      destruct (negb (c_commit ch)); [intro H; now inversion H|]. discriminate.
    - rewrite L, LV, B, C. cbn [negb andb].
      destruct (e_limiter body e) as [id|]; [|discriminate].
      destruct (allow tk id) as [[|] tk2]; discriminate.
  Qed.

  (* the decoded body reads the writer chain only through Internal() *)
  Lemma msg_ladder_chain st tk rq ch ch' sp :
    c_internal ch' = c_internal ch -> msg_ladder st tk rq ch' sp = msg_ladder st tk rq ch sp.
  Proof. intro H. unfold Ladder.msg_ladder, Ladder.msg_hit. rewrite H. reflexivity. Qed.

  (* ONE CHARGE PER QUESTION: the inline pass followed (on a decline) by the replay yields the outcome and
     the limiter state of the decoded ladder on its own - same reply, same refusal (ODrop), same number
     of tokens left in every bucket - for every store, token state, request and writer-chain behaviour *)
  Theorem inline_replay_refines : forall (st : store) tk rq ch ch',
    store_ok body zone_eval st -> no_backstop st rq ch -> c_internal ch' = c_internal ch ->
    serve_inline_replay st tk rq ch ch' = msg_ladder st tk rq ch' None.
  Proof.
    intros st tk rq ch ch' OK NB HI.
    pose proof (serve_dns_refines body reply shape_msg shape_wire cut_msg cut_wire fail_msg fail_wire servfail_norec
                  denial_msg zone_eval body_equiv cut_equiv fail_equiv st tk rq ch OK) as R.
    unfold Ladder.serve_dns in R. unfold Ladder.serve_inline_replay.
    destruct (wire_ladder st tk rq ch) as [o tk'|tk' sp] eqn:W.
    - rewrite R. symmetry. now apply msg_ladder_chain.
    - destruct (inline_decline_free _ _ _ _ _ _ NB W) as [-> ->]. reflexivity.
  Qed.
End InlineProofs.

(* ---- the premise is necessary: a post-charge decline of the inline pass (here: no lease) costs the
   question a second token on the replay - with one token in the bucket the query is dropped where the
   decoded path answers.  Seeded change C05-9 (size decline moved behind the charge) has this shape. *)
Definition il_q := mk_question [1;97;0] 1 1.
Definition il_rq := mk_lreq il_q true false false false true true false false.
Definition il_entry : entry N := mk_entry N il_q false true true true false 5 None false (Some 1).
Definition il_store : store N :=
  mk_store N (fun _ _ => Some il_entry) (fun _ => None) true (fun _ => []) true (fun _ _ => None).
Definition il_chain (lease : bool) := mk_chain false true true lease true true.
Definition il_run (lease : bool) :=
  serve_inline_replay N N (fun b _ => b) (fun b _ => b) (fun b _ => b) (fun b _ => b) (fun _ => 2) (fun _ => 2)
    (fun _ => 3) (fun b _ => b) (fun _ _ => None) il_store (fun _ => 1%nat) il_rq (il_chain lease) (il_chain true).
Example ex_one_charge : fst (il_run true) = OReply N 5 /\ snd (il_run true) 1 = 0%nat.
Proof. split; reflexivity. Qed.
Example ex_backstop_double_charge :
  fst (il_run false) = ODrop N /\
  fst (msg_ladder N N (fun b _ => b) (fun b _ => b) (fun _ => 2) (fun _ => 3) (fun b _ => b) (fun _ _ => None)
                  il_store (fun _ => 1%nat) il_rq (il_chain true) None) = OReply N 5.
Proof. split; reflexivity. Qed.
