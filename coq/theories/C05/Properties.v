(* C05 — property theorems only.  Each is closed by [exact <lemma>]; lemmas live in
   Proofs.v, the model in Model.v, Gen/C05.v is regenerated from /repo on every run.

   Proved here (for every packet, of any length):
     parse_wire_sound, parse_wire_sound_shape, parse_wire_declines_safely,
     strict_within_accept, accept_agree.
     hit_header_eq (reply header word of a served hit, bytes vs message),
     ladder_refines_partial (the two cache ladders over an abstract store).

   Full statements of what is only PARTLY proved, kept for the record:

     ladder_refines  : forall st f r, wire_ladder st f = Some r -> msg_ladder st (decode f) = r
         for the concrete ladders including alias composition and with the reply shapers
         defined on bytes / messages.  Proved below as ladder_refines_partial: rung order,
         gating, the miss-witness rule and the one-token-per-question accounting, over an
         abstract store, with the body-level shaping equalities as explicit premises and
         alias composition (serveChaseHit) treated as a decline.
     edns_wire_eq_msg: proved below in full for the OPT record (size, DO, options as a multiset);
         wire_opt_len_exact: the lease reserve is the exact encoded length.

   Limiter tokens of the per-client limiter and the inline/replay hand-off are compared
   differentially only; see props/C05/NOTES.md. *)
From Sdns Require Import Common.Base Common.GoList Gen.C05 C05.Model C05.Proofs C05.Proofs_libfuel C05.Ladder C05.Proofs_ladder C05.Edns C05.Proofs_edns C05.Proofs_gen3 C05.Proofs_loops C05.Chase C05.Proofs_chase C05.Proofs_inline C05.Verdict C05.Proofs_verdict C05.Climit C05.Proofs_climit C05.Prepare C05.Proofs_prepare C05.Proofs_cleardnssec.
Open Scope N_scope.

(* the strict admission never accepts what the library rejects, and reads the same facts *)
Theorem parse_wire_sound : forall raw f, bytes_ok raw -> parse_wire raw = Some f ->
  exists m, lib_unpack raw = LOk m /\ facts_of m = f.
Proof. exact parse_wire_sound_lemma. Qed.
Print Assumptions parse_wire_sound.

(* ... and what it accepts decodes to exactly one question, opcode QUERY, QR clear, the flag
   accessors agree bit for bit, no answer/authority records, at most the one OPT, which
   carries at most one cookie option and no extended rcode *)
Theorem parse_wire_sound_shape : forall raw f, bytes_ok raw -> parse_wire raw = Some f ->
  exists m, sound_msg raw f m.
Proof. exact parse_wire_sound_strong. Qed.
Print Assumptions parse_wire_sound_shape.

(* a refusal is a decision of the parser (never the model running out of fuel) ... *)
Theorem parse_wire_total : forall raw, parse_wire_r raw <> NoFuel.
Proof. exact parse_wire_fuel_ok. Qed.
Print Assumptions parse_wire_total.

(* ... and neither is any result of the library model *)
Theorem lib_model_total : forall msg, lib_unpack msg <> LFuel.
Proof. exact lib_unpack_fuel_ok. Qed.
Print Assumptions lib_model_total.

(* the strict admission is inside the engine's header accept table *)
Theorem strict_within_accept : forall raw f, parse_wire raw = Some f ->
  exists h, parse_header raw = Some h /\ accept_header h = AcceptOK.
Proof. exact accepted_header_ok. Qed.
Print Assumptions strict_within_accept.

(* drop / NOTIMP / FORMERR (header, body, question count) / NOTIMP (opcode) / BADVERS /
   hand-over to the chain: the strict ingress and the decoded ingress decide alike, for
   every packet — accepted by the strict parser or refused by it *)
Theorem accept_agree : forall raw, bytes_ok raw -> ingress_wire raw = ingress_msg raw.
Proof. exact accept_agree_lemma. Qed.
Print Assumptions accept_agree.

(* ... and therefore safe: a refused packet takes the decoded route with the same verdict *)
Theorem parse_wire_declines_safely : forall raw, bytes_ok raw -> parse_wire raw = None ->
  parse_wire_r raw = Decline /\ ingress_wire raw = ingress_msg raw.
Proof. exact declines_safely_lemma. Qed.
Print Assumptions parse_wire_declines_safely.

(* source ties: the constants and the guard texts the model was written against *)
Theorem source_numbers :
  (header_len, opt_fixed_len, opt_option_hdr_len, po_fixed) = (12, 11, 4, 11) /\
  (pw_qd, pw_an, pw_ns, pw_ar_max, pw_label_mask, pw_name_max, pw_qfixed) = (1, 0, 0, 1, 192, 255, 4) /\
  (po_do_mask, po_cookie_min, po_cookie_max, po_ecs_min) = (32768, 8, 40, 4) /\
  (po_v4_mask_max, po_v4_scope_max, po_v6_mask_max, po_v6_scope_max, po_ka_len_a, po_ka_len_b) = (32, 32, 128, 128, 0, 2) /\
  (rq_rd_mask, rq_cd_mask, rq_ad_mask, rq_opcode_shift, rq_opcode_mask, rq_client_cookie_len) = (256, 16, 32, 11, 15, 8) /\
  (ah_qd, ah_an_max, ah_ns_max, ah_ar_max) = (1, 1, 1, 2).
Proof. exact gen_numbers. Qed.
Print Assumptions source_numbers.

Theorem source_guards : source_guards_stmt.
Proof. exact gen_source_guards. Qed.
Print Assumptions source_guards.

(* the header word of a reply served from bytes (wire.ApplyReply, AD cleared for CD) is the header
   word the decoded path packs (Unpack, SetReply, stored rcode, AA cleared, AD cleared for CD),
   for every stored header and every RD/CD combination; the strict path only carries opcode 0 *)
Theorem hit_header_eq : forall stored rd cd, stored < 65536 ->
  wire_hit_flags stored 0 rd cd = msg_hit_flags stored 0 rd cd.
Proof. exact hit_flags_eq. Qed.
Print Assumptions hit_header_eq.

(* Cache.ServeDNS for a wire-born request (wire ladder, then the decoded body with the permit
   already paid) yields the outcome AND the limiter state of the decoded ladder on its own:
   same rung (exact hit, subtree cut, [denial: decoded only], cached failure under the
   miss-witness rule, miss), same reply, one token per question - for every store, token state,
   request, writer-chain behaviour, every RFC 8198 zone evaluator.  Premises: the stored bodies
   shape alike on both paths (admission-time verdict), and a question-kind failure's witness
   names snapshots that did not deny that question. *)
Theorem ladder_refines_partial :
  forall (body reply : Type) (shape_msg shape_wire cut_msg cut_wire : body -> lreq -> reply)
         (fail_msg fail_wire servfail_norec : lreq -> reply) (denial_msg : body -> lreq -> reply)
         (zone_eval : N * N -> question -> option body),
  (forall (e : entry body) rq b, Ladder.wire_body_for body e rq = Some b -> shape_wire b rq = shape_msg (e_full body e) rq) ->
  (forall b rq, cut_wire b rq = cut_msg b rq) ->
  (forall rq, fail_wire rq = fail_msg rq) ->
  forall (st : store body) tk rq ch, store_ok body zone_eval st ->
  serve_dns body reply shape_msg shape_wire cut_msg cut_wire fail_msg fail_wire servfail_norec denial_msg zone_eval st tk rq ch
  = msg_ladder body reply shape_msg cut_msg fail_msg servfail_norec denial_msg zone_eval st tk rq ch None.
Proof. exact serve_dns_refines. Qed.
Print Assumptions ladder_refines_partial.

(* the OPT built from bytes (appendWireOPT: cookie, NSID, keepalive, cached EDE) is the OPT
   WriteMsg leaves on the message ToMsg hands over (EDE relayed, own cookie/NSID merged, the
   request's forwarded subnet stripped, own keepalive): same size and DO, same options up to
   order; both absent for a client without EDNS.  For every server-cookie function. *)
Theorem edns_wire_eq_msg : forall (srv : list N -> list N) w ede,
  only_subnet (ew_req_opts w) -> (forall e, ede = Some e -> eo_code e = OPT_EDE) ->
  match wire_opt srv w ede, msg_opt srv w (tomsg_down ede) with
  | None, None => True
  | Some a, Some b => or_size a = or_size b /\ or_do a = or_do b /\ Permutation.Permutation (or_options a) (or_options b)
  | _, _ => False
  end.
Proof. exact edns_wire_eq_msg_lemma. Qed.
Print Assumptions edns_wire_eq_msg.

(* wireOPTLen (+ the entry's EDE reserve) is exactly the encoded length of that record *)
Theorem wire_opt_reserve_exact : forall (srv : list N -> list N) w ede,
  (forall c, ew_cookie w = Some c -> length (srv c) = 40%nat) ->
  optrec_len (wire_opt srv w ede) = wire_opt_len w + (if ew_noedns w then 0 else ede_reserve ede).
Proof. exact wire_opt_len_exact. Qed.
Print Assumptions wire_opt_reserve_exact.

(* ---- stage-3 translator ties (internal/wire translated from source with lists) ---- *)

(* wire.ParseHeader, translated, is the header parse the strict-admission model starts with *)
Theorem parse_header_is_source : forall raw,
  go_ParseHeader raw = match parse_header raw with Some h => (h, true) | None => (mk_T_Header 0 0 0 0 0 0, false) end.
Proof. exact gen_parse_header. Qed.
Print Assumptions parse_header_is_source.

(* edns.appendWireOPT composed from the TRANSLATED builders wire.AppendOPTHeader / AppendOption /
   AppendOptionString / AppendOptionEDE / FinishOPT appends to any body exactly the RFC 6891 encoding
   of the abstract record wire_opt (which edns_wire_eq_msg equates with the decoded path's OPT), for
   every writer, server-cookie function, EDE and body; the 16-bit length fields wrap alike on both
   sides, so there is no size premise *)
Theorem wire_opt_bytes_exact : forall (srv : list N -> list N) w ede body r,
  wire_opt srv w (option_map ede_eopt ede) = Some r ->
  append_wire_opt srv w ede body = body ++ encode_opt r.
Proof. exact append_wire_opt_encodes. Qed.
Print Assumptions wire_opt_bytes_exact.

(* ... and that encoding is as long as the lease reserved (with wire_opt_reserve_exact) *)
Theorem wire_opt_bytes_fill_reserve : forall (srv : list N -> list N) w ede body r,
  (forall c, ew_cookie w = Some c -> length (srv c) = 40%nat) ->
  wire_opt srv w (option_map ede_eopt ede) = Some r ->
  N.of_nat (length (append_wire_opt srv w ede body)) =
  N.of_nat (length body) + wire_opt_len w + ede_reserve (option_map ede_eopt ede).
Proof. exact append_wire_opt_fills_reserve. Qed.
Print Assumptions wire_opt_bytes_fill_reserve.

(* ---- stage-3 LOOP ties (srcgen loopfunc): the two loops of the strict admission ---- *)

(* the question-name loop of Request.ParseWire, translated from source, is Model.pw_name: at every
   budget k and offset it ends the same way (fell through / returned false / out of budget) and, when it
   falls through, at the offset the model computes *)
Theorem parse_wire_name_loop_is_source : forall f k raw off,
  let r := go_Request_ParseWire_loop1 f k raw (Z.of_N off) in
  fst r = name_loop_ctl (pw_name k raw off) /\
  (forall o, pw_name k raw off = Ok o -> snd r = (raw, Z.of_N o)).
Proof. exact gen_pw_name_loop. Qed.
Print Assumptions parse_wire_name_loop_is_source.

(* the option walk of Request.parseWireOPT, translated from source over the whole Request record, with its
   closing [return off == end], is Model.pw_opts: accepted with the same cookie offset/length and
   NSID/ECS/keepalive facts written to the receiver, refused (inside the loop or by the closing test)
   exactly when the model declines, out of budget exactly when the model is *)
Theorem parse_wire_opt_walk_is_source : forall f k raw hasopt usz dob verz r off endo a us er ver fl rdl,
  opt_rel r a -> opt_frame raw hasopt usz dob verz r ->
  walk_rel raw endo (fun r' a' => opt_rel r' a' /\ opt_frame raw hasopt usz dob verz r')
    (go_Request_parseWireOPT_loop1 f k r (Z.of_N off) raw us er ver fl rdl (Z.of_N endo)) (pw_opts k raw off endo a).
Proof. exact gen_pw_opts_loop. Qed.
Print Assumptions parse_wire_opt_walk_is_source.

(* Request.parseWireOPT translated as a WHOLE (receiver-mutating method: the final receiver is the last
   result) is Model.pw_opt: refused exactly when the model declines, never out of budget at the model's
   fuel unless the model is, and on acceptance the receiver holds exactly the model's OPT facts
   (hasOPT, UDP size, DO, version, cookie offset/length, NSID / ECS / keepalive) over the same bytes.
   Request.ParseWire itself cannot be translated whole: its parameter [ednsSlot any] is refused. *)
Theorem parse_wire_opt_is_source : forall raw r off,
  T_Request_raw r = raw -> opt_rel r optfacts0 ->
  match pw_opt raw off with
  | Ok p => exists r', go_Request_parseWireOPT (opts_fuel raw) r (Z.of_N off) = Some (true, r') /\
                       opt_rel r' (p_opts p) /\ opt_frame raw true (p_udpsize p) (p_do p) (p_version p) r'
  | Decline => exists r', go_Request_parseWireOPT (opts_fuel raw) r (Z.of_N off) = Some (false, r')
  | NoFuel => go_Request_parseWireOPT (opts_fuel raw) r (Z.of_N off) = None
  end.
Proof. exact gen_parse_wire_opt. Qed.
Print Assumptions parse_wire_opt_is_source.

(* ---- alias composition (the part ladder_refines_partial treats as a decline) ----
   Chase.v models Cache.collectWireChase / composeWireChase (hop walk over the abstract store: body for
   the client's DO class, expiry, NOERROR with empty authority/additional, recomposable records,
   terminal record, last alias, question-name and visited-key loop checks, full-preimage match,
   refresh-due decline of cad4531, at most 10 segments) and the decoded path's nested chase
   (handleCacheHit -> ToMsg -> additionalAnswer's scan and lookup loop -> sub-query -> handleCacheHit one
   level deeper, depth < 10) over the SAME store.  Whenever the byte path composes, the decoded path
   returns NOERROR with exactly the same records - every segment's records stamped with that segment's
   remaining seconds, in chain order - an empty authority section and the same AD verdict (all segments'
   AD, cleared for CD).  For every name type, folding, store, qtype other than CNAME / DS (the call-site
   guard: such questions are chase-safe and never reach the composer), CD.  Premise: no alias record of
   the chain points, under case folding (both paths compare folded names since /repo a4faf69), at a name
   already asked at or before its segment; the walk itself
   guarantees that (under folding) for the alias each segment continues with, not for the other alias
   records of a section (ex_chase_back_alias_differs shows the two MODELS differ there).
   Records are (type, alias target, opaque rest, TTL): CNAME chains only - DNAME synthesis, RDATA
   re-encoding and name compression are outside this model (compared by the two-server driver). *)
Theorem wire_chase_eq_msg :
  forall (name : Type) (fold : name -> name) (name_eqb : name -> name -> bool),
  (forall a b : name, name_eqb a b = true <-> a = b) ->
  forall (lookup : name -> option (centry name)) (qtype : N) (cd : bool) (ns_dup : rrec name -> rrec name -> bool),
  (qtype =? TypeCNAME) = false -> (qtype =? 43) = false ->
  forall (q : name) (alias : centry name) (ans : list (rrec name)) (ad : bool),
  wire_chase name fold name_eqb lookup qtype cd q alias = Some (ans, ad) ->
  (forall segs, collect name fold name_eqb lookup qtype 10 q q alias nil = Some segs -> acyclic name fold segs) ->
  forall f : nat, (10 <= f)%nat ->
  msg_hit name fold name_eqb lookup qtype cd ns_dup f 0 q alias = MReply name 0 ans nil ad.
Proof. exact wire_chase_eq_msg_lemma. Qed.
Print Assumptions wire_chase_eq_msg.

(* what the repaired admission path (a4faf69) lets in: the miss path runs additionalAnswer's scan on the
   upstream answer and files a SERVFAIL instead of storing; hence a stored alias-only answer holds no alias
   record pointing, in any spelling, at the name it is keyed under - the own-name part of [acyclic]'s head
   condition for every non-terminal segment.  The rest of [acyclic] (alias records of a terminal segment
   behind its first terminal record; names asked earlier in the chain for other than the continuing alias)
   remains a premise of wire_chase_eq_msg. *)
Theorem admitted_alias_only_not_self :
  forall (name : Type) (fold : name -> name) (name_eqb : name -> name -> bool),
  (forall a b : name, name_eqb a b = true <-> a = b) ->
  forall (qtype : N) (qn : name) (rs : list (rrec name)) (t : option name),
  has_qtype name qtype rs = false -> scan name fold name_eqb qtype qn rs t <> ScanServfail name ->
  forall r, In r rs -> r_type name r = TypeCNAME -> fold (r_target name r) <> fold qn.
Proof. exact admitted_alias_only_not_self. Qed.
Print Assumptions admitted_alias_only_not_self.

(* ONE CHARGE PER QUESTION across ServeRawInline + ServeRawReplay: the inline pass (the wire ladder alone;
   a decline hands the query off with nothing written and the [spent] permit forgotten) followed by the
   replay (Cache.ServeDNS skips the ladder, decoded body with no permit) yields the outcome AND the state
   of every limiter bucket of the decoded ladder on its own: same reply, refused (dropped) in the same
   token states, the same number of tokens charged - for every store, token state, request, writer-chain
   behaviour of either pass.  Premise [no_backstop]: no decline after the byte path charged (lease, expiry
   between check and build, build, commit fall-back) - the code comment accepts these as the rare double
   charge; ex_backstop_double_charge shows the premise is necessary, and seeded change C05-9 (the
   deterministic size decline moved behind the charge) is caught by the differential driver. *)
Theorem inline_replay_one_charge :
  forall (body reply : Type) (shape_msg shape_wire cut_msg cut_wire : body -> lreq -> reply)
         (fail_msg fail_wire servfail_norec : lreq -> reply) (denial_msg : body -> lreq -> reply)
         (zone_eval : N * N -> question -> option body),
  (forall (e : entry body) rq b, Ladder.wire_body_for body e rq = Some b -> shape_wire b rq = shape_msg (e_full body e) rq) ->
  (forall b rq, cut_wire b rq = cut_msg b rq) ->
  (forall rq, fail_wire rq = fail_msg rq) ->
  forall (st : store body) tk rq ch ch', store_ok body zone_eval st -> no_backstop body st rq ch ->
  c_internal ch' = c_internal ch ->
  serve_inline_replay body reply shape_msg shape_wire cut_msg cut_wire fail_msg fail_wire servfail_norec denial_msg zone_eval st tk rq ch ch'
  = msg_ladder body reply shape_msg cut_msg fail_msg servfail_norec denial_msg zone_eval st tk rq ch' None.
Proof. exact inline_replay_refines. Qed.
Print Assumptions inline_replay_one_charge.


(* THE ADMISSION-TIME SERVING VERDICT AND THE DO CLASS OF AN EXACT HIT (session 4).  Byte path: prepareWireServe's
   flags, prepareStripped's DO=0 body (dnsutil.ClearDNSSEC packed at admission, kept only when servable and
   free of DNSSEC records), wireBodyFor, wireInfoFor's HasDNSSEC and the edns writer's commit-time diversion,
   in serveHitFromWire's order (Verdict.wire_exact).  Decoded path: ToMsg of the FULL stored body, additionalAnswer
   (Chase.additional), edns.ResponseWriter.WriteMsg's ClearDNSSEC for a client without DO.  For every body
   (any record types in any section), question type, DO bit, CD, sub-query behaviour: whenever the byte path
   serves an exact entry, the decoded chase leaves ToMsg's message alone and the body the byte path copied is
   the full body after the edns writer's DNSSEC step - the same rcode, answer, authority and additional
   records in the same order.  Premise: no alias record of the answer points (under folding) at the question
   (ex_self_alias_needed: necessary; admission refuses that shape for the spelling it is admitted under). *)
Theorem wire_verdict_eq_msg :
  forall (name : Type) (fold : name -> name) (name_eqb : name -> name -> bool),
  (forall a b, name_eqb a b = true <-> a = b) ->
  forall (qtype : N) (cd : bool) (ns_dup : rrec name -> rrec name -> bool) (sub : name -> mres name)
         (qname : name) (ttl : N) (b r : vbody name) (do : bool),
  no_self_alias name fold name_eqb qname (vb_an name b) = true ->
  wire_exact name (admission name qtype b) do = WServe name r ->
  additional name fold name_eqb qtype ns_dup sub qname (to_msg name cd (centry_of name qname ttl b))
    = to_msg name cd (centry_of name qname ttl b)
  /\ r = edns_write_msg name qtype do b.
Proof. exact wire_verdict_eq_msg_lemma. Qed.
Print Assumptions wire_verdict_eq_msg.

(* a client without DO is never shown an RRSIG / NSEC / NSEC3 record in answer or authority by the byte path
   unless it asked for RRSIG - whatever the entry holds and whatever type was asked (NSEC and NSEC3 questions
   included: both paths strip their payload) *)
Theorem wire_exact_nodo_has_no_dnssec :
  forall (name : Type) (qtype : N) (b r : vbody name),
  (qtype =? TypeRRSIG) = false ->
  wire_exact name (admission name qtype b) false = WServe name r ->
  existsb (rec_dnssec name) (vb_an name r ++ vb_ns name r) = false.
Proof. exact wire_exact_nodo_clean. Qed.
Print Assumptions wire_exact_nodo_has_no_dnssec.

(* THE PER-CLIENT LIMITER WITH COOKIES (session 5).  RateLimit.ServeDNS behind its gates (replay pass, internal
   writer, rate 0, no / loopback client address) has a decoded body (Climit.crl_msg: the loop over the cookie
   options of the message, cookie remembered after the chain ran, UDP mismatch = one token + BADCOOKIE with the
   fresh server cookie written into that option, TCP mismatch = the plain limiter) and serveWire
   (Climit.crl_wire: the echoed cookie from the parsed offsets, materialising only for the BADCOOKIE reply).
   For every limiter state (remembered cookie, tokens), transport, gate combination, server-cookie hash and
   option list with at most one cookie option - of any length, at any position, among any other options - the
   two give the same outcome (rest of the chain runs / nothing written / BADCOOKIE rewriting the same option
   with the same cookie), charge the same token and remember the same cookie.  The premise is what the strict
   admission guarantees (second theorem) and is needed (Proofs_climit.ex_two_cookies_differ). *)
Theorem client_limiter_wire_eq_msg :
  forall (hash : list N -> list N) (g : crl_gate) (udp : bool) (st : crl_state) (os : list lopt) (echo : list N),
  (cookie_count os <= 1)%nat -> echo = msg_cookie_echo os ->
  crl_serve_wire hash g udp st echo os = crl_serve_msg hash g udp st os.
Proof. exact crl_wire_eq_msg_lemma. Qed.
Print Assumptions client_limiter_wire_eq_msg.

(* ... hence for EVERY packet Request.ParseWire takes: the limiter run on the wire-born request's echoed cookie
   (Model.parse_wire's f_cookie_echo = Request.CookieEcho) and on the message the library decodes from the same
   octets (Model.lib_unpack) agree - no premise on the packet beyond its octets being octets *)
Theorem client_limiter_strict_eq_msg :
  forall (hash : list N -> list N) (g : crl_gate) (udp : bool) (st : crl_state) (raw : list N) (f : facts),
  bytes_ok raw -> parse_wire raw = Some f ->
  exists m, lib_unpack raw = LOk m /\
    crl_serve_wire hash g udp st (f_cookie_echo f) (crl_msg_opts m) = crl_serve_msg hash g udp st (crl_msg_opts m).
Proof. exact crl_strict_eq_msg_lemma. Qed.
Print Assumptions client_limiter_strict_eq_msg.

(* cache.prepareWireServe TRANSLATED AS A WHOLE (srcgen purefunc over wire.ParseHeader / ParseQuestion / SkipName /
   ParseRR) against the abstract admission verdict Verdict.prepare_wire_serve, for ALL octet strings and every
   fuel: when the translated parsers accept the header (one question) and the question, and the translated
   wire.ParseRR walks ANCOUNT + NSCOUNT + ARCOUNT records from the end of the question (Prepare.rr_types), the flag
   byte is 0 unless the walk ends exactly at the end of the body, and otherwise exactly the model's verdict
   (eligible, has-DNSSEC from answer + authority, chase-safe) on the rcode and the record TYPES the walk met,
   split into sections by the header counts.  CaseVerdict checks the premises on the stored octets of real
   entries (Prepare.stored_walk_ok: the walk reaches the end and meets the types of the records the library decodes). *)
Theorem prepare_wire_serve_is_source : forall fuel body h q ts e,
  go_ParseHeader body = (h, true) -> T_Header_QDCount h = 1 ->
  go_ParseQuestion fuel body 12 = Some (q, true) ->
  rr_types fuel (N.to_nat (T_Header_ANCount h) + N.to_nat (T_Header_NSCount h) + N.to_nat (T_Header_ARCount h))
           body (T_wire_Question_End q) = Some (ts, e) ->
  go_prepareWireServe fuel body =
  Some (if (e =? go_len body)%Z
        then vflags_byte (prepare_wire_serve N (T_wire_Question_Qtype q) (body_of_types h ts))
        else 0).
Proof. exact gen_prepare_wire_serve. Qed.
Print Assumptions prepare_wire_serve_is_source.

(* dnsutil.ClearDNSSEC TRANSLATED AS A WHOLE (srcgen purefunc; dns.RR as a sum type via iface_cases, filterOut with
   both its loops, isDNSSEC passed as a function value, the RRSIG-question exception) is Verdict.clear_dnssec - the
   DNSSEC step the decoded path runs in edns.ResponseWriter.WriteMsg and the byte path runs at admission
   (CacheEntry.prepareStripped), on which wire_verdict_eq_msg rests.  For every message with a question and records of
   any types (premise: a record that is not a *dns.RRSIG / *dns.NSEC / *dns.NSEC3 value does not carry one of their type
   numbers in its header - the library's own invariant): same answer and authority records in the same order, header,
   question and additional section untouched.  gen_filter_out: the translated filterOut (copy-on-first-drop, two
   loops over indices) is the list filter, for all lists and predicates. *)
Theorem clear_dnssec_is_source : forall m q rest,
  T_Msg_Question m = q :: rest -> Forall rr_typed (T_Msg_Answer m) -> Forall rr_typed (T_Msg_Ns m) ->
  msg_body (go_ClearDNSSEC m) = clear_dnssec N (T_Question_Qtype q) (msg_body m)
  /\ T_Msg_Question (go_ClearDNSSEC m) = T_Msg_Question m /\ T_Msg_MsgHdr (go_ClearDNSSEC m) = T_Msg_MsgHdr m
  /\ T_Msg_Extra (go_ClearDNSSEC m) = T_Msg_Extra m.
Proof. exact gen_clear_dnssec. Qed.
Print Assumptions clear_dnssec_is_source.
