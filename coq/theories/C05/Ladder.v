(* C05 — the two cache ladders over an abstract store (DESIGN §5 C05 (iv)).  Definitions only.

   [msg_ladder]  : Cache.ServeDNS decoded body, from isValidQuery down to the miss
                   (exact hit via handleCacheHit -> subtree cut -> RFC 8198 denial ->
                   RFC 9520 failure -> resolution).
   [wire_ladder] : Cache.serveWire / serveHitFromWire / serveCompositeFromWire /
                   serveCutHitFromWire / serveFailureFromWire: answers from bytes or
                   declines to the decoded body of the same call.
   [serve_dns]   : Cache.ServeDNS as a whole for a wire-born request: the wire ladder, then,
                   when it declines, the decoded body with the limiter permit it already paid.

   What is abstract (section variables): the stored bodies and the two reply shapers
   (bytes: serveWireIntoRequest/cut.serveWireInto/serveFailureFromWire + edns.WriteWire;
   message: ToMsg/cut.response/FailureHit.Response + edns.WriteMsg), the RFC 8198 evaluator
   (any function of the denial snapshots on the name's ancestor path and the question), the
   writer-chain outcomes that can still turn a serve into a fall-back (lease, build, commit).
   Not modelled: alias composition (serveChaseHit, compared differentially only), ECS scoped
   lookups (the wire ladder declines every ECS request first), prefetch queueing beyond its
   decline, the follower/leader dedup of the miss path. *)
From Sdns Require Import Common.Base.
Open Scope N_scope.

Record question := mk_question { q_name : list N; q_type : N; q_class : N }.
Definition name_eqb := fix go (a b : list N) : bool :=
  match a, b with
  | [], [] => true
  | x :: xs, y :: ys => (x =? y) && go xs ys
  | _, _ => false
  end.
Definition question_eqb (a b : question) : bool :=
  name_eqb (q_name a) (q_name b) && (q_type a =? q_type b) && (q_class a =? q_class b).

(* request facts the ladders read (wire: parsed facts; message: the decoded request) *)
Record lreq := mk_lreq {
  r_q : question;          (* name already case-folded *)
  r_rd : bool; r_cd : bool; r_do : bool; r_ecs : bool;
  r_type_known : bool;     (* dns.TypeToString has the qtype *)
  r_class_known : bool;    (* dns.ClassToString has the qclass *)
  r_root : bool;           (* question name is "." *)
  r_rrsig : bool           (* qtype is RRSIG *)
}.

Section Ladder.
  Variable body reply : Type.
  Variable shape_msg : body -> lreq -> reply.       (* decoded path: stored message -> client reply *)
  Variable shape_wire : body -> lreq -> reply.      (* byte path: chosen stored body -> client reply *)
  Variable cut_msg : body -> lreq -> reply.         (* nxDomainCutEntry.response + WriteMsg *)
  Variable cut_wire : body -> lreq -> reply.        (* cut.serveWireInto + CommitWire *)
  Variable fail_msg fail_wire : lreq -> reply.      (* FailureHit.Response / serveFailureFromWire *)
  Variable servfail_norec : lreq -> reply.          (* CancelWithRcode(SERVFAIL) for RD=0 *)
  Variable denial_msg : body -> lreq -> reply.      (* handleDenialProofHit *)

  (* a cache entry as the ladders see it *)
  Record entry := mk_entry {
    e_q : question; e_cd : bool;         (* the stored preimage *)
    e_live : bool;                       (* remaining lifetime > 0 at this serve *)
    e_eligible : bool;                   (* wireServe & wireEligible *)
    e_chase_safe : bool;                 (* wireServe & wireChaseSafe *)
    e_has_dnssec : bool;                 (* wireServe & wireHasDNSSEC *)
    e_full : body;
    e_stripped : option body;            (* DO=0 body prepared at admission, if any *)
    e_prefetch_due : bool;               (* prefetch queue on, eligible and ShouldPrefetch *)
    e_limiter : option N                 (* shared per-entry limiter, by identity *)
  }.

  Record failure := mk_failure {
    f_kind_question : bool;              (* FailureKindQuestion (else zone kind) *)
    f_witness : list (N * N)             (* miss witness: (zone, snapshot) pairs seen when recorded *)
  }.

  Record store := mk_store {
    s_exact : question -> bool -> option entry;    (* checkCache(key(question, cd)) *)
    s_cut : question -> option body;               (* nxDomainCuts lookup (name, class); None when disabled *)
    s_cut_full_ok : bool;                          (* cut.response(...) not nil *)
    s_path : question -> list (N * N);             (* cached denial zones on the ancestor path now *)
    s_denial_on : bool;                            (* not sharedDenialImpossible *)
    s_failure : question -> bool -> option failure (* failure cache (question, cd) incl. covering zone *)
  }.

  (* writer-chain facts that are not the cache's decision *)
  Record chain := mk_chain {
    c_internal : bool;       (* writer.Internal() *)
    c_wire_ready : bool;     (* WireWriter + WireReady + WireBodyLeaser *)
    c_fits : bool;           (* wireChainMismatch = nil / size ceiling respected *)
    c_lease : bool;          (* BeginWire handed out a buffer *)
    c_build : bool;          (* serveWireInto* built the body *)
    c_commit : bool          (* CommitWire did not ask for the fall-back *)
  }.

  Definition tokens := N -> nat.
  Definition allow (tk : tokens) (id : N) : bool * tokens :=
    match tk id with
    | O => (false, tk)
    | S n => (true, fun j => if j =? id then n else tk j)
    end.

  Inductive outcome := OReply (r : reply) | ODrop | OMiss.

  Definition entry_matches (e : entry) (rq : lreq) : bool :=
    question_eqb (e_q e) (r_q rq) && Bool.eqb (e_cd e) (r_cd rq).

  (* wireBodyFor(do) *)
  Definition wire_body_for (e : entry) (rq : lreq) : option body :=
    if r_do rq || negb (e_has_dnssec e) || r_rrsig rq then Some (e_full e) else e_stripped e.

  (* ---------------------------------------------------------------- decoded body *)
  (* the RFC 8198 rung walks the cached denial zones on the ancestor path; each zone is
     evaluated on its own snapshot *)
  Variable zone_eval : N * N -> question -> option body.
  Fixpoint denial_eval (path : list (N * N)) (q : question) : option body :=
    match path with
    | [] => None
    | z :: r => match zone_eval z q with Some b => Some b | None => denial_eval r q end
    end.

  (* handleCacheHit without the alias chase (entries that need one are outside the model).
     None as the outcome: not a hit after all (preimage mismatch, or expired between check and
     use) - the ladder goes on, with whatever token was already spent *)
  Definition msg_hit (e : entry) (tk : tokens) (rq : lreq) (ch : chain) (spent : option N)
    : option outcome * tokens :=
    if negb (entry_matches e rq) then (None, tk) else
    let charge :=
      match e_limiter e with
      | Some id =>
          if c_internal ch then Some tk
          else if match spent with Some s => s =? id | None => false end then Some tk
          else let '(ok, tk') := allow tk id in if ok then Some tk' else None
      | None => Some tk
      end in
    match charge with
    | None => (Some ODrop, tk)
    | Some tk' => if e_live e then (Some (OReply (shape_msg (e_full e) rq)), tk') else (None, tk')
    end.

  (* the rungs below the exact hit *)
  Definition msg_rest (st : store) (tk : tokens) (rq : lreq) : outcome * tokens :=
    (* subtree cut: never for CD, never with shared denial off (s_cut = None) *)
    match (if r_cd rq then None else s_cut st (r_q rq)) with
    | Some b => if s_cut_full_ok st then (OReply (cut_msg b rq), tk) else
        (* cut.response returned nil: the ladder goes on *)
        match (if r_cd rq || r_ecs rq || negb (s_denial_on st) then None
               else denial_eval (s_path st (r_q rq)) (r_q rq)) with
        | Some d => (OReply (denial_msg d rq), tk)
        | None => match s_failure st (r_q rq) (r_cd rq) with
                  | Some _ => (OReply (fail_msg rq), tk)
                  | None => (OMiss, tk)
                  end
        end
    | None =>
        (* RFC 8198 denial: skipped for CD / ECS request trees and when disabled *)
        match (if r_cd rq || r_ecs rq || negb (s_denial_on st) then None
               else denial_eval (s_path st (r_q rq)) (r_q rq)) with
        | Some d => (OReply (denial_msg d rq), tk)
        | None => match s_failure st (r_q rq) (r_cd rq) with
                  | Some _ => (OReply (fail_msg rq), tk)
                  | None => (OMiss, tk)
                  end
        end
    end.

  Definition msg_ladder (st : store) (tk : tokens) (rq : lreq) (ch : chain) (spent : option N)
    : outcome * tokens :=
    if negb (r_class_known rq && r_type_known rq) then (ODrop, tk) else
    if negb (r_root rq) && negb (r_rd rq) then (OReply (servfail_norec rq), tk) else
    match s_exact st (r_q rq) (r_cd rq) with
    | Some e =>
        match msg_hit e tk rq ch spent with
        | (Some o, tk') => (o, tk')
        | (None, tk') => msg_rest st tk' rq
        end
    | None => msg_rest st tk rq
    end.

  (* ---------------------------------------------------------------- wire ladder *)
  Inductive wres := WServed (o : outcome) (tk : tokens) | WDeclined (tk : tokens) (spent : option N).

  (* serveHitFromWire for a chase-safe entry *)
  Definition wire_hit (e : entry) (tk : tokens) (rq : lreq) (ch : chain) : wres :=
    if c_internal ch then WDeclined tk None else
    if e_prefetch_due e then WDeclined tk None else
    if negb (e_eligible e) then WDeclined tk None else
    if negb (c_wire_ready ch) then WDeclined tk None else
    if negb (e_chase_safe e) then WDeclined tk None (* serveChaseHit: outside the model, taken as a decline *) else
    match wire_body_for e rq with
    | None => WDeclined tk None
    | Some b =>
        if negb (c_fits ch) then WDeclined tk None else
        let charged :=
          match e_limiter e with
          | Some id => let '(ok, tk') := allow tk id in if ok then Some (tk', Some id) else None
          | None => Some (tk, None)
          end in
        match charged with
        | None => WServed ODrop tk
        | Some (tk', spent) =>
            if negb (c_lease ch) then WDeclined tk' spent else
            if negb (e_live e && c_build ch) then WDeclined tk' spent else
            if negb (c_commit ch) then WDeclined tk' spent else
            WServed (OReply (shape_wire b rq)) tk'
        end
    end.

  Definition wire_composite (st : store) (tk : tokens) (rq : lreq) (ch : chain) : wres :=
    match (if r_cd rq then None else s_cut st (r_q rq)) with
    | Some b =>
        if c_internal ch || negb (c_wire_ready ch) || negb (c_lease ch) || negb (c_build ch)
           || negb (c_fits ch) || negb (c_commit ch) || negb (s_cut_full_ok st)
        then WDeclined tk None else WServed (OReply (cut_wire b rq)) tk
    | None =>
        match s_failure st (r_q rq) (r_cd rq) with
        | Some f =>
            if r_cd rq ||
               ((f_kind_question f || negb (s_denial_on st)) &&
                (negb (s_denial_on st) ||
                 forallb (fun z => existsb (fun w => (fst w =? fst z) && (snd w =? snd z)) (f_witness f))
                         (s_path st (r_q rq))))
            then
              if c_internal ch || negb (c_wire_ready ch) || negb (c_lease ch) || negb (c_build ch)
                 || negb (c_commit ch)
              then WDeclined tk None else WServed (OReply (fail_wire rq)) tk
            else WDeclined tk None
        | None => WDeclined tk None
        end
    end.

  Definition wire_ladder (st : store) (tk : tokens) (rq : lreq) (ch : chain) : wres :=
    if negb (r_rd rq) || r_ecs rq then WDeclined tk None else
    if negb (r_type_known rq) then WDeclined tk None else
    if negb (r_class_known rq) then WDeclined tk None else
    match s_exact st (r_q rq) (r_cd rq) with
    | Some e => if entry_matches e rq then wire_hit e tk rq ch else wire_composite st tk rq ch
    | None => wire_composite st tk rq ch
    end.

  (* Cache.ServeDNS for a wire-born request that is not a replay *)
  Definition serve_dns (st : store) (tk : tokens) (rq : lreq) (ch : chain) : outcome * tokens :=
    match wire_ladder st tk rq ch with
    | WServed o tk' => (o, tk')
    | WDeclined tk' spent => msg_ladder st tk' rq ch spent
    end.
  (* the same request on an engine's non-blocking reader: Server.ServeRawInline runs the chain with the
     inline-only mark - the wire ladder is the whole budget, a decline is a hand-off with nothing written
     and nothing remembered (the [spent] permit is a local of that call) - and Server.ServeRawReplay runs
     it again on a worker with the replay mark: Cache.ServeDNS skips the ladder and enters the decoded
     body.  [ch] / [ch'] are the writer-chain facts of the two passes. *)
  Definition serve_inline_replay (st : store) (tk : tokens) (rq : lreq) (ch ch' : chain) : outcome * tokens :=
    match wire_ladder st tk rq ch with
    | WServed o tk' => (o, tk')
    | WDeclined tk' _ => msg_ladder st tk' rq ch' None
    end.
End Ladder.
