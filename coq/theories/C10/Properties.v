(* C10 — replies reach only their own client and carry only their own bytes.
   Property theorems only: each is closed by [exact <lemma>]; the lemmas live in Proofs_*.v, the
   models in Model*.v; Gen/C10.v (state names, buffer sizes, what release() assigns, the
   writer's "unwritten" size) is regenerated from /repo on every run.

   PARTIAL: the theorems are about the modelled automata — every interleaving of the modelled
   atomic actions, every handler behaviour, every drain size and I/O outcome.  The Go scheduler
   and memory model, the kernel's sendmmsg/recvmmsg, Go memory aliasing and the DoH/DoQ library
   internals are outside (props/C10/NOTES.md). *)
From Coq Require Import String.
From Sdns Require Import Common.Base Gen.C10 C10.Model C10.ModelStream C10.ModelShare C10.ModelPool
  C10.Proofs_UdpBase C10.Proofs_UdpInv C10.Proofs_UdpThm C10.Proofs_Stream C10.Proofs_Read C10.Proofs_Share C10.Proofs_Top
  C10.Proofs_Pool C10.ModelChains C10.Proofs_Chains C10.Proofs_Read C10.Proofs_ConnFrames C10.ModelEdns C10.Proofs_Edns C10.Proofs_UdpStep C10.Proofs_Socks C10.Proofs_Msg C10.ModelFlight C10.Proofs_Flight C10.ModelQuery C10.Proofs_Query C10.ModelWriter C10.Proofs_Writer C10.ModelWrap C10.Proofs_Wrap C10.ModelPack C10.Proofs_Pack C10.Proofs_Frame.
Open Scope nat_scope.

(* ties: the constants the proofs compute with are the source's *)
Theorem source_constants :
  (st_free <> st_reading /\ st_free <> st_queued /\ st_free <> st_serving /\
   st_reading <> st_queued /\ st_reading <> st_serving /\ st_queued <> st_serving) /\
  (release_txlen = 0%N /\ release_rxlen = 0%N /\ release_written = false /\ release_replay = false /\
   reader_rawsalen = 0%N /\ udp_lease_start = 0%N) /\
  writer_reset_size = writer_unwritten_size /\ (2 <= udp_tx_max)%N.
Proof. exact (conj states_distinct (conj release_constants (conj reset_is_unwritten tx_max_ge_2))). Qed.
Print Assumptions source_constants.

(* single_owner: in every reachable state of every interleaving (any reader / worker / overflow /
   handler behaviour), no transition panics, no burst overflows, no nil burst is dereferenced;
   every slab is held by exactly one owner (cache | a reader's armed slot | ready queue | the
   goroutine serving it | a burst) and its state field is that owner's state *)
Theorem single_owner : forall c acts,
  match usteps c u_init acts with
  | Panic => False
  | Disabled => False
  | Ok s =>
      (forall sid j, get_slab s sid = Some j ->
         exists p, holds s sid p /\ s_state j = state_of p /\ forall q, holds s sid q -> q = p) /\
      NoDup (u_idle s) /\ NoDup (map snd (u_held s)) /\ NoDup (u_ready s) /\
      NoDup (map fst (u_serv s)) /\ NoDup (map snd (u_burst s))
  end.
Proof. exact single_owner_lemma. Qed.
Print Assumptions single_owner.

(* send_belongs_to_lease: every datagram that ever left (burst flush, sendmmsg or direct, or the
   overflow path's immediate send) consists only of bytes written during the lease of the slab
   it left from, is addressed to the client whose packet that lease received, and left before
   that lease was released; a lease receives at most one packet *)
Theorem send_belongs_to_lease : forall c acts s,
  usteps c u_init acts = Ok s ->
  (forall newer sid l a bs older, u_log s = newer ++ ESend sid l a bs :: older ->
     Forall (fun tb => snd tb = l) bs /\
     (exists rx, In (ERecv sid l a rx) older) /\
     ~ In (ERelease sid l) older) /\
  (forall sid l a1 rx1 a2 rx2, In (ERecv sid l a1 rx1) (u_log s) -> In (ERecv sid l a2 rx2) (u_log s) ->
     a1 = a2 /\ rx1 = rx2).
Proof. exact send_belongs_lemma. Qed.
Print Assumptions send_belongs_to_lease.

(* no_leftover_reply: release leaves nothing staged; a lease in which the handler wrote nothing
   sends nothing; nothing is sent for a lease after its release; no datagram carries a byte of
   another lease *)
Theorem no_leftover_reply : forall c acts s,
  usteps c u_init acts = Ok s ->
  (forall sid j, In sid (u_idle s) -> get_slab s sid = Some j -> s_txlen j = 0) /\
  (forall newer sid l a bs older, u_log s = newer ++ ESend sid l a bs :: older ->
     In (EWrite sid l) older /\ ~ In (ERelease sid l) older /\
     forall tb, In tb bs -> snd tb = l).
Proof. exact no_leftover_lemma. Qed.
Print Assumptions no_leftover_reply.

(* the sequential driver's operations (take / receive cycle / worker iteration / flush) are
   sequences of those atomic actions: they never panic and keep the invariant *)
Theorem driver_ops_covered : forall c ops,
  match run_ops c u_init ops with
  | Panic => False
  | Disabled => False
  | Ok s => good c s
  end.
Proof. exact driver_ops_lemma. Qed.
Print Assumptions driver_ops_covered.

(* stream_framing: for every drain size D, every sequence of stage / reject / flush, every
   per-Write budget script and every SetDeadline outcome *)
Theorem stream_framing : forall D script arms ops,
  let '(st, errs) := s_run D (s_init script arms) ops in
  is_prefix (wire st) (stream_of (t_acc st)) /\
  (t_werr st = false -> wire st ++ t_held st = stream_of (t_ok st)) /\
  t_ok st = ok_payloads ops errs /\
  subseq (t_acc st) (flat_map sop_payloads ops).
Proof. exact stream_framing_lemma. Qed.
Print Assumptions stream_framing.

(* ... and what a client parses out of ANY prefix of such a byte stream is a prefix of the
   payload list: whole frames, one per payload, in order *)
Theorem stream_parse_prefix : forall ps n,
  Forall fits16 ps -> exists k t, parse_stream (firstn n (stream_of ps)) = (firstn k ps, t).
Proof. exact stream_parse_lemma. Qed.
Print Assumptions stream_parse_prefix.

Theorem stream_parse_whole : forall ps, Forall fits16 ps -> parse_stream (stream_of ps) = (ps, []).
Proof. exact stream_parse_whole_lemma. Qed.
Print Assumptions stream_parse_whole.

(* read side: for every fill-buffer size that holds a length prefix and every chunking of the
   client's byte stream by conn.Read, the frames the loop extracts (next / body / fillMore, the
   direct read of a frame larger than the buffer) are exactly the frames a reference parser finds:
   whole, one per query, in order, stopping at the first frame it cannot complete *)
Theorem stream_read_framing : forall F input script,
  N.to_nat frame_prefix_len <= F ->
  f_frames (S (length input)) F (mkFstate 0 [] (mkRconn input script)) = ref_frames (S (length input)) input.
Proof. exact serve_conn_reads_frames. Qed.
Print Assumptions stream_read_framing.

(* the connection loop (prefix-first reads through a fill buffer of any size with any read
   chunking, flush before blocking, serial frames) only ever performs such stream operations,
   frame by frame in the order the frames were read *)
Theorem conn_is_stream_ops : forall D F scripts fuel f st,
  exists ops, snd (conn_loop fuel D F scripts f st []) = ops /\
              fst (conn_loop fuel D F scripts f st []) = fst (s_run D st ops).
Proof. exact conn_trace_lemma. Qed.
Print Assumptions conn_is_stream_ops.

(* writer rebinding: on a chain reused for any history of requests, a reply goes to the
   transport of the latest Reset and to no other, at most once per Reset, and the previous
   request's written flag never suppresses it *)
Theorem writer_rebinding : forall ops w, snd (w_run w ops) = w_spec (w_tr w) (negb (w_written w)) ops.
Proof. exact writer_lemma. Qed.
Print Assumptions writer_rebinding.

Theorem writer_first_reply_after_reset : forall w pre t bs rest,
  nth_error (snd (w_run w (pre ++ WReset t :: WWrite bs :: rest))) (S (length pre)) = Some (Some (t, bs)).
Proof. exact writer_first_write_after_reset. Qed.
Print Assumptions writer_first_reply_after_reset.

(* shared_lookup_isolated: under every schedule of the waiters' copy and set-ID steps, a waiter
   that has returned holds the result's content under ITS OWN id, and no two waiters hold the
   same message *)
Theorem shared_lookup_isolated : forall res ids shared sched,
  (2 <= length ids -> shared = true) ->
  let s := l_run 0 shared (l_init res ids) sched in
  map fst (l_waiters s) = ids /\
  (forall i id p, nth_error (l_waiters s) i = Some (id, G2 p) ->
     nth_error (l_heap s) p = Some (mkMsg id (m_body res))) /\
  (forall i j wi wj p, i <> j -> nth_error (l_waiters s) i = Some wi -> nth_error (l_waiters s) j = Some wj ->
     ptr_of wi = Some p -> ptr_of wj = Some p -> False).
Proof. exact shared_isolated. Qed.
Print Assumptions shared_lookup_isolated.

(* the stream side's limits are the source's: tcpJobBufSize (= dns.MaxMsgSize, evaluated from the
   library constant), minTCPFrame, and the slab class boundary of largeClass (translated) *)
Theorem source_constants_stream :
  tcp_job_buf_size = max_msg_size /\ min_tcp_frame_src = min_tcp_frame /\
  (forall n, go_largeClass n = (Z.of_N tcp_small_frame <? n)%Z).
Proof. exact stream_constants. Qed.
Print Assumptions source_constants_stream.

(* conn_replies_in_query_order: one connection end to end.  For every drain size, every fill size
   that holds a length prefix, every client byte stream and read chunking, every handler script,
   write budget and SetDeadline outcome: what the client receives is a prefix of the frame stream
   of payloads that are, in order, a subsequence of the replies to the first k well-formed query
   frames of ITS OWN byte stream (ref_frames = the reference parser) — whole frames, in query
   order, nothing else.  (Links conn_loop's served frames to the read side; closes the gap
   "served frames not formally linked to f_frames".) *)
Theorem conn_replies_in_query_order : forall D F scripts input reads script arms,
  N.to_nat frame_prefix_len <= F ->
  let fuel := S (length input) in
  let st := fst (conn_loop fuel D F scripts (mkFstate 0 [] (mkRconn input reads)) (s_init script arms) []) in
  exists k, is_prefix (wire st) (stream_of (t_acc st)) /\
            subseq (t_acc st) (flat_map (frame_replies scripts) (firstn k (ref_frames fuel input))).
Proof. exact conn_replies_lemma. Qed.
Print Assumptions conn_replies_in_query_order.

(* slab cache: slabCache.get(shard) tries c.shards[(shard+i)&(slabShardCount-1)] for
   i = 0 .. slabShardCount-1 — whatever the hint, the sweep visits EVERY shard and never leaves the
   array, so an idle slab anywhere is handed out before get gives up (why Model.ATake may treat the
   sixteen shards as one set and allocate only when none is idle).  slabShardCount is the source's. *)
Theorem slab_sweep_covers_every_shard : forall shard k, (k < slab_shard_count)%N ->
  exists i, (i < slab_shard_count)%N /\ N.land (shard + i) (slab_shard_count - 1) = k.
Proof. exact shard_sweep_covers. Qed.
Print Assumptions slab_sweep_covers_every_shard.

(* edns_writer_rebinding: the edns wrapper stored in a job slab serves every client ever served from
   that slab.  For EVERY history of requests through one slot (any clients, OPT shapes, paths):
   the wrapper the handlers see for a request is the one a brand-new wrapper would show for it,
   what the reply's OPT shows of the client (OPT at all, DO, the client half of COOKIE, NSID,
   keepalive) is a function of THAT request alone (own_facts), and the slot is left zero.  eslot
   carries every per-request field of edns.ResponseWriter (edns_writer_ties). *)
Theorem edns_writer_rebinding : forall l,
  (fst (e_run e_release eslot_zero l) =
   map (fun qp => (e_bind eslot_zero (fst qp), snd (e_reply (e_bind eslot_zero (fst qp)) (snd qp)))) l /\
   snd (e_run e_release eslot_zero l) = eslot_zero) /\
  (forall i q p s1 o, nth_error l i = Some (q, p) ->
     nth_error (fst (e_run e_release eslot_zero l)) i = Some (s1, Some o) ->
     s1 = e_bind eslot_zero q /\ o = own_facts q).
Proof. intros l. split; [exact (edns_rebinding_lemma l)|exact (edns_own_facts_lemma l)]. Qed.
Print Assumptions edns_writer_rebinding.

(* ... and the whole-wrapper wipe at exit is necessary: with an exit that only drops the references
   (the entry binds the cookie only when the request has one) client 2 is answered with client
   1's cookie bytes (computed witness) *)
Theorem edns_release_keeping_facts_would_leak :
  let c1 := [193; 12; 0; 75; 30; 165; 0; 91]%N in
  let q1 := mkEreq true false c1 false false false false false 1232 in
  let q2 := mkEreq true false [] false false false false false 1232 in
  map snd (fst (e_run e_release_keeps eslot_zero [(q1, PWire); (q2, PWire)]))
  = [Some (mkEobs true false c1 false false); Some (mkEobs true false c1 false false)]
  /\ own_facts q2 = mkEobs true false [] false false.
Proof. exact keeping_facts_leaks. Qed.
Print Assumptions edns_release_keeping_facts_would_leak.

(* the source: ResponseWriter's per-request fields are exactly eslot's (a new field breaks this);
   serveWire's entry assigns are e_bind's; its deferred exit wipes the whole wrapper; the sizes;
   and the translated methods responseWriter.Written / tcpStream.framePrefixBuffered
   read as the models use them *)
Theorem edns_writer_ties :
  edns_writer_fields = map sbytes eslot_fields /\
  edns_entry_assigns = map sbytes ["pooled"; "ResponseWriter"; "EDNS"; "size"; "do"; "noedns"; "nsid"; "keepalive";
                                   "respUDPSize"; "hasCookieRaw"; "noad"]%string /\
  edns_exit_block = [exit_block_text] /\
  (edns_min_msg_size = 512%N /\ edns_default_msg_size = 1232%N /\ edns_max_msg_size = 65535%N).
Proof. exact (conj edns_fields_tie (conj edns_entry_tie (conj edns_exit_tie edns_sizes))). Qed.
Print Assumptions edns_writer_ties.

(* SEVERAL SOCKETS on one engine (SO_REUSEPORT group / one socket per bound address, shared slab
   pool): a flush hands every staged job to exactly one sendGroup, in burst order, and every
   sendGroup is one socket's (flow = socket * 1024 + client; single_owner, send_belongs_to_lease
   and no_leftover_reply above are stated over flows, so they cover any number of sockets and
   readers); with one socket the flush is the single group of the earlier model *)
Theorem flush_runs_partition : forall s sids,
  concat (runs_by_sock s sids) = sids /\
  (forall g, In g (runs_by_sock s sids) -> forall x y, In x g -> In y g -> job_sock s x = job_sock s y).
Proof. exact flush_runs_lemma. Qed.
Print Assumptions flush_runs_partition.

Theorem single_socket_is_one_group : forall c s k sids,
  (forall x, In x sids -> job_sock s x = k) -> flush_events c s sids = group_events c s sids.
Proof. exact single_socket_one_group. Qed.
Print Assumptions single_socket_is_one_group.

(* POOLED TRANSPORTS (DoH exchanges, DoQ streams, decoded fallback): every request runs on a chain
   (and DoQ: a request message) drawn from a pool.  ModelChains with no slabs: for every
   interleaving of begin (enabled only when the pool hands that object out, or makes a new one) /
   write / end (put back): a reply reaches the exchange of the request that wrote it, no pooled
   object has two users, nothing in the pool is in use *)
Theorem pooled_transports_reply_goes_home : forall l,
  let s := ksteps (k_init 0) l in
  (forall r t b, In (r, t, b) (k_log s) -> t = tr_of r) /\
  NoDup (map snd (k_busy s)) /\
  (forall c, In c (k_pool s) -> ~ In c (map snd (k_busy s))).
Proof. intros l. destruct (chains_lemma 0 l) as (A & B & C). split; [exact A|]. split; [exact B|]. intros c Hc. apply (C c Hc). Qed.
Print Assumptions pooled_transports_reply_goes_home.

Theorem translated_methods :
  (forall w, go_responseWriter_Written w = negb (T_responseWriter_size w =? writer_unwritten_size)%Z) /\
  (forall s, go_tcpStream_framePrefixBuffered s = (Z.of_N frame_prefix_len <=? T_tcpStream_end s - T_tcpStream_start s)%Z) /\
  (forall b, go_udpTXBurst_full b = (T_udpTXBurst_n b =? Z.of_N udp_tx_max)%Z) /\
  (forall j cap, go_udpJob_LeaseWire j cap = []) /\
  doq_release_assigns = map sbytes ["Id"; "Response"; "Opcode"; "Authoritative"; "Truncated"; "RecursionDesired";
    "RecursionAvailable"; "Zero"; "AuthenticatedData"; "CheckingDisabled"; "Rcode"; "Question"; "Answer"; "Ns"; "Extra"]%string.
Proof.
  exact (conj gen_responseWriter_Written (conj gen_framePrefixBuffered (conj gen_udpTXBurst_full
         (conj (fun j cap => proj1 (gen_udpJob_LeaseWire j cap)) doq_release_tie)))).
Qed.
Print Assumptions translated_methods.

(* the base writer (middleware.responseWriter) across requests: Reset assigns EVERY field the struct
   has (both lists read from the source: a new field that Reset does not assign breaks this), and
   the state it leaves does not depend on the previous request in any field (wf_reset) — this
   extends writer_rebinding / writer_first_reply_after_reset from {transport, size} to msg, wire,
   rcode, proto, remoteip, internal, directPack *)
Theorem writer_reset_covers_every_field :
  (forallb (fun f => existsb (str_eqb f) base_writer_reset_assigns) base_writer_fields = true /\
   base_writer_fields = map sbytes ["msg"; "wire"; "size"; "rcode"; "proto"; "remoteip"; "internal"; "directPack"]%string /\
   existsb (str_eqb (sbytes "Transport")) base_writer_reset_assigns = true) /\
  (forall w w' t tcp ip, wf_reset w t tcp ip = wf_reset w' t tcp ip).
Proof. exact (conj base_writer_reset_covers writer_reset_forgets). Qed.
Print Assumptions writer_reset_covers_every_field.

(* pooled_stream_forgets: the framing stream is pooled across connections.  Whatever the previous
   connection left in it — replies still staged after a failed write, a sticky write error —
   tcpStream.reset makes the next connection start exactly as on a brand-new stream (what reset
   assigns to `held` is read from the source: Gen.C10.reset_held) ... *)
Theorem pooled_stream_forgets : forall st script arms, s_reset st script arms = s_init script arms.
Proof. exact reset_forgets. Qed.
Print Assumptions pooled_stream_forgets.

(* ... so, for every sequence of connections served one after the other on one pooled stream,
   with any I/O outcomes, what a connection's client receives is what it would have received
   from a fresh stream: it does not depend on any connection served before it *)
Theorem pooled_stream_isolated : forall D F l prev,
  conn_seq D F prev l =
  map (fun c => rev (k_out (t_conn (conn_serve D F (s_init [] [])
         (mkConnio false (ci_input c) (ci_reads c) (ci_scripts c) (ci_budgets c) (ci_arms c)))))) l.
Proof. exact conn_seq_independent. Qed.
Print Assumptions pooled_stream_isolated.

(* shared_lookup_private: the message groupLookup returns is edited in place upstack.  Under
   every interleaving of the waiters' copy / set-ID steps with the edits their callers make
   after the return: the flight's result is never modified while it is shared; a returned
   waiter's message is the result's content under its own id followed by what THAT waiter's
   caller appended (own_edits) — nothing another waiter did ever shows in it; no two waiters
   hold the same message *)
Theorem shared_lookup_private : forall res ids shared sched,
  (2 <= length ids -> shared = true) ->
  let s := l_run2 0 shared (l_init res ids) sched in
  (shared = true -> nth_error (l_heap s) 0 = Some res) /\
  (forall i id p, nth_error (l_waiters s) i = Some (id, G2 p) ->
     nth_error (l_heap s) p = Some (mkMsg id (m_body res ++ own_edits 0 shared (l_init res ids) sched i))) /\
  (forall i j wi wj p, i <> j -> nth_error (l_waiters s) i = Some wi -> nth_error (l_waiters s) j = Some wj ->
     ptr_of wi = Some p -> ptr_of wj = Some p -> False).
Proof. exact shared_private_lemma. Qed.
Print Assumptions shared_lookup_private.

(* the statement is not vacuous and the copy is necessary: in the variant where the leader keeps
   the flight's result and only followers copy, the leader's caller's edit (42) reaches the
   follower's message *)
Theorem leader_keeping_result_would_leak :
  let s := fold_left (l_act_leader_keeps 0) [LGo 0; LGo 0; LEdit 0 [42%N]; LGo 1; LGo 1] (l_init (mkMsg 99 [7%N]) [1%N; 2%N]) in
  nth_error (l_waiters s) 1 = Some (2%N, G2 1) /\ nth_error (l_heap s) 1 = Some (mkMsg 2 [7%N; 42%N]).
Proof. exact leader_keeps_leaks. Qed.
Print Assumptions leader_keeping_result_would_leak.

(* chains_reply_goes_home: requests overlap on job-owned chains (wire-born: BindChain / ResetWire /
   Finish, the chain never leaves its slab) and pooled chains (NewChain / Reset / PutChain).  For
   every number of slabs and every interleaving of begin / write / end steps — a wire-born
   request may begin whenever its SLAB is free, a pooled one whenever the pool hands a chain
   out; nothing else is assumed: a reply written by request r reaches the transport of r; no
   chain is used by two requests at once; no job-owned chain is ever in the pool *)
Theorem chains_reply_goes_home : forall n l,
  let s := ksteps (k_init n) l in
  (forall r t b, In (r, t, b) (k_log s) -> t = tr_of r) /\
  NoDup (map snd (k_busy s)) /\
  (forall c, In c (k_pool s) -> n <= c /\ ~ In c (map snd (k_busy s))).
Proof. exact chains_lemma. Qed.
Print Assumptions chains_reply_goes_home.

(* ... and the discipline is necessary: were a wire-born serve closed with PutChain, a pooled
   request's reply would go to the slab's next client (computed witness) *)
Theorem putting_owned_chain_would_leak :
  k_log (ksteps_put_owned (k_init 1)
           [KBeginWire 1 0; KEndWire 1; KBeginPool 2 0; KBeginWire 3 0; KWrite 2 [7%N]]) = [(2, 3%N, [7%N])].
Proof. exact put_owned_leaks. Qed.
Print Assumptions putting_owned_chain_would_leak.

(* the source closes every strict-path serve (ServeRawInline, ServeRawReplay, serveWire) with a
   deferred Finish() — the model's KEndWire *)
Theorem wire_serves_finish :
  wire_close_inline = [finish_name] /\ wire_close_replay = [finish_name] /\ wire_close_servewire = [finish_name].
Proof. exact wire_serves_close_with_finish. Qed.
Print Assumptions wire_serves_finish.

(* the Msg path of the owned UDP transport (udpJob.WriteMsg = PackBuffer(j.tx[:]) + Write(out), one
   of the actions [single_owner] / [send_belongs_to_lease] / [no_leftover_reply] quantify over):
   for EVERY slab state — whatever its TX buffer still holds of earlier clients — every message
   whose wire form [bs] fits the slab and every uncompressed length [ulen] (which alone decides
   whether the library packs in the slab or in an array of its own): on a burst the job stages
   exactly the message (its length, its bytes, this lease's), without a burst exactly the message
   leaves at once for the job's own client *)
Theorem msg_reply_is_the_packed_message : forall j ulen bs,
  (N.of_nat (length bs) <= udp_buf_size)%N ->
  let r := job_write_msg j ulen bs in
  match s_burst j with
  | Some _ => snd r = WStaged /\ s_txlen (fst r) = length bs /\ staged (fst r) = tag (s_lease j) bs
  | None => snd r = WSent (s_raddr j) (tag (s_lease j) bs) /\ s_txlen (fst r) = s_txlen j
  end.
Proof. exact msg_reply_lemma. Qed.
Print Assumptions msg_reply_is_the_packed_message.

(* ... and looking at WHERE the message was packed is necessary: staging by length whenever the
   message fits (variant) sends the new client the head of the slab's previous reply when the
   library packed elsewhere (ulen 5000 > slab), while the code stages the message; for a message
   packed in place (ulen 40) the variant and the code agree — computed witness *)
Theorem staging_msg_by_length_would_leak :
  staged (fst (job_write_msg_bylen stale_slab 5000 [0; 8; 1]%N)) = tag 1 [0; 7; 9]%N /\
  staged (fst (job_write_msg stale_slab 5000 [0; 8; 1]%N)) = tag 2 [0; 8; 1]%N /\
  staged (fst (job_write_msg_bylen stale_slab 40 [0; 8; 1]%N)) = tag 2 [0; 8; 1]%N.
Proof. exact bylen_leaks. Qed.
Print Assumptions staging_msg_by_length_would_leak.

(* collapsed upstream lookups — where `shared` comes from (ModelFlight: x/sync singleflight's
   DoChan / doCall / Forget under SingleflightWrapper's generations, TimedDoChanWithRole's select).
   For EVERY interleaving of callers joining (any keys), closures returning, Forget / stuck-call
   cleanup, results received and callers giving up on their context:
     two callers that hold the SAME result object were both told `shared` (so groupLookup copies
     for both) and at most one of them is its leader;
     a caller told "not shared" — the only case in which groupLookup uses the object itself — is
     the only caller that ever joined that call: nobody else holds it, waits for it or walked away;
     what a caller holds is the result of the call it joined, delivered after the closure returned.
   This discharges what shared_lookup_isolated / shared_lookup_private take as a premise. *)
Theorem collapsed_lookup_shared_flag_sound : forall ops,
  let s := fsteps f_init ops in
  (forall k1 k2 c s1 l1 s2 l2, k1 <> k2 ->
     In (k1, FGot c s1 l1) (f_callers s) -> In (k2, FGot c s2 l2) (f_callers s) ->
     s1 = true /\ s2 = true /\ ~ (l1 = true /\ l2 = true)) /\
  (forall k c l, In (k, FGot c false l) (f_callers s) ->
     forall k2 o, In (k2, o) (f_callers s) -> call_of o = c -> k2 = k) /\
  (forall k c sh l, In (k, FGot c sh l) (f_callers s) ->
     exists cl, nth_error (f_calls s) c = Some cl /\ fc_done cl = true /\ In k (fc_waiters cl)).
Proof. exact flight_lemma. Qed.
Print Assumptions collapsed_lookup_shared_flag_sound.

(* ... and telling the leader too is necessary: in the variant that reports Shared to the joiners
   only, leader 1 and follower 2 hold one object and 1 believes it its own (computed witness;
   second half: what the code reports for the same history) *)
Theorem never_telling_the_leader_would_leak :
  f_callers (fsteps_leader_unshared f_init [FJoin 1 7%N; FJoin 2 7%N; FFinish 0; FRecv 1; FRecv 2])
  = [(1, FGot 0 false true); (2, FGot 0 true false)] /\
  f_callers (fsteps f_init [FJoin 1 7%N; FJoin 2 7%N; FFinish 0; FRecv 1; FRecv 2])
  = [(1, FGot 0 true true); (2, FGot 0 true false)].
Proof. exact leader_unshared_witness. Qed.
Print Assumptions never_telling_the_leader_would_leak.

(* ------------------------------------------------------------------ internal sub-queries
   (middleware/queryer.go: pipelineQueryer.Query on a pooled BufferWriter and a pooled chain;
   cache prefetch, CNAME chase, dns64, DS walks of many client requests run them at once).
   For EVERY interleaving of the atomic steps of any number of concurrent Query calls — begin
   (whatever objects bufferWriterPool / chainPool hand out), handler writes (none, one, several),
   result evaluation, handler panic, deferred PutChain, deferred putBufferWriter:
     what a Query call returns is exactly the first message its OWN handlers wrote — a step
     [QWrite q m] of that very query — and "no response" exactly when they wrote none: never a
     message of another query in flight, never one the pooled writer's previous user left behind;
     no BufferWriter and no chain is used by two queries at once; a writer in the pool holds no
     message and has no user. *)
Theorem subquery_result_is_own : forall l,
  let s := qsteps q_init l in
  (forall q r f, In (q, r, f) (q_res s) -> r = f) /\
  (forall q r m, In (q, r, Some m) (q_res s) -> In (QWrite q m) l) /\
  (forall x y, In x (q_live s) -> In y (q_live s) -> ql_w x = ql_w y -> x = y) /\
  (forall x y, In x (q_live s) -> In y (q_live s) -> ql_ph x <> QChainPut -> ql_ph y <> QChainPut ->
               ql_c x = ql_c y -> x = y) /\
  (forall w, In w (q_wpool s) -> nth_error (q_writers s) w = Some None /\
                                 forall x, In x (q_live s) -> ql_w x <> w).
Proof. exact query_lemma. Qed.
Print Assumptions subquery_result_is_own.

(* ... and clearing the captured reply before the writer goes back to the pool is necessary: in
   the variant that keeps it, query 2 — whose handlers write nothing — is handed query 1's reply
   (computed witness; second half: the code returns "no response" on the same schedule) *)
Theorem put_without_clear_would_leak :
  q_res (qsteps_keep q_init query_leak_schedule) = [(2, Some 7%N, None); (1, Some 7%N, Some 7%N)] /\
  q_res (qsteps q_init query_leak_schedule) = [(2, None, None); (1, Some 7%N, Some 7%N)].
Proof. exact put_without_clear_leaks. Qed.
Print Assumptions put_without_clear_would_leak.

(* ties: what putBufferWriter clears and the order of Query's defers are the source's (text);
   BufferWriter.WriteMsg / Msg are TRANSLATED: WriteMsg stores the message it is given whatever
   the writer held, Msg hands back what is stored *)
Theorem subquery_ties :
  (query_put_assigns = [str_msg] /\ query_defers = [str_putBufferWriter; str_PutChain] /\
   put_writer_msg (Some 5%N) = None) /\
  (forall w m, go_BufferWriter_WriteMsg w m = (false, mk_T_BufferWriter m)) /\
  (forall w m, go_BufferWriter_Msg (snd (go_BufferWriter_WriteMsg w m)) = m).
Proof. exact (conj query_source_ties (conj gen_BufferWriter_WriteMsg gen_BufferWriter_Msg)). Qed.
Print Assumptions subquery_ties.

(* ------------------------------------------------------------------ the base writer, every path
   (responseWriter.Write / WriteMsg — direct pack through wire.TryPack or the library path —
   / WriteWire; the last hop of EVERY reply, wire-born or pooled).  Whatever the chain served
   before (any previous writer state w0), after a rebinding to transport t (Reset / ResetWire,
   AllowDirectPack or not, internal consumer or not), for EVERY sequence of write requests of any
   kind — bytes that decode or not, messages the pooled packer takes or declines, leased bodies:
     the transport calls are exactly: the first request that is not an undecodable Write, once
     (wf_spec); so at most ONE call is made for the request; it goes to t; it carries the payload
     of the very write it answers (its bytes, the bytes the packer produced for ITS message, or
     its message object); and a writer that is internal or not a declared byte sink is handed
     the message OBJECT of a WriteMsg, never bytes (what Queryer.Query returns to its caller). *)
Theorem base_writer_every_path_once : forall w0 t tcp ip internal direct l,
  let es := snd (wf_run (wf_bind w0 t tcp ip internal direct) l) in
  es = wf_spec t (direct && negb internal) true l /\
  (length (filter is_some es) <= 1)%nat /\
  (forall i c t', nth_error es i = Some (Some (t', c)) ->
     t' = t /\ exists r, nth_error l i = Some r /\ own_call r c /\
     (direct && negb internal = false -> match r with RMsg m _ _ => c = TMsg m | _ => True end)).
Proof. exact base_writer_lemma. Qed.
Print Assumptions base_writer_every_path_once.

(* ... and returning right after a handled direct pack is necessary: the variant that goes on to
   the library path hands the transport the reply twice (computed witness; second half: the code) *)
Theorem falling_through_after_direct_pack_would_write_twice :
  let w := wf_bind (mkWfull 9 true true 300 3 false 9 true true) 4 false 7 false true in
  snd (wf_write_fallthrough w (RMsg 5 0 (Some [1; 2; 3]%N))) = [(4%N, TBytes [1; 2; 3]%N); (4%N, TMsg 5)] /\
  snd (fst (wf_write w (RMsg 5 0 (Some [1; 2; 3]%N)))) = Some (4%N, TBytes [1; 2; 3]%N).
Proof. exact fallthrough_writes_twice. Qed.
Print Assumptions falling_through_after_direct_pack_would_write_twice.

(* ------------------------------------------------------------------ pooled writer wrappers
   (edns.responseWriterPool in EDNS.ServeDNS / serveWire, Cache.writerPool in Cache.ServeDNS and
   every middleware of that shape: take a wrapper from the pool, bind it to the request and put
   it in front of ch.Writer; on the way out — deferred, so also on a panic — restore ch.Writer,
   zero the wrapper, put it back).  For EVERY interleaving of overlapping requests that wrap (any
   wrapper the pools hand out, any nesting depth), write (any number of times) and unwind:
     a reply passes only wrappers that hold ITS OWN request's facts (OPT size / DO / cookie /
     NSID, cache scope, ...) and arrives at its own base writer, i.e. its own transport;
     no wrapper is on the chains of two requests; a wrapper in a pool is the zero value and on
     nobody's chain. *)
Theorem pooled_wrappers_reply_goes_home : forall l,
  let s := xsteps x_init l in
  (forall r res, In (r, res) (x_log s) -> exists n, res = Some (r, repeat (Some r) n)) /\
  (forall x y k, In x (x_live s) -> In y (x_live s) -> In k (map fst (x_stack x)) -> In k (map fst (x_stack y)) -> x = y) /\
  (forall k, In k (x_pool s) ->
     (exists lvl, nth_error (x_wrappers s) k = Some (mkWrapper lvl None None)) /\
     forall x, In x (x_live s) -> ~ In k (map fst (x_stack x))).
Proof. exact wrap_lemma. Qed.
Print Assumptions pooled_wrappers_reply_goes_home.

(* ... and putting a wrapper back exactly once is necessary: in the variant whose exit path puts it
   twice, requests 2 and 3 — in flight together — are both handed wrapper 0 and request 2's reply,
   shaped with 3's facts, lands on request 3's transport (computed witness; second half: the code
   cannot take that step and 2's reply goes home) *)
Theorem putting_a_wrapper_twice_would_cross :
  x_log (xsteps_twice x_init wrap_leak_schedule) = [(2, Some (3, [Some 3]))] /\
  x_log (xsteps x_init wrap_leak_schedule) = [(2, Some (2, [Some 2]))].
Proof. exact double_put_crosses. Qed.
Print Assumptions putting_a_wrapper_twice_would_cross.

(* ------------------------------------------------------------------ the borrowed pack state
   (responseWriter.WriteMsg's direct path: wire.TryPack packs into a packState from packStatePool and
   the consumer hands the transport a slice of its buffer; an owned stream transport flushes a full
   drain buffer to a slow client before it copies the new payload, a datagram send reads the slice
   inside its syscall — and other requests pack their replies meanwhile).  For EVERY interleaving of
   pack / transport-write-begins / transport-takes-the-bytes / TryPack-returns of any number of
   concurrent writes, whatever states the pool hands out and however long a write parks:
     the bytes a transport takes are the packed form of ITS OWN request's message; no pack state is
     borrowed by two writes at once. *)
Theorem parked_write_takes_own_bytes : forall l,
  let s := psteps p_init l in
  (forall r got own, In (r, got, own) (p_log s) -> got = own) /\
  (forall x y, In x (p_live s) -> In y (p_live s) -> pw_k x = pw_k y -> x = y).
Proof. exact pack_lemma. Qed.
Print Assumptions parked_write_takes_own_bytes.

(* ... and holding the state until the transport write has returned is necessary: in the variant that
   gives it back first (the write happens after TryPack returned) request 2 is packed over request
   1's reply while 1's write is parked and 1's transport takes 2's bytes (computed witness; second
   half: the code cannot hand state 0 out and 1's transport takes its own bytes) (= seeded change 14) *)
Theorem releasing_the_pack_state_before_the_write_would_leak :
  p_log (psteps_early p_init pack_leak_schedule) = [(1, [2; 2]%N, [1; 1; 1]%N)] /\
  p_log (psteps p_init pack_leak_schedule) = [(1, [1; 1; 1]%N, [1; 1; 1]%N)].
Proof. exact early_release_leaks. Qed.
Print Assumptions releasing_the_pack_state_before_the_write_would_leak.

(* tie: the frame the stream theorems are stated with is the code's.  doq.addPrefixLen (the framing of
   every DNS-over-QUIC reply: `buf := make([]byte, 2+len(msg)); PutUint16(buf, len(msg)); copy(buf[2:], msg)`)
   is TRANSLATED from the source (srcgen purefunc: Go slices as immutable lists, make / copy /
   binary.BigEndian.PutUint16 of Common/GoList.v); for every message of at most 65535 octets —
   what a 16-bit prefix can announce — it is ModelStream.frame *)
Theorem doq_frame_is_model_frame : forall msg,
  (N.of_nat (length msg) <= max_msg_size)%N -> go_addPrefixLen msg = frame msg.
Proof. exact gen_addPrefixLen. Qed.
Print Assumptions doq_frame_is_model_frame.

(* ------------------------------------------------------------------ non-vacuity *)
(* a flight that is forgotten while running, its replacement with a follower who gives up, and a
   lone late caller: 1 alone on call 0 (not shared), 2 leads call 1 and is told shared because 3
   joined — although 3 walks away —, 4 alone on call 2 *)
Example flight_example :
  f_callers (fsteps f_init [FJoin 1 7%N; FForget 7%N; FJoin 2 7%N; FJoin 3 7%N; FCancel 3; FFinish 1; FRecv 2;
                            FFinish 0; FRecv 1; FJoin 4 7%N; FFinish 2; FRecv 4])
  = [(1, FGot 0 false true); (2, FGot 1 true true); (3, FCancelled 1); (4, FGot 2 false true)].
Proof. vm_compute. reflexivity. Qed.

(* one slab, two leases; the second client is answered through WriteMsg with a message the
   library packs in an array of its own (uncompressed 5000 > slab): it receives that message,
   not the head of the first client's reply still lying in the slab *)
Example udp_msg_example :
  let c := mkCfg 4 2 1 true in
  let q i := [0; i; 1; 0; 0; 1; 0; 0; 0; 0; 0; 0]%N in
  exists s, usteps c u_init
              [ATake 0 0; ARecvEnq 0 0 RBatch 11 (q 7%N) no_script; ABeginServe 0; AHWrite 0 [0; 7; 9; 9; 9]%N; AEndServe 0;
               AIdleFlush 0; ATake 0 0; ARecvEnq 0 0 RBatch 22 (q 8%N) no_script; ABeginServe 0;
               AHWriteMsg 0 5000 [0; 8; 1]%N; AEndServe 0; AIdleFlush 0] = Ok s /\
            sent_to 11 (u_log s) = [[0; 7; 9; 9; 9]%N] /\ sent_to 22 (u_log s) = [[0; 8; 1]%N] /\
            u_idle s = [0].
Proof. eexists. vm_compute. repeat split. Qed.

(* a reachable history with two leases of one slab: the second lease's client never sees the
   first reply; the datagram in the log is the first client's *)
Example udp_example :
  let c := mkCfg 4 2 1 true in
  let q := [0; 7; 1; 0; 0; 1; 0; 0; 0; 0; 0; 0]%N in
  exists s, usteps c u_init
              [ATake 0 0; ARecvEnq 0 0 RBatch 11 q no_script; ABeginServe 0; AHWrite 0 [0; 7; 9]%N; AEndServe 0;
               AIdleFlush 0; ATake 0 0; ARecvEnq 0 0 RBatch 22 [1]%N no_script; ABeginServe 0; AEndServe 0; AIdleFlush 0] = Ok s /\
            sent_to 11 (u_log s) = [[0; 7; 9]%N] /\ sent_to 22 (u_log s) = [] /\
            u_idle s = [0].
Proof. eexists. vm_compute. repeat split. Qed.

Example stream_example :
  let '(st, errs) := s_run 16 (s_init [None; Some 3] []) [SStage [1; 2; 3]%N; SStage [4; 5; 6; 7; 8; 9; 10; 11; 12; 13; 14]%N; SFlush] in
  wire st = [0; 3; 1; 2; 3; 0; 11; 4]%N /\ t_werr st = true /\ map serr_code errs = [0; 0; 4]%N.
Proof. vm_compute. repeat split. Qed.

Example shared_example :
  let s := l_run 0 true (l_init (mkMsg 99 [7]%N) [1; 2]%N) [0; 1; 1; 0] in
  l_waiters s = [(1%N, G2 1); (2%N, G2 2)] /\ nth_error (l_heap s) 0 = Some (mkMsg 99 [7]%N).
Proof. vm_compute. repeat split. Qed.

(* two connections on one pooled stream: the first one's write fails with a reply still staged,
   the second one's client receives its own reply only *)
Example pooled_example :
  let q1 := [0; 1; 1; 0; 0; 1; 0; 0; 0; 0; 0; 0]%N in
  let q2 := [0; 2; 1; 0; 0; 1; 0; 0; 0; 0; 0; 0]%N in
  let sc id := (id, mkScript [] false [HWrite [0; id; 9]%N] true) in
  conn_seq 64 64 (s_init [] [])
    [mkConnio false (frame q1) [] [sc 1%N] [Some 2] []; mkConnio true (frame q2) [] [sc 2%N] [] []]
  = [[[0; 3]%N]; [[0; 3; 0; 2; 9]%N]].
Proof. vm_compute. reflexivity. Qed.

Example shared_edit_example :
  let s := l_run2 0 true (l_init (mkMsg 99 [7]%N) [1; 2]%N) [LGo 0; LGo 0; LEdit 0 [42]%N; LGo 1; LGo 1; LEdit 1 [43]%N] in
  nth_error (l_heap s) 1 = Some (mkMsg 1 [7; 42]%N) /\ nth_error (l_heap s) 2 = Some (mkMsg 2 [7; 43]%N).
Proof. vm_compute. repeat split. Qed.

(* a pooled request overlapping two wire-born ones on one slab: every reply reaches its own client *)
Example chains_example :
  k_log (ksteps (k_init 1)
           [KBeginWire 1 0; KBeginPool 2 1; KEndWire 1; KBeginWire 3 0; KWrite 2 [7%N]; KWrite 3 [8%N]; KEndPool 2; KEndWire 3;
            KBeginPool 4 1; KWrite 4 [9%N]])
  = [(4, 4%N, [9%N]); (3, 3%N, [8%N]); (2, 2%N, [7%N])].
Proof. vm_compute. reflexivity. Qed.

(* DoH and DoQ requests overlapping on pooled chains: 1 and 2 in flight, 1 ends, 3 takes 1's chain
   while 2 is still parked; every reply reaches its own exchange *)
Example pooled_transports_example :
  k_log (ksteps (k_init 0)
           [KBeginPool 1 0; KBeginPool 2 1; KWrite 1 [1%N]; KEndPool 1; KBeginPool 3 0; KWrite 3 [3%N]; KWrite 2 [2%N];
            KEndPool 2; KEndPool 3])
  = [(2, 2%N, [2%N]); (3, 3%N, [3%N]); (1, 1%N, [1%N])].
Proof. vm_compute. reflexivity. Qed.

(* three overlapping sub-queries: 2 ends first and 3 takes over 2's chain while 2 still holds its
   writer; 1's second write is refused; 4 reuses writer 1 and chain 0, writes nothing and comes
   back empty-handed; every step is enabled *)
Example subquery_example :
  let s := qsteps q_init query_example_schedule in
  qsteps_strict q_init query_example_schedule = Some s /\
  q_res s = [(4, None, None); (3, Some 33%N, Some 33%N); (1, Some 11%N, Some 11%N); (2, Some 22%N, Some 22%N)] /\
  q_live s = [] /\ q_writers s = [None; None; None].
Proof. exact query_example. Qed.

(* an undecodable Write leaves the writer unwritten; the message the packer declines goes out as an
   object; the two requests after it are refused *)
Example base_writer_paths_example :
  let w := wf_bind (mkWfull 9 true true 300 3 false 9 true true) 4 false 7 false true in
  snd (wf_run w [RBytes [9; 9]%N false 0; RMsg 5 3 None; RMsg 6 0 (Some [1%N]); RWire [2%N] 0])
  = [None; Some (4%N, TMsg 5); None; None].
Proof. exact base_writer_example. Qed.

(* two wrapper levels (edns, cache): request 2 overlaps 1 and ends first, 3 takes over 2's wrappers
   while 1 is still parked; everybody is answered through two wrappers holding their own facts *)
Example pooled_wrappers_example :
  let s := xsteps x_init wrap_example_schedule in
  xsteps_strict x_init wrap_example_schedule = Some s /\
  x_log s = [(3, Some (3, [Some 3; Some 3])); (1, Some (1, [Some 1; Some 1])); (2, Some (2, [Some 2; Some 2]))] /\
  x_live s = [] /\ length (x_pool s) = 4.
Proof. exact wrap_example. Qed.


(* request 1's transport write parks, request 2 is packed (another state) and sent meanwhile, request 3
   later reuses state 0: every transport takes its own bytes *)
Example parked_write_example :
  let s := psteps p_init pack_example_schedule in
  psteps_strict p_init pack_example_schedule = Some s /\
  p_log s = [(3, [3]%N, [3]%N); (1, [1; 1; 1]%N, [1; 1; 1]%N); (2, [2; 2]%N, [2; 2]%N)] /\ p_live s = [].
Proof. exact pack_example. Qed.


(* a 300-octet DoQ reply: prefix 1, 44, then the message *)
Example doq_frame_example :
  firstn 3 (go_addPrefixLen (repeat 7%N 300)) = [1; 44; 7]%N /\ length (go_addPrefixLen (repeat 7%N 300)) = 302.
Proof. exact addPrefixLen_example. Qed.
