(* C10 — collapsed upstream lookups: WHO receives WHICH result object, and with what `shared` flag.

   Resolver.groupLookup hands every caller `result, shared, leader` of
   SingleflightWrapper.TimedDoChanWithRole and copies the result only `if shared` — an unshared
   result is used (its ID rewritten, later edited in place upstack) as it is.  ModelShare /
   ModelPool take `shared` as given; this file models where it comes from:

     golang.org/x/sync/singleflight  Group.DoChan / doCall / Forget   (g.m, call.dups, call.chans,
                                      Result{val, err, dups > 0} sent to every chan)
     resolver.SingleflightWrapper    DoChan (generation token registered together with the call),
                                      retireGeneration (the leader closure's deferred exit, and the
                                      stuck-call cleanup), Forget, TimedDoChanWithRole's select
                                      (result | ctx.Done).

   The wrapper's `current` map and the group's `m` move together under generationMu (registration,
   Forget and retire all hold it; doCall's own `if g.m[key] == c { delete }` runs after the
   closure's deferred retire, which has already forgotten the key if it was still this call's), so
   ONE map key -> call stands for both, and "current[key] == generation" is "the map still points
   at this call".

   A call is identified by its number in creation order (the result OBJECT the leader closure
   returns); a caller by a number.  Atomic steps, any interleaving:
     FJoin k key   caller k's DoChan: joins the call the map holds for key (dups++, chans ++ [k])
                   or creates one (the closure starts; k is its leader)
     FFinish c     call c's closure returns: retire (map entry removed if still c's) and the
                   Result — value c, Shared = dups > 0 — is put in every chan (buffered: never blocks)
     FForget key   Forget / cleanup of a stuck generation: the map lets go of the key while the
                   call keeps running; later callers of the key start a NEW call
     FRecv k       caller k's select takes the result from its chan
     FCancel k     caller k's select takes ctx.Done() instead (possible whenever it has not
                   received yet, even with the result already in the chan): it gets NOTHING
   Not modelled: a panicking / Goexit-ing closure (groupLookup's closure returns normally). *)
From Sdns Require Export Common.Base.
Open Scope nat_scope.

Record fcall := mkFcall { fc_key : N; fc_waiters : list nat; fc_dups : nat; fc_done : bool }.
Inductive fout :=
| FWait (c : nat)                          (* blocked in TimedDoChanWithRole's select on call c's chan *)
| FGot (c : nat) (shared leader : bool)    (* returned (value of call c, shared, leader, nil) *)
| FCancelled (c : nat).                    (* returned (nil, false, _, ctx.Err()) *)
Record fstate := mkF { f_calls : list fcall; f_map : list (N * nat); f_callers : list (nat * fout) }.
Definition f_init : fstate := mkF [] [] [].

Inductive fop := FJoin (k : nat) (key : N) | FFinish (c : nat) | FForget (key : N) | FRecv (k : nat) | FCancel (k : nat).

Fixpoint map_find (key : N) (m : list (N * nat)) : option nat :=
  match m with
  | [] => None
  | (k, c) :: r => if (k =? key)%N then Some c else map_find key r
  end.
Definition map_del_key (key : N) (m : list (N * nat)) : list (N * nat) := filter (fun p => negb (fst p =? key)%N) m.
Definition map_del_call (c : nat) (m : list (N * nat)) : list (N * nat) := filter (fun p => negb (Nat.eqb (snd p) c)) m.
Fixpoint caller_find (k : nat) (l : list (nat * fout)) : option fout :=
  match l with
  | [] => None
  | (k', o) :: r => if Nat.eqb k' k then Some o else caller_find k r
  end.
Fixpoint caller_set (k : nat) (o : fout) (l : list (nat * fout)) : list (nat * fout) :=
  match l with
  | [] => []
  | (k', o') :: r => if Nat.eqb k' k then (k, o) :: r else (k', o') :: caller_set k o r
  end.
Fixpoint upd_call (l : list fcall) (i : nat) (x : fcall) : list fcall :=
  match l, i with
  | [], _ => []
  | _ :: t, O => x :: t
  | h :: t, S j => h :: upd_call t j x
  end.
(* leader = this caller's own closure ran = it is the one that created the call (chans[0]) *)
Definition head_is (k : nat) (l : list nat) : bool := match l with h :: _ => Nat.eqb h k | [] => false end.
Definition call_of (o : fout) : nat := match o with FWait c => c | FGot c _ _ => c | FCancelled c => c end.

(* None = the step is not enabled in this state *)
Definition fstep (s : fstate) (o : fop) : option fstate :=
  match o with
  | FJoin k key =>
      match caller_find k (f_callers s) with
      | Some _ => None
      | None =>
          match map_find key (f_map s) with
          | Some c =>
              match nth_error (f_calls s) c with
              | Some cl =>
                  Some (mkF (upd_call (f_calls s) c (mkFcall (fc_key cl) (fc_waiters cl ++ [k]) (S (fc_dups cl)) (fc_done cl)))
                            (f_map s) (f_callers s ++ [(k, FWait c)]))
              | None => None
              end
          | None =>
              let c := length (f_calls s) in
              Some (mkF (f_calls s ++ [mkFcall key [k] 0 false]) ((key, c) :: f_map s) (f_callers s ++ [(k, FWait c)]))
          end
      end
  | FFinish c =>
      match nth_error (f_calls s) c with
      | Some cl =>
          if fc_done cl then None
          else Some (mkF (upd_call (f_calls s) c (mkFcall (fc_key cl) (fc_waiters cl) (fc_dups cl) true))
                         (map_del_call c (f_map s)) (f_callers s))
      | None => None
      end
  | FForget key => Some (mkF (f_calls s) (map_del_key key (f_map s)) (f_callers s))
  | FRecv k =>
      match caller_find k (f_callers s) with
      | Some (FWait c) =>
          match nth_error (f_calls s) c with
          | Some cl =>
              if fc_done cl
              then Some (mkF (f_calls s) (f_map s)
                             (caller_set k (FGot c (0 <? fc_dups cl) (head_is k (fc_waiters cl))) (f_callers s)))
              else None
          | None => None
          end
      | _ => None
      end
  | FCancel k =>
      match caller_find k (f_callers s) with
      | Some (FWait c) => Some (mkF (f_calls s) (f_map s) (caller_set k (FCancelled c) (f_callers s)))
      | _ => None
      end
  end.

(* a step that is not enabled is one the code cannot take: skipped *)
Fixpoint fsteps (s : fstate) (l : list fop) : fstate :=
  match l with
  | [] => s
  | o :: r => match fstep s o with Some s1 => fsteps s1 r | None => fsteps s r end
  end.
(* ... and for replaying an observed history: every step must have been enabled *)
Fixpoint fsteps_strict (s : fstate) (l : list fop) : option fstate :=
  match l with
  | [] => Some s
  | o :: r => match fstep s o with Some s1 => fsteps_strict s1 r | None => None end
  end.

(* VARIANT (not the code): Shared reported only to the callers that joined, never to the one whose
   closure ran ("the leader computed it, it is the leader's") *)
Definition fstep_leader_unshared (s : fstate) (o : fop) : option fstate :=
  match o with
  | FRecv k =>
      match caller_find k (f_callers s) with
      | Some (FWait c) =>
          match nth_error (f_calls s) c with
          | Some cl =>
              if fc_done cl
              then Some (mkF (f_calls s) (f_map s)
                             (caller_set k (FGot c ((0 <? fc_dups cl) && negb (head_is k (fc_waiters cl))) (head_is k (fc_waiters cl))) (f_callers s)))
              else None
          | None => None
          end
      | _ => None
      end
  | _ => fstep s o
  end.
Fixpoint fsteps_leader_unshared (s : fstate) (l : list fop) : fstate :=
  match l with
  | [] => s
  | o :: r => match fstep_leader_unshared s o with Some s1 => fsteps_leader_unshared s1 r | None => fsteps_leader_unshared s r end
  end.
