(* C10 — pooled writer wrappers under every interleaving of overlapping requests. *)
From Sdns Require Import Common.Base Gen.C10 C10.Model C10.ModelWrap C10.Proofs_UdpBase.
Open Scope nat_scope.

(* the writer chain of request r, from ch.Writer down: exactly the wrappers of its pending
   restores, each holding r's facts and the writer it saved, ending in r's own base writer *)
Fixpoint chain_ok (ws : list wrapper) (r : nat) (top : wref) (stack : list (nat * wref)) : Prop :=
  match stack with
  | [] => top = RBase r
  | (k, w) :: rest =>
      top = RWrap k /\ (exists lvl, nth_error ws k = Some (mkWrapper lvl (Some w) (Some r))) /\ chain_ok ws r w rest
  end.

Definition stack_ws (x : xreq) : list nat := map fst (x_stack x).

Record xinv (s : xst) : Prop := mkXinv {
  xi_r : forall x y, In x (x_live s) -> In y (x_live s) -> x_r x = x_r y -> x = y;
  xi_chain : forall x, In x (x_live s) -> chain_ok (x_wrappers s) (x_r x) (x_top x) (x_stack x);
  xi_nd : forall x, In x (x_live s) -> NoDup (stack_ws x);
  (* no wrapper has two users *)
  xi_disj : forall x y k, In x (x_live s) -> In y (x_live s) -> In k (stack_ws x) -> In k (stack_ws y) -> x = y;
  (* a pooled wrapper is zero and has no user *)
  xi_pool : forall k, In k (x_pool s) ->
              (exists lvl, nth_error (x_wrappers s) k = Some (mkWrapper lvl None None)) /\
              forall x, In x (x_live s) -> ~ In k (stack_ws x);
  xi_pool_nd : NoDup (x_pool s);
  xi_log : forall r res, In (r, res) (x_log s) -> exists n, res = Some (r, repeat (Some r) n)
}.

Lemma xinv_init : xinv x_init.
Proof. constructor; cbn; try (intros; tauto); constructor. Qed.

Lemma xfind_In r l x : xfind r l = Some x -> In x l /\ x_r x = r.
Proof. unfold xfind. intros H. apply find_some in H as [Hin Hb]. apply Nat.eqb_eq in Hb. auto. Qed.
Lemma xfind_None r l : xfind r l = None -> forall x, In x l -> x_r x <> r.
Proof.
  unfold xfind. intros H x Hin E. eapply find_none in H; eauto. cbn in H. rewrite E, Nat.eqb_refl in H. discriminate.
Qed.
Lemma xrm_In r l x : In x (xrm r l) <-> In x l /\ x_r x <> r.
Proof.
  unfold xrm. rewrite filter_In. split; intros [H1 H2]; split; auto.
  - intros E. rewrite E, Nat.eqb_refl in H2. discriminate.
  - apply Bool.negb_true_iff. apply Nat.eqb_neq. auto.
Qed.
Lemma xset_cases l x x1 y :
  (forall a b, In a l -> In b l -> x_r a = x_r b -> a = b) -> In x l -> x_r x1 = x_r x ->
  In y (xset x1 l) -> y = x1 \/ (In y l /\ y <> x /\ x_r y <> x_r x).
Proof.
  intros Hu Hx Eq Hy. unfold xset in Hy. apply in_map_iff in Hy as (z & E & Hz).
  destruct (Nat.eqb (x_r z) (x_r x1)) eqn:Ez.
  - left. auto.
  - right. apply Nat.eqb_neq in Ez. subst y. rewrite Eq in Ez. split; [auto|]. split; [|auto].
    intros ->. apply Ez. reflexivity.
Qed.

(* the chain does not look at wrappers outside its stack *)
Lemma chain_ok_lt ws r : forall stack top, chain_ok ws r top stack -> forall k, In k (map fst stack) -> k < length ws.
Proof.
  induction stack as [|[k w] rest IH]; cbn; intros top H k0 Hin; [tauto|].
  destruct H as (_ & (lvl & Hn) & Hr). destruct Hin as [<-|Hin].
  - eapply nth_error_lt; eauto.
  - eapply IH; eauto.
Qed.
Lemma chain_ok_upd ws r k v : forall stack top,
  ~ In k (map fst stack) -> chain_ok ws r top stack -> chain_ok (upd ws k v) r top stack.
Proof.
  induction stack as [|[k0 w] rest IH]; cbn; intros top Hn H; auto.
  destruct H as (Ht & (lvl & Hk) & Hr). split; auto. split.
  - exists lvl. rewrite nth_upd_other; auto.
  - apply IH; auto.
Qed.
Lemma chain_ok_app ws r v : forall stack top, chain_ok ws r top stack -> chain_ok (ws ++ [v]) r top stack.
Proof.
  induction stack as [|[k0 w] rest IH]; cbn; intros top H; auto.
  destruct H as (Ht & (lvl & Hk) & Hr). split; auto. split; auto.
  exists lvl. rewrite nth_app_old; auto. eapply nth_error_lt; eauto.
Qed.

(* a write entering at the top of such a chain passes exactly its own wrappers, each showing
   r's facts, and arrives at r's base writer *)
Lemma walk_chain ws r : forall stack top fuel seen,
  chain_ok ws r top stack -> length stack <= fuel ->
  walk ws fuel top seen = Some (r, seen ++ repeat (Some r) (length stack)).
Proof.
  induction stack as [|[k w] rest IH]; cbn [chain_ok length repeat]; intros top fuel seen H Hf.
  - subst top. destruct fuel; cbn; rewrite app_nil_r; reflexivity.
  - destruct H as (-> & (lvl & Hk) & Hr). destruct fuel as [|f]; [lia|].
    cbn [walk]. rewrite Hk. cbn [wr_inner wr_facts]. rewrite (IH w f); auto; [|lia].
    rewrite <- app_assoc. reflexivity.
Qed.

Lemma nodup_lt_length (l : list nat) n : NoDup l -> (forall k, In k l -> k < n) -> length l <= n.
Proof.
  intros Hnd Hlt. rewrite <- (seq_length n 0). apply NoDup_incl_length; auto.
  intros k Hk. apply in_seq. specialize (Hlt k Hk). lia.
Qed.

Lemma rem_one_In x l : NoDup l -> forall y, In y (rem_one x l) <-> In y l /\ y <> x.
Proof.
  induction l as [|h t IH]; intros Hnd y; cbn; [tauto|].
  apply NoDup_cons_iff in Hnd as (Hh & Ht).
  destruct (Nat.eqb h x) eqn:E.
  - apply Nat.eqb_eq in E. subst h. split.
    + intros H. split; [auto|]. intros ->. auto.
    + intros ([E|H] & Hne); [congruence|auto].
  - apply Nat.eqb_neq in E. cbn. rewrite (IH Ht). split.
    + intros [<-|(H & Hne)]; auto.
    + intros ([<-|H] & Hne); auto.
Qed.
Lemma rem_one_NoDup x l : NoDup l -> NoDup (rem_one x l).
Proof.
  induction l as [|h t IH]; intros Hnd; cbn; auto.
  apply NoDup_cons_iff in Hnd as (Hh & Ht).
  destruct (Nat.eqb h x); auto. constructor; auto.
  intros X. apply (rem_one_In x t Ht) in X. tauto.
Qed.

Lemma wrap_get_cases ws pool k lvl ws' pool' :
  wrap_get ws pool k lvl = Some (ws', pool') ->
  (In k pool /\ ws' = ws /\ pool' = rem_one k pool) \/
  (~ In k pool /\ k = length ws /\ ws' = ws ++ [mkWrapper lvl None None] /\ pool' = pool).
Proof.
  unfold wrap_get. destruct (mem_nat k pool) eqn:Em.
  - destruct (nth_error ws k) as [w|]; [|discriminate]. destruct (Nat.eqb _ _); [|discriminate].
    intros H. inversion H; subst. left. apply mem_nat_In in Em. auto.
  - destruct (Nat.eqb k (length ws)) eqn:En; [|discriminate].
    intros H. inversion H; subst. right. apply Nat.eqb_eq in En.
    split; [|auto]. intros X. apply mem_nat_In in X. congruence.
Qed.

Lemma xinv_step_gen s a s' : xinv s -> xstep s a = Some s' -> xinv s'.
Proof.
  intros Hi. unfold xstep. destruct a as [r|r k lvl|r|r|r]; cbn [xstep_gen].
  - (* XBegin *)
    destruct (xfind r (x_live s)) eqn:Ef; [discriminate|]. pose proof (xfind_None _ _ Ef) as Hr.
    intros H. inversion H; subst; clear H.
    constructor; cbn [x_wrappers x_pool x_live x_log].
    + intros x y [<-|Hx] [<-|Hy] E; auto; try (exfalso; eapply Hr; eauto; fail). eapply (xi_r _ Hi); eauto.
    + intros x [<-|Hx]; [reflexivity|]. apply (xi_chain _ Hi); auto.
    + intros x [<-|Hx]; [constructor|]. apply (xi_nd _ Hi); auto.
    + intros x y k [<-|Hx] [<-|Hy] Hkx Hky; auto; try (cbn in *; tauto). eapply (xi_disj _ Hi); eauto.
    + intros k Hk. destruct (xi_pool _ Hi _ Hk) as (H1 & H2). split; auto.
      intros x [<-|Hx]; [cbn; tauto|auto].
    + apply (xi_pool_nd _ Hi).
    + apply (xi_log _ Hi).
  - (* XWrap *)
    destruct (xfind r (x_live s)) as [x|] eqn:Ef; [|discriminate].
    apply xfind_In in Ef as (Hx & Er).
    destruct (wrap_get (x_wrappers s) (x_pool s) k lvl) as [[ws pool]|] eqn:Eg; [|discriminate].
    intros H. inversion H; subst s'; clear H.
    apply wrap_get_cases in Eg.
    (* nobody uses k, it is within ws, and ws extends the old wrappers *)
    assert (G : (forall y, In y (x_live s) -> ~ In k (stack_ws y)) /\ k < length ws /\
                (forall y, In y (x_live s) -> chain_ok ws (x_r y) (x_top y) (x_stack y)) /\
                (forall k', In k' pool -> In k' (x_pool s) /\ k' <> k) /\ NoDup pool /\
                (forall k' w, nth_error (x_wrappers s) k' = Some w -> nth_error ws k' = Some w)).
    { destruct Eg as [(Hin & -> & ->)|(Hn & -> & -> & ->)].
      - destruct (xi_pool _ Hi _ Hin) as ((l0 & H1) & H2).
        split; [exact H2|]. split; [eapply nth_error_lt; eauto|]. split; [apply (xi_chain _ Hi)|].
        split; [intros k' Hk'; apply (rem_one_In k _ (xi_pool_nd _ Hi)) in Hk'; tauto|]. split; [|auto].
        apply rem_one_NoDup. apply (xi_pool_nd _ Hi).
      - split.
        { intros y Hy Hk. pose proof (chain_ok_lt _ _ _ _ (xi_chain _ Hi _ Hy) _ Hk). lia. }
        split; [rewrite app_length; cbn; lia|]. split.
        { intros y Hy. apply chain_ok_app. apply (xi_chain _ Hi); auto. }
        split.
        { intros k' Hk'. split; auto. intros ->. destruct (xi_pool _ Hi _ Hk') as ((l0 & H1) & _).
          apply nth_error_lt in H1. lia. }
        split; [apply (xi_pool_nd _ Hi)|].
        intros k' w Hw. rewrite nth_app_old; auto. eapply nth_error_lt; eauto. }
    destruct G as (G1 & G2 & G3 & G4 & G5 & G6).
    set (x1 := mkXreq r (RWrap k) ((k, x_top x) :: x_stack x)).
    assert (Hcase : forall y, In y (xset x1 (x_live s)) -> y = x1 \/ (In y (x_live s) /\ y <> x /\ x_r y <> x_r x)).
    { intros y Hy. eapply xset_cases; eauto. apply (xi_r _ Hi). }
    assert (Sx1 : stack_ws x1 = k :: stack_ws x) by reflexivity.
    constructor; cbn [x_wrappers x_pool x_live x_log].
    + intros a b Ha Hb E. destruct (Hcase _ Ha) as [->|(Ha0 & Hane & Haq)]; destruct (Hcase _ Hb) as [->|(Hb0 & Hbne & Hbq)]; auto.
      * exfalso. apply Hbq. cbn in E. congruence.
      * exfalso. apply Haq. cbn in E. congruence.
      * eapply (xi_r _ Hi); eauto.
    + intros a Ha. destruct (Hcase _ Ha) as [->|(Ha0 & Hane & Haq)].
      * cbn [x1 x_r x_top x_stack chain_ok]. split; [reflexivity|]. split.
        -- exists lvl. rewrite nth_upd_same by auto. reflexivity.
        -- apply chain_ok_upd; [apply G1; auto|]. rewrite <- Er. apply G3; auto.
      * apply chain_ok_upd; [apply G1; auto|]. apply G3; auto.
    + intros a Ha. destruct (Hcase _ Ha) as [->|(Ha0 & Hane & Haq)]; [|apply (xi_nd _ Hi); auto].
      rewrite Sx1. constructor; [apply G1; auto|apply (xi_nd _ Hi); auto].
    + intros a b k0 Ha Hb Hka Hkb.
      destruct (Hcase _ Ha) as [->|(Ha0 & Hane & Haq)]; destruct (Hcase _ Hb) as [->|(Hb0 & Hbne & Hbq)]; auto.
      * exfalso. rewrite Sx1 in Hka. destruct Hka as [<-|Hka]; [eapply G1; eauto|].
        apply Hbne. symmetry. eapply (xi_disj _ Hi); eauto.
      * exfalso. rewrite Sx1 in Hkb. destruct Hkb as [<-|Hkb]; [eapply G1; eauto|].
        apply Hane. symmetry. eapply (xi_disj _ Hi); eauto.
      * eapply (xi_disj _ Hi); eauto.
    + intros k' Hk'. destruct (G4 _ Hk') as (Hold & Hne). destruct (xi_pool _ Hi _ Hold) as ((l0 & H1) & H2). split.
      * exists l0. rewrite nth_upd_other by auto. apply G6. auto.
      * intros a Ha. destruct (Hcase _ Ha) as [->|(Ha0 & _)]; [|auto].
        rewrite Sx1. intros [E|X]; [congruence|]. eapply H2; eauto.
    + exact G5.
    + apply (xi_log _ Hi).
  - (* XWrite *)
    destruct (xfind r (x_live s)) as [x|] eqn:Ef; [|discriminate].
    apply xfind_In in Ef as (Hx & Er).
    assert (W : walk (x_wrappers s) (S (length (x_wrappers s))) (x_top x) [] = Some (r, repeat (Some r) (length (x_stack x)))).
    { pose proof (xi_chain _ Hi _ Hx) as Hc. rewrite Er in Hc.
      rewrite (walk_chain _ _ _ _ _ [] Hc); [reflexivity|].
      assert (length (stack_ws x) <= length (x_wrappers s)).
      { apply nodup_lt_length; [apply (xi_nd _ Hi); auto|]. intros k Hk. eapply chain_ok_lt; eauto. }
      unfold stack_ws in H. rewrite map_length in H. lia. }
    rewrite W. intros H. inversion H; subst s'; clear H.
    constructor; cbn [x_wrappers x_pool x_live x_log]; try apply Hi.
    intros r' res [E|Hin]; [|eapply (xi_log _ Hi); eauto].
    inversion E; subst r' res. eexists. reflexivity.
  - (* XUnwrap *)
    destruct (xfind r (x_live s)) as [x|] eqn:Ef; [|discriminate].
    apply xfind_In in Ef as (Hx & Er).
    destruct (x_stack x) as [|[k w] rest] eqn:Es; [discriminate|].
    destruct (nth_error (x_wrappers s) k) as [old|] eqn:Eo; [|discriminate].
    intros H. inversion H; subst s'; clear H. cbn [repeat app].
    pose proof (xi_chain _ Hi _ Hx) as Hc. rewrite Es in Hc. cbn [chain_ok] in Hc. destruct Hc as (Ht & _ & Hrest).
    pose proof (xi_nd _ Hi _ Hx) as Hnd. unfold stack_ws in Hnd. rewrite Es in Hnd. cbn [map fst] in Hnd.
    apply NoDup_cons_iff in Hnd as (Hk & Hndr).
    assert (Hklt : k < length (x_wrappers s)) by (eapply nth_error_lt; eauto).
    assert (Hkx : In k (stack_ws x)) by (unfold stack_ws; rewrite Es; left; reflexivity).
    set (x1 := mkXreq r w rest).
    assert (Hcase : forall y, In y (xset x1 (x_live s)) -> y = x1 \/ (In y (x_live s) /\ y <> x /\ x_r y <> x_r x)).
    { intros y Hy. eapply xset_cases; eauto. apply (xi_r _ Hi). }
    assert (Sub : forall k0, In k0 (stack_ws x1) -> In k0 (stack_ws x)).
    { intros k0 Hk0. unfold stack_ws. rewrite Es. right. exact Hk0. }
    assert (Hothers : forall y, In y (x_live s) -> y <> x -> ~ In k (stack_ws y)).
    { intros y Hy Hne Hin. apply Hne. eapply (xi_disj _ Hi); eauto. }
    constructor; cbn [x_wrappers x_pool x_live x_log].
    + intros a b Ha Hb E. destruct (Hcase _ Ha) as [->|(Ha0 & Hane & Haq)]; destruct (Hcase _ Hb) as [->|(Hb0 & Hbne & Hbq)]; auto.
      * exfalso. apply Hbq. cbn in E. congruence.
      * exfalso. apply Haq. cbn in E. congruence.
      * eapply (xi_r _ Hi); eauto.
    + intros a Ha. destruct (Hcase _ Ha) as [->|(Ha0 & Hane & Haq)].
      * cbn [x1 x_r x_top x_stack]. apply chain_ok_upd; [exact Hk|]. rewrite <- Er. exact Hrest.
      * apply chain_ok_upd; [apply Hothers; auto|]. apply (xi_chain _ Hi); auto.
    + intros a Ha. destruct (Hcase _ Ha) as [->|(Ha0 & Hane & Haq)]; [exact Hndr|apply (xi_nd _ Hi); auto].
    + intros a b k0 Ha Hb Hka Hkb.
      destruct (Hcase _ Ha) as [->|(Ha0 & Hane & Haq)]; destruct (Hcase _ Hb) as [->|(Hb0 & Hbne & Hbq)]; auto.
      * exfalso. apply Hbne. symmetry. apply (xi_disj _ Hi x b k0); auto.
      * exfalso. apply Hane. symmetry. apply (xi_disj _ Hi x a k0); auto.
      * eapply (xi_disj _ Hi); eauto.
    + intros k' [<-|Hk'].
      * split; [exists (wr_level old); apply nth_upd_same; auto|].
        intros a Ha. destruct (Hcase _ Ha) as [->|(Ha0 & Hane & _)]; [exact Hk|apply Hothers; auto].
      * destruct (xi_pool _ Hi _ Hk') as ((l0 & H1) & H2).
        assert (k' <> k) by (intros ->; eapply H2; eauto).
        split; [exists l0; rewrite nth_upd_other; auto|].
        intros a Ha. destruct (Hcase _ Ha) as [->|(Ha0 & _)]; [|auto].
        intros X. eapply H2; eauto.
    + constructor; [|apply (xi_pool_nd _ Hi)].
      intros X. destruct (xi_pool _ Hi _ X) as (_ & H2). eapply H2; eauto.
    + apply (xi_log _ Hi).
  - (* XEnd *)
    destruct (xfind r (x_live s)) as [x|] eqn:Ef; [|discriminate].
    destruct (x_stack x); [|discriminate].
    intros H. inversion H; subst s'; clear H.
    assert (Hsub : forall y, In y (xrm r (x_live s)) -> In y (x_live s)).
    { intros y Hy. apply xrm_In in Hy. tauto. }
    constructor; cbn [x_wrappers x_pool x_live x_log].
    + intros a b Ha Hb. apply (xi_r _ Hi); auto.
    + intros a Ha. apply (xi_chain _ Hi); auto.
    + intros a Ha. apply (xi_nd _ Hi); auto.
    + intros a b k0 Ha Hb. apply (xi_disj _ Hi); auto.
    + intros k Hk. destruct (xi_pool _ Hi _ Hk) as (H1 & H2). split; auto.
    + apply (xi_pool_nd _ Hi).
    + apply (xi_log _ Hi).
Qed.

Lemma xinv_steps : forall l s, xinv s -> xinv (xsteps s l).
Proof.
  induction l as [|a r IH]; intros s Hi; cbn; auto.
  destruct (xstep s a) as [s1|] eqn:E; auto. apply IH. eapply xinv_step_gen; eauto.
Qed.

(* EVERY interleaving of overlapping requests that wrap / write / unwind — whatever wrappers the
   pools hand out, any nesting depth, any number of writes, unwinding by return or by panic:
   a reply passes only wrappers that hold ITS OWN request's facts and arrives at its own base
   writer (its own transport); no wrapper is on two requests' chains; a wrapper in a pool is the
   zero value and on nobody's chain *)
Theorem wrap_lemma l :
  let s := xsteps x_init l in
  (forall r res, In (r, res) (x_log s) -> exists n, res = Some (r, repeat (Some r) n)) /\
  (forall x y k, In x (x_live s) -> In y (x_live s) -> In k (map fst (x_stack x)) -> In k (map fst (x_stack y)) -> x = y) /\
  (forall k, In k (x_pool s) ->
     (exists lvl, nth_error (x_wrappers s) k = Some (mkWrapper lvl None None)) /\
     forall x, In x (x_live s) -> ~ In k (map fst (x_stack x))).
Proof.
  intros s. pose proof (xinv_steps l _ xinv_init) as Hi. fold s in Hi.
  split; [apply (xi_log _ Hi)|]. split; [apply (xi_disj _ Hi)|apply (xi_pool _ Hi)].
Qed.

(* non-vacuity: two levels (1 = edns, 2 = cache); request 2 overlaps 1, ends first; 3 takes over 2's
   wrappers while 1 is still parked; everybody is answered through two wrappers of their own *)
Definition wrap_example_schedule : list xact :=
  [XBegin 1; XWrap 1 0 1; XWrap 1 1 2; XBegin 2; XWrap 2 2 1; XWrap 2 3 2; XWrite 2; XUnwrap 2; XUnwrap 2; XEnd 2;
   XBegin 3; XWrap 3 2 1; XWrap 3 3 2; XWrite 1; XWrite 3; XUnwrap 1; XUnwrap 1; XEnd 1; XUnwrap 3; XUnwrap 3; XEnd 3].
Lemma wrap_example :
  let s := xsteps x_init wrap_example_schedule in
  xsteps_strict x_init wrap_example_schedule = Some s /\
  x_log s = [(3, Some (3, [Some 3; Some 3])); (1, Some (1, [Some 1; Some 1])); (2, Some (2, [Some 2; Some 2]))] /\
  x_live s = [] /\ length (x_pool s) = 4.
Proof. vm_compute. repeat split. Qed.

(* the VARIANT whose exit path puts the wrapper back twice: requests 2 and 3, in flight together,
   are both handed wrapper 0; 3's binding overwrites 2's, and 2's reply — shaped with 3's facts —
   lands on request 3's transport.  The code refuses the second hand-out (the step is not enabled:
   wrapper 0 is on 2's chain) and 2's reply goes home. *)
Definition wrap_leak_schedule : list xact :=
  [XBegin 1; XWrap 1 0 1; XUnwrap 1; XEnd 1; XBegin 2; XWrap 2 0 1; XBegin 3; XWrap 3 0 1; XWrite 2].
Lemma double_put_crosses :
  x_log (xsteps_twice x_init wrap_leak_schedule) = [(2, Some (3, [Some 3]))] /\
  x_log (xsteps x_init wrap_leak_schedule) = [(2, Some (2, [Some 2]))].
Proof. vm_compute. split; reflexivity. Qed.
