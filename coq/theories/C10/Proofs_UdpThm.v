(* C10 — UDP engine proofs, part 6: the step theorem and the property lemmas. *)
From Sdns Require Import Common.Base Gen.C10 C10.Model C10.Proofs_UdpBase C10.Proofs_UdpMove
  C10.Proofs_UdpTags C10.Proofs_UdpStep C10.Proofs_UdpActs C10.Proofs_UdpInv.
Open Scope nat_scope.
Arguments burst_of : simpl never.

Lemma good_init c : good c u_init.
Proof.
  exists []. split.
  - constructor; cbn; try (constructor; fail); try tauto.
    + intros sid. split; [tauto|]. destruct sid; discriminate.
    + intros r sid. split; [tauto|]. destruct sid; discriminate.
    + intros sid. split; [tauto|]. destruct sid; discriminate.
    + intros sid who. split; [tauto|]. destruct sid; discriminate.
    + intros b sid. split; [tauto|]. destruct sid; discriminate.
    + intros sid p j H. destruct sid; discriminate.
    + intros b. unfold burst_of. cbn. unfold udp_tx_max. lia.
  - intros b _. unfold burst_of. cbn. unfold udp_tx_max. lia.
Qed.

Theorem ustep_good c s a : good c s -> step_ok c (ustep c s a).
Proof.
  intros G. destruct a.
  - apply take_ok; auto.
  - apply recv_fail_ok; auto.
  - apply recv_enq_ok; auto.
  - apply recv_inline_ok; auto.
  - apply begin_serve_ok; auto.
  - apply idle_flush_ok; auto.
  - (* AHWrite *)
    destruct G as (own & Hinv & Hws). cbn [ustep].
    pose proof (handler_write_inv c s own sid (fun j => job_write j bs) (fun j => ex_intro _ bs eq_refl) Hinv) as H.
    destruct (handler_write c s sid _); auto. destruct H as (H1 & H2 & H3).
    exists own. split; auto. intros b Hb. rewrite H2. apply Hws; auto.
  - (* AHLease *)
    destruct G as (own & Hinv & Hws). cbn [ustep].
    destruct (get_slab s sid) as [j|] eqn:Hj; [|exact I].
    destruct (serv_find sid (u_serv s)) as [who|] eqn:Hf; [|exact I].
    apply serv_find_In in Hf. apply (i_serv _ _ _ Hinv) in Hf.
    exists own. split; [eapply handler_lease_inv; eauto | exact Hws].
  - (* AHAppend *)
    destruct G as (own & Hinv & Hws). cbn [ustep].
    destruct (get_slab s sid) as [j|] eqn:Hj; [|exact I].
    destruct (serv_find sid (u_serv s)) as [who|] eqn:Hf; [|exact I].
    apply serv_find_In in Hf. apply (i_serv _ _ _ Hinv) in Hf.
    destruct (job_append j bs) as [j1|] eqn:Ha; [|exact I].
    exists own. split; [eapply handler_append_inv; eauto | exact Hws].
  - (* AHWriteLease *)
    destruct G as (own & Hinv & Hws). cbn [ustep].
    pose proof (handler_write_lease_inv c s own sid Hinv) as H.
    destruct (handler_write c s sid _); auto. destruct H as (H1 & H2 & H3).
    exists own. split; auto. intros b Hb. rewrite H2. apply Hws; auto.
  - (* AHWriteMsg *)
    destruct G as (own & Hinv & Hws). cbn [ustep].
    pose proof (handler_write_msg_inv c s own sid ulen bs Hinv) as H.
    destruct (handler_write c s sid _); auto. destruct H as (H1 & H2 & H3).
    exists own. split; auto. intros b Hb. rewrite H2. apply Hws; auto.
  - apply hflush_ok; auto.
  - (* AHReject *)
    destruct G as (own & Hinv & Hws). cbn [ustep].
    pose proof (handler_write_inv c s own sid (fun j => job_write j (reject_bytes (s_rx j) notimp))
                  (fun j => ex_intro _ (reject_bytes (s_rx j) notimp) eq_refl) Hinv) as H.
    destruct (handler_write c s sid _); auto. destruct H as (H1 & H2 & H3).
    exists own. split; auto. intros b Hb. rewrite H2. apply Hws; auto.
  - apply end_serve_ok; auto.
  - apply end_inline_ok; auto.
  - cbn [ustep]. apply flush_ok; auto.
Qed.

Theorem usteps_good c : forall l s, good c s -> step_ok c (usteps c s l) /\ usteps c s l <> Disabled.
Proof.
  induction l as [|a r IH]; intros s G; cbn.
  - split; [exact G | discriminate].
  - pose proof (ustep_good c s a G) as H. destruct (ustep c s a); cbn in H; auto; destruct H.
Qed.

Lemma run_ops_good c : forall l s, good c s -> step_ok c (run_ops c s l) /\ run_ops c s l <> Disabled.
Proof.
  induction l as [|o r IH]; intros s G; cbn.
  - split; [exact G | discriminate].
  - destruct (usteps_good c (plan c s o) s G) as [H Hd].
    destruct (usteps c s (plan c s o)); cbn in H; auto; try (destruct H; fail); congruence.
Qed.

(* ------------------------------------------------------------------ single owner *)
Definition holds (s : ust) (sid : nat) (p : place) : Prop :=
  match p with
  | PIdle => In sid (u_idle s)
  | PHeld r => In (r, sid) (u_held s)
  | PReady => In sid (u_ready s)
  | PServ who => In (sid, who) (u_serv s)
  | PBurst b => In (b, sid) (u_burst s)
  end.
Definition state_of (p : place) : N :=
  match p with
  | PIdle => st_free | PHeld _ => st_reading | PReady => st_queued
  | PServ _ => st_serving | PBurst _ => st_serving
  end.

Lemma holds_own c s own sid p : inv c s own -> (holds s sid p <-> nth_error own sid = Some p).
Proof.
  intros Hinv. destruct p; cbn.
  - apply (i_idle _ _ _ Hinv). - apply (i_held _ _ _ Hinv). - apply (i_ready _ _ _ Hinv).
  - apply (i_serv _ _ _ Hinv). - apply (i_burst _ _ _ Hinv).
Qed.

Lemma good_single_owner c s : good c s ->
  (forall sid j, get_slab s sid = Some j ->
     exists p, holds s sid p /\ s_state j = state_of p /\ forall q, holds s sid q -> q = p) /\
  NoDup (u_idle s) /\ NoDup (map snd (u_held s)) /\ NoDup (u_ready s) /\
  NoDup (map fst (u_serv s)) /\ NoDup (map snd (u_burst s)).
Proof.
  intros (own & Hinv & _). split.
  - intros sid j Hj. destruct (inv_own _ _ _ _ _ Hinv Hj) as [p Hp].
    exists p. split; [apply (holds_own c s own); auto|]. split.
    + pose proof (i_local _ _ _ Hinv sid p j Hp Hj) as [_ H]. destruct p; cbn; tauto.
    + intros q Hq. apply (holds_own c s own) in Hq; auto. congruence.
  - destruct Hinv. tauto.
Qed.

(* ------------------------------------------------------------------ what is in the log *)
Lemma log_ok_split l1 e l2 : log_ok (l1 ++ e :: l2) -> justified e l2.
Proof.
  induction l1 as [|h t IH]; cbn; intros H; inversion H; subst; auto.
Qed.

Lemma log_ok_recv_unique log : log_ok log ->
  forall sid l a1 rx1 a2 rx2, In (ERecv sid l a1 rx1) log -> In (ERecv sid l a2 rx2) log -> a1 = a2 /\ rx1 = rx2.
Proof.
  induction 1 as [|e t Hok IH Hj]; intros sid l a1 rx1 a2 rx2 H1 H2; [destruct H1|].
  destruct H1 as [->|H1], H2 as [E|H2].
  - inversion E; auto.
  - cbn in Hj. exfalso. eapply Hj; eauto.
  - subst e. cbn in Hj. exfalso. eapply Hj; eauto.
  - eapply IH; eauto.
Qed.

Lemma good_log c s : good c s -> log_ok (u_log s).
Proof. intros (own & Hinv & _). apply (i_log _ _ _ Hinv). Qed.

(* a parked slab has nothing staged *)
Lemma good_idle_scrubbed c s sid j : good c s -> In sid (u_idle s) -> get_slab s sid = Some j -> s_txlen j = 0.
Proof.
  intros (own & Hinv & _) Hin Hj. apply (i_idle _ _ _ Hinv) in Hin.
  pose proof (i_local _ _ _ Hinv sid _ j Hin Hj) as [_ H]. cbn in H. tauto.
Qed.
