(* C10 — the borrowed pack state: what a transport takes is its own request's packed reply. *)
From Sdns Require Import Common.Base Gen.C10 C10.Model C10.ModelPack C10.Proofs_UdpBase.
Open Scope nat_scope.

Record pinv (s : pst) : Prop := mkPinv {
  pi_r : forall x y, In x (p_live s) -> In y (p_live s) -> pw_r x = pw_r y -> x = y;
  (* no pack state is borrowed by two writes *)
  pi_k : forall x y, In x (p_live s) -> In y (p_live s) -> pw_k x = pw_k y -> x = y;
  (* the key fact: until it is released, a write's pack state holds ITS packed message *)
  pi_buf : forall x, In x (p_live s) -> nth_error (p_bufs s) (pw_k x) = Some (pw_own x);
  pi_pool : forall k, In k (p_pool s) -> k < length (p_bufs s) /\ forall x, In x (p_live s) -> pw_k x <> k;
  pi_pool_nd : NoDup (p_pool s);
  pi_log : forall r got own, In (r, got, own) (p_log s) -> got = own
}.

Lemma pinv_init : pinv p_init.
Proof. constructor; cbn; try (intros; tauto); constructor. Qed.

Lemma pfind_In r l x : pfind r l = Some x -> In x l /\ pw_r x = r.
Proof. unfold pfind. intros H. apply find_some in H as [Hin Hb]. apply Nat.eqb_eq in Hb. auto. Qed.
Lemma pfind_None r l : pfind r l = None -> forall x, In x l -> pw_r x <> r.
Proof.
  unfold pfind. intros H x Hin E. eapply find_none in H; eauto. cbn in H. rewrite E, Nat.eqb_refl in H. discriminate.
Qed.
Lemma prm_In r l x : In x (prm r l) <-> In x l /\ pw_r x <> r.
Proof.
  unfold prm. rewrite filter_In. split; intros [H1 H2]; split; auto.
  - intros E. rewrite E, Nat.eqb_refl in H2. discriminate.
  - apply Bool.negb_true_iff. apply Nat.eqb_neq. auto.
Qed.
Lemma pset_cases l x x1 y :
  (forall a b, In a l -> In b l -> pw_r a = pw_r b -> a = b) -> In x l -> pw_r x1 = pw_r x ->
  In y (pset x1 l) -> y = x1 \/ (In y l /\ y <> x /\ pw_r y <> pw_r x).
Proof.
  intros Hu Hx Eq Hy. unfold pset in Hy. apply in_map_iff in Hy as (z & E & Hz).
  destruct (Nat.eqb (pw_r z) (pw_r x1)) eqn:Ez.
  - left. auto.
  - right. apply Nat.eqb_neq in Ez. subst y. rewrite Eq in Ez. split; [auto|]. split; [|auto].
    intros ->. apply Ez. reflexivity.
Qed.
Lemma prem_one_In x l : NoDup l -> forall y, In y (prem_one x l) <-> In y l /\ y <> x.
Proof.
  induction l as [|h t IH]; intros Hnd y; cbn; [tauto|].
  apply NoDup_cons_iff in Hnd as (Hh & Ht).
  destruct (Nat.eqb h x) eqn:E.
  - apply Nat.eqb_eq in E. subst h. split.
    + intros H. split; [auto|]. intros ->. auto.
    + intros ([E|H] & Hne); [congruence|auto].
  - apply Nat.eqb_neq in E. cbn. rewrite (IH Ht). split.
    + intros [<-|(H & Hne)]; auto.
    + intros ([<-|H] & Hne); auto.
Qed.
Lemma prem_one_NoDup x l : NoDup l -> NoDup (prem_one x l).
Proof.
  induction l as [|h t IH]; intros Hnd; cbn; auto.
  apply NoDup_cons_iff in Hnd as (Hh & Ht).
  destruct (Nat.eqb h x); auto. constructor; auto.
  intros X. apply (prem_one_In x t Ht) in X. tauto.
Qed.

(* a step that only changes the phase of one live write *)
Lemma pinv_phase s x ph log' :
  pinv s -> In x (p_live s) ->
  (forall r got own, In (r, got, own) log' -> got = own) ->
  pinv (mkPst (p_bufs s) (p_pool s) (pset (mkPwrite (pw_r x) (pw_k x) (pw_own x) ph) (p_live s)) log').
Proof.
  intros Hi Hx Hlog. set (x1 := mkPwrite (pw_r x) (pw_k x) (pw_own x) ph).
  assert (Hcase : forall y, In y (pset x1 (p_live s)) -> y = x1 \/ (In y (p_live s) /\ y <> x /\ pw_r y <> pw_r x)).
  { intros y Hy. eapply pset_cases; eauto. apply (pi_r _ Hi). }
  constructor; cbn [p_bufs p_pool p_live p_log]; auto.
  - intros a b Ha Hb E. destruct (Hcase _ Ha) as [->|(Ha0 & Hane & Haq)]; destruct (Hcase _ Hb) as [->|(Hb0 & Hbne & Hbq)]; auto.
    + exfalso. apply Hbq. cbn in E. congruence.
    + exfalso. apply Haq. cbn in E. congruence.
    + eapply (pi_r _ Hi); eauto.
  - intros a b Ha Hb E. destruct (Hcase _ Ha) as [->|(Ha0 & Hane & Haq)]; destruct (Hcase _ Hb) as [->|(Hb0 & Hbne & Hbq)]; auto.
    + exfalso. apply Hbne. symmetry. apply (pi_k _ Hi); auto.
    + exfalso. apply Hane. apply (pi_k _ Hi); auto.
    + eapply (pi_k _ Hi); eauto.
  - intros a Ha. destruct (Hcase _ Ha) as [->|(Ha0 & _)]; [cbn|]; apply (pi_buf _ Hi); auto.
  - intros k Hk. destruct (pi_pool _ Hi _ Hk) as (H1 & H2). split; auto.
    intros a Ha. destruct (Hcase _ Ha) as [->|(Ha0 & _)]; [cbn|]; auto.
  - apply (pi_pool_nd _ Hi).
Qed.

Lemma pinv_step s a s' : pinv s -> pstep s a = Some s' -> pinv s'.
Proof.
  intros Hi. unfold pstep. destruct a as [r k bs|r|r|r]; cbn [pstep_gen].
  - (* PPack *)
    destruct (pfind r (p_live s)) eqn:Ef; [discriminate|]. pose proof (pfind_None _ _ Ef) as Hr.
    destruct (mem_nat k (p_pool s)) eqn:Em.
    + apply mem_nat_In in Em. destruct (pi_pool _ Hi _ Em) as (Hlt & Hfree).
      intros H. inversion H; subst; clear H.
      constructor; cbn [p_bufs p_pool p_live p_log].
      * intros x y [<-|Hx] [<-|Hy] E; auto; try (exfalso; eapply Hr; eauto; fail). eapply (pi_r _ Hi); eauto.
      * intros x y [<-|Hx] [<-|Hy] E; auto; try (exfalso; cbn in E; eapply Hfree; eauto; fail). eapply (pi_k _ Hi); eauto.
      * intros x [<-|Hx]; [cbn; apply nth_upd_same; auto|].
        rewrite nth_upd_other; [apply (pi_buf _ Hi); auto|]. intros E. eapply Hfree; eauto.
      * intros k' Hk'. apply (prem_one_In k _ (pi_pool_nd _ Hi)) in Hk' as (Hk' & Hne).
        destruct (pi_pool _ Hi _ Hk') as (H1 & H2). rewrite upd_length. split; auto.
        intros x [<-|Hx]; cbn; auto.
      * apply prem_one_NoDup. apply (pi_pool_nd _ Hi).
      * apply (pi_log _ Hi).
    + destruct (Nat.eqb k (length (p_bufs s))) eqn:En; [|discriminate]. apply Nat.eqb_eq in En. subst k.
      intros H. inversion H; subst; clear H.
      assert (Hlt : forall x, In x (p_live s) -> pw_k x < length (p_bufs s)).
      { intros x Hx. eapply nth_error_lt. apply (pi_buf _ Hi); auto. }
      constructor; cbn [p_bufs p_pool p_live p_log].
      * intros x y [<-|Hx] [<-|Hy] E; auto; try (exfalso; eapply Hr; eauto; fail). eapply (pi_r _ Hi); eauto.
      * intros x y [<-|Hx] [<-|Hy] E; auto; cbn in E.
        -- specialize (Hlt _ Hy). lia.
        -- specialize (Hlt _ Hx). lia.
        -- eapply (pi_k _ Hi); eauto.
      * intros x [<-|Hx]; [cbn; apply nth_app_fresh|].
        rewrite nth_app_old by auto. apply (pi_buf _ Hi); auto.
      * intros k' Hk'. destruct (pi_pool _ Hi _ Hk') as (H1 & H2). rewrite app_length. cbn. split; [lia|].
        intros x [<-|Hx]; cbn; [lia|auto].
      * apply (pi_pool_nd _ Hi).
      * apply (pi_log _ Hi).
  - (* PWriteBegin *)
    destruct (pfind r (p_live s)) as [x|] eqn:Ef; [|discriminate].
    apply pfind_In in Ef as (Hx & Er). subst r.
    destruct (pw_ph x); try discriminate. intros H. inversion H; subst; clear H.
    apply pinv_phase; auto. apply (pi_log _ Hi).
  - (* PCopy *)
    destruct (pfind r (p_live s)) as [x|] eqn:Ef; [|discriminate].
    apply pfind_In in Ef as (Hx & Er). subst r.
    destruct (pw_ph x); try discriminate.
    destruct (nth_error (p_bufs s) (pw_k x)) as [got|] eqn:Eg; [|discriminate].
    intros H. inversion H; subst; clear H.
    apply pinv_phase; auto.
    intros r got' own [E|Hin]; [|eapply (pi_log _ Hi); eauto].
    inversion E; subst. rewrite (pi_buf _ Hi _ Hx) in Eg. congruence.
  - (* PRelease *)
    destruct (pfind r (p_live s)) as [x|] eqn:Ef; [|discriminate].
    apply pfind_In in Ef as (Hx & Er). subst r.
    destruct (pw_ph x); try discriminate. intros H. inversion H; subst; clear H.
    assert (Hsub : forall y, In y (prm (pw_r x) (p_live s)) -> In y (p_live s) /\ y <> x).
    { intros y Hy. apply prm_In in Hy as (Hy & Hne). split; auto. intros ->. auto. }
    constructor; cbn [p_bufs p_pool p_live p_log].
    + intros a b Ha Hb. apply Hsub in Ha as (Ha & _). apply Hsub in Hb as (Hb & _). apply (pi_r _ Hi); auto.
    + intros a b Ha Hb. apply Hsub in Ha as (Ha & _). apply Hsub in Hb as (Hb & _). apply (pi_k _ Hi); auto.
    + intros a Ha. apply Hsub in Ha as (Ha & _). apply (pi_buf _ Hi); auto.
    + intros k [<-|Hk].
      * split; [eapply nth_error_lt; apply (pi_buf _ Hi); auto|].
        intros y Hy E. apply Hsub in Hy as (Hy & Hne). apply Hne. apply (pi_k _ Hi); auto.
      * destruct (pi_pool _ Hi _ Hk) as (H1 & H2). split; auto.
        intros y Hy. apply Hsub in Hy as (Hy & _). auto.
    + constructor; [|apply (pi_pool_nd _ Hi)].
      intros X. destruct (pi_pool _ Hi _ X) as (_ & H2). eapply H2; eauto.
    + apply (pi_log _ Hi).
Qed.

Lemma pinv_steps : forall l s, pinv s -> pinv (psteps s l).
Proof.
  induction l as [|a r IH]; intros s Hi; cbn; auto.
  destruct (pstep s a) as [s1|] eqn:E; auto. apply IH. eapply pinv_step; eauto.
Qed.

(* EVERY interleaving of any number of concurrent WriteMsg calls on byte-sink transports whose
   writes park for as long as they like while other requests pack their replies: the bytes a
   transport takes are the packed form of ITS OWN request's message; no pack state is borrowed by
   two writes at once *)
Theorem pack_lemma l :
  let s := psteps p_init l in
  (forall r got own, In (r, got, own) (p_log s) -> got = own) /\
  (forall x y, In x (p_live s) -> In y (p_live s) -> pw_k x = pw_k y -> x = y).
Proof.
  intros s. pose proof (pinv_steps l _ pinv_init) as Hi. fold s in Hi.
  split; [apply (pi_log _ Hi)|apply (pi_k _ Hi)].
Qed.

(* request 1's transport write parks; request 2 is packed and sent meanwhile; with the state held
   for the duration of the write 2 gets another state and both transports take their own bytes *)
Definition pack_example_schedule : list pact :=
  [PPack 1 0 [1; 1; 1]%N; PWriteBegin 1; PPack 2 1 [2; 2]%N; PWriteBegin 2; PCopy 2; PRelease 2; PCopy 1; PRelease 1;
   PPack 3 0 [3]%N; PWriteBegin 3; PCopy 3; PRelease 3].
Lemma pack_example :
  let s := psteps p_init pack_example_schedule in
  psteps_strict p_init pack_example_schedule = Some s /\
  p_log s = [(3, [3]%N, [3]%N); (1, [1; 1; 1]%N, [1; 1; 1]%N); (2, [2; 2]%N, [2; 2]%N)] /\ p_live s = [].
Proof. vm_compute. repeat split. Qed.

(* the VARIANT that gives the pack state back BEFORE the transport write (the write happens after
   TryPack has returned): while 1's write is parked, 2 is handed the same state and packs over 1's
   reply; 1's transport takes 2's bytes.  The code cannot take that step (state 0 is borrowed). *)
Definition pack_leak_schedule : list pact :=
  [PPack 1 0 [1; 1; 1]%N; PWriteBegin 1; PPack 2 0 [2; 2]%N; PCopy 1].
Lemma early_release_leaks :
  p_log (psteps_early p_init pack_leak_schedule) = [(1, [2; 2]%N, [1; 1; 1]%N)] /\
  p_log (psteps p_init pack_leak_schedule) = [(1, [1; 1; 1]%N, [1; 1; 1]%N)].
Proof. vm_compute. split; reflexivity. Qed.
