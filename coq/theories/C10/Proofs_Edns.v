(* C10 — the edns writer wrapper of a job slab across requests (wave 3). *)
From Coq Require Import String Ascii.
From Sdns Require Import Common.Base Common.GoList Gen.C10 C10.Model C10.ModelShare C10.ModelEdns.
Open Scope nat_scope.

Fixpoint sbytes (s : string) : list N :=
  match s with EmptyString => [] | String a r => N_of_ascii a :: sbytes r end.

(* ------------------------------------------------------------------ ties to middleware/edns/edns.go *)
(* the struct's per-request fields are exactly the model's, in order: a field added to
   edns.ResponseWriter breaks this lemma (and must then be given a place in eslot / e_bind /
   e_release) *)
Definition eslot_fields : list string :=
  ["opt"; "size"; "do"; "cookie"; "nsid"; "noedns"; "noad"; "respUDPSize"; "cookieRaw"; "hasCookieRaw"; "keepalive"; "pooled"]%string.
Lemma edns_fields_tie : edns_writer_fields = map sbytes eslot_fields.
Proof. reflexivity. Qed.

(* serveWire's entry assigns (`rw.X = …`, in source order; cookieRaw is filled by copy next to
   hasCookieRaw): what e_bind writes, and nothing else *)
Lemma edns_entry_tie :
  edns_entry_assigns = map sbytes ["pooled"; "ResponseWriter"; "EDNS"; "size"; "do"; "noedns"; "nsid"; "keepalive";
                                   "respUDPSize"; "hasCookieRaw"; "noad"]%string.
Proof. reflexivity. Qed.

(* serveWire's deferred exit wipes the WHOLE wrapper, pooled or job-owned (source text) *)
Definition exit_block_text : list N := [9; 9; 99; 104; 46; 87; 114; 105; 116; 101; 114; 32; 61; 32; 119; 10; 9; 9; 112; 111; 111; 108; 101; 100; 32; 58; 61; 32; 114; 119; 46; 112; 111; 111; 108; 101; 100; 10; 9; 9; 42; 114; 119; 32; 61; 32; 82; 101; 115; 112; 111; 110; 115; 101; 87; 114; 105; 116; 101; 114; 123; 125; 10; 9; 9; 105; 102; 32; 112; 111; 111; 108; 101; 100; 32; 123; 10; 9; 9; 9; 114; 101; 115; 112; 111; 110; 115; 101; 87; 114; 105; 116; 101; 114; 80; 111; 111; 108; 46; 80; 117; 116; 40; 114; 119; 41; 10; 9; 9; 125]%N.
Lemma edns_exit_tie : edns_exit_block = [exit_block_text].
Proof. reflexivity. Qed.

Lemma edns_sizes : edns_min_msg_size = 512%N /\ edns_default_msg_size = 1232%N /\ edns_max_msg_size = 65535%N.
Proof. repeat split. Qed.

(* middleware.responseWriter.Written, TRANSLATED: "written" is exactly "size differs from the
   value Reset assigns" *)
Lemma gen_responseWriter_Written w :
  go_responseWriter_Written w = negb (T_responseWriter_size w =? writer_unwritten_size)%Z.
Proof. reflexivity. Qed.

(* ------------------------------------------------------------------ rebinding *)
Lemma e_reply_own q p o : snd (e_reply (e_bind eslot_zero q) p) = Some o -> o = own_facts q.
Proof.
  destruct q as [qopt qdo qck qnsid qka qcd qad qtcp qsz]. unfold own_facts, e_bind, e_reply.
  cbn [q_opt q_do q_cookie q_nsid q_keepalive q_cd q_ad q_tcp q_udpsize].
  remember (8 <=? length qck) as has eqn:Eh. clear Eh.
  destruct p, qopt, has; cbn; intros H; inversion H; reflexivity.
Qed.

Lemma e_reply_zero_after s p : e_release (fst (e_reply s p)) = eslot_zero.
Proof. reflexivity. Qed.

Lemma e_serve_eq s qp :
  e_serve e_release s qp = (eslot_zero, (e_bind s (fst qp), snd (e_reply (e_bind s (fst qp)) (snd qp)))).
Proof. unfold e_serve. destruct (e_reply (e_bind s (fst qp)) (snd qp)). reflexivity. Qed.

(* every request through a job-owned slot, for every history of earlier requests (any clients,
   any paths): the slot the handlers see is the one a brand-new slot would show for this request,
   the reply's client-derived OPT facts are this request's own, and the slot is left zero *)
Theorem edns_rebinding_lemma : forall l,
  fst (e_run e_release eslot_zero l) = map (fun qp => (e_bind eslot_zero (fst qp), snd (e_reply (e_bind eslot_zero (fst qp)) (snd qp)))) l /\
  snd (e_run e_release eslot_zero l) = eslot_zero.
Proof.
  induction l as [|qp r [IH1 IH2]]; [split; reflexivity|].
  cbn [e_run]. rewrite e_serve_eq.
  destruct (e_run e_release eslot_zero r) as [vs s3]. cbn [fst snd map] in *. subst. split; reflexivity.
Qed.

Theorem edns_own_facts_lemma : forall l i q p s1 o,
  nth_error l i = Some (q, p) ->
  nth_error (fst (e_run e_release eslot_zero l)) i = Some (s1, Some o) ->
  s1 = e_bind eslot_zero q /\ o = own_facts q.
Proof.
  intros l i q p s1 o Hq Hv. rewrite (proj1 (edns_rebinding_lemma l)) in Hv.
  rewrite nth_error_map, Hq in Hv. cbn [option_map fst snd] in Hv.
  injection Hv as H1 H2. split; [symmetry; exact H1|]. apply (e_reply_own q p). exact H2.
Qed.

(* the exit that only drops the references (a job-owned slot "is rebound field by field on
   entry"): the cookie is bound on entry only when the request has one, so client 2, which sent
   an OPT without COOKIE, is answered with client 1's cookie bytes *)
Lemma keeping_facts_leaks :
  let c1 := [193; 12; 0; 75; 30; 165; 0; 91]%N in
  let q1 := mkEreq true false c1 false false false false false 1232 in
  let q2 := mkEreq true false [] false false false false false 1232 in
  map snd (fst (e_run e_release_keeps eslot_zero [(q1, PWire); (q2, PWire)]))
  = [Some (mkEobs true false c1 false false); Some (mkEobs true false c1 false false)]
  /\ own_facts q2 = mkEobs true false [] false false.
Proof. vm_compute. split; reflexivity. Qed.

(* ------------------------------------------------------------------ more translated methods (wave 3) *)
(* tcpStream.framePrefixBuffered: conn_loop's "about to block" test is `buffered < frame_prefix_len` *)
Lemma gen_framePrefixBuffered s :
  go_tcpStream_framePrefixBuffered s = (Z.of_N frame_prefix_len <=? T_tcpStream_end s - T_tcpStream_start s)%Z.
Proof. reflexivity. Qed.

(* ------------------------------------------------------------------ the base writer: every field is rebound (wave 3) *)
Definition str_eqb (a b : list N) : bool := (length a =? length b)%nat && forallb (fun p => (fst p =? snd p)%N) (combine a b).
(* every field of middleware.responseWriter (source: the struct) is assigned by Reset (source: the
   `w.X = …` statements of Reset); the embedded Transport is assigned as `w.Transport` *)
Lemma base_writer_reset_covers :
  forallb (fun f => existsb (str_eqb f) base_writer_reset_assigns) base_writer_fields = true /\
  base_writer_fields = map sbytes ["msg"; "wire"; "size"; "rcode"; "proto"; "remoteip"; "internal"; "directPack"]%string /\
  existsb (str_eqb (sbytes "Transport")) base_writer_reset_assigns = true.
Proof. repeat split. Qed.
Lemma writer_reset_forgets w w' t tcp ip : wf_reset w t tcp ip = wf_reset w' t tcp ip.
Proof. reflexivity. Qed.

(* udpTXBurst.full: the model's burst_full compares the burst's length with udp_tx_max *)
Lemma gen_udpTXBurst_full b : go_udpTXBurst_full b = (T_udpTXBurst_n b =? Z.of_N udp_tx_max)%Z.
Proof. reflexivity. Qed.
(* udpJob.LeaseWire: an empty slice at offset udp_lease_start of the slab's own TX buffer, whatever
   the slab held before; a capacity beyond the buffer gets nil *)
Lemma gen_udpJob_LeaseWire j cap :
  go_udpJob_LeaseWire j cap = [] /\
  ((cap <= Z.of_N udp_buf_size)%Z -> go_udpJob_LeaseWire j cap = go_slice_to (T_udpJob_tx j) (Z.of_N udp_lease_start)).
Proof.
  unfold go_udpJob_LeaseWire. split.
  - destruct (4096 <? cap)%Z; reflexivity.
  - intros H. destruct (4096 <? cap)%Z eqn:E; [apply Z.ltb_lt in E; unfold udp_buf_size in H; lia|reflexivity].
Qed.

(* doq.releaseMsg clears every header field and section of a pooled request message (source text) *)
Lemma doq_release_tie :
  doq_release_assigns = map sbytes ["Id"; "Response"; "Opcode"; "Authoritative"; "Truncated"; "RecursionDesired";
    "RecursionAvailable"; "Zero"; "AuthenticatedData"; "CheckingDisabled"; "Rcode"; "Question"; "Answer"; "Ns"; "Extra"]%string.
Proof. reflexivity. Qed.
