(* C10 — job-owned and pooled chains under every interleaving of concurrent requests. *)
From Sdns Require Import Common.Base Gen.C10 C10.Model C10.ModelShare C10.ModelChains C10.Proofs_UdpBase.
Open Scope nat_scope.

Record kinv (s : kst) : Prop := mkKinv {
  ki_len : k_n s <= length (k_chains s);
  (* the key fact: the chain a request runs on is bound to THAT request's transport *)
  ki_bound : forall r c, In (r, c) (k_busy s) -> exists w, nth_error (k_chains s) c = Some w /\ w_tr w = tr_of r;
  ki_chains : NoDup (map snd (k_busy s));          (* no chain has two users *)
  ki_reqs : NoDup (map fst (k_busy s));
  ki_pool : forall c, In c (k_pool s) -> k_n s <= c < length (k_chains s) /\ ~ In c (map snd (k_busy s));
  ki_pool_nd : NoDup (k_pool s);
  ki_owned : forall r c, In (r, c) (k_busy s) -> c < k_n s -> In (r, c) (k_wire s);
  ki_wire : forall r j, In (r, j) (k_wire s) -> In (r, j) (k_busy s);
  ki_log : forall r t b, In (r, t, b) (k_log s) -> t = tr_of r
}.

Lemma rm_req_In r p l : In p (rm_req r l) <-> In p l /\ fst p <> r.
Proof.
  unfold rm_req. rewrite filter_In. split; intros [H1 H2]; split; auto.
  - intros E. rewrite E, Nat.eqb_refl in H2. discriminate.
  - apply Bool.negb_true_iff. apply Nat.eqb_neq. auto.
Qed.

Lemma chain_of_In r c l : chain_of r l = Some c -> In (r, c) l.
Proof.
  unfold chain_of. destruct (find _ l) as [p|] eqn:E; [|discriminate]. intros H. inversion H; subst.
  apply find_some in E as [Hin Hb]. apply Nat.eqb_eq in Hb. destruct p; cbn in *; subst. auto.
Qed.

Lemma in_map_snd {A B} (l : list (A * B)) a b : In (a, b) l -> In b (map snd l).
Proof. intros H. apply in_map_iff. exists (a, b). auto. Qed.
Lemma in_map_fst {A B} (l : list (A * B)) a b : In (a, b) l -> In a (map fst l).
Proof. intros H. apply in_map_iff. exists (a, b). auto. Qed.

Lemma nodup_snd_inj (l : list (nat * nat)) r r' c :
  NoDup (map snd l) -> In (r, c) l -> In (r', c) l -> r = r'.
Proof.
  induction l as [|[a b] t IH]; cbn; intros Hnd H1 H2; [tauto|].
  inversion Hnd as [|? ? Hn Ht]; subst.
  destruct H1 as [E1|H1]; destruct H2 as [E2|H2].
  - congruence.
  - inversion E1; subst. exfalso. apply Hn. eapply in_map_snd; eauto.
  - inversion E2; subst. exfalso. apply Hn. eapply in_map_snd; eauto.
  - auto.
Qed.

Lemma kinv_init n : kinv (k_init n).
Proof.
  constructor; cbn; try (intros; tauto); try constructor.
  rewrite repeat_length. lia.
Qed.

Lemma w_reset_tr w t : w_tr (fst (w_step w (WReset t))) = t.
Proof. reflexivity. Qed.
Lemma w_write_tr w bs : w_tr (fst (w_step w (WWrite bs))) = w_tr w.
Proof. cbn. destruct (w_written w); reflexivity. Qed.

(* rebinding chain c, which no request in flight is using *)
Lemma bound_after_reset s c r :
  kinv s -> c < length (k_chains s) -> ~ In c (map snd (k_busy s)) ->
  forall r' c', In (r', c') ((r, c) :: k_busy s) ->
    exists w, nth_error (reset_chain (k_chains s) c r) c' = Some w /\ w_tr w = tr_of r'.
Proof.
  intros Hi Hlt Hfree r' c' Hin. unfold reset_chain.
  destruct (nth_error (k_chains s) c) as [w0|] eqn:E0.
  2:{ apply nth_error_None in E0. lia. }
  destruct Hin as [E|Hin].
  - inversion E; subst. rewrite nth_upd_same by auto. eexists. split; eauto.
  - assert (c' <> c) by (intros ->; apply Hfree; eapply in_map_snd; eauto).
    rewrite nth_upd_other by auto. eapply (ki_bound _ Hi); eauto.
Qed.

Lemma reset_chain_length chains c r : length (reset_chain chains c r) = length chains.
Proof. unfold reset_chain. destruct (nth_error chains c); auto. apply upd_length. Qed.

Lemma kinv_step s a s' : kinv s -> kstep s a = Some s' -> kinv s'.
Proof.
  intros Hi. destruct a as [r j|r c|r bs|r|r]; cbn [kstep].
  - (* KBeginWire *)
    destruct (j <? k_n s) eqn:Ej; cbn [andb]; [|discriminate].
    destruct (mem_nat j (map snd (k_wire s))) eqn:Ew; cbn [negb andb]; [discriminate|].
    destruct (mem_nat r (map fst (k_busy s))) eqn:Er; cbn [negb]; [discriminate|].
    intros H. inversion H; subst; clear H.
    apply Nat.ltb_lt in Ej.
    assert (Hw : ~ In j (map snd (k_wire s))) by (intros X; apply mem_nat_In in X; congruence).
    assert (Hr : ~ In r (map fst (k_busy s))) by (intros X; apply mem_nat_In in X; congruence).
    assert (Hfree : ~ In j (map snd (k_busy s))).
    { intros X. apply in_map_iff in X as ([r' c'] & E & Hin). cbn in E. subst c'.
      apply Hw. eapply in_map_snd. eapply (ki_owned _ Hi); eauto. }
    pose proof (ki_len _ Hi) as Hlen.
    constructor; cbn [k_n k_chains k_pool k_busy k_wire k_log].
    + rewrite reset_chain_length. auto.
    + apply bound_after_reset; auto. lia.
    + cbn. constructor; auto. apply (ki_chains _ Hi).
    + cbn. constructor; auto. apply (ki_reqs _ Hi).
    + intros c Hc. destruct (ki_pool _ Hi c Hc) as (Hb & Hn). rewrite reset_chain_length. split; auto.
      cbn. intros [E|X]; [lia|auto].
    + apply (ki_pool_nd _ Hi).
    + intros r' c' [E|Hin] Hlt; [inversion E; subst; left; auto|]. right. eapply (ki_owned _ Hi); eauto.
    + intros r' j' [E|Hin]; [inversion E; subst; left; auto|]. right. eapply (ki_wire _ Hi); eauto.
    + apply (ki_log _ Hi).
  - (* KBeginPool *)
    destruct (mem_nat r (map fst (k_busy s))) eqn:Er; [discriminate|].
    assert (Hr : ~ In r (map fst (k_busy s))) by (intros X; apply mem_nat_In in X; congruence).
    destruct (mem_nat c (k_pool s)) eqn:Ec.
    + intros H. inversion H; subst; clear H. apply mem_nat_In in Ec.
      destruct (ki_pool _ Hi c Ec) as ((Hge & Hlt) & Hfree).
      constructor; cbn [k_n k_chains k_pool k_busy k_wire k_log].
      * rewrite reset_chain_length. apply (ki_len _ Hi).
      * apply bound_after_reset; auto.
      * cbn. constructor; auto. apply (ki_chains _ Hi).
      * cbn. constructor; auto. apply (ki_reqs _ Hi).
      * intros c' Hc'. apply rem_nat_In in Hc' as (Hc' & Hne).
        destruct (ki_pool _ Hi c' Hc') as (Hb & Hn). rewrite reset_chain_length. split; auto.
        cbn. intros [E|X]; auto.
      * unfold rem_nat. apply NoDup_filter. apply (ki_pool_nd _ Hi).
      * intros r' c' [E|Hin] Hl; [inversion E; subst; lia|]. eapply (ki_owned _ Hi); eauto.
      * intros r' j' Hin. right. eapply (ki_wire _ Hi); eauto.
      * apply (ki_log _ Hi).
    + destruct (Nat.eqb c (length (k_chains s))) eqn:En; [|discriminate].
      apply Nat.eqb_eq in En. subst c.
      intros H. inversion H; subst; clear H.
      assert (Hfree : ~ In (length (k_chains s)) (map snd (k_busy s))).
      { intros X. apply in_map_iff in X as ([r' c'] & E & Hin). cbn in E. subst c'.
        destruct (ki_bound _ Hi _ _ Hin) as (w & Hw & _). apply nth_error_lt in Hw. lia. }
      constructor; cbn [k_n k_chains k_pool k_busy k_wire k_log].
      * rewrite app_length. pose proof (ki_len _ Hi). lia.
      * intros r' c' [E|Hin].
        -- inversion E; subst. rewrite nth_app_fresh. eexists. split; eauto.
        -- destruct (ki_bound _ Hi _ _ Hin) as (w & Hw & Ht). exists w. split; auto.
           rewrite nth_app_old; auto. eapply nth_error_lt; eauto.
      * cbn. constructor; auto. apply (ki_chains _ Hi).
      * cbn. constructor; auto. apply (ki_reqs _ Hi).
      * intros c' Hc'. destruct (ki_pool _ Hi c' Hc') as (Hb & Hn). rewrite app_length. cbn [length]. split; [lia|].
        cbn. intros [E|X]; [lia|auto].
      * apply (ki_pool_nd _ Hi).
      * intros r' c' [E|Hin] Hl; [inversion E; subst; pose proof (ki_len _ Hi); lia|]. eapply (ki_owned _ Hi); eauto.
      * intros r' j' Hin. right. eapply (ki_wire _ Hi); eauto.
      * apply (ki_log _ Hi).
  - (* KWrite *)
    destruct (chain_of r (k_busy s)) as [c|] eqn:Ec; [|discriminate].
    apply chain_of_In in Ec.
    destruct (nth_error (k_chains s) c) as [w|] eqn:Ew; [|discriminate].
    destruct (w_step w (WWrite bs)) as [w1 e] eqn:Es.
    intros H. inversion H; subst; clear H.
    assert (Hlt : c < length (k_chains s)) by (eapply nth_error_lt; eauto).
    assert (Ht1 : w_tr w1 = w_tr w).
    { pose proof (w_write_tr w bs) as X. rewrite Es in X. exact X. }
    destruct (ki_bound _ Hi _ _ Ec) as (w' & Hw' & Htr). rewrite Ew in Hw'. inversion Hw'; subst w'.
    constructor; cbn [k_n k_chains k_pool k_busy k_wire k_log].
    + rewrite upd_length. apply (ki_len _ Hi).
    + intros r' c' Hin. destruct (Nat.eq_dec c' c) as [->|Hne].
      * rewrite nth_upd_same by auto. exists w1. split; auto. rewrite Ht1.
        destruct (ki_bound _ Hi _ _ Hin) as (w2 & Hw2 & Ht2). rewrite Ew in Hw2. inversion Hw2; subst. auto.
      * rewrite nth_upd_other by auto. eapply (ki_bound _ Hi); eauto.
    + apply (ki_chains _ Hi).
    + apply (ki_reqs _ Hi).
    + intros c' Hc'. rewrite upd_length. apply (ki_pool _ Hi); auto.
    + apply (ki_pool_nd _ Hi).
    + apply (ki_owned _ Hi).
    + apply (ki_wire _ Hi).
    + intros r' t b Hin. destruct e as [[t0 b0]|].
      * destruct Hin as [E|Hin]; [|eapply (ki_log _ Hi); eauto].
        inversion E; subst.
        (* the emission goes to the transport the writer is bound to *)
        cbn in Es. destruct (w_written w); inversion Es; subst. auto.
      * eapply (ki_log _ Hi); eauto.
  - (* KEndWire *)
    destruct (mem_nat r (map fst (k_wire s))) eqn:Ew; [|discriminate].
    intros H. inversion H; subst; clear H.
    constructor; cbn [k_n k_chains k_pool k_busy k_wire k_log].
    + apply (ki_len _ Hi).
    + intros r' c' Hin. apply rm_req_In in Hin as (Hin & _). eapply (ki_bound _ Hi); eauto.
    + unfold rm_req. apply NoDup_map_filter. apply (ki_chains _ Hi).
    + unfold rm_req. apply NoDup_map_filter. apply (ki_reqs _ Hi).
    + intros c' Hc'. destruct (ki_pool _ Hi c' Hc') as (Hb & Hn). split; auto.
      intros X. apply Hn. apply in_map_iff in X as (p & E & Hin). apply rm_req_In in Hin as (Hin & _).
      apply in_map_iff. exists p. auto.
    + apply (ki_pool_nd _ Hi).
    + intros r' c' Hin Hl. apply rm_req_In in Hin as (Hin & Hne). apply rm_req_In. split; auto.
      eapply (ki_owned _ Hi); eauto.
    + intros r' j' Hin. apply rm_req_In in Hin as (Hin & Hne). apply rm_req_In. split; auto.
      eapply (ki_wire _ Hi); eauto.
    + apply (ki_log _ Hi).
  - (* KEndPool *)
    destruct (chain_of r (k_busy s)) as [c|] eqn:Ec; [|discriminate].
    apply chain_of_In in Ec.
    destruct (mem_nat r (map fst (k_wire s))) eqn:Ew; [discriminate|].
    assert (Hnw : ~ In r (map fst (k_wire s))) by (intros X; apply mem_nat_In in X; congruence).
    intros H. inversion H; subst; clear H.
    assert (Hge : k_n s <= c).
    { destruct (Nat.le_gt_cases (k_n s) c); auto. exfalso. apply Hnw. eapply in_map_fst. eapply (ki_owned _ Hi); eauto. }
    assert (Hgone : ~ In c (map snd (rm_req r (k_busy s)))).
    { intros X. apply in_map_iff in X as ([r' c'] & E & Hin). cbn in E. subst c'.
      apply rm_req_In in Hin as (Hin & Hne). cbn in Hne.
      apply Hne. symmetry. eapply nodup_snd_inj; eauto. apply (ki_chains _ Hi). }
    constructor; cbn [k_n k_chains k_pool k_busy k_wire k_log].
    + apply (ki_len _ Hi).
    + intros r' c' Hin. apply rm_req_In in Hin as (Hin & _). eapply (ki_bound _ Hi); eauto.
    + unfold rm_req. apply NoDup_map_filter. apply (ki_chains _ Hi).
    + unfold rm_req. apply NoDup_map_filter. apply (ki_reqs _ Hi).
    + intros c' [<-|Hc'].
      * split; auto. split; auto. destruct (ki_bound _ Hi _ _ Ec) as (w & Hw & _). eapply nth_error_lt; eauto.
      * destruct (ki_pool _ Hi c' Hc') as (Hb & Hn). split; auto.
        intros X. apply Hn. apply in_map_iff in X as (p & E & Hin). apply rm_req_In in Hin as (Hin & _).
        apply in_map_iff. exists p. auto.
    + constructor; [|apply (ki_pool_nd _ Hi)].
      intros X. destruct (ki_pool _ Hi c X) as (_ & Hn). apply Hn. eapply in_map_snd; eauto.
    + intros r' c' Hin Hl. apply rm_req_In in Hin as (Hin & Hne). eapply (ki_owned _ Hi); eauto.
    + intros r' j' Hin. apply rm_req_In. split; [eapply (ki_wire _ Hi); eauto|].
      cbn. intros ->. apply Hnw. eapply in_map_fst; eauto.
    + apply (ki_log _ Hi).
Qed.

Lemma kstep_n s a s' : kstep s a = Some s' -> k_n s' = k_n s.
Proof.
  destruct a as [r j|r c|r bs|r|r]; cbn [kstep]; intros E.
  - destruct (_ && _ && _); inversion E; reflexivity.
  - destruct (mem_nat r _); [discriminate|]. destruct (mem_nat c _); [inversion E; reflexivity|].
    destruct (Nat.eqb _ _); inversion E; reflexivity.
  - destruct (chain_of _ _); [|discriminate]. destruct (nth_error _ _); [|discriminate].
    destruct (w_step _ _). inversion E; reflexivity.
  - destruct (mem_nat _ _); inversion E; reflexivity.
  - destruct (chain_of _ _); [|discriminate]. destruct (mem_nat _ _); inversion E; reflexivity.
Qed.

Lemma kinv_steps : forall l s, kinv s -> kinv (ksteps s l).
Proof.
  induction l as [|a r IH]; intros s Hi; cbn; auto.
  destruct (kstep s a) as [s1|] eqn:E; auto. apply IH. eapply kinv_step; eauto.
Qed.

(* every interleaving of wire-born requests (job-owned chains, closed with Finish) and pooled
   requests (NewChain / PutChain), any number of slabs: a reply written by request r reaches the
   transport of r; no chain is ever used by two requests at once; a job-owned chain is never in
   the pool *)
Theorem chains_lemma n l :
  let s := ksteps (k_init n) l in
  (forall r t b, In (r, t, b) (k_log s) -> t = tr_of r) /\
  NoDup (map snd (k_busy s)) /\
  (forall c, In c (k_pool s) -> n <= c /\ ~ In c (map snd (k_busy s))).
Proof.
  intros s. pose proof (kinv_steps l _ (kinv_init n)) as Hi. fold s in Hi.
  assert (En : k_n s = n).
  { subst s. assert (G : forall l s0, k_n s0 = n -> k_n (ksteps s0 l) = n).
    { clear. induction l as [|a r IH]; intros s0 E0; cbn [ksteps]; auto.
      destruct (kstep s0 a) as [s1|] eqn:E; auto. apply IH. pose proof (kstep_n _ _ _ E). congruence. }
    apply G. reflexivity. }
  split; [apply (ki_log _ Hi)|]. split; [apply (ki_chains _ Hi)|].
  intros c Hc. destruct (ki_pool _ Hi c Hc) as ((Hge & _) & Hn). rewrite En in Hge. auto.
Qed.

(* closing a wire-born serve with PutChain instead (the chain of slab 0 lands in the pool while
   the slab keeps it): a pooled request (2) takes it, the slab's next client (3) rebinds it, and
   request 2's reply goes to client 3 *)
Lemma put_owned_leaks :
  k_log (ksteps_put_owned (k_init 1)
           [KBeginWire 1 0; KEndWire 1; KBeginPool 2 0; KBeginWire 3 0; KWrite 2 [7%N]]) = [(2, 3%N, [7%N])].
Proof. vm_compute. reflexivity. Qed.

(* the discipline the model's KEndWire encodes is the source's: every strict-path serve in
   server/strict.go closes its job-owned chain with a deferred Finish() (never PutChain) *)
Definition finish_name : list N := [70; 105; 110; 105; 115; 104]%N.   (* "Finish" *)
Lemma wire_serves_close_with_finish :
  wire_close_inline = [finish_name] /\ wire_close_replay = [finish_name] /\ wire_close_servewire = [finish_name].
Proof. repeat split. Qed.
