(* C10 — pooled writer WRAPPERS under overlapping requests (middleware/edns/edns.go:
   responseWriterPool in ServeDNS / serveWire; middleware/cache/cache.go: Cache.writerPool in
   ServeDNS; every middleware of the same shape).  Executable definitions only.

   A middleware that shapes the reply takes a wrapper object from ITS pool on the way in, binds it
   to the request (rw.ResponseWriter = ch.Writer; rw.<facts> = this request's; ch.Writer = rw),
   runs the rest of the chain, and on the way out — in a defer, so also when a handler panics —
   restores ch.Writer, zeroes the wrapper and puts it back:

       rw := pool.Get();  rw.ResponseWriter = w;  rw.opt, rw.do, rw.cookie, ... = this request's
       ch.Writer = rw
       defer func() { ch.Writer = w; *rw = ResponseWriter{}; pool.Put(rw) }()
       ch.Next(ctx)

   A reply written by the innermost handler walks DOWN the wrappers (each one shapes it with the
   facts it holds and hands it to its inner writer) to the chain's base writer and its transport.
   Requests of different clients overlap (a miss parks a goroutine inside the chain), so the model
   is an interleaving of per-request steps.  A request has its own base writer (that chains and
   base writers are not shared is ModelChains); wrappers are shared through the pools.

   sync.Pool: Get hands out any object of that pool Put earlier and not handed out since, or a new
   one; which one is an input of the step (the driver observes it). *)
From Sdns Require Export Common.Base Gen.C10 C10.Model.
Open Scope nat_scope.

Inductive wref := RBase (r : nat) | RWrap (k : nat).

Record wrapper := mkWrapper {
  wr_level : nat;                 (* which middleware's pool it belongs to (its Go type) *)
  wr_inner : option wref;         (* the embedded ResponseWriter; None = nil *)
  wr_facts : option nat           (* whose request facts it holds; None = the zero value *)
}.

Record xreq := mkXreq {
  x_r : nat;                      (* the request; its transport / base writer is RBase r *)
  x_top : wref;                   (* ch.Writer *)
  x_stack : list (nat * wref)     (* the pending deferred restores, most recent first: (wrapper, the writer it saved) *)
}.

Record xst := mkXst {
  x_wrappers : list wrapper;      (* every wrapper ever made; index = identity *)
  x_pool : list nat;              (* all pools together: a wrapper's level says which pool it lies in *)
  x_live : list xreq;
  x_log : list (nat * option (nat * list (option nat)))
                                  (* GHOST, newest first: request r's write reached the base writer of request
                                     r' after passing wrappers that showed these facts; None = hit a nil writer *)
}.
Definition x_init : xst := mkXst [] [] [] [].

Inductive xact :=
| XBegin (r : nat)                (* Chain.Reset: ch.Writer = the chain's base writer *)
| XWrap (r k lvl : nat)           (* a middleware of level lvl wraps: pool.Get hands out k *)
| XWrite (r : nat)                (* the innermost handler writes through ch.Writer *)
| XUnwrap (r : nat)               (* the most recent wrap's deferred exit *)
| XEnd (r : nat).                 (* the chain returned to its caller *)

Definition xfind (r : nat) (l : list xreq) : option xreq := find (fun x => Nat.eqb (x_r x) r) l.
Definition xset (x : xreq) (l : list xreq) : list xreq :=
  map (fun y => if Nat.eqb (x_r y) (x_r x) then x else y) l.
Definition xrm (r : nat) (l : list xreq) : list xreq := filter (fun x => negb (Nat.eqb (x_r x) r)) l.

(* taking ONE reference out of a pool (a pool that was handed an object twice holds it twice) *)
Fixpoint rem_one (x : nat) (l : list nat) : list nat :=
  match l with
  | [] => []
  | y :: t => if Nat.eqb y x then t else y :: rem_one x t
  end.

(* pool.Get at level lvl *)
Definition wrap_get (ws : list wrapper) (pool : list nat) (k lvl : nat) : option (list wrapper * list nat) :=
  if mem_nat k pool
  then match nth_error ws k with
       | Some w => if Nat.eqb (wr_level w) lvl then Some (ws, rem_one k pool) else None
       | None => None
       end
  else if Nat.eqb k (length ws) then Some (ws ++ [mkWrapper lvl None None], pool)
  else None.

(* a write entering at writer t: down the embedded writers to a base writer *)
Fixpoint walk (ws : list wrapper) (fuel : nat) (t : wref) (seen : list (option nat)) {struct fuel}
  : option (nat * list (option nat)) :=
  match t with
  | RBase r => Some (r, seen)
  | RWrap k =>
      match fuel with
      | O => None
      | S f => match nth_error ws k with
               | Some w => match wr_inner w with
                           | Some t' => walk ws f t' (seen ++ [wr_facts w])
                           | None => None
                           end
               | None => None
               end
      end
  end.

(* [puts]: how often the exit path puts the wrapper back (the code: once) *)
Definition xstep_gen (puts : nat) (s : xst) (a : xact) : option xst :=
  match a with
  | XBegin r =>
      match xfind r (x_live s) with
      | Some _ => None
      | None => Some (mkXst (x_wrappers s) (x_pool s) (mkXreq r (RBase r) [] :: x_live s) (x_log s))
      end
  | XWrap r k lvl =>
      match xfind r (x_live s), wrap_get (x_wrappers s) (x_pool s) k lvl with
      | Some x, Some (ws, pool) =>
          Some (mkXst (upd ws k (mkWrapper lvl (Some (x_top x)) (Some r))) pool
                      (xset (mkXreq r (RWrap k) ((k, x_top x) :: x_stack x)) (x_live s)) (x_log s))
      | _, _ => None
      end
  | XWrite r =>
      match xfind r (x_live s) with
      | Some x => Some (mkXst (x_wrappers s) (x_pool s) (x_live s)
                              ((r, walk (x_wrappers s) (S (length (x_wrappers s))) (x_top x) []) :: x_log s))
      | None => None
      end
  | XUnwrap r =>
      match xfind r (x_live s) with
      | Some x =>
          match x_stack x with
          | (k, w) :: rest =>
              match nth_error (x_wrappers s) k with
              | Some old =>
                  (* ch.Writer = w; *rw = ResponseWriter{}; pool.Put(rw) *)
                  Some (mkXst (upd (x_wrappers s) k (mkWrapper (wr_level old) None None)) (repeat k puts ++ x_pool s)
                              (xset (mkXreq r w rest) (x_live s)) (x_log s))
              | None => None
              end
          | [] => None
          end
      | None => None
      end
  | XEnd r =>
      match xfind r (x_live s) with
      | Some x => match x_stack x with
                  | [] => Some (mkXst (x_wrappers s) (x_pool s) (xrm r (x_live s)) (x_log s))
                  | _ => None
                  end
      | None => None
      end
  end.

(* the code: one Put per exit *)
Definition xstep := xstep_gen 1.
Fixpoint xsteps (s : xst) (l : list xact) : xst :=
  match l with
  | [] => s
  | a :: r => match xstep s a with Some s1 => xsteps s1 r | None => xsteps s r end
  end.
Fixpoint xsteps_strict (s : xst) (l : list xact) : option xst :=
  match l with
  | [] => Some s
  | a :: r => match xstep s a with Some s1 => xsteps_strict s1 r | None => None end
  end.

(* the VARIANT the property forbids (not the code): an exit path that puts the wrapper back twice
   (an early release next to the deferred one) *)
Definition xstep_twice := xstep_gen 2.
Fixpoint xsteps_twice (s : xst) (l : list xact) : xst :=
  match l with
  | [] => s
  | a :: r => match xstep_twice s a with Some s1 => xsteps_twice s1 r | None => xsteps_twice s r end
  end.

(* the driver's coarse operations: a request arrives at the last handler having been wrapped by
   the middlewares in front of it (wrapper, level) outermost first; it is answered; the chain unwinds *)
Inductive xop := OXBegin (r : nat) (wraps : list (nat * nat)) | OXWrite (r : nat) | OXEnd (r depth : nat).
Definition xplan (o : xop) : list xact :=
  match o with
  | OXBegin r wraps => XBegin r :: map (fun p => XWrap r (fst p) (snd p)) wraps
  | OXWrite r => [XWrite r]
  | OXEnd r depth => repeat (XUnwrap r) depth ++ [XEnd r]
  end.
