(* C10 — UDP engine proofs, part 4: the handler's operations on the job it is serving. *)
From Sdns Require Import Common.Base Gen.C10 C10.Model C10.Proofs_UdpBase C10.Proofs_UdpMove
  C10.Proofs_UdpTags C10.Proofs_UdpStep.
Open Scope nat_scope.
Arguments burst_of : simpl never.
Arguments udp_tx_max : simpl never.
Arguments copy_into : simpl never.
Arguments tag : simpl never.
Arguments tx_get : simpl never.
Arguments write_at : simpl never.

(* a slab that stays with the goroutine serving it: only its fields and the log change *)
Lemma inv_serv_update c s own sid who j' evs :
  inv c s own -> nth_error own sid = Some (PServ who) ->
  (forall e, In e evs -> ev_sid e = sid) -> log_ok (evs ++ u_log s) ->
  local_ok c (evs ++ u_log s) sid (PServ who) j' ->
  inv c (set_log (put_slab s sid j') (evs ++ u_log s)) own.
Proof.
  intros Hinv Hp Hev Hlog Hloc.
  assert (Hlt : sid < length (u_slabs s)).
  { destruct (inv_slab _ _ _ _ _ Hinv Hp) as [j Hj]. eapply nth_error_lt; eauto. }
  assert (Hne : forall q, (forall w, q <> PServ w) -> nth_error own sid <> Some q).
  { intros q Hq. rewrite Hp. intros [= E]. eapply Hq; eauto. }
  eapply inv_move with (s := s) (sid := sid) (pn := PServ who) (evs := evs); eauto; cbn.
  - rewrite upd_length. apply (i_len _ _ _ Hinv).
  - apply nth_upd_same; auto.
  - intros x Hx. apply nth_upd_other; auto.
  - rewrite upd_length. lia.
  - intros x. rewrite (keep_idle c s own sid Hinv) at 1 by (apply Hne; discriminate).
    split; [auto | intros [H|[_ H]]; [auto|discriminate]].
  - apply (i_idle_nd _ _ _ Hinv).
  - intros r x. rewrite (keep_held c s own sid Hinv) at 1 by (intros r0; apply Hne; discriminate).
    split; [auto | intros [H|[_ H]]; [auto|discriminate]].
  - apply (i_held_nd _ _ _ Hinv).
  - intros x. rewrite (keep_ready c s own sid Hinv) at 1 by (apply Hne; discriminate).
    split; [auto | intros [H|[_ H]]; [auto|discriminate]].
  - apply (i_ready_nd _ _ _ Hinv).
  - intros x w. split.
    + intros H. destruct (Nat.eq_dec x sid) as [->|Hx]; [right|left; auto].
      split; auto. apply (i_serv _ _ _ Hinv) in H. congruence.
    + intros [[H _]|[-> [= <-]]]; auto. apply (i_serv _ _ _ Hinv). auto.
  - apply (i_serv_nd _ _ _ Hinv).
  - intros b x. rewrite (keep_burst c s own sid Hinv) at 1 by (intros b0; apply Hne; discriminate).
    split; [auto | intros [H|[_ H]]; [auto|discriminate]].
  - apply (i_burst_nd _ _ _ Hinv).
  - apply (i_bsize _ _ _ Hinv).
  - apply (i_wdef _ _ _ Hinv).
Qed.

(* the common part of local_ok for a slab being served whose identity fields do not change *)
Lemma serv_local_keep c log evs sid who j j' :
  local_ok c log sid (PServ who) j ->
  s_state j' = s_state j -> s_burst j' = s_burst j -> s_lease j' = s_lease j ->
  s_raddr j' = s_raddr j -> s_rx j' = s_rx j -> s_rawsa j' = s_rawsa j ->
  (forall e, In e evs -> ev_sid e = sid -> ev_lease e = s_lease j /\ match e with ERelease _ _ => False | _ => True end) ->
  (who = Overflow -> s_txlen j' = 0) ->
  (s_txlen j' <> 0 -> In (EWrite sid (s_lease j)) (evs ++ log)) ->
  tags_ok j' (Nat.max (s_txlen j') (s_leaselen j')) ->
  local_ok c (evs ++ log) sid (PServ who) j'.
Proof.
  intros [Hb (H1 & H2 & H3 & H4 & H5 & H6 & H7 & H8)] Es Eb El Ea Er Esa Hev Hov Hwr Htag.
  split.
  - intros e He Hs. apply in_app_iff in He as [He|He].
    + destruct (Hev e He Hs) as [-> _]. lia.
    + rewrite El. apply Hb; auto.
  - rewrite Es, Eb. repeat split; auto.
    + unfold live in *. rewrite El. intros Hin. apply in_app_iff in Hin as [Hin|Hin]; auto.
      destruct (Hev _ Hin eq_refl) as [_ []].
    + unfold filled in *. rewrite El, Ea, Er. apply in_app_iff. right. tauto.
    + rewrite Esa, Ea. apply H6.
    + unfold wrote. rewrite El. auto.
    + apply Htag.
    + apply Htag.
Qed.

Lemma tags_ok_le j n m : n <= m -> tags_ok j m -> tags_ok j n.
Proof. intros H [H1 H2]. split; [lia|]. eapply Forall_firstn_le; eauto. Qed.

(* ---- Write(b), copying path / direct send *)
Lemma handler_write_inv c s own sid f :
  (forall j, exists bs, f j = job_write j bs) ->
  inv c s own ->
  match handler_write c s sid f with
  | Ok s' => inv c s' own /\ u_burst s' = u_burst s /\ u_wdef s' = u_wdef s
  | Disabled => True
  | Panic => False
  end.
Proof.
  intros Hfw Hinv. unfold handler_write.
  destruct (get_slab s sid) as [j|] eqn:Hj; auto.
  destruct (serv_find sid (u_serv s)) as [who|] eqn:Hf; auto.
  apply serv_find_In in Hf. apply (i_serv _ _ _ Hinv) in Hf.
  pose proof (i_local _ _ _ Hinv sid _ j Hf Hj) as Hloc.
  pose proof Hloc as [Hb (H1 & H2 & H3 & H4 & H5 & H6 & H7 & H8 & H9)].
  destruct (Hfw j) as [bs ->].
  unfold job_write. destruct (N.ltb udp_buf_size (N.of_nat (length bs))) eqn:Ebig.
  - (* refused: only `written` changes *)
    split; [|split; reflexivity].
    apply (inv_serv_update c s own sid who _ [EWrite sid (s_lease j)]); auto.
    + intros e [<-|[]]; auto.
    + constructor; [apply (i_log _ _ _ Hinv) | exact I].
    + apply (serv_local_keep c (u_log s) [EWrite sid (s_lease j)] sid who j); auto.
      * intros e [<-|[]] _. cbn. auto.
      * intros _. left. auto.
      * split; auto.
  - destruct (s_burst j) as [b|] eqn:Eb.
    + (* staged *)
      split; [|split; reflexivity].
      apply (inv_serv_update c s own sid who _ [EWrite sid (s_lease j)]); auto.
      * intros e [<-|[]]; auto.
      * constructor; [apply (i_log _ _ _ Hinv) | exact I].
      * apply (serv_local_keep c (u_log s) [EWrite sid (s_lease j)] sid who j); auto.
        -- intros e [<-|[]] _. cbn. auto.
        -- intros ->. cbn in H2. congruence.
        -- intros _. left. auto.
        -- unfold tags_ok. cbn. split.
           ++ rewrite copy_into_length, tag_length. lia.
           ++ replace (length bs) with (length (tag (s_lease j) bs)) at 1 by apply tag_length.
              apply copy_into_tags; [|apply tag_tags].
              eapply Forall_firstn_le; [|exact H9]. lia.
    + (* burst == nil: sent at once *)
      split; [|split; reflexivity].
      apply (inv_serv_update c s own sid who _ [ESend sid (s_lease j) (s_raddr j) (tag (s_lease j) bs); EWrite sid (s_lease j)]); auto.
      * intros e [<-|[<-|[]]]; auto.
      * constructor; [constructor; [apply (i_log _ _ _ Hinv) | exact I]|].
        cbn. split; [apply tag_tags|]. split; [|split].
        -- destruct H6 as [H6 _]. eexists. right. eauto.
        -- left. auto.
        -- intros [E|Hin]; [discriminate|]. apply H5. auto.
      * apply (serv_local_keep c (u_log s) _ sid who j); auto.
        -- intros e [<-|[<-|[]]] _; cbn; auto.
        -- intros _. right. left. auto.
        -- split; auto.
Qed.

(* ---- WriteMsg(m): PackBuffer into the TX buffer (or an array of the library's) + Write(out) *)
Lemma handler_write_msg_inv c s own sid ulen bs :
  inv c s own ->
  match handler_write c s sid (fun j => job_write_msg j ulen bs) with
  | Ok s' => inv c s' own /\ u_burst s' = u_burst s /\ u_wdef s' = u_wdef s
  | Disabled => True
  | Panic => False
  end.
Proof.
  intros Hinv. destruct (pack_in_place ulen) eqn:Epl.
  2:{ apply handler_write_inv; auto. intros j. exists bs. unfold job_write_msg. rewrite Epl. reflexivity. }
  unfold handler_write.
  destruct (get_slab s sid) as [j|] eqn:Hj; auto.
  destruct (serv_find sid (u_serv s)) as [who|] eqn:Hf; auto.
  apply serv_find_In in Hf. apply (i_serv _ _ _ Hinv) in Hf.
  pose proof (i_local _ _ _ Hinv sid _ j Hf Hj) as Hloc.
  pose proof Hloc as [Hb (H1 & H2 & H3 & H4 & H5 & H6 & H7 & H8 & H9)].
  (* the packed bytes are in tx whatever follows: the first max(txlen, leaselen) bytes stay tagged *)
  assert (Hkeep : forall n, n <= Nat.max (s_txlen j) (s_leaselen j) ->
            n <= length (copy_into (s_tx j) (tag (s_lease j) bs)) /\
            Forall (fun tb : tbyte => snd tb = s_lease j) (firstn n (copy_into (s_tx j) (tag (s_lease j) bs)))).
  { intros n Hn. split.
    - rewrite copy_into_length. lia.
    - eapply Forall_firstn_le; [|apply (copy_into_tags _ (s_tx j) (tag (s_lease j) bs) n); [|apply tag_tags]].
      + lia.
      + eapply Forall_firstn_le; [|exact H9]. lia. }
  unfold job_write_msg. rewrite Epl.
  destruct (N.ltb udp_buf_size (N.of_nat (length bs))) eqn:Ebig.
  - (* refused by size (cannot arise for a real message): tx scribbled with own bytes, `written` *)
    split; [|split; reflexivity].
    apply (inv_serv_update c s own sid who _ [EWrite sid (s_lease j)]); auto.
    + intros e [<-|[]]; auto.
    + constructor; [apply (i_log _ _ _ Hinv) | exact I].
    + apply (serv_local_keep c (u_log s) [EWrite sid (s_lease j)] sid who j); auto.
      * intros e [<-|[]] _. cbn. auto.
      * intros _. left. auto.
      * unfold tags_ok. cbn. apply Hkeep. lia.
  - destruct (s_burst j) as [b|] eqn:Eb.
    + (* staged by length: the bytes were packed in place *)
      split; [|split; reflexivity].
      apply (inv_serv_update c s own sid who _ [EWrite sid (s_lease j)]); auto.
      * intros e [<-|[]]; auto.
      * constructor; [apply (i_log _ _ _ Hinv) | exact I].
      * apply (serv_local_keep c (u_log s) [EWrite sid (s_lease j)] sid who j); auto.
        -- intros e [<-|[]] _. cbn. auto.
        -- intros ->. cbn in H2. congruence.
        -- intros _. left. auto.
        -- unfold tags_ok. cbn. split.
           ++ rewrite copy_into_length, tag_length. lia.
           ++ replace (length bs) with (length (tag (s_lease j) bs)) at 1 by apply tag_length.
              apply copy_into_tags; [|apply tag_tags].
              eapply Forall_firstn_le; [|exact H9]. lia.
    + (* burst == nil: sent at once from the TX buffer *)
      split; [|split; reflexivity].
      apply (inv_serv_update c s own sid who _ [ESend sid (s_lease j) (s_raddr j) (tag (s_lease j) bs); EWrite sid (s_lease j)]); auto.
      * intros e [<-|[<-|[]]]; auto.
      * constructor; [constructor; [apply (i_log _ _ _ Hinv) | exact I]|].
        cbn. split; [apply tag_tags|]. split; [|split].
        -- destruct H6 as [H6 _]. eexists. right. eauto.
        -- left. auto.
        -- intros [E|Hin]; [discriminate|]. apply H5. auto.
      * apply (serv_local_keep c (u_log s) _ sid who j); auto.
        -- intros e [<-|[<-|[]]] _; cbn; auto.
        -- intros _. right. left. auto.
        -- unfold tags_ok. cbn. apply Hkeep. lia.
Qed.

(* ---- Write(lease): the in-place path *)
Lemma handler_write_lease_inv c s own sid :
  inv c s own ->
  match handler_write c s sid job_write_lease with
  | Ok s' => inv c s' own /\ u_burst s' = u_burst s /\ u_wdef s' = u_wdef s
  | Disabled => True
  | Panic => False
  end.
Proof.
  intros Hinv. unfold handler_write.
  destruct (get_slab s sid) as [j|] eqn:Hj; auto.
  destruct (serv_find sid (u_serv s)) as [who|] eqn:Hf; auto.
  apply serv_find_In in Hf. apply (i_serv _ _ _ Hinv) in Hf.
  pose proof (i_local _ _ _ Hinv sid _ j Hf Hj) as Hloc.
  pose proof Hloc as [Hb (H1 & H2 & H3 & H4 & H5 & H6 & H7 & H8 & H9)].
  unfold job_write_lease. destruct (s_burst j) as [b|] eqn:Eb.
  - split; [|split; reflexivity].
    apply (inv_serv_update c s own sid who _ [EWrite sid (s_lease j)]); auto.
    + intros e [<-|[]]; auto.
    + constructor; [apply (i_log _ _ _ Hinv) | exact I].
    + apply (serv_local_keep c (u_log s) [EWrite sid (s_lease j)] sid who j); auto.
      * intros e [<-|[]] _. cbn. auto.
      * intros ->. cbn in H2. congruence.
      * intros _. left. auto.
      * unfold tags_ok. cbn. rewrite Nat.max_id. split; [lia|].
        eapply Forall_firstn_le; [|exact H9]. lia.
  - split; [|split; reflexivity].
    apply (inv_serv_update c s own sid who _ [ESend sid (s_lease j) (s_raddr j) (tx_get (s_tx j) (s_leaselen j)); EWrite sid (s_lease j)]); auto.
    + intros e [<-|[<-|[]]]; auto.
    + constructor; [constructor; [apply (i_log _ _ _ Hinv) | exact I]|].
      cbn. rewrite tx_get_firstn by lia. split; [eapply Forall_firstn_le; [|exact H9]; lia|]. split; [|split].
      * destruct H6 as [H6 _]. eexists. right. eauto.
      * left. auto.
      * intros [E|Hin]; [discriminate|]. apply H5. auto.
    + apply (serv_local_keep c (u_log s) _ sid who j); auto.
      * intros e [<-|[<-|[]]] _; cbn; auto.
      * intros _. right. left. auto.
      * split; auto.
Qed.

(* ---- LeaseWire and append *)
Lemma handler_lease_inv c s own sid j who :
  inv c s own -> get_slab s sid = Some j -> nth_error own sid = Some (PServ who) ->
  inv c (put_slab s sid (job_lease j)) own.
Proof.
  intros Hinv Hj Hf.
  pose proof (i_local _ _ _ Hinv sid _ j Hf Hj) as Hloc.
  pose proof Hloc as [Hb (H1 & H2 & H3 & H4 & H5 & H6 & H7 & H8 & H9)].
  change (put_slab s sid (job_lease j)) with (set_log (put_slab s sid (job_lease j)) ([] ++ u_log s)).
  apply (inv_serv_update c s own sid who _ []); auto.
  - intros e [].
  - apply (i_log _ _ _ Hinv).
  - apply (serv_local_keep c (u_log s) [] sid who j); auto.
    + intros e [].
    + unfold tags_ok. cbn. split; [lia|]. eapply Forall_firstn_le; [|exact H9]. lia.
Qed.

Lemma handler_append_inv c s own sid j j1 who bs :
  inv c s own -> get_slab s sid = Some j -> nth_error own sid = Some (PServ who) ->
  job_append j bs = Some j1 ->
  inv c (add_log (put_slab s sid j1) (EWrite sid (s_lease j))) own.
Proof.
  intros Hinv Hj Hf Ha.
  pose proof (i_local _ _ _ Hinv sid _ j Hf Hj) as Hloc.
  pose proof Hloc as [Hb (H1 & H2 & H3 & H4 & H5 & H6 & H7 & H8 & H9)].
  unfold job_append in Ha. destruct (N.ltb _ _); [discriminate|]. inversion Ha; subst j1; clear Ha.
  apply (inv_serv_update c s own sid who _ [EWrite sid (s_lease j)]); auto.
  - intros e [<-|[]]; auto.
  - constructor; [apply (i_log _ _ _ Hinv) | exact I].
  - apply (serv_local_keep c (u_log s) [EWrite sid (s_lease j)] sid who j); auto.
    + intros e [<-|[]] _. cbn. auto.
    + intros _. left. auto.
    + unfold tags_ok. cbn. split.
      * rewrite write_at_length, tag_length by lia. lia.
      * replace (length bs) with (length (tag (s_lease j) bs)) by apply tag_length.
        apply write_at_tags; [lia| |apply tag_tags]. exact H9.
Qed.
