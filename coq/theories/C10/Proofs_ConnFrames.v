(* C10 — one connection end to end: the frames serveConn serves, the replies it stages for them, and
   what the client receives (closes the gap between conn_loop and f_frames; session 3). *)
From Sdns Require Import Common.Base Gen.C10 C10.Model C10.ModelStream C10.Proofs_Stream C10.Proofs_Read C10.Proofs_Conn C10.Proofs_Top.
Open Scope nat_scope.

(* 1. the served frames are a prefix of the frames the read side extracts *)
Lemma conn_frames_prefix D F scripts : forall fuel f st,
  exists k, conn_frames fuel D F scripts f st = firstn k (f_frames fuel F f).
Proof.
  induction fuel as [|fu IH]; intros f st.
  - exists 0. reflexivity.
  - cbn [conn_frames f_frames].
    assert (Z0 : forall l : list (list byte), exists k, [] = firstn k l) by (intros l; exists 0; reflexivity).
    destruct (Nat.ltb (length (f_buf f)) (N.to_nat frame_prefix_len)).
    + destruct (s_armflush st) as [st1 e]. destruct e; cbn [negb]; auto.
      destruct (f_next (S fu) F f (N.to_nat frame_prefix_len)) as [[pre f1]|]; auto.
      destruct (_ || _)%bool; auto.
      destruct (Nat.ltb (length (f_buf f1)) _).
      * destruct (s_arm st1) as [st2 aok]. destruct aok; cbn [negb]; auto.
        destruct (f_body (S fu) F f1 _) as [[rx f2]|]; auto.
        destruct (frame_sops rx (script_of scripts rx)) as [ops go].
        destruct go.
        -- destruct (IH f2 (s_run_quiet D st2 ops)) as (k & ->). exists (S k). reflexivity.
        -- exists 1. reflexivity.
      * destruct (f_body (S fu) F f1 _) as [[rx f2]|]; auto.
        destruct (frame_sops rx (script_of scripts rx)) as [ops go].
        destruct go.
        -- destruct (IH f2 (s_run_quiet D st1 ops)) as (k & ->). exists (S k). reflexivity.
        -- exists 1. reflexivity.
    + cbn [negb].
      destruct (f_next (S fu) F f (N.to_nat frame_prefix_len)) as [[pre f1]|]; auto.
      destruct (_ || _)%bool; auto.
      destruct (Nat.ltb (length (f_buf f1)) _).
      * destruct (s_arm st) as [st2 aok]. destruct aok; cbn [negb]; auto.
        destruct (f_body (S fu) F f1 _) as [[rx f2]|]; auto.
        destruct (frame_sops rx (script_of scripts rx)) as [ops go].
        destruct go.
        -- destruct (IH f2 (s_run_quiet D st2 ops)) as (k & ->). exists (S k). reflexivity.
        -- exists 1. reflexivity.
      * destruct (f_body (S fu) F f1 _) as [[rx f2]|]; auto.
        destruct (frame_sops rx (script_of scripts rx)) as [ops go].
        destruct go.
        -- destruct (IH f2 (s_run_quiet D st ops)) as (k & ->). exists (S k). reflexivity.
        -- exists 1. reflexivity.
Qed.

(* 2. what the loop stages over the whole connection is exactly the replies to the served frames,
   frame by frame in the order they were read (the loop's own flushes and deadline calls stage
   nothing) *)
Ltac fin :=
  try match goal with |- context [match t_held ?s with _ => _ end] => destruct (t_held s); cbn [snd] end;
  rewrite ?flat_map_app; cbn [flat_map sop_payloads app]; rewrite ?app_nil_r, <- ?app_assoc; try reflexivity.

Lemma conn_loop_payloads D F scripts : forall fuel f st tr,
  flat_map sop_payloads (snd (conn_loop fuel D F scripts f st tr)) =
  flat_map sop_payloads tr ++ flat_map (frame_replies scripts) (conn_frames fuel D F scripts f st).
Proof.
  induction fuel as [|fu IH]; intros f st tr.
  - cbn [conn_loop conn_frames]. fin.
  - cbn [conn_loop conn_frames].
    destruct (Nat.ltb (length (f_buf f)) (N.to_nat frame_prefix_len)).
    + destruct (s_armflush st) as [st1 e].
      destruct e; cbn [negb]; try solve [fin].
      destruct (f_next (S fu) F f (N.to_nat frame_prefix_len)) as [[pre f1]|]; [|solve [fin]].
      destruct (_ || _)%bool; [solve [fin]|].
      destruct (Nat.ltb (length (f_buf f1)) _).
      * destruct (s_arm st1) as [st2 aok].
        destruct aok; cbn [negb]; [|solve [fin]].
        destruct (f_body (S fu) F f1 _) as [[rx f2]|]; [|solve [fin]].
        destruct (frame_sops rx (script_of scripts rx)) as [ops go] eqn:Efs.
        assert (Hfr : frame_replies scripts rx = flat_map sop_payloads ops) by (unfold frame_replies; rewrite Efs; reflexivity).
        cbn [flat_map]. rewrite Hfr.
        destruct go; [rewrite IH|]; fin.
      * cbn [negb]. destruct (f_body (S fu) F f1 _) as [[rx f2]|]; [|solve [fin]].
        destruct (frame_sops rx (script_of scripts rx)) as [ops go] eqn:Efs.
        assert (Hfr : frame_replies scripts rx = flat_map sop_payloads ops) by (unfold frame_replies; rewrite Efs; reflexivity).
        cbn [flat_map]. rewrite Hfr.
        destruct go; [rewrite IH|]; fin.
    + cbn [negb].
      destruct (f_next (S fu) F f (N.to_nat frame_prefix_len)) as [[pre f1]|]; [|solve [fin]].
      destruct (_ || _)%bool; [solve [fin]|].
      destruct (Nat.ltb (length (f_buf f1)) _).
      * destruct (s_arm st) as [st2 aok].
        destruct aok; cbn [negb]; [|solve [fin]].
        destruct (f_body (S fu) F f1 _) as [[rx f2]|]; [|solve [fin]].
        destruct (frame_sops rx (script_of scripts rx)) as [ops go] eqn:Efs.
        assert (Hfr : frame_replies scripts rx = flat_map sop_payloads ops) by (unfold frame_replies; rewrite Efs; reflexivity).
        cbn [flat_map]. rewrite Hfr.
        destruct go; [rewrite IH|]; fin.
      * cbn [negb]. destruct (f_body (S fu) F f1 _) as [[rx f2]|]; [|solve [fin]].
        destruct (frame_sops rx (script_of scripts rx)) as [ops go] eqn:Efs.
        assert (Hfr : frame_replies scripts rx = flat_map sop_payloads ops) by (unfold frame_replies; rewrite Efs; reflexivity).
        cbn [flat_map]. rewrite Hfr.
        destruct go; [rewrite IH|]; fin.
Qed.

(* 3. end to end for one connection: for every drain size, every fill size that holds a prefix,
   every client byte stream and read chunking, every handler script, write budget and deadline
   outcome: what the client receives is a prefix of the frame stream of payloads that are, in
   order, a subsequence of the replies to the first k well-formed query frames of ITS byte stream
   — whole frames, in query order, nothing else *)
Theorem conn_replies_lemma D F scripts input reads script arms :
  N.to_nat frame_prefix_len <= F ->
  let fuel := S (length input) in
  let st := fst (conn_loop fuel D F scripts (mkFstate 0 [] (mkRconn input reads)) (s_init script arms) []) in
  exists k, is_prefix (wire st) (stream_of (t_acc st)) /\
            subseq (t_acc st) (flat_map (frame_replies scripts) (firstn k (ref_frames fuel input))).
Proof.
  intros HF fuel st.
  destruct (Proofs_Top.conn_trace_lemma D F scripts fuel (mkFstate 0 [] (mkRconn input reads)) (s_init script arms)) as (ops & E1 & E2).
  pose proof (Proofs_Top.stream_framing_lemma D script arms ops) as H.
  destruct (s_run D (s_init script arms) ops) as [st' errs] eqn:Er. cbn [fst] in E2.
  destruct H as (Hp & _ & _ & Hs).
  destruct (conn_frames_prefix D F scripts fuel (mkFstate 0 [] (mkRconn input reads)) (s_init script arms)) as (k & Ek).
  exists k. subst st. rewrite E2. split; auto.
  rewrite <- E1, conn_loop_payloads, Ek in Hs. cbn [flat_map app] in Hs.
  unfold fuel in Hs. rewrite (serve_conn_reads_frames F input reads HF) in Hs. exact Hs.
Qed.
