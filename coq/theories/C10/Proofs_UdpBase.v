(* C10 — UDP engine proofs, part 1: list/slab lemmas and the invariant's vocabulary. *)
From Sdns Require Import Common.Base Gen.C10 C10.Model.
Open Scope nat_scope.

(* ------------------------------------------------------------------ upd / nth_error *)
Lemma upd_length {A} (l : list A) i x : length (upd l i x) = length l.
Proof. revert i; induction l as [|h t IH]; intros [|i]; cbn; auto. Qed.

Lemma nth_upd_same {A} (l : list A) i x : i < length l -> nth_error (upd l i x) i = Some x.
Proof. revert i; induction l as [|h t IH]; intros [|i] H; cbn in *; try lia; auto. apply IH; lia. Qed.

Lemma nth_upd_other {A} (l : list A) i k x : i <> k -> nth_error (upd l i x) k = nth_error l k.
Proof. revert i k; induction l as [|h t IH]; intros [|i] [|k] H; cbn; auto; try congruence. Qed.

Lemma nth_error_lt {A} (l : list A) i x : nth_error l i = Some x -> i < length l.
Proof. intros H. apply nth_error_Some. congruence. Qed.

Lemma nth_app_fresh {A} (l : list A) x : nth_error (l ++ [x]) (length l) = Some x.
Proof. rewrite nth_error_app2 by lia. rewrite Nat.sub_diag. reflexivity. Qed.

Lemma nth_app_old {A} (l : list A) x i : i < length l -> nth_error (l ++ [x]) i = nth_error l i.
Proof. intros. apply nth_error_app1; auto. Qed.

(* ------------------------------------------------------------------ membership in the owner lists *)
Lemma mem_nat_In x l : mem_nat x l = true <-> In x l.
Proof.
  unfold mem_nat. rewrite existsb_exists. split.
  - intros (y & Hy & E). apply Nat.eqb_eq in E. subst; auto.
  - intros H. exists x. split; auto. apply Nat.eqb_refl.
Qed.

Lemma rem_nat_In x y l : In y (rem_nat x l) <-> In y l /\ y <> x.
Proof.
  unfold rem_nat. rewrite filter_In. split; intros [H1 H2]; split; auto.
  - intros ->. rewrite Nat.eqb_refl in H2. discriminate.
  - apply Bool.negb_true_iff. apply Nat.eqb_neq. auto.
Qed.

Lemma held_mem_In r sid l : held_mem r sid l = true <-> In (r, sid) l.
Proof.
  unfold held_mem. rewrite existsb_exists. split.
  - intros ([a b] & Hy & E). unfold pair_eqb in E. cbn in E. apply andb_prop in E as [E1 E2].
    apply Nat.eqb_eq in E1, E2. subst; auto.
  - intros H. exists (r, sid). split; auto. unfold pair_eqb. cbn. now rewrite !Nat.eqb_refl.
Qed.

Lemma held_rem_In sid p l : In p (held_rem sid l) <-> In p l /\ snd p <> sid.
Proof.
  unfold held_rem. rewrite filter_In. split; intros [H1 H2]; split; auto.
  - intros E. rewrite E, Nat.eqb_refl in H2. discriminate.
  - apply Bool.negb_true_iff. apply Nat.eqb_neq. auto.
Qed.

Lemma serv_rem_In sid p l : In p (serv_rem sid l) <-> In p l /\ fst p <> sid.
Proof.
  unfold serv_rem. rewrite filter_In. split; intros [H1 H2]; split; auto.
  - intros E. rewrite E, Nat.eqb_refl in H2. discriminate.
  - apply Bool.negb_true_iff. apply Nat.eqb_neq. auto.
Qed.

Lemma burst_del_In sid p l : In p (burst_del sid l) <-> In p l /\ snd p <> sid.
Proof.
  unfold burst_del. rewrite filter_In. split; intros [H1 H2]; split; auto.
  - intros E. rewrite E, Nat.eqb_refl in H2. discriminate.
  - apply Bool.negb_true_iff. apply Nat.eqb_neq. auto.
Qed.

Lemma burst_of_In b sid l : In sid (burst_of b l) <-> In (b, sid) l.
Proof.
  unfold burst_of. rewrite in_map_iff. split.
  - intros ([b' s'] & E & H). cbn in E. subst. apply filter_In in H as [H E]. cbn in E.
    apply Nat.eqb_eq in E. subst. auto.
  - intros H. exists (b, sid). split; auto. apply filter_In. split; auto. cbn. apply Nat.eqb_refl.
Qed.

Lemma serv_find_Some sid who l :
  NoDup (map fst l) -> (serv_find sid l = Some who <-> In (sid, who) l).
Proof.
  unfold serv_find. intros ND. induction l as [|[s w] t IH]; cbn.
  - split; [discriminate | tauto].
  - inversion ND as [|? ? Hn ND']; subst. destruct (Nat.eqb s sid) eqn:E; cbn.
    + apply Nat.eqb_eq in E. subst. split.
      * intros [= ->]. auto.
      * intros [[= ->]|H]; auto. exfalso. apply Hn. apply in_map_iff. exists (sid, who). auto.
    + apply Nat.eqb_neq in E. rewrite (IH ND'). split; auto.
      intros [[= -> ->]|H]; auto. congruence.
Qed.

Lemma serv_find_In sid who l : serv_find sid l = Some who -> In (sid, who) l.
Proof.
  unfold serv_find. destruct (find _ l) as [[s w]|] eqn:F; [|discriminate].
  intros [= <-]. apply find_some in F as [H E]. cbn in E. apply Nat.eqb_eq in E. subst. auto.
Qed.

Lemma serv_of_None a l : serv_of a l = None -> forall sid, ~ In (sid, a) l.
Proof.
  unfold serv_of. destruct (find _ l) eqn:F; [discriminate|]. intros _ sid H.
  eapply find_none in F; eauto. cbn in F.
  destruct a; cbn in F; rewrite ?Nat.eqb_refl in F; discriminate.
Qed.

Lemma NoDup_map_filter {A B} (g : A -> B) (f : A -> bool) l :
  NoDup (map g l) -> NoDup (map g (filter f l)).
Proof.
  induction l as [|h t IH]; cbn; auto. intros ND. inversion ND as [|? ? Hn ND']; subst.
  destruct (f h); cbn; auto. constructor; auto. intros H. apply Hn.
  apply in_map_iff in H as (x & E & Hx). apply filter_In in Hx as [Hx _]. apply in_map_iff. eauto.
Qed.

Lemma NoDup_app_one {A} (l : list A) x : NoDup l -> ~ In x l -> NoDup (l ++ [x]).
Proof.
  intros ND Hn. induction l as [|h t IH]; cbn.
  - constructor; auto.
  - inversion ND; subst. constructor.
    + intros H. apply in_app_iff in H as [H|[H|[]]]; auto. subst. apply Hn. left; auto.
    + apply IH; auto. intros H. apply Hn. right; auto.
Qed.

(* ------------------------------------------------------------------ slab field lemmas *)
Lemma transition_Some j from to j' :
  transition j from to = Some j' -> s_state j = from /\ j' = set_state j to.
Proof. unfold transition. destruct (N.eqb_spec (s_state j) from); [|discriminate]. intros [= <-]. auto. Qed.

Lemma transition_ok j from to : s_state j = from -> transition j from to = Some (set_state j to).
Proof. unfold transition. intros ->. now rewrite N.eqb_refl. Qed.

(* the distinct state names, as read from the source now *)
Lemma states_distinct :
  st_free <> st_reading /\ st_free <> st_queued /\ st_free <> st_serving /\
  st_reading <> st_queued /\ st_reading <> st_serving /\ st_queued <> st_serving.
Proof. repeat split; discriminate. Qed.

(* what release() assigns, as read from the source now *)
Lemma release_constants :
  release_txlen = 0%N /\ release_rxlen = 0%N /\ release_written = false /\ release_replay = false /\
  reader_rawsalen = 0%N /\ udp_lease_start = 0%N.
Proof. repeat split; reflexivity. Qed.

Lemma tx_max_ge_2 : (2 <= udp_tx_max)%N.
Proof. unfold udp_tx_max. lia. Qed.

(* ------------------------------------------------------------------ vocabulary of the invariant *)
Inductive place := PIdle | PHeld (r : nat) | PReady | PServ (who : actor) | PBurst (b : nat).

Definition actor_burst (c : cfg) (who : actor) : option nat :=
  match who with Worker w => Some w | Overflow => None | Inline r => Some (c_workers c + r) end.

Definition ev_sid (e : event) : nat :=
  match e with ERecv s _ _ _ => s | EWrite s _ => s | ESend s _ _ _ => s | ERelease s _ => s end.
Definition ev_lease (e : event) : nat :=
  match e with ERecv _ l _ _ => l | EWrite _ l => l | ESend _ l _ _ => l | ERelease _ l => l end.

(* the first n bytes of the TX buffer exist and were all written in the slab's current lease *)
Definition tags_ok (j : slab) (n : nat) : Prop :=
  n <= length (s_tx j) /\ Forall (fun tb => snd tb = s_lease j) (firstn n (s_tx j)).

Definition filled (log : list event) (sid : nat) (j : slab) : Prop :=
  In (ERecv sid (s_lease j) (s_raddr j) (s_rx j)) log /\ (forall a, s_rawsa j = Some a -> a = s_raddr j).
Definition live (log : list event) (sid : nat) (j : slab) : Prop := ~ In (ERelease sid (s_lease j)) log.
Definition wrote (log : list event) (sid : nat) (j : slab) : Prop :=
  s_txlen j <> 0 -> In (EWrite sid (s_lease j)) log.
Definition bounded (log : list event) (sid : nat) (j : slab) : Prop :=
  forall e, In e log -> ev_sid e = sid -> ev_lease e <= s_lease j.

Definition local_ok (c : cfg) (log : list event) (sid : nat) (p : place) (j : slab) : Prop :=
  bounded log sid j /\
  match p with
  | PIdle => s_state j = st_free /\ s_txlen j = 0
  | PHeld _ => s_state j = st_reading /\ s_txlen j = 0 /\ live log sid j /\
               (forall a rx, ~ In (ERecv sid (s_lease j) a rx) log)
  | PReady => s_state j = st_queued /\ s_txlen j = 0 /\ live log sid j /\ filled log sid j
  | PServ who => s_state j = st_serving /\ s_burst j = actor_burst c who /\
                 (who = Overflow -> s_txlen j = 0) /\ (forall w, who = Worker w -> w < c_workers c) /\
                 live log sid j /\ filled log sid j /\ wrote log sid j /\
                 tags_ok j (Nat.max (s_txlen j) (s_leaselen j))
  | PBurst _ => s_state j = st_serving /\ s_txlen j <> 0 /\ live log sid j /\ filled log sid j /\
                wrote log sid j /\ tags_ok j (s_txlen j)
  end.

(* every datagram in the log is justified by what is OLDER in the log *)
Definition justified (e : event) (older : list event) : Prop :=
  match e with
  | ESend sid l a bs =>
      Forall (fun tb => snd tb = l) bs /\
      (exists rx, In (ERecv sid l a rx) older) /\
      In (EWrite sid l) older /\
      ~ In (ERelease sid l) older
  | ERecv sid l _ _ => forall a rx, ~ In (ERecv sid l a rx) older
  | _ => True
  end.
Inductive log_ok : list event -> Prop :=
| log_nil : log_ok []
| log_cons e l : log_ok l -> justified e l -> log_ok (e :: l).

Record inv (c : cfg) (s : ust) (own : list place) : Prop := mkInv {
  i_len : length own = length (u_slabs s);
  i_idle : forall sid, In sid (u_idle s) <-> nth_error own sid = Some PIdle;
  i_idle_nd : NoDup (u_idle s);
  i_held : forall r sid, In (r, sid) (u_held s) <-> nth_error own sid = Some (PHeld r);
  i_held_nd : NoDup (map snd (u_held s));
  i_ready : forall sid, In sid (u_ready s) <-> nth_error own sid = Some PReady;
  i_ready_nd : NoDup (u_ready s);
  i_serv : forall sid who, In (sid, who) (u_serv s) <-> nth_error own sid = Some (PServ who);
  i_serv_nd : NoDup (map fst (u_serv s));
  i_burst : forall b sid, In (b, sid) (u_burst s) <-> nth_error own sid = Some (PBurst b);
  i_burst_nd : NoDup (map snd (u_burst s));
  i_local : forall sid p j, nth_error own sid = Some p -> nth_error (u_slabs s) sid = Some j ->
                            local_ok c (u_log s) sid p j;
  i_bsize : forall b, (N.of_nat (length (burst_of b (u_burst s))) <= udp_tx_max)%N;
  i_wdef : forall w, In w (u_wdef s) -> w < c_workers c /\ burst_of w (u_burst s) = [];
  i_log : log_ok (u_log s);
  i_logsid : forall e, In e (u_log s) -> ev_sid e < length (u_slabs s)
}.

(* a worker's burst is never full when the worker is about to serve: the loop flushes a full
   burst right after the serve that filled it *)
Definition wsize (c : cfg) (s : ust) : Prop :=
  forall b, b < c_workers c -> (N.of_nat (length (burst_of b (u_burst s))) < udp_tx_max)%N.
