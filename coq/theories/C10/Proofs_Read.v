(* C10 — read side of a stream connection: for every fill-buffer size >= the prefix length and
   every chunking of the client's byte stream by conn.Read, the frames serveConn extracts are the
   frames a reference parser finds in the byte stream — whole, one per query, in order. *)
From Sdns Require Import Common.Base Gen.C10 C10.Model C10.ModelStream C10.Proofs_UdpTags.
Open Scope nat_scope.

Lemma skipn_skipn' {A} (l : list A) a b : skipn a (skipn b l) = skipn (b + a) l.
Proof. revert l; induction b as [|b IH]; intros [|h t]; cbn; auto. now rewrite skipn_nil. Qed.

Definition rem (f : fstate) : list byte := f_buf f ++ r_in (f_conn f).

(* the reference: length prefix, range check, body; stops at the first frame it cannot complete *)
Fixpoint ref_frames (fuel : nat) (bs : list byte) : list (list byte) :=
  match fuel with
  | O => []
  | S fu =>
      match bs with
      | h :: l :: rest =>
          let n := (h * 256 + l)%N in
          if ((n <? min_tcp_frame) || (max_msg_size <? n))%N then []
          else if length rest <? N.to_nat n then []
               else firstn (N.to_nat n) rest :: ref_frames fu (skipn (N.to_nat n) rest)
      | _ => []
      end
  end.

Lemma conn_read_spec k room bs k' :
  1 <= room -> conn_read k room = Some (bs, k') ->
  exists w, 1 <= w <= room /\ bs = firstn w (r_in k) /\ r_in k' = skipn w (r_in k) /\ r_in k <> [].
Proof.
  unfold conn_read. intros Hr. destruct (r_in k) as [|h t] eqn:E; [discriminate|].
  intros [= <- <-]. cbn [r_in].
  destruct (r_script k) as [|c r].
  - exists room. repeat split; auto; try lia. discriminate.
  - exists (Nat.min room (Nat.max 1 c)). repeat split; auto; try lia. discriminate.
Qed.

Lemma conn_read_none k room : conn_read k room = None -> r_in k = [].
Proof. unfold conn_read. destruct (r_in k); [auto|discriminate]. Qed.

Section Read.
  Variable F : nat.

  Lemma fill_more_spec f f1 :
    length (f_buf f) <= F -> f_fill_more F f = Some f1 ->
    rem f1 = rem f /\ length (f_buf f) < length (f_buf f1) <= F /\
    length (r_in (f_conn f1)) < length (r_in (f_conn f)).
  Proof.
    unfold f_fill_more. cbn [f_buf f_conn]. intros Hb.
    destruct (Nat.eqb_spec (length (f_buf f)) F) as [E|Hne]; [discriminate|].
    destruct (conn_read (f_conn f) (F - length (f_buf f))) as [[bs k]|] eqn:Er; [|discriminate].
    intros [= <-]. assert (Hroom : 1 <= F - length (f_buf f)) by lia.
    destruct (conn_read_spec _ _ _ _ Hroom Er) as (w & Hw & -> & Hk & Hne').
    unfold rem. cbn [f_buf f_conn]. rewrite Hk, <- app_assoc, firstn_skipn.
    destruct (r_in (f_conn f)) as [|h t] eqn:Ei; [congruence|].
    rewrite app_length, firstn_length, skipn_length. cbn [length]. split; auto. lia.
  Qed.

  Lemma fill_more_none f :
    length (f_buf f) < F -> f_fill_more F f = None -> r_in (f_conn f) = [].
  Proof.
    unfold f_fill_more. cbn [f_buf f_conn]. intros Hb.
    destruct (Nat.eqb_spec (length (f_buf f)) F) as [E|Hne]; [lia|].
    destruct (conn_read (f_conn f) _) as [[bs k]|] eqn:Er; [discriminate|].
    intros _. eapply conn_read_none; eauto.
  Qed.

  Lemma f_next_spec : forall fuel f n,
    length (f_buf f) <= F -> n <= F -> length (r_in (f_conn f)) < fuel ->
    match f_next fuel F f n with
    | Some (bs, f') => n <= length (rem f) /\ bs = firstn n (rem f) /\ rem f' = skipn n (rem f) /\
                       length (f_buf f') <= F
    | None => length (rem f) < n
    end.
  Proof.
    induction fuel as [|fu IH]; intros f n Hb Hn Hf; [lia|].
    cbn [f_next]. destruct (Nat.leb_spec n (length (f_buf f))) as [Hle|Hgt].
    - unfold rem. cbn [f_buf f_conn]. rewrite app_length, firstn_app, skipn_app.
      replace (n - length (f_buf f)) with 0 by lia. cbn [firstn skipn]. rewrite app_nil_r, skipn_length.
      repeat split; auto; lia.
    - destruct (f_fill_more F f) as [f1|] eqn:Em.
      + destruct (fill_more_spec f f1 Hb Em) as (Hr & Hl & Hi).
        specialize (IH f1 n ltac:(lia) Hn ltac:(lia)). rewrite Hr in IH.
        destruct (f_next fu F f1 n) as [[bs f']|]; auto.
      + apply fill_more_none in Em; [|lia]. unfold rem. rewrite Em, app_nil_r. lia.
  Qed.

  Lemma read_full_spec : forall fuel n k,
    length (r_in k) < fuel ->
    match read_full fuel k n with
    | Some (bs, k') => n <= length (r_in k) /\ bs = firstn n (r_in k) /\ r_in k' = skipn n (r_in k)
    | None => length (r_in k) < n
    end.
  Proof.
    induction fuel as [|fu IH]; intros n k Hf; [lia|].
    destruct n as [|n]; [cbn; repeat split; auto; lia|].
    cbn [read_full]. destruct (conn_read k (S n)) as [[bs k1]|] eqn:Er.
    - assert (Hroom : 1 <= S n) by lia.
      destruct (conn_read_spec _ _ _ _ Hroom Er) as (w & Hw & -> & Hk & Hne).
      destruct (r_in k) as [|h t] eqn:Ei; [congruence|].
      assert (Hlen : length (firstn w (h :: t)) = Nat.min w (S (length t))) by (rewrite firstn_length; reflexivity).
      specialize (IH (S n - length (firstn w (h :: t))) k1). rewrite Hk, skipn_length in IH. cbn [length] in IH, Hf.
      specialize (IH ltac:(lia)).
      destruct (read_full fu k1 _) as [[bs2 k2]|].
      + destruct IH as (I1 & -> & I3). rewrite Hlen in *. split; [cbn [length]; lia|]. split.
        * (* firstn w l ++ firstn (S n - min ..) (skipn w l) = firstn (S n) l *)
          assert (Hw' : Nat.min w (S (length t)) = w) by lia. rewrite Hw' in *.
          replace (S n) with (w + (S n - w)) at 2 by lia. rewrite firstn_add'. reflexivity.
        * rewrite I3. assert (Hw' : Nat.min w (S (length t)) = w) by lia. rewrite Hw'.
          rewrite skipn_skipn'. f_equal. lia.
      + rewrite Hlen in IH. cbn [length]. lia.
    - apply conn_read_none in Er. rewrite Er. cbn. lia.
  Qed.

  Lemma f_body_spec fuel f n :
    length (f_buf f) <= F -> length (r_in (f_conn f)) < fuel ->
    match f_body fuel F f n with
    | Some (bs, f') => n <= length (rem f) /\ bs = firstn n (rem f) /\ rem f' = skipn n (rem f) /\
                       length (f_buf f') <= F
    | None => length (rem f) < n
    end.
  Proof.
    intros Hb Hf. unfold f_body. destruct (Nat.leb_spec n F) as [Hle|Hgt].
    - apply f_next_spec; auto.
    - rewrite (firstn_all2 (f_buf f) (n := n)) by lia.
      pose proof (read_full_spec fuel (n - length (f_buf f)) (f_conn f) Hf) as R.
      destruct (read_full fuel (f_conn f) _) as [[bs k]|].
      + destruct R as (R1 & -> & R3). unfold rem. cbn [f_buf f_conn].
        rewrite app_length, firstn_app, skipn_app, (firstn_all2 (f_buf f) (n := n)) by lia.
        rewrite (skipn_all2 (f_buf f) (n := n)) by lia. cbn [app length]. rewrite R3.
        repeat split; auto; lia.
      + unfold rem. rewrite app_length. lia.
  Qed.

  Hypothesis HF : N.to_nat frame_prefix_len <= F.

  Theorem f_frames_ref : forall fuel f,
    length (f_buf f) <= F -> length (rem f) < fuel ->
    f_frames fuel F f = ref_frames fuel (rem f).
  Proof.
    induction fuel as [|fu IH]; intros f Hb Hf; [reflexivity|].
    cbn [f_frames ref_frames].
    assert (Hin : length (r_in (f_conn f)) < S fu) by (unfold rem in Hf; rewrite app_length in Hf; lia).
    pose proof (f_next_spec (S fu) f (N.to_nat frame_prefix_len) Hb HF Hin) as Hn.
    destruct (f_next (S fu) F f (N.to_nat frame_prefix_len)) as [[pre f1]|].
    - destruct Hn as (H1 & -> & H3 & H4). change (N.to_nat frame_prefix_len) with 2 in *.
      destruct (rem f) as [|h [|l rest]] eqn:Er; cbn [length] in H1; try lia.
      cbn [firstn skipn] in *. unfold nthb. cbn [nth].
      destruct (_ || _)%bool; [reflexivity|].
      assert (Hin1 : length (r_in (f_conn f1)) < S fu).
      { pose proof (f_equal (@length byte) H3) as L. unfold rem in L. rewrite app_length in L. cbn [length] in Hf. lia. }
      pose proof (f_body_spec (S fu) f1 (N.to_nat (h * 256 + l)) H4 Hin1) as Hbd. rewrite H3 in Hbd.
      destruct (f_body (S fu) F f1 _) as [[b f2]|].
      + destruct Hbd as (B1 & -> & B3 & B4).
        destruct (Nat.ltb_spec (length rest) (N.to_nat (h * 256 + l))); [lia|].
        f_equal. rewrite <- B3. apply IH; auto.
        rewrite B3, skipn_length. cbn [length] in Hf. lia.
      + destruct (Nat.ltb_spec (length rest) (N.to_nat (h * 256 + l))); [reflexivity|lia].
    - change (N.to_nat frame_prefix_len) with 2 in Hn.
      destruct (rem f) as [|h [|l rest]]; cbn [length] in Hn; auto; lia.
  Qed.
End Read.

(* from a fresh connection *)
Corollary serve_conn_reads_frames F input script :
  N.to_nat frame_prefix_len <= F ->
  f_frames (S (length input)) F (mkFstate 0 [] (mkRconn input script)) = ref_frames (S (length input)) input.
Proof.
  intros HF. apply (f_frames_ref F HF); cbn; lia.
Qed.
